(* Generic model runner: one case per input line, "<opcode> tok tok ...".
   Tokens: decimal integers, x<hex> byte strings, - for nil, [ ... ] lists.
   Prints the observable tree returned by the extracted [Model.dispatch]. *)
open Model

let rec pos_of_int n =
  if n = 1 then XH
  else if n land 1 = 0 then XO (pos_of_int (n lsr 1))
  else XI (pos_of_int (n lsr 1))

let z_of_int n = if n = 0 then Z0 else if n > 0 then Zpos (pos_of_int n) else Zneg (pos_of_int (-n))

let digit_tab = Array.init 10 z_of_int

(* decimal strings may exceed OCaml's int range: conversion is done by the extracted model *)
let z_of_string s =
  let neg = String.length s > 0 && s.[0] = '-' in
  let start = if neg then 1 else 0 in
  let ds = List.init (String.length s - start) (fun i ->
      let c = s.[start + i] in
      if c < '0' || c > '9' then failwith "bad int";
      digit_tab.(Char.code c - 48)) in
  if ds = [] then failwith "bad int";
  z_of_digits neg ds

let small_int z =
  let rec int_of_pos = function XH -> 1 | XO p -> 2 * int_of_pos p | XI p -> 2 * int_of_pos p + 1 in
  match z with Z0 -> 0 | Zpos p -> int_of_pos p | Zneg p -> - (int_of_pos p)

let string_of_z z =
  let (neg, ds) = digits_of_z z in
  let b = Buffer.create 20 in
  if neg then Buffer.add_char b '-';
  List.iter (fun d -> Buffer.add_char b (Char.chr (48 + small_int d))) ds;
  Buffer.contents b

let hexval c =
  match c with
  | '0'..'9' -> Char.code c - 48
  | 'a'..'f' -> Char.code c - 87
  | 'A'..'F' -> Char.code c - 55
  | _ -> failwith "bad hex"

let byte_tab = Array.init 256 z_of_int

let bytes_of_hex s off =
  let n = (String.length s - off) / 2 in
  List.init n (fun i -> byte_tab.(16 * hexval s.[off + 2*i] + hexval s.[off + 2*i + 1]))

(* parse tokens from a list of words *)
let rec parse_toks words =
  match words with
  | [] -> [], []
  | "]" :: rest -> [], rest
  | "[" :: rest ->
    let inner, rest = parse_toks rest in
    let more, rest = parse_toks rest in
    TList inner :: more, rest
  | "-" :: rest ->
    let more, rest = parse_toks rest in
    TNil :: more, rest
  | w :: rest ->
    let t =
      if String.length w > 0 && w.[0] = 'x' then TBytes (bytes_of_hex w 1)
      else TInt (z_of_string w) in
    let more, rest = parse_toks rest in
    t :: more, rest

let rec print_value buf v =
  match v with
  | VInt z -> Buffer.add_string buf (string_of_z z)
  | VBytes l ->
    Buffer.add_char buf 'x';
    List.iter (fun b -> Buffer.add_string buf (Printf.sprintf "%02x" (small_int b))) l
  | VList l ->
    Buffer.add_char buf '[';
    List.iteri (fun i x -> if i > 0 then Buffer.add_char buf ' '; print_value buf x) l;
    Buffer.add_char buf ']'
  | VTag (n, x) ->
    Buffer.add_char buf '#';
    Buffer.add_string buf (string_of_z n);
    Buffer.add_char buf '(';
    print_value buf x;
    Buffer.add_char buf ')'

let () =
  let buf = Buffer.create 65536 in
  (try
     while true do
       let line = input_line stdin in
       let words = List.filter (fun s -> s <> "") (String.split_on_char ' ' line) in
       (match words with
        | [] -> print_endline ""
        | op :: rest ->
          Buffer.clear buf;
          (try
             let toks, _ = parse_toks rest in
             print_value buf (dispatch (z_of_string op) toks)
           with Failure m -> Buffer.add_string buf ("!parse " ^ m));
          print_endline (Buffer.contents buf))
     done
   with End_of_file -> ())
