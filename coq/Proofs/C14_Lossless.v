(* C14: composition.  H265Payloader output for a sequence of NAL units (AddDONL off), parsed by
   H265Packet and reassembled the way RFC 7798 prescribes, is exactly the sequence of units.
   (A unit of exactly MTU-1 bytes used to become a lone FU - the former KF-C14-lone-fu; since the
   repair it is sent as a single NAL unit packet and is covered here like any other.) *)
From Coq Require Import ZArith List Lia Bool.
From Coq Require Import ZifyBool.
From RTP Require Import Base.Bits Base.Res Base.ListX Base.Own Base.Bytes Base.Tactics
  Model.AnnexB Model.H265 Proofs.C10_H264 Proofs.C14_Fu Proofs.C14_Agg Proofs.C08_Mtu Proofs.C08_More Proofs.C08_H265.
Import ListNotations.
Open Scope Z_scope.
Ltac bits := autorewrite with bits.

Definition parses (f : bref) (p : h5packet) : Prop := h265_unmarshal false (Some (own_bytes f)) = Ok p.

(* the receiver side of RFC 7798, AddDONL off: single NAL unit packets, aggregation packets, and
   FU runs from S to E *)
Definition nal_of_single (hdr : Z) (payload : list Z) : list Z := Z.shiftr hdr 8 :: Z.land hdr 255 :: payload.

Fixpoint reassemble (pkts : list h5packet) (cur : option (list Z)) : list (list Z) :=
  match pkts with
  | [] => []
  | PSingle hdr _ pl :: t => nal_of_single hdr pl :: reassemble t None
  | PAgg _ first others :: t => (first :: map snd others) ++ reassemble t None
  | PFu hdr fuh _ pl :: t =>
    let acc := if fu_s fuh then fu_nal_header hdr fuh ++ pl
               else match cur with Some a => a ++ pl | None => pl end in
    if fu_e fuh then acc :: reassemble t None else reassemble t (Some acc)
  | PPaci _ _ _ _ :: t => reassemble t cur
  end.

Definition unit_ok (mtu : Z) (n : list Z) : Prop := valid_nal5 n.

Lemma valid_nal5_len n : valid_nal5 n -> 3 <= zlen n.
Proof.
  destruct n as [|a [|b [|c t]]]; cbn [valid_nal5]; try contradiction. intros _.
  rewrite !zlen_cons. pose proof (zlen_nonneg t). lia.
Qed.

Lemma single_reassembles n : valid_nal5 n ->
  exists p, parses (Own n) p /\ forall rest, reassemble (p :: rest) None = n :: reassemble rest None.
Proof.
  intros Hv. pose proof (single_parses n Hv) as Hp. destruct n as [|h0 [|h1 body]]; try contradiction.
  exists (PSingle (Z.lor (Z.shiftl h0 8) h1) None body). split; [exact Hp|].
  intros rest. cbn [reassemble]. f_equal. unfold nal_of_single.
  destruct body as [|x body']; [contradiction|]. destruct Hv as (H0 & H1 & _).
  rewrite shiftl_8, (lor_add_small (h0 * 256) h1 8) by lia. rewrite shiftr_8, land_255. f_equal; [lia|f_equal; lia].
Qed.

(* flushing the aggregation buffer delivers exactly the buffered units *)
Lemma flush_reassembles mtu st b : h5_donl_on st = false -> buf_ok mtu false b ->
  Forall (fun n => valid_nal5 n /\ zlen n < 65536) (hb_nalus b) ->
  exists fs pkts, h5_flush st b = Ok (st, fs) /\ Forall2 parses fs pkts /\
    forall rest, reassemble (pkts ++ rest) None = hb_nalus b ++ reassemble rest None.
Proof.
  intros Hd Hb Hall. destruct (hb_nalus b) as [|n1 [|n2 t]] eqn:En.
  - exists [], []. split; [unfold h5_flush; rewrite En; reflexivity|]. split; [constructor|reflexivity].
  - apply Forall_cons_iff in Hall as [[Hv _] _].
    destruct (single_reassembles n1 Hv) as (p & Hp & Hr).
    exists [Own n1], [p]. split; [unfold h5_flush; rewrite En, Hd; reflexivity|].
    split; [constructor; [exact Hp|constructor]|]. intros rest. cbn [app]. apply Hr.
  - assert (Hsz : Forall (fun n => 1 <= zlen n < 65536) (n1 :: n2 :: t)).
    { eapply Forall_impl; [|exact Hall]. cbv beta. intros a [Hv Hl]. pose proof (valid_nal5_len a Hv). lia. }
    destruct (aggregation_parses st b n1 n2 t mtu Hd En Hb Hsz) as (p & Hfl & Hp & _).
    exists [Own p], [PAgg None n1 (map (fun n => (None, n)) (n2 :: t))].
    split; [exact Hfl|]. split; [constructor; [exact Hp|constructor]|].
    intros rest. cbn [app reassemble]. rewrite map_map. cbn [snd]. rewrite map_id. reflexivity.
Qed.

(* an FU run delivers its unit *)
Lemma fu_tail_reassembles h0 h1 : 0 <= h0 < 128 -> 0 <= h1 < 256 ->
  forall fs cs, h5fu_rel (fu_b0 h0) h1 (Z.land (Z.shiftr h0 1) 63) false fs cs -> Forall (fun c => c <> []) cs ->
  exists pkts, Forall2 parses fs pkts /\
    forall acc rest, reassemble (pkts ++ rest) (Some acc) = (acc ++ concat cs) :: reassemble rest None.
Proof.
  intros Hh0 Hh1 fs cs Hrel. remember false as first eqn:Hf.
  induction Hrel as [c|first c fs cs Hne Hrel IH]; intros Hall.
  - apply Forall_cons_iff in Hall as [Hc _].
    destruct (fu_fragment_parses h0 h1 false true c Hh0 Hh1 Hc ltac:(discriminate)) as (Hp & Hs & He & _ & _).
    cbv zeta in Hp, Hs, He. eexists [_]. split; [constructor; [exact Hp|constructor]|].
    intros acc rest. cbn [app reassemble]. rewrite Hs, He. cbn [concat]. rewrite app_nil_r. reflexivity.
  - subst first. apply Forall_cons_iff in Hall as [Hc Hall]. destruct (IH eq_refl Hall) as (pkts & Hps & Hr).
    destruct (fu_fragment_parses h0 h1 false false c Hh0 Hh1 Hc ltac:(discriminate)) as (Hp & Hs & He & _ & _).
    cbv zeta in Hp, Hs, He. eexists (_ :: pkts). split; [constructor; [exact Hp|exact Hps]|].
    intros acc rest. cbn [app reassemble]. rewrite Hs, He. rewrite Hr. cbn [concat]. rewrite app_assoc. reflexivity.
Qed.

Lemma fu_run_reassembles h0 h1 fs cs : 0 <= h0 < 128 -> 0 <= h1 < 256 ->
  h5fu_rel (fu_b0 h0) h1 (Z.land (Z.shiftr h0 1) 63) true fs cs -> Forall (fun c => c <> []) cs ->
  exists pkts, Forall2 parses fs pkts /\
    forall rest, reassemble (pkts ++ rest) None = (h0 :: h1 :: concat cs) :: reassemble rest None.
Proof.
  intros Hh0 Hh1 Hrel Hall. inversion Hrel as [|first c fs' cs' Hne Hrel' Hf]; subst.
  apply Forall_cons_iff in Hall as [Hc Hall].
  destruct (fu_tail_reassembles h0 h1 Hh0 Hh1 fs' cs' Hrel' Hall) as (pkts & Hps & Hr).
  destruct (fu_fragment_parses h0 h1 true false c Hh0 Hh1 Hc ltac:(reflexivity)) as (Hp & Hs & He & _ & Hhdr).
  cbv zeta in Hp, Hs, He, Hhdr. eexists (_ :: pkts). split; [constructor; [exact Hp|exact Hps]|].
  intros rest. cbn [app reassemble]. rewrite Hs, He, Hhdr, Hr. cbn [concat app]. reflexivity.
Qed.

Definition buf_units_ok (b : h5buf) : Prop := Forall (fun n => valid_nal5 n /\ zlen n < 65536) (hb_nalus b).

(* one unit: what is sent now plus what stays buffered is what was buffered plus the unit *)
Lemma nalu_reassembles mtu st b n : 4 <= mtu <= 65535 -> h5_donl_on st = false -> buf_ok mtu false b -> buf_units_ok b ->
  unit_ok mtu n ->
  exists st' b' fs pkts emitted,
    h5_nalu mtu st b n = Ok (st', b', fs) /\ h5_donl_on st' = false /\ buf_ok mtu false b' /\ buf_units_ok b' /\
    Forall2 parses fs pkts /\
    (forall rest, reassemble (pkts ++ rest) None = emitted ++ reassemble rest None) /\
    hb_nalus b ++ [n] = emitted ++ hb_nalus b'.
Proof.
  intros Hm Hd Hb Hu Hv. pose proof (valid_nal5_len n Hv) as H3.
  unfold h5_nalu. rewrite Hd. replace (zlen n <? 2) with false by lia.
  destruct (zlen n + 2 + 0 <=? mtu) eqn:Efit.
  - (* the unit joins the aggregation buffer, after a flush when it would not fit *)
    assert (Hlen : zlen n < 65536) by lia.
    set (m := h5_marginal st b n).
    assert (Hadd : forall st0 b0, h5_donl_on st0 = false -> buf_ok mtu false b0 -> buf_units_ok b0 ->
              hb_size b0 + h5_marginal st0 b0 n <= mtu ->
              buf_ok mtu false (mkH5Buf (hb_nalus b0 ++ [n]) (hb_size b0 + h5_marginal st0 b0 n)) /\
              buf_units_ok (mkH5Buf (hb_nalus b0 ++ [n]) (hb_size b0 + h5_marginal st0 b0 n))).
    { intros st0 b0 Hd0 Hb0 Hu0 Hfit0. split.
      - apply (buf_ok_add mtu false b0 n); [exact Hb0|lia| |exact Hfit0].
        unfold h5_marginal. rewrite Hd0. reflexivity.
      - unfold buf_units_ok. cbn [hb_nalus]. apply Forall_app. split; [exact Hu0|constructor; [split; assumption|constructor]]. }
    destruct (mtu <? hb_size b + m) eqn:Eov.
    + destruct (flush_reassembles mtu st b Hd Hb Hu) as (fs1 & pk1 & Hfl & Hp1 & Hr1). rewrite Hfl.
      assert (Hfit0 : hb_size (mkH5Buf [] 0) + h5_marginal st (mkH5Buf [] 0) n <= mtu).
      { unfold h5_marginal. rewrite Hd. cbn [hb_nalus hb_size]. change (zlen (@nil (list Z))) with 0. cbn. lia. }
      destruct (Hadd st (mkH5Buf [] 0) Hd (buf_ok_empty mtu false ltac:(lia)) ltac:(constructor) Hfit0) as [Hb2 Hu2].
      cbn [hb_nalus hb_size app] in Hb2, Hu2 |- *.
      destruct (h5_skip_agg st) eqn:Esk.
      * destruct (flush_reassembles mtu st _ Hd Hb2 Hu2) as (fs2 & pk2 & Hfl2 & Hp2 & Hr2). rewrite Hfl2.
        exists st, (mkH5Buf [] 0), (fs1 ++ fs2), (pk1 ++ pk2), (hb_nalus b ++ [n]).
        split; [reflexivity|]. split; [exact Hd|]. split; [apply buf_ok_empty; lia|]. split; [constructor|].
        split; [apply Forall2_app; assumption|]. split; [|cbn [hb_nalus]; rewrite app_nil_r; reflexivity].
        intros rest. rewrite <- app_assoc, Hr1, Hr2. cbn [hb_nalus]. rewrite <- app_assoc. reflexivity.
      * exists st. eexists. exists fs1, pk1, (hb_nalus b).
        split; [reflexivity|]. split; [exact Hd|]. split; [exact Hb2|]. split; [exact Hu2|].
        split; [exact Hp1|]. split; [exact Hr1|]. reflexivity.
    + destruct (Hadd st b Hd Hb Hu ltac:(fold m; lia)) as [Hb2 Hu2].
      destruct (h5_skip_agg st) eqn:Esk.
      * destruct (flush_reassembles mtu st _ Hd Hb2 Hu2) as (fs2 & pk2 & Hfl2 & Hp2 & Hr2). rewrite Hfl2.
        exists st, (mkH5Buf [] 0), fs2, pk2, (hb_nalus b ++ [n]).
        split; [reflexivity|]. split; [exact Hd|]. split; [apply buf_ok_empty; lia|]. split; [constructor|].
        split; [exact Hp2|]. split; [exact Hr2|]. cbn [hb_nalus]. rewrite app_nil_r. reflexivity.
      * exists st. eexists. exists [], [], [].
        split; [reflexivity|]. split; [exact Hd|]. split; [exact Hb2|]. split; [exact Hu2|].
        split; [constructor|]. split; [reflexivity|]. reflexivity.
  - (* fragmentation units *)
    destruct (Z_le_gt_dec (zlen n) mtu) as [Hlone|Hge].
    { (* MTU-1 or MTU bytes: too long for the fits test, but the unit fits a single NAL unit packet
         and goes out as one *)
      destruct (flush_reassembles mtu st b Hd Hb Hu) as (fs1 & pk1 & Hfl & Hp1 & Hr1).
      destruct (single_reassembles n Hv) as (p & Hp & Hrs).
      destruct n as [|h0 [|h1 body]]; try contradiction.
      rewrite !zlen_cons in *. pose proof (zlen_nonneg body) as Hb0.
      replace (zlen body =? 0) with false by lia.
      replace (zlen body <=? mtu - (3 + 0) + 1) with true by lia.
      rewrite Hfl.
      unfold h5_flush at 1. cbn [hb_nalus]. rewrite Hd.
      exists st, (mkH5Buf [] 0), (fs1 ++ [Own (h0 :: h1 :: body)]), (pk1 ++ [p]), (hb_nalus b ++ [h0 :: h1 :: body]).
      split; [reflexivity|]. split; [exact Hd|]. split; [apply buf_ok_empty; lia|]. split; [constructor|].
      split; [apply Forall2_app; [exact Hp1|constructor; [exact Hp|constructor]]|].
      split; [|cbn [hb_nalus]; rewrite app_nil_r; reflexivity].
      intros rest. rewrite <- app_assoc, Hr1. cbn [app]. rewrite Hrs, <- app_assoc. reflexivity. }
    destruct n as [|h0 [|h1 [|x body']]]; try contradiction. set (body := x :: body') in *.
    destruct Hv as (Hh0 & Hh1 & _).
    assert (Hbig : mtu < zlen (h0 :: h1 :: body)) by lia.
    destruct (fu_unit_lossless mtu st b h0 h1 body (proj1 Hm) Hd Hb ltac:(lia) Hh1 Hbig)
      as (st1 & out1 & fs & cs & Hrun & Hfl & Hrel & Hcat & Hall & H2).
    unfold h5_nalu in Hrun. rewrite Hd in Hrun. replace (zlen (h0 :: h1 :: body) <? 2) with false in Hrun by lia.
    rewrite Efit in Hrun. rewrite Hrun.
    destruct (flush_reassembles mtu st b Hd Hb Hu) as (fs1 & pk1 & Hfl' & Hp1 & Hr1).
    rewrite Hfl in Hfl'. injection Hfl' as E1 E2. subst st1 out1.
    destruct (fu_run_reassembles h0 h1 fs cs Hh0 Hh1 Hrel) as (pk2 & Hp2 & Hr2).
    { eapply Forall_impl; [|exact Hall]. cbv beta. intros c Hc Hnil. subst c. change (zlen (@nil Z)) with 0 in Hc. lia. }
    exists st, (mkH5Buf [] 0), (fs1 ++ fs), (pk1 ++ pk2), (hb_nalus b ++ [h0 :: h1 :: body]).
    split; [reflexivity|]. split; [exact Hd|]. split; [apply buf_ok_empty; lia|]. split; [constructor|].
    split; [apply Forall2_app; assumption|]. split; [|cbn [hb_nalus]; rewrite app_nil_r; reflexivity].
    intros rest. rewrite <- app_assoc, Hr1, Hr2, Hcat. rewrite <- app_assoc. reflexivity.
Qed.

Lemma nalus_reassemble mtu : 4 <= mtu <= 65535 -> forall ns st b,
  h5_donl_on st = false -> buf_ok mtu false b -> buf_units_ok b -> Forall (unit_ok mtu) ns ->
  exists st' b' fs pkts emitted,
    h5_nalus mtu st b ns = Ok (st', b', fs) /\ h5_donl_on st' = false /\ buf_ok mtu false b' /\ buf_units_ok b' /\
    Forall2 parses fs pkts /\
    (forall rest, reassemble (pkts ++ rest) None = emitted ++ reassemble rest None) /\
    hb_nalus b ++ ns = emitted ++ hb_nalus b'.
Proof.
  intros Hm. induction ns as [|n t IH]; intros st b Hd Hb Hu Hall.
  - exists st, b, [], [], []. cbn [h5_nalus]. split; [reflexivity|]. split; [exact Hd|]. split; [exact Hb|]. split; [exact Hu|].
    split; [constructor|]. split; [reflexivity|]. apply app_nil_r.
  - apply Forall_cons_iff in Hall as [Hn Hall].
    destruct (nalu_reassembles mtu st b n Hm Hd Hb Hu Hn) as (st1 & b1 & fs1 & pk1 & em1 & H1 & Hd1 & Hb1 & Hu1 & Hp1 & Hr1 & Hc1).
    destruct (IH st1 b1 Hd1 Hb1 Hu1 Hall) as (st2 & b2 & fs2 & pk2 & em2 & H2 & Hd2 & Hb2 & Hu2 & Hp2 & Hr2 & Hc2).
    exists st2, b2, (fs1 ++ fs2), (pk1 ++ pk2), (em1 ++ em2). cbn [h5_nalus]. rewrite H1, H2.
    split; [reflexivity|]. split; [exact Hd2|]. split; [exact Hb2|]. split; [exact Hu2|].
    split; [apply Forall2_app; assumption|]. split.
    + intros rest. rewrite <- app_assoc, Hr1, Hr2, <- app_assoc. reflexivity.
    + change (n :: t) with ([n] ++ t). rewrite app_assoc, Hc1, <- app_assoc, Hc2, app_assoc. reflexivity.
Qed.

(* a whole call: every packet parses, and reassembly gives back the units, in order *)
Theorem h265_lossless mtu st x l : 4 <= mtu <= 65535 -> h5_donl_on st = false ->
  Forall (unit_ok mtu) (emit_nalus (x :: l)) ->
  exists st' fs pkts, h265_payload st mtu (Some (x :: l)) = Ok (st', fs) /\
    Forall2 parses fs pkts /\ reassemble pkts None = emit_nalus (x :: l).
Proof.
  intros Hm Hd Hall. unfold h265_payload. replace (mtu =? 0) with false by lia.
  destruct (nalus_reassemble mtu Hm (emit_nalus (x :: l)) st (mkH5Buf [] 0) Hd (buf_ok_empty mtu false ltac:(lia))
              ltac:(constructor) Hall) as (st1 & b1 & fs1 & pk1 & em1 & H1 & Hd1 & Hb1 & Hu1 & Hp1 & Hr1 & Hc1).
  rewrite H1.
  destruct (flush_reassembles mtu st1 b1 Hd1 Hb1 Hu1) as (fs2 & pk2 & Hfl & Hp2 & Hr2). rewrite Hfl.
  exists st1, (fs1 ++ fs2), (pk1 ++ pk2). split; [reflexivity|]. split; [apply Forall2_app; assumption|].
  rewrite Hr1. rewrite <- (app_nil_r pk2), Hr2. cbn [reassemble]. rewrite app_nil_r.
  cbn [hb_nalus app] in Hc1. rewrite Hc1. reflexivity.
Qed.
