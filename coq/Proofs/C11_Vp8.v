(* C11: VP8Packet decodes every RFC 7741 descriptor; payloader output round-trips. *)
From Coq Require Import ZArith List Lia Bool.
From Coq Require Import ZifyBool.
From RTP Require Import Base.Bits Base.Res Base.ListX Base.Own Base.Tactics Model.Vp8 Spec.Rfc7741.
Import ListNotations.
Open Scope Z_scope.

Ltac bits := autorewrite with bits.

(* first octet *)
Lemma b0_fields x n s pid : 0 <= pid < 8 ->
  let b0 := bit x 128 + bit n 32 + bit s 16 + pid in
  Z.shiftr (Z.land b0 128) 7 = bit x 1 /\ Z.shiftr (Z.land b0 32) 5 = bit n 1 /\
  Z.shiftr (Z.land b0 16) 4 = bit s 1 /\ Z.land b0 7 = pid.
Proof. intros H b0. subst b0. unfold bit. bits. destruct x, n, s; repeat split; lia. Qed.

(* extension octet *)
Lemma xb_fields i l t k :
  let b := bit i 128 + bit l 64 + bit t 32 + bit k 16 in
  Z.shiftr (Z.land b 128) 7 = bit i 1 /\ Z.shiftr (Z.land b 64) 6 = bit l 1 /\
  Z.shiftr (Z.land b 32) 5 = bit t 1 /\ Z.shiftr (Z.land b 16) 4 = bit k 1.
Proof. intros b. subst b. unfold bit. bits. destruct i, l, t, k; repeat split; lia. Qed.

Lemma bit1_eqb b : (bit b 1 =? 1) = b.
Proof. destruct b; reflexivity. Qed.

(* TID | Y | KEYIDX octet *)
Lemma tk_fields tid y key : 0 <= tid < 4 -> 0 <= key < 32 ->
  let b := tid * 64 + bit y 32 + key in
  Z.shiftr b 6 = tid /\ Z.land (Z.shiftr b 5) 1 = bit y 1 /\ Z.land b 31 = key.
Proof. intros Ht Hk b. subst b. unfold bit. bits. destruct y; repeat split; lia. Qed.

Theorem vp8_decode_desc : forall d prev rest, wf_desc d ->
  vp8_unmarshal prev (Some (encode_desc d ++ rest)) = Ok (fields_of d rest).
Proof.
  intros [n s pid ext] prev rest [Hpid Hext]. cbn [d_n d_s d_pid d_ext] in *.
  unfold encode_desc, fields_of. cbn [d_n d_s d_pid d_ext app].
  unfold vp8_unmarshal.
  destruct (b0_fields (some ext) n s pid Hpid) as (B1 & B2 & B3 & B4). cbv zeta in B1, B2, B3, B4.
  rewrite B1, B2, B3, B4.
  destruct ext as [[pic tl0 tidy key]|]; cbn [some bit]; cbn [Z.eqb Pos.eqb].
  2:{ cbn [orb]. reflexivity. }
  cbn [e_pic e_tl0 e_tid e_key] in *. destruct Hext as (Hpic & Htl0 & Htid & Hkey).
  unfold enc_ext. cbn [e_pic e_tl0 e_tid e_key app].
  destruct (xb_fields (some pic) (some tl0) (some tidy) (some key)) as (X1 & X2 & X3 & X4).
  cbv zeta in X1, X2, X3, X4. rewrite X1, X2, X3, X4. rewrite !bit1_eqb.
  (* the tail after the picture id and TL0PICIDX *)
  assert (Htail : forall (picv tl0v : Z) (l4 : list Z),
    l4 = (if some tidy || some key
          then [match tidy with Some (tid, y) => tid * 64 + bit y 32 | None => 0 end
                + match key with Some k => k | None => 0 end] else []) ++ rest ->
    (if some tidy || some key
     then match l4 with
          | [] => Err EShort
          | b :: l5 =>
              Ok (mkVp8Pkt 1 (bit n 1) (bit s 1) pid (bit (some pic) 1) (bit (some tl0) 1) (bit (some tidy) 1)
                    (bit (some key) 1) picv tl0v (if some tidy then Z.shiftr b 6 else 0)
                    (if some tidy then Z.land (Z.shiftr b 5) 1 else 0) (if some key then Z.land b 31 else 0) l5)
          end
     else Ok (mkVp8Pkt 1 (bit n 1) (bit s 1) pid (bit (some pic) 1) (bit (some tl0) 1) (bit (some tidy) 1)
                (bit (some key) 1) picv tl0v 0 0 0 l4))
    = Ok (mkVp8Pkt 1 (bit n 1) (bit s 1) pid (bit (some pic) 1) (bit (some tl0) 1) (bit (some tidy) 1)
            (bit (some key) 1) picv tl0v
            (match tidy with Some (tid, _) => tid | None => 0 end)
            (match tidy with Some (_, y) => bit y 1 | None => 0 end)
            (match key with Some k => k | None => 0 end) rest)).
  { intros picv tl0v l4 ->.
    destruct tidy as [[tid y]|], key as [k|]; cbn [some orb app bit].
    - destruct (tk_fields tid y k Htid Hkey) as (T1 & T2 & T3). cbv zeta in T1, T2, T3. rewrite T1, T2, T3. reflexivity.
    - destruct (tk_fields tid y 0 Htid ltac:(lia)) as (T1 & T2 & T3). cbv zeta in T1, T2, T3.
      rewrite Z.add_0_r in *. rewrite T1, T2. reflexivity.
    - destruct (tk_fields 0 false k ltac:(lia) Hkey) as (T1 & T2 & T3). cbv zeta in T1, T2, T3.
      cbn [bit] in T3. replace (0 * 64 + 0 + k) with (0 + k) in T3 by lia. rewrite T3. reflexivity.
    - reflexivity. }
  destruct pic as [[m id]|]; cbn [some app].
  - destruct m.
    + (* 15-bit picture id *)
      cbn [app]. assert (Hm : (0 <? Z.land (128 + id / 256) 128) = true) by (bits; lia). rewrite Hm.
      assert (Hid : Z.lor (Z.shiftl (Z.land (128 + id / 256) 127) 8) (id mod 256) = id).
      { bits. rewrite (lor_add_small _ (id mod 256) 8) by lia. lia. }
      rewrite Hid.
      destruct tl0 as [v|]; cbn [some app bit]; apply Htail; reflexivity.
    + cbn [app]. assert (Hm : (0 <? Z.land id 128) = false) by (bits; lia). rewrite Hm.
      destruct tl0 as [v|]; cbn [some app bit]; apply Htail; reflexivity.
  - destruct tl0 as [v|]; cbn [some app bit]; apply Htail; reflexivity.
Qed.

(* ------------------------------------------------------------------ *)
(* descriptors that are cut short are rejected                         *)

Definition with_payload (r : vp8pkt) (p : list Z) : vp8pkt :=
  mkVp8Pkt (v8_x r) (v8_n r) (v8_s r) (v8_pid r) (v8_i r) (v8_l r) (v8_t r) (v8_k r)
           (v8_picture_id r) (v8_tl0picidx r) (v8_tid r) (v8_y r) (v8_keyidx r) p.

Ltac vp8_step :=
  match goal with
  | H : (if ?c then _ else _) = Ok _ |- _ => destruct c eqn:?
  | H : match ?l with [] => _ | _ :: _ => _ end = Ok _ |- _ => destruct l; cbn [app] in *
  | H : Err _ = Ok _ |- _ => discriminate H
  | H : Ok _ = Ok _ |- _ => injection H as <-; reflexivity
  end.

(* the decoder's decisions depend only on the bytes it consumes *)
Lemma vp8_prefix_det prev l r ext : vp8_unmarshal prev (Some l) = Ok r ->
  vp8_unmarshal prev (Some (l ++ ext)) = Ok (with_payload r (v8_payload r ++ ext)).
Proof.
  unfold vp8_unmarshal. destruct l as [|b0 l1]; [discriminate|]. cbn [app]. cbv zeta.
  intros H. repeat vp8_step.
Qed.

Lemma vp8_payload_suffix prev l r : vp8_unmarshal prev (Some l) = Ok r ->
  exists h, l = h ++ v8_payload r.
Proof.
  unfold vp8_unmarshal. destruct l as [|b0 l1]; [discriminate|]. cbv zeta. intros H.
  repeat match goal with
  | H : (if ?c then _ else _) = Ok _ |- _ => destruct c eqn:?
  | H : match ?l with [] => _ | _ :: _ => _ end = Ok _ |- _ => destruct l
  | H : Err _ = Ok _ |- _ => discriminate H
  | H : Ok _ = Ok _ |- _ => injection H as <-; cbn [v8_payload]
  end;
  first [ exists [b0]; reflexivity | exists [b0; z]; reflexivity | exists [b0; z; z0]; reflexivity
        | exists [b0; z; z0; z1]; reflexivity | exists [b0; z; z0; z1; z2]; reflexivity
        | exists [b0; z; z0; z1; z2; z3]; reflexivity ].
Qed.

Theorem vp8_truncated_rejected : forall d prev k, wf_desc d -> 0 <= k < zlen (encode_desc d) ->
  exists e, vp8_unmarshal prev (Some (take k (encode_desc d))) = Err e.
Proof.
  intros d prev k Hwf Hk.
  destruct (vp8_unmarshal prev (Some (take k (encode_desc d)))) as [r|e|] eqn:Hu; [|exists e; reflexivity|].
  - exfalso.
    pose proof (vp8_prefix_det prev _ r (drop k (encode_desc d)) Hu) as Hdet.
    rewrite take_drop in Hdet.
    pose proof (vp8_decode_desc d prev [] Hwf) as Hfull. rewrite app_nil_r in Hfull.
    rewrite Hfull in Hdet. injection Hdet as Hdet.
    assert (Hp : v8_payload (fields_of d []) = v8_payload r ++ drop k (encode_desc d)).
    { rewrite Hdet. reflexivity. }
    assert (Hnil : v8_payload (fields_of d []) = []) by (unfold fields_of; destruct (d_ext d); reflexivity).
    rewrite Hnil in Hp. symmetry in Hp. apply app_eq_nil in Hp as [_ Hd].
    pose proof (drop_zlen k (encode_desc d) ltac:(lia)) as Hz. rewrite Hd in Hz. change (zlen (@nil Z)) with 0 in Hz. lia.
  - (* the model has no Panic on this path *)
    exfalso. unfold vp8_unmarshal in Hu. destruct (take k (encode_desc d)) as [|b0 l1]; [discriminate|].
    cbv zeta in Hu.
    repeat match goal with
    | H : (if ?c then _ else _) = Panic |- _ => destruct c eqn:?
    | H : match ?l with [] => _ | _ :: _ => _ end = Panic |- _ => destruct l
    | H : Err _ = Panic |- _ => discriminate H
    | H : Ok _ = Panic |- _ => discriminate H
    end.
Qed.

Theorem vp8_unmarshal_total prev x : vp8_unmarshal prev x <> Panic.
Proof.
  destruct x as [l|]; [|discriminate]. unfold vp8_unmarshal. destruct l as [|b0 l1]; [discriminate|].
  cbv zeta. intros Hu.
  repeat match goal with
  | H : (if ?c then _ else _) = Panic |- _ => destruct c eqn:?
  | H : match ?l with [] => _ | _ :: _ => _ end = Panic |- _ => destruct l
  | H : Err _ = Panic |- _ => discriminate H
  | H : Ok _ = Panic |- _ => discriminate H
  end.
Qed.

(* a reused receiver gives the same result as a fresh one *)
Theorem vp8_unmarshal_reuse prev prev' x : vp8_unmarshal prev x = vp8_unmarshal prev' x.
Proof. reflexivity. Qed.

(* ------------------------------------------------------------------ *)
(* payloader                                                           *)

Definition desc_of (st : vp8pay) (first : bool) : desc :=
  mkDesc false first 0
         (if vp_enable st then Some (mkDext (Some (negb (vp_pid st <? 128), vp_pid st)) None None None) else None).

Definition pid_ok (st : vp8pay) : Prop := 0 <= vp_pid st < 32768.

Lemma vp8_header_is_rfc st first : pid_ok st -> vp8_header st first = encode_desc (desc_of st first).
Proof.
  intros Hp. unfold pid_ok in Hp. unfold vp8_header, encode_desc, desc_of, enc_ext, u8.
  cbn [d_n d_s d_pid d_ext]. destruct (vp_enable st); cbn [some bit e_pic e_tl0 e_tid e_key app orb].
  - destruct (vp_pid st <? 128) eqn:E; cbn [negb app].
    + bits. destruct first; cbn [bit].
      * change (Z.lor 16 128) with 144. repeat (f_equal; try lia).
      * change (Z.lor 0 128) with 128. repeat (f_equal; try lia).
    + bits. replace (vp_pid st / 256 mod 128 mod 256) with (vp_pid st / 256) by lia.
      destruct first; cbn [bit].
      * change (Z.lor 16 128) with 144. rewrite (Z.lor_comm 128), lor_128_add by lia. repeat (f_equal; try lia).
      * change (Z.lor 0 128) with 128. rewrite (Z.lor_comm 128), lor_128_add by lia. repeat (f_equal; try lia).
  - destruct first; reflexivity.
Qed.

Lemma desc_of_wf st first : pid_ok st -> wf_desc (desc_of st first).
Proof.
  intros Hp. unfold pid_ok in Hp. unfold wf_desc, desc_of. cbn [d_pid d_ext]. split; [lia|].
  destruct (vp_enable st); [|exact I]. cbn [e_pic e_tl0 e_tid e_key].
  destruct (vp_pid st <? 128) eqn:E; cbn [negb]; repeat split; lia.
Qed.

Lemma zlen_vp8_header st first : zlen (vp8_header st first) = vp8_header_size st.
Proof. unfold vp8_header, vp8_header_size. destruct (vp_enable st); [destruct (vp_pid st <? 128)|]; reflexivity. Qed.

(* the fragments produced for [rest]: headers in front of consecutive chunks *)
Inductive frag_rel (st : vp8pay) : bool -> list bref -> list (list Z) -> Prop :=
| frag_nil first : frag_rel st first [] []
| frag_cons first c fs cs : frag_rel st false fs cs ->
    frag_rel st first (Own (vp8_header st first ++ c) :: fs) (c :: cs).

Lemma vp8_frags_spec : forall fuel st maxf first rest, 1 <= maxf -> (length rest < fuel)%nat ->
  exists fs cs, vp8_frags fuel st maxf first rest = Ok fs /\ frag_rel st first fs cs /\
                concat cs = rest /\ Forall (fun c => 1 <= zlen c <= maxf) cs /\ (rest <> [] -> cs <> []).
Proof.
  induction fuel as [|fuel IH]; intros st maxf first rest Hm Hf; [lia|].
  cbn [vp8_frags]. pose proof (zlen_nonneg rest) as Hr.
  case_if.
  - exists [], []. assert (rest = []) by (apply zlen_zero; lia). subst rest.
    repeat split; try constructor. congruence.
  - set (cur := if maxf <? zlen rest then maxf else zlen rest).
    assert (Hcur : 1 <= cur <= zlen rest /\ cur <= maxf) by (unfold cur; destruct (maxf <? zlen rest) eqn:?; lia).
    assert (Hs1 : slice rest 0 cur = Some (take cur rest)).
    { unfold slice. replace (0 <? 0) with false by reflexivity. destruct (cur <? 0) eqn:?; [lia|].
      destruct (zlen rest <? cur) eqn:?; [lia|]. cbn [orb]. rewrite drop_0. f_equal. f_equal. lia. }
    assert (Hs2 : slice rest cur (zlen rest) = Some (drop cur rest)).
    { unfold slice. destruct (cur <? 0) eqn:?; [lia|]. destruct (zlen rest <? cur) eqn:?; [lia|].
      destruct (zlen rest <? zlen rest) eqn:?; [lia|]. cbn [orb]. f_equal. apply take_all.
      rewrite drop_zlen by lia. lia. }
    rewrite Hs1, Hs2.
    assert (Hd : (length (drop cur rest) < fuel)%nat).
    { pose proof (drop_zlen cur rest ltac:(lia)) as Hz. unfold zlen in *. lia. }
    destruct (IH st maxf false (drop cur rest) Hm Hd) as (fs & cs & Hrun & Hrel & Hcat & Hall & _).
    rewrite Hrun. exists (Own (vp8_header st first ++ take cur rest) :: fs), (take cur rest :: cs).
    split; [reflexivity|]. split; [constructor; exact Hrel|].
    split; [cbn [concat]; rewrite Hcat; apply take_drop|].
    split; [constructor; [rewrite take_zlen by lia; lia|exact Hall]|]. intros _. discriminate.
Qed.

Theorem vp8_payload_spec : forall st mtu frame, pid_ok st -> vp8_header_size st < mtu -> frame <> [] ->
  exists fs cs,
    vp8_payload st mtu (Some frame)
    = Ok (mkVp8Pay (vp_enable st) ((vp_pid st + 1) mod 32768), fs) /\
    frag_rel st true fs cs /\ concat cs = frame /\ cs <> [] /\
    Forall (fun c => 1 <= zlen c /\ vp8_header_size st + zlen c <= mtu) cs.
Proof.
  intros st mtu frame Hp Hm Hne. unfold vp8_payload.
  pose proof (zlen_nonneg frame) as Hz.
  assert (Hzl : 1 <= zlen frame).
  { destruct frame; [congruence|]. rewrite zlen_cons. pose proof (zlen_nonneg frame). lia. }
  set (maxf := mtu - vp8_header_size st).
  case_if; [destruct (maxf <? zlen frame) eqn:?; unfold maxf in *; lia|].
  destruct (vp8_frags_spec (S (length frame)) st maxf true frame ltac:(unfold maxf; lia) ltac:(lia))
    as (fs & cs & Hrun & Hrel & Hcat & Hall & Hcs).
  rewrite Hrun. exists fs, cs. split.
  - f_equal. f_equal. f_equal. unfold pid_ok in Hp. unfold u16. rewrite land_32767. lia.
  - repeat split; auto. eapply Forall_impl; [|exact Hall]. cbv beta. intros c Hc. unfold maxf in Hc. lia.
Qed.

(* every fragment decodes to its chunk, with S on the first only, partition index 0 and the
   frame's picture id in the form RFC 7741 prescribes *)
Theorem vp8_fragment_decodes : forall st first c prev, pid_ok st ->
  vp8_unmarshal prev (Some (vp8_header st first ++ c)) = Ok (fields_of (desc_of st first) c).
Proof.
  intros st first c prev Hp. rewrite vp8_header_is_rfc by assumption.
  apply vp8_decode_desc. apply desc_of_wf. assumption.
Qed.
