(* C12: VP9Packet decodes every well-formed payload descriptor of the VP9 RTP payload format to
   exactly the encoded values and returns the bytes after it. *)
From Coq Require Import ZArith List Lia Bool.
From Coq Require Import ZifyBool.
From RTP Require Import Base.Bits Base.Res Base.ListX Base.Own Base.Tactics Model.Vp9Header Model.Vp9 Spec.Vp9Rtp.
Import ListNotations.
Open Scope Z_scope.
Ltac bits := autorewrite with bits.

(* ---- the flag byte ---- *)
Lemma b0_flags i p l f b e v z :
  let b0 := bit i 128 + bit p 64 + bit l 32 + bit f 16 + bit b 8 + bit e 4 + bit v 2 + bit z 1 in
  bit_set b0 128 = i /\ bit_set b0 64 = p /\ bit_set b0 32 = l /\ bit_set b0 16 = f /\
  bit_set b0 8 = b /\ bit_set b0 4 = e /\ bit_set b0 2 = v /\ bit_set b0 1 = z.
Proof. destruct i, p, l, f, b, e, v, z; repeat split; reflexivity. Qed.

(* ---- reference indices ---- *)
Lemma pdiff_more d : 0 <= d < 128 -> Z.shiftr (d * 2 + 1) 1 = d /\ (Z.land (d * 2 + 1) 1 =? 0) = false.
Proof. intros H. rewrite shiftr_1, land_1. split; lia. Qed.
Lemma pdiff_last d : 0 <= d < 128 -> Z.shiftr (d * 2) 1 = d /\ (Z.land (d * 2) 1 =? 0) = true.
Proof. intros H. rewrite shiftr_1, land_1. split; lia. Qed.

Lemma ref_indices_decode ds rest : (1 <= length ds <= 3)%nat -> Forall (fun x => 0 <= x < 128) ds ->
  parse_ref_indices 4 (enc_pdiffs ds ++ rest) [] = Ok (ds, rest).
Proof.
  intros Hl Hall. destruct ds as [|a [|b [|c [|? ?]]]]; cbn [length] in Hl; try lia.
  - apply Forall_cons_iff in Hall as [Ha _]. destruct (pdiff_last a Ha) as [A1 A2].
    cbn [enc_pdiffs app parse_ref_indices]. rewrite A1, A2. reflexivity.
  - apply Forall_cons_iff in Hall as [Ha Hall]. apply Forall_cons_iff in Hall as [Hb _].
    destruct (pdiff_more a Ha) as [A1 A2]. destruct (pdiff_last b Hb) as [B1 B2].
    cbn [enc_pdiffs app parse_ref_indices]. rewrite A1, A2. cbn [app]. change (3 <=? zlen [a]) with false. cbv iota.
    rewrite B1, B2. reflexivity.
  - apply Forall_cons_iff in Hall as [Ha Hall]. apply Forall_cons_iff in Hall as [Hb Hall].
    apply Forall_cons_iff in Hall as [Hc _].
    destruct (pdiff_more a Ha) as [A1 A2]. destruct (pdiff_more b Hb) as [B1 B2]. destruct (pdiff_last c Hc) as [C1 C2].
    cbn [enc_pdiffs app parse_ref_indices]. rewrite A1, A2. cbn [app]. change (3 <=? zlen [a]) with false. cbv iota.
    rewrite B1, B2. cbn [app]. change (3 <=? zlen [a; b]) with false. cbv iota.
    rewrite C1, C2. reflexivity.
Qed.

(* ---- resolutions ---- *)
Lemma be16_split w : 0 <= w < 65536 -> Z.lor (Z.shiftl (w / 256) 8) (w mod 256) = w.
Proof. intros H. rewrite shiftl_8. rewrite (lor_add_small (w / 256 * 256) (w mod 256) 8) by lia. lia. Qed.

Lemma resolutions_decode : forall rs rest ws hs,
  Forall (fun r => 0 <= fst r < 65536 /\ 0 <= snd r < 65536) rs ->
  parse_resolutions (length rs) (enc_res rs ++ rest) ws hs = Ok (ws ++ map fst rs, hs ++ map snd rs, rest).
Proof.
  induction rs as [|[w h] rs IH]; intros rest ws hs Hall; cbn [length parse_resolutions enc_res flat_map map app].
  - rewrite !app_nil_r. reflexivity.
  - apply Forall_cons_iff in Hall as [[Hw Hh] Hall]. cbn [fst snd] in *.
    fold (enc_res rs). rewrite (be16_split w Hw), (be16_split h Hh).
    rewrite (IH rest _ _ Hall). rewrite <- !app_assoc. reflexivity.
Qed.

(* ---- picture groups ---- *)
Lemma pg_byte tid u r : 0 <= tid < 8 -> 0 <= r <= 3 ->
  let b := tid * 32 + bit u 16 + r * 4 in
  Z.land (Z.shiftr b 2) 3 = r /\ Z.shiftr b 5 = tid /\ bit_set b 16 = u.
Proof.
  intros Ht Hr b. subst b. unfold bit_set. rewrite shiftr_2, shiftr_5, land_3, land_b16.
  destruct u; cbn [bit]; repeat split; try lia; apply negb_true_iff || apply negb_false_iff; lia.
Qed.

Lemma pgs_decode : forall gs rest tids us pds, Forall wf_pg gs ->
  parse_pgs (length gs) (flat_map enc_pg gs ++ rest) tids us pds
  = Ok (tids ++ map pg_tid gs, us ++ map pg_u gs, pds ++ map pg_pdiffs gs, rest).
Proof.
  induction gs as [|g gs IH]; intros rest tids us pds Hall; cbn [length parse_pgs flat_map map app].
  - rewrite !app_nil_r. reflexivity.
  - apply Forall_cons_iff in Hall as [(Ht & Hl & Hb) Hall].
    unfold enc_pg at 1. cbn [app].
    assert (Hr : 0 <= zlen (pg_pdiffs g) <= 3) by (unfold zlen; lia).
    destruct (pg_byte (pg_tid g) (pg_u g) (zlen (pg_pdiffs g)) Ht Hr) as (P1 & P2 & P3). cbv zeta in P1, P2, P3.
    rewrite P1, P2, P3. rewrite <- app_assoc, zlen_app.
    pose proof (zlen_nonneg (flat_map enc_pg gs ++ rest)).
    replace (zlen (pg_pdiffs g) + zlen (flat_map enc_pg gs ++ rest) <? zlen (pg_pdiffs g)) with false by lia.
    rewrite take_app_exact, drop_app_exact. rewrite (IH rest _ _ _ Hall). rewrite <- !app_assoc. reflexivity.
Qed.

(* ---- the four stages of VP9Packet.Unmarshal, named ---- *)
Definition stage_pid (fi : bool) (l1 : list Z) : res (Z * list Z) :=
  if fi then
    match l1 with
    | [] => Err EShort
    | b :: t =>
      if bit_set b 128 then
        match t with
        | [] => Err EShort
        | c :: t2 => Ok (Z.lor (u16 (Z.shiftl (Z.land b 127) 8)) c, t2)
        end
      else Ok (Z.land b 127, t)
    end
  else Ok (0, l1).

Definition stage_layer (fl ff : bool) (l2 : list Z) : res (Z * bool * Z * bool * Z * list Z) :=
  if fl then
    match l2 with
    | [] => Err EShort
    | b :: t =>
      let sid := Z.land (Z.shiftr b 1) 7 in
      if 5 <=? sid then Err ETooManySpatial
      else if ff then Ok (Z.shiftr b 5, bit_set b 16, sid, bit_set b 1, 0, t)
      else match t with
           | [] => Err EShort
           | tl0 :: t2 => Ok (Z.shiftr b 5, bit_set b 16, sid, bit_set b 1, tl0, t2)
           end
    end
  else Ok (0, false, 0, false, 0, l2).

Definition stage_pd (c : bool) (l3 : list Z) : res (list Z * list Z) :=
  if c then parse_ref_indices 4 l3 [] else Ok ([], l3).

Definition stage_ss (fv : bool) (mk : Z -> bool -> bool -> Z -> list Z -> list Z -> list Z -> list bool -> list (list Z) -> list Z -> vp9pkt)
           (l4 : list Z) : res vp9pkt :=
  if fv then
    match l4 with
    | [] => Err EShort
    | b :: t =>
      let ns := Z.shiftr b 5 in
      let y := bit_set b 16 in
      let g := bit_set b 8 in
      match (if y then parse_resolutions (Z.to_nat (ns + 1)) t [] [] else Ok ([], [], t)) with
      | Err e => Err e | Panic => Panic
      | Ok (ws, hs, t2) =>
        match (if g then match t2 with [] => Err EShort | n :: t3 => Ok (n, t3) end else Ok (0, t2)) with
        | Err e => Err e | Panic => Panic
        | Ok (ng, t3) =>
          match parse_pgs (Z.to_nat ng) t3 [] [] [] with
          | Err e => Err e | Panic => Panic
          | Ok (tids, us, pds, t4) => Ok (mk ns y g ng ws hs tids us pds t4)
          end
        end
      end
    end
  else Ok (mk 0 false false 0 [] [] [] [] [] l4).

Lemma unmarshal_staged prev b0 l1 :
  vp9_unmarshal prev (Some (b0 :: l1)) =
  match stage_pid (bit_set b0 128) l1 with
  | Err e => Err e | Panic => Panic
  | Ok (pic, l2) =>
    match stage_layer (bit_set b0 32) (bit_set b0 16) l2 with
    | Err e => Err e | Panic => Panic
    | Ok (tid, u, sid, d, tl0, l3) =>
      match stage_pd (bit_set b0 16 && bit_set b0 64) l3 with
      | Err e => Err e | Panic => Panic
      | Ok (pdiff, l4) =>
        stage_ss (bit_set b0 2)
          (mkVp9Pkt (bit_set b0 128) (bit_set b0 64) (bit_set b0 32) (bit_set b0 16) (bit_set b0 8) (bit_set b0 4)
                    (bit_set b0 2) (bit_set b0 1) pic tid u sid d pdiff tl0) l4
      end
    end
  end.
Proof. reflexivity. Qed.

Definition enc_pid (pid : option (bool * Z)) : list Z :=
  match pid with Some (true, id) => [128 + id / 256; id mod 256] | Some (false, id) => [id] | None => [] end.

Lemma stage_pid_decode pid l :
  match pid with Some (true, id) => 0 <= id < 32768 | Some (false, id) => 0 <= id < 128 | None => True end ->
  stage_pid (some pid) (enc_pid pid ++ l) = Ok (match pid with Some (_, id) => id | None => 0 end, l).
Proof.
  intros H. destruct pid as [[[|] id]|]; cbn [some enc_pid app stage_pid]; [| |reflexivity].
  - assert (Hb : bit_set (128 + id / 256) 128 = true).
    { unfold bit_set. rewrite land_b128. apply negb_true_iff. lia. }
    rewrite Hb. f_equal. f_equal. rewrite land_127. replace ((128 + id / 256) mod 128) with (id / 256) by lia.
    unfold u16. rewrite shiftl_8, Z.mod_small by lia.
    rewrite (lor_add_small (id / 256 * 256) (id mod 256) 8) by lia. lia.
  - assert (Hb : bit_set id 128 = false).
    { unfold bit_set. rewrite land_b128. apply negb_false_iff. lia. }
    rewrite Hb. f_equal. f_equal. rewrite land_127. lia.
Qed.

Definition enc_layer (layer : option vlayer) (f : bool) (tl0 : Z) : list Z :=
  match layer with
  | Some l => (ly_tid l * 32 + bit (ly_u l) 16 + ly_sid l * 2 + bit (ly_d l) 1) :: (if f then [] else [tl0])
  | None => []
  end.

Lemma layer_byte tid u sid d : 0 <= tid < 8 -> 0 <= sid < 5 ->
  let b := tid * 32 + bit u 16 + sid * 2 + bit d 1 in
  Z.land (Z.shiftr b 1) 7 = sid /\ Z.shiftr b 5 = tid /\ bit_set b 16 = u /\ bit_set b 1 = d.
Proof.
  intros Ht Hs b. subst b. unfold bit_set. rewrite shiftr_1, shiftr_5, land_7, land_b16, land_1.
  destruct u, d; cbn [bit]; repeat split; try lia; apply negb_true_iff || apply negb_false_iff; lia.
Qed.

Lemma stage_layer_decode layer f tl0 l :
  match layer with Some ly => 0 <= ly_tid ly < 8 /\ 0 <= ly_sid ly < 5 | None => True end ->
  stage_layer (some layer) f (enc_layer layer f tl0 ++ l) =
  Ok (match layer with Some ly => ly_tid ly | None => 0 end,
      match layer with Some ly => ly_u ly | None => false end,
      match layer with Some ly => ly_sid ly | None => 0 end,
      match layer with Some ly => ly_d ly | None => false end,
      match layer with Some _ => if f then 0 else tl0 | None => 0 end, l).
Proof.
  intros H. destruct layer as [[tid u sid d]|]; cbn [some enc_layer app stage_layer ly_tid ly_u ly_sid ly_d] in *; [|reflexivity].
  destruct H as [Ht Hs]. destruct (layer_byte tid u sid d Ht Hs) as (L1 & L2 & L3 & L4). cbv zeta in L1, L2, L3, L4.
  rewrite L1, L2, L3, L4. replace (5 <=? sid) with false by lia. destruct f; reflexivity.
Qed.

Lemma stage_pd_decode c ds l :
  (c = true -> (1 <= length ds <= 3)%nat /\ Forall (fun x => 0 <= x < 128) ds) ->
  stage_pd c ((if c then enc_pdiffs ds else []) ++ l) = Ok (if c then ds else [], l).
Proof.
  intros H. unfold stage_pd. destruct c; [|reflexivity]. destruct (H eq_refl) as [Hl Hall].
  apply ref_indices_decode; assumption.
Qed.

Lemma ss_byte ns y g : 0 <= ns < 8 ->
  let b := ns * 32 + bit y 16 + bit g 8 in
  Z.shiftr b 5 = ns /\ bit_set b 16 = y /\ bit_set b 8 = g.
Proof.
  intros Hn b. subst b. unfold bit_set. rewrite shiftr_5, land_b16, land_b8.
  destruct y, g; cbn [bit]; repeat split; try lia; apply negb_true_iff || apply negb_false_iff; lia.
Qed.

Lemma stage_ss_decode ss mk rest : match ss with Some s => wf_ss s | None => True end ->
  stage_ss (some ss) mk (match ss with Some s => enc_ss s | None => [] end ++ rest) =
  Ok (mk (match ss with Some s => ss_ns s | None => 0 end)
         (match ss with Some s => some (ss_res s) | None => false end)
         (match ss with Some s => some (ss_pgs s) | None => false end)
         (match ss with Some s => match ss_pgs s with Some gs => zlen gs | None => 0 end | None => 0 end)
         (match ss with Some s => match ss_res s with Some rs => map fst rs | None => [] end | None => [] end)
         (match ss with Some s => match ss_res s with Some rs => map snd rs | None => [] end | None => [] end)
         (match ss with Some s => match ss_pgs s with Some gs => map pg_tid gs | None => [] end | None => [] end)
         (match ss with Some s => match ss_pgs s with Some gs => map pg_u gs | None => [] end | None => [] end)
         (match ss with Some s => match ss_pgs s with Some gs => map pg_pdiffs gs | None => [] end | None => [] end)
         rest).
Proof.
  intros H. destruct ss as [[ns res pgs]|]; cbn [some]; [|reflexivity].
  destruct H as (Hns & Hres & Hpgs). cbn [ss_ns ss_res ss_pgs] in *.
  unfold enc_ss. cbn [ss_ns ss_res ss_pgs app stage_ss].
  destruct (ss_byte ns (some res) (some pgs) Hns) as (S1 & S2 & S3). cbv zeta in S1, S2, S3.
  rewrite S1, S2, S3. rewrite <- app_assoc.
  (* resolutions *)
  assert (Hr : (if some res then parse_resolutions (Z.to_nat (ns + 1))
                                  ((match res with Some rs => enc_res rs | None => [] end)
                                   ++ (match pgs with Some gs => zlen gs :: flat_map enc_pg gs | None => [] end) ++ rest) [] []
                else Ok ([], [], (match res with Some rs => enc_res rs | None => [] end)
                                   ++ (match pgs with Some gs => zlen gs :: flat_map enc_pg gs | None => [] end) ++ rest))
               = Ok (match res with Some rs => map fst rs | None => [] end,
                     match res with Some rs => map snd rs | None => [] end,
                     (match pgs with Some gs => zlen gs :: flat_map enc_pg gs | None => [] end) ++ rest)).
  { destruct res as [rs|]; cbn [some app]; [|reflexivity]. destruct Hres as [Hl Hall].
    replace (Z.to_nat (ns + 1)) with (length rs) by (unfold zlen in Hl; lia).
    rewrite (resolutions_decode rs _ [] [] Hall). reflexivity. }
  rewrite Hr. clear Hr.
  destruct pgs as [gs|]; cbn [some app].
  - destruct Hpgs as [Hl Hall]. replace (Z.to_nat (zlen gs)) with (length gs) by (unfold zlen; lia).
    rewrite (pgs_decode gs rest [] [] [] Hall). reflexivity.
  - reflexivity.
Qed.

Theorem vp9_decode_desc d prev rest : wf_vdesc d ->
  vp9_unmarshal prev (Some (encode_vdesc d ++ rest)) = Ok (fields_of d rest).
Proof.
  destruct d as [pid p f b e z layer tl0 pdiffs ss]. intros (Hpid & Hlayer & Htl0 & Hpd & Hss).
  cbn [vd_pid vd_p vd_f vd_b vd_e vd_z vd_layer vd_tl0 vd_pdiffs vd_ss] in *.
  unfold encode_vdesc, fields_of. cbn [vd_pid vd_p vd_f vd_b vd_e vd_z vd_layer vd_tl0 vd_pdiffs vd_ss app].
  rewrite unmarshal_staged.
  destruct (b0_flags (some pid) p (some layer) f b e (some ss) z) as (F1 & F2 & F3 & F4 & F5 & F6 & F7 & F8).
  cbv zeta in F1, F2, F3, F4, F5, F6, F7, F8. rewrite F1, F2, F3, F4, F5, F6, F7, F8.
  fold (enc_pid pid). fold (enc_layer layer f tl0). rewrite <- !app_assoc.
  rewrite (stage_pid_decode pid _ Hpid).
  rewrite (stage_layer_decode layer f tl0 _ Hlayer).
  rewrite (stage_pd_decode (f && p) pdiffs _ Hpd).
  rewrite (stage_ss_decode ss _ rest Hss). reflexivity.
Qed.
