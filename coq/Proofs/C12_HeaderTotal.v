(* The VP9 uncompressed-header parser never indexes outside the buffer: every unchecked read is
   covered by an earlier hasSpace test. *)
From Coq Require Import ZArith List Lia Bool.
From Coq Require Import ZifyBool.
From RTP Require Import Base.Bits Base.Res Base.ListX Base.Tactics Model.Vp9Header Proofs.C12_Bits Proofs.C12_Header.
Import ListNotations.
Open Scope Z_scope.
Arguments ext : simpl never.
Arguments Z.mul : simpl never.

Ltac tot Hb :=
  repeat first
  [ discriminate
  | match goal with |- context [has_space ?b ?p ?n] =>
      let H := fresh "HS" in destruct (has_space b p n) eqn:H; [unfold has_space in H|] end
  | match goal with |- context [read_bits_unsafe ?b ?p ?n] =>
      rewrite (read_bits_unsafe_spec b p n Hb) by lia end
  | match goal with |- context [read_flag_unsafe ?b ?p] =>
      rewrite (read_flag_unsafe_spec b p Hb) by lia end
  | progress unfold read_flag, read_bits
  | progress cbn [bind negb andb orb]
  | match goal with |- context [if ?c then _ else _] => destruct c end ].

Lemma color_config_total buf profile pos : bytes buf -> 0 <= pos -> color_config profile buf pos <> Panic.
Proof. intros Hb Hp. unfold color_config. tot Hb. Qed.

Lemma color_config_pos buf profile pos cc pos' : bytes buf -> 0 <= pos ->
  color_config profile buf pos = Ok (cc, pos') -> pos <= pos'.
Proof.
  intros Hb Hp. unfold color_config.
  repeat first
  [ match goal with |- Err _ = Ok _ -> _ => discriminate end
  | match goal with |- Ok _ = Ok _ -> _ => intros [= <- <-]; lia end
  | match goal with |- context [has_space ?b ?p ?n] =>
      let H := fresh "HS" in destruct (has_space b p n) eqn:H; [unfold has_space in H|] end
  | match goal with |- context [read_bits_unsafe ?b ?p ?n] =>
      rewrite (read_bits_unsafe_spec b p n Hb) by lia end
  | match goal with |- context [read_flag_unsafe ?b ?p] =>
      rewrite (read_flag_unsafe_spec b p Hb) by lia end
  | progress unfold read_flag, read_bits
  | progress cbn [bind negb andb orb]
  | match goal with |- context [if ?c then _ else _] => destruct c end ].
Qed.

Lemma key_frame_part_total buf profile p8 sf er : bytes buf -> 0 <= p8 -> key_frame_part profile buf p8 sf er <> Panic.
Proof.
  intros Hb Hp. unfold key_frame_part.
  destruct (has_space buf p8 24) eqn:HS; [unfold has_space in HS|cbn; discriminate]. cbn [negb].
  rewrite (read_bits_unsafe_spec buf p8 8 Hb) by lia. cbn [bind].
  destruct (negb (u8 (ext buf p8 8) =? 73)); [discriminate|].
  rewrite (read_bits_unsafe_spec buf (p8 + 8) 8 Hb) by lia. cbn [bind].
  destruct (negb (u8 (ext buf (p8 + 8) 8) =? 131)); [discriminate|].
  rewrite (read_bits_unsafe_spec buf (p8 + 8 + 8) 8 Hb) by lia. cbn [bind].
  destruct (negb (u8 (ext buf (p8 + 8 + 8) 8) =? 66)); [discriminate|].
  pose proof (color_config_total buf profile (p8 + 8 + 8 + 8) Hb ltac:(lia)) as Hc.
  destruct (color_config profile buf (p8 + 8 + 8 + 8)) as [[cc p12]|e|] eqn:Ecc; [|discriminate|congruence].
  apply color_config_pos in Ecc; [|assumption|lia]. cbn [bind].
  tot Hb.
Qed.

Theorem vp9_header_unmarshal_total buf : bytes buf -> vp9_header_unmarshal buf <> Panic.
Proof.
  intros Hb. unfold vp9_header_unmarshal.
  destruct (has_space buf 0 4) eqn:HS; [unfold has_space in HS|cbn; discriminate]. cbn [negb].
  rewrite (read_bits_unsafe_spec buf 0 2 Hb) by lia. cbn [bind].
  destruct (negb (ext buf 0 2 =? 2)); [discriminate|].
  rewrite (read_bits_unsafe_spec buf (0 + 2) 1 Hb) by lia. cbn [bind].
  rewrite (read_bits_unsafe_spec buf (0 + 2 + 1) 1 Hb) by lia. cbn [bind].
  match goal with |- context [if ?c =? 3 then _ else _] => destruct (c =? 3) end.
  - destruct (has_space buf (0 + 2 + 1 + 1) 1) eqn:HS1; [unfold has_space in HS1|cbn; discriminate]. cbn [bind].
    unfold read_flag.
    destruct (has_space buf (0 + 2 + 1 + 1 + 1) 1) eqn:HS2; [unfold has_space in HS2|cbn; discriminate].
    rewrite (read_flag_unsafe_spec buf _ Hb) by lia. cbn [bind].
    destruct (ext buf (0 + 2 + 1 + 1 + 1) 1 =? 1).
    + tot Hb.
    + destruct (has_space buf (0 + 2 + 1 + 1 + 1 + 1) 3) eqn:HS3; [unfold has_space in HS3|cbn; discriminate]. cbn [negb].
      rewrite !(read_flag_unsafe_spec buf _ Hb) by lia. cbn [bind].
      rewrite !(read_flag_unsafe_spec buf _ Hb) by lia. cbn [bind].
      rewrite !(read_flag_unsafe_spec buf _ Hb) by lia. cbn [bind].
      match goal with |- context [if negb ?c then _ else _] => destruct c end; cbn [negb]; [discriminate|].
      apply key_frame_part_total; [assumption|lia].
  - cbn [bind]. unfold read_flag.
    destruct (has_space buf (0 + 2 + 1 + 1) 1) eqn:HS2; [unfold has_space in HS2|cbn; discriminate].
    rewrite (read_flag_unsafe_spec buf _ Hb) by lia. cbn [bind].
    destruct (ext buf (0 + 2 + 1 + 1) 1 =? 1).
    + tot Hb.
    + destruct (has_space buf (0 + 2 + 1 + 1 + 1) 3) eqn:HS3; [unfold has_space in HS3|cbn; discriminate]. cbn [negb].
      rewrite !(read_flag_unsafe_spec buf _ Hb) by lia. cbn [bind].
      rewrite !(read_flag_unsafe_spec buf _ Hb) by lia. cbn [bind].
      rewrite !(read_flag_unsafe_spec buf _ Hb) by lia. cbn [bind].
      match goal with |- context [if negb ?c then _ else _] => destruct c end; cbn [negb]; [discriminate|].
      apply key_frame_part_total; [assumption|lia].
Qed.
