(* C10 / C15: H264 payloader output fed to H264Packet reproduces the NAL units; FU-A shape;
   resynchronisation at a start fragment. *)
From Coq Require Import ZArith List Lia Bool.
From Coq Require Import ZifyBool.
From RTP Require Import Base.Bits Base.Res Base.ListX Base.Bytes Base.Own Base.Tactics
  Model.AnnexB Model.H264.
Import ListNotations.
Open Scope Z_scope.

Ltac bits := autorewrite with bits.

Definition nal_type (n : list Z) : Z := match n with b0 :: _ => Z.land b0 31 | [] => 0 end.

(* a NAL unit as the property quantifies over them: at least two bytes, type 1-23 (the F bit is part of the unit) *)
Definition valid_nal (n : list Z) : Prop :=
  2 <= zlen n /\ match n with b0 :: _ => 0 <= b0 < 256 /\ 1 <= Z.land b0 31 <= 23 | [] => False end.

(* run a list of payloads through one depacketizer, concatenating what it returns *)
Fixpoint depack (st : h264pkt) (ps : list (list Z)) : res (h264pkt * list Z) :=
  match ps with
  | [] => Ok (st, [])
  | p :: t =>
    match h264_unmarshal st (Some p) with
    | Ok (st1, o1) =>
      match depack st1 t with
      | Ok (st2, o2) => Ok (st2, o1 ++ o2)
      | e => e
      end
    | Err e => Err e
    | Panic => Panic
    end
  end.

Definition own_bytes (r : bref) : list Z := match r with Own l => l | View _ _ _ => [] end.

Lemma depack_app st a b :
  depack st (a ++ b) = match depack st a with
                       | Ok (st1, o1) => match depack st1 b with
                                         | Ok (st2, o2) => Ok (st2, o1 ++ o2)
                                         | e => e
                                         end
                       | e => e
                       end.
Proof.
  revert st. induction a as [|p t IH]; intros st; cbn [app depack].
  - destruct (depack st b) as [[st2 o2]| |]; reflexivity.
  - destruct (h264_unmarshal st (Some p)) as [[st1 o1]| |]; try reflexivity.
    rewrite IH. destruct (depack st1 t) as [[st2 o2]| |]; try reflexivity.
    destruct (depack st2 b) as [[st3 o3]| |]; try reflexivity. rewrite app_assoc. reflexivity.
Qed.

(* ---- single NAL unit packet ---- *)
Lemma single_decodes st n : valid_nal n ->
  h264_unmarshal st (Some n) = Ok (st, packaging (hk_avc st) [] n).
Proof.
  intros [Hlen Hb]. destruct n as [|b0 l1]; [contradiction|]. destruct Hb as [_ Hty].
  unfold h264_unmarshal. replace ((0 <? Z.land b0 31) && (Z.land b0 31 <? 24)) with true by lia. reflexivity.
Qed.

(* ---- FU-A ---- *)
(* fragment headers: indicator on all, S on the first, E on the last, the unit's type on all *)
Inductive fua_rel (ind ty : Z) : bool -> list bref -> list (list Z) -> Prop :=
| fua_last c : fua_rel ind ty false [Own (ind :: Z.lor ty 64 :: c)] [c]
| fua_more first c fs cs : cs <> [] -> fua_rel ind ty false fs cs ->
    fua_rel ind ty first (Own (ind :: (if first then Z.lor ty 128 else ty) :: c) :: fs) (c :: cs).

Lemma slice_take (l : list Z) k : 0 <= k <= zlen l -> slice l 0 k = Some (take k l).
Proof.
  intros H. unfold slice. replace (0 <? 0) with false by reflexivity.
  destruct (k <? 0) eqn:?; [lia|]. destruct (zlen l <? k) eqn:?; [lia|]. cbn [orb].
  rewrite drop_0. f_equal. f_equal. lia.
Qed.
Lemma slice_drop (l : list Z) k : 0 <= k <= zlen l -> slice l k (zlen l) = Some (drop k l).
Proof.
  intros H. unfold slice. destruct (k <? 0) eqn:?; [lia|]. destruct (zlen l <? k) eqn:?; [lia|].
  destruct (zlen l <? zlen l) eqn:?; [lia|]. cbn [orb]. f_equal. apply take_all. rewrite drop_zlen by lia. lia.
Qed.

Lemma fua_frags_spec : forall fuel maxf nri ty total rest,
  1 <= maxf -> (length rest < fuel)%nat -> 1 <= zlen rest <= total ->
  (zlen rest = total -> maxf < zlen rest) ->
  exists fs cs, fua_frags fuel maxf nri ty total rest = Ok fs /\
    fua_rel (Z.lor 28 nri) ty (zlen rest =? total) fs cs /\ concat cs = rest /\
    Forall (fun c => 1 <= zlen c <= maxf) cs /\ cs <> [].
Proof.
  induction fuel as [|fuel IH]; intros maxf nri ty total rest Hm Hf Hr Hfirst; [lia|].
  cbn [fua_frags]. case_if; [lia|].
  destruct (maxf <? zlen rest) eqn:Ecur.
  - (* a full fragment, more to come *)
    rewrite slice_take, slice_drop by lia.
    assert (Hd : 1 <= zlen (drop maxf rest) <= total) by (rewrite drop_zlen by lia; lia).
    assert (Hdl : (length (drop maxf rest) < fuel)%nat).
    { pose proof (drop_zlen maxf rest ltac:(lia)) as Hz. unfold zlen in *. lia. }
    destruct (IH maxf nri ty total (drop maxf rest) Hm Hdl Hd ltac:(rewrite drop_zlen by lia; lia))
      as (fs & cs & Hrun & Hrel & Hcat & Hall & Hne).
    rewrite Hrun. replace (zlen (drop maxf rest) =? total) with false in Hrel by (rewrite drop_zlen by lia; lia).
    exists (Own (Z.lor 28 nri :: (if zlen rest =? total then Z.lor ty 128 else ty) :: take maxf rest) :: fs),
           (take maxf rest :: cs).
    split.
    + f_equal. f_equal. f_equal. f_equal. f_equal.
      destruct (zlen rest =? total); [reflexivity|]. destruct (zlen rest - maxf =? 0) eqn:?; [lia|reflexivity].
    + split; [constructor; assumption|]. split; [cbn [concat]; rewrite Hcat; apply take_drop|].
      split; [constructor; [rewrite take_zlen by lia; lia|assumption]|discriminate].
  - (* the last fragment *)
    assert (Hnf : (zlen rest =? total) = false) by (destruct (zlen rest =? total) eqn:?; [lia|reflexivity]).
    rewrite Hnf. rewrite slice_take, slice_drop by lia.
    rewrite (drop_all (zlen rest) rest) by lia. rewrite (take_all (zlen rest) rest) by lia.
    destruct fuel; [unfold zlen in *; lia|]. cbn [fua_frags]. change (zlen (@nil Z) <=? 0) with true. cbv iota.
    replace (zlen rest - zlen rest =? 0) with true by lia.
    exists [Own (Z.lor 28 nri :: Z.lor ty 64 :: rest)], [rest].
    split; [reflexivity|]. split; [constructor|]. split; [cbn; apply app_nil_r|].
    split; [constructor; [lia|constructor]|discriminate].
Qed.

(* bit facts about the FU header for a unit type 1..23 *)
Lemma fu_header_bits ty : 1 <= ty <= 23 ->
  Z.land (Z.lor ty 128) 128 <> 0 /\ Z.land (Z.lor ty 128) 64 = 0 /\ Z.land (Z.lor ty 128) 31 = ty /\
  Z.land (Z.lor ty 64) 128 = 0 /\ Z.land (Z.lor ty 64) 64 <> 0 /\ Z.land (Z.lor ty 64) 31 = ty /\
  Z.land ty 128 = 0 /\ Z.land ty 64 = 0 /\ Z.land ty 31 = ty.
Proof.
  intros H. rewrite lor_128_add, lor_64_add by lia. bits. repeat split; lia.
Qed.

Definition fnri_ok (nri : Z) : Prop := nri = 0 \/ nri = 32 \/ nri = 64 \/ nri = 96 \/ nri = 128 \/ nri = 160 \/ nri = 192 \/ nri = 224.

Lemma fu_indicator_bits nri : fnri_ok nri ->
  Z.land (Z.lor 28 nri) 31 = 28 /\ Z.land (Z.lor 28 nri) 224 = nri.
Proof.
  intros [ -> | [ -> | [ -> | [ -> | [ -> | [ -> | [ -> | -> ] ] ] ] ] ] ]; split; reflexivity.
Qed.

(* feeding the fragments of one unit: whatever the buffer held before a start fragment, the
   unit comes out when the end fragment arrives *)
Lemma depack_fua_tail avc nri ty : fnri_ok nri -> 1 <= ty <= 23 ->
  forall fs cs, fua_rel (Z.lor 28 nri) ty false fs cs -> forall buf,
  depack (mkH264Pkt avc buf) (map own_bytes fs)
  = Ok (mkH264Pkt avc [], packaging avc [] (Z.lor nri ty :: buf ++ concat cs)).
Proof.
  intros Hn Ht fs cs Hrel.
  destruct (fu_header_bits ty Ht) as (B1 & B2 & B3 & B4 & B5 & B6 & B7 & B8 & B9).
  destruct (fu_indicator_bits nri Hn) as (I1 & I2).
  remember false as first eqn:Hfirst. induction Hrel as [c|first c fs cs Hne Hrel IH]; intros buf.
  - cbn [map own_bytes depack]. unfold h264_unmarshal. cbn [hk_avc hk_fua].
    rewrite I1. change ((0 <? 28) && (28 <? 24)) with false. change (28 =? 24) with false. change (28 =? 28) with true.
    cbv iota. rewrite B4, B6, I2. change (0 =? 0) with true. cbn [negb].
    destruct (Z.land (Z.lor ty 64) 64 =? 0) eqn:E; [lia|]. cbn [negb]. rewrite app_nil_r.
    cbn [concat]. rewrite app_nil_r. reflexivity.
  - subst first. specialize (IH eq_refl). cbn [map own_bytes depack]. unfold h264_unmarshal at 1. cbn [hk_avc hk_fua].
    rewrite I1. change ((0 <? 28) && (28 <? 24)) with false. change (28 =? 24) with false. change (28 =? 28) with true.
    cbv iota. rewrite B7, B8. change (0 =? 0) with true. cbn [negb].
    rewrite IH. cbn [concat]. rewrite app_nil_l, app_assoc. reflexivity.
Qed.

Theorem depack_fua avc nri ty fs cs : fnri_ok nri -> 1 <= ty <= 23 ->
  fua_rel (Z.lor 28 nri) ty true fs cs -> forall stale,
  depack (mkH264Pkt avc stale) (map own_bytes fs)
  = Ok (mkH264Pkt avc [], packaging avc [] (Z.lor nri ty :: concat cs)).
Proof.
  intros Hn Ht Hrel stale.
  destruct (fu_header_bits ty Ht) as (B1 & B2 & B3 & B4 & B5 & B6 & B7 & B8 & B9).
  destruct (fu_indicator_bits nri Hn) as (I1 & I2).
  inversion Hrel as [|first c fs' cs' Hne Hrel' Hf]; subst.
  cbn [map own_bytes depack]. unfold h264_unmarshal at 1. cbn [hk_avc hk_fua].
  rewrite I1. change ((0 <? 28) && (28 <? 24)) with false. change (28 =? 24) with false. change (28 =? 28) with true.
  cbv iota. destruct (Z.land (Z.lor ty 128) 128 =? 0) eqn:E; [lia|]. cbn [negb]. rewrite B2.
  change (0 =? 0) with true. cbn [negb app].
  rewrite (depack_fua_tail avc nri ty Hn Ht fs' cs' Hrel' c). cbn [concat app]. reflexivity.
Qed.

(* ------------------------------------------------------------------ *)
(* C15: resynchronisation                                              *)

(* payloads other than FU-A neither read nor write the fragment buffer *)
Lemma non_fua_ignores_buffer avc b1 b2 p :
  match p with b0 :: _ => Z.land b0 31 <> 28 | [] => True end ->
  match h264_unmarshal (mkH264Pkt avc b1) (Some p), h264_unmarshal (mkH264Pkt avc b2) (Some p) with
  | Ok (s1, o1), Ok (s2, o2) => o1 = o2 /\ s1 = mkH264Pkt avc b1 /\ s2 = mkH264Pkt avc b2
  | Err e1, Err e2 => e1 = e2
  | Panic, Panic => True
  | _, _ => False
  end.
Proof.
  intros Hp. destruct p as [|b0 l1]; [reflexivity|]. unfold h264_unmarshal. cbn [hk_avc hk_fua].
  destruct ((0 <? Z.land b0 31) && (Z.land b0 31 <? 24)); [repeat split|].
  destruct (Z.land b0 31 =? 24).
  - destruct (stapa_loop (S (length l1)) avc l1 []); [repeat split|reflexivity|exact I].
  - destruct (Z.land b0 31 =? 28) eqn:E; [lia|reflexivity].
Qed.

(* a completely delivered frame: payloads that are not FU-A, and FU-A trains that begin with
   their start fragment and run to their end fragment *)
Inductive item : Type :=
| INonFu (p : list Z)
| IFu (fs : list bref).

Definition item_ok (it : item) : Prop :=
  match it with
  | INonFu p => match p with b0 :: _ => Z.land b0 31 <> 28 | [] => True end
  | IFu fs => exists nri ty cs, fnri_ok nri /\ 1 <= ty <= 23 /\
                                fua_rel (Z.lor 28 nri) ty true fs cs
  end.

Definition item_payloads (it : item) : list (list Z) :=
  match it with INonFu p => [p] | IFu fs => map own_bytes fs end.

Definition frame_payloads (f : list item) : list (list Z) := concat (map item_payloads f).

Definition out_of (r : res (h264pkt * list Z)) : res (list Z) :=
  match r with Ok (_, o) => Ok o | Err e => Err e | Panic => Panic end.

Theorem frame_independent_of_buffer : forall f avc b1 b2, Forall item_ok f ->
  out_of (depack (mkH264Pkt avc b1) (frame_payloads f)) = out_of (depack (mkH264Pkt avc b2) (frame_payloads f)).
Proof.
  induction f as [|it f IH]; intros avc b1 b2 Hok; [reflexivity|].
  apply Forall_cons_iff in Hok as [Hit Hf].
  unfold frame_payloads. cbn [map concat]. fold (frame_payloads f). rewrite !depack_app.
  destruct it as [p|fs]; cbn [item_payloads item_ok] in *.
  - cbn [depack]. pose proof (non_fua_ignores_buffer avc b1 b2 p Hit) as Hn.
    destruct (h264_unmarshal (mkH264Pkt avc b1) (Some p)) as [[s1 o1]|e1|],
             (h264_unmarshal (mkH264Pkt avc b2) (Some p)) as [[s2 o2]|e2|]; try contradiction.
    + destruct Hn as (-> & -> & ->). specialize (IH avc b1 b2 Hf).
      destruct (depack (mkH264Pkt avc b1) (frame_payloads f)) as [[t1 q1]|e1|],
               (depack (mkH264Pkt avc b2) (frame_payloads f)) as [[t2 q2]|e2|]; cbn [out_of] in *; try discriminate;
        try (injection IH as ->); try reflexivity; try (rewrite app_nil_r; reflexivity); try exact IH.
    + subst. reflexivity.
    + reflexivity.
  - destruct Hit as (nri & ty & cs & Hn & Ht & Hrel).
    rewrite (depack_fua avc nri ty fs cs Hn Ht Hrel b1), (depack_fua avc nri ty fs cs Hn Ht Hrel b2). reflexivity.
Qed.

Lemma unmarshal_keeps_avc st p st' o : h264_unmarshal st p = Ok (st', o) -> hk_avc st' = hk_avc st.
Proof.
  unfold h264_unmarshal. destruct p as [[|b0 l1]|]; try discriminate.
  destruct ((0 <? Z.land b0 31) && (Z.land b0 31 <? 24)); [intros H; injection H as <- _; reflexivity|].
  destruct (Z.land b0 31 =? 24).
  - destruct (stapa_loop _ _ l1 []); try discriminate. intros H; injection H as <- _; reflexivity.
  - destruct (Z.land b0 31 =? 28); [|discriminate]. destruct l1 as [|b1 body]; [discriminate|].
    destruct (negb (Z.land b1 64 =? 0)); intros H; injection H as <- _; reflexivity.
Qed.

(* the receiver after an arbitrary history of payloads (nil, empty, garbage, any subset of an
   earlier frame); a rejected payload leaves the receiver as it was *)
Fixpoint after_history (st : h264pkt) (h : list (option (list Z))) : h264pkt :=
  match h with
  | [] => st
  | p :: t => match h264_unmarshal st p with
              | Ok (st', _) => after_history st' t
              | _ => after_history st t
              end
  end.

Lemma after_history_avc : forall h st, hk_avc (after_history st h) = hk_avc st.
Proof.
  induction h as [|p t IH]; intros st; [reflexivity|]. cbn [after_history].
  destruct (h264_unmarshal st p) as [[st' o]| |] eqn:E; rewrite IH; [|reflexivity|reflexivity].
  exact (unmarshal_keeps_avc _ _ _ _ E).
Qed.

(* C15 for H264Packet: whatever was delivered before, the next complete frame decodes to exactly
   what a fresh depacketizer produces for it *)
Theorem resync_after_any_history : forall h f avc, Forall item_ok f ->
  out_of (depack (after_history (mkH264Pkt avc []) h) (frame_payloads f))
  = out_of (depack (mkH264Pkt avc []) (frame_payloads f)).
Proof.
  intros h f avc Hok. pose proof (after_history_avc h (mkH264Pkt avc [])) as Ha.
  destruct (after_history (mkH264Pkt avc []) h) as [avc' buf]. cbn [hk_avc] in Ha. subst avc'.
  apply frame_independent_of_buffer. exact Hok.
Qed.
