(* LEB128: ReadLeb128 (WriteToLeb128 v ++ rest) = (v, length) for every uint v (below 2^64). *)
From Coq Require Import ZArith List Lia Bool.
From Coq Require Import ZifyBool.
From RTP Require Import Base.Bits Base.ListX Base.Tactics Model.Leb128.
Import ListNotations.
Open Scope Z_scope.

Ltac bits := autorewrite with bits.

(* the encoder in arithmetic form *)
Fixpoint enc (fuel : nat) (v : Z) : list Z :=
  match fuel with
  | O => []
  | S f => if v <? 128 then [v] else (v mod 128 + 128) :: enc f (v / 128)
  end.

Lemma write_aux_enc : forall fuel v, 0 <= v -> write_leb128_aux fuel v = enc fuel v.
Proof.
  induction fuel as [|fuel IH]; intros v Hv; [reflexivity|].
  cbn [write_leb128_aux enc]. bits.
  destruct (v / 128 =? 0) eqn:E; destruct (v <? 128) eqn:E2; try lia.
  - f_equal. lia.
  - rewrite lor_128_add by lia. f_equal. apply IH. lia.
Qed.

(* an encoding: continuation bytes (msb set) then a final byte (msb clear) *)
Definition cont (c : Z) : Prop := 128 <= c < 256.

Lemma enc_shape : forall fuel k v, 0 <= v < 128 ^ Z.of_nat k -> (0 < k <= fuel)%nat ->
  exists cs b, enc fuel v = cs ++ [b] /\ Forall cont cs /\ 0 <= b < 128 /\ (length cs < k)%nat.
Proof.
  induction fuel as [|fuel IH]; intros k v Hv Hk; [lia|].
  cbn [enc]. destruct (v <? 128) eqn:E.
  - exists [], v. repeat split; try constructor; cbn [length]; lia.
  - destruct k as [|[|k']]; [lia| |].
    + exfalso. change (128 ^ Z.of_nat 1) with 128 in Hv. lia.
    + assert (Hv' : 0 <= v / 128 < 128 ^ Z.of_nat (S k')).
      { rewrite (Nat2Z.inj_succ (S k')), Z.pow_succ_r in Hv by lia. lia. }
      destruct (IH (S k') (v / 128) Hv' ltac:(lia)) as (cs & b & He & Hc & Hb & Hl).
      exists ((v mod 128 + 128) :: cs), b. rewrite He. repeat split; auto; try lia.
      * constructor; [unfold cont; lia|assumption].
      * cbn [length]. lia.
Qed.

(* little-endian base-128 value of an encoding *)
Fixpoint val128 (l : list Z) : Z :=
  match l with [] => 0 | c :: t => c mod 128 + 128 * val128 t end.

Lemma val128_enc : forall fuel k v, 0 <= v < 128 ^ Z.of_nat k -> (k <= fuel)%nat -> (0 < fuel)%nat ->
  val128 (enc fuel v) = v.
Proof.
  induction fuel as [|fuel IH]; intros k v Hv Hk Hf; [lia|].
  cbn [enc]. destruct (v <? 128) eqn:E; cbn [val128]; [lia|].
  destruct k as [|k'].
  - change (128 ^ Z.of_nat 0) with 1 in Hv. lia.
  - rewrite Nat2Z.inj_succ, Z.pow_succ_r in Hv by lia.
    destruct k' as [|k''].
    + change (128 ^ Z.of_nat 0) with 1 in Hv. lia.
    + rewrite (IH (S k'')); [lia|lia|lia|lia].
Qed.

Lemma val128_nonneg l : 0 <= val128 l.
Proof. induction l as [|c t IH]; cbn [val128]; [lia|]. pose proof (Z.mod_pos_bound c 128 ltac:(lia)). lia. Qed.

(* ReadLeb128 adds each 7-bit group at its place: acc holds the groups read so far, below 2^(7i) *)
Lemma read_aux_spec : forall cs b rest acc i, Forall cont cs -> 0 <= b < 128 -> 0 <= i ->
  0 <= acc < 2 ^ (7 * i) -> acc + 2 ^ (7 * i) * val128 (cs ++ [b]) < 18446744073709551616 ->
  read_leb128_aux (cs ++ b :: rest) acc i = Some (acc + 2 ^ (7 * i) * val128 (cs ++ [b]), i + zlen cs + 1).
Proof.
  induction cs as [|c cs IH]; intros b rest acc i Hc Hb Hi Ha Hbd.
  - cbn [app read_leb128_aux val128] in *. bits. replace (b / 128 mod 2 * 128 =? 0) with true by lia.
    rewrite shiftl_mul by lia. set (P := 2 ^ (7 * i)) in *.
    assert (HP : 0 < P) by (apply Z.pow_pos_nonneg; lia).
    unfold u64. rewrite Z.mod_small by nia.
    rewrite Z.lor_comm, (lor_add_small (b mod 128 * P) acc (7 * i)) by (try lia; apply Z.mod_mul; lia).
    f_equal. f_equal; [nia|change (zlen (@nil Z)) with 0; lia].
  - apply Forall_cons_iff in Hc as [Hc0 Hc]. unfold cont in Hc0.
    cbn [app read_leb128_aux]. bits. replace (c / 128 mod 2 * 128 =? 0) with false by lia.
    rewrite shiftl_mul by lia. set (P := 2 ^ (7 * i)) in *.
    assert (HP : 0 < P) by (apply Z.pow_pos_nonneg; lia).
    cbn [app val128] in Hbd. pose proof (val128_nonneg (cs ++ [b])) as Hvn.
    pose proof (Z.mod_pos_bound c 128 ltac:(lia)) as Hcm.
    unfold u64. rewrite Z.mod_small by nia.
    rewrite Z.lor_comm, (lor_add_small (c mod 128 * P) acc (7 * i)) by (try lia; apply Z.mod_mul; lia).
    assert (HP1 : 2 ^ (7 * (i + 1)) = P * 128).
    { replace (7 * (i + 1)) with (7 * i + 7) by lia. rewrite Z.pow_add_r by lia. reflexivity. }
    rewrite (IH b rest (c mod 128 * P + acc) (i + 1) Hc Hb ltac:(lia)); rewrite ?HP1; [|nia|nia].
    f_equal. f_equal; [cbn [app val128]; nia|rewrite zlen_cons; lia].
Qed.

(* every uint: the 9- and 10-byte encodings of values from 2^56 on included *)
Theorem leb128_roundtrip_64 : forall v rest, 0 <= v < 18446744073709551616 ->
  read_leb128 (write_leb128 v ++ rest) = Some (v, zlen (write_leb128 v)).
Proof.
  intros v rest Hv. unfold write_leb128, read_leb128, u64.
  rewrite Z.mod_small by lia. rewrite write_aux_enc by lia.
  assert (Hv10 : 0 <= v < 128 ^ Z.of_nat 10) by (change (128 ^ Z.of_nat 10) with 1180591620717411303424; lia).
  destruct (enc_shape 10 10 v Hv10 ltac:(lia)) as (cs & b & He & Hc & Hb & Hl).
  pose proof (val128_enc 10 10 v Hv10 ltac:(lia) ltac:(lia)) as Hval.
  rewrite He in *. rewrite <- app_assoc. cbn [app].
  rewrite (read_aux_spec cs b rest 0 0 Hc Hb ltac:(lia) ltac:(change (2 ^ (7 * 0)) with 1; lia)
             ltac:(change (2 ^ (7 * 0)) with 1; lia)).
  change (2 ^ (7 * 0)) with 1. f_equal. f_equal; [lia|rewrite zlen_app; change (zlen [b]) with 1; lia].
Qed.

Theorem leb128_roundtrip : forall v rest, 0 <= v < 72057594037927936 ->      (* 2^56 *)
  read_leb128 (write_leb128 v ++ rest) = Some (v, zlen (write_leb128 v)).
Proof. intros; apply leb128_roundtrip_64; lia. Qed.

Corollary leb128_roundtrip_u32 : forall v rest, 0 <= v < 4294967296 ->
  read_leb128 (write_leb128 v ++ rest) = Some (v, zlen (write_leb128 v)).
Proof. intros; apply leb128_roundtrip; lia. Qed.

(* 1..5 bytes for a 32-bit value, and exactly ceil(bits/7) in general *)
Lemma leb128_length_u32 v : 0 <= v < 4294967296 -> 1 <= zlen (write_leb128 v) <= 5.
Proof.
  intros Hv. unfold write_leb128, u64. rewrite Z.mod_small by lia. rewrite write_aux_enc by lia.
  assert (Hv5 : 0 <= v < 128 ^ Z.of_nat 5) by (change (128 ^ Z.of_nat 5) with 34359738368; lia).
  destruct (enc_shape 10 5 v Hv5 ltac:(lia)) as (cs & b & He & _ & _ & Hl).
  rewrite He, zlen_app. change (zlen [b]) with 1. unfold zlen. lia.
Qed.

(* ReadLeb128 reports between 1 and len(in) bytes *)
Lemma read_aux_bounds : forall l acc i v n, read_leb128_aux l acc i = Some (v, n) -> i < n <= i + zlen l.
Proof.
  induction l as [|b t IH]; intros acc i v n; cbn [read_leb128_aux]; [discriminate|].
  rewrite zlen_cons. pose proof (zlen_nonneg t).
  destruct (Z.land b 128 =? 0).
  - intros [= _ <-]. lia.
  - intros H1. apply IH in H1. lia.
Qed.

Lemma read_leb128_bounds l v n : read_leb128 l = Some (v, n) -> 0 < n <= zlen l.
Proof. intros H. apply read_aux_bounds in H. lia. Qed.
