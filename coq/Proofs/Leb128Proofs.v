(* LEB128: ReadLeb128 (WriteToLeb128 v ++ rest) = (v, length) for every v below 2^56, the limit of
   ReadLeb128's 64-bit accumulator (which covers the 0..2^32-1 of the property). *)
From Coq Require Import ZArith List Lia Bool.
From Coq Require Import ZifyBool.
From RTP Require Import Base.Bits Base.ListX Base.Tactics Model.Leb128.
Import ListNotations.
Open Scope Z_scope.

Ltac bits := autorewrite with bits.

(* the encoder in arithmetic form *)
Fixpoint enc (fuel : nat) (v : Z) : list Z :=
  match fuel with
  | O => []
  | S f => if v <? 128 then [v] else (v mod 128 + 128) :: enc f (v / 128)
  end.

Lemma write_aux_enc : forall fuel v, 0 <= v -> write_leb128_aux fuel v = enc fuel v.
Proof.
  induction fuel as [|fuel IH]; intros v Hv; [reflexivity|].
  cbn [write_leb128_aux enc]. bits.
  destruct (v / 128 =? 0) eqn:E; destruct (v <? 128) eqn:E2; try lia.
  - f_equal. lia.
  - rewrite lor_128_add by lia. f_equal. apply IH. lia.
Qed.

(* an encoding: continuation bytes (msb set) then a final byte (msb clear) *)
Definition cont (c : Z) : Prop := 128 <= c < 256.

Lemma enc_shape : forall fuel k v, 0 <= v < 128 ^ Z.of_nat k -> (0 < k <= fuel)%nat ->
  exists cs b, enc fuel v = cs ++ [b] /\ Forall cont cs /\ 0 <= b < 128 /\ (length cs < k)%nat.
Proof.
  induction fuel as [|fuel IH]; intros k v Hv Hk; [lia|].
  cbn [enc]. destruct (v <? 128) eqn:E.
  - exists [], v. repeat split; try constructor; cbn [length]; lia.
  - destruct k as [|[|k']]; [lia| |].
    + exfalso. change (128 ^ Z.of_nat 1) with 128 in Hv. lia.
    + assert (Hv' : 0 <= v / 128 < 128 ^ Z.of_nat (S k')).
      { rewrite (Nat2Z.inj_succ (S k')), Z.pow_succ_r in Hv by lia. lia. }
      destruct (IH (S k') (v / 128) Hv' ltac:(lia)) as (cs & b & He & Hc & Hb & Hl).
      exists ((v mod 128 + 128) :: cs), b. rewrite He. repeat split; auto; try lia.
      * constructor; [unfold cont; lia|assumption].
      * cbn [length]. lia.
Qed.

(* little-endian base-128 value of an encoding *)
Fixpoint val128 (l : list Z) : Z :=
  match l with [] => 0 | c :: t => c mod 128 + 128 * val128 t end.

Lemma val128_enc : forall fuel k v, 0 <= v < 128 ^ Z.of_nat k -> (k <= fuel)%nat -> (0 < fuel)%nat ->
  val128 (enc fuel v) = v.
Proof.
  induction fuel as [|fuel IH]; intros k v Hv Hk Hf; [lia|].
  cbn [enc]. destruct (v <? 128) eqn:E; cbn [val128]; [lia|].
  destruct k as [|k'].
  - change (128 ^ Z.of_nat 0) with 1 in Hv. lia.
  - rewrite Nat2Z.inj_succ, Z.pow_succ_r in Hv by lia.
    destruct k' as [|k''].
    + change (128 ^ Z.of_nat 0) with 1 in Hv. lia.
    + rewrite (IH (S k'')); [lia|lia|lia|lia].
Qed.

Definition horner (r : list Z) (o : Z) : Z := fold_left (fun o x => o * 128 + x mod 128) r o.

Lemma horner_rev l : horner (rev l) 0 = val128 l.
Proof.
  induction l as [|c t IH]; [reflexivity|].
  cbn [rev val128]. unfold horner in *. rewrite fold_left_app. cbn [fold_left]. rewrite IH. lia.
Qed.

(* low-byte-first base-256 value *)
Fixpoint le256 (r : list Z) : Z := match r with [] => 0 | x :: t => x + 256 * le256 t end.

Lemma le256_nonneg r : Forall (fun x => 0 <= x < 256) r -> 0 <= le256 r.
Proof. induction 1; cbn [le256]; lia. Qed.

Lemma le256_pos_cont t : Forall cont t -> t <> [] -> 0 < le256 t.
Proof.
  intros H Hne. destruct t as [|y t]; [congruence|]. apply Forall_cons_iff in H as [Hy Ht].
  cbn [le256]. pose proof (le256_nonneg t ltac:(eapply Forall_impl; [|exact Ht]; unfold cont; intros; lia)).
  unfold cont in Hy. lia.
Qed.

(* decodeLEB128 walks the packed bytes from the low end *)
Lemma decode_aux_spec : forall t fuel x out, Forall cont t -> 0 <= x < 256 ->
  0 <= out -> out mod 128 = 0 -> (length t < fuel)%nat ->
  (out + 128) * 128 ^ Z.of_nat (length t) <= 9223372036854775808 ->
  decode_leb_aux fuel (le256 (x :: t)) out = horner t (out + x mod 128).
Proof.
  induction t as [|y t IH]; intros fuel x out Ht Hx Ho Hm Hf Hb; (destruct fuel; [cbn [length] in Hf; lia|]).
  - cbn [decode_leb_aux le256 horner fold_left]. bits.
    replace (x + 256 * 0) with x by lia.
    rewrite (lor_add_small out (x mod 128) 7) by lia.
    replace (x / 256 =? 0) with true by lia. reflexivity.
  - apply Forall_cons_iff in Ht as [Hy Ht]. unfold cont in Hy.
    pose proof (le256_nonneg t ltac:(eapply Forall_impl; [|exact Ht]; unfold cont; intros; lia)) as Hle.
    cbn [decode_leb_aux]. bits.
    assert (Hlow : (le256 (x :: y :: t)) mod 128 = x mod 128) by (cbn [le256]; lia).
    rewrite Hlow. rewrite (lor_add_small out (x mod 128) 7) by lia.
    assert (Hhi : le256 (x :: y :: t) / 256 = le256 (y :: t)) by (cbn [le256]; lia).
    rewrite Hhi.
    assert (Hpos : 0 < le256 (y :: t)) by (cbn [le256]; lia).
    destruct (le256 (y :: t) =? 0) eqn:E; [lia|].
    cbn [length] in Hb, Hf. rewrite Nat2Z.inj_succ, Z.pow_succ_r in Hb by lia.
    assert (Hp : 0 < 128 ^ Z.of_nat (length t)) by (apply Z.pow_pos_nonneg; lia).
    unfold u64. rewrite Z.mod_small by nia.
    rewrite (IH fuel y ((out + x mod 128) * 128) Ht ltac:(lia) ltac:(lia) ltac:(lia) ltac:(lia) ltac:(nia)).
    unfold horner. cbn [fold_left]. reflexivity.
Qed.

(* ReadLeb128 packs the bytes big-endian: the low-byte-first view of the accumulator is the
   reversed input *)
Lemma read_aux_spec : forall cs b rest acc i, Forall cont cs -> 0 <= b < 128 ->
  0 <= acc -> acc mod 256 = 0 -> (acc + 256) * 256 ^ Z.of_nat (length cs) <= 18446744073709551616 ->
  exists a, read_leb128_aux (cs ++ b :: rest) acc i = Some (decode_leb a, i + zlen cs + 1) /\
            a = acc * 256 ^ Z.of_nat (length cs) + le256 (rev (cs ++ [b])).
Proof.
  induction cs as [|c cs IH]; intros b rest acc i Hc Hb Ha Hm Hbd.
  - cbn [app read_leb128_aux]. bits. replace (b / 128 mod 2 * 128 =? 0) with true by lia.
    rewrite (lor_add_small acc b 8) by lia. eexists. split; [f_equal; f_equal; cbn; lia|].
    cbn [length rev app le256]. change (256 ^ Z.of_nat 0) with 1. lia.
  - apply Forall_cons_iff in Hc as [Hc0 Hc]. unfold cont in Hc0.
    cbn [app read_leb128_aux]. bits. replace (c / 128 mod 2 * 128 =? 0) with false by lia.
    rewrite (lor_add_small acc c 8) by lia.
    cbn [length] in Hbd. rewrite Nat2Z.inj_succ, Z.pow_succ_r in Hbd by lia.
    assert (Hp : 0 < 256 ^ Z.of_nat (length cs)) by (apply Z.pow_pos_nonneg; lia).
    unfold u64. rewrite Z.mod_small by nia.
    destruct (IH b rest ((acc + c) * 256) (i + 1) Hc Hb ltac:(lia) ltac:(lia) ltac:(nia)) as (a & Hr & Hav).
    exists a. split.
    + rewrite Hr. f_equal. f_equal. rewrite !zlen_cons. lia.
    + rewrite Hav. cbn [length app rev]. rewrite Nat2Z.inj_succ, Z.pow_succ_r by lia.
      (* le256 (rev (cs ++ [b]) ++ [c]) = le256 (rev (cs ++ [b])) + c * 256 ^ (length cs + 1) *)
      assert (Hsn : forall (r : list Z) x, le256 (r ++ [x]) = le256 r + x * 256 ^ Z.of_nat (length r)).
      { induction r as [|y r IHr]; intros x; cbn [app le256 length]; [change (256 ^ Z.of_nat 0) with 1; lia|].
        rewrite IHr, Nat2Z.inj_succ, Z.pow_succ_r by lia. lia. }
      rewrite Hsn. rewrite rev_length, app_length. cbn [length].
      replace (Z.of_nat (length cs + 1)) with (Z.succ (Z.of_nat (length cs))) by lia.
      rewrite Z.pow_succ_r by lia. lia.
Qed.

Lemma le256_bound r : Forall (fun x => 0 <= x < 256) r -> le256 r < 256 ^ Z.of_nat (length r).
Proof.
  induction 1 as [|x r Hx Hr IH]; cbn [le256 length]; [change (256 ^ Z.of_nat 0) with 1; lia|].
  rewrite Nat2Z.inj_succ, Z.pow_succ_r by lia. lia.
Qed.

Theorem leb128_roundtrip : forall v rest, 0 <= v < 72057594037927936 ->      (* 2^56 *)
  read_leb128 (write_leb128 v ++ rest) = Some (v, zlen (write_leb128 v)).
Proof.
  intros v rest Hv. unfold write_leb128, read_leb128, u64.
  rewrite Z.mod_small by lia. rewrite write_aux_enc by lia.
  assert (Hv8 : 0 <= v < 128 ^ Z.of_nat 8) by (change (128 ^ Z.of_nat 8) with 72057594037927936; lia).
  destruct (enc_shape 10 8 v Hv8 ltac:(lia)) as (cs & b & He & Hc & Hb & Hl).
  pose proof (val128_enc 10 8 v Hv8 ltac:(lia) ltac:(lia)) as Hval.
  rewrite He in *. rewrite <- app_assoc. cbn [app].
  assert (Hpow : 256 ^ Z.of_nat (length cs) <= 256 ^ 7) by (apply Z.pow_le_mono_r; lia).
  change (256 ^ 7) with 72057594037927936 in Hpow.
  destruct (read_aux_spec cs b rest 0 0 Hc Hb ltac:(lia) ltac:(reflexivity) ltac:(lia)) as (a & Hr & Ha).
  rewrite Hr. f_equal. f_equal; [|rewrite zlen_app; change (zlen [b]) with 1; lia].
  rewrite Ha, Z.mul_0_l, Z.add_0_l. rewrite rev_app_distr. cbn [rev app].
  unfold decode_leb.
  assert (Hcr : Forall cont (rev cs)) by (apply Forall_rev; exact Hc).
  assert (Hp128 : 128 ^ Z.of_nat (length (rev cs)) <= 128 ^ 7) by (apply Z.pow_le_mono_r; rewrite ?rev_length; lia).
  change (128 ^ 7) with 562949953421312 in Hp128.
  rewrite (decode_aux_spec (rev cs) 9 b 0 Hcr ltac:(lia) ltac:(lia) ltac:(reflexivity)
             ltac:(rewrite rev_length; lia) ltac:(lia)).
  rewrite <- Hval. rewrite <- horner_rev. rewrite rev_app_distr. cbn [rev app].
  unfold horner. cbn [fold_left]. reflexivity.
Qed.

Corollary leb128_roundtrip_u32 : forall v rest, 0 <= v < 4294967296 ->
  read_leb128 (write_leb128 v ++ rest) = Some (v, zlen (write_leb128 v)).
Proof. intros; apply leb128_roundtrip; lia. Qed.

(* 1..5 bytes for a 32-bit value, and exactly ceil(bits/7) in general *)
Lemma leb128_length_u32 v : 0 <= v < 4294967296 -> 1 <= zlen (write_leb128 v) <= 5.
Proof.
  intros Hv. unfold write_leb128, u64. rewrite Z.mod_small by lia. rewrite write_aux_enc by lia.
  assert (Hv5 : 0 <= v < 128 ^ Z.of_nat 5) by (change (128 ^ Z.of_nat 5) with 34359738368; lia).
  destruct (enc_shape 10 5 v Hv5 ltac:(lia)) as (cs & b & He & _ & _ & Hl).
  rewrite He, zlen_app. change (zlen [b]) with 1. unfold zlen. lia.
Qed.

(* ReadLeb128 reports between 1 and len(in) bytes *)
Lemma read_aux_bounds : forall l acc i v n, read_leb128_aux l acc i = Some (v, n) -> i < n <= i + zlen l.
Proof.
  induction l as [|b t IH]; intros acc i v n; cbn [read_leb128_aux]; [discriminate|].
  rewrite zlen_cons. pose proof (zlen_nonneg t).
  destruct (Z.land b 128 =? 0).
  - intros [= _ <-]. lia.
  - intros H1. apply IH in H1. lia.
Qed.

Lemma read_leb128_bounds l v n : read_leb128 l = Some (v, n) -> 0 < n <= zlen l.
Proof. intros H. apply read_aux_bounds in H. lia. Qed.
