From Coq Require Import ZArith List Lia Bool.
From RTP Require Import Base.Res Base.ListX Base.Own Model.Audio.
Import ListNotations.
Open Scope Z_scope.

Definition frag_bytes (r : bref) : list Z := resolve (fun _ => []) r.

(* all fragments but the last have length exactly mtu *)
Fixpoint all_but_last_full (mtu : Z) (fs : list (list Z)) : Prop :=
  match fs with
  | [] => True
  | [_] => True
  | f :: t => zlen f = mtu /\ all_but_last_full mtu t
  end.

Lemma all_but_last_full_snoc mtu fs f :
  Forall (fun x => zlen x = mtu) fs -> all_but_last_full mtu (fs ++ [f]).
Proof.
  induction fs as [|a fs IH]; intros H; [exact I|].
  apply Forall_cons_iff in H as [Ha Hfs]. cbn [app all_but_last_full]. destruct (fs ++ [f]) eqn:E.
  - destruct fs; discriminate.
  - split; [exact Ha|]. apply IH; exact Hfs.
Qed.

Lemma slice_prefix (p : list Z) mtu : 0 <= mtu -> mtu < zlen p -> slice p 0 mtu = Some (take mtu p).
Proof.
  intros H0 H1. unfold slice.
  replace (0 <? 0) with false by reflexivity.
  destruct (mtu <? 0) eqn:E; [lia|]. destruct (zlen p <? mtu) eqn:E2; [lia|].
  cbn [orb]. rewrite drop_0. f_equal. f_equal. lia.
Qed.

Lemma slice_suffix (p : list Z) mtu : 0 <= mtu -> mtu < zlen p -> slice p mtu (zlen p) = Some (drop mtu p).
Proof.
  intros H0 H1. unfold slice.
  destruct (mtu <? 0) eqn:E; [lia|]. destruct (zlen p <? mtu) eqn:E2; [lia|].
  destruct (zlen p <? zlen p) eqn:E3; [lia|]. cbn [orb].
  f_equal. apply take_all. rewrite drop_zlen by lia. lia.
Qed.

Lemma g711_loop_spec : forall fuel mtu p out, 1 <= mtu -> (length p < fuel)%nat ->
  exists fs, g711_loop fuel mtu p out = Ok (out ++ map Own fs)
    /\ concat fs = p
    /\ (exists init l, fs = init ++ [l] /\ Forall (fun x => zlen x = mtu) init
                       /\ zlen l <= mtu /\ (p <> [] -> l <> [])).
Proof.
  induction fuel as [|fuel IH]; intros mtu p out Hm Hf; [lia|].
  cbn [g711_loop]. destruct (mtu <? zlen p) eqn:E.
  - rewrite slice_prefix, slice_suffix by lia.
    assert (Hd : (length (drop mtu p) < fuel)%nat).
    { pose proof (drop_zlen mtu p ltac:(lia)) as Hz. unfold zlen in *. lia. }
    destruct (IH mtu (drop mtu p) (out ++ [Own (take mtu p)]) Hm Hd)
      as (fs & Hrun & Hcat & init & l & Hfs & Hinit & Hl & Hne).
    exists (take mtu p :: fs). split; [|split].
    + rewrite Hrun. rewrite <- app_assoc. reflexivity.
    + cbn [concat]. rewrite Hcat. apply take_drop.
    + exists (take mtu p :: init), l. split; [rewrite Hfs; reflexivity|].
      split; [constructor; [apply take_zlen; lia|assumption]|].
      split; [assumption|]. intros _. apply Hne.
      intros Hnil. pose proof (drop_zlen mtu p ltac:(lia)) as Hz. rewrite Hnil in Hz. cbn in Hz. lia.
  - exists [p]. split; [reflexivity|]. split; [cbn; apply app_nil_r|].
    exists [], p. split; [reflexivity|]. split; [constructor|]. split; [lia|auto].
Qed.

Theorem g711_split : forall mtu p, 1 <= mtu ->
  exists fs, g711_payload mtu (Some p) = Ok (map Own fs)
    /\ concat fs = p
    /\ all_but_last_full mtu fs
    /\ Forall (fun f => zlen f <= mtu) fs
    /\ (p <> [] -> Forall (fun f => f <> []) fs).
Proof.
  intros mtu p Hm. unfold g711_payload.
  destruct (mtu =? 0) eqn:E; [lia|].
  destruct (g711_loop_spec (S (length p)) mtu p [] Hm ltac:(lia))
    as (fs & Hrun & Hcat & init & l & Hfs & Hinit & Hl & Hne).
  exists fs. split; [exact Hrun|]. split; [exact Hcat|]. subst fs.
  split; [apply all_but_last_full_snoc; assumption|].
  split.
  - apply Forall_app. split; [|constructor; [assumption|constructor]].
    eapply Forall_impl; [|exact Hinit]. cbn. intros; lia.
  - intros Hp. apply Forall_app. split; [|constructor; [auto|constructor]].
    eapply Forall_impl; [|exact Hinit]. cbn. intros a Ha Hnil. subst a. cbn in Ha. lia.
Qed.

(* total for every mtu and every input, including nil and mtu 0 *)
Theorem g711_total : forall mtu p, 0 <= mtu -> g711_payload mtu p <> Panic.
Proof.
  intros mtu [p|] Hm; [|discriminate]. unfold g711_payload.
  destruct (mtu =? 0) eqn:E; [discriminate|].
  destruct (g711_loop_spec (S (length p)) mtu p [] ltac:(lia) ltac:(lia)) as (fs & Hrun & _).
  rewrite Hrun. discriminate.
Qed.

Theorem g711_all_own : forall mtu p fs, g711_payload mtu p = Ok fs -> forallb is_own fs = true.
Proof.
  intros mtu [p|] fs; unfold g711_payload; [|intros H; inversion H; reflexivity].
  destruct (mtu =? 0); [intros H; inversion H; reflexivity|].
  assert (G : forall fuel q out, forallb is_own out = true ->
             g711_loop fuel mtu q out = Ok fs -> forallb is_own fs = true).
  { induction fuel as [|fuel IH]; intros q out Hout; cbn [g711_loop]; [discriminate|].
    destruct (mtu <? zlen q).
    - destruct (slice q 0 mtu); [|discriminate]. destruct (slice q mtu (zlen q)); [|discriminate].
      apply IH. rewrite forallb_app, Hout. reflexivity.
    - intros H; inversion H. rewrite forallb_app, Hout. reflexivity. }
  apply G. reflexivity.
Qed.

Theorem opus_payload_spec : forall mtu p, opus_payload mtu (Some p) = Ok [Own p].
Proof. reflexivity. Qed.

Theorem opus_unmarshal_spec : forall p,
  (p <> [] -> exists r, opus_unmarshal (Some p) = Ok r /\ resolve (fun _ => p) r = p)
  /\ opus_unmarshal None = Err ENil
  /\ opus_unmarshal (Some []) = Err EShort.
Proof.
  intros p. split; [|split; reflexivity].
  intros Hp. unfold opus_unmarshal.
  destruct (zlen p =? 0) eqn:E.
  - apply Z.eqb_eq in E. apply zlen_zero in E. contradiction.
  - eexists; split; [reflexivity|]. cbn [resolve]. rewrite drop_0. apply take_all. lia.
Qed.

Lemma zlen_concat_full mtu (l : list (list Z)) : Forall (fun x => zlen x = mtu) l -> zlen (concat l) = zlen l * mtu.
Proof.
  induction l as [|a l IH]; intros H; [reflexivity|].
  apply Forall_cons_iff in H as [Ha Hl]. cbn [concat]. rewrite zlen_app, (IH Hl), Ha.
  unfold zlen. cbn [length]. lia.
Qed.

(* the number of fragments: one for an empty input, ceil(len / mtu) otherwise - no empty fragment
   appended at exact multiples of the MTU, none lost *)
Theorem g711_count : forall mtu p, 1 <= mtu ->
  exists fs, g711_payload mtu (Some p) = Ok (map Own fs) /\
    zlen fs = if zlen p =? 0 then 1 else (zlen p + mtu - 1) / mtu.
Proof.
  intros mtu p Hm. unfold g711_payload. destruct (mtu =? 0) eqn:E; [lia|].
  destruct (g711_loop_spec (S (length p)) mtu p [] Hm ltac:(lia))
    as (fs & Hrun & Hcat & init & l & Hfs & Hinit & Hl & Hne).
  exists fs. split; [exact Hrun|].
  assert (Hlen : zlen p = zlen init * mtu + zlen l).
  { rewrite <- Hcat, Hfs, concat_app, zlen_app, (zlen_concat_full mtu init Hinit). cbn [concat]. rewrite app_nil_r. reflexivity. }
  assert (Hc : zlen fs = zlen init + 1) by (rewrite Hfs, zlen_app; reflexivity).
  pose proof (zlen_nonneg init) as Hi. pose proof (zlen_nonneg l) as Hl0.
  destruct (zlen p =? 0) eqn:Ez.
  - assert (zlen init = 0) by nia. lia.
  - assert (Hpne : p <> []) by (intros ->; cbn in Ez; discriminate).
    assert (Hlne : 1 <= zlen l). { specialize (Hne Hpne). destruct l; [congruence|]. unfold zlen. cbn [length]. lia. }
    rewrite Hc, Hlen. symmetry.
    replace (zlen init * mtu + zlen l + mtu - 1) with ((zlen l - 1) + (zlen init + 1) * mtu) by lia.
    rewrite Z.div_add by lia. rewrite Z.div_small by lia. lia.
Qed.

(* payloader then depacketizer: the single Opus fragment, whatever the MTU, unmarshals to the input *)
Theorem opus_end_to_end : forall mtu p, p <> [] ->
  exists f r, opus_payload mtu (Some p) = Ok [Own f] /\ opus_unmarshal (Some f) = Ok r /\ resolve (fun _ => f) r = p.
Proof.
  intros mtu p Hp. destruct (opus_unmarshal_spec p) as [H _]. destruct (H Hp) as (r & Hr & Hres).
  exists p, r. split; [apply opus_payload_spec|]. split; assumption.
Qed.
