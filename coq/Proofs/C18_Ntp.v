(* C18: NTP time mapping and send-time estimation recover the original instant. *)
From Coq Require Import ZArith List Lia Bool.
From Coq Require Import ZifyBool.
From RTP Require Import Base.Bits Base.Tactics Model.ExtCodecs Model.Ntp.
Open Scope Z_scope.

(* instants of NTP era 0 that are not before the Unix epoch *)
Definition in_era (u : Z) : Prop := 0 <= u /\ u / 1000000000 + ntp_epoch_offset < 4294967296.

Lemma u64_small x : 0 <= x < 18446744073709551616 -> u64 x = x.
Proof. intros. unfold u64. lia. Qed.

Lemma i64_small x : -9223372036854775808 <= x < 9223372036854775808 -> i64 x = x.
Proof. intros. unfold i64. lia. Qed.

(* toNtpTime in closed form: floor(u * 2^32 / 10^9) shifted by the epoch offset *)
Lemma to_ntp_closed u : in_era u ->
  to_ntp u = (u / 1000000000 + ntp_epoch_offset) * 4294967296
             + (u mod 1000000000 * 4294967296) / 1000000000.
Proof.
  intros [H0 H1]. unfold to_ntp, ntp_epoch_offset in *. cbv zeta.
  rewrite !shiftl_mul by lia. change (2 ^ 32) with 4294967296.
  rewrite (u64_small u) by lia.
  rewrite (u64_small (u / 1000000000 + 2208988800)) by lia.
  rewrite (u64_small (u mod 1000000000 * 4294967296)) by lia.
  rewrite (u64_small ((u / 1000000000 + 2208988800) * 4294967296)) by lia.
  apply (lor_add_small _ _ 32); lia.
Qed.

(* toTime in closed form *)
Lemma to_time_closed t : ntp_epoch_offset * 4294967296 <= t < 18446744073709551616 ->
  to_time t = (t / 4294967296 - ntp_epoch_offset) * 1000000000
              + (t mod 4294967296 * 1000000000) / 4294967296.
Proof.
  intros H. unfold to_time, ntp_epoch_offset in *. cbv zeta.
  rewrite !shiftr_div by lia. change (2 ^ 32) with 4294967296.
  change 4294967295 with (Z.ones 32). rewrite land_ones_mod by lia. change (2 ^ 32) with 4294967296.
  rewrite (u64_small (t mod 4294967296 * 1000000000)) by lia.
  rewrite (u64_small (t / 4294967296 - 2208988800)) by lia.
  rewrite u64_small by lia. apply i64_small. lia.
Qed.

Lemma to_ntp_range u : in_era u -> ntp_epoch_offset * 4294967296 <= to_ntp u < 18446744073709551616.
Proof. intros H. rewrite to_ntp_closed by assumption. destruct H. unfold ntp_epoch_offset in *. lia. Qed.

Theorem capture_roundtrip u : in_era u ->
  0 <= u - capture_time (new_abs_capture_time u) <= 1.
Proof.
  intros H. unfold capture_time, new_abs_capture_time. cbn [ac_ts].
  pose proof (to_ntp_range u H) as Hr.
  rewrite to_time_closed by assumption. rewrite to_ntp_closed by assumption.
  destruct H as [H0 H1]. unfold ntp_epoch_offset in *.
  set (q := u / 1000000000) in *. set (r := u mod 1000000000).
  assert (Hu : u = q * 1000000000 + r) by (unfold q, r; lia).
  assert (Hr0 : 0 <= r < 1000000000) by (unfold r; lia).
  set (F := r * 4294967296 / 1000000000).
  assert (HF : F * 1000000000 <= r * 4294967296 < F * 1000000000 + 1000000000) by (unfold F; lia).
  assert (HF2 : 0 <= F < 4294967296) by lia.
  replace (((q + 2208988800) * 4294967296 + F) / 4294967296) with (q + 2208988800) by lia.
  replace (((q + 2208988800) * 4294967296 + F) mod 4294967296) with F by lia.
  set (f' := F * 1000000000 / 4294967296).
  assert (Hf' : f' * 4294967296 <= F * 1000000000 < f' * 4294967296 + 4294967296) by (unfold f'; lia).
  lia.
Qed.

(* ------------------------------------------------------------------ *)
(* Estimate                                                            *)

(* nanoseconds of the largest admissible delay: 64 s - 2^-18 s, rounded down *)
Definition max_delay : Z := 64000000000 - 3815.

Theorem estimate_recovers send delay :
  in_era send -> in_era (send + delay) -> 0 <= delay <= max_delay ->
  0 <= send - estimate (new_abs_send_time send) (send + delay) <= 3816.
Proof.
  intros Hs Hr Hd. unfold estimate, new_abs_send_time, max_delay in *. cbv zeta.
  pose proof (to_ntp_range send Hs) as HNr. pose proof (to_ntp_range (send + delay) Hr) as HRr.
  pose proof (to_ntp_closed send Hs) as HN. pose proof (to_ntp_closed (send + delay) Hr) as HR.
  set (N := to_ntp send) in *. set (R := to_ntp (send + delay)) in *.
  destruct Hs as [Hs0 Hs1]. destruct Hr as [Hr0 Hr1]. unfold ntp_epoch_offset in *.
  (* closed forms as floor(u * 2^32 / 10^9) + const *)
  assert (HN' : N = 2208988800 * 4294967296 + send * 4294967296 / 1000000000) by lia.
  assert (HR' : R = 2208988800 * 4294967296 + (send + delay) * 4294967296 / 1000000000) by lia.
  clear HN HR.
  set (gN := send * 4294967296 / 1000000000) in *.
  set (gR := (send + delay) * 4294967296 / 1000000000) in *.
  assert (HgN : gN * 1000000000 <= send * 4294967296 < gN * 1000000000 + 1000000000) by (unfold gN; lia).
  assert (HgR : gR * 1000000000 <= (send + delay) * 4294967296 < gR * 1000000000 + 1000000000) by (unfold gR; lia).
  (* the 24-bit field placed at bits 14..37 *)
  rewrite shiftr_div by lia. change (2 ^ 14) with 16384.
  rewrite land_ffffff. rewrite shiftl_mul by lia. change (2 ^ 14) with 16384.
  set (M := N / 16384 mod 16777216 * 16384).
  assert (HM : 0 <= M < 274877906944) by (unfold M; lia).
  rewrite (u64_small M) by lia.
  (* the top 26 bits of the receive time *)
  change 18446743798831644672 with (Z.shiftl (Z.ones 26) 38).
  rewrite land_mask_range by lia. change (2 ^ 38) with 274877906944. change (2 ^ 26) with 67108864.
  replace (R / 274877906944 mod 67108864) with (R / 274877906944) by lia.
  rewrite (lor_add_small (R / 274877906944 * 274877906944) M 38) by (change (2 ^ 38) with 274877906944; lia).
  set (S14 := N / 16384 * 16384).
  assert (HS14 : S14 <= N < S14 + 16384) by (unfold S14; lia).
  assert (Hwin : 0 <= R - S14 < 274877906944) by lia.
  assert (HMS : S14 = N / 274877906944 * 274877906944 + M) by (unfold S14, M; lia).
  assert (Hres : (if R <? R / 274877906944 * 274877906944 + M
                  then u64 (R / 274877906944 * 274877906944 + M - 274877906944)
                  else R / 274877906944 * 274877906944 + M) = S14).
  { case_if.
    - rewrite u64_small by lia. lia.
    - lia. }
  rewrite Hres.
  rewrite to_time_closed by (unfold ntp_epoch_offset; lia). unfold ntp_epoch_offset.
  set (T := S14 - 2208988800 * 4294967296).
  assert (HT : gN - 16383 <= T <= gN) by (unfold T; lia).
  assert (HT0 : 0 <= T) by (unfold T; lia).
  replace ((S14 / 4294967296 - 2208988800) * 1000000000 + S14 mod 4294967296 * 1000000000 / 4294967296)
    with (T * 1000000000 / 4294967296).
  2:{ unfold T. lia. }
  set (h := T * 1000000000 / 4294967296).
  assert (Hh : h * 4294967296 <= T * 1000000000 < h * 4294967296 + 4294967296) by (unfold h; lia).
  lia.
Qed.

(* The property restricts the SEND instant to the era.  A packet sent in its last 64 seconds can arrive
   after its end: then the seconds of the receive time no longer fit 32 bits, toNtpTime wraps modulo 2^64 -
   and the 64-second arithmetic of Estimate, which only looks at differences, is not disturbed. *)
Lemma to_ntp_wrapped u : 0 <= u -> 4294967296 <= u / 1000000000 + ntp_epoch_offset < 8589934592 ->
  to_ntp u = (u / 1000000000 + ntp_epoch_offset) * 4294967296
             + (u mod 1000000000 * 4294967296) / 1000000000 - 18446744073709551616.
Proof.
  intros H0 H1. unfold to_ntp, ntp_epoch_offset in *. cbv zeta.
  rewrite !shiftl_mul by lia. change (2 ^ 32) with 4294967296.
  rewrite (u64_small u) by lia.
  rewrite (u64_small (u / 1000000000 + 2208988800)) by lia.
  rewrite (u64_small (u mod 1000000000 * 4294967296)) by lia.
  assert (Hw : u64 ((u / 1000000000 + 2208988800) * 4294967296)
               = (u / 1000000000 + 2208988800) * 4294967296 - 18446744073709551616).
  { unfold u64. lia. }
  rewrite Hw.
  rewrite (lor_add_small _ _ 32) by (change (2 ^ 32) with 4294967296; lia). lia.
Qed.

Theorem estimate_recovers_late send delay :
  in_era send -> ~ in_era (send + delay) -> 0 <= delay <= max_delay ->
  0 <= send - estimate (new_abs_send_time send) (send + delay) <= 3816.
Proof.
  intros Hs Hnr Hd. unfold estimate, new_abs_send_time, max_delay in *. cbv zeta.
  pose proof (to_ntp_range send Hs) as HNr.
  pose proof (to_ntp_closed send Hs) as HN.
  destruct Hs as [Hs0 Hs1]. unfold in_era, ntp_epoch_offset in *.
  assert (Hlate : 4294967296 <= (send + delay) / 1000000000 + 2208988800 < 8589934592) by lia.
  pose proof (to_ntp_wrapped (send + delay) ltac:(lia) Hlate) as HR. unfold ntp_epoch_offset in HR.
  set (N := to_ntp send) in *. set (R := to_ntp (send + delay)) in *.
  assert (HN' : N = 2208988800 * 4294967296 + send * 4294967296 / 1000000000) by lia.
  (* R' is the receive time without the wrap *)
  set (R' := R + 18446744073709551616).
  assert (HR' : R' = 2208988800 * 4294967296 + (send + delay) * 4294967296 / 1000000000) by (unfold R'; lia).
  clear HN HR.
  set (gN := send * 4294967296 / 1000000000) in *.
  set (gR := (send + delay) * 4294967296 / 1000000000) in *.
  assert (HgN : gN * 1000000000 <= send * 4294967296 < gN * 1000000000 + 1000000000) by (unfold gN; lia).
  assert (HgR : gR * 1000000000 <= (send + delay) * 4294967296 < gR * 1000000000 + 1000000000) by (unfold gR; lia).
  assert (HRr : 0 <= R < 274877906944) by (unfold R' in HR'; lia).
  rewrite shiftr_div by lia. change (2 ^ 14) with 16384.
  rewrite land_ffffff. rewrite shiftl_mul by lia. change (2 ^ 14) with 16384.
  set (M := N / 16384 mod 16777216 * 16384).
  assert (HM : 0 <= M < 274877906944) by (unfold M; lia).
  rewrite (u64_small M) by lia.
  change 18446743798831644672 with (Z.shiftl (Z.ones 26) 38).
  rewrite land_mask_range by lia. change (2 ^ 38) with 274877906944. change (2 ^ 26) with 67108864.
  replace (R / 274877906944 mod 67108864) with 0 by lia.
  change (0 * 274877906944) with 0.
  rewrite (lor_add_small 0 M 38) by (change (2 ^ 38) with 274877906944; try reflexivity; lia).
  set (S14 := N / 16384 * 16384).
  assert (HS14 : S14 <= N < S14 + 16384) by (unfold S14; lia).
  assert (Hwin : 0 <= R' - S14 < 274877906944) by lia.
  assert (HMS : S14 = N / 274877906944 * 274877906944 + M) by (unfold S14, M; lia).
  (* the send time lies in the last 2^38 window of the era: N / 2^38 = 2^26 - 1 *)
  assert (Htop : N / 274877906944 = 67108863) by lia.
  assert (Hres : (if R <? 0 + M then u64 (0 + M - 274877906944) else 0 + M) = S14).
  { case_if.
    - unfold u64. lia.
    - exfalso. lia. }
  rewrite Hres.
  rewrite to_time_closed by (unfold ntp_epoch_offset; lia). unfold ntp_epoch_offset.
  set (T := S14 - 2208988800 * 4294967296).
  assert (HT : gN - 16383 <= T <= gN) by (unfold T; lia).
  assert (HT0 : 0 <= T) by (unfold T; lia).
  replace ((S14 / 4294967296 - 2208988800) * 1000000000 + S14 mod 4294967296 * 1000000000 / 4294967296)
    with (T * 1000000000 / 4294967296).
  2:{ unfold T. lia. }
  set (h := T * 1000000000 / 4294967296).
  assert (Hh : h * 4294967296 <= T * 1000000000 < h * 4294967296 + 4294967296) by (unfold h; lia).
  lia.
Qed.

(* ... so the receive instant needs no hypothesis of its own *)
Theorem estimate_recovers_any send delay :
  in_era send -> 0 <= delay <= max_delay ->
  0 <= send - estimate (new_abs_send_time send) (send + delay) <= 3816.
Proof.
  intros Hs Hd.
  assert (Hdec : in_era (send + delay) \/ ~ in_era (send + delay)).
  { unfold in_era. destruct (Z_lt_ge_dec ((send + delay) / 1000000000 + ntp_epoch_offset) 4294967296) as [H|H].
    - left. destruct Hs. unfold max_delay in Hd. split; lia.
    - right. intros [_ H2]. lia. }
  destruct Hdec as [Hr|Hr]; [apply estimate_recovers|apply estimate_recovers_late]; assumption.
Qed.

(* ------------------------------------------------------------------ *)
(* capture clock offset <-> Q32.32                                     *)

Definition offset_limit : Z := 2147483648 * 1000000000.   (* 2^31 s in ns *)

Lemma quot_nonneg a b : 0 <= a -> 0 < b -> Z.quot a b = a / b.
Proof. intros. apply Z.quot_div_nonneg; lia. Qed.
Lemma rem_nonneg a b : 0 <= a -> 0 < b -> Z.rem a b = a mod b.
Proof. intros. apply Z.rem_mod_nonneg; lia. Qed.

(* the conversion on magnitudes *)
Lemma offset_q32_nonneg d : 0 <= d < offset_limit ->
  offset_q32 d = (d / 1000000000) * 4294967296 + (d mod 1000000000 * 4294967296) / 1000000000.
Proof.
  intros H. unfold offset_q32, offset_limit, quot, rem in *. cbv zeta.
  replace (d <? 0) with false by lia.
  rewrite !quot_nonneg, rem_nonneg by lia.
  rewrite (i64_small (d mod 1000000000 * 4294967296)) by lia.
  rewrite quot_nonneg by lia.
  change 4294967295 with (Z.ones 32). rewrite !land_ones_mod by lia. change (2 ^ 32) with 4294967296.
  rewrite shiftl_mul by lia. change (2 ^ 32) with 4294967296.
  replace (d / 1000000000 mod 4294967296) with (d / 1000000000) by lia.
  replace (d mod 1000000000 * 4294967296 / 1000000000 mod 4294967296)
    with (d mod 1000000000 * 4294967296 / 1000000000) by lia.
  rewrite i64_small by lia.
  apply (lor_add_small _ _ 32); lia.
Qed.

Lemma offset_duration_nonneg ts q : 0 <= q < 9223372036854775808 ->
  offset_duration (mkAbsCapture ts (Some q))
  = Some ((q / 4294967296) * 1000000000 + (q mod 4294967296 * 1000000000) / 4294967296).
Proof.
  intros H. unfold offset_duration, quot. cbn [ac_offset]. cbv zeta.
  replace (q <? 0) with false by lia.
  change 4294967295 with (Z.ones 32). rewrite land_ones_mod by lia. change (2 ^ 32) with 4294967296.
  rewrite (quot_nonneg q) by lia.
  rewrite (i64_small (q / 4294967296 * 1000000000)) by lia.
  rewrite (i64_small (q mod 4294967296 * 1000000000)) by lia.
  rewrite quot_nonneg by lia.
  rewrite i64_small by lia. reflexivity.
Qed.

Lemma q32_roundtrip_nonneg d : 0 <= d < offset_limit ->
  let q := (d / 1000000000) * 4294967296 + (d mod 1000000000 * 4294967296) / 1000000000 in
  0 <= q < 9223372036854775808 /\
  0 <= d - ((q / 4294967296) * 1000000000 + (q mod 4294967296 * 1000000000) / 4294967296) <= 1.
Proof.
  intros H q. unfold offset_limit in *.
  set (s := d / 1000000000) in *. set (r := d mod 1000000000) in *.
  assert (Hd : d = s * 1000000000 + r) by (unfold s, r; lia).
  assert (Hr : 0 <= r < 1000000000) by (unfold r; lia).
  assert (Hs : 0 <= s < 2147483648) by (unfold s; lia).
  set (F := r * 4294967296 / 1000000000) in *.
  assert (HF : F * 1000000000 <= r * 4294967296 < F * 1000000000 + 1000000000) by (unfold F; lia).
  assert (HF2 : 0 <= F < 4294967296) by lia.
  subst q. split; [lia|].
  replace ((s * 4294967296 + F) / 4294967296) with s by lia.
  replace ((s * 4294967296 + F) mod 4294967296) with F by lia.
  set (f' := F * 1000000000 / 4294967296).
  assert (Hf' : f' * 4294967296 <= F * 1000000000 < f' * 4294967296 + 4294967296) by (unfold f'; lia).
  lia.
Qed.

Theorem offset_roundtrip u d : - offset_limit < d < offset_limit ->
  exists back, offset_duration (new_abs_capture_time_with_offset u d) = Some back /\
               Z.abs (d - back) <= 1 /\ (0 < d -> 0 <= back) /\ (d < 0 -> back <= 0) /\ (d = 0 -> back = 0).
Proof.
  intros H. unfold new_abs_capture_time_with_offset. unfold offset_limit in *.
  destruct (Z.lt_ge_cases d 0) as [Hneg|Hpos].
  - (* negative: the code works on the magnitude and restores the sign *)
    set (m := - d).
    assert (Hm : 0 < m < offset_limit) by (unfold m, offset_limit; lia).
    pose proof (offset_q32_nonneg m ltac:(lia)) as Hq.
    destruct (q32_roundtrip_nonneg m ltac:(lia)) as [Hq1 Hq2]. cbv zeta in Hq1, Hq2.
    set (q := m / 1000000000 * 4294967296 + m mod 1000000000 * 4294967296 / 1000000000) in *.
    assert (Hoff : offset_q32 d = - q).
    { unfold offset_q32 in *. cbv zeta in *. replace (d <? 0) with true by lia.
      replace (m <? 0) with false in Hq by lia.
      rewrite (i64_small (- d)) by (unfold offset_limit in *; lia). fold m. rewrite Hq.
      apply i64_small. lia. }
    rewrite Hoff.
    destruct (Z.eq_dec q 0) as [Hz|Hnz].
    + (* magnitude below one Q32.32 unit cannot happen for m >= 1 ns?  it can: handle uniformly *)
      rewrite Hz. cbn [Z.opp]. rewrite (offset_duration_nonneg _ 0) by lia.
      eexists; split; [reflexivity|]. cbn. rewrite Hz in Hq2. cbn in Hq2. lia.
    + unfold offset_duration. cbn [ac_offset]. cbv zeta. replace (- q <? 0) with true by lia.
      rewrite (i64_small (- - q)) by lia. rewrite Z.opp_involutive.
      pose proof (offset_duration_nonneg (to_ntp u) q Hq1) as Hd.
      unfold offset_duration in Hd. cbn [ac_offset] in Hd. cbv zeta in Hd.
      replace (q <? 0) with false in Hd by lia. injection Hd as Hd. rewrite Hd.
      set (b := q / 4294967296 * 1000000000 + q mod 4294967296 * 1000000000 / 4294967296) in *.
      rewrite (i64_small (- b)) by (unfold offset_limit in *; lia).
      eexists; split; [reflexivity|]. lia.
  - pose proof (offset_q32_nonneg d ltac:(unfold offset_limit; lia)) as Hq.
    destruct (q32_roundtrip_nonneg d ltac:(unfold offset_limit; lia)) as [Hq1 Hq2]. cbv zeta in Hq1, Hq2.
    rewrite Hq. rewrite offset_duration_nonneg by assumption.
    eexists; split; [reflexivity|]. lia.
Qed.
