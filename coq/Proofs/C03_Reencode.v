(* C03, re-encoding: every input that Packet.Unmarshal accepts (into a fresh receiver) decodes to a
   packet that is well-formed in the sense of C01 - except for the P bit with a zero count, which
   Marshal refuses - so Marshal yields bytes that decode to exactly that packet again. *)
From Coq Require Import ZArith List Lia Bool.
From Coq Require Import ZifyBool.
From RTP Require Import Base.Bits Base.Res Base.ListX Base.Bytes Base.Tactics Model.RtpPacket Spec.Rfc8285
  Proofs.ExtLoop Proofs.ExtForm Proofs.C01_Roundtrip Proofs.C02_Safety.
Import ListNotations.
Open Scope Z_scope.

Definition wfE (two : bool) (e : ext) : Prop := if two then wf_ext2 e else wf_ext1 e.
Definition esz (two : bool) (es : list ext) : Z := zlen (enc_items two (items_of es)).

Lemma esz_snoc two es e : esz two (es ++ [e]) = esz two es + (if two then 2 else 1) + zlen (epayload e).
Proof.
  unfold esz, items_of. rewrite map_app, enc_items_app, zlen_app. cbn [map]. rewrite enc_items_cons.
  rewrite zlen_app. change (enc_items two []) with (@nil Z). change (zlen (@nil Z)) with 0.
  destruct two; cbn [enc_item1 enc_item2]; rewrite ?zlen_cons; lia.
Qed.

Lemma shiftr4_byte b : 0 <= b < 256 -> 0 <= Z.shiftr b 4 <= 15.
Proof. intros H. rewrite shiftr_div by lia. change (2 ^ 4) with 16. lia. Qed.

(* the element loop yields elements that are legal for their profile, and they fit the block *)
Lemma parse_exts_wf : forall fuel two l n ext_end acc offs exts os nf rest B,
  bytes_ok l -> n <= ext_end ->
  parse_exts fuel two l n ext_end acc offs = Ok (exts, os, nf, rest) ->
  Forall (wfE two) (rev acc) -> esz two (rev acc) + (ext_end - n) <= B ->
  Forall (wfE two) exts /\ esz two exts <= B.
Proof.
  induction fuel as [|fuel IH]; intros two l n ext_end acc offs exts os nf rest B Hok Hn Hrun Hacc HB; [discriminate|].
  cbn [parse_exts] in Hrun.
  destruct (ext_end <=? n) eqn:E0.
  { injection Hrun as <- _ _ _. split; [exact Hacc|lia]. }
  destruct l as [|b l1]; [discriminate|].
  apply Forall_cons_iff in Hok as [Hb Hok1]. unfold is_byte in Hb.
  destruct (b =? 0) eqn:Eb.
  { eapply IH; [exact Hok1| |exact Hrun|exact Hacc|]; lia. }
  destruct two.
  - destruct l1 as [|len l2]; [discriminate|].
    apply Forall_cons_iff in Hok1 as [Hlen Hok2]. unfold is_byte in Hlen.
    destruct (ext_end <? n + 2 + len) eqn:E1; [discriminate|].
    destruct (zlen l2 <? len) eqn:E2; [discriminate|].
    eapply IH; [apply Forall_skipn; exact Hok2| |exact Hrun| |].
    + lia.
    + cbn [rev]. apply Forall_app. split; [exact Hacc|]. constructor; [|constructor].
      unfold wfE, wf_ext2. cbn [eid epayload]. rewrite take_zlen by lia. lia.
    + cbn [rev]. rewrite esz_snoc. cbn [epayload]. rewrite take_zlen by lia. lia.
  - set (len := u8 (Z.land b 15 + 1)) in *.
    assert (Hlen : 1 <= len <= 16) by (unfold len, u8; rewrite land_15; lia).
    pose proof (shiftr4_byte b Hb) as Hid.
    destruct (Z.shiftr b 4 =? 15) eqn:E15.
    { injection Hrun as <- _ _ _. split; [exact Hacc|lia]. }
    destruct (ext_end <? n + 1 + len) eqn:E1; [discriminate|].
    destruct (zlen l1 <? len) eqn:E2; [discriminate|].
    eapply IH; [apply Forall_skipn; exact Hok1| |exact Hrun| |].
    + lia.
    + cbn [rev]. apply Forall_app. split; [exact Hacc|]. constructor; [|constructor].
      unfold wfE, wf_ext1. cbn [eid epayload]. rewrite take_zlen by lia.
      split; [lia|]. split; [lia|]. intros H0.
      (* id nibble 0 and b <> 0: the length nibble is not 0 *)
      unfold len, u8. rewrite land_15. rewrite shiftr_div in H0 by lia. change (2 ^ 4) with 16 in H0. lia.
    + cbn [rev]. rewrite esz_snoc. cbn [epayload]. rewrite take_zlen by lia. lia.
Qed.

Lemma read_csrcs_range : forall k l cs rest, bytes_ok l -> read_csrcs k l = Ok (cs, rest) ->
  zlen cs = Z.of_nat k /\ Forall (fun c => 0 <= c < 4294967296) cs /\ bytes_ok rest.
Proof.
  induction k as [|k IH]; intros l cs rest Hok Hrun; cbn [read_csrcs] in Hrun.
  - injection Hrun as <- <-. split; [reflexivity|]. split; [constructor|exact Hok].
  - destruct l as [|a [|b [|c [|d l']]]]; try discriminate.
    apply Forall_cons_iff in Hok as [Ha Hok]. apply Forall_cons_iff in Hok as [Hb Hok].
    apply Forall_cons_iff in Hok as [Hc Hok]. apply Forall_cons_iff in Hok as [Hd Hok].
    destruct (read_csrcs k l') as [[cs' rest']| |] eqn:E; cbn [bind] in Hrun; try discriminate.
    injection Hrun as <- <-. destruct (IH l' cs' rest' Hok E) as (H1 & H2 & H3).
    split; [rewrite zlen_cons; lia|]. split; [|exact H3]. constructor; [|exact H2].
    rewrite be32_arith by assumption. unfold is_byte in *. lia.
Qed.

Lemma fold_size_esz1 es : fold_left (fun s (e : ext) => s + 1 + zlen (epayload e)) es 4 = 4 + esz false es.
Proof. apply fold_size_one. Qed.
Lemma fold_size_esz2 es : fold_left (fun s (e : ext) => s + 2 + zlen (epayload e)) es 4 = 4 + esz true es.
Proof. apply fold_size_two. Qed.

Theorem header_unmarshal_wf buf r : bytes_ok buf ->
  header_unmarshal_into empty_header buf = Ok r -> wf_header (hr_header r).
Proof.
  intros Hok Hrun. unfold header_unmarshal_into in Hrun.
  destruct buf as [|b0 [|b1 [|s0 [|s1 l4]]]]; try discriminate.
  cbv zeta in Hrun. set (buf := b0 :: b1 :: s0 :: s1 :: l4) in *.
  pose proof Hok as Hok'. unfold buf in Hok'.
  apply Forall_cons_iff in Hok' as [Hb0 Hok']. apply Forall_cons_iff in Hok' as [Hb1 Hok'].
  apply Forall_cons_iff in Hok' as [Hs0 Hok']. apply Forall_cons_iff in Hok' as [Hs1 Hok4].
  unfold is_byte in Hb0, Hb1.
  destruct (zlen buf <? 12 + Z.land b0 15 * 4) eqn:Elen; [discriminate|].
  destruct l4 as [|t0 [|t1 [|t2 [|t3 [|r0 [|r1 [|r2 [|r3 l12]]]]]]]]; try discriminate.
  apply Forall_cons_iff in Hok4 as [Ht0 Hok4]. apply Forall_cons_iff in Hok4 as [Ht1 Hok4].
  apply Forall_cons_iff in Hok4 as [Ht2 Hok4]. apply Forall_cons_iff in Hok4 as [Ht3 Hok4].
  apply Forall_cons_iff in Hok4 as [Hr0 Hok4]. apply Forall_cons_iff in Hok4 as [Hr1 Hok4].
  apply Forall_cons_iff in Hok4 as [Hr2 Hok4]. apply Forall_cons_iff in Hok4 as [Hr3 Hok12].
  destruct (read_csrcs (Z.to_nat (Z.land b0 15)) l12) as [[cs lc]| |] eqn:Ecs; cbn [bind] in Hrun; try discriminate.
  destruct (read_csrcs_range _ _ _ _ Hok12 Ecs) as (Hcl & Hcr & Hoklc).
  assert (Hnc : 0 <= Z.land b0 15 <= 15) by (rewrite land_15; lia).
  (* the fixed fields *)
  assert (Hfixed : forall x prof es,
            0 <= version (mkHeader (Z.land (Z.shiftr b0 6) 3) (0 <? Z.land (Z.shiftr b0 5) 1) x (0 <? Z.land (Z.shiftr b1 7) 1)
                                   (Z.land b1 127) (be16 s0 s1) (be32 t0 t1 t2 t3) (be32 r0 r1 r2 r3) cs prof es) < 4 /\
            0 <= Z.land b1 127 < 128 /\ 0 <= be16 s0 s1 < 65536 /\ 0 <= be32 t0 t1 t2 t3 < 4294967296 /\
            0 <= be32 r0 r1 r2 r3 < 4294967296 /\ zlen cs <= 15 /\ Forall (fun c => 0 <= c < 4294967296) cs).
  { intros x prof es. cbn [version].
    split; [change 3 with (Z.ones 2); rewrite land_ones_mod by lia; change (2 ^ 2) with 4; lia|].
    split; [change 127 with (Z.ones 7); rewrite land_ones_mod by lia; change (2 ^ 7) with 128; lia|].
    split; [rewrite be16_arith by assumption; unfold is_byte in *; lia|].
    split; [rewrite be32_arith by assumption; unfold is_byte in *; lia|].
    split; [rewrite be32_arith by assumption; unfold is_byte in *; lia|].
    split; [lia|exact Hcr]. }
  destruct (0 <? Z.land (Z.shiftr b0 4) 1) eqn:Ex.
  - destruct lc as [|p0 [|p1 [|e0 [|e1 le]]]]; try discriminate.
    apply Forall_cons_iff in Hoklc as [Hp0 Hoklc]. apply Forall_cons_iff in Hoklc as [Hp1 Hoklc].
    apply Forall_cons_iff in Hoklc as [He0 Hoklc]. apply Forall_cons_iff in Hoklc as [He1 Hokle].
    assert (Hprof : 0 <= be16 p0 p1 < 65536) by (rewrite be16_arith by assumption; unfold is_byte in *; lia).
    assert (Hwords : 0 <= be16 e0 e1 < 65536) by (rewrite be16_arith by assumption; unfold is_byte in *; lia).
    destruct (zlen le <? be16 e0 e1 * 4) eqn:Efit; [discriminate|].
    destruct ((be16 p0 p1 =? profile_one_byte) || (ext_form (be16 p0 p1) =? profile_two_byte)) eqn:E8285.
    + set (n4 := 12 + Z.land b0 15 * 4 + 4) in *.
      destruct (parse_exts (S (length le)) (ext_form (be16 p0 p1) =? profile_two_byte) le n4 (n4 + be16 e0 e1 * 4) [] [])
        as [[[[exts offs] nf] rest]| |] eqn:Ep; cbn [bind] in Hrun; try discriminate.
      injection Hrun as <-. cbn [hr_header hr_rest].
      assert (Hn4 : n4 <= n4 + be16 e0 e1 * 4) by lia.
      assert (HB : esz (ext_form (be16 p0 p1) =? profile_two_byte) (rev []) + (n4 + be16 e0 e1 * 4 - n4) <= be16 e0 e1 * 4)
        by (cbn [rev]; unfold esz; cbn; lia).
      destruct (parse_exts_wf _ _ _ _ _ _ _ _ _ _ _ (be16 e0 e1 * 4) Hokle Hn4 Ep (Forall_nil _) HB) as [Hwf Hsz].
      destruct (Hfixed true (be16 p0 p1) exts) as (F1 & F2 & F3 & F4 & F5 & F6 & F7).
        unfold wf_header. cbn [version payload_type sequence_number timestamp ssrc csrc].
        repeat (split; [assumption|]). unfold wf_exts. cbn [extension extension_profile extensions].
        split.
        -- destruct (ext_form (be16 p0 p1) =? profile_two_byte) eqn:E2.
           ++ right. left. split; [exact Hprof|split; [lia|exact Hwf]].
           ++ left. split; [lia|exact Hwf].
        -- unfold ext_block_size. cbn [extension_profile extensions].
           destruct (be16 p0 p1 =? profile_one_byte) eqn:E1.
           ++ replace (ext_form (be16 p0 p1) =? profile_two_byte) with false in *
                by (rewrite (ext_form_is_two _ Hprof); unfold profile_one_byte in *; lia).
              rewrite fold_size_esz1. lia.
           ++ replace (ext_form (be16 p0 p1) =? profile_two_byte) with true in * by lia.
              rewrite fold_size_esz2. lia.
    + injection Hrun as <-. cbn [hr_header hr_rest].
      destruct (Hfixed true (be16 p0 p1) [mkExt 0 (take (be16 e0 e1 * 4) le)]) as (F1 & F2 & F3 & F4 & F5 & F6 & F7).
      unfold wf_header. cbn [version payload_type sequence_number timestamp ssrc csrc].
      repeat (split; [assumption|]). unfold wf_exts. cbn [extension extension_profile extensions].
      split.
      * right. right. split; [exact Hprof|]. split; [lia|]. split; [lia|].
        eexists. split; [reflexivity|]. rewrite take_zlen by lia. lia.
      * unfold ext_block_size. cbn [extension_profile extensions epayload].
        replace (be16 p0 p1 =? profile_one_byte) with false by lia.
        replace (ext_form (be16 p0 p1) =? profile_two_byte) with false by lia.
        rewrite take_zlen by lia. lia.
  - injection Hrun as <-. cbn [hr_header hr_rest].
    destruct (Hfixed false 0 []) as (F1 & F2 & F3 & F4 & F5 & F6 & F7).
    unfold wf_header. cbn [version payload_type sequence_number timestamp ssrc csrc].
    repeat (split; [assumption|]). unfold wf_exts. cbn [extension extension_profile extensions empty_header].
    split; reflexivity.
Qed.

(* Every accepted input re-encodes: either the P bit came with a zero count (Marshal refuses, errInvalidRTPPadding)
   or the decoded packet is well-formed, Marshal succeeds and its bytes decode to exactly the same packet. *)
Theorem packet_reencode buf r : bytes_ok buf ->
  packet_unmarshal_into empty_packet buf = Ok r ->
  let q := pr_packet r in
  (padding (hdr q) = true /\ padding_size q = 0 /\ packet_marshal q = Err EInvalidPadding) \/
  (wf_packet q /\ exists bs offs, packet_marshal q = Ok bs /\ zlen bs = packet_marshal_size q /\
     packet_unmarshal_into empty_packet bs = Ok (mkPktResult q (header_marshal_size (hdr q)) offs)).
Proof.
  intros Hok Hrun q. subst q. unfold packet_unmarshal_into in Hrun.
  change (hdr empty_packet) with empty_header in Hrun.
  destruct (header_unmarshal_into empty_header buf) as [hr| |] eqn:Eh; cbn [bind] in Hrun; try discriminate.
  pose proof (header_unmarshal_wf buf hr Hok Eh) as Hwf.
  pose proof (header_unmarshal_safe empty_header buf Hok) as Hs. rewrite Eh in Hs.
  destruct Hs as (Hn & Hrest & _).
  pose proof (zlen_drop_eq (hr_n hr) buf _ Hn (eq_sym Hrest)) as Hzr.
  destruct (padding (hr_header hr)) eqn:Epad.
  - destruct (zlen buf <=? hr_n hr) eqn:E1; [discriminate|].
    assert (Hne : hr_rest hr <> []) by (intros Hnil; rewrite Hnil, zlen_nil in Hzr; lia).
    pose proof (last_is_byte (hr_rest hr) ltac:(rewrite Hrest; apply bytes_ok_drop; assumption) Hne) as Hlast.
    unfold is_byte in Hlast.
    destruct (zlen buf - last (hr_rest hr) 0 <? hr_n hr) eqn:E2; [discriminate|].
    injection Hrun as <-. cbn [pr_packet hdr padding_size].
    destruct (last (hr_rest hr) 0 =? 0) eqn:E0.
    + left. split; [exact Epad|]. split; [lia|].
      unfold packet_marshal, packet_marshal_to. cbn [hdr padding_size]. rewrite Epad, E0. reflexivity.
    + right.
      assert (Hp : wf_packet (mkPacket (hr_header hr) (take (zlen buf - last (hr_rest hr) 0 - hr_n hr) (hr_rest hr))
                                       (last (hr_rest hr) 0))).
      { split; [exact Hwf|]. cbn [hdr padding_size]. rewrite Epad. lia. }
      split; [exact Hp|]. destruct (packet_roundtrip _ Hp) as (bs & Hm & Hl & offs & Hu).
      exists bs, offs. auto.
  - destruct (zlen buf <? hr_n hr) eqn:E1; [discriminate|].
    injection Hrun as <-. cbn [pr_packet hdr padding_size]. right.
    assert (Hp : wf_packet (mkPacket (hr_header hr) (hr_rest hr) 0)).
    { split; [exact Hwf|]. cbn [hdr padding_size]. rewrite Epad. reflexivity. }
    split; [exact Hp|]. destruct (packet_roundtrip _ Hp) as (bs & Hm & Hl & offs & Hu).
    exists bs, offs. auto.
Qed.

(* ... into any receiver, fresh or used (the result does not depend on it) *)
Theorem packet_reencode_any prev buf r : bytes_ok buf ->
  packet_unmarshal_into prev buf = Ok r ->
  let q := pr_packet r in
  (padding (hdr q) = true /\ padding_size q = 0 /\ packet_marshal q = Err EInvalidPadding) \/
  (wf_packet q /\ exists bs offs, packet_marshal q = Ok bs /\ zlen bs = packet_marshal_size q /\
     packet_unmarshal_into prev bs = Ok (mkPktResult q (header_marshal_size (hdr q)) offs)).
Proof.
  intros Hok Hrun. rewrite packet_unmarshal_reuse in Hrun.
  destruct (packet_reencode buf r Hok Hrun) as [H|(Hw & bs & offs & H1 & H2 & H3)]; [left; exact H|right].
  split; [exact Hw|]. exists bs, offs. rewrite packet_unmarshal_reuse. auto.
Qed.
