(* C01: Marshal produces the RFC wire image of the packet (encoder refines the spec), and
   therefore (Decode3550) Unmarshal of Marshal is the identity on well-formed packets. *)
From Coq Require Import ZArith List Lia Bool.
From Coq Require Import ZifyBool.
From RTP Require Import Base.Bits Base.Res Base.ListX Base.Bytes Base.Tactics.
From RTP Require Import Model.RtpPacket Spec.Rfc8285 Spec.Rfc3550 Proofs.ExtLoop Proofs.ExtForm Proofs.Decode3550.
Import ListNotations.
Open Scope Z_scope.

(* ids 1-14 as the property says; id 0 with a value of 2-16 bytes is included because the decoder
   produces it (the byte 0x0L, L <> 0) and it survives the round trip just the same *)
Definition wf_ext1 (e : ext) : Prop :=
  0 <= eid e <= 14 /\ 1 <= zlen (epayload e) <= 16 /\ (eid e = 0 -> 2 <= zlen (epayload e)).
Definition wf_ext2 (e : ext) : Prop := 1 <= eid e <= 255 /\ 0 <= zlen (epayload e) <= 255.

Definition wf_exts (h : header) : Prop :=
  if extension h then
    ((extension_profile h = profile_one_byte /\ Forall wf_ext1 (extensions h)) \/
     (* 0x1000 .. 0x100F: the two-byte form with any application bits (RFC 8285 4.3) *)
     (0 <= extension_profile h < 65536 /\ ext_form (extension_profile h) = profile_two_byte /\
      Forall wf_ext2 (extensions h)) \/
     (0 <= extension_profile h < 65536 /\ extension_profile h <> profile_one_byte /\
      ext_form (extension_profile h) <> profile_two_byte /\
      exists v, extensions h = [mkExt 0 v] /\ zlen v mod 4 = 0))
    /\ (ext_block_size h + 3) / 4 <= 65536      (* the 16-bit word count can hold the block *)
  else extension_profile h = 0 /\ extensions h = [].

Definition wf_header (h : header) : Prop :=
  0 <= version h < 4 /\ 0 <= payload_type h < 128 /\ 0 <= sequence_number h < 65536 /\
  0 <= timestamp h < 4294967296 /\ 0 <= ssrc h < 4294967296 /\
  zlen (csrc h) <= 15 /\ Forall (fun c => 0 <= c < 4294967296) (csrc h) /\
  wf_exts h.

Definition wf_packet (p : packet) : Prop :=
  wf_header (hdr p) /\
  (if padding (hdr p) then 1 <= padding_size p <= 255 else padding_size p = 0).

(* the canonical layout the encoder produces: elements in order, then zero padding to a word *)
Definition items_of (es : list ext) : list item := map (fun e => IElem (eid e) (epayload e)) es.

Definition pad_count (n : Z) : nat := Z.to_nat (((n + 3) / 4) * 4 - n).

Definition block_of (h : header) : ext_block :=
  if extension h then
    if extension_profile h =? profile_one_byte then
      let body := enc_items false (items_of (extensions h)) in
      XOne (items_of (extensions h) ++ repeat IPad (pad_count (zlen body)))
    else if ext_form (extension_profile h) =? profile_two_byte then
      let body := enc_items true (items_of (extensions h)) in
      XTwo (extension_profile h - 4096) (items_of (extensions h) ++ repeat IPad (pad_count (zlen body)))
    else XLegacy (extension_profile h) (match extensions h with e :: _ => epayload e | [] => [] end)
  else XNone.

Definition wire_of (p : packet) : wire :=
  let h := hdr p in
  mkWire (version h) (marker h) (payload_type h) (sequence_number h) (timestamp h) (ssrc h) (csrc h)
         (block_of h) (payload p)
         (if padding h then repeat 0 (Z.to_nat (padding_size p - 1)) else [])
         (padding h).

Lemma put16_enc v : 0 <= v < 65536 -> put16 v = enc_u16 v.
Proof. intros. unfold put16, enc_u16, u8. autorewrite with bits. repeat (f_equal; try lia). Qed.

Lemma put32_enc v : 0 <= v < 4294967296 -> put32 v = enc_u32 v.
Proof.
  intros. unfold put32, enc_u32, u8. autorewrite with bits. repeat (f_equal; try lia).
Qed.

Lemma flat_map_put32 cs : Forall (fun c => 0 <= c < 4294967296) cs ->
  flat_map put32 cs = concat (map enc_u32 cs).
Proof.
  induction cs as [|c cs IH]; intros H; [reflexivity|].
  apply Forall_cons_iff in H as [Hc Hcs]. cbn [flat_map map concat].
  rewrite put32_enc by assumption. rewrite IH by assumption. reflexivity.
Qed.

Lemma byte0_encode v p x cc : 0 <= v < 4 -> 0 <= cc <= 15 ->
  (let b0 := Z.lor (u8 (Z.shiftl v 6)) (u8 cc) in
   let b0 := if p : bool then Z.lor b0 32 else b0 in
   if x : bool then Z.lor b0 16 else b0)
  = v * 64 + (if p then 32 else 0) + (if x then 16 else 0) + cc.
Proof.
  intros Hv Hcc. cbv zeta. unfold u8. autorewrite with bits.
  replace (v * 64 mod 256) with (v * 64) by lia. replace (cc mod 256) with cc by lia.
  rewrite (lor_add_small (v * 64) cc 6) by lia.
  destruct p, x.
  - rewrite (lor_32_add (v * 64 + cc)) by lia. rewrite lor_16_add by lia. lia.
  - rewrite lor_32_add by lia. lia.
  - rewrite lor_16_add by lia. lia.
  - lia.
Qed.

Lemma byte1_encode m pt : 0 <= pt < 128 ->
  (if m : bool then Z.lor pt 128 else pt) = (if m then 128 else 0) + pt.
Proof. intros H. destruct m; [rewrite lor_128_add by lia|]; lia. Qed.

Lemma onebyte_hdr_encode id len : 0 <= id <= 14 -> 1 <= len <= 16 ->
  Z.lor (u8 (Z.shiftl id 4)) (u8 (u8 len - 1)) = id * 16 + (len - 1).
Proof.
  intros Hid Hlen. unfold u8. autorewrite with bits.
  replace (id * 16 mod 256) with (id * 16) by lia.
  replace ((len mod 256 - 1) mod 256) with (len - 1) by lia.
  apply (lor_add_small _ _ 4); lia.
Qed.

Lemma ext_body_one es : Forall wf_ext1 es ->
  flat_map (fun e => Z.lor (u8 (Z.shiftl (eid e) 4)) (u8 (u8 (zlen (epayload e)) - 1)) :: epayload e) es
  = enc_items false (items_of es).
Proof.
  induction es as [|e es IH]; intros H; [reflexivity|].
  apply Forall_cons_iff in H as [(Hid & Hlen & _) Hes].
  cbn [flat_map items_of map]. rewrite enc_items_cons. cbn [enc_item1 app].
  rewrite onebyte_hdr_encode by assumption. f_equal. f_equal. apply IH; assumption.
Qed.

Lemma ext_body_two es : Forall wf_ext2 es ->
  flat_map (fun e => eid e :: u8 (zlen (epayload e)) :: epayload e) es
  = enc_items true (items_of es).
Proof.
  induction es as [|e es IH]; intros H; [reflexivity|].
  apply Forall_cons_iff in H as [[Hid Hlen] Hes].
  cbn [flat_map items_of map]. rewrite enc_items_cons. cbn [enc_item2 app].
  unfold u8. replace (zlen (epayload e) mod 256) with (zlen (epayload e)) by lia.
  f_equal. f_equal. f_equal. apply IH; assumption.
Qed.

Lemma fold_size_one es acc :
  fold_left (fun s e => s + 1 + zlen (epayload e)) es acc = acc + zlen (enc_items false (items_of es)).
Proof.
  revert acc. induction es as [|e es IH]; intros acc; [cbn; lia|].
  cbn [fold_left items_of map]. rewrite IH. rewrite enc_items_cons, zlen_app. cbn [enc_item1].
  rewrite zlen_cons. unfold items_of. lia.
Qed.

Lemma fold_size_two es acc :
  fold_left (fun s e => s + 2 + zlen (epayload e)) es acc = acc + zlen (enc_items true (items_of es)).
Proof.
  revert acc. induction es as [|e es IH]; intros acc; [cbn; lia|].
  cbn [fold_left items_of map]. rewrite IH. rewrite enc_items_cons, zlen_app. cbn [enc_item2].
  rewrite !zlen_cons. unfold items_of. lia.
Qed.

Lemma zlen_repeat {A} (x : A) k : zlen (repeat x k) = Z.of_nat k.
Proof. unfold zlen. rewrite repeat_length. reflexivity. Qed.

Lemma wf_items1 es : Forall wf_ext1 es -> Forall wf_item1 (items_of es).
Proof. induction 1; cbn; constructor; auto. Qed.
Lemma wf_items2 es : Forall wf_ext2 es -> Forall wf_item2 (items_of es).
Proof. induction 1; cbn; constructor; auto. Qed.
Lemma wf_pads1 k : Forall wf_item1 (repeat IPad k).
Proof. induction k; cbn; constructor; auto. exact I. Qed.
Lemma wf_pads2 k : Forall wf_item2 (repeat IPad k).
Proof. induction k; cbn; constructor; auto. exact I. Qed.

(* body, padded to a word boundary *)
Lemma padded_len n : 0 <= n -> n + Z.of_nat (pad_count n) = (n + 3) / 4 * 4.
Proof. intros. unfold pad_count. lia. Qed.

(* encoder-side facts about the block of a well-formed header *)
Lemma block_of_spec h : wf_header h -> extension h = true ->
  exists body,
    ext_body h = Ok body /\
    enc_block (block_of h)
    = enc_u16 (extension_profile h) ++ enc_u16 ((zlen body + 3) / 4)
      ++ body ++ repeat 0 (Z.to_nat ((zlen body + 3) / 4 * 4 - zlen body)) /\
    ext_block_size h = 4 + zlen body /\
    wf_block (block_of h) /\ has_ext (block_of h) = true /\
    block_profile (block_of h) = extension_profile h /\
    block_elems (block_of h) = extensions h.
Proof.
  intros (_ & _ & _ & _ & _ & _ & _ & Hx) He. unfold wf_exts in Hx. rewrite He in Hx.
  destruct Hx as (Hcases & Hwords).
  unfold block_of, ext_body, ext_block_size in *. rewrite He.
  destruct Hcases as [(Hp & Hes) | [(Hr2 & Hp & Hes) | (Hr & Hn1 & Hn2 & v & Hv & Hmod)]].
  - rewrite Hp in *. change (profile_one_byte =? profile_one_byte) with true in *. cbv iota in *.
    set (body := enc_items false (items_of (extensions h))) in *.
    rewrite fold_size_one in Hwords. fold body in Hwords.
    pose proof (zlen_nonneg body) as Hb.
    exists body. rewrite ext_body_one by assumption. fold body.
    split; [reflexivity|].
    assert (Hbb : block_body (XOne (items_of (extensions h) ++ repeat IPad (pad_count (zlen body))))
                  = body ++ repeat 0 (pad_count (zlen body))).
    { cbn [block_body]. rewrite enc_items_app, enc_items_pads. reflexivity. }
    assert (Hbl : zlen (body ++ repeat 0 (pad_count (zlen body))) = (zlen body + 3) / 4 * 4).
    { rewrite zlen_app, zlen_repeat. apply padded_len; assumption. }
    split; [|split; [|split; [|split; [|split]]]].
    + unfold enc_block. rewrite Hbb, Hbl. cbn [block_profile].
      replace ((zlen body + 3) / 4 * 4 / 4) with ((zlen body + 3) / 4) by lia.
      unfold pad_count. reflexivity.
    + rewrite fold_size_one. reflexivity.
    + unfold wf_block. rewrite Hbb, Hbl. split; [|lia].
      apply Forall_app. split; [apply wf_items1; assumption|apply wf_pads1].
    + reflexivity.
    + reflexivity.
    + cbn [block_elems]. rewrite elems_app, elems_pads, app_nil_r. apply elems_of_exts.
  - pose proof (ext_form_two_inv _ Hr2 Hp) as Hrange.
    rewrite (two_not_one _ Hr2 Hp) in *. rewrite Hp in *. rewrite Z.eqb_refl in *. cbv iota in *.
    set (body := enc_items true (items_of (extensions h))) in *.
    rewrite fold_size_two in Hwords. fold body in Hwords.
    pose proof (zlen_nonneg body) as Hb.
    exists body. rewrite ext_body_two by assumption. fold body.
    split; [reflexivity|].
    assert (Hbb : block_body (XTwo (extension_profile h - 4096) (items_of (extensions h) ++ repeat IPad (pad_count (zlen body))))
                  = body ++ repeat 0 (pad_count (zlen body))).
    { cbn [block_body]. rewrite enc_items_app, enc_items_pads. reflexivity. }
    assert (Hbl : zlen (body ++ repeat 0 (pad_count (zlen body))) = (zlen body + 3) / 4 * 4).
    { rewrite zlen_app, zlen_repeat. apply padded_len; assumption. }
    split; [|split; [|split; [|split; [|split]]]].
    + unfold enc_block. rewrite Hbb, Hbl. cbn [block_profile].
      replace (4096 + (extension_profile h - 4096)) with (extension_profile h) by lia.
      replace ((zlen body + 3) / 4 * 4 / 4) with ((zlen body + 3) / 4) by lia.
      unfold pad_count. reflexivity.
    + rewrite fold_size_two. reflexivity.
    + unfold wf_block. rewrite Hbb, Hbl. split; [|lia]. split; [lia|].
      apply Forall_app. split; [apply wf_items2; assumption|apply wf_pads2].
    + reflexivity.
    + cbn [block_profile]. lia.
    + cbn [block_elems]. rewrite elems_app, elems_pads, app_nil_r. apply elems_of_exts.
  - destruct (extension_profile h =? profile_one_byte) eqn:E1; [lia|].
    destruct (ext_form (extension_profile h) =? profile_two_byte) eqn:E2; [lia|].
    rewrite Hv in *. cbn [epayload] in *.
    pose proof (zlen_nonneg v) as Hb.
    exists v. destruct (zlen v mod 4 =? 0) eqn:E3; [|lia].
    split; [reflexivity|].
    replace ((zlen v + 3) / 4 * 4 - zlen v) with 0 by lia. cbn [Z.to_nat repeat]. rewrite app_nil_r.
    split; [|split; [|split; [|split; [|split]]]].
    + unfold enc_block. cbn [block_profile block_body]. replace ((zlen v + 3) / 4) with (zlen v / 4) by lia. reflexivity.
    + reflexivity.
    + unfold wf_block. cbn [block_body].
      assert (Hnot : ~ (4096 <= extension_profile h < 4112)).
      { intros Hin. rewrite (ext_form_is_two _ Hr) in E2. lia. }
      unfold profile_one_byte in *. repeat split; try lia.
    + reflexivity.
    + reflexivity.
    + reflexivity.
Qed.

(* ------------------------------------------------------------------ *)
(* Marshal produces the RFC wire image                                 *)

Lemma header_bytes_spec p : wf_packet p -> header_bytes (hdr p) = Ok (enc_header (wire_of p)).
Proof.
  intros [Hh _]. pose proof Hh as (Hv & Hpt & Hseq & Hts & Hssrc & Hcc & Hcs & Hx).
  pose proof (zlen_nonneg (csrc (hdr p))) as Hc0.
  unfold header_bytes, enc_header, wire_of. cbv zeta.
  cbn [w_version w_pad w_ext w_csrc w_marker w_pt w_seq w_ts w_ssrc].
  pose proof (byte0_encode (version (hdr p)) (padding (hdr p)) (extension (hdr p)) (zlen (csrc (hdr p))) Hv ltac:(lia)) as H0.
  cbv zeta in H0. rewrite H0. clear H0.
  rewrite byte1_encode by lia.
  rewrite put16_enc, !put32_enc, flat_map_put32 by assumption.
  destruct (extension (hdr p)) eqn:He.
  - destruct (block_of_spec (hdr p) Hh He) as (body & Hb & Henc & Hsz & Hwf & Hhas & Hprof & Hel).
    rewrite Hb. cbn [bind]. rewrite Hhas, Henc.
    unfold wf_exts in Hx. rewrite He in Hx. destruct Hx as (Hcases & Hwords).
    pose proof (zlen_nonneg body).
    assert (Hp : 0 <= extension_profile (hdr p) < 65536).
    { destruct Hcases as [(Hp & _) | [(Hp & _) | (Hr & _)]]; try rewrite Hp; unfold profile_one_byte, profile_two_byte; lia. }
    rewrite put16_enc by assumption.
    replace ((zlen body + 3) / 4 * 4 / 4) with ((zlen body + 3) / 4) by lia.
    unfold u16. replace ((zlen body + 3) / 4 mod 65536) with ((zlen body + 3) / 4) by lia.
    rewrite put16_enc by lia.
    cbn [app]. rewrite <- ?app_assoc. cbn [app]. reflexivity.
  - unfold block_of. rewrite He. cbn [has_ext enc_block]. rewrite ?app_nil_r.
    cbn [app]. rewrite <- ?app_assoc. cbn [app]. reflexivity.
Qed.

Lemma header_size_spec p : wf_packet p -> header_marshal_size (hdr p) = zlen (enc_header (wire_of p)).
Proof.
  intros Hp. pose proof Hp as [Hh _]. rewrite zlen_enc_header_fixed.
  unfold header_marshal_size, wire_of. cbn [w_csrc w_ext].
  destruct (extension (hdr p)) eqn:He.
  - destruct (block_of_spec (hdr p) Hh He) as (body & Hb & Henc & Hsz & _).
    rewrite Henc, Hsz. rewrite !zlen_app, zlen_repeat. unfold enc_u16. rewrite !zlen_cons, !zlen_nil.
    pose proof (zlen_nonneg body). lia.
  - unfold block_of. rewrite He. cbn [enc_block]. rewrite zlen_nil. lia.
Qed.

Lemma wire_of_wf p : wf_packet p -> wf_wire (wire_of p).
Proof.
  intros [Hh Hpad]. pose proof Hh as (Hv & Hpt & Hseq & Hts & Hssrc & Hcc & Hcs & Hx).
  unfold wf_wire, wire_of.
  cbn [w_version w_pad w_ext w_csrc w_marker w_pt w_seq w_ts w_ssrc w_padfill].
  repeat (split; [assumption|]).
  split.
  - destruct (extension (hdr p)) eqn:He.
    + destruct (block_of_spec (hdr p) Hh He) as (body & _ & _ & _ & Hwf & _). exact Hwf.
    + unfold block_of. rewrite He. unfold wf_block. cbn [block_body]. change (zlen (@nil Z)) with 0.
      repeat split; reflexivity.
  - destruct (padding (hdr p)); split; intros; try discriminate; try reflexivity.
    rewrite zlen_repeat. lia.
Qed.

Lemma meaning_wire_of p : wf_packet p -> meaning 0 (wire_of p) = p.
Proof.
  intros [Hh Hpad]. pose proof Hh as (_ & _ & _ & _ & _ & _ & _ & Hx).
  destruct p as [h pl ps]. cbn [hdr payload padding_size] in *.
  unfold meaning, wire_of. cbn [hdr payload padding_size w_version w_pad w_ext w_csrc w_marker w_pt w_seq w_ts w_ssrc w_padfill w_payload].
  destruct h as [v pd x m pt sq ts ss cs prof es]. cbn [padding] in *.
  f_equal.
  - destruct x eqn:He.
    + destruct (block_of_spec _ Hh eq_refl) as (body & _ & _ & _ & _ & Hhas & Hprof & Hel).
      cbn [extension] in *. rewrite Hhas, Hprof, Hel. reflexivity.
    + unfold wf_exts in Hx. cbn [extension extension_profile extensions] in Hx. destruct Hx as [-> ->].
      unfold block_of. cbn [extension has_ext block_elems]. reflexivity.
  - destruct pd; [|symmetry; exact Hpad]. rewrite zlen_repeat. lia.
Qed.

(* C04 in its general form: MarshalTo into any sufficiently large buffer writes the wire
   image and leaves the rest alone. *)
Theorem packet_marshal_to_spec p dst : wf_packet p -> packet_marshal_size p <= zlen dst ->
  packet_marshal_to p dst
  = Ok (encode (wire_of p) ++ drop (packet_marshal_size p) dst, packet_marshal_size p).
Proof.
  intros Hp Hsz. pose proof Hp as [Hh Hpad].
  pose proof (header_bytes_spec p Hp) as Hb. pose proof (header_size_spec p Hp) as Hs.
  set (hb := enc_header (wire_of p)) in *.
  pose proof (zlen_nonneg (payload p)) as Hpl. pose proof (zlen_nonneg hb) as Hhb.
  unfold packet_marshal_size in *.
  assert (Hps : 0 <= padding_size p) by (destruct (padding (hdr p)); lia).
  unfold packet_marshal_to.
  destruct (padding (hdr p) && (padding_size p =? 0)) eqn:E0.
  { apply andb_prop in E0 as [E1 E2]. rewrite E1 in Hpad. lia. }
  unfold header_marshal_to. rewrite Hs. case_if; [lia|]. rewrite Hb. cbn [bind].
  case_if; [lia|]. cbn [bind].
  case_if; [lia|].
  fold (@overwrite_def Z). unfold overwrite.
  change (take 0 dst ++ hb ++ drop (0 + zlen hb) dst) with ([] ++ hb ++ drop (0 + zlen hb) dst).
  cbn [app]. rewrite Z.add_0_l.
  change (take (zlen hb) (hb ++ drop (zlen hb) dst) ++ payload p ++
          drop (zlen hb + zlen (payload p)) (hb ++ drop (zlen hb) dst))
    with (overwrite_def (hb ++ drop (zlen hb) dst) (zlen hb) (payload p)).
  rewrite overwrite_after by lia.
  unfold encode, enc_trailer, wire_of at 2 3 4. cbn [w_payload w_pad w_padfill].
  destruct (padding (hdr p)) eqn:Epad.
  - set (padb := repeat 0 (Z.to_nat (padding_size p - 1)) ++ [padding_size p]).
    assert (Hpb : zlen padb = padding_size p).
    { unfold padb. rewrite zlen_app, zlen_repeat, zlen_cons, zlen_nil. lia. }
    replace (zlen hb + zlen (payload p)) with (zlen (hb ++ payload p)) by (rewrite zlen_app; lia).
    change (take (zlen (hb ++ payload p)) ((hb ++ payload p) ++ drop (zlen (hb ++ payload p)) dst) ++
            padb ++ drop (zlen (hb ++ payload p) + zlen padb) ((hb ++ payload p) ++ drop (zlen (hb ++ payload p)) dst))
      with (overwrite_def ((hb ++ payload p) ++ drop (zlen (hb ++ payload p)) dst) (zlen (hb ++ payload p)) padb).
    rewrite overwrite_after by (rewrite zlen_app; lia).
    rewrite Hpb.
    assert (Hfill : zlen (w_padfill (wire_of p)) + 1 = padding_size p).
    { unfold wire_of. cbn [w_padfill]. rewrite Epad, zlen_repeat. lia. }
    rewrite Hfill. fold hb. unfold padb. rewrite <- !app_assoc. reflexivity.
  - rewrite Hpad, !app_nil_r, Z.add_0_r. fold hb. reflexivity.
Qed.

Lemma zlen_encode_wire p : wf_packet p -> zlen (encode (wire_of p)) = packet_marshal_size p.
Proof.
  intros Hp. pose proof Hp as [Hh Hpad]. unfold encode, packet_marshal_size.
  rewrite !zlen_app, (header_size_spec p Hp). unfold enc_trailer, wire_of at 2 3 4.
  cbn [w_payload w_pad w_padfill]. destruct (padding (hdr p)).
  - rewrite zlen_app, zlen_repeat, zlen_cons, zlen_nil. lia.
  - rewrite zlen_nil. lia.
Qed.

Theorem packet_marshal_spec p : wf_packet p -> packet_marshal p = Ok (encode (wire_of p)).
Proof.
  intros Hp. unfold packet_marshal.
  pose proof (zlen_encode_wire p Hp) as Hl. pose proof (zlen_nonneg (encode (wire_of p))) as H0.
  rewrite packet_marshal_to_spec by (auto; rewrite zlen_repeat; lia).
  cbn [bind]. f_equal. rewrite <- Hl. apply take_app_exact.
Qed.

Theorem packet_roundtrip p : wf_packet p ->
  exists bs, packet_marshal p = Ok bs /\ zlen bs = packet_marshal_size p /\
  exists offs, packet_unmarshal_into empty_packet bs
               = Ok (mkPktResult p (header_marshal_size (hdr p)) offs).
Proof.
  intros Hp. exists (encode (wire_of p)).
  split; [apply packet_marshal_spec; assumption|].
  split; [apply zlen_encode_wire; assumption|].
  destruct (packet_decode_wire (wire_of p) empty_packet (wire_of_wf p Hp)) as (offs & Hd).
  exists offs. rewrite Hd. cbn [hdr empty_packet empty_header extension_profile].
  rewrite meaning_wire_of by assumption. rewrite <- header_size_spec by assumption. reflexivity.
Qed.

Theorem packet_marshal_to_short p dst : wf_packet p -> zlen dst < packet_marshal_size p ->
  packet_marshal_to p dst = Err EShortBuffer.
Proof.
  intros Hp Hsz. pose proof Hp as [Hh Hpad].
  pose proof (header_bytes_spec p Hp) as Hb. pose proof (header_size_spec p Hp) as Hs.
  unfold packet_marshal_size in Hsz. unfold packet_marshal_to.
  destruct (padding (hdr p) && (padding_size p =? 0)) eqn:E0.
  { apply andb_prop in E0 as [E1 E2]. rewrite E1 in Hpad. lia. }
  unfold header_marshal_to. case_if; [reflexivity|].
  rewrite Hb. cbn [bind]. rewrite <- Hs. case_if; [lia|]. cbn [bind].
  case_if; [reflexivity|lia].
Qed.

(* ------------------------------------------------------------------ *)
(* Header.Marshal / Header.MarshalTo / Header.Unmarshal                *)

Definition as_packet (h : header) : packet := mkPacket h [] (if padding h then 1 else 0).

Lemma as_packet_wf h : wf_header h -> wf_packet (as_packet h).
Proof. intros H. split; [exact H|]. cbn [as_packet hdr padding_size]. destruct (padding h); lia. Qed.

Definition header_wire (h : header) : list Z := enc_header (wire_of (as_packet h)).

Theorem header_marshal_to_spec h dst : wf_header h -> header_marshal_size h <= zlen dst ->
  header_marshal_to h dst = Ok (header_wire h ++ drop (header_marshal_size h) dst, header_marshal_size h).
Proof.
  intros Hh Hsz. pose proof (as_packet_wf h Hh) as Hp.
  pose proof (header_bytes_spec _ Hp) as Hb. pose proof (header_size_spec _ Hp) as Hs.
  cbn [as_packet hdr] in Hb, Hs. fold (header_wire h) in Hb, Hs.
  unfold header_marshal_to. case_if; [lia|]. rewrite Hb. cbn [bind]. rewrite <- Hs. case_if; [lia|].
  unfold overwrite. cbn [take app]. rewrite Z.add_0_l, Hs. reflexivity.
Qed.

Theorem header_marshal_to_short h dst : wf_header h -> zlen dst < header_marshal_size h ->
  header_marshal_to h dst = Err EShortBuffer.
Proof. intros Hh Hsz. unfold header_marshal_to. case_if; [reflexivity|lia]. Qed.

Theorem header_marshal_spec h : wf_header h -> header_marshal h = Ok (header_wire h).
Proof.
  intros Hh. unfold header_marshal.
  pose proof (header_size_spec _ (as_packet_wf h Hh)) as Hs. cbn [as_packet hdr] in Hs. fold (header_wire h) in Hs.
  pose proof (zlen_nonneg (header_wire h)).
  rewrite header_marshal_to_spec by (auto; rewrite zlen_repeat; lia). cbn [bind].
  f_equal. rewrite Hs. apply take_app_exact.
Qed.

Theorem header_roundtrip h : wf_header h ->
  exists bs, header_marshal h = Ok bs /\ zlen bs = header_marshal_size h /\
  exists offs, header_unmarshal_into empty_header bs
               = Ok (mkHdrResult h (header_marshal_size h) offs []).
Proof.
  intros Hh. pose proof (as_packet_wf h Hh) as Hp.
  exists (header_wire h). split; [apply header_marshal_spec; assumption|].
  pose proof (header_size_spec _ Hp) as Hs. cbn [as_packet hdr] in Hs. fold (header_wire h) in Hs.
  split; [symmetry; exact Hs|].
  destruct (header_decode_wire (wire_of (as_packet h)) empty_header [] (wire_of_wf _ Hp)) as (offs & Hd).
  exists offs. rewrite app_nil_r in Hd. fold (header_wire h) in Hd. rewrite Hd.
  unfold hdr_of. cbn [empty_header extension_profile]. rewrite (meaning_wire_of _ Hp).
  cbn [as_packet hdr]. rewrite Hs. reflexivity.
Qed.

(* Marshal loses nothing: two well-formed packets with the same wire image are the same packet *)
Theorem packet_marshal_injective : forall p1 p2 bs, wf_packet p1 -> wf_packet p2 ->
  packet_marshal p1 = Ok bs -> packet_marshal p2 = Ok bs -> p1 = p2.
Proof.
  intros p1 p2 bs H1 H2 M1 M2.
  destruct (packet_roundtrip p1 H1) as (b1 & Hm1 & _ & o1 & U1).
  destruct (packet_roundtrip p2 H2) as (b2 & Hm2 & _ & o2 & U2).
  assert (b1 = bs) by congruence. assert (b2 = bs) by congruence. subst b1 b2.
  rewrite U1 in U2. congruence.
Qed.

Theorem header_marshal_injective : forall h1 h2 bs, wf_header h1 -> wf_header h2 ->
  header_marshal h1 = Ok bs -> header_marshal h2 = Ok bs -> h1 = h2.
Proof.
  intros h1 h2 bs H1 H2 M1 M2.
  destruct (header_roundtrip h1 H1) as (b1 & Hm1 & _ & o1 & U1).
  destruct (header_roundtrip h2 H2) as (b2 & Hm2 & _ & o2 & U2).
  assert (b1 = bs) by congruence. assert (b2 = bs) by congruence. subst b1 b2.
  rewrite U1 in U2. congruence.
Qed.
