(* The extension element loop of Header.Unmarshal decodes every RFC 8285 block body. *)
From Coq Require Import ZArith List Lia Bool.
From Coq Require Import ZifyBool.
From RTP Require Import Base.Bits Base.Res Base.ListX Base.Tactics Model.RtpPacket Spec.Rfc8285.
Import ListNotations.
Open Scope Z_scope.

Lemma onebyte_hdr_decode id len : 0 <= id <= 14 -> 1 <= len <= 16 -> (id = 0 -> 2 <= len) ->
  let b := id * 16 + (len - 1) in
  b <> 0 /\ Z.shiftr b 4 = id /\ u8 (Z.land b 15 + 1) = len.
Proof.
  intros Hid Hlen H0 b. subst b. unfold u8.
  rewrite shiftr_div by lia. change 15 with (Z.ones 4). rewrite land_ones_mod by lia.
  change (2 ^ 4) with 16. lia.
Qed.

(* absolute offsets of the element values when the body starts at offset n *)
Fixpoint item_offsets (two : bool) (n : Z) (items : list item) : list Z :=
  match items with
  | [] => []
  | IPad :: t => item_offsets two (n + 1) t
  | IElem id v :: t => (n + (if two then 2 else 1)) :: item_offsets two (n + (if two then 2 else 1) + zlen v) t
  end.

Lemma enc_items_cons two it items :
  enc_items two (it :: items) = (if two then enc_item2 it else enc_item1 it) ++ enc_items two items.
Proof. unfold enc_items. cbn [map concat]. destruct two; reflexivity. Qed.

Theorem parse_exts_items1 : forall items fuel rest n acc offs,
  Forall wf_item1 items ->
  (length (enc_items false items) < fuel)%nat ->
  parse_exts fuel false (enc_items false items ++ rest) n (n + zlen (enc_items false items)) acc offs
  = Ok (rev acc ++ elems items, rev offs ++ item_offsets false n items,
        n + zlen (enc_items false items), rest).
Proof.
  induction items as [|it items IH]; intros fuel rest n acc offs Hwf Hf.
  - destruct fuel; [cbn in Hf; lia|]. cbn [enc_items map concat app zlen length elems item_offsets parse_exts].
    change (Z.of_nat 0) with 0. rewrite Z.add_0_r, Z.leb_refl, !app_nil_r. reflexivity.
  - apply Forall_cons_iff in Hwf as [Hit Hwf].
    destruct fuel; [lia|].
    rewrite enc_items_cons in *. cbv beta iota in *. rewrite <- app_assoc. rewrite zlen_app.
    rewrite app_length in Hf.
    pose proof (zlen_nonneg (enc_items false items)) as Hnn.
    destruct it as [|id v].
    + (* padding byte *)
      cbn [enc_item1 app] in *. change (zlen [0]) with 1. cbn [length] in Hf. cbn [parse_exts].
      case_if; [lia|]. cbn [Z.eqb].
      replace (n + (1 + zlen (enc_items false items))) with ((n + 1) + zlen (enc_items false items)) by lia.
      rewrite IH by (auto; lia). cbn [elems item_offsets]. repeat (f_equal; try lia).
    + (* element *)
      destruct Hit as (Hid & Hlen & H0).
      destruct (onebyte_hdr_decode id (zlen v) Hid Hlen H0) as (Hnz & Hsh & Hl).
      cbn [enc_item1 app] in *. rewrite zlen_cons in *. cbn [length] in Hf. cbn [parse_exts].
      pose proof (zlen_nonneg v) as Hv.
      case_if; [lia|].
      case_if; [lia|].
      rewrite Hsh, Hl.
      case_if; [lia|].
      case_if; [lia|].
      rewrite zlen_app. case_if; [pose proof (zlen_nonneg (enc_items false items ++ rest)); lia|].
      rewrite take_app_exact, drop_app_exact.
      replace (n + (1 + zlen v + zlen (enc_items false items)))
        with ((n + 1 + zlen v) + zlen (enc_items false items)) by lia.
      rewrite IH by (auto; unfold zlen in *; lia).
      cbn [rev elems item_offsets]. rewrite <- !app_assoc. cbn [app].
      repeat (f_equal; try lia).
Qed.

Theorem parse_exts_items2 : forall items fuel rest n acc offs,
  Forall wf_item2 items ->
  (length (enc_items true items) < fuel)%nat ->
  parse_exts fuel true (enc_items true items ++ rest) n (n + zlen (enc_items true items)) acc offs
  = Ok (rev acc ++ elems items, rev offs ++ item_offsets true n items,
        n + zlen (enc_items true items), rest).
Proof.
  induction items as [|it items IH]; intros fuel rest n acc offs Hwf Hf.
  - destruct fuel; [cbn in Hf; lia|]. cbn [enc_items map concat app zlen length elems item_offsets parse_exts].
    change (Z.of_nat 0) with 0. rewrite Z.add_0_r, Z.leb_refl, !app_nil_r. reflexivity.
  - apply Forall_cons_iff in Hwf as [Hit Hwf].
    destruct fuel; [lia|].
    rewrite enc_items_cons in *. cbv beta iota in *. rewrite <- app_assoc. rewrite zlen_app.
    rewrite app_length in Hf.
    pose proof (zlen_nonneg (enc_items true items)) as Hnn.
    destruct it as [|id v].
    + cbn [enc_item2 app] in *. change (zlen [0]) with 1. cbn [length] in Hf. cbn [parse_exts].
      case_if; [lia|]. cbn [Z.eqb].
      replace (n + (1 + zlen (enc_items true items))) with ((n + 1) + zlen (enc_items true items)) by lia.
      rewrite IH by (auto; lia). cbn [elems item_offsets]. repeat (f_equal; try lia).
    + destruct Hit as [Hid Hlen].
      cbn [enc_item2 app] in *. rewrite !zlen_cons in *. cbn [length] in Hf. cbn [parse_exts].
      pose proof (zlen_nonneg v) as Hv.
      case_if; [lia|].
      case_if; [lia|].
      case_if; [lia|].
      rewrite zlen_app. case_if; [pose proof (zlen_nonneg (enc_items true items ++ rest)); lia|].
      rewrite take_app_exact, drop_app_exact.
      replace (n + (1 + (1 + zlen v) + zlen (enc_items true items)))
        with ((n + 2 + zlen v) + zlen (enc_items true items)) by lia.
      rewrite IH by (auto; unfold zlen in *; lia).
      cbn [rev elems item_offsets]. rewrite <- !app_assoc. cbn [app].
      repeat (f_equal; try lia).
Qed.
