(* C06: numbering, timestamps, marker and size of the packets the packetizer emits. *)
From Coq Require Import ZArith List Lia Bool.
From Coq Require Import ZifyBool.
From RTP Require Import Base.Bits Base.Res Base.ListX Base.Tactics Model.RtpPacket Model.Sequencer
  Model.ExtCodecs Model.Ntp Model.Packetizer Proofs.C07_Sequencer Proofs.C01_Roundtrip.
Import ListNotations.
Open Scope Z_scope.

(* what a train should look like: sequence numbers e+1, e+2, ... (mod 2^16), one timestamp, the
   configured SSRC and payload type, version 2, marker on the last packet only, fragments unchanged *)
Fixpoint expected_train (p : pktz) (e : Z) (frags : list (list Z)) : list packet :=
  match frags with
  | [] => []
  | f :: t =>
    mkPacket (mkHeader 2 false false (match t with [] => true | _ => false end) (pz_pt p)
                       ((e + 1) mod 65536) (pz_ts p) (pz_ssrc p) [] 0 []) f 0
    :: expected_train p (e + 1) t
  end.

Lemma build_packets_spec : forall frags p s, sane s ->
  roc s + zlen frags < 18446744073709551616 ->
  let '(s', pkts) := build_packets p s frags in
  sane s' /\ ext s' = ext s + zlen frags /\ pkts = expected_train p (ext s) frags.
Proof.
  induction frags as [|f t IH]; intros p s Hs Hb.
  - cbn [build_packets expected_train]. change (zlen (@nil (list Z))) with 0. cbv beta iota. split; [exact Hs|split; [lia|reflexivity]].
  - cbn [build_packets]. rewrite zlen_cons in *. pose proof (zlen_nonneg t) as Ht.
    pose proof (next_ext s Hs ltac:(lia)) as Hn. destruct (seq_next s) as [s1 v].
    destruct Hn as (Hs1 & He1 & Hv & Hvm & Hrd & Hrr).
    specialize (IH p s1 Hs1 ltac:(destruct (v =? 0); lia)).
    destruct (build_packets p s1 t) as [s2 ps]. destruct IH as (Hs2 & He2 & Hps).
    split; [exact Hs2|]. split; [lia|].
    cbn [expected_train]. rewrite Hps, Hvm, He1. reflexivity.
Qed.

(* the k-th packet of a train *)
Lemma expected_train_nth : forall frags p e k pk, nth_error (expected_train p e frags) k = Some pk ->
  exists f, nth_error frags k = Some f /\ payload pk = f /\ padding_size pk = 0 /\
    sequence_number (hdr pk) = (e + 1 + Z.of_nat k) mod 65536 /\ timestamp (hdr pk) = pz_ts p /\
    ssrc (hdr pk) = pz_ssrc p /\ payload_type (hdr pk) = pz_pt p /\ version (hdr pk) = 2 /\
    marker (hdr pk) = Nat.eqb (S k) (length frags) /\ extension (hdr pk) = false /\ padding (hdr pk) = false.
Proof.
  induction frags as [|f t IH]; intros p e k pk H; [destruct k; discriminate|].
  destruct k as [|k]; cbn [expected_train nth_error] in H.
  - injection H as <-. exists f. cbn [nth_error payload padding_size hdr sequence_number timestamp ssrc payload_type
      version marker extension padding length]. repeat split; try reflexivity.
    + f_equal. lia.
    + destruct t; reflexivity.
  - destruct (IH p (e + 1) k pk H) as (g & Hg & H1 & H2 & H3 & H4 & H5 & H6 & H7 & H8 & H9 & H10).
    exists g. cbn [nth_error length]. repeat split; auto. rewrite H3. f_equal. lia.
Qed.

Lemma expected_train_length p e frags : length (expected_train p e frags) = length frags.
Proof. revert e. induction frags as [|f t IH]; intros e; cbn [expected_train length]; [reflexivity|rewrite IH; reflexivity]. Qed.

Section WithPayloader.
  Variable pay : Z -> list Z -> list (list Z).

  (* Packetize: the state afterwards, and the train (before the optional extension on its last packet) *)
  Theorem packetize_numbering : forall p payload samples now, sane (pz_seq p) ->
    payload <> [] ->
    let frags := pay (pz_budget p) payload in
    roc (pz_seq p) + zlen frags < 18446744073709551616 ->
    let '(p', pkts) := packetize pay p payload samples now in
    sane (pz_seq p') /\ ext (pz_seq p') = ext (pz_seq p) + zlen frags /\
    pz_ts p' = (pz_ts p + samples) mod 4294967296 /\
    pz_mtu p' = pz_mtu p /\ pz_pt p' = pz_pt p /\ pz_ssrc p' = pz_ssrc p /\ pz_abs p' = pz_abs p /\
    (pz_abs p = 0 -> pkts = expected_train p (ext (pz_seq p)) frags).
  Proof.
    intros p payload samples now Hs Hne frags Hb. unfold packetize.
    destruct payload as [|b0 rest]; [congruence|]. fold frags.
    pose proof (build_packets_spec frags p (pz_seq p) Hs Hb) as Hbp.
    destruct (build_packets p (pz_seq p) frags) as [s' pkts]. destruct Hbp as (Hs' & He & Hp).
    assert (Hfin : forall out, (pz_abs p = 0 -> out = expected_train p (ext (pz_seq p)) frags) ->
              sane (pz_seq (mkPktz (pz_mtu p) (pz_pt p) (pz_ssrc p) (u32 (pz_ts p + samples)) (pz_abs p) s')) /\
              ext (pz_seq (mkPktz (pz_mtu p) (pz_pt p) (pz_ssrc p) (u32 (pz_ts p + samples)) (pz_abs p) s'))
                = ext (pz_seq p) + zlen frags /\
              pz_ts (mkPktz (pz_mtu p) (pz_pt p) (pz_ssrc p) (u32 (pz_ts p + samples)) (pz_abs p) s')
                = (pz_ts p + samples) mod 4294967296 /\
              pz_mtu (mkPktz (pz_mtu p) (pz_pt p) (pz_ssrc p) (u32 (pz_ts p + samples)) (pz_abs p) s') = pz_mtu p /\
              pz_pt (mkPktz (pz_mtu p) (pz_pt p) (pz_ssrc p) (u32 (pz_ts p + samples)) (pz_abs p) s') = pz_pt p /\
              pz_ssrc (mkPktz (pz_mtu p) (pz_pt p) (pz_ssrc p) (u32 (pz_ts p + samples)) (pz_abs p) s') = pz_ssrc p /\
              pz_abs (mkPktz (pz_mtu p) (pz_pt p) (pz_ssrc p) (u32 (pz_ts p + samples)) (pz_abs p) s') = pz_abs p /\
              (pz_abs p = 0 -> out = expected_train p (ext (pz_seq p)) frags)).
    { intros out Hout. cbn [pz_seq pz_ts pz_mtu pz_pt pz_ssrc pz_abs].
      split; [exact Hs'|]. split; [exact He|]. split; [reflexivity|]. repeat (split; [reflexivity|]). exact Hout. }
    destruct pkts as [|pk0 pkt].
    - apply Hfin. intros _. exact Hp.
    - destruct (pz_abs p =? 0) eqn:Ea.
      + apply Hfin. intros _. exact Hp.
      + unfold abs_send_marshal.
        destruct (set_last_extension _ _ _); apply Hfin; intros H0; lia.
  Qed.

  Theorem skip_and_enable : forall p n v,
    pz_ts (skip_samples p n) = (pz_ts p + n) mod 4294967296 /\ pz_seq (skip_samples p n) = pz_seq p /\
    pz_ts (enable_abs_send_time p v) = pz_ts p /\ pz_seq (enable_abs_send_time p v) = pz_seq p /\
    pz_abs (enable_abs_send_time p v) = v.
  Proof. intros. repeat split. Qed.
End WithPayloader.

(* size: a packet of the train serialises to 12 bytes plus its fragment *)
Lemma train_packet_size p e frags k pk : nth_error (expected_train p e frags) k = Some pk ->
  packet_marshal_size pk = 12 + zlen (payload pk).
Proof.
  intros H. destruct (expected_train_nth frags p e k pk H) as (f & _ & _ & Hps & _ & _ & _ & _ & _ & _ & Hx & _).
  unfold packet_marshal_size, header_marshal_size. rewrite Hx, Hps.
  assert (Hc : csrc (hdr pk) = []).
  { clear - H. revert e k H. induction frags as [|g t IH]; intros e k H; [destruct k; discriminate|].
    destruct k; cbn [expected_train nth_error] in H; [injection H as <-; reflexivity|eapply IH; exact H]. }
  rewrite Hc. change (zlen (@nil Z)) with 0. lia.
Qed.

Theorem train_within_mtu : forall p e frags budget, Forall (fun f => zlen f <= budget) frags ->
  Forall (fun pk => packet_marshal_size pk <= 12 + budget) (expected_train p e frags).
Proof.
  intros p e frags budget Hall. apply Forall_forall. intros pk Hin.
  apply In_nth_error in Hin as [k Hk]. rewrite (train_packet_size p e frags k pk Hk).
  destruct (expected_train_nth frags p e k pk Hk) as (f & Hf & Hpl & _).
  rewrite Hpl. apply nth_error_In in Hf. eapply Forall_forall in Hall; [|exact Hf]. cbv beta in Hall. lia.
Qed.

(* padding packets *)
Lemma padding_packets_spec : forall n p s, sane s -> roc s + Z.of_nat n < 18446744073709551616 ->
  let '(s', pkts) := padding_packets p s n in
  sane s' /\ ext s' = ext s + Z.of_nat n /\ length pkts = n /\
  forall k pk, nth_error pkts k = Some pk ->
    pk = mkPacket (mkHeader 2 true false false (pz_pt p) ((ext s + 1 + Z.of_nat k) mod 65536) (pz_ts p) (pz_ssrc p) [] 0 []) [] 255.
Proof.
  induction n as [|n IH]; intros p s Hs Hb.
  - cbn [padding_packets]. cbv beta iota. split; [exact Hs|]. split; [lia|]. split; [reflexivity|].
    intros k pk H. destruct k; discriminate.
  - cbn [padding_packets].
    pose proof (next_ext s Hs ltac:(lia)) as Hn. destruct (seq_next s) as [s1 v].
    destruct Hn as (Hs1 & He1 & Hv & Hvm & Hrd & Hrr).
    specialize (IH p s1 Hs1 ltac:(destruct (v =? 0); lia)).
    destruct (padding_packets p s1 n) as [s2 ps]. destruct IH as (Hs2 & He2 & Hl & Hk).
    split; [exact Hs2|]. split; [lia|]. split; [cbn [length]; lia|].
    intros k pk H. destruct k as [|k]; cbn [nth_error] in H.
    + injection H as <-. rewrite Hvm, He1. f_equal. f_equal. f_equal. lia.
    + rewrite (Hk k pk H). f_equal. f_equal. rewrite He1. f_equal. lia.
Qed.

(* a padding packet is a valid padding-only RTP packet: it serialises, and parses back equal *)
Theorem padding_packet_wf : forall pt sq ts ss, 0 <= pt < 128 -> 0 <= sq < 65536 ->
  0 <= ts < 4294967296 -> 0 <= ss < 4294967296 ->
  wf_packet (mkPacket (mkHeader 2 true false false pt sq ts ss [] 0 []) [] 255).
Proof.
  intros. unfold wf_packet, wf_header, wf_exts.
  cbn [hdr padding padding_size version payload_type sequence_number timestamp ssrc csrc extension
       extension_profile extensions].
  change (zlen (@nil Z)) with 0. repeat split; try lia; constructor.
Qed.
