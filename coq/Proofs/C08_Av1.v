(* C08, AV1: for every MTU (2..2^21, which contains the 16-bit range), every input and every
   OBU boundary pattern the payloader terminates without panic and every packet is 1..MTU bytes.
   The termination argument is the point: each fragment written is at least one byte long
   (compute_write_size never returns 0 for the arguments it is called with). *)
From Coq Require Import ZArith List Lia Bool.
From Coq Require Import ZifyBool.
From RTP Require Import Base.Bits Base.Res Base.ListX Base.Tactics Model.Leb128 Model.Obu Model.Av1Pay
  Proofs.Leb128Proofs.
Import ListNotations.
Open Scope Z_scope.

Lemma zlen_write_leb128 v : 0 <= v < 2097152 ->
  zlen (write_leb128 v) = if v <? 128 then 1 else if v <? 16384 then 2 else 3.
Proof.
  intros Hv. unfold write_leb128, u64. rewrite Z.mod_small by lia. rewrite write_aux_enc by lia.
  cbn [enc]. destruct (v <? 128) eqn:E1; [reflexivity|].
  destruct (v / 128 <? 128) eqn:E2.
  - replace (v <? 16384) with true by lia. reflexivity.
  - replace (v <? 16384) with false by lia. replace (v / 128 / 128 <? 128) with true by lia. reflexivity.
Qed.

Lemma compute_write_size_ok want can : 1 <= want <= can -> 2 <= can < 2097152 ->
  let tw := compute_write_size want can in
  1 <= tw <= want /\ tw + zlen (write_leb128 tw) <= can.
Proof.
  intros Hw Hc. unfold compute_write_size, leb128_size.
  replace (268435456 <=? want) with false by lia. replace (2097152 <=? want) with false by lia.
  destruct (16384 <=? want) eqn:E3.
  - destruct (want + 3 <=? can) eqn:F; [rewrite zlen_write_leb128 by lia; split; [lia|]; replace (want <? 128) with false by lia; replace (want <? 16384) with false by lia; lia|].
    destruct ((want =? 16384) && (want + 3 - 1 <=? can)) eqn:G.
    + rewrite zlen_write_leb128 by lia. split; [lia|].
      replace (want - 1 <? 128) with false by lia. replace (want - 1 <? 16384) with true by lia. lia.
    + rewrite zlen_write_leb128 by lia. split; [lia|].
      destruct (want - 3 <? 128) eqn:?; [lia|]. destruct (want - 3 <? 16384) eqn:?; lia.
  - destruct (128 <=? want) eqn:E2.
    + destruct (want + 2 <=? can) eqn:F; [rewrite zlen_write_leb128 by lia; split; [lia|]; replace (want <? 128) with false by lia; replace (want <? 16384) with true by lia; lia|].
      destruct ((want =? 128) && (want + 2 - 1 <=? can)) eqn:G.
      * rewrite zlen_write_leb128 by lia. split; [lia|]. replace (want - 1 <? 128) with true by lia. lia.
      * rewrite zlen_write_leb128 by lia. split; [lia|].
        destruct (want - 2 <? 128) eqn:?; [lia|]. replace (want - 2 <? 16384) with true by lia. lia.
    + destruct (want + 1 <=? can) eqn:F; [rewrite zlen_write_leb128 by lia; split; [lia|]; replace (want <? 128) with true by lia; lia|].
      cbn [andb]. rewrite zlen_write_leb128 by lia. replace (want - 1 <? 128) with true by lia. lia.
Qed.

Definition pays_ok (mtu : Z) (ps : list (list Z)) : Prop := Forall (fun p => 1 <= zlen p <= mtu) ps.

Lemma zlen_set_hdr f p : zlen (set_hdr f p) = zlen p.
Proof. destruct p; reflexivity. Qed.

Lemma checked_take_ok n (l : list Z) : 0 <= n <= zlen l -> checked_take n l = Some (take n l, drop n l).
Proof. intros H. unfold checked_take. replace ((n <? 0) || (zlen l <? n)) with false by lia. reflexivity. Qed.

Lemma frag_loop_ok : forall fuel pays obu prev_write is_last mtu count,
  2 <= mtu < 2097152 -> (length obu < fuel)%nat -> pays_ok mtu pays ->
  exists pays' c, frag_loop fuel pays obu prev_write is_last mtu count = Ok (pays', c) /\ pays_ok mtu pays'.
Proof.
  induction fuel as [|fuel IH]; intros pays obu prev_write is_last mtu count Hm Hf Hp; [lia|].
  cbn [frag_loop]. pose proof (zlen_nonneg obu) as Hz.
  destruct (zlen obu <=? 0) eqn:E0; [exists pays, count; split; [reflexivity|exact Hp]|].
  set (pays1 := match pays with
                | p :: t => (if prev_write =? 0 then p else set_hdr (fun h => Z.lor h 64) p) :: t
                | [] => [] end).
  assert (Hp1 : pays_ok mtu pays1).
  { unfold pays1. destruct pays as [|p t]; [constructor|]. apply Forall_cons_iff in Hp as [Hp0 Ht].
    constructor; [|exact Ht]. destruct (prev_write =? 0); [exact Hp0|rewrite zlen_set_hdr; exact Hp0]. }
  set (tw := if mtu - 1 <=? zlen obu then mtu - 1 else zlen obu).
  assert (Htw : 1 <= tw <= zlen obu /\ tw <= mtu - 1) by (unfold tw; destruct (mtu - 1 <=? zlen obu) eqn:?; lia).
  destruct (is_last || (mtu - 1 <=? zlen obu)) eqn:EB.
  - rewrite checked_take_ok by lia.
    apply IH; [exact Hm| |].
    + pose proof (drop_zlen tw obu ltac:(lia)) as Hd. unfold zlen in *. lia.
    + constructor; [|exact Hp1]. cbn [set_hdr app]. rewrite zlen_cons, take_zlen by lia. lia.
  - assert (Hlt : zlen obu < mtu - 1) by lia.
    destruct (compute_write_size_ok tw (mtu - 1) ltac:(lia) ltac:(lia)) as [Hc1 Hc2].
    set (tw' := compute_write_size tw (mtu - 1)) in *.
    rewrite checked_take_ok by lia.
    apply IH; [exact Hm| |].
    + pose proof (drop_zlen tw' obu ltac:(lia)) as Hd. unfold zlen in *. lia.
    + constructor; [|exact Hp1]. cbn [app]. rewrite zlen_cons, zlen_app, take_zlen by lia.
      pose proof (zlen_nonneg (write_leb128 tw')). lia.
Qed.

Lemma append_obu_ok pays obu is_new_seq is_last start_new mtu count :
  2 <= mtu < 2097152 -> pays_ok mtu pays ->
  exists pays' c, append_obu pays obu is_new_seq is_last start_new mtu count = Ok (pays', c) /\ pays_ok mtu pays'.
Proof.
  intros Hm Hp. unfold append_obu. pose proof (zlen_nonneg obu) as Hz.
  set (free0 := match pays with p :: _ => mtu - zlen p | [] => 0 end).
  set (need_new := match pays with [] => true | _ => (free0 <=? 0) || start_new end).
  set (pays1 := if need_new then [if is_new_seq then 8 else 0] :: pays else pays).
  set (free := if need_new then mtu - 1 else free0).
  (* the packet being filled and the room left in it *)
  assert (H1 : exists p t, pays1 = p :: t /\ pays_ok mtu t /\ 1 <= zlen p /\ zlen p + free = mtu /\ 1 <= free).
  { unfold pays1, free. destruct need_new eqn:En.
    - exists [if is_new_seq then 8 else 0], pays. repeat split; auto; change (zlen [if is_new_seq then 8 else 0]) with 1; lia.
    - unfold need_new in En. destruct pays as [|p t]; [discriminate|].
      apply Forall_cons_iff in Hp as [Hp0 Ht]. exists p, t. unfold free0 in *. repeat split; auto; lia. }
  destruct H1 as (p & t & Hp1 & Ht & Hpl & Hfree & Hf1). rewrite Hp1.
  set (count' := if need_new then 0 else count).
  set (tw := if free <=? zlen obu then free else zlen obu).
  assert (Htw : 0 <= tw <= zlen obu /\ tw <= free) by (unfold tw; destruct (free <=? zlen obu) eqn:?; lia).
  destruct ((is_last || (free <=? tw)) && (count' <? 3)) eqn:EW.
  - rewrite checked_take_ok by lia.
    apply frag_loop_ok; [exact Hm| |].
    + pose proof (drop_zlen tw obu ltac:(lia)) as Hd. unfold zlen in *. lia.
    + constructor; [|exact Ht]. rewrite zlen_app, zlen_set_hdr, take_zlen by lia. lia.
  - destruct (2 <=? free) eqn:E2.
    + destruct (Z.eq_dec tw 0) as [Htw0|Htw0].
      * (* an empty OBU: nothing to write, nothing to fragment *)
        assert (Hobu : obu = []) by (apply zlen_zero; unfold tw in Htw0; destruct (free <=? zlen obu) eqn:?; lia).
        subst obu. rewrite Htw0.
        assert (Hc0 : compute_write_size 0 free = 0).
        { unfold compute_write_size, leb128_size. cbn. replace (1 <=? free) with true by lia. reflexivity. }
        rewrite Hc0. cbn [checked_take zlen length Z.of_nat Z.ltb Z.compare orb take drop firstn skipn Z.to_nat].
        cbn [frag_loop zlen length Z.of_nat Z.leb Z.compare]. eexists. eexists. split; [reflexivity|].
        constructor; [|exact Ht]. rewrite zlen_app, zlen_app. change (zlen (@nil Z)) with 0.
        change (write_leb128 0) with [0]. change (zlen [0]) with 1. lia.
      * destruct (compute_write_size_ok tw free ltac:(lia) ltac:(lia)) as [Hc1 Hc2].
        set (tw' := compute_write_size tw free) in *.
        rewrite checked_take_ok by lia.
        apply frag_loop_ok; [exact Hm| |].
        -- pose proof (drop_zlen tw' obu ltac:(lia)) as Hd. unfold zlen in *. lia.
        -- constructor; [|exact Ht]. rewrite !zlen_app, take_zlen by lia.
           pose proof (zlen_nonneg (write_leb128 tw')). lia.
    + apply frag_loop_ok; [exact Hm|lia|]. rewrite <- Hp1. unfold pays1.
      destruct need_new; [constructor; [change (zlen [if is_new_seq then 8 else 0]) with 1; lia|exact Hp]|exact Hp].
Qed.

Definition pst_ok (mtu : Z) (st : pst) : Prop := pays_ok mtu (pays st).

Lemma flush_pending_ok mtu st need : 2 <= mtu < 2097152 -> pst_ok mtu st ->
  exists st', flush_pending mtu st need = Ok st' /\ pst_ok mtu st'.
Proof.
  intros Hm Hp. unfold flush_pending. destruct (pending st) as [|x pe] eqn:E.
  - destruct need; eexists; (split; [reflexivity|exact Hp]).
  - destruct (append_obu_ok (pays st) (x :: pe) (new_seq st) need (start_new st) mtu (cnt st) Hm Hp) as (ps & c & Hrun & Hok).
    rewrite Hrun. eexists. split; [reflexivity|exact Hok].
Qed.

Lemma obu_hdr_size_pos h : 1 <= obu_hdr_size h <= 2.
Proof. unfold obu_hdr_size. destruct (oext h); lia. Qed.

Lemma pay_loop_ok : forall fuel mtu rest st, 2 <= mtu < 2097152 -> (length rest < fuel)%nat -> pst_ok mtu st ->
  exists st', pay_loop fuel mtu rest st = Ok st' /\ pst_ok mtu st'.
Proof.
  induction fuel as [|fuel IH]; intros mtu rest st Hm Hf Hp; [lia|].
  cbn [pay_loop]. destruct rest as [|x rest']; [exists st; split; [reflexivity|exact Hp]|].
  set (rest := x :: rest') in *.
  destruct (parse_obu_header rest) as [h|]; [|exists st; split; [reflexivity|exact Hp]].
  pose proof (obu_hdr_size_pos h) as Hh.
  set (rest1 := drop (obu_hdr_size h) rest).
  assert (Hr1 : (length rest1 < length rest)%nat).
  { unfold rest1, drop. rewrite skipn_length. unfold rest. cbn [length]. lia. }
  set (sz := if ohas_size h then match read_leb128 rest1 with None => None | Some (v, n) => Some (v, drop n rest1) end
             else Some (zlen rest1, rest1)).
  assert (Hsz : forall obu_size rest2, sz = Some (obu_size, rest2) -> (length rest2 <= length rest1)%nat).
  { unfold sz. intros os r2. destruct (ohas_size h).
    - destruct (read_leb128 rest1) as [[v n]|]; [|discriminate]. intros [= <- <-].
      unfold drop. rewrite skipn_length. lia.
    - intros [= <- <-]. lia. }
  destruct sz as [[obu_size rest2]|]; [|exists st; split; [reflexivity|exact Hp]].
  specialize (Hsz obu_size rest2 eq_refl).
  destruct (zlen rest2 <? obu_size); [exists st; split; [reflexivity|exact Hp]|].
  match goal with |- context [flush_pending mtu st ?need] =>
    destruct (flush_pending_ok mtu st need Hm Hp) as (st2 & Hfl & Hp2); rewrite Hfl end.
  assert (Hrest : (length (drop obu_size rest2) < fuel)%nat).
  { unfold drop. rewrite skipn_length. unfold rest in *. cbn [length] in *. lia. }
  destruct ((otype h =? 8) || (otype h =? 2)).
  - apply IH; [exact Hm|exact Hrest|exact Hp2].
  - apply IH; [exact Hm|exact Hrest|exact Hp2].
Qed.

Theorem av1_payload_ok mtu payload : mtu < 2097152 ->
  exists ps, av1_payload mtu payload = Ok ps /\ pays_ok mtu ps.
Proof.
  intros Hm. unfold av1_payload.
  destruct ((mtu <=? 1) || (zlen payload =? 0)) eqn:E; [exists []; split; [reflexivity|constructor]|].
  assert (Hm2 : 2 <= mtu < 2097152) by lia.
  destruct (pay_loop_ok (S (length payload)) mtu payload
              {| pays := []; pending := []; cur := None; cnt := 0; new_seq := false; start_new := false |}
              Hm2 ltac:(lia) ltac:(constructor)) as (st & Hrun & Hp).
  rewrite Hrun. destruct (pending st) as [|x pe] eqn:Epe.
  - eexists. split; [reflexivity|]. apply Forall_rev. exact Hp.
  - destruct (append_obu_ok (pays st) (x :: pe) (new_seq st) true (start_new st) mtu (cnt st) Hm2 Hp) as (ps & c & Hr & Hok).
    rewrite Hr. eexists. split; [reflexivity|]. apply Forall_rev. exact Hok.
Qed.
