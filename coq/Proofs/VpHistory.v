(* C11 / C12, end to end and over histories: any sequence of frames through ONE payloader, every
   emitted payload handed in order to ONE (reused) VP8Packet / VP9Packet, gives back every frame
   (the concatenation of the decoded payloads), with the start flag on the first packet of a frame
   only (and, for VP9, the end flag on the last only), and every packet of the k-th frame carrying
   the picture id (first id + k) mod 2^15. *)
From Coq Require Import ZArith List Lia Bool.
From Coq Require Import ZifyBool.
From RTP Require Import Base.Bits Base.Res Base.ListX Base.Bytes Base.Own Base.Tactics
  Model.Vp8 Model.Vp9Header Model.Vp9 Spec.Rfc7741 Proofs.C10_H264 Proofs.C11_Vp8 Proofs.C12_Vp9 Proofs.C12_Nonflex.
Import ListNotations.
Open Scope Z_scope.

(* ------------------------------------------------------------------ *)
(* VP8                                                                 *)

(* one receiver, a list of payloads: the decoded packets, each decode reusing the previous value *)
Fixpoint vp8_depack (prev : vp8pkt) (ps : list (list Z)) : res (list vp8pkt) :=
  match ps with
  | [] => Ok []
  | p :: t =>
    match vp8_unmarshal prev (Some p) with
    | Ok k => match vp8_depack k t with Ok ks => Ok (k :: ks) | Err e => Err e | Panic => Panic end
    | Err e => Err e
    | Panic => Panic
    end
  end.

(* one payloader and one receiver, a list of frames: the decoded packets of every frame *)
Fixpoint vp8_run (st : vp8pay) (mtu : Z) (prev : vp8pkt) (frames : list (list Z)) : res (list (list vp8pkt)) :=
  match frames with
  | [] => Ok []
  | f :: t =>
    match vp8_payload st mtu (Some f) with
    | Ok (st', fs) =>
      match vp8_depack prev (map own_bytes fs) with
      | Ok pk => match vp8_run st' mtu (last pk prev) t with Ok r => Ok (pk :: r) | Err e => Err e | Panic => Panic end
      | Err e => Err e
      | Panic => Panic
      end
    | Err e => Err e
    | Panic => Panic
    end
  end.

Fixpoint pkts8 (st : vp8pay) (first : bool) (cs : list (list Z)) : list vp8pkt :=
  match cs with [] => [] | c :: t => fields_of (desc_of st first) c :: pkts8 st false t end.

Lemma frag_rel_depack st : pid_ok st -> forall first fs cs, frag_rel st first fs cs ->
  forall prev, vp8_depack prev (map own_bytes fs) = Ok (pkts8 st first cs).
Proof.
  intros Hp first fs cs Hrel. induction Hrel as [first|first c fs cs Hrel IH]; intros prev; [reflexivity|].
  cbn [map own_bytes vp8_depack pkts8]. rewrite (vp8_fragment_decodes st first c prev Hp). rewrite IH. reflexivity.
Qed.

(* what the property says of the packets of one frame *)
Definition frame_ok8 (enable : bool) (pid : Z) (frame : list Z) (pk : list vp8pkt) : Prop :=
  pk <> [] /\ concat (map v8_payload pk) = frame /\
  map v8_s pk = 1 :: repeat 0 (length pk - 1) /\
  Forall (fun k => v8_pid k = 0 /\ v8_n k = 0 /\
                   if enable then v8_x k = 1 /\ v8_i k = 1 /\ v8_picture_id k = pid else v8_x k = 0) pk.

Lemma pkts8_payload st first cs : concat (map v8_payload (pkts8 st first cs)) = concat cs.
Proof.
  revert first. induction cs as [|c t IH]; intros first; [reflexivity|].
  cbn [pkts8 map concat]. rewrite IH. f_equal. unfold fields_of, desc_of. cbn [d_ext]. destruct (vp_enable st); reflexivity.
Qed.

Lemma pkts8_s_false st cs : map v8_s (pkts8 st false cs) = repeat 0 (length cs).
Proof.
  induction cs as [|c t IH]; [reflexivity|]. cbn [pkts8 map length repeat]. rewrite IH. f_equal.
  unfold fields_of, desc_of. cbn [d_ext d_s]. destruct (vp_enable st); reflexivity.
Qed.

Lemma pkts8_length st first cs : length (pkts8 st first cs) = length cs.
Proof. revert first. induction cs as [|c t IH]; intros first; [reflexivity|]. cbn [pkts8 length]. rewrite IH. reflexivity. Qed.

Lemma pkts8_fields st first cs :
  Forall (fun k => v8_pid k = 0 /\ v8_n k = 0 /\
                   if vp_enable st then v8_x k = 1 /\ v8_i k = 1 /\ v8_picture_id k = vp_pid st else v8_x k = 0)
         (pkts8 st first cs).
Proof.
  revert first. induction cs as [|c t IH]; intros first; [constructor|].
  cbn [pkts8]. constructor; [|apply IH].
  unfold fields_of, desc_of. cbn [d_ext d_pid d_n]. destruct (vp_enable st); cbn; repeat split.
Qed.

Lemma pkts8_frame_ok st cs : cs <> [] -> frame_ok8 (vp_enable st) (vp_pid st) (concat cs) (pkts8 st true cs).
Proof.
  intros Hne. destruct cs as [|c t]; [congruence|]. unfold frame_ok8.
  split; [cbn [pkts8]; discriminate|]. split; [apply pkts8_payload|]. split; [|apply pkts8_fields].
  cbn [pkts8 map length]. rewrite pkts8_s_false, pkts8_length. replace (S (length t) - 1)%nat with (length t) by lia.
  f_equal. unfold fields_of, desc_of. cbn [d_ext d_s]. destruct (vp_enable st); reflexivity.
Qed.

Fixpoint frames_ok8 (enable : bool) (pid : Z) (frames : list (list Z)) (r : list (list vp8pkt)) : Prop :=
  match frames, r with
  | [], [] => True
  | f :: ft, pk :: rt => frame_ok8 enable pid f pk /\ frames_ok8 enable ((pid + 1) mod 32768) ft rt
  | _, _ => False
  end.

Lemma vp8_header_size_le st : vp8_header_size st <= (if vp_enable st then 4 else 1).
Proof. unfold vp8_header_size. destruct (vp_enable st); [destruct (vp_pid st <? 128)|]; lia. Qed.

(* every MTU larger than the largest descriptor the payloader writes (4 bytes with picture ids, 1 without) *)
Theorem vp8_history : forall frames st mtu prev, pid_ok st -> (if vp_enable st then 4 else 1) < mtu ->
  Forall (fun f => f <> []) frames ->
  exists r, vp8_run st mtu prev frames = Ok r /\ frames_ok8 (vp_enable st) (vp_pid st) frames r.
Proof.
  induction frames as [|f t IH]; intros st mtu prev Hp Hm Hall.
  - exists []. split; [reflexivity|exact I].
  - apply Forall_cons_iff in Hall as [Hf Hall]. pose proof (vp8_header_size_le st) as Hsz.
    destruct (vp8_payload_spec st mtu f Hp ltac:(lia) Hf) as (fs & cs & Hpay & Hrel & Hcat & Hne & _).
    cbn [vp8_run]. rewrite Hpay. rewrite (frag_rel_depack st Hp true fs cs Hrel prev).
    set (st' := mkVp8Pay (vp_enable st) ((vp_pid st + 1) mod 32768)).
    assert (Hp' : pid_ok st') by (unfold pid_ok, st'; cbn [vp_pid]; lia).
    destruct (IH st' mtu (last (pkts8 st true cs) prev) Hp' Hm Hall) as (r & Hr & Hok).
    rewrite Hr. exists (pkts8 st true cs :: r). split; [reflexivity|].
    cbn [frames_ok8]. split; [rewrite <- Hcat; apply pkts8_frame_ok; exact Hne|exact Hok].
Qed.

(* ------------------------------------------------------------------ *)
(* VP9                                                                 *)

Fixpoint vp9_depack (prev : vp9pkt) (ps : list (list Z)) : res (list vp9pkt) :=
  match ps with
  | [] => Ok []
  | p :: t =>
    match vp9_unmarshal prev (Some p) with
    | Ok k => match vp9_depack k t with Ok ks => Ok (k :: ks) | Err e => Err e | Panic => Panic end
    | Err e => Err e
    | Panic => Panic
    end
  end.

Fixpoint vp9_run (st : vp9pay) (init mtu : Z) (prev : vp9pkt) (frames : list (list Z)) : res (list (list vp9pkt)) :=
  match frames with
  | [] => Ok []
  | f :: t =>
    match vp9_payload st init mtu (Some f) with
    | Ok (st', fs) =>
      match vp9_depack prev (map own_bytes fs) with
      | Ok pk => match vp9_run st' init mtu (last pk prev) t with Ok r => Ok (pk :: r) | Err e => Err e | Panic => Panic end
      | Err e => Err e
      | Panic => Panic
      end
    | Err e => Err e
    | Panic => Panic
    end
  end.

Fixpoint pkts9f (pid : Z) (first : bool) (cs : list (list Z)) : list vp9pkt :=
  match cs with [] => [] | c :: t => flex_packet pid first (is_nil t) c :: pkts9f pid false t end.

Fixpoint pkts9n (pid : Z) (non_key : bool) (w h : Z) (first : bool) (cs : list (list Z)) : list vp9pkt :=
  match cs with [] => [] | c :: t => nonflex_packet pid non_key first (is_nil t) w h c :: pkts9n pid non_key w h false t end.

Lemma flex_rel_depack pid : 0 <= pid < 32768 -> forall first fs cs, flex_rel pid first fs cs ->
  forall prev, vp9_depack prev (map own_bytes fs) = Ok (pkts9f pid first cs).
Proof.
  intros Hp first fs cs Hrel. induction Hrel as [first|first c fs cs Hrel IH]; intros prev; [reflexivity|].
  cbn [map own_bytes vp9_depack pkts9f]. rewrite (vp9_flex_fragment_decodes pid first (is_nil cs) c prev Hp).
  rewrite IH. reflexivity.
Qed.

Lemma nonflex_rel_depack pid non_key w h : 0 <= pid < 32768 -> 0 <= w < 65536 -> 0 <= h < 65536 ->
  forall first fs cs, nonflex_rel pid non_key w h first fs cs ->
  forall prev, vp9_depack prev (map own_bytes fs) = Ok (pkts9n pid non_key w h first cs).
Proof.
  intros Hp Hw Hh first fs cs Hrel. induction Hrel as [first|first c fs cs Hrel IH]; intros prev; [reflexivity|].
  cbn [map own_bytes vp9_depack pkts9n].
  rewrite (vp9_nonflex_fragment_decodes pid non_key first (is_nil cs) w h c prev Hp Hw Hh).
  rewrite IH. reflexivity.
Qed.

(* the packets of one frame: payloads concatenate to the frame, B on the first and E on the last
   only, I set and the frame's picture id everywhere, F = mode; in non-flexible mode P = non-key
   frame, and the scalability structure (V; one spatial layer with the frame's width and height;
   one picture group) on the first packet of a key frame and nowhere else *)
Definition frame_ok9 (flexible : bool) (pid : Z) (frame : list Z) (pk : list vp9pkt) : Prop :=
  pk <> [] /\ concat (map p9_payload pk) = frame /\
  map p9_b pk = true :: repeat false (length pk - 1) /\
  map p9_e pk = repeat false (length pk - 1) ++ [true] /\
  Forall (fun k => p9_i k = true /\ p9_picture_id k = pid /\ p9_f k = flexible /\ p9_l k = false) pk /\
  (flexible = false ->
   exists hdr, vp9_header_unmarshal frame = Ok hdr /\
     Forall (fun k => p9_p k = vh_non_key hdr) pk /\
     map p9_v pk = (negb (vh_non_key hdr)) :: repeat false (length pk - 1) /\
     (vh_non_key hdr = false ->
      match pk with
      | k :: _ => p9_ns k = 0 /\ p9_y k = true /\ p9_width k = [vp9_width hdr] /\ p9_height k = [vp9_height hdr]
      | [] => False
      end)).

Lemma pkts9f_payload pid first cs : concat (map p9_payload (pkts9f pid first cs)) = concat cs.
Proof. revert first. induction cs as [|c t IH]; intros first; [reflexivity|]. cbn [pkts9f map concat]. rewrite IH. reflexivity. Qed.

Lemma pkts9f_length pid first cs : length (pkts9f pid first cs) = length cs.
Proof. revert first. induction cs as [|c t IH]; intros first; [reflexivity|]. cbn [pkts9f length]. rewrite IH. reflexivity. Qed.

Lemma pkts9f_b_false pid cs : map p9_b (pkts9f pid false cs) = repeat false (length cs).
Proof. induction cs as [|c t IH]; [reflexivity|]. cbn [pkts9f map length repeat]. rewrite IH. reflexivity. Qed.

Lemma repeat_snoc {A} (x : A) n : repeat x n ++ [x] = x :: repeat x n.
Proof. induction n as [|n IH]; [reflexivity|]. cbn [repeat app]. rewrite IH. reflexivity. Qed.

Lemma pkts9f_e pid first cs : cs <> [] -> map p9_e (pkts9f pid first cs) = repeat false (length cs - 1) ++ [true].
Proof.
  revert first. induction cs as [|c t IH]; intros first Hne; [congruence|].
  cbn [pkts9f map length]. destruct t as [|c2 t2]; [reflexivity|].
  rewrite (IH false ltac:(discriminate)). cbn [is_nil length].
  replace (S (S (length t2)) - 1)%nat with (S (length t2)) by lia.
  replace (S (length t2) - 1)%nat with (length t2) by lia. reflexivity.
Qed.

Lemma pkts9f_fields pid first cs :
  Forall (fun k => p9_i k = true /\ p9_picture_id k = pid /\ p9_f k = true /\ p9_l k = false) (pkts9f pid first cs).
Proof. revert first. induction cs as [|c t IH]; intros first; [constructor|]. cbn [pkts9f]. constructor; [repeat split|apply IH]. Qed.

Lemma pkts9f_frame_ok pid cs : cs <> [] -> frame_ok9 true pid (concat cs) (pkts9f pid true cs).
Proof.
  intros Hne. unfold frame_ok9. split; [destruct cs; [congruence|cbn [pkts9f]; discriminate]|].
  split; [apply pkts9f_payload|]. rewrite pkts9f_length.
  split; [destruct cs as [|c t]; [congruence|]; cbn [pkts9f map length]; rewrite pkts9f_b_false;
          replace (S (length t) - 1)%nat with (length t) by lia; reflexivity|].
  split; [apply pkts9f_e; exact Hne|]. split; [apply pkts9f_fields|discriminate].
Qed.

Lemma nonflex_packet_fields pid nk first last w h c :
  let k := nonflex_packet pid nk first last w h c in
  p9_payload k = c /\ p9_b k = first /\ p9_e k = last /\ p9_i k = true /\ p9_picture_id k = pid /\
  p9_f k = false /\ p9_l k = false /\ p9_p k = nk /\ p9_v k = (negb nk && first).
Proof. unfold nonflex_packet. destruct (negb nk && first); cbn; repeat split. Qed.

Lemma pkts9n_payload pid nk w h first cs : concat (map p9_payload (pkts9n pid nk w h first cs)) = concat cs.
Proof.
  revert first. induction cs as [|c t IH]; intros first; [reflexivity|]. cbn [pkts9n map concat]. rewrite IH.
  f_equal. apply nonflex_packet_fields.
Qed.

Lemma pkts9n_length pid nk w h first cs : length (pkts9n pid nk w h first cs) = length cs.
Proof. revert first. induction cs as [|c t IH]; intros first; [reflexivity|]. cbn [pkts9n length]. rewrite IH. reflexivity. Qed.

Lemma pkts9n_b_false pid nk w h cs : map p9_b (pkts9n pid nk w h false cs) = repeat false (length cs).
Proof.
  induction cs as [|c t IH]; [reflexivity|]. cbn [pkts9n map length repeat]. rewrite IH. f_equal. apply nonflex_packet_fields.
Qed.

Lemma pkts9n_v_false pid nk w h cs : map p9_v (pkts9n pid nk w h false cs) = repeat false (length cs).
Proof.
  induction cs as [|c t IH]; [reflexivity|]. cbn [pkts9n map length repeat]. rewrite IH. f_equal.
  destruct (nonflex_packet_fields pid nk false (is_nil t) w h c) as (_ & _ & _ & _ & _ & _ & _ & _ & Hv).
  rewrite Hv. apply andb_false_r.
Qed.

Lemma pkts9n_e pid nk w h first cs : cs <> [] ->
  map p9_e (pkts9n pid nk w h first cs) = repeat false (length cs - 1) ++ [true].
Proof.
  revert first. induction cs as [|c t IH]; intros first Hne; [congruence|].
  cbn [pkts9n map length].
  destruct (nonflex_packet_fields pid nk first (is_nil t) w h c) as (_ & _ & He & _). rewrite He.
  destruct t as [|c2 t2]; [reflexivity|].
  rewrite (IH false ltac:(discriminate)). cbn [is_nil length].
  replace (S (S (length t2)) - 1)%nat with (S (length t2)) by lia.
  replace (S (length t2) - 1)%nat with (length t2) by lia. reflexivity.
Qed.

Lemma pkts9n_fields pid nk w h first cs :
  Forall (fun k => p9_i k = true /\ p9_picture_id k = pid /\ p9_f k = false /\ p9_l k = false) (pkts9n pid nk w h first cs) /\
  Forall (fun k => p9_p k = nk) (pkts9n pid nk w h first cs).
Proof.
  revert first. induction cs as [|c t IH]; intros first; [split; constructor|]. cbn [pkts9n].
  destruct (nonflex_packet_fields pid nk first (is_nil t) w h c) as (_ & _ & _ & Hi & Hpid & Hf & Hl & Hp & _).
  destruct (IH false) as [I1 I2]. split; constructor; auto.
Qed.

Lemma pkts9n_frame_ok pid frame hdr cs : cs <> [] -> concat cs = frame -> vp9_header_unmarshal frame = Ok hdr ->
  frame_ok9 false pid frame (pkts9n pid (vh_non_key hdr) (vp9_width hdr) (vp9_height hdr) true cs).
Proof.
  intros Hne Hcat Hh. set (nk := vh_non_key hdr). set (w := vp9_width hdr). set (h := vp9_height hdr).
  unfold frame_ok9. rewrite pkts9n_length.
  split; [destruct cs; [congruence|cbn [pkts9n]; discriminate]|].
  split; [rewrite pkts9n_payload; exact Hcat|].
  destruct cs as [|c t]; [congruence|].
  split.
  { cbn [pkts9n map length]. rewrite pkts9n_b_false. replace (S (length t) - 1)%nat with (length t) by lia.
    f_equal. apply nonflex_packet_fields. }
  split; [apply pkts9n_e; discriminate|].
  destruct (pkts9n_fields pid nk w h true (c :: t)) as [F1 F2].
  split; [exact F1|]. intros _. exists hdr. split; [exact Hh|]. split; [exact F2|]. split.
  { cbn [pkts9n map length]. rewrite pkts9n_v_false. replace (S (length t) - 1)%nat with (length t) by lia.
    f_equal. destruct (nonflex_packet_fields pid nk true (is_nil t) w h c) as (_ & _ & _ & _ & _ & _ & _ & _ & Hv).
    rewrite Hv. apply andb_true_r. }
  intros Hk. cbn [pkts9n]. unfold nonflex_packet, nk. rewrite Hk. cbn. repeat split.
Qed.

Fixpoint frames_ok9 (flexible : bool) (pid : Z) (frames : list (list Z)) (r : list (list vp9pkt)) : Prop :=
  match frames, r with
  | [], [] => True
  | f :: ft, pk :: rt => frame_ok9 flexible pid f pk /\ frames_ok9 flexible ((pid + 1) mod 32768) ft rt
  | _, _ => False
  end.

Definition start_pid (st : vp9pay) (init : Z) : Z := if v9_initialized st then v9_pid st else init mod 32768.

Lemma vp9_width_range hdr : 0 <= vp9_width hdr < 65536.
Proof. unfold vp9_width. destruct (vh_size hdr) as [[w h]|]; unfold u16; [apply Z.mod_pos_bound|]; lia. Qed.

Lemma vp9_height_range hdr : 0 <= vp9_height hdr < 65536.
Proof. unfold vp9_height. destruct (vh_size hdr) as [[w h]|]; unfold u16; [apply Z.mod_pos_bound|]; lia. Qed.

(* a frame the mode can carry: any non-empty frame in flexible mode; in non-flexible mode one whose
   uncompressed header parses (the payloader reads the frame type and size from it) *)
Definition frame_fits (flexible : bool) (f : list Z) : Prop :=
  f <> [] /\ (flexible = false -> exists hdr, vp9_header_unmarshal f = Ok hdr).

Theorem vp9_history : forall frames st init mtu prev, 0 <= v9_pid st < 32768 -> 0 <= init ->
  (if v9_flexible st then 3 else 11) < mtu -> Forall (frame_fits (v9_flexible st)) frames ->
  exists r, vp9_run st init mtu prev frames = Ok r /\ frames_ok9 (v9_flexible st) (start_pid st init) frames r.
Proof.
  induction frames as [|f t IH]; intros st init mtu prev Hp Hi Hm Hall.
  - exists []. split; [reflexivity|exact I].
  - apply Forall_cons_iff in Hall as [[Hf Hhdr] Hall].
    set (pid := start_pid st init).
    assert (Hpid : 0 <= pid < 32768).
    { unfold pid, start_pid. destruct (v9_initialized st); [exact Hp|apply Z.mod_pos_bound; lia]. }
    assert (Hland : (if v9_initialized st then v9_pid st else Z.land init 32767) = pid).
    { unfold pid, start_pid. destruct (v9_initialized st); [reflexivity|].
      change 32767 with (Z.ones 15). rewrite Z.land_ones by lia. reflexivity. }
    cbn [vp9_run]. unfold vp9_payload. rewrite Hland.
    set (pid' := u16 (pid + 1)).
    set (st' := mkVp9Pay (v9_flexible st) (if 32768 <=? pid' then 0 else pid') true).
    assert (Hst' : start_pid st' init = (pid + 1) mod 32768 /\ 0 <= v9_pid st' < 32768).
    { unfold start_pid, st', pid', u16. cbn [v9_initialized v9_pid]. rewrite (Z.mod_small (pid + 1)) by lia.
      destruct (32768 <=? pid + 1) eqn:E.
      - split; [|lia]. replace (pid + 1) with 32768 by lia. reflexivity.
      - split; [|lia]. rewrite Z.mod_small by lia. reflexivity. }
    destruct Hst' as [Hsp Hp'].
    destruct (v9_flexible st) eqn:Efl.
    + destruct (vp9_flexible_spec pid mtu f Hm Hf) as (fs & cs & Hpay & Hrel & Hcat & Hne & _).
      rewrite Hpay. rewrite (flex_rel_depack pid Hpid true fs cs Hrel prev).
      destruct (IH st' init mtu (last (pkts9f pid true cs) prev) Hp' Hi
                  ltac:(unfold st'; cbn [v9_flexible]; exact Hm) ltac:(unfold st'; cbn [v9_flexible]; exact Hall))
        as (r & Hr & Hok).
      fold pid' st'. rewrite Hr. exists (pkts9f pid true cs :: r). split; [reflexivity|].
      cbn [frames_ok9]. split; [rewrite <- Hcat; apply pkts9f_frame_ok; exact Hne|].
      unfold st' in Hok. cbn [v9_flexible] in Hok. fold st' in Hok. rewrite Hsp in Hok. exact Hok.
    + destruct (Hhdr eq_refl) as [hdr Hh].
      destruct (vp9_nonflexible_spec pid mtu f hdr Hm Hf Hh) as (fs & cs & Hpay & Hrel & Hcat & Hne & _).
      rewrite Hpay.
      rewrite (nonflex_rel_depack pid (vh_non_key hdr) (vp9_width hdr) (vp9_height hdr) Hpid
                 (vp9_width_range hdr) (vp9_height_range hdr) true fs cs Hrel prev).
      destruct (IH st' init mtu (last (pkts9n pid (vh_non_key hdr) (vp9_width hdr) (vp9_height hdr) true cs) prev) Hp' Hi
                  ltac:(unfold st'; cbn [v9_flexible]; exact Hm) ltac:(unfold st'; cbn [v9_flexible]; exact Hall))
        as (r & Hr & Hok).
      fold pid' st'. rewrite Hr. eexists. split; [reflexivity|].
      cbn [frames_ok9]. split; [apply pkts9n_frame_ok; assumption|].
      unfold st' in Hok. cbn [v9_flexible] in Hok. fold st' in Hok. rewrite Hsp in Hok. exact Hok.
Qed.
