(* C13, decoder against the aggregation-header semantics for a fragmented OBU: sent alone as two or
   more fragments, one per packet (W = 1; Y on all but the last, Z on all but the first), it is
   delivered once, complete and with its size field, when the last fragment arrives. *)
From Coq Require Import ZArith List Lia Bool.
From Coq Require Import ZifyBool.
From RTP Require Import Base.Bits Base.Res Base.ListX Base.Tactics Model.Leb128 Model.Obu Model.Av1Depack
  Proofs.Leb128Proofs Proofs.C13_Obu Proofs.C13_Depack Proofs.C15_Av1.
Import ListNotations.
Open Scope Z_scope.

Lemma nonempty_len (l : list Z) : l <> [] -> 1 <= zlen l.
Proof. destruct l; [congruence|]. intros _. rewrite zlen_cons. pose proof (zlen_nonneg l). lia. Qed.

(* first fragment: Z = 0, Y = 1, W = 1 *)
Lemma frag_first st f : f <> [] ->
  av1d_unmarshal st (Some (80 :: f)) = (mkAv1Dep f false true false, Ok []).
Proof.
  intros Hf. pose proof (nonempty_len f Hf) as Hl. unfold av1d_unmarshal.
  remember f as f0 eqn:Ef. destruct f0 as [|x l']; [congruence|]. rewrite Ef in *. clear Ef x l'.
  change (Z.land 128 80 =? 0) with true. change (Z.land 64 80 =? 0) with false.
  change (Z.shiftr (Z.land 48 80) 4) with 1. change (Z.land 8 80 =? 0) with true. cbn [negb andb].
  assert (Hbuf : (if 0 <? zlen (ad_buffer st) then [] else ad_buffer st) = []).
  { destruct (0 <? zlen (ad_buffer st)) eqn:E; [reflexivity|]. apply zlen_zero. pose proof (zlen_nonneg (ad_buffer st)). lia. }
  rewrite Hbuf. cbn [av1d_loop].
  remember f as f0 eqn:Ef. destruct f0 as [|x l']; [congruence|]. rewrite Ef in *. clear Ef x l'.
  change (1 =? 0) with false. change (0 =? 1 - 1) with true. cbn [negb andb orb].
  replace (zlen f <? zlen f) with false by lia. rewrite (take_all (zlen f) f) by lia.
  change (0 =? 0) with true. cbn [andb]. reflexivity.
Qed.

(* a later fragment: Z = 1; Y = 1 keeps collecting, Y = 0 completes the OBU *)
Lemma frag_middle B n0 y0 f : B <> [] -> f <> [] ->
  av1d_unmarshal (mkAv1Dep B false y0 n0) (Some (208 :: f)) = (mkAv1Dep (B ++ f) true true false, Ok []) /\
  av1d_unmarshal (mkAv1Dep B true y0 n0) (Some (208 :: f)) = (mkAv1Dep (B ++ f) true true false, Ok []).
Proof.
  intros HB Hf. pose proof (nonempty_len f Hf) as Hl. pose proof (nonempty_len B HB) as HBl.
  assert (G : forall z0, av1d_unmarshal (mkAv1Dep B z0 y0 n0) (Some (208 :: f)) = (mkAv1Dep (B ++ f) true true false, Ok [])).
  { intros z0. unfold av1d_unmarshal.
    remember f as f0 eqn:Ef. destruct f0 as [|x l']; [congruence|]. rewrite Ef in *. clear Ef x l'.
    change (Z.land 128 208 =? 0) with false. change (Z.land 64 208 =? 0) with false.
    change (Z.shiftr (Z.land 48 208) 4) with 1. change (Z.land 8 208 =? 0) with true. cbn [negb andb ad_buffer].
    cbn [av1d_loop].
    remember f as f0 eqn:Ef. destruct f0 as [|x l']; [congruence|]. rewrite Ef in *. clear Ef x l'.
    change (1 =? 0) with false. change (0 =? 1 - 1) with true. cbn [negb andb orb].
    replace (zlen f <? zlen f) with false by lia. rewrite (take_all (zlen f) f) by lia.
    change (0 =? 0) with true. cbn [andb]. replace (zlen B =? 0) with false by lia. reflexivity. }
  split; apply G.
Qed.

Lemma frag_last B z0 y0 n0 f o : wf_sobu o -> B <> [] -> f <> [] -> B ++ f = elem o ->
  av1d_unmarshal (mkAv1Dep B z0 y0 n0) (Some (144 :: f)) = (mkAv1Dep [] true false false, Ok (delivered o)).
Proof.
  intros Ho HB Hf Hcat. pose proof (nonempty_len f Hf) as Hl. pose proof (nonempty_len B HB) as HBl.
  destruct (elem_step o Ho) as (Hparse & Henn & Hdrop). pose proof (elem_len o Ho) as Hel.
  destruct Ho as (Hr & Hsz & Ht2 & Ht8 & Hb).
  unfold av1d_unmarshal.
  remember f as f0 eqn:Ef. destruct f0 as [|x l']; [congruence|]. rewrite Ef in *. clear Ef x l'.
  change (Z.land 128 144 =? 0) with false. change (Z.land 64 144 =? 0) with true.
  change (Z.shiftr (Z.land 48 144) 4) with 1. change (Z.land 8 144 =? 0) with true. cbn [negb andb ad_buffer].
  cbn [av1d_loop].
  remember f as f0 eqn:Ef. destruct f0 as [|x l']; [congruence|]. rewrite Ef in *. clear Ef x l'.
  change (1 =? 0) with false. change (0 =? 1 - 1) with true. cbn [negb andb orb].
  replace (zlen f <? zlen f) with false by lia. rewrite (take_all (zlen f) f) by lia. rewrite (drop_all (zlen f) f) by lia.
  change (0 =? 0) with true. cbn [andb]. replace (zlen B =? 0) with false by lia. cbn [andb].
  rewrite Hcat. replace (zlen (elem o) =? 0) with false by lia. rewrite Hparse.
  replace ((otype (so_hdr o) =? 2) || (otype (so_hdr o) =? 8)) with false by lia.
  rewrite Hsz, Hdrop. cbn [app]. change (0 =? 1 - 1) with true. cbn [negb andb]. unfold delivered. reflexivity.
Qed.

(* the whole chain *)
Lemma frag_chain o : wf_sobu o -> forall mid B z0 y0 n0 fl, B <> [] -> Forall (fun f => f <> []) mid -> fl <> [] ->
  B ++ concat mid ++ fl = elem o ->
  snd (av1_run (mkAv1Dep B z0 y0 n0) (map (cons 208) mid ++ [144 :: fl]))
  = map (fun _ => Ok []) mid ++ [Ok (delivered o)].
Proof.
  intros Ho. induction mid as [|f mid IH]; intros B z0 y0 n0 fl HB Hmid Hfl Hcat.
  - cbn [map app concat] in *. cbn [av1_run]. rewrite (frag_last B z0 y0 n0 fl o Ho HB Hfl Hcat). reflexivity.
  - apply Forall_cons_iff in Hmid as [Hf Hmid]. cbn [map app concat] in *. cbn [av1_run].
    destruct (frag_middle B n0 y0 f HB Hf) as [G1 G2].
    assert (G : av1d_unmarshal (mkAv1Dep B z0 y0 n0) (Some (208 :: f)) = (mkAv1Dep (B ++ f) true true false, Ok []))
      by (destruct z0; assumption).
    rewrite G.
    specialize (IH (B ++ f) true true false fl ltac:(intros Hn; apply app_eq_nil in Hn as [Hn _]; congruence) Hmid Hfl
                   ltac:(rewrite <- Hcat; rewrite <- !app_assoc; reflexivity)).
    destruct (av1_run (mkAv1Dep (B ++ f) true true false) (map (cons 208) mid ++ [144 :: fl])) as [st2 rs].
    cbn [snd] in *. rewrite IH. reflexivity.
Qed.

Theorem depack_fragmented st o f1 mid fl : wf_sobu o -> f1 <> [] -> Forall (fun f => f <> []) mid -> fl <> [] ->
  f1 ++ concat mid ++ fl = elem o ->
  snd (av1_run st ((80 :: f1) :: map (cons 208) mid ++ [144 :: fl]))
  = Ok [] :: map (fun _ => Ok []) mid ++ [Ok (delivered o)].
Proof.
  intros Ho H1 Hmid Hl Hcat. cbn [av1_run]. rewrite (frag_first st f1 H1).
  pose proof (frag_chain o Ho mid f1 false true false fl H1 Hmid Hl Hcat) as Hc.
  destruct (av1_run (mkAv1Dep f1 false true false) (map (cons 208) mid ++ [144 :: fl])) as [st2 rs].
  cbn [snd] in *. rewrite Hc. reflexivity.
Qed.
