(* C13, aggregation header rule on W: every packet either has W = 0 and consists of length-prefixed
   non-empty elements only, or has W = 1..3 and consists of W-1 length-prefixed non-empty elements
   followed by one non-empty element that runs to the end of the packet. *)
From Coq Require Import ZArith List Lia Bool.
From Coq Require Import ZifyBool.
From RTP Require Import Base.Bits Base.Res Base.ListX Base.Tactics Model.Leb128 Model.Obu Model.Av1Pay
  Proofs.Leb128Proofs Proofs.C08_Av1 Proofs.C13_ZY.
Import ListNotations.
Open Scope Z_scope.

Definition pre (chunks : list (list Z)) : list Z := flat_map (fun c => write_leb128 (zlen c) ++ c) chunks.
Definition wbits (h : Z) : Z := Z.land h 48.

Lemma pre_app a b : pre (a ++ b) = pre a ++ pre b.
Proof. unfold pre. apply flat_map_app. Qed.

Lemma pre_single c : pre [c] = write_leb128 (zlen c) ++ c.
Proof. unfold pre. cbn [flat_map]. apply app_nil_r. Qed.

(* a packet whose W is still 0: header, then [count] length-prefixed non-empty elements *)
Definition open_pkt (count : Z) (p : list Z) : Prop :=
  exists h chunks, p = h :: pre chunks /\ wbits h = 0 /\ zlen chunks = count /\ Forall (fun c => c <> []) chunks.

(* a packet whose W has been set *)
Definition closed_pkt (p : list Z) : Prop :=
  exists h chunks last, p = h :: pre chunks ++ last /\ 1 <= zlen chunks + 1 <= 3 /\
    wbits h = (zlen chunks + 1) * 16 /\ Forall (fun c => c <> []) chunks /\ last <> [].

Definition wf_agg (p : list Z) : Prop := (exists c, open_pkt c p) \/ closed_pkt p.

(* flag bits that the payloader ORs into a header do not touch W, except the W field itself *)
Lemma wbits_lor_64 h : wbits (Z.lor h 64) = wbits h.
Proof. unfold wbits. rewrite Z.land_lor_distr_l. change (Z.land 64 48) with 0. apply Z.lor_0_r. Qed.

Lemma open_set_y c p : open_pkt c p -> open_pkt c (set_hdr (fun h => Z.lor h 64) p).
Proof.
  intros (h & ch & -> & Hw & Hl & Hn). exists (Z.lor h 64), ch. cbn [set_hdr]. repeat split; auto.
  rewrite wbits_lor_64. exact Hw.
Qed.

Lemma closed_set_y p : closed_pkt p -> closed_pkt (set_hdr (fun h => Z.lor h 64) p).
Proof.
  intros (h & ch & last & -> & Hc & Hw & Hn & Hl). exists (Z.lor h 64), ch, last. cbn [set_hdr]. repeat split; auto; try lia.
  rewrite wbits_lor_64. exact Hw.
Qed.

Lemma wf_set_y p : wf_agg p -> wf_agg (set_hdr (fun h => Z.lor h 64) p).
Proof. intros [[c H]|H]; [left; exists c; apply open_set_y; exact H|right; apply closed_set_y; exact H]. Qed.

(* the state the loops maintain: every finished packet is well formed; the newest is either open
   with exactly [count] elements, or closed and then no more will be appended to it *)
Definition newest_ok (mtu count : Z) (sealed : bool) (p : list Z) : Prop :=
  open_pkt count p \/ (closed_pkt p /\ (mtu <= zlen p \/ sealed = true)).

Definition w_inv (mtu count : Z) (sealed : bool) (ps : list (list Z)) : Prop :=
  match ps with
  | [] => True
  | p :: t => newest_ok mtu count sealed p /\ Forall wf_agg t
  end.

Lemma newest_wf mtu count sealed p : newest_ok mtu count sealed p -> wf_agg p.
Proof. intros [H|[H _]]; [left; exists count; exact H|right; exact H]. Qed.

Lemma frag_loop_w : forall fuel pays obu prev_write is_last mtu count pays' c, 2 <= mtu < 2097152 ->
  frag_loop fuel pays obu prev_write is_last mtu count = Ok (pays', c) ->
  pays <> [] -> w_inv mtu count is_last pays -> w_inv mtu c is_last pays' /\ pays' <> [].
Proof.
  induction fuel as [|fuel IH]; intros pays obu prev_write is_last mtu count pays' c Hm; cbn [frag_loop]; [discriminate|].
  destruct (zlen obu <=? 0) eqn:E0; [intros [= <- <-]; auto|].
  intros Hrun Hne Hinv. destruct pays as [|p t]; [congruence|]. clear Hne. destruct Hinv as [Hn Ht].
  set (p1 := if prev_write =? 0 then p else set_hdr (fun h => Z.lor h 64) p) in *.
  assert (Hp1 : wf_agg p1).
  { unfold p1. destruct (prev_write =? 0); [exact (newest_wf _ _ _ _ Hn)|apply wf_set_y; exact (newest_wf _ _ _ _ Hn)]. }
  pose proof (zlen_nonneg obu) as Hz.
  set (tw := if mtu - 1 <=? zlen obu then mtu - 1 else zlen obu) in *.
  assert (Htw : 1 <= tw <= zlen obu /\ tw <= mtu - 1) by (unfold tw; destruct (mtu - 1 <=? zlen obu) eqn:?; lia).
  destruct (is_last || (mtu - 1 <=? zlen obu)) eqn:EB.
  - rewrite checked_take_ok in Hrun by lia.
    apply IH in Hrun; [exact Hrun|exact Hm|discriminate|].
    split; [|constructor; assumption].
    right. split.
    + exists (Z.lor (if prev_write =? 0 then 0 else 128) 16), [], (take tw obu). cbn [set_hdr app pre flat_map].
      change (zlen (@nil (list Z))) with 0.
      split; [reflexivity|]. split; [lia|]. split; [unfold wbits; destruct (prev_write =? 0); reflexivity|].
      split; [constructor|].
      intros Hnil. pose proof (take_zlen tw obu ltac:(lia)) as Htz. rewrite Hnil in Htz. change (zlen (@nil Z)) with 0 in Htz. lia.
    + cbn [set_hdr app]. rewrite zlen_cons, take_zlen by lia. destruct is_last; [right; reflexivity|left].
      cbn [orb] in EB. unfold tw. rewrite EB. lia.
  - assert (Hlt : zlen obu < mtu - 1) by lia.
    destruct (compute_write_size_ok tw (mtu - 1) ltac:(lia) ltac:(lia)) as [Hc1 Hc2].
    set (tw' := compute_write_size tw (mtu - 1)) in *.
    rewrite checked_take_ok in Hrun by lia.
    apply IH in Hrun; [exact Hrun|exact Hm|discriminate|].
    split; [|constructor; assumption].
    left. exists (if prev_write =? 0 then 0 else 128), [take tw' obu]. cbn [app pre flat_map]. rewrite app_nil_r.
    rewrite take_zlen by lia.
    split; [reflexivity|]. split; [unfold wbits; destruct (prev_write =? 0); reflexivity|]. split; [reflexivity|].
    constructor; [|constructor]. intros Hnil. pose proof (take_zlen tw' obu ltac:(lia)) as Htz. rewrite Hnil in Htz.
    change (zlen (@nil Z)) with 0 in Htz. lia.
Qed.

Lemma wbits_set_w h c : wbits h = 0 -> 0 <= c <= 2 ->
  wbits (Z.lor h (Z.land (u8 (Z.shiftl (c + 1) 4)) 48)) = (c + 1) * 16.
Proof.
  intros Hw Hc. unfold wbits in *. rewrite Z.land_lor_distr_l, Hw, Z.lor_0_l.
  assert (C : c = 0 \/ c = 1 \/ c = 2) by lia. destruct C as [->|[->| ->]]; reflexivity.
Qed.

Lemma newest_ok_seal mtu count s p : newest_ok mtu count s p -> newest_ok mtu count true p.
Proof. intros [H|[H _]]; [left; exact H|right; split; [exact H|right; reflexivity]]. Qed.

Lemma append_obu_w pays obu is_new_seq is_last start_new mtu count pays' c : 2 <= mtu < 2097152 -> obu <> [] ->
  append_obu pays obu is_new_seq is_last start_new mtu count = Ok (pays', c) ->
  w_inv mtu count start_new pays -> w_inv mtu c is_last pays' /\ pays' <> [].
Proof.
  intros Hm Hobu Hrun Hinv. unfold append_obu in Hrun.
  assert (Hzo : 1 <= zlen obu) by (destruct obu; [congruence|rewrite zlen_cons; pose proof (zlen_nonneg obu); lia]).
  set (free0 := match pays with p :: _ => mtu - zlen p | [] => 0 end) in *.
  set (need_new := match pays with [] => true | _ => (free0 <=? 0) || start_new end) in *.
  set (pays1 := if need_new then [if is_new_seq then 8 else 0] :: pays else pays) in *.
  set (free := if need_new then mtu - 1 else free0) in *.
  set (count' := if need_new then 0 else count) in *.
  (* the packet that is being filled is open, holds count' elements, and has room *)
  assert (H1 : exists p t, pays1 = p :: t /\ open_pkt count' p /\ Forall wf_agg t /\ zlen p + free = mtu /\ 1 <= free).
  { unfold pays1, free, count'. destruct need_new eqn:En.
    - exists [if is_new_seq then 8 else 0], pays. split; [reflexivity|]. split.
      + exists (if is_new_seq then 8 else 0), []. repeat split; try constructor. destruct is_new_seq; reflexivity.
      + split; [|change (zlen [if is_new_seq then 8 else 0]) with 1; lia].
        destruct pays as [|q t]; [constructor|]. destruct Hinv as [Hq Ht]. constructor; [exact (newest_wf _ _ _ _ Hq)|exact Ht].
    - unfold need_new in En. destruct pays as [|p t]; [discriminate|]. destruct Hinv as [Hp Ht].
      unfold free0 in *. exists p, t. split; [reflexivity|].
      destruct Hp as [Ho|[_ [Hfull|Hs]]]; [|lia|subst start_new; rewrite orb_true_r in En; discriminate].
      split; [exact Ho|]. split; [exact Ht|]. lia. }
  destruct H1 as (p & t & Hp1 & Hopen & Ht & Hfree & Hf1). rewrite Hp1 in Hrun.
  destruct Hopen as (h & chunks & -> & Hw & Hlen & Hne).
  set (tw := if free <=? zlen obu then free else zlen obu) in *.
  assert (Htw : 1 <= tw <= zlen obu /\ tw <= free) by (unfold tw; destruct (free <=? zlen obu) eqn:?; lia).
  assert (Hchunk : forall k, 1 <= k <= zlen obu -> take k obu <> []).
  { intros k Hk Hnil. pose proof (take_zlen k obu ltac:(lia)) as Htz. rewrite Hnil in Htz. change (zlen (@nil Z)) with 0 in Htz. lia. }
  assert (Hfb : free < 2097152) by (rewrite zlen_cons in Hfree; pose proof (zlen_nonneg (pre chunks)); lia).
  destruct ((is_last || (free <=? tw)) && (count' <? 3)) eqn:EW.
  - rewrite checked_take_ok in Hrun by lia.
    apply frag_loop_w in Hrun; [exact Hrun|exact Hm|discriminate|].
    split; [|exact Ht]. right. split.
    + exists (Z.lor h (Z.land (u8 (Z.shiftl (count' + 1) 4)) 48)), chunks, (take tw obu). cbn [set_hdr app].
      pose proof (zlen_nonneg chunks). split; [reflexivity|]. split; [lia|].
      split; [rewrite Hlen; apply wbits_set_w; [exact Hw|lia]|]. split; [exact Hne|apply Hchunk; lia].
    + cbn [set_hdr app]. rewrite !zlen_cons, zlen_app, take_zlen by lia.
      destruct is_last; [right; reflexivity|left]. cbn [orb] in EW. rewrite zlen_cons in Hfree. lia.
  - destruct (2 <=? free) eqn:E2.
    + destruct (compute_write_size_ok tw free ltac:(lia) ltac:(lia)) as [Hc1 Hc2].
      set (tw' := compute_write_size tw free) in *.
      rewrite checked_take_ok in Hrun by lia.
      apply frag_loop_w in Hrun; [exact Hrun|exact Hm|discriminate|].
      split; [|exact Ht]. left. exists h, (chunks ++ [take tw' obu]).
      split; [rewrite pre_app, pre_single, take_zlen by lia; reflexivity|].
      split; [exact Hw|]. split; [rewrite zlen_app; change (zlen [take tw' obu]) with 1; lia|].
      apply Forall_app. split; [exact Hne|constructor; [apply Hchunk; lia|constructor]].
    + apply frag_loop_w in Hrun; [exact Hrun|exact Hm|discriminate|].
      split; [|exact Ht]. left. exists h, chunks. repeat split; auto.
Qed.

Definition st_inv (mtu : Z) (st : pst) : Prop := w_inv mtu (cnt st) (start_new st) (pays st).

Lemma flush_pending_w mtu st need st' : 2 <= mtu < 2097152 ->
  flush_pending mtu st need = Ok st' -> st_inv mtu st -> st_inv mtu st'.
Proof.
  intros Hm. unfold flush_pending, st_inv. destruct (pending st) as [|x pe].
  - intros H Hinv. destruct need; injection H as <-; [|exact Hinv]. cbn [pays cnt start_new].
    destruct (pays st) as [|p t]; [exact I|]. destruct Hinv as [Hp Ht]. split; [eapply newest_ok_seal; exact Hp|exact Ht].
  - destruct (append_obu (pays st) (x :: pe) (new_seq st) need (start_new st) mtu (cnt st)) as [[ps c]|e|] eqn:E; try discriminate.
    intros [= <-] Hinv. cbn [pays cnt start_new].
    exact (proj1 (append_obu_w (pays st) (x :: pe) (new_seq st) need (start_new st) mtu (cnt st) ps c Hm ltac:(discriminate) E Hinv)).
Qed.

Lemma pay_loop_w : forall fuel mtu rest st st', 2 <= mtu < 2097152 ->
  pay_loop fuel mtu rest st = Ok st' -> st_inv mtu st -> st_inv mtu st'.
Proof.
  induction fuel as [|fuel IH]; intros mtu rest st st' Hm; cbn [pay_loop]; [discriminate|].
  destruct rest as [|x rest']; [intros [= <-]; auto|].
  destruct (parse_obu_header (x :: rest')) as [h|]; [|intros [= <-]; auto].
  match goal with |- context [match ?sz with Some _ => _ | None => _ end] => destruct sz as [[obu_size rest2]|] end;
    [|intros [= <-]; auto].
  destruct (zlen rest2 <? obu_size); [intros [= <-]; auto|].
  match goal with |- context [flush_pending mtu st ?need] =>
    destruct (flush_pending mtu st need) as [st2|e|] eqn:Ef; try discriminate end.
  intros Hrun Hinv. pose proof (flush_pending_w _ _ _ _ Hm Ef Hinv) as Hinv2.
  destruct ((otype h =? 8) || (otype h =? 2)); apply IH in Hrun; auto.
Qed.

Theorem av1_payload_w mtu payload ps : mtu < 2097152 -> av1_payload mtu payload = Ok ps -> Forall wf_agg ps.
Proof.
  intros Hm. unfold av1_payload. destruct ((mtu <=? 1) || (zlen payload =? 0)) eqn:E; [intros [= <-]; constructor|].
  assert (Hm2 : 2 <= mtu < 2097152) by lia.
  destruct (pay_loop _ mtu payload _) as [st|e|] eqn:El; try discriminate.
  apply (pay_loop_w _ _ _ _ _ Hm2) in El; [|exact I]. unfold st_inv in El.
  assert (Hall : forall c s qs, w_inv mtu c s qs -> Forall wf_agg (rev qs)).
  { intros c s qs Hq. apply Forall_rev. destruct qs as [|q t]; [constructor|]. destruct Hq as [Hq Ht].
    constructor; [exact (newest_wf _ _ _ _ Hq)|exact Ht]. }
  destruct (pending st) as [|x pe].
  - intros [= <-]. exact (Hall _ _ _ El).
  - destruct (append_obu (pays st) (x :: pe) (new_seq st) true (start_new st) mtu (cnt st)) as [[ps' c]|e|] eqn:Ea; try discriminate.
    intros [= <-]. exact (Hall _ _ _ (proj1 (append_obu_w (pays st) (x :: pe) (new_seq st) true (start_new st) mtu (cnt st) ps' c Hm2 ltac:(discriminate) Ea El))).
Qed.
