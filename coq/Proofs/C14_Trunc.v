(* C14, "and reject truncated ones": a well-formed RFC 7798 payload cut anywhere before the end of
   the structure its form requires - the two payload-header bytes and one payload byte (plus DONL),
   the FU header and one byte (plus DONL in a start fragment), the PACI fields, the PHES and one
   byte, the first two complete aggregation units - is refused with an error, never accepted and
   never a panic. *)
From Coq Require Import ZArith List Lia Bool.
From Coq Require Import ZifyBool.
From RTP Require Import Base.Bits Base.Res Base.ListX Base.Bytes Base.Tactics
  Model.H265 Spec.Rfc7798 Proofs.C14_Accessors Proofs.C14_Forms.
Import ListNotations.
Open Scope Z_scope.

Lemma take_cons {A} k (x : A) l : 1 <= k -> take k (x :: l) = x :: take (k - 1) l.
Proof.
  intros H. unfold take. replace (Z.to_nat k) with (S (Z.to_nat (k - 1))) by lia. reflexivity.
Qed.

Lemma zlen_take_min {A} k (l : list A) : 0 <= k -> zlen (take k l) = Z.min k (zlen l).
Proof. intros H. unfold take, zlen. rewrite firstn_length. lia. Qed.

Lemma take_nil {A} k : take k (@nil A) = [].
Proof. unfold take. apply firstn_nil. Qed.

(* the minimal complete structure of each form *)
Definition min_len (d : bool) (f : form) : Z :=
  match f with
  | FSingle _ _ _ _ _ => 3 + (if d then 2 else 0)
  | FAgg _ _ _ first others =>
    match others with
    | o :: _ => 2 + (if d then 2 else 0) + 2 + zlen first + zlen (agg_unit d o)
    | [] => 0
    end
  | FFu _ _ s _ _ _ _ => 4 + (if d && s then 2 else 0)
  | FPaci _ _ _ _ phs _ _ _ _ _ _ => 5 + phs
  end.

Definition rejected (r : res h5packet) : Prop := exists e, r = Err e.

Lemma short2 d p : zlen p <= 2 -> rejected (h265_unmarshal d (Some p)).
Proof. intros H. unfold h265_unmarshal. replace (zlen p <=? 2) with true by lia. eexists; reflexivity. Qed.

Lemma single_trunc d ty layer tid donl payload k : wf_form (FSingle ty layer tid donl payload) ->
  0 <= k < min_len d (FSingle ty layer tid donl payload) ->
  rejected (h265_unmarshal d (Some (take k (encode d (FSingle ty layer tid donl payload))))).
Proof.
  intros (Hty & Hl & Ht & Hd & Hp) Hk. cbn [encode min_len] in *.
  destruct (Z_le_gt_dec k 2) as [Hk2|Hk2].
  { apply short2. rewrite zlen_take_min by lia. lia. }
  destruct d; [|exfalso; lia].
  destruct (phdr_fields ty layer tid ltac:(lia) Hl Ht) as (Hf & Htype & Hrange).
  destruct (put16_split _ Hrange) as (p0 & p1 & -> & Hh).
  destruct (put16_split donl Hd) as (d0 & d1 & Hdd & _). cbn [opt16]. rewrite Hdd. cbn [app].
  do 2 (rewrite take_cons by lia).
  unfold h265_unmarshal. rewrite !zlen_cons.
  set (rest := take (k - 1 - 1) (d0 :: d1 :: payload)).
  assert (Hr : 1 <= zlen rest <= 2) by (subst rest; rewrite zlen_take_min by lia; rewrite !zlen_cons; pose proof (zlen_nonneg payload); lia).
  kill_if (1 + (1 + zlen rest) <=? 2) false.
  rewrite Hh, Hf, Htype.
  kill_if (ty =? 50) false. kill_if (ty =? 49) false. kill_if (ty =? 48) false.
  kill_if (zlen rest <=? 2) true. eexists; reflexivity.
Qed.

Lemma fu_trunc d layer tid s e futype donl payload k : wf_form (FFu layer tid s e futype donl payload) ->
  0 <= k < min_len d (FFu layer tid s e futype donl payload) ->
  rejected (h265_unmarshal d (Some (take k (encode d (FFu layer tid s e futype donl payload))))).
Proof.
  intros (Hl & Ht & Hft & Hd & Hp) Hk. cbn [encode min_len] in *.
  destruct (Z_le_gt_dec k 2) as [Hk2|Hk2].
  { apply short2. rewrite zlen_take_min by lia. lia. }
  destruct (phdr_fields 49 layer tid ltac:(lia) Hl Ht) as (Hf & Htype & Hrange).
  destruct (put16_split _ Hrange) as (p0 & p1 & -> & Hh).
  destruct (fu_header_fields s e futype Hft) as (Hs & _). cbv zeta in Hs.
  change ((if s then 128 else 0) + (if e then 64 else 0) + futype) with (fu_header s e futype) in Hs.
  cbn [app]. do 3 (rewrite take_cons by lia).
  unfold h265_unmarshal. rewrite !zlen_cons.
  set (r1 := take (k - 1 - 1 - 1) (opt16 (d && s) donl ++ payload)).
  pose proof (zlen_nonneg r1).
  kill_if (1 + (1 + (1 + zlen r1)) <=? 2) false.
  rewrite Hh, Hf, Htype. change (49 =? 50) with false. change (49 =? 49) with true. cbv iota.
  destruct (Z.eq_dec k 3) as [->|Hk3].
  { subst r1. change (3 - 1 - 1 - 1) with 0. rewrite take_0. change (zlen (@nil Z)) with 0.
    change (1 + (1 + (1 + 0)) <=? 3) with true. eexists; reflexivity. }
  destruct (d && s) eqn:Eds; [|exfalso; lia].
  destruct (put16_split donl Hd) as (d0 & d1 & Hdd & _).
  assert (Hr : 1 <= zlen r1 <= 2).
  { subst r1. rewrite zlen_take_min by lia. cbn [opt16]. rewrite Hdd, zlen_app, !zlen_cons, zlen_nil.
    pose proof (zlen_nonneg payload). lia. }
  kill_if (1 + (1 + (1 + zlen r1)) <=? 3) false.
  rewrite Hs. rewrite andb_comm, Eds. kill_if (zlen r1 <=? 2) true. eexists; reflexivity.
Qed.

Lemma paci_trunc d layer tid a ctype phs f0 f1 f2 y phes payload k :
  wf_form (FPaci layer tid a ctype phs f0 f1 f2 y phes payload) ->
  0 <= k < min_len d (FPaci layer tid a ctype phs f0 f1 f2 y phes payload) ->
  rejected (h265_unmarshal d (Some (take k (encode d (FPaci layer tid a ctype phs f0 f1 f2 y phes payload))))).
Proof.
  intros (Hl & Ht & Hc & Hphs & Hlen & Hp) Hk. cbn [encode min_len] in *.
  destruct (Z_le_gt_dec k 2) as [Hk2|Hk2].
  { apply short2. rewrite zlen_take_min by lia. lia. }
  destruct (phdr_fields 50 layer tid ltac:(lia) Hl Ht) as (Hf & Htype & Hrange).
  destruct (put16_split _ Hrange) as (p0 & p1 & -> & Hh).
  destruct (paci_fields a ctype phs f0 f1 f2 y Hc Hphs) as (_ & _ & Hsz & _). cbv zeta in Hsz.
  change ((if a then 32768 else 0) + ctype * 512 + phs * 16 + (if f0 then 8 else 0) + (if f1 then 4 else 0)
          + (if f2 then 2 else 0) + (if y then 1 else 0)) with (paci_word a ctype phs f0 f1 f2 y) in Hsz.
  assert (Hw : 0 <= paci_word a ctype phs f0 f1 f2 y < 65536)
    by (unfold paci_word; destruct a, f0, f1, f2, y; lia).
  destruct (put16_split _ Hw) as (w0 & w1 & -> & Hww).
  cbn [app]. do 2 (rewrite take_cons by lia).
  unfold h265_unmarshal. rewrite !zlen_cons.
  set (rest := take (k - 1 - 1) (w0 :: w1 :: phes ++ payload)).
  assert (1 <= zlen rest) by (subst rest; rewrite zlen_take_min by lia; rewrite !zlen_cons; pose proof (zlen_nonneg (phes ++ payload)); lia).
  kill_if (1 + (1 + zlen rest) <=? 2) false.
  rewrite Hh, Hf, Htype. change (50 =? 50) with true. cbv iota.
  destruct (Z_le_gt_dec k 4) as [Hk4|Hk4].
  { assert (zlen rest <= 2) by (subst rest; rewrite zlen_take_min by lia; lia).
    kill_if (1 + (1 + zlen rest) <=? 4) true. eexists; reflexivity. }
  subst rest. do 2 (rewrite take_cons by lia). rewrite !zlen_cons.
  set (r2 := take (k - 1 - 1 - 1 - 1) (phes ++ payload)).
  assert (Hr2 : 1 <= zlen r2 < phs + 1).
  { subst r2. rewrite zlen_take_min by lia. rewrite zlen_app. pose proof (nonempty_zlen payload Hp). lia. }
  kill_if (1 + (1 + (1 + (1 + zlen r2))) <=? 4) false.
  rewrite Hww, Hsz. kill_if (zlen r2 <? phs + 1) true. eexists; reflexivity.
Qed.

(* a strict prefix of one aggregation unit yields no unit *)
Lemma agg_others_prefix d dd u more fuel j : 0 <= dd < 256 -> zlen u < 65536 -> 0 <= j < zlen (agg_unit d (dd, u)) ->
  agg_others fuel d (take j (agg_unit d (dd, u) ++ more)) [] = [].
Proof.
  intros Hd Hu Hj. destruct fuel as [|f]; [reflexivity|].
  pose proof (zlen_nonneg u) as Hu0.
  destruct (put16_split (zlen u) ltac:(lia)) as (a & b & Hab & Habv).
  unfold agg_unit in *. cbn [fst snd] in *. rewrite Hab in *.
  destruct d; cbn [app] in *; rewrite ?zlen_cons, ?zlen_app in Hj.
  - destruct (Z.eq_dec j 0) as [->|Hj0]; [rewrite take_0; reflexivity|].
    rewrite take_cons by lia. cbn [agg_others].
    destruct (Z_le_gt_dec j 2) as [Hj2|Hj2].
    { destruct (Z.eq_dec j 1) as [->|]; [change (1 - 1) with 0; rewrite take_0; reflexivity|].
      assert (j = 2) by lia. subst j. change (2 - 1) with 1. rewrite take_cons by lia. change (1 - 1) with 0.
      rewrite take_0. reflexivity. }
    rewrite !take_cons by lia. unfold be16. rewrite Habv.
    set (l2 := take (j - 1 - 1 - 1) (u ++ more)).
    assert (zlen l2 < zlen u) by (subst l2; rewrite zlen_take_min by lia; lia).
    kill_if (zlen l2 <? zlen u) true. reflexivity.
  - cbn [agg_others].
    destruct (Z_le_gt_dec j 1) as [Hj1|Hj1].
    { destruct (Z.eq_dec j 0) as [->|]; [rewrite take_0; reflexivity|].
      assert (j = 1) by lia. subst j. rewrite take_cons by lia. change (1 - 1) with 0. rewrite take_0. reflexivity. }
    rewrite !take_cons by lia. unfold be16. rewrite Habv.
    set (l2 := take (j - 1 - 1) (u ++ more)).
    assert (zlen l2 < zlen u) by (subst l2; rewrite zlen_take_min by lia; lia).
    kill_if (zlen l2 <? zlen u) true. reflexivity.
Qed.

Lemma take_app_ge {A} (a b : list A) k : zlen a <= k -> take k (a ++ b) = a ++ take (k - zlen a) b.
Proof.
  intros H. unfold take, zlen in *. rewrite firstn_app.
  rewrite firstn_all2 by lia. f_equal. f_equal. lia.
Qed.

Lemma agg_trunc d layer tid donl first others k : wf_form (FAgg layer tid donl first others) ->
  0 <= k < min_len d (FAgg layer tid donl first others) ->
  rejected (h265_unmarshal d (Some (take k (encode d (FAgg layer tid donl first others))))).
Proof.
  intros (Hl & Ht & Hd & Hfirst & Hne & Hall) Hk. cbn [encode min_len] in *.
  destruct others as [|[dd u] ot]; [contradiction|].
  apply Forall_cons_iff in Hall as [[Hdd Hu] _]. cbn [fst snd] in Hdd, Hu.
  destruct (Z_le_gt_dec k 2) as [Hk2|Hk2].
  { apply short2. rewrite zlen_take_min by lia. lia. }
  destruct (phdr_fields 48 layer tid ltac:(lia) Hl Ht) as (Hf & Htype & Hrange).
  destruct (put16_split _ Hrange) as (p0 & p1 & -> & Hh).
  pose proof (zlen_nonneg first) as Hf0.
  destruct (put16_split (zlen first) ltac:(lia)) as (s0 & s1 & Hs & Hss).
  cbn [map concat]. set (more := concat (map (agg_unit d) ot)).
  pose proof (zlen_nonneg (agg_unit d (dd, u))) as Hau.
  (* the walk behind the (optional) DONL: [j] bytes of "size, first unit, further units" are left *)
  assert (Hwalk : forall fd j, 0 <= j < 2 + zlen first + zlen (agg_unit d (dd, u)) ->
            rejected (match take j (s0 :: s1 :: first ++ agg_unit d (dd, u) ++ more) with
                      | a :: b :: r2 =>
                        let size := Z.lor (Z.shiftl a 8) b in
                        if zlen r2 <? size then Err EShort else
                        if negb (agg_clean (S (length r2)) d (drop size r2)) then Err EShort else
                        let others := agg_others (S (length r2)) d (drop size r2) [] in
                        match others with [] => Err EShort | _ => Ok (PAgg fd (take size r2) others) end
                      | _ => Err EShort
                      end)).
  { intros fd j Hj.
    destruct (Z_le_gt_dec j 1) as [Hj1|Hj1].
    { destruct (Z.eq_dec j 0) as [->|]; [rewrite take_0; eexists; reflexivity|].
      assert (j = 1) by lia. subst j. rewrite take_cons by lia. change (1 - 1) with 0. rewrite take_0. eexists; reflexivity. }
    rewrite !take_cons by lia. cbv zeta. rewrite Hss.
    destruct (Z_lt_ge_dec (j - 1 - 1) (zlen first)) as [Hlt|Hge].
    { replace (zlen (take (j - 1 - 1) (first ++ agg_unit d (dd, u) ++ more)) <? zlen first) with true
        by (symmetry; rewrite zlen_take_min by lia; lia).
      eexists; reflexivity. }
    rewrite take_app_ge by lia.
    rewrite zlen_app. pose proof (zlen_nonneg (take (j - 1 - 1 - zlen first) (agg_unit d (dd, u) ++ more))).
    kill_if (zlen first + zlen (take (j - 1 - 1 - zlen first) (agg_unit d (dd, u) ++ more)) <? zlen first) false.
    rewrite drop_app_exact.
    match goal with |- context [negb ?c] => destruct c end; cbn [negb]; [|eexists; reflexivity].
    rewrite (agg_others_prefix d dd u more _ (j - 1 - 1 - zlen first) Hdd Hu ltac:(lia)).
    eexists; reflexivity. }
  cbn [app]. rewrite !take_cons by lia.
  unfold h265_unmarshal. rewrite !zlen_cons.
  set (rest := take (k - 1 - 1) (opt16 d donl ++ put16 (zlen first) ++ first ++ agg_unit d (dd, u) ++ more)).
  assert (Hrest : 1 <= zlen rest).
  { subst rest. rewrite zlen_take_min by lia. rewrite !zlen_app, Hs, !zlen_cons, zlen_nil.
    pose proof (zlen_nonneg (opt16 d donl)). pose proof (zlen_nonneg more). lia. }
  kill_if (1 + (1 + zlen rest) <=? 2) false.
  rewrite Hh, Hf, Htype. change (48 =? 50) with false. change (48 =? 49) with false. change (48 =? 48) with true.
  cbv iota. subst rest. rewrite Hs.
  destruct d; cbn [opt16 app] in *.
  - destruct (put16_split donl Hd) as (d0 & d1 & -> & Hdv). cbn [app].
    destruct (Z_le_gt_dec k 3) as [Hk3|Hk3].
    { assert (k = 3) by lia. subst k. change (3 - 1 - 1) with 1. rewrite take_cons by lia. change (1 - 1) with 0.
      rewrite take_0. eexists; reflexivity. }
    do 2 (rewrite take_cons by lia). apply Hwalk. lia.
  - apply Hwalk. lia.
Qed.

(* ---- D34: a cut inside a LATER aggregation unit is refused too ---- *)

(* one complete unit is stepped over *)
Lemma agg_clean_step d dd u X fuel : 0 <= dd < 256 -> zlen u < 65536 ->
  agg_clean (S fuel) d (agg_unit d (dd, u) ++ X) = agg_clean fuel d X.
Proof.
  intros Hd Hu. pose proof (zlen_nonneg u) as Hu0.
  destruct (put16_split (zlen u) ltac:(lia)) as (a & b & Hab & Habv).
  unfold agg_unit. cbn [fst snd]. rewrite Hab.
  destruct d; cbn [app agg_clean]; unfold be16; rewrite Habv, zlen_app; pose proof (zlen_nonneg X);
    kill_if (zlen u + zlen X <? zlen u) false; rewrite drop_app_exact; reflexivity.
Qed.

(* a non-empty strict prefix of one unit is not a clean end *)
Lemma agg_clean_inside d dd u more fuel j : 0 <= dd < 256 -> zlen u < 65536 -> 0 < j < zlen (agg_unit d (dd, u)) ->
  agg_clean fuel d (take j (agg_unit d (dd, u) ++ more)) = false.
Proof.
  intros Hd Hu Hj. destruct fuel as [|f]; [reflexivity|].
  pose proof (zlen_nonneg u) as Hu0.
  destruct (put16_split (zlen u) ltac:(lia)) as (a & b & Hab & Habv).
  unfold agg_unit in *. cbn [fst snd] in *. rewrite Hab in *.
  destruct d; cbn [app] in *; rewrite ?zlen_cons, ?zlen_app in Hj.
  - rewrite take_cons by lia. cbn [agg_clean].
    destruct (Z_le_gt_dec j 2) as [Hj2|Hj2].
    { destruct (Z.eq_dec j 1) as [->|]; [change (1 - 1) with 0; rewrite take_0; reflexivity|].
      assert (j = 2) by lia. subst j. change (2 - 1) with 1. rewrite take_cons by lia. change (1 - 1) with 0.
      rewrite take_0. reflexivity. }
    rewrite !take_cons by lia. unfold be16. rewrite Habv.
    set (l2 := take (j - 1 - 1 - 1) (u ++ more)).
    assert (zlen l2 < zlen u) by (subst l2; rewrite zlen_take_min by lia; lia).
    kill_if (zlen l2 <? zlen u) true. reflexivity.
  - destruct (Z_le_gt_dec j 1) as [Hj1|Hj1].
    { assert (j = 1) by lia. subst j. rewrite take_cons by lia. change (1 - 1) with 0. rewrite take_0. reflexivity. }
    rewrite !take_cons by lia. cbn [agg_clean]. unfold be16. rewrite Habv.
    set (l2 := take (j - 1 - 1) (u ++ more)).
    assert (zlen l2 < zlen u) by (subst l2; rewrite zlen_take_min by lia; lia).
    kill_if (zlen l2 <? zlen u) true. reflexivity.
Qed.

Definition units_ok (others : list (Z * list Z)) : Prop :=
  Forall (fun x => 0 <= fst x < 256 /\ zlen (snd x) < 65536) others.

(* a prefix of a run of units on which the strict walk ends cleanly ends at a unit boundary *)
Lemma agg_clean_prefix d : forall others fuel j, units_ok others ->
  0 <= j <= zlen (concat (map (agg_unit d) others)) ->
  (length (take j (concat (map (agg_unit d) others))) < fuel)%nat ->
  agg_clean fuel d (take j (concat (map (agg_unit d) others))) = true ->
  exists m, j = zlen (concat (map (agg_unit d) (firstn m others))).
Proof.
  induction others as [|[dd u] t IH]; intros fuel j Hall Hj Hf Hc.
  - exists O. cbn [firstn map concat] in *. change (zlen (@nil Z)) with 0 in *. lia.
  - apply Forall_cons_iff in Hall as [[Hd Hu] Ht]. cbn [fst snd] in Hd, Hu.
    cbn [map concat] in *. rewrite zlen_app in Hj.
    pose proof (zlen_nonneg (agg_unit d (dd, u))) as Hau.
    destruct (Z.eq_dec j 0) as [->|Hj0]; [exists O; reflexivity|].
    destruct (Z_lt_ge_dec j (zlen (agg_unit d (dd, u)))) as [Hin|Hout].
    { rewrite (agg_clean_inside d dd u _ fuel j Hd Hu ltac:(lia)) in Hc. discriminate. }
    rewrite take_app_ge in Hc, Hf by lia.
    destruct fuel as [|fuel]; [cbn in Hc; discriminate|].
    rewrite (agg_clean_step d dd u _ fuel Hd Hu) in Hc.
    assert (Hlen1 : (1 <= length (agg_unit d (dd, u)))%nat).
    { unfold agg_unit, put16. rewrite !app_length. cbn [length]. lia. }
    rewrite app_length in Hf.
    destruct (IH fuel (j - zlen (agg_unit d (dd, u))) Ht ltac:(lia) ltac:(lia) Hc) as [m Hm].
    exists (S m). cbn [firstn map concat]. rewrite zlen_app. lia.
Qed.

Lemma zlen_put16 v : zlen (put16 v) = 2.
Proof. reflexivity. Qed.
Lemma zlen_opt16 d v : zlen (opt16 d v) = if d then 2 else 0.
Proof. destruct d; reflexivity. Qed.

(* every strict prefix of an aggregation packet that does not end at the boundary of one of its
   units (where it is itself an aggregation packet of the first m further units) is refused *)
Theorem agg_trunc_strict d layer tid donl first others k : wf_form (FAgg layer tid donl first others) ->
  0 <= k < zlen (encode d (FAgg layer tid donl first others)) ->
  (forall m, k <> zlen (encode d (FAgg layer tid donl first (firstn m others)))) ->
  rejected (h265_unmarshal d (Some (take k (encode d (FAgg layer tid donl first others))))).
Proof.
  intros Hwf Hk Hnb.
  destruct (Z_lt_ge_dec k (min_len d (FAgg layer tid donl first others))) as [Hlt|Hge].
  { apply agg_trunc; [exact Hwf|lia]. }
  pose proof Hwf as (Hl & Ht & Hd & Hfirst & Hne & Hall). cbn [encode min_len] in *.
  destruct (phdr_fields 48 layer tid ltac:(lia) Hl Ht) as (Hf & Htype & Hrange).
  destruct (put16_split _ Hrange) as (p0 & p1 & Hp & Hh).
  pose proof (zlen_nonneg first) as Hf0.
  destruct (put16_split (zlen first) ltac:(lia)) as (s0 & s1 & Hs & Hss).
  set (rest := concat (map (agg_unit d) others)) in *.
  rewrite <- (zlen_opt16 d donl) in Hge.
  pose proof (zlen_nonneg (opt16 d donl)) as Ho. set (o := zlen (opt16 d donl)) in *.
  remember (2 + o + 2 + zlen first) as base eqn:Hb.
  assert (Hbase : base <= k).
  { destruct others as [|x ot]; [contradiction|]. pose proof (zlen_nonneg (agg_unit d x)). lia. }
  assert (Htot : zlen (put16 (phdr 48 layer tid) ++ opt16 d donl ++ put16 (zlen first) ++ first ++ rest) = base + zlen rest).
  { rewrite !zlen_app, !zlen_put16. fold o. lia. }
  rewrite Htot in Hk.
  (* the cut falls into the further units *)
  assert (Hcut : take k (put16 (phdr 48 layer tid) ++ opt16 d donl ++ put16 (zlen first) ++ first ++ rest)
                 = put16 (phdr 48 layer tid) ++ opt16 d donl ++ put16 (zlen first) ++ first ++ take (k - base) rest).
  { rewrite take_app_ge by (rewrite zlen_put16; lia). f_equal.
    rewrite take_app_ge by (rewrite zlen_put16; fold o; lia). f_equal.
    rewrite take_app_ge by (rewrite !zlen_put16; fold o; lia). f_equal.
    rewrite take_app_ge by (rewrite !zlen_put16; fold o; lia). f_equal.
    f_equal. rewrite !zlen_put16. fold o. lia. }
  rewrite Hcut. set (X := take (k - base) rest).
  assert (Hclean : agg_clean (S (length (first ++ X))) d X = false).
  { destruct (agg_clean (S (length (first ++ X))) d X) eqn:E; [|reflexivity]. exfalso.
    destruct (agg_clean_prefix d others (S (length (first ++ X))) (k - base) Hall ltac:(fold rest; lia)
                ltac:(fold rest; fold X; rewrite app_length; lia) E) as [m Hm].
    apply (Hnb m). rewrite !zlen_app, !zlen_put16. fold o. lia. }
  rewrite Hp, Hs. unfold h265_unmarshal. cbn [app]. rewrite !zlen_cons.
  pose proof (zlen_nonneg (opt16 d donl ++ s0 :: s1 :: first ++ X)).
  replace (1 + (1 + zlen (opt16 d donl ++ s0 :: s1 :: first ++ X)) <=? 2) with false
    by (symmetry; rewrite zlen_app, !zlen_cons; pose proof (zlen_nonneg (first ++ X)); fold o; lia).
  rewrite Hh, Hf, Htype. change (48 =? 50) with false. change (48 =? 49) with false. change (48 =? 48) with true.
  cbv iota.
  assert (Hwalk : forall fd, rejected (
            if zlen (first ++ X) <? Z.lor (Z.shiftl s0 8) s1 then Err EShort else
            if negb (agg_clean (S (length (first ++ X))) d (drop (Z.lor (Z.shiftl s0 8) s1) (first ++ X))) then Err EShort else
            match agg_others (S (length (first ++ X))) d (drop (Z.lor (Z.shiftl s0 8) s1) (first ++ X)) [] with
            | [] => Err EShort
            | _ :: _ => Ok (PAgg fd (take (Z.lor (Z.shiftl s0 8) s1) (first ++ X))
                              (agg_others (S (length (first ++ X))) d (drop (Z.lor (Z.shiftl s0 8) s1) (first ++ X)) []))
            end)).
  { intros fd. rewrite Hss, zlen_app. pose proof (zlen_nonneg X).
    kill_if (zlen first + zlen X <? zlen first) false. rewrite drop_app_exact, Hclean. eexists; reflexivity. }
  clear Ho. subst o. destruct d; cbn [opt16 app].
  - destruct (put16_split donl Hd) as (d0 & d1 & -> & Hdv). cbn [app]. apply Hwalk.
  - apply Hwalk.
Qed.

Theorem parse_truncated : forall d f k, wf_form f -> 0 <= k < min_len d f ->
  exists e, h265_unmarshal d (Some (take k (encode d f))) = Err e.
Proof.
  intros d [ty layer tid donl payload|layer tid donl first others|layer tid s e futype donl payload
           |layer tid a ctype phs f0 f1 f2 y phes payload] k H Hk.
  - apply single_trunc; assumption.
  - apply agg_trunc; assumption.
  - apply fu_trunc; assumption.
  - apply paci_trunc; assumption.
Qed.

(* the bound is tight: the whole payload has at least [min_len] bytes, and at [min_len] bytes and
   beyond the forms are accepted (C14_parse_forms for the whole payload) *)
Theorem min_len_le d f : wf_form f -> min_len d f <= zlen (encode d f).
Proof.
  destruct f as [ty layer tid donl payload|layer tid donl first others|layer tid s e futype donl payload
                |layer tid a ctype phs f0 f1 f2 y phes payload]; cbn [wf_form min_len encode].
  - intros (_ & _ & _ & _ & Hp). pose proof (nonempty_zlen payload Hp).
    rewrite !zlen_app, zlen_opt16. unfold put16. rewrite !zlen_cons. change (zlen (@nil Z)) with 0. destruct d; lia.
  - intros (_ & _ & _ & _ & Hne & _). destruct others as [|o ot]; [contradiction|].
    cbn [map concat]. rewrite !zlen_app. unfold put16. rewrite zlen_opt16, !zlen_cons. change (zlen (@nil Z)) with 0.
    pose proof (zlen_nonneg (concat (map (agg_unit d) ot))). destruct d; lia.
  - intros (_ & _ & _ & _ & Hp). pose proof (nonempty_zlen payload Hp).
    rewrite !zlen_app, zlen_opt16. unfold put16. rewrite !zlen_cons. change (zlen (@nil Z)) with 0. destruct (d && s); lia.
  - intros (_ & _ & _ & _ & Hlen & Hp). pose proof (nonempty_zlen payload Hp).
    rewrite !zlen_app. unfold put16. rewrite !zlen_cons. change (zlen (@nil Z)) with 0. lia.
Qed.
