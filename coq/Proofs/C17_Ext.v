(* C17: the fixed-size header-extension payload codecs are bit-exact and total.
   Layouts are stated as arithmetic (the "spec"); the model uses the masks and shifts of the code. *)
From Coq Require Import ZArith List Lia Bool.
From Coq Require Import ZifyBool.
From RTP Require Import Base.Bits Base.Res Base.ListX Base.Bytes Base.Tactics Model.ExtCodecs.
Import ListNotations.
Open Scope Z_scope.

(* ---- AudioLevel (RFC 6464): V(1) level(7) ---- *)
Theorem audio_level_marshal_spec level voice : 0 <= level <= 255 ->
  audio_level_marshal (mkAudioLevel level voice)
  = if level <=? 127 then Ok [(if voice then 128 else 0) + level] else Err EOverflow.
Proof.
  intros H. unfold audio_level_marshal. cbn [al_level al_voice].
  destruct (127 <? level) eqn:E; destruct (level <=? 127) eqn:E2; try lia; [reflexivity|].
  f_equal. f_equal. destruct voice; [|reflexivity].
  apply (lor_add_small 128 level 7); lia.
Qed.

Lemma land_128 b : Z.land b 128 = (b / 128) mod 2 * 128.
Proof. change 128 with (Z.shiftl (Z.ones 1) 7) at 1. rewrite land_mask_range by lia. reflexivity. Qed.

Theorem audio_level_unmarshal_spec prev raw :
  audio_level_unmarshal prev raw
  = match raw with
    | [] => Err EShort
    | b :: _ => Ok (mkAudioLevel (b mod 128) ((b / 128) mod 2 =? 1))
    end.
Proof.
  destruct raw as [|b t]; [reflexivity|]. unfold audio_level_unmarshal.
  rewrite land_127, land_128. f_equal. f_equal.
  destruct ((b / 128) mod 2 =? 1) eqn:E; destruct ((b / 128) mod 2 * 128 =? 0) eqn:E2; try reflexivity; lia.
Qed.

Theorem audio_level_roundtrip prev level voice : 0 <= level <= 127 ->
  exists bs, audio_level_marshal (mkAudioLevel level voice) = Ok bs /\
             audio_level_unmarshal prev bs = Ok (mkAudioLevel level voice).
Proof.
  intros H. rewrite audio_level_marshal_spec by lia. replace (level <=? 127) with true by lia.
  eexists; split; [reflexivity|]. rewrite audio_level_unmarshal_spec.
  f_equal. f_equal; destruct voice; lia.
Qed.

(* ---- TransportCC: 16-bit big-endian ---- *)
Theorem tcc_marshal_spec s : 0 <= s < 65536 -> tcc_marshal s = Ok [s / 256; s mod 256].
Proof. intros H. unfold tcc_marshal, put16, u8. autorewrite with bits. repeat (f_equal; try lia). Qed.

Theorem tcc_unmarshal_spec prev raw : bytes_ok raw ->
  tcc_unmarshal prev raw = match raw with a :: b :: _ => Ok (a * 256 + b) | _ => Err EShort end.
Proof.
  intros H. destruct raw as [|a [|b t]]; try reflexivity. unfold tcc_unmarshal.
  rewrite be16_arith; [reflexivity|]. inversion H as [|? ? _ H2]; inversion H2; assumption.
Qed.

Theorem tcc_roundtrip prev s : 0 <= s < 65536 ->
  exists bs, tcc_marshal s = Ok bs /\ tcc_unmarshal prev bs = Ok s.
Proof.
  intros H. rewrite tcc_marshal_spec by assumption. eexists; split; [reflexivity|].
  rewrite tcc_unmarshal_spec by (repeat constructor; unfold is_byte; lia). f_equal. lia.
Qed.

(* ---- PlayoutDelay: MIN(12) MAX(12) ---- *)
Definition u24_bytes (v : Z) : list Z := [v / 65536; (v / 256) mod 256; v mod 256].

Theorem playout_marshal_spec mn mx : 0 <= mn < 65536 -> 0 <= mx < 65536 ->
  playout_marshal mn mx
  = if (mn <=? 4095) && (mx <=? 4095) then Ok (u24_bytes (mn * 4096 + mx)) else Err EOverflow.
Proof.
  intros Hmn Hmx. unfold playout_marshal.
  destruct (4095 <? mn) eqn:E1; [replace (mn <=? 4095) with false by lia; reflexivity|].
  destruct (4095 <? mx) eqn:E2; [replace (mx <=? 4095) with false by lia; rewrite andb_false_r; reflexivity|].
  replace (mn <=? 4095) with true by lia. replace (mx <=? 4095) with true by lia. cbn [orb andb].
  unfold u24_bytes, u8. autorewrite with bits.
  replace (mn * 16 mod 256) with ((mn mod 16) * 16) by lia.
  rewrite (lor_add_small ((mn mod 16) * 16) (mx / 256 mod 256) 4) by lia.
  repeat (f_equal; try lia).
Qed.

Theorem playout_unmarshal_spec prev raw : bytes_ok raw ->
  playout_unmarshal prev raw
  = match raw with
    | a :: b :: c :: _ => let v := a * 65536 + b * 256 + c in Ok (v / 4096, v mod 4096)
    | _ => Err EShort
    end.
Proof.
  intros H. destruct raw as [|a [|b [|c t]]]; try reflexivity. unfold playout_unmarshal.
  assert (Ha : is_byte a /\ is_byte b /\ is_byte c).
  { inversion H as [|? ? Ha H2]; inversion H2 as [|? ? Hb H3]; inversion H3; auto. }
  destruct Ha as (Ha & Hb & Hc). unfold is_byte in *.
  rewrite !be16_arith by (unfold is_byte; lia). autorewrite with bits. cbv zeta.
  f_equal. f_equal; lia.
Qed.

Theorem playout_roundtrip prev mn mx : 0 <= mn <= 4095 -> 0 <= mx <= 4095 ->
  exists bs, playout_marshal mn mx = Ok bs /\ playout_unmarshal prev bs = Ok (mn, mx).
Proof.
  intros Hmn Hmx. rewrite playout_marshal_spec by lia.
  replace (mn <=? 4095) with true by lia. replace (mx <=? 4095) with true by lia. cbn [andb].
  eexists; split; [reflexivity|].
  rewrite playout_unmarshal_spec by (unfold u24_bytes; repeat constructor; unfold is_byte; lia).
  unfold u24_bytes. cbv zeta. f_equal. f_equal; lia.
Qed.

(* ---- AbsSendTime: 24-bit big-endian (the low 24 bits of the uint64 field) ---- *)
Theorem abs_send_marshal_spec ts : 0 <= ts ->
  abs_send_marshal ts = Ok (u24_bytes (ts mod 16777216)).
Proof.
  intros H. unfold abs_send_marshal, u24_bytes, u8.
  change 16711680 with (Z.shiftl (Z.ones 8) 16). change 65280 with (Z.shiftl (Z.ones 8) 8).
  rewrite !land_mask_range by lia. autorewrite with bits.
  change (2 ^ 16) with 65536. change (2 ^ 8) with 256.
  repeat (f_equal; try lia).
Qed.

Theorem abs_send_unmarshal_spec prev raw : bytes_ok raw ->
  abs_send_unmarshal prev raw
  = match raw with a :: b :: c :: _ => Ok (a * 65536 + b * 256 + c) | _ => Err EShort end.
Proof.
  intros H. destruct raw as [|a [|b [|c t]]]; try reflexivity. unfold abs_send_unmarshal.
  assert (Ha : is_byte a /\ is_byte b /\ is_byte c).
  { inversion H as [|? ? Ha H2]; inversion H2 as [|? ? Hb H3]; inversion H3; auto. }
  destruct Ha as (Ha & Hb & Hc). unfold is_byte in *.
  rewrite !shiftl_mul by lia. change (2 ^ 16) with 65536. change (2 ^ 8) with 256.
  rewrite (lor_add_small (a * 65536) (b * 256) 16) by lia.
  rewrite (lor_add_small _ c 8) by lia. reflexivity.
Qed.

Theorem abs_send_roundtrip prev ts : 0 <= ts < 16777216 ->
  exists bs, abs_send_marshal ts = Ok bs /\ abs_send_unmarshal prev bs = Ok ts.
Proof.
  intros H. rewrite abs_send_marshal_spec by lia. eexists; split; [reflexivity|].
  rewrite abs_send_unmarshal_spec by (unfold u24_bytes; repeat constructor; unfold is_byte; lia).
  unfold u24_bytes. f_equal. lia.
Qed.

(* ---- AbsCaptureTime: 64-bit big-endian timestamp, optional 64-bit two's-complement offset ---- *)
Definition u64_bytes (v : Z) : list Z :=
  [v / 72057594037927936; (v / 281474976710656) mod 256; (v / 1099511627776) mod 256;
   (v / 4294967296) mod 256; (v / 16777216) mod 256; (v / 65536) mod 256; (v / 256) mod 256; v mod 256].

Lemma put64_spec v : 0 <= v < 18446744073709551616 -> put64 v = u64_bytes v.
Proof.
  intros H. unfold put64, u64_bytes, u8. rewrite !shiftr_div by lia.
  change (2 ^ 56) with 72057594037927936. change (2 ^ 48) with 281474976710656.
  change (2 ^ 40) with 1099511627776. change (2 ^ 32) with 4294967296.
  change (2 ^ 24) with 16777216. change (2 ^ 16) with 65536. change (2 ^ 8) with 256.
  repeat (f_equal; try lia).
Qed.

Lemma be64_spec a b c d e f g h :
  is_byte b -> is_byte c -> is_byte d -> is_byte e -> is_byte f -> is_byte g -> is_byte h -> 0 <= a ->
  be64 [a; b; c; d; e; f; g; h]
  = a * 72057594037927936 + b * 281474976710656 + c * 1099511627776 + d * 4294967296
    + e * 16777216 + f * 65536 + g * 256 + h.
Proof.
  unfold is_byte. intros. unfold be64. cbn [fold_left].
  rewrite !shiftl_mul by lia. change (2 ^ 8) with 256.
  rewrite Z.mul_0_l, Z.lor_0_l.
  rewrite (lor_add_small (a * 256) b 8) by lia.
  rewrite (lor_add_small _ c 8) by lia.
  rewrite (lor_add_small _ d 8) by lia.
  rewrite (lor_add_small _ e 8) by lia.
  rewrite (lor_add_small _ f 8) by lia.
  rewrite (lor_add_small _ g 8) by lia.
  rewrite (lor_add_small _ h 8) by lia. lia.
Qed.

Lemma be64_put64 v : 0 <= v < 18446744073709551616 -> be64 (put64 v) = v.
Proof.
  intros H. rewrite put64_spec by assumption. unfold u64_bytes.
  rewrite be64_spec by (unfold is_byte; lia). lia.
Qed.

Lemma zlen_put64 v : zlen (put64 v) = 8.
Proof. reflexivity. Qed.

Lemma take8_app8 (a b c d e f g h : Z) rest : take 8 ([a; b; c; d; e; f; g; h] ++ rest) = [a; b; c; d; e; f; g; h].
Proof. reflexivity. Qed.

Theorem abs_capture_marshal_spec ts off :
  0 <= ts < 18446744073709551616 ->
  abs_capture_marshal (mkAbsCapture ts off)
  = Ok (u64_bytes ts ++ match off with Some o => u64_bytes (u64 o) | None => [] end).
Proof.
  intros H. unfold abs_capture_marshal. cbn [ac_ts ac_offset].
  destruct off as [o|].
  - rewrite !put64_spec by (unfold u64; lia). reflexivity.
  - rewrite put64_spec by lia. rewrite app_nil_r. reflexivity.
Qed.

(* decoding depends on the input only, whatever the receiver held before *)
Theorem abs_capture_unmarshal_indep prev prev' raw :
  abs_capture_unmarshal prev raw = abs_capture_unmarshal prev' raw.
Proof. reflexivity. Qed.

Theorem abs_capture_unmarshal_lengths prev raw :
  (zlen raw < 8 -> abs_capture_unmarshal prev raw = Err EShort) /\
  (8 <= zlen raw < 16 -> exists ts, abs_capture_unmarshal prev raw = Ok (mkAbsCapture ts None)) /\
  (16 <= zlen raw -> exists ts o, abs_capture_unmarshal prev raw = Ok (mkAbsCapture ts (Some o))).
Proof.
  unfold abs_capture_unmarshal. repeat split; intros H.
  - replace (zlen raw <? 8) with true by lia. reflexivity.
  - replace (zlen raw <? 8) with false by lia. replace (16 <=? zlen raw) with false by lia. eexists; reflexivity.
  - replace (zlen raw <? 8) with false by lia. replace (16 <=? zlen raw) with true by lia. do 2 eexists; reflexivity.
Qed.

Lemma abs_capture_unmarshal_16 prev a b : zlen a = 8 -> zlen b = 8 ->
  abs_capture_unmarshal prev (a ++ b) = Ok (mkAbsCapture (be64 a) (Some (i64 (be64 b)))).
Proof.
  intros Ha Hb. unfold abs_capture_unmarshal. rewrite zlen_app, Ha, Hb. cbn [Z.add Pos.add Pos.succ Z.ltb Z.leb Z.compare Pos.compare Pos.compare_cont].
  replace (take 8 (a ++ b)) with a by (rewrite <- Ha; symmetry; apply take_app_exact).
  replace (drop 8 (a ++ b)) with b by (rewrite <- Ha; symmetry; apply drop_app_exact).
  rewrite take_all by lia. reflexivity.
Qed.

Lemma abs_capture_unmarshal_8 prev a : zlen a = 8 ->
  abs_capture_unmarshal prev a = Ok (mkAbsCapture (be64 a) None).
Proof.
  intros Ha. unfold abs_capture_unmarshal. rewrite Ha. cbn [Z.ltb Z.leb Z.compare Pos.compare Pos.compare_cont].
  rewrite take_all by lia. reflexivity.
Qed.

Theorem abs_capture_roundtrip prev ts off :
  0 <= ts < 18446744073709551616 ->
  match off with Some o => -9223372036854775808 <= o < 9223372036854775808 | None => True end ->
  exists bs, abs_capture_marshal (mkAbsCapture ts off) = Ok bs /\
             abs_capture_unmarshal prev bs = Ok (mkAbsCapture ts off).
Proof.
  intros Hts Hoff. unfold abs_capture_marshal. cbn [ac_ts ac_offset].
  destruct off as [o|].
  - eexists; split; [reflexivity|].
    rewrite abs_capture_unmarshal_16 by apply zlen_put64.
    rewrite !be64_put64 by (unfold u64; lia).
    f_equal. f_equal. f_equal. unfold i64, u64. lia.
  - eexists; split; [reflexivity|].
    rewrite abs_capture_unmarshal_8 by apply zlen_put64.
    rewrite be64_put64 by assumption. reflexivity.
Qed.

(* no decoder panics, on any input and any receiver *)
Theorem ext_unmarshal_total :
  (forall p r, audio_level_unmarshal p r <> Panic) /\ (forall p r, tcc_unmarshal p r <> Panic) /\
  (forall p r, playout_unmarshal p r <> Panic) /\ (forall p r, abs_send_unmarshal p r <> Panic) /\
  (forall p r, abs_capture_unmarshal p r <> Panic).
Proof.
  repeat split; intros p r.
  - destruct r; discriminate.
  - destruct r as [|? [|? ?]]; discriminate.
  - destruct r as [|? [|? [|? ?]]]; discriminate.
  - destruct r as [|? [|? [|? ?]]]; discriminate.
  - unfold abs_capture_unmarshal. destruct (zlen r <? 8); [discriminate|]. destruct (16 <=? zlen r); discriminate.
Qed.
