(* EncodeLEB128 v is WriteToLeb128 v read as one big-endian number, for every v below 2^56 (eight
   LEB128 bytes, which is what a 64-bit uint can hold). *)
From Coq Require Import ZArith List Lia Bool.
From Coq Require Import ZifyBool.
From RTP Require Import Base.Bits Base.ListX Base.Tactics Model.Leb128 Proofs.Leb128Proofs.
Import ListNotations.
Open Scope Z_scope.

Definition be256 (l : list Z) (acc : Z) : Z := fold_left (fun a b => a * 256 + b) l acc.

Lemma enc_length_pos fuel v : (0 < fuel)%nat -> (1 <= length (enc fuel v))%nat.
Proof. destruct fuel; [lia|]. intros _. cbn [enc]. destruct (v <? 128); cbn [length]; lia. Qed.

Lemma encode_aux_enc : forall fuel v acc, (0 < fuel)%nat -> 0 <= v < 128 ^ Z.of_nat fuel -> 0 <= acc ->
  (acc + 1) * 256 ^ Z.of_nat (length (enc fuel v)) <= 18446744073709551616 ->
  encode_leb128_aux fuel v (acc * 256) = be256 (enc fuel v) acc.
Proof.
  induction fuel as [|fuel IH]; intros v acc Hf Hv Ha Hb; [lia|].
  cbn [encode_leb128_aux enc]. rewrite land_127, shiftr_7.
  rewrite (lor_add_small (acc * 256) (v mod 128) 8) by lia.
  destruct (v / 128 =? 0) eqn:E; destruct (v <? 128) eqn:E2; try lia.
  - unfold be256. cbn [fold_left]. lia.
  - cbn [enc length] in Hb. rewrite E2 in Hb. cbn [length] in Hb.
    rewrite Nat2Z.inj_succ, Z.pow_succ_r in Hb by lia.
    rewrite Nat2Z.inj_succ, Z.pow_succ_r in Hv by lia.
    assert (Hf' : (0 < fuel)%nat).
    { destruct fuel; [|lia]. change (128 ^ Z.of_nat 0) with 1 in Hv. lia. }
    pose proof (enc_length_pos fuel (v / 128) Hf') as Hl.
    assert (Hp : 256 <= 256 ^ Z.of_nat (length (enc fuel (v / 128)))).
    { change 256 with (256 ^ 1) at 1. apply Z.pow_le_mono_r; lia. }
    rewrite lor_128_add by lia. rewrite shiftl_8. unfold u64.
    rewrite Z.mod_small by nia.
    replace ((acc * 256 + v mod 128 + 128) * 256) with ((acc * 256 + (v mod 128 + 128)) * 256) by lia.
    rewrite IH; [|exact Hf'|lia|lia|nia].
    unfold be256. cbn [fold_left]. reflexivity.
Qed.

Theorem encode_leb128_packs v : 0 <= v < 72057594037927936 ->
  encode_leb128 v = be256 (write_leb128 v) 0 /\ (length (write_leb128 v) <= 8)%nat.
Proof.
  intros Hv. unfold encode_leb128, write_leb128, u64. rewrite Z.mod_small by lia.
  rewrite write_aux_enc by lia.
  assert (Hv8 : 0 <= v < 128 ^ Z.of_nat 8) by (change (128 ^ Z.of_nat 8) with 72057594037927936; lia).
  destruct (enc_shape 10 8 v Hv8 ltac:(lia)) as (cs & b & He & _ & _ & Hl).
  assert (Hlen : (length (enc 10 v) <= 8)%nat) by (rewrite He, app_length; cbn [length]; lia).
  split; [|exact Hlen].
  change 0 with (0 * 256) at 1. apply encode_aux_enc; [lia| |lia|].
  - change (128 ^ Z.of_nat 10) with 1180591620717411303424. lia.
  - assert (256 ^ Z.of_nat (length (enc 10 v)) <= 256 ^ 8) by (apply Z.pow_le_mono_r; lia).
    change (256 ^ 8) with 18446744073709551616 in *. lia.
Qed.
