(* C07: the sequencer is a 16-bit counter with an exact rollover count.  The key quantity is the
   extended value E = roc * 65536 + sq: every Next adds exactly one to it. *)
From Coq Require Import ZArith List Lia Bool.
From Coq Require Import ZifyBool.
From RTP Require Import Base.Bits Base.Tactics Model.Sequencer.
Import ListNotations.
Open Scope Z_scope.

Definition ext (s : seqr) : Z := roc s * 65536 + sq s.
Definition sane (s : seqr) : Prop := 0 <= sq s < 65536 /\ 0 <= roc s.

Lemma next_ext s : sane s -> roc s + 1 < 18446744073709551616 ->
  let '(s', v) := seq_next s in
  sane s' /\ ext s' = ext s + 1 /\ v = sq s' /\ v = ext s' mod 65536 /\ roc s' = ext s' / 65536 /\
  roc s' = roc s + (if v =? 0 then 1 else 0).
Proof.
  intros [Hs Hr] Hb. unfold seq_next, ext, sane, u16, u64. cbn [sq roc].
  destruct ((sq s + 1) mod 65536 =? 0) eqn:E; repeat split; try lia.
Qed.

(* values handed out by the Next operations of a run, in issue order, with the rollover count
   the sequencer had right after each of them *)
Fixpoint next_trace (s : seqr) (ops : list sop) : list (Z * Z) :=
  match ops with
  | [] => []
  | SNext :: t => let '(s1, v) := seq_next s in (v, roc s1) :: next_trace s1 t
  | SRoc :: t => next_trace s t
  end.

Fixpoint count_next (ops : list sop) : Z :=
  match ops with [] => 0 | SNext :: t => 1 + count_next t | SRoc :: t => count_next t end.

Lemma count_next_nonneg ops : 0 <= count_next ops.
Proof. induction ops as [|[|] t IH]; cbn [count_next]; lia. Qed.

(* the i-th Next (i = 0, 1, ...) returns (E0 + 1 + i) mod 2^16 with rollover count (E0 + 1 + i) / 2^16 *)
Theorem next_trace_spec : forall ops s, sane s -> roc s + count_next ops < 18446744073709551616 ->
  forall i v r, nth_error (next_trace s ops) i = Some (v, r) ->
  v = (ext s + 1 + Z.of_nat i) mod 65536 /\ r = (ext s + 1 + Z.of_nat i) / 65536.
Proof.
  induction ops as [|o t IH]; intros s Hs Hb i v r Hn; [destruct i; discriminate|].
  pose proof (count_next_nonneg t) as Hc.
  destruct o; cbn [next_trace count_next] in *.
  - pose proof (next_ext s Hs ltac:(lia)) as Hx. destruct (seq_next s) as [s1 v1].
    destruct Hx as (Hs1 & He & Hv & Hvm & Hrd & Hrr).
    destruct i as [|i]; cbn [nth_error] in Hn.
    + injection Hn as <- <-. rewrite He in *. split; [rewrite Hvm; f_equal; lia|rewrite Hrd; f_equal; lia].
    + destruct (IH s1 Hs1 ltac:(destruct (v1 =? 0); lia) i v r Hn) as [H1 H2]. rewrite He in *.
      split; [rewrite H1; f_equal; lia|rewrite H2; f_equal; lia].
  - apply (IH s Hs ltac:(lia) i v r Hn).
Qed.

(* RollOverCount returns the number of zeros handed out so far *)
Fixpoint zeros_before (s : seqr) (ops : list sop) : list (Z * Z) :=   (* (roc result, zeros handed out so far) *)
  match ops with
  | [] => []
  | SNext :: t => let '(s1, v) := seq_next s in
                  map (fun '(r, z) => (r, z + (if v =? 0 then 1 else 0))) (zeros_before s1 t)
  | SRoc :: t => (seq_roc s, 0) :: zeros_before s t
  end.

Theorem roc_counts_zeros : forall ops s, sane s -> roc s + count_next ops < 18446744073709551616 ->
  Forall (fun '(r, z) => r = roc s + z) (zeros_before s ops).
Proof.
  induction ops as [|o t IH]; intros s Hs Hb; [constructor|].
  pose proof (count_next_nonneg t) as Hc.
  destruct o; cbn [zeros_before count_next] in *.
  - pose proof (next_ext s Hs ltac:(lia)) as Hx. destruct (seq_next s) as [s1 v1].
    destruct Hx as (Hs1 & He & Hv & Hvm & Hrd & Hrr).
    specialize (IH s1 Hs1 ltac:(destruct (v1 =? 0); lia)).
    apply Forall_forall. intros [r z] Hin. apply in_map_iff in Hin as ([r0 z0] & Heq & Hin0).
    injection Heq as <- <-. eapply Forall_forall in IH; [|exact Hin0]. cbv beta iota in IH. lia.
  - constructor; [unfold seq_roc; lia|apply IH; [assumption|lia]].
Qed.

(* consequences: no duplicates, no gaps, strictly increasing extended value *)
Corollary extended_strictly_increasing : forall ops s, sane s -> roc s + count_next ops < 18446744073709551616 ->
  forall i j vi ri vj rj, (i < j)%nat ->
  nth_error (next_trace s ops) i = Some (vi, ri) -> nth_error (next_trace s ops) j = Some (vj, rj) ->
  ri * 65536 + vi + Z.of_nat (j - i) = rj * 65536 + vj.
Proof.
  intros ops s Hs Hb i j vi ri vj rj Hij Hi Hj.
  destruct (next_trace_spec ops s Hs Hb i vi ri Hi) as [-> ->].
  destruct (next_trace_spec ops s Hs Hb j vj rj Hj) as [-> ->]. lia.
Qed.

(* start values *)
Theorem fixed_first_value s0 : 0 <= s0 < 65536 -> snd (seq_next (new_fixed s0)) = s0.
Proof. intros H. unfold seq_next, new_fixed, u16. cbn [sq snd]. lia. Qed.

Theorem fixed_zero_rolls : roc (fst (seq_next (new_fixed 0))) = 1.
Proof. reflexivity. Qed.

Theorem random_first_value draw : 0 <= draw < max_initial_random ->
  1 <= snd (seq_next (new_random draw)) < 32768.
Proof. intros H. unfold seq_next, new_random, max_initial_random, u16 in *. cbn [sq snd]. lia. Qed.

Lemma new_fixed_sane s0 : sane (new_fixed s0).
Proof. unfold sane, new_fixed, u16. cbn [sq roc]. lia. Qed.
Lemma new_random_sane d : sane (new_random d).
Proof. unfold sane, new_random, u16. cbn [sq roc]. lia. Qed.

(* ---- interleavings ---- *)
(* A schedule is a list of (goroutine, operation): it is an interleaving of the per-goroutine
   programs [program g sched], and every interleaving of any programs is such a list. *)
Definition program (g : nat) (sched : list (nat * sop)) : list sop :=
  map snd (filter (fun x => Nat.eqb (fst x) g) sched).

(* the (value, rollover) pairs goroutine g received from its Next calls *)
Fixpoint received (g : nat) (s : seqr) (sched : list (nat * sop)) : list (Z * Z) :=
  match sched with
  | [] => []
  | (g', SNext) :: t => let '(s1, v) := seq_next s in
                        if Nat.eqb g' g then (v, roc s1) :: received g s1 t else received g s1 t
  | (_, SRoc) :: t => received g s t
  end.

Lemma received_in_trace g : forall sched s x, In x (received g s sched) ->
  exists i, nth_error (next_trace s (map snd sched)) i = Some x.
Proof.
  induction sched as [|[g' o] t IH]; intros s x Hin; [destruct Hin|].
  destruct o; cbn [received map next_trace] in *; cbn [snd] in *.
  - destruct (seq_next s) as [s1 v]. destruct (Nat.eqb g' g).
    + destruct Hin as [<-|Hin]; [exists O; reflexivity|].
      destruct (IH s1 x Hin) as [i Hi]. exists (S i). exact Hi.
    + destruct (IH s1 x Hin) as [i Hi]. exists (S i). exact Hi.
  - exact (IH s x Hin).
Qed.

(* under every schedule, two different Next calls (of the same or of different goroutines) never
   receive the same extended value *)
Theorem no_duplicates_across_goroutines : forall (sched : list (nat * sop)) s, sane s ->
  roc s + count_next (map snd sched) < 18446744073709551616 ->
  forall i j x y, i <> j ->
  nth_error (next_trace s (map snd sched)) i = Some x -> nth_error (next_trace s (map snd sched)) j = Some y ->
  snd x * 65536 + fst x <> snd y * 65536 + fst y.
Proof.
  intros sched s Hs Hb i j [vi ri] [vj rj] Hne Hi Hj. cbn [fst snd].
  destruct (Nat.lt_total i j) as [Hlt|[Heq|Hgt]]; [|contradiction|].
  - pose proof (extended_strictly_increasing _ s Hs Hb i j vi ri vj rj Hlt Hi Hj). lia.
  - pose proof (extended_strictly_increasing _ s Hs Hb j i vj rj vi ri Hgt Hj Hi). lia.
Qed.

(* ---- batches: a frame of n packets is n NextSequenceNumber steps ---- *)
Lemma seq_run_app : forall a b s,
  seq_run s (a ++ b) =
  let '(s1, r1) := seq_run s a in let '(s2, r2) := seq_run s1 b in (s2, r1 ++ r2).
Proof.
  induction a as [|o a IH]; intros b s; cbn [app seq_run].
  - destruct (seq_run s b) as [s2 r2]. reflexivity.
  - destruct (seq_step s o) as [s1 r]. rewrite IH.
    destruct (seq_run s1 a) as [s2 r1]. destruct (seq_run s2 b) as [s3 r2]. reflexivity.
Qed.

Lemma seq_take_run : forall n s, seq_take n s = seq_run s (repeat SNext n).
Proof.
  induction n as [|n IH]; intros s; cbn [seq_take repeat seq_run seq_step]; [reflexivity|].
  destruct (seq_next s) as [s1 v]. rewrite IH. reflexivity.
Qed.

Theorem batches_are_steps : forall l s,
  fst (seq_brun s l) = fst (seq_run s (flatten_bops l)) /\
  concat (snd (seq_brun s l)) = snd (seq_run s (flatten_bops l)).
Proof.
  induction l as [|b l IH]; intros s; [split; reflexivity|].
  destruct b as [o|n]; cbn [seq_brun flatten_bops flat_map].
  - change ([o] ++ flat_map _ l) with (o :: flatten_bops l). cbn [seq_run].
    destruct (seq_step s o) as [s1 r]. specialize (IH s1).
    destruct (seq_brun s1 l) as [s2 rs]. destruct (seq_run s1 (flatten_bops l)) as [s3 rs']. cbn in *.
    destruct IH as [-> <-]. split; reflexivity.
  - fold (flatten_bops l). rewrite seq_run_app, <- seq_take_run.
    destruct (seq_take n s) as [s1 vs]. specialize (IH s1).
    destruct (seq_brun s1 l) as [s2 rs]. destruct (seq_run s1 (flatten_bops l)) as [s3 rs']. cbn in *.
    destruct IH as [-> <-]. split; reflexivity.
Qed.
Lemma mod_shift_ne b d : 0 < d < 65536 -> b mod 65536 <> (b + d) mod 65536.
Proof.
  intros Hd He.
  pose proof (Z.div_mod b 65536 ltac:(lia)). pose proof (Z.div_mod (b + d) 65536 ltac:(lia)).
  pose proof (Z.mod_pos_bound b 65536 ltac:(lia)). pose proof (Z.mod_pos_bound (b + d) 65536 ltac:(lia)).
  assert (65536 * ((b + d) / 65536 - b / 65536) = d) by lia.
  assert ((b + d) / 65536 - b / 65536 <= 0 \/ 1 <= (b + d) / 65536 - b / 65536) as [K|K] by lia; nia.
Qed.

(* the 16-bit values themselves: any two Nexts fewer than 65536 issues apart receive different
   values, and two Nexts exactly 65536 issues apart receive the same value with rollover counts
   one apart - each 16-bit value exactly once per lap *)
Theorem window_distinct : forall ops s, sane s -> roc s + count_next ops < 18446744073709551616 ->
  forall i j vi ri vj rj, (i < j)%nat -> Z.of_nat j - Z.of_nat i < 65536 ->
  nth_error (next_trace s ops) i = Some (vi, ri) -> nth_error (next_trace s ops) j = Some (vj, rj) ->
  vi <> vj.
Proof.
  intros ops s Hs Hb i j vi ri vj rj Hij Hw Hi Hj.
  destruct (next_trace_spec ops s Hs Hb i vi ri Hi) as [Hvi _].
  destruct (next_trace_spec ops s Hs Hb j vj rj Hj) as [Hvj _].
  subst vi vj.
  replace (ext s + 1 + Z.of_nat j) with (ext s + 1 + Z.of_nat i + (Z.of_nat j - Z.of_nat i)) by lia.
  apply mod_shift_ne. lia.
Qed.

Theorem window_period : forall ops s, sane s -> roc s + count_next ops < 18446744073709551616 ->
  forall i j vi ri vj rj, Z.of_nat j = Z.of_nat i + 65536 ->
  nth_error (next_trace s ops) i = Some (vi, ri) -> nth_error (next_trace s ops) j = Some (vj, rj) ->
  vj = vi /\ rj = ri + 1.
Proof.
  intros ops s Hs Hb i j vi ri vj rj Hd Hi Hj.
  destruct (next_trace_spec ops s Hs Hb i vi ri Hi) as [Hvi Hri].
  destruct (next_trace_spec ops s Hs Hb j vj rj Hj) as [Hvj Hrj].
  subst vi ri vj rj. rewrite Hd.
  replace (ext s + 1 + (Z.of_nat i + 65536)) with (ext s + 1 + Z.of_nat i + 1 * 65536) by lia.
  rewrite Z.mod_add by lia. rewrite Z.div_add by lia. split; reflexivity.
Qed.
