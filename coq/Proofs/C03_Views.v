(* C03: the standalone one-byte and two-byte extension views read an RFC 8285 block exactly as
   Header.Unmarshal does: GetIDs lists the element ids in order, Get returns the value of the
   first element with that id. *)
From Coq Require Import ZArith List Lia Bool.
From Coq Require Import ZifyBool.
From RTP Require Import Base.Bits Base.Res Base.ListX Base.Bytes Base.Tactics Model.RtpPacket Model.HeaderExtViews Spec.Rfc8285
  Proofs.ExtLoop Proofs.ExtForm.
Import ListNotations.
Open Scope Z_scope.

Definition lookup (es : list ext) (id : Z) : option (list Z) :=
  match find (fun e => eid e =? id) es with Some e => Some (epayload e) | None => None end.

Lemma onebyte_ids_items : forall items fuel acc, Forall wf_item1 items ->
  (length (enc_items false items) < fuel)%nat ->
  onebyte_ids fuel (enc_items false items) acc = Ok (rev acc ++ map eid (elems items)).
Proof.
  induction items as [|it items IH]; intros fuel acc Hwf Hf; (destruct fuel; [cbn in Hf; lia|]).
  - cbn. rewrite app_nil_r. reflexivity.
  - apply Forall_cons_iff in Hwf as [Hit Hwf]. rewrite enc_items_cons in *. cbv beta iota in *.
    rewrite app_length in Hf. destruct it as [|id v].
    + cbn [enc_item1 app onebyte_ids length] in *. cbn [Z.eqb]. rewrite IH by (auto; lia). reflexivity.
    + destruct Hit as (Hid & Hlen & H0). destruct (onebyte_hdr_decode id (zlen v) Hid Hlen H0) as (Hnz & Hsh & Hl).
      cbn [enc_item1 app onebyte_ids length] in *. cbv zeta. rewrite Hsh, Hl.
      replace (id * 16 + (zlen v - 1) =? 0) with false by lia. replace (id =? 15) with false by lia.
      rewrite drop_app_exact. rewrite IH by (auto; lia).
      cbn [rev elems map eid]. rewrite <- app_assoc. reflexivity.
Qed.

Lemma onebyte_find_items : forall items fuel id, Forall wf_item1 items -> 1 <= id <= 14 ->
  (length (enc_items false items) < fuel)%nat ->
  onebyte_find fuel id (enc_items false items) = Ok (lookup (elems items) id).
Proof.
  induction items as [|it items IH]; intros fuel id Hwf Hidq Hf; (destruct fuel; [cbn in Hf; lia|]).
  - reflexivity.
  - apply Forall_cons_iff in Hwf as [Hit Hwf]. rewrite enc_items_cons in *. cbv beta iota in *.
    rewrite app_length in Hf. destruct it as [|i v].
    + cbn [enc_item1 app onebyte_find length] in *. cbn [Z.eqb]. rewrite IH by (auto; lia). reflexivity.
    + destruct Hit as (Hid & Hlen & H0). destruct (onebyte_hdr_decode i (zlen v) Hid Hlen H0) as (Hnz & Hsh & Hl).
      cbn [enc_item1 app onebyte_find length] in *. cbv zeta. rewrite Hsh, Hl.
      replace (i * 16 + (zlen v - 1) =? 0) with false by lia. replace (i =? 15) with false by lia.
      unfold lookup. cbn [elems find eid].
      destruct (i =? id) eqn:E.
      * rewrite zlen_app. pose proof (zlen_nonneg (enc_items false items)).
        replace (zlen v + zlen (enc_items false items) <? zlen v) with false by lia.
        rewrite take_app_exact. reflexivity.
      * rewrite drop_app_exact. rewrite IH by (auto; lia). reflexivity.
Qed.

Lemma twobyte_ids_items : forall items fuel acc, Forall wf_item2 items ->
  (length (enc_items true items) < fuel)%nat ->
  twobyte_ids fuel (enc_items true items) acc = Ok (rev acc ++ map eid (elems items)).
Proof.
  induction items as [|it items IH]; intros fuel acc Hwf Hf; (destruct fuel; [cbn in Hf; lia|]).
  - cbn. rewrite app_nil_r. reflexivity.
  - apply Forall_cons_iff in Hwf as [Hit Hwf]. rewrite enc_items_cons in *. cbv beta iota in *.
    rewrite app_length in Hf. destruct it as [|id v].
    + cbn [enc_item2 app twobyte_ids length] in *. cbn [Z.eqb]. rewrite IH by (auto; lia). reflexivity.
    + destruct Hit as [Hid Hlen].
      cbn [enc_item2 app twobyte_ids length] in *. replace (id =? 0) with false by lia.
      rewrite drop_app_exact. rewrite IH by (auto; lia).
      cbn [rev elems map eid]. rewrite <- app_assoc. reflexivity.
Qed.

Lemma twobyte_find_items : forall items fuel id, Forall wf_item2 items -> 1 <= id <= 255 ->
  (length (enc_items true items) < fuel)%nat ->
  twobyte_find fuel id (enc_items true items) = Ok (lookup (elems items) id).
Proof.
  induction items as [|it items IH]; intros fuel id Hwf Hidq Hf; (destruct fuel; [cbn in Hf; lia|]).
  - reflexivity.
  - apply Forall_cons_iff in Hwf as [Hit Hwf]. rewrite enc_items_cons in *. cbv beta iota in *.
    rewrite app_length in Hf. destruct it as [|i v].
    + cbn [enc_item2 app twobyte_find length] in *. cbn [Z.eqb]. rewrite IH by (auto; lia). reflexivity.
    + destruct Hit as [Hid Hlen].
      cbn [enc_item2 app twobyte_find length] in *. replace (i =? 0) with false by lia.
      unfold lookup. cbn [elems find eid].
      destruct (i =? id) eqn:E.
      * rewrite zlen_app. pose proof (zlen_nonneg (enc_items true items)).
        replace (zlen v + zlen (enc_items true items) <? zlen v) with false by lia.
        rewrite take_app_exact. reflexivity.
      * rewrite drop_app_exact. rewrite IH by (auto; lia). reflexivity.
Qed.

(* the views hold the whole extension, 4-byte profile/length header included *)
Theorem onebyte_view_agrees a b items id : Forall wf_item1 items -> 1 <= id <= 14 ->
  let buf := 190 :: 222 :: a :: b :: enc_items false items in
  onebyte_unmarshal buf = Ok buf /\
  onebyte_get_ids buf = Ok (map eid (elems items)) /\
  onebyte_get buf id = Ok (lookup (elems items) id).
Proof.
  intros Hwf Hid buf. split; [reflexivity|]. split.
  - unfold onebyte_get_ids, buf. rewrite !zlen_cons. pose proof (zlen_nonneg (enc_items false items)).
    replace (1 + (1 + (1 + (1 + zlen (enc_items false items)))) <? 4) with false by lia.
    change (drop 4 (190 :: 222 :: a :: b :: enc_items false items)) with (enc_items false items).
    rewrite onebyte_ids_items by (auto; cbn [length]; lia). reflexivity.
  - unfold onebyte_get, buf.
    change (drop 4 (190 :: 222 :: a :: b :: enc_items false items)) with (enc_items false items).
    apply onebyte_find_items; auto. cbn [length]. lia.
Qed.

(* ---- the reserved id 15 (RFC 8285 4.2: processing of the entire extension MUST terminate there):
   whatever follows it in the block - [rest] is any byte string, [nib] any length nibble - both
   walks of the view report the elements in front of it and nothing else ---- *)
Lemma reserved_byte nib : 0 <= nib < 16 -> (240 + nib =? 0) = false /\ Z.shiftr (240 + nib) 4 = 15.
Proof.
  intros H. split; [lia|]. rewrite Z.shiftr_div_pow2 by lia. change (2 ^ 4) with 16.
  symmetry. apply (Z.div_unique (240 + nib) 16 15 nib); lia.
Qed.

Lemma onebyte_ids_items_reserved : forall items fuel acc nib rest, Forall wf_item1 items -> 0 <= nib < 16 ->
  (length (enc_items false items) + length rest + 1 < fuel)%nat ->
  onebyte_ids fuel (enc_items false items ++ (240 + nib) :: rest) acc = Ok (rev acc ++ map eid (elems items)).
Proof.
  induction items as [|it items IH]; intros fuel acc nib rest Hwf Hn Hf; (destruct fuel; [cbn in Hf; lia|]).
  - destruct (reserved_byte nib Hn) as [Hz Hs]. cbn [enc_items concat map app onebyte_ids]. rewrite Hz. cbv zeta. rewrite Hs.
    cbn [Z.eqb Pos.eqb]. cbn [elems map]. rewrite app_nil_r. reflexivity.
  - apply Forall_cons_iff in Hwf as [Hit Hwf]. rewrite enc_items_cons in *. cbv beta iota in *.
    rewrite app_length in Hf. rewrite <- app_assoc. destruct it as [|id v].
    + cbn [enc_item1 app onebyte_ids length] in *. cbn [Z.eqb]. rewrite IH by (auto; lia). reflexivity.
    + destruct Hit as (Hid & Hlen & H0). destruct (onebyte_hdr_decode id (zlen v) Hid Hlen H0) as (Hnz & Hsh & Hl).
      cbn [enc_item1 app onebyte_ids length] in *. cbv zeta. rewrite Hsh, Hl.
      replace (id * 16 + (zlen v - 1) =? 0) with false by lia. replace (id =? 15) with false by lia.
      rewrite drop_app_exact. rewrite IH by (auto; rewrite ?app_length in *; lia).
      cbn [rev elems map eid]. rewrite <- app_assoc. reflexivity.
Qed.

Lemma onebyte_find_items_reserved : forall items fuel id nib rest, Forall wf_item1 items -> 1 <= id <= 14 -> 0 <= nib < 16 ->
  (length (enc_items false items) + length rest + 1 < fuel)%nat ->
  onebyte_find fuel id (enc_items false items ++ (240 + nib) :: rest) = Ok (lookup (elems items) id).
Proof.
  induction items as [|it items IH]; intros fuel id nib rest Hwf Hidq Hn Hf; (destruct fuel; [cbn in Hf; lia|]).
  - destruct (reserved_byte nib Hn) as [Hz Hs]. cbn [enc_items concat map app onebyte_find]. rewrite Hz. cbv zeta. rewrite Hs.
    reflexivity.
  - apply Forall_cons_iff in Hwf as [Hit Hwf]. rewrite enc_items_cons in *. cbv beta iota in *.
    rewrite app_length in Hf. rewrite <- app_assoc. destruct it as [|i v].
    + cbn [enc_item1 app onebyte_find length] in *. cbn [Z.eqb]. rewrite IH by (auto; lia). reflexivity.
    + destruct Hit as (Hid & Hlen & H0). destruct (onebyte_hdr_decode i (zlen v) Hid Hlen H0) as (Hnz & Hsh & Hl).
      cbn [enc_item1 app onebyte_find length] in *. cbv zeta. rewrite Hsh, Hl.
      replace (i * 16 + (zlen v - 1) =? 0) with false by lia. replace (i =? 15) with false by lia.
      unfold lookup. cbn [elems find eid].
      destruct (i =? id) eqn:E.
      * rewrite zlen_app. pose proof (zlen_nonneg (enc_items false items ++ (240 + nib) :: rest)).
        replace (zlen v + zlen (enc_items false items ++ (240 + nib) :: rest) <? zlen v) with false by lia.
        rewrite take_app_exact. reflexivity.
      * rewrite drop_app_exact. rewrite IH by (auto; rewrite ?app_length in *; lia). reflexivity.
Qed.

Theorem onebyte_view_reserved a b items nib rest id : Forall wf_item1 items -> 1 <= id <= 14 -> 0 <= nib < 16 ->
  let buf := 190 :: 222 :: a :: b :: enc_items false items ++ (240 + nib) :: rest in
  onebyte_unmarshal buf = Ok buf /\
  onebyte_get_ids buf = Ok (map eid (elems items)) /\
  onebyte_get buf id = Ok (lookup (elems items) id).
Proof.
  intros Hwf Hid Hn buf. split; [reflexivity|]. split.
  - unfold onebyte_get_ids, buf. rewrite !zlen_cons. pose proof (zlen_nonneg (enc_items false items ++ (240 + nib) :: rest)).
    replace (1 + (1 + (1 + (1 + zlen (enc_items false items ++ (240 + nib) :: rest)))) <? 4) with false by lia.
    change (drop 4 (190 :: 222 :: a :: b :: enc_items false items ++ (240 + nib) :: rest)) with (enc_items false items ++ (240 + nib) :: rest).
    rewrite onebyte_ids_items_reserved by (auto; cbn [length]; rewrite app_length; cbn [length]; lia). reflexivity.
  - unfold onebyte_get, buf.
    change (drop 4 (190 :: 222 :: a :: b :: enc_items false items ++ (240 + nib) :: rest)) with (enc_items false items ++ (240 + nib) :: rest).
    apply onebyte_find_items_reserved; auto. cbn [length]. rewrite app_length. cbn [length]. lia.
Qed.

Lemma be16_two_byte ab : 0 <= ab < 16 -> ext_form (be16 16 ab) = profile_two_byte.
Proof.
  intros H. unfold be16. change (Z.shiftl 16 8) with 4096. rewrite (lor_add_small 4096 ab 12) by (try reflexivity; lia).
  apply (ext_form_two ab H).
Qed.

(* appbits: the low four bits of the two-byte profile, which a receiver ignores *)
Theorem twobyte_view_agrees ab a b items id : 0 <= ab < 16 -> Forall wf_item2 items -> 1 <= id <= 255 ->
  let buf := 16 :: ab :: a :: b :: enc_items true items in
  twobyte_unmarshal buf = Ok buf /\
  twobyte_get_ids buf = Ok (map eid (elems items)) /\
  twobyte_get buf id = Ok (lookup (elems items) id).
Proof.
  intros Hab Hwf Hid buf. split.
  { unfold twobyte_unmarshal, view_profile, buf. rewrite (be16_two_byte ab Hab), Z.eqb_refl. reflexivity. }
  split.
  - unfold twobyte_get_ids, buf. rewrite !zlen_cons. pose proof (zlen_nonneg (enc_items true items)).
    replace (1 + (1 + (1 + (1 + zlen (enc_items true items)))) <? 4) with false by lia.
    change (drop 4 (16 :: ab :: a :: b :: enc_items true items)) with (enc_items true items).
    rewrite twobyte_ids_items by (auto; cbn [length]; lia). reflexivity.
  - unfold twobyte_get, buf.
    change (drop 4 (16 :: ab :: a :: b :: enc_items true items)) with (enc_items true items).
    apply twobyte_find_items; auto. cbn [length]. lia.
Qed.

(* ... which is what the accessors of the decoded Header report *)
Lemma header_lookup h id : extension h = true -> get_extension h id = lookup (extensions h) id.
Proof. intros Hx. unfold get_extension, lookup. rewrite Hx. reflexivity. Qed.

(* the raw (RFC 3550) view: any block whose profile is neither 0xBEDE nor 0x1000 is kept as the
   byte string handed to Unmarshal, under the single id 0; the RFC 8285 views refuse it *)
Theorem raw_view p0 p1 rest id : 0 <= p0 < 256 -> 0 <= p1 < 256 ->
  be16 p0 p1 <> profile_one_byte -> ext_form (be16 p0 p1) <> profile_two_byte ->
  let buf := p0 :: p1 :: rest in
  raw_unmarshal buf = Ok buf /\ raw_get_ids buf = [0] /\
  raw_get buf id = (if id =? 0 then Some buf else None) /\
  onebyte_unmarshal buf = Err ENotFound /\ twobyte_unmarshal buf = Err ENotFound.
Proof.
  intros H0 H1 Hn1 Hn2 buf. unfold raw_unmarshal, onebyte_unmarshal, twobyte_unmarshal, view_profile, buf.
  replace (be16 p0 p1 =? profile_one_byte) with false by lia.
  replace (ext_form (be16 p0 p1) =? profile_two_byte) with false by lia. repeat split.
Qed.

(* and the other way round: an RFC 8285 block is refused by the raw view *)
Theorem raw_view_refuses_8285 ab a b rest : 0 <= ab < 16 ->
  raw_unmarshal (190 :: 222 :: a :: b :: rest) = Err ENotFound /\
  raw_unmarshal (16 :: ab :: a :: b :: rest) = Err ENotFound.
Proof.
  intros Hab. split; [reflexivity|]. unfold raw_unmarshal, view_profile.
  rewrite (be16_two_byte ab Hab), Z.eqb_refl. apply orb_true_r || (rewrite orb_true_r; reflexivity).
Qed.

(* every view re-serialises what it holds byte-identically: Marshal is the stored buffer, MarshalTo
   writes exactly those bytes in front of the untouched rest of a sufficient destination and
   refuses a shorter one, MarshalSize is the length *)
Theorem view_marshal_identity payload dst :
  (zlen payload <= zlen dst ->
     view_marshal_to payload dst = Ok (payload ++ drop (zlen payload) dst, zlen payload)) /\
  (zlen dst < zlen payload -> view_marshal_to payload dst = Err EShortBuffer).
Proof.
  unfold view_marshal_to. split; intros H.
  - replace (zlen dst <? zlen payload) with false by lia. reflexivity.
  - replace (zlen dst <? zlen payload) with true by lia. reflexivity.
Qed.
