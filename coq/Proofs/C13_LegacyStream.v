(* C13, the deprecated receive path in general: AV1Packet.Unmarshal splits the wire image of a
   structured packet into exactly its elements, and frame.AV1.ReadFrames glues them as the
   aggregation-header semantics [glue] says - fragments across packets included. *)
From Coq Require Import ZArith List Lia Bool.
From Coq Require Import ZifyBool.
From RTP Require Import Base.Bits Base.Res Base.ListX Base.Tactics Model.Leb128 Model.Obu Model.Av1Legacy Model.Av1Pay
  Spec.Av1Rtp Proofs.Leb128Proofs Proofs.C13_Stream Proofs.C13_PayStream Proofs.C13_Lossless.
Import ListNotations.
Open Scope Z_scope.

Lemma av1p_body_gen : forall es fuel (w : bool) wv i acc, es <> [] -> Forall elem_ok es ->
  (w = true -> wv = i + zlen es - 1) -> (w = false -> wv = 0) -> 1 <= i ->
  (length (enc_elems w es) < fuel)%nat ->
  av1p_body fuel wv (enc_elems w es) i acc = Ok (rev acc ++ es).
Proof.
  induction es as [|e t IH]; intros fuel w wv i acc Hne Hall Hw1 Hw0 Hi Hf; [congruence|].
  apply Forall_cons_iff in Hall as [He Hall]. pose proof (elem_ok_len e He) as Hel.
  pose proof (enc_elems_nonempty w e t He) as Hnn.
  destruct fuel as [|fuel]; [lia|].
  cbn [av1p_body]. remember (enc_elems w (e :: t)) as wl eqn:Ewl. destruct wl as [|x0 l0]; [congruence|].
  rewrite Ewl in *. clear Ewl x0 l0.
  destruct t as [|e2 t'].
  - change (zlen [e]) with 1 in *. cbn [enc_elems] in *. destruct w.
    + specialize (Hw1 eq_refl). replace (negb (wv =? 0) && (i =? wv)) with true by lia.
      cbn [rev]. reflexivity.
    + specialize (Hw0 eq_refl). subst wv. cbn [negb andb Z.eqb].
      rewrite (leb128_roundtrip (zlen e) e ltac:(lia)). rewrite drop_app_exact.
      replace (zlen e <? zlen e) with false by lia.
      rewrite (take_all (zlen e) e), (drop_all (zlen e) e) by lia.
      destruct fuel as [|fuel]; [rewrite app_length in Hf; pose proof (leb_nonempty (zlen e) ltac:(lia)); destruct e; [destruct He; congruence|cbn [length] in Hf; lia]|].
      cbn [av1p_body rev]. reflexivity.
  - set (t := e2 :: t') in *.
    assert (He2 : elem_ok e2) by (apply Forall_cons_iff in Hall as [H _]; exact H).
    change (enc_elems w (e :: t)) with (write_leb128 (zlen e) ++ e ++ enc_elems w t) in *.
    assert (Hzt : 1 <= zlen t) by (unfold t; rewrite zlen_cons; pose proof (zlen_nonneg t'); lia).
    rewrite zlen_cons in *.
    replace (negb (wv =? 0) && (i =? wv)) with false by (destruct w; [specialize (Hw1 eq_refl)|specialize (Hw0 eq_refl)]; lia).
    rewrite (leb128_roundtrip (zlen e) (e ++ enc_elems w t) ltac:(lia)). rewrite drop_app_exact, zlen_app.
    pose proof (zlen_nonneg (enc_elems w t)).
    replace (zlen e + zlen (enc_elems w t) <? zlen e) with false by lia.
    rewrite take_app_exact, drop_app_exact.
    rewrite (IH fuel w wv (i + 1) (e :: acc) ltac:(discriminate) Hall
               ltac:(intros H1; specialize (Hw1 H1); lia) Hw0 ltac:(lia)
               ltac:(rewrite !app_length in Hf; pose proof (leb_nonempty (zlen e) ltac:(lia)); lia)).
    cbn [rev]. rewrite <- app_assoc. reflexivity.
Qed.

Lemma legacy_hdr_bits (z y n : bool) wv : 0 <= wv <= 3 ->
  let h := (if z then 128 else 0) + (if y then 64 else 0) + wv * 16 + (if n then 8 else 0) in
  negb (Z.shiftr (Z.land h 128) 7 =? 0) = z /\ negb (Z.shiftr (Z.land h 64) 6 =? 0) = y /\
  negb (Z.shiftr (Z.land h 8) 3 =? 0) = n /\ Z.shiftr (Z.land h 48) 4 = wv.
Proof.
  intros Hw. assert (C : wv = 0 \/ wv = 1 \/ wv = 2 \/ wv = 3) by lia.
  destruct C as [->|[->|[->| ->]]]; destruct z, y, n; repeat split; reflexivity.
Qed.

(* AV1Packet on a fresh receiver: exactly the elements, and the four header fields *)
Theorem av1p_packet p : wf_spk p ->
  av1p_unmarshal (mkAv1Pkt false false 0 false None) (Some (spk_bytes p))
  = (mkAv1Pkt (sp_z p) (sp_y p) (wcount p) (sp_n p) (Some (sp_elems p)), Ok (enc_elems (sp_w p) (sp_elems p))).
Proof.
  intros (Hne & Hall & Hw3 & Hnz). unfold av1p_unmarshal, spk_bytes.
  destruct (sp_elems p) as [|e t] eqn:Ees; [congruence|].
  assert (He : elem_ok e) by (apply Forall_cons_iff in Hall as [H _]; exact H).
  pose proof (enc_elems_nonempty (sp_w p) e t He) as Hnn.
  remember (enc_elems (sp_w p) (e :: t)) as wl eqn:Ewl. destruct wl as [|x0 l0]; [congruence|].
  rewrite Ewl in *. clear Ewl x0 l0.
  assert (Hwc : wcount p = if sp_w p then zlen (e :: t) else 0) by (unfold wcount; rewrite Ees; reflexivity).
  assert (Hwv : 0 <= wcount p <= 3).
  { rewrite Hwc. destruct (sp_w p); [|lia]. specialize (Hw3 eq_refl). rewrite zlen_cons in *. pose proof (zlen_nonneg t). lia. }
  rewrite spk_hdr_eq.
  destruct (legacy_hdr_bits (sp_z p) (sp_y p) (sp_n p) (wcount p) Hwv) as (Bz & By & Bn & Bw). cbv zeta in Bz, By, Bn, Bw.
  rewrite Bz, By, Bn, Bw. cbn [ap_elems].
  replace (sp_z p && sp_n p) with false by (destruct (sp_n p) eqn:E; [rewrite (Hnz eq_refl); reflexivity|destruct (sp_z p); reflexivity]).
  rewrite (av1p_body_gen (e :: t) (S (length (enc_elems (sp_w p) (e :: t)))) (sp_w p) (wcount p) 1 [] ltac:(discriminate) Hall
             ltac:(intros H; rewrite Hwc, H; lia) ltac:(intros H; rewrite Hwc, H; reflexivity) ltac:(lia) ltac:(lia)).
  reflexivity.
Qed.

Definition optb (b : list Z) : option (list Z) := match b with [] => None | _ => Some b end.

(* frame.AV1.ReadFrames = the packet semantics *)
Theorem read_frames_run p b wv : sp_elems p <> [] -> Forall (fun e => e <> []) (sp_elems p) ->
  (sp_z p = true <-> b <> []) ->
  let r := run_elems (sp_z p) (sp_y p) true (if sp_z p then b else []) (sp_elems p) in
  read_frames (optb b) (mkAv1Pkt (sp_z p) (sp_y p) wv (sp_n p) (Some (sp_elems p))) = (optb (fst r), snd r).
Proof.
  intros Hne Hall Hz. cbv zeta. destruct (sp_elems p) as [|e t] eqn:Ee; [congruence|].
  rewrite run_elems_char by (intros H; rewrite H; reflexivity).
  unfold read_frames. cbn [ap_elems ap_z ap_y].
  set (u := (if sp_z p then (if sp_z p then b else []) ++ e else e) :: t).
  assert (Hune : Forall (fun x => x <> []) u).
  { unfold u. apply Forall_cons_iff in Hall as [He Ht]. constructor; [|exact Ht].
    destruct (sp_z p); [intros H; apply app_eq_nil in H as [_ H]; congruence|exact He]. }
  assert (Hfirst : (if sp_z p then match optb b with None => (None, t) | Some b0 => (None, (b0 ++ e) :: t) end
                    else (optb b, e :: t)) = (@None (list Z), u)).
  { unfold u. destruct (sp_z p) eqn:Ezp.
    - assert (b <> []) by (apply Hz; reflexivity). destruct b as [|b0 bt]; [congruence|]. reflexivity.
    - assert (b = []). { destruct b; [reflexivity|]. assert (false = true) by (apply Hz; discriminate). discriminate. }
      subst b. reflexivity. }
  rewrite Hfirst.
  destruct (sp_y p); cbn [fst snd].
  - assert (Hu : u = removelast u ++ [last u []]) by (apply app_removelast_last; unfold u; discriminate).
    assert (Hl : last u [] <> []).
    { rewrite Hu in Hune. apply Forall_app in Hune as [_ Hune]. apply Forall_cons_iff in Hune as [H _]. exact H. }
    rewrite Hu at 1. rewrite rev_app_distr. cbn [rev app]. rewrite rev_involutive.
    destruct (last u []) as [|l0 lt] eqn:El; [congruence|]. reflexivity.
  - reflexivity.
Qed.

(* a whole packet sequence through AV1Packet (a fresh one per packet) and one frame assembler *)
Fixpoint legacy_run (buffer : option (list Z)) (ps : list (list Z)) : option (option (list Z) * list (list Z)) :=
  match ps with
  | [] => Some (buffer, [])
  | p :: t =>
    match av1p_unmarshal (mkAv1Pkt false false 0 false None) (Some p) with
    | (pkt, Ok _) =>
      let '(b1, obus) := read_frames buffer pkt in
      match legacy_run b1 t with
      | Some (b2, obus2) => Some (b2, obus ++ obus2)
      | None => None
      end
    | _ => None
    end
  end.

Theorem legacy_run_stream : forall pks pending b, chain_ok pending pks -> (pending = true <-> b <> []) ->
  legacy_run (optb b) (map spk_bytes pks) = Some (optb (snd (glue b pks)), fst (glue b pks)).
Proof.
  induction pks as [|p t IH]; intros pending b Hch Hpb; [reflexivity|].
  destruct Hch as (Hwf & Hz & Hch). cbn [map legacy_run glue].
  rewrite (av1p_packet p Hwf).
  destruct Hwf as (Hne & Hall & _).
  assert (Hnn : Forall (fun e => e <> []) (sp_elems p)) by (eapply Forall_impl; [|exact Hall]; intros e [H _]; exact H).
  pose proof (read_frames_run p b (wcount p) Hne Hnn ltac:(rewrite Hz; exact Hpb)) as Hrf. cbv zeta in Hrf.
  rewrite Hrf.
  set (r := run_elems (sp_z p) (sp_y p) true (if sp_z p then b else []) (sp_elems p)) in *.
  pose proof (run_elems_pending (sp_elems p) (sp_z p) (sp_y p) true (if sp_z p then b else []) Hne Hall
                ltac:(intros [H|H]; [discriminate|rewrite H; reflexivity])) as [Hy1 Hy0]. fold r in Hy1, Hy0.
  rewrite (IH (sp_y p) (fst r) Hch).
  - destruct (glue (fst r) t) as [os2 bf]. reflexivity.
  - split; [exact Hy1|]. intros H. destruct (sp_y p); [reflexivity|]. specialize (Hy0 eq_refl). congruence.
Qed.

(* end to end: payloader output through the deprecated path gives the transmitted OBUs (as sent:
   without size fields), in order, with nothing left pending *)
Theorem av1_lossless_legacy mtu obus : 2 <= mtu < 2097152 -> Forall wf_iobu obus ->
  exists pkts, av1_payload mtu (stream obus) = Ok pkts /\
    legacy_run None pkts = Some (None, map io_elem (filter transmitted obus)).
Proof.
  intros Hm Hall.
  destruct (av1_lossless mtu obus (Av1Depack.mkAv1Dep [] false false false) Hm Hall) as (pks & outs & Hpay & Hchain & _ & Hglue & _).
  exists (map spk_bytes pks). split; [exact Hpay|].
  pose proof (legacy_run_stream pks false [] Hchain ltac:(split; [discriminate|congruence])) as H.
  cbn [optb] in H. rewrite H, Hglue. reflexivity.
Qed.
