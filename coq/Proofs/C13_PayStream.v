(* C13, the payloader against the aggregation-header semantics: the packets AV1Payloader builds are
   the encodings of structured packets [spk] whose elements, glued along the continuation flags,
   are exactly the OBUs handed to appendOBUPayload, in order.  Part 1: packet algebra and the
   fragment loop. *)
From Coq Require Import ZArith List Lia Bool.
From Coq Require Import ZifyBool.
From RTP Require Import Base.Bits Base.Res Base.ListX Base.Tactics Model.Leb128 Model.Obu Model.Av1Pay Model.Av1Depack
  Proofs.Leb128Proofs Proofs.C08_Av1 Proofs.C13_Stream.
Import ListNotations.
Open Scope Z_scope.

(* packets oldest first; the payloader keeps their encodings newest first *)
Definition bytes_of (pks : list spk) : list (list Z) := rev (map spk_bytes pks).

Lemma bytes_of_snoc pks p : bytes_of (pks ++ [p]) = spk_bytes p :: bytes_of pks.
Proof. unfold bytes_of. rewrite map_app, rev_app_distr. reflexivity. Qed.

Definition with_y (p : spk) : spk := mkSpk (sp_z p) true (sp_n p) (sp_w p) (sp_elems p).
Definition add_pref (p : spk) (a : list Z) : spk := mkSpk (sp_z p) (sp_y p) (sp_n p) false (sp_elems p ++ [a]).
Definition add_last (p : spk) (a : list Z) : spk := mkSpk (sp_z p) (sp_y p) (sp_n p) true (sp_elems p ++ [a]).

Lemma enc_false_snoc : forall es a, enc_elems false (es ++ [a]) = enc_elems false es ++ write_leb128 (zlen a) ++ a.
Proof.
  induction es as [|e t IH]; intros a; [reflexivity|].
  destruct t as [|e2 t'].
  - cbn [app enc_elems]. rewrite <- !app_assoc. reflexivity.
  - change ((e :: e2 :: t') ++ [a]) with (e :: (e2 :: t') ++ [a]).
    remember ((e2 :: t') ++ [a]) as r eqn:Er. destruct r as [|r1 rt]; [destruct t'; discriminate|].
    change (enc_elems false (e :: r1 :: rt)) with (write_leb128 (zlen e) ++ e ++ enc_elems false (r1 :: rt)).
    rewrite Er, IH.
    change (enc_elems false (e :: e2 :: t')) with (write_leb128 (zlen e) ++ e ++ enc_elems false (e2 :: t')).
    rewrite <- !app_assoc. reflexivity.
Qed.

Lemma enc_true_snoc : forall es a, enc_elems true (es ++ [a]) = enc_elems false es ++ a.
Proof.
  induction es as [|e t IH]; intros a; [reflexivity|].
  destruct t as [|e2 t'].
  - cbn [app enc_elems]. rewrite <- !app_assoc. reflexivity.
  - change ((e :: e2 :: t') ++ [a]) with (e :: (e2 :: t') ++ [a]).
    remember ((e2 :: t') ++ [a]) as r eqn:Er. destruct r as [|r1 rt]; [destruct t'; discriminate|].
    change (enc_elems true (e :: r1 :: rt)) with (write_leb128 (zlen e) ++ e ++ enc_elems true (r1 :: rt)).
    rewrite Er, IH.
    change (enc_elems false (e :: e2 :: t')) with (write_leb128 (zlen e) ++ e ++ enc_elems false (e2 :: t')).
    rewrite <- !app_assoc. reflexivity.
Qed.

(* header arithmetic: the flag bits the payloader ORs in *)
Lemma hdr_lor_y (z n : bool) k : 0 <= k <= 3 ->
  Z.lor ((if z then 128 else 0) + 0 + k * 16 + (if n then 8 else 0)) 64
  = (if z then 128 else 0) + 64 + k * 16 + (if n then 8 else 0).
Proof.
  intros Hk. assert (C : k = 0 \/ k = 1 \/ k = 2 \/ k = 3) by lia.
  destruct C as [->|[->|[->| ->]]]; destruct z, n; reflexivity.
Qed.

Lemma hdr_lor_w (z y n : bool) c : 0 <= c <= 2 ->
  Z.lor ((if z then 128 else 0) + (if y then 64 else 0) + 0 + (if n then 8 else 0)) (Z.land (u8 (Z.shiftl (c + 1) 4)) 48)
  = (if z then 128 else 0) + (if y then 64 else 0) + (c + 1) * 16 + (if n then 8 else 0).
Proof.
  intros Hc. assert (C : c = 0 \/ c = 1 \/ c = 2) by lia.
  destruct C as [->|[->| ->]]; destruct z, y, n; reflexivity.
Qed.

Definition wcount (p : spk) : Z := if sp_w p then zlen (sp_elems p) else 0.

Lemma spk_hdr_eq p : spk_hdr p = (if sp_z p then 128 else 0) + (if sp_y p then 64 else 0) + wcount p * 16 + (if sp_n p then 8 else 0).
Proof. unfold spk_hdr, wcount. destruct (sp_w p); lia. Qed.

Lemma set_y_bytes p : sp_y p = false -> 0 <= wcount p <= 3 ->
  set_hdr (fun h => Z.lor h 64) (spk_bytes p) = spk_bytes (with_y p).
Proof.
  intros Hy Hk. unfold spk_bytes. cbn [set_hdr]. f_equal.
  rewrite !spk_hdr_eq. unfold with_y, wcount in *. cbn [sp_z sp_y sp_n sp_w sp_elems]. rewrite Hy.
  apply hdr_lor_y. exact Hk.
Qed.

Lemma add_pref_bytes p a : sp_w p = false ->
  spk_bytes p ++ write_leb128 (zlen a) ++ a = spk_bytes (add_pref p a).
Proof.
  intros Hw. unfold spk_bytes, add_pref. cbn [sp_w sp_elems]. rewrite Hw, enc_false_snoc. cbn [app]. f_equal.
  unfold spk_hdr. cbn [sp_z sp_y sp_n sp_w sp_elems]. rewrite Hw. reflexivity.
Qed.

Lemma add_last_bytes p a : sp_w p = false -> 0 <= zlen (sp_elems p) <= 2 ->
  set_hdr (fun h => Z.lor h (Z.land (u8 (Z.shiftl (zlen (sp_elems p) + 1) 4)) 48)) (spk_bytes p) ++ a
  = spk_bytes (add_last p a).
Proof.
  intros Hw Hc. unfold spk_bytes, add_last. cbn [set_hdr sp_w sp_elems]. rewrite Hw, enc_true_snoc. cbn [app]. f_equal.
  rewrite !spk_hdr_eq. unfold wcount. cbn [sp_z sp_y sp_n sp_w sp_elems]. rewrite Hw.
  rewrite zlen_app. change (zlen [a]) with 1. apply hdr_lor_w. exact Hc.
Qed.

(* ---- gluing by the Z flag: OBUs newest first ---- *)
Definition merge (acc : list (list Z)) (p : spk) : list (list Z) :=
  match sp_z p, acc, sp_elems p with
  | true, last :: acc', e :: es => rev es ++ (last ++ e) :: acc'
  | _, _, es => rev es ++ acc
  end.

Definition glue_z (pks : list spk) : list (list Z) := fold_left merge pks [].

Lemma glue_z_snoc pks p : glue_z (pks ++ [p]) = merge (glue_z pks) p.
Proof. unfold glue_z. rewrite fold_left_app. reflexivity. Qed.

Lemma merge_add acc p a z y n w w' : sp_elems p <> [] \/ sp_z p = false ->
  merge acc (mkSpk (sp_z p) y n w' (sp_elems p ++ [a])) = a :: merge acc (mkSpk (sp_z p) z n w (sp_elems p)).
Proof.
  intros H. unfold merge. cbn [sp_z sp_elems].
  destruct (sp_z p) eqn:Ez.
  - destruct H as [H|H]; [|discriminate]. destruct (sp_elems p) as [|e es]; [congruence|].
    cbn [app]. destruct acc as [|last acc'].
    + change (e :: es ++ [a]) with ((e :: es) ++ [a]). rewrite rev_app_distr. reflexivity.
    + rewrite rev_app_distr. reflexivity.
  - rewrite rev_app_distr. reflexivity.
Qed.

Lemma merge_same acc p q : sp_z p = sp_z q -> sp_elems p = sp_elems q -> merge acc p = merge acc q.
Proof. intros Hz He. unfold merge. rewrite Hz, He. reflexivity. Qed.

Lemma merge_snoc acc p q a : sp_z q = sp_z p -> sp_elems q = sp_elems p ++ [a] ->
  sp_elems p <> [] \/ sp_z p = false -> merge acc q = a :: merge acc p.
Proof.
  intros Hz He H. unfold merge. rewrite Hz, He.
  destruct (sp_z p) eqn:Ez.
  - destruct H as [H|H]; [|discriminate]. destruct (sp_elems p) as [|e es]; [congruence|].
    cbn [app]. destruct acc as [|last acc'].
    + change (e :: es ++ [a]) with ((e :: es) ++ [a]). rewrite rev_app_distr. reflexivity.
    + rewrite rev_app_distr. reflexivity.
  - rewrite rev_app_distr. reflexivity.
Qed.

(* ---- the structural invariant ---- *)
Record ok_pk (mtu : Z) (p : spk) : Prop := mkOkPk {
  ok_elems : sp_elems p <> [];
  ok_ne : Forall (fun e => e <> []) (sp_elems p);
  ok_w : sp_w p = true -> zlen (sp_elems p) <= 3;
  ok_n : sp_n p = true -> sp_z p = false;
  ok_len : zlen (spk_bytes p) <= mtu }.

(* each packet's Z is the Y of the packet before it *)
Fixpoint chained (prev_y : bool) (pks : list spk) : Prop :=
  match pks with [] => True | p :: t => sp_z p = prev_y /\ chained (sp_y p) t end.

Definition last_y (pks : list spk) : bool := match rev pks with p :: _ => sp_y p | [] => false end.

Lemma chained_snoc : forall pks py p, chained py pks -> sp_z p = (match rev pks with q :: _ => sp_y q | [] => py end) ->
  chained py (pks ++ [p]).
Proof.
  induction pks as [|q t IH]; intros py p Hc Hz; cbn [app chained rev] in *.
  - split; [exact Hz|exact I].
  - destruct Hc as [Hq Ht]. split; [exact Hq|]. apply IH; [exact Ht|].
    rewrite Hz. destruct (rev t) as [|r rt] eqn:Er; cbn [app]; reflexivity.
Qed.

Lemma chained_set_last_y : forall pks py p, chained py (pks ++ [p]) -> chained py (pks ++ [with_y p]).
Proof.
  induction pks as [|q t IH]; intros py p Hc; cbn [app chained] in *.
  - destruct Hc as [Hz _]. split; [exact Hz|exact I].
  - destruct Hc as [Hq Ht]. split; [exact Hq|apply IH; exact Ht].
Qed.

Lemma chained_replace_last : forall pks py p q, sp_z q = sp_z p -> chained py (pks ++ [p]) -> chained py (pks ++ [q]).
Proof.
  induction pks as [|r t IH]; intros py p q Hz Hc; cbn [app chained] in *.
  - destruct Hc as [Hp _]. split; [congruence|exact I].
  - destruct Hc as [Hr Ht]. split; [exact Hr|eapply IH; eauto].
Qed.

(* the newest packet: open with exactly [count] elements, or closed and then full or sealed *)
Definition newest_s (mtu count : Z) (sealed : bool) (p : spk) : Prop :=
  (sp_w p = false /\ zlen (sp_elems p) = count) \/
  (sp_w p = true /\ (mtu <= zlen (spk_bytes p) \/ sealed = true)).

Definition sinv (mtu count : Z) (sealed : bool) (pks : list spk) : Prop :=
  Forall (ok_pk mtu) pks /\ chained false pks /\ last_y pks = false /\
  match rev pks with p :: _ => newest_s mtu count sealed p | [] => True end.

Definition extend (prev : Z) (obu : list Z) (g : list (list Z)) : list (list Z) :=
  if zlen obu <=? 0 then g
  else if prev =? 0 then obu :: g
  else match g with part :: rest => (part ++ obu) :: rest | [] => [obu] end.

Lemma wcount_range mtu p : ok_pk mtu p -> 0 <= wcount p <= 3.
Proof.
  intros H. unfold wcount. destruct (sp_w p) eqn:E; [|lia]. pose proof (ok_w mtu p H E). pose proof (zlen_nonneg (sp_elems p)). lia.
Qed.

Lemma take_nonempty k (l : list Z) : 1 <= k <= zlen l -> take k l <> [].
Proof.
  intros Hk Hnil. pose proof (take_zlen k l ltac:(lia)) as Htz. rewrite Hnil in Htz.
  change (zlen (@nil Z)) with 0 in Htz. lia.
Qed.

Lemma frag_loop_s : forall fuel pks obu prev is_last mtu count pays' c, 2 <= mtu < 2097152 ->
  frag_loop fuel (bytes_of pks) obu prev is_last mtu count = Ok (pays', c) ->
  pks <> [] -> sinv mtu count is_last pks ->
  exists pks', pays' = bytes_of pks' /\ pks' <> [] /\ sinv mtu c is_last pks' /\
               glue_z pks' = extend prev obu (glue_z pks).
Proof.
  induction fuel as [|fuel IH]; intros pks obu prev is_last mtu count pays' c Hm; cbn [frag_loop]; [discriminate|].
  unfold extend.
  destruct (zlen obu <=? 0) eqn:E0; [intros [= <- <-] Hne Hinv; exists pks; auto|].
  intros Hrun Hne Hinv.
  destruct (rev pks) as [|p rt] eqn:Erev;
    [apply (f_equal (@rev spk)) in Erev; rewrite rev_involutive in Erev; cbn [rev] in Erev; congruence|].
  assert (Epks : pks = rev rt ++ [p]).
  { apply (f_equal (@rev spk)) in Erev. rewrite rev_involutive in Erev. cbn [rev] in Erev. exact Erev. }
  set (t := rev rt) in *. clearbody t. subst pks. clear Erev Hne.
  rewrite bytes_of_snoc in Hrun.
  destruct Hinv as (Hok & Hch & Hly & Hnew). unfold last_y in Hly. rewrite rev_app_distr in Hly, Hnew. cbn [rev app] in Hly, Hnew.
  apply Forall_app in Hok as [Hokt Hokp]. apply Forall_cons_iff in Hokp as [Hokp _].
  (* the previous packet, with Y set when this OBU continues from it *)
  set (p1 := if prev =? 0 then p else with_y p).
  assert (Hp1b : (if prev =? 0 then spk_bytes p else set_hdr (fun h => Z.lor h 64) (spk_bytes p)) = spk_bytes p1).
  { unfold p1. destruct (prev =? 0); [reflexivity|]. apply set_y_bytes; [exact Hly|exact (wcount_range mtu p Hokp)]. }
  rewrite Hp1b in Hrun.
  assert (Hokp1 : ok_pk mtu p1).
  { unfold p1. destruct (prev =? 0); [exact Hokp|].
    pose proof (set_y_bytes p Hly (wcount_range mtu p Hokp)) as Hb.
    destruct Hokp as [A B C D E].
    constructor; cbn [with_y sp_elems sp_w sp_n sp_z]; auto;
      try (rewrite <- Hb, zlen_set_hdr; exact E). }
  pose proof (zlen_nonneg obu) as Hz.
  set (tw := if mtu - 1 <=? zlen obu then mtu - 1 else zlen obu) in *.
  assert (Htw : 1 <= tw <= zlen obu /\ tw <= mtu - 1) by (unfold tw; destruct (mtu - 1 <=? zlen obu) eqn:?; lia).
  (* the packet that this iteration creates *)
  assert (Hstep : forall (w : bool) k, 1 <= k <= zlen obu ->
            (w = true -> 1 + k <= mtu) -> (w = false -> 1 + zlen (write_leb128 k) + k <= mtu) ->
            (w = true -> mtu <= 1 + k \/ is_last = true) ->
            let q := mkSpk (negb (prev =? 0)) false false w [take k obu] in
            frag_loop fuel (bytes_of ((t ++ [p1]) ++ [q])) (drop k obu) k is_last mtu 1 = Ok (pays', c) ->
            exists pks', pays' = bytes_of pks' /\ pks' <> [] /\ sinv mtu c is_last pks' /\
              glue_z pks' = (if prev =? 0 then obu :: glue_z (t ++ [p])
                             else match glue_z (t ++ [p]) with part :: rest => (part ++ obu) :: rest | [] => [obu] end)).
  { intros w k Hk Hlw Hlp Hfull q Hrun'. subst q.
    set (q := mkSpk (negb (prev =? 0)) false false w [take k obu]) in *.
    assert (Eq1 : sp_elems q = [take k obu]) by reflexivity.
    assert (Eq2 : sp_w q = w) by reflexivity.
    assert (Eq3 : sp_z q = negb (prev =? 0)) by reflexivity.
    assert (Eq4 : sp_y q = false) by reflexivity.
    assert (Eq5 : sp_n q = false) by reflexivity.
    assert (Eqb : spk_bytes q = ((if negb (prev =? 0) then 128 else 0) + 0 + (if w then 1 * 16 else 0) + 0)
                               :: (if w then take k obu else write_leb128 (zlen (take k obu)) ++ take k obu)) by reflexivity.
    assert (Hqne : take k obu <> []) by (apply take_nonempty; lia).
    assert (Hinv' : sinv mtu 1 is_last ((t ++ [p1]) ++ [q])).
    { split; [|split; [|split]].
      - apply Forall_app. split; [apply Forall_app; split; [exact Hokt|constructor; [exact Hokp1|constructor]]|].
        constructor; [|constructor]. constructor; rewrite ?Eq1, ?Eq2, ?Eq3, ?Eq5; try discriminate;
          try (intros _; unfold zlen; cbn [length]; lia).
        + constructor; [exact Hqne|constructor].
        + rewrite Eqb, zlen_cons. destruct w.
          * rewrite take_zlen by lia. specialize (Hlw eq_refl). lia.
          * rewrite zlen_app, take_zlen by lia. specialize (Hlp eq_refl). lia.
      - apply chained_snoc.
        + unfold p1. destruct (prev =? 0); [exact Hch|apply chained_set_last_y; exact Hch].
        + rewrite rev_app_distr. cbn [rev app]. rewrite Eq3. unfold p1. destruct (prev =? 0); cbn [negb with_y sp_y]; [exact (eq_sym Hly)|reflexivity].
      - unfold last_y. rewrite rev_app_distr. reflexivity.
      - rewrite rev_app_distr. cbn [rev app]. unfold newest_s. rewrite Eq2, Eq1, Eqb. destruct w.
        + right. split; [reflexivity|]. rewrite zlen_cons, take_zlen by lia.
          destruct (Hfull eq_refl) as [H|H]; [left; lia|right; exact H].
        + left. split; reflexivity. }
    destruct (IH _ _ _ _ _ _ _ _ Hm Hrun' ltac:(destruct (t ++ [p1]); discriminate) Hinv') as (pks' & Hp' & Hne' & Hs' & Hg').
    exists pks'. split; [exact Hp'|]. split; [exact Hne'|]. split; [exact Hs'|].
    rewrite Hg'. unfold extend.
    rewrite !glue_z_snoc.
    assert (Hm1 : merge (glue_z t) p1 = merge (glue_z t) p) by (apply merge_same; unfold p1; destruct (prev =? 0); reflexivity).
    rewrite Hm1. set (G := merge (glue_z t) p).
    assert (Hmq : merge G q = if prev =? 0 then take k obu :: G
                              else match G with part :: rest => (part ++ take k obu) :: rest | [] => [take k obu] end).
    { unfold merge. rewrite Eq3, Eq1. destruct (prev =? 0); cbn [negb]; [destruct G; reflexivity|].
      destruct G; reflexivity. }
    rewrite Hmq.
    pose proof (take_drop k obu) as Htd.
    destruct (zlen (drop k obu) <=? 0) eqn:Ed.
    - assert (drop k obu = []) by (apply zlen_zero; pose proof (zlen_nonneg (drop k obu)); lia).
      rewrite H, app_nil_r in Htd. rewrite Htd. reflexivity.
    - replace (k =? 0) with false by lia.
      destruct (prev =? 0).
      + cbv iota beta. rewrite Htd. reflexivity.
      + destruct G as [|part rest]; cbv iota beta; [rewrite Htd; reflexivity|].
        rewrite <- app_assoc, Htd. reflexivity. }
  destruct (is_last || (mtu - 1 <=? zlen obu)) eqn:EB.
  - rewrite checked_take_ok in Hrun by lia.
    apply (Hstep true tw); try lia.
    + intros _. destruct is_last; [right; reflexivity|left]. cbn [orb] in EB. unfold tw. rewrite EB. lia.
    + cbv zeta. rewrite bytes_of_snoc, bytes_of_snoc. unfold spk_bytes at 1. cbn [sp_w sp_elems enc_elems].
      unfold spk_hdr. cbn [sp_z sp_y sp_w sp_n sp_elems]. change (zlen [take tw obu]) with 1.
      replace ((if negb (prev =? 0) then 128 else 0) + 0 + 1 * 16 + 0) with (Z.lor (if prev =? 0 then 0 else 128) 16)
        by (destruct (prev =? 0); reflexivity).
      exact Hrun.
  - assert (Hlt : zlen obu < mtu - 1) by lia.
    destruct (compute_write_size_ok tw (mtu - 1) ltac:(lia) ltac:(lia)) as [Hc1 Hc2].
    set (tw' := compute_write_size tw (mtu - 1)) in *.
    rewrite checked_take_ok in Hrun by lia.
    apply (Hstep false tw'); try lia; try discriminate.
    cbv zeta. rewrite bytes_of_snoc, bytes_of_snoc. unfold spk_bytes at 1. cbn [sp_w sp_elems enc_elems].
    unfold spk_hdr. cbn [sp_z sp_y sp_w sp_n sp_elems].
    replace ((if negb (prev =? 0) then 128 else 0) + 0 + 0 + 0) with (if prev =? 0 then 0 else 128)
      by (destruct (prev =? 0); reflexivity).
    rewrite take_zlen by lia. exact Hrun.
Qed.

Lemma bytes_of_nil_iff pks : bytes_of pks = [] <-> pks = [].
Proof.
  unfold bytes_of. split; [|intros ->; reflexivity]. intros H.
  apply (f_equal (@rev (list Z))) in H. rewrite rev_involutive in H. cbn [rev] in H.
  destruct pks; [reflexivity|discriminate].
Qed.

Lemma split_last (pks : list spk) : pks <> [] -> exists t p, pks = t ++ [p].
Proof.
  intros Hne. destruct (rev pks) as [|p rt] eqn:Erev.
  - apply (f_equal (@rev spk)) in Erev. rewrite rev_involutive in Erev. cbn [rev] in Erev. congruence.
  - exists (rev rt), p. apply (f_equal (@rev spk)) in Erev. rewrite rev_involutive in Erev. exact Erev.
Qed.

Lemma sinv_last mtu count sealed t p : sinv mtu count sealed (t ++ [p]) ->
  Forall (ok_pk mtu) t /\ ok_pk mtu p /\ chained false (t ++ [p]) /\ sp_y p = false /\ newest_s mtu count sealed p.
Proof.
  intros (Hok & Hch & Hly & Hnew). unfold last_y in Hly. rewrite rev_app_distr in Hly, Hnew. cbn [rev app] in Hly, Hnew.
  apply Forall_app in Hok as [Hokt Hokp]. apply Forall_cons_iff in Hokp as [Hokp _]. auto.
Qed.

Lemma sinv_intro mtu count sealed t p : Forall (ok_pk mtu) t -> ok_pk mtu p -> chained false (t ++ [p]) ->
  sp_y p = false -> newest_s mtu count sealed p -> sinv mtu count sealed (t ++ [p]).
Proof.
  intros Hokt Hokp Hch Hy Hn. split; [apply Forall_app; split; [exact Hokt|constructor; [exact Hokp|constructor]]|].
  split; [exact Hch|]. unfold last_y. rewrite rev_app_distr. cbn [rev app]. split; [exact Hy|exact Hn].
Qed.

Theorem append_obu_s pks obu is_new_seq is_last start_new mtu count pays' c : 2 <= mtu < 2097152 -> obu <> [] ->
  append_obu (bytes_of pks) obu is_new_seq is_last start_new mtu count = Ok (pays', c) ->
  sinv mtu count start_new pks ->
  exists pks', pays' = bytes_of pks' /\ pks' <> [] /\ sinv mtu c is_last pks' /\ glue_z pks' = obu :: glue_z pks.
Proof.
  intros Hm Hobu Hrun Hinv. unfold append_obu in Hrun.
  assert (Hzo : 1 <= zlen obu) by (destruct obu; [congruence|rewrite zlen_cons; pose proof (zlen_nonneg obu); lia]).
  set (free0 := match bytes_of pks with p :: _ => mtu - zlen p | [] => 0 end) in *.
  set (need_new := match bytes_of pks with [] => true | _ => (free0 <=? 0) || start_new end) in *.
  remember (mkSpk false false is_new_seq false []) as pnew eqn:Epn.
  assert (Hpnew : spk_bytes pnew = [if is_new_seq then 8 else 0]) by (subst pnew; unfold spk_bytes, spk_hdr; cbn; destruct is_new_seq; reflexivity).
  assert (Hpn : sp_z pnew = false /\ sp_y pnew = false /\ sp_w pnew = false /\ sp_elems pnew = []) by (subst pnew; auto).
  destruct Hpn as (Pz & Py & Pw & Pe). clear Epn.
  set (free := if need_new then mtu - 1 else free0) in *.
  set (count' := if need_new then 0 else count) in *.
  (* the packet that is being filled: open, count' elements (possibly none when it is new), room *)
  assert (H1 : exists t p, (if need_new then [if is_new_seq then 8 else 0] :: bytes_of pks else bytes_of pks) = bytes_of (t ++ [p]) /\
            Forall (ok_pk mtu) t /\ chained false (t ++ [p]) /\ sp_y p = false /\ sp_w p = false /\
            zlen (sp_elems p) = count' /\ Forall (fun e => e <> []) (sp_elems p) /\ (sp_n p = true -> sp_z p = false) /\
            (sp_elems p <> [] \/ sp_z p = false) /\ zlen (spk_bytes p) + free = mtu /\ 1 <= free /\
            glue_z (t ++ [p]) = glue_z pks /\ (sp_elems p = [] -> need_new = true)).
  { unfold free, count'. destruct need_new eqn:En.
    - exists pks, pnew. split; [rewrite bytes_of_snoc; f_equal; symmetry; exact Hpnew|].
      destruct Hinv as (Hok & Hch & Hly & _).
      split; [exact Hok|]. split; [apply chained_snoc; [exact Hch|]; rewrite Pz; unfold last_y in Hly; destruct (rev pks); [reflexivity|exact (eq_sym Hly)]|].
      split; [exact Py|]. split; [exact Pw|]. split; [rewrite Pe; reflexivity|]. split; [rewrite Pe; constructor|].
      split; [intros _; exact Pz|]. split; [right; exact Pz|].
      assert (Hl1 : zlen (spk_bytes pnew) = 1) by (rewrite Hpnew; reflexivity).
      split; [lia|]. split; [lia|]. split; [rewrite glue_z_snoc; unfold merge; rewrite Pz, Pe; reflexivity|reflexivity].
    - unfold need_new in En. destruct (bytes_of pks) as [|b0 bt] eqn:Eb; [discriminate|].
      assert (Hne : pks <> []) by (intros ->; discriminate).
      destruct (split_last pks Hne) as (t & p & ->).
      rewrite bytes_of_snoc in Eb. injection Eb as <- <-.
      destruct (sinv_last _ _ _ _ _ Hinv) as (Hokt & Hokp & Hch & Hy & Hnew).
      exists t, p. rewrite bytes_of_snoc. split; [reflexivity|]. split; [exact Hokt|]. split; [exact Hch|]. split; [exact Hy|].
      unfold free0 in *.
      destruct Hnew as [[Hw Hc]|[_ [Hfull|Hs]]]; [|lia|subst start_new; rewrite orb_true_r in En; discriminate].
      destruct Hokp as [A B C D E].
      split; [exact Hw|]. split; [exact Hc|]. split; [exact B|]. split; [exact D|]. split; [left; exact A|].
      split; [lia|]. split; [lia|]. split; [reflexivity|]. intros H. congruence. }
  destruct H1 as (t & p & Hp1 & Hokt & Hch & Hy & Hw & Hcnt & Hne & Hn & Hze & Hfree & Hf1 & Hglue & Hempty).
  rewrite Hp1, bytes_of_snoc in Hrun.
  set (tw := if free <=? zlen obu then free else zlen obu) in *.
  assert (Htw : 1 <= tw <= zlen obu /\ tw <= free) by (unfold tw; destruct (free <=? zlen obu) eqn:?; lia).
  pose proof (zlen_nonneg (sp_elems p)) as Hc0. pose proof (zlen_nonneg (spk_bytes p)) as Hpb0.
  (* after the first chunk has been added to p as q *)
  assert (Hfin : forall q k cq, 1 <= k <= zlen obu -> sp_z q = sp_z p -> sp_y q = false -> sp_n q = sp_n p ->
            sp_elems q = sp_elems p ++ [take k obu] -> (sp_w q = true -> zlen (sp_elems q) <= 3) ->
            zlen (spk_bytes q) <= mtu -> newest_s mtu cq is_last q ->
            frag_loop (S (length obu)) (bytes_of (t ++ [q])) (drop k obu) k is_last mtu cq = Ok (pays', c) ->
            exists pks', pays' = bytes_of pks' /\ pks' <> [] /\ sinv mtu c is_last pks' /\ glue_z pks' = obu :: glue_z pks).
  { intros q k cq Hk Hqz Hqy Hqn Hqe Hqw Hql Hqnew Hrun'.
    assert (Hinvq : sinv mtu cq is_last (t ++ [q])).
    { apply sinv_intro; auto.
      - constructor; auto.
        + rewrite Hqe. destruct (sp_elems p); discriminate.
        + rewrite Hqe. apply Forall_app. split; [exact Hne|constructor; [apply take_nonempty; lia|constructor]].
        + rewrite Hqn, Hqz. exact Hn.
      - eapply chained_replace_last; [|exact Hch]. exact Hqz. }
    destruct (frag_loop_s _ _ _ _ _ _ _ _ _ Hm Hrun' ltac:(destruct t; discriminate) Hinvq) as (pks' & Hp' & Hne' & Hs' & Hg').
    exists pks'. split; [exact Hp'|]. split; [exact Hne'|]. split; [exact Hs'|].
    rewrite Hg', glue_z_snoc. rewrite (merge_snoc (glue_z t) p q (take k obu) Hqz Hqe Hze).
    rewrite <- glue_z_snoc, Hglue. unfold extend.
    pose proof (take_drop k obu) as Htd.
    destruct (zlen (drop k obu) <=? 0) eqn:Ed.
    - assert (drop k obu = []) by (apply zlen_zero; pose proof (zlen_nonneg (drop k obu)); lia).
      rewrite H, app_nil_r in Htd. rewrite Htd. reflexivity.
    - replace (k =? 0) with false by lia. rewrite Htd. reflexivity. }
  destruct ((is_last || (free <=? tw)) && (count' <? 3)) eqn:EW.
  - rewrite checked_take_ok in Hrun by lia.
    rewrite <- Hcnt in Hrun. rewrite (add_last_bytes p (take tw obu) Hw ltac:(lia)) in Hrun.
    rewrite <- bytes_of_snoc in Hrun.
    assert (Hc3 : count' < 3) by lia.
    assert (Hlb : zlen (spk_bytes (add_last p (take tw obu))) = zlen (spk_bytes p) + tw).
    { rewrite <- (add_last_bytes p (take tw obu) Hw ltac:(lia)). rewrite zlen_app, zlen_set_hdr, take_zlen by lia. reflexivity. }
    apply (Hfin (add_last p (take tw obu)) tw 0 ltac:(lia) eq_refl Hy eq_refl eq_refl).
    + intros _. cbn [add_last sp_elems]. rewrite zlen_app. unfold zlen at 2. cbn [length]. lia.
    + lia.
    + right. split; [reflexivity|]. rewrite Hlb.
      destruct is_last; [right; reflexivity|left]. cbn [orb] in EW. lia.
    + exact Hrun.
  - destruct (2 <=? free) eqn:E2.
    + destruct (compute_write_size_ok tw free ltac:(lia) ltac:(lia)) as [Hc1 Hc2].
      set (tw' := compute_write_size tw free) in *.
      rewrite checked_take_ok in Hrun by lia.
      assert (Hlz : zlen (take tw' obu) = tw') by (apply take_zlen; lia).
      rewrite <- Hlz in Hrun at 1. rewrite (add_pref_bytes p (take tw' obu) Hw) in Hrun.
      rewrite <- bytes_of_snoc in Hrun.
      assert (Hlb : zlen (spk_bytes (add_pref p (take tw' obu))) = zlen (spk_bytes p) + zlen (write_leb128 tw') + tw').
      { rewrite <- (add_pref_bytes p (take tw' obu) Hw). rewrite !zlen_app, Hlz. lia. }
      apply (Hfin (add_pref p (take tw' obu)) tw' (count' + 1) ltac:(lia) eq_refl Hy eq_refl eq_refl).
      * discriminate.
      * lia.
      * left. split; [reflexivity|]. cbn [add_pref sp_elems]. rewrite zlen_app. unfold zlen at 2. cbn [length]. lia.
      * exact Hrun.
    + (* one byte left in a packet that already holds three elements: the OBU starts a new packet *)
      assert (Hnn : need_new = false).
      { destruct need_new eqn:En; [|reflexivity]. unfold free, count' in *. lia. }
      assert (Hpe : sp_elems p <> []) by (intros H; specialize (Hempty H); congruence).
      rewrite <- bytes_of_snoc in Hrun.
      assert (Hinvp : sinv mtu count' is_last (t ++ [p])).
      { apply sinv_intro; auto.
        - constructor; auto; [rewrite Hw; discriminate|lia].
        - left. split; assumption. }
      destruct (frag_loop_s _ _ _ _ _ _ _ _ _ Hm Hrun ltac:(destruct t; discriminate) Hinvp) as (pks' & Hp' & Hne' & Hs' & Hg').
      exists pks'. split; [exact Hp'|]. split; [exact Hne'|]. split; [exact Hs'|].
      rewrite Hg', Hglue. unfold extend. replace (zlen obu <=? 0) with false by lia. reflexivity.
Qed.

(* ---- the Z-glue of the payloader invariant is the Y-glue the depacketizer implements ---- *)
Definition pend (b : list Z) (acc : list (list Z)) : list (list Z) := match b with [] => acc | _ => b :: acc end.

Lemma run_elems_char : forall t z y buffer e, (z = false -> buffer = []) ->
  let u := (if z then buffer ++ e else e) :: t in
  run_elems z y true buffer (e :: t) = if y then (last u [], removelast u) else ([], u).
Proof.
  intros t z y buffer e Hb. cbv zeta. cbn [andb].
  (* generalise over the "first" flag: after the first element the buffer is empty *)
  assert (G : forall t' (first : bool) b0 e0, (first && z = false -> b0 = []) ->
            run_elems z y first b0 (e0 :: t')
            = if y then (last ((if first && z then b0 ++ e0 else e0) :: t') [], removelast ((if first && z then b0 ++ e0 else e0) :: t'))
              else ([], (if first && z then b0 ++ e0 else e0) :: t')).
  { induction t' as [|e2 t2 IH]; intros first b0 e0 Hb0.
    - cbn [run_elems last removelast]. destruct y; [reflexivity|].
      destruct (first && z) eqn:E; [reflexivity|]. rewrite (Hb0 eq_refl). reflexivity.
    - rewrite run_elems_cons2. rewrite IH.
      + cbn [andb]. destruct y; cbn [fst snd]; [|reflexivity].
        change (last ((if first && z then b0 ++ e0 else e0) :: e2 :: t2) []) with (last (e2 :: t2) []).
        change (removelast ((if first && z then b0 ++ e0 else e0) :: e2 :: t2))
          with ((if first && z then b0 ++ e0 else e0) :: removelast (e2 :: t2)). reflexivity.
      + intros _. destruct (first && z) eqn:E; [reflexivity|]. exact (Hb0 eq_refl). }
  rewrite (G t true buffer e); [reflexivity|]. cbn [andb]. exact Hb.
Qed.

Lemma merge_run acc p buffer : sp_elems p <> [] -> Forall (fun e => e <> []) (sp_elems p) ->
  (sp_z p = true <-> buffer <> []) ->
  let r := run_elems (sp_z p) (sp_y p) true (if sp_z p then buffer else []) (sp_elems p) in
  merge (pend buffer acc) p = pend (fst r) (rev (snd r) ++ acc) /\ (sp_y p = true <-> fst r <> []).
Proof.
  intros Hne Hall Hz. cbv zeta. destruct (sp_elems p) as [|e t] eqn:Ee; [congruence|].
  rewrite run_elems_char by (intros H; rewrite H; reflexivity).
  set (u := (if sp_z p then (if sp_z p then buffer else []) ++ e else e) :: t).
  assert (Hmerge : merge (pend buffer acc) p = rev u ++ acc).
  { unfold merge, u. rewrite Ee. destruct (sp_z p) eqn:Ezp.
    - assert (buffer <> []) by (apply Hz; reflexivity). destruct buffer as [|b0 bt]; [congruence|].
      cbn [pend rev]. rewrite <- app_assoc. reflexivity.
    - assert (buffer = []). { destruct buffer; [reflexivity|]. assert (false = true) by (apply Hz; discriminate). discriminate. }
      subst buffer. cbn [pend rev]. reflexivity. }
  assert (Hune : Forall (fun x => x <> []) u).
  { unfold u. apply Forall_cons_iff in Hall as [He Ht]. constructor; [|exact Ht].
    destruct (sp_z p); [intros H; apply app_eq_nil in H as [_ H]; congruence|exact He]. }
  destruct (sp_y p); cbn [fst snd].
  - assert (Hl : last u [] <> []).
    { assert (Hu0 : u = removelast u ++ [last u []]) by (apply app_removelast_last; unfold u; discriminate).
      rewrite Hu0 in Hune. apply Forall_app in Hune as [_ Hune]. apply Forall_cons_iff in Hune as [H _]. exact H. }
    split; [|split; [intros _; exact Hl|reflexivity]].
    rewrite Hmerge. unfold pend. destruct (last u []) as [|l0 lt] eqn:El; [congruence|]. rewrite <- El.
    assert (Hu : u = removelast u ++ [last u []]) by (apply app_removelast_last; unfold u; discriminate).
    rewrite Hu at 1. rewrite rev_app_distr. reflexivity.
  - split; [exact Hmerge|]. split; [discriminate|congruence].
Qed.

Lemma glue_fold : forall pks py buffer acc, chained py pks -> (py = true <-> buffer <> []) ->
  Forall (fun p => sp_elems p <> [] /\ Forall (fun e => e <> []) (sp_elems p)) pks ->
  fold_left merge pks (pend buffer acc) = pend (snd (glue buffer pks)) (rev (fst (glue buffer pks)) ++ acc) /\
  ((match rev pks with p :: _ => sp_y p | [] => py end) = true <-> snd (glue buffer pks) <> []).
Proof.
  induction pks as [|p t IH]; intros py buffer acc Hch Hpy Hall.
  - cbn [fold_left glue fst snd rev app]. split; [reflexivity|exact Hpy].
  - destruct Hch as [Hz Hch]. apply Forall_cons_iff in Hall as [[Hne Hnn] Hall].
    cbn [fold_left glue].
    pose proof (merge_run acc p buffer Hne Hnn ltac:(rewrite Hz; exact Hpy)) as [Hm Hy]. cbv zeta in Hm, Hy.
    set (r := run_elems (sp_z p) (sp_y p) true (if sp_z p then buffer else []) (sp_elems p)) in *.
    rewrite Hm.
    destruct (IH (sp_y p) (fst r) (rev (snd r) ++ acc) Hch Hy Hall) as [IH1 IH2].
    destruct (glue (fst r) t) as [os2 bf] eqn:Eg. cbn [fst snd] in *.
    split.
    + rewrite IH1, rev_app_distr, <- app_assoc. reflexivity.
    + cbn [rev]. destruct (rev t) as [|q rt] eqn:Er; cbn [app]; exact IH2.
Qed.

Theorem glue_of_glue_z pks : chained false pks -> last_y pks = false ->
  Forall (fun p => sp_elems p <> [] /\ Forall (fun e => e <> []) (sp_elems p)) pks ->
  glue [] pks = (rev (glue_z pks), []).
Proof.
  intros Hch Hly Hall.
  destruct (glue_fold pks false [] [] Hch ltac:(split; [discriminate|congruence]) Hall) as [H1 H2].
  cbn [pend] in H1. unfold last_y in Hly.
  assert (Hbf : snd (glue [] pks) = []).
  { destruct (snd (glue [] pks)) as [|b0 bt] eqn:E; [reflexivity|].
    assert (Hc : (match rev pks with p :: _ => sp_y p | [] => false end) = true) by (apply H2; discriminate).
    destruct (rev pks); congruence. }
  rewrite Hbf in H1. cbn [pend] in H1. rewrite app_nil_r in H1.
  destruct (glue [] pks) as [os bf]. cbn [fst snd] in *. subst bf. f_equal.
  unfold glue_z. rewrite H1, rev_involutive. reflexivity.
Qed.
