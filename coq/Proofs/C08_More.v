(* C08 for H264 and VP9: every MTU, every input, every payloader state - no panic, every fragment
   an owned copy of 1..MTU bytes. *)
From Coq Require Import ZArith List Lia Bool.
From Coq Require Import ZifyBool.
From RTP Require Import Base.Bits Base.Res Base.ListX Base.Own Base.Bytes Base.Tactics
  Model.AnnexB Model.H264 Model.Vp9Header Model.Vp9 Proofs.C10_H264 Proofs.C08_Mtu.
Import ListNotations.
Open Scope Z_scope.

Lemma frags_ok_nil mtu : frags_ok mtu [].
Proof. split; constructor. Qed.

Lemma frags_ok_app mtu a b : frags_ok mtu a -> frags_ok mtu b -> frags_ok mtu (a ++ b).
Proof.
  intros [Ha1 Ha2] [Hb1 Hb2]. split; [rewrite forallb_app, Ha1, Hb1; reflexivity|apply Forall_app; auto].
Qed.

Lemma frags_ok_one mtu l : 1 <= zlen l <= mtu -> frags_ok mtu [Own l].
Proof. intros H. split; [reflexivity|constructor; [exact H|constructor]]. Qed.

Lemma frags_ok_cons mtu l fs : 1 <= zlen l <= mtu -> frags_ok mtu fs -> frags_ok mtu (Own l :: fs).
Proof. intros H Hfs. apply (frags_ok_app mtu [Own l] fs); [apply frags_ok_one; exact H|exact Hfs]. Qed.

(* ---- H264 ---- *)

Lemma fua_frags_ok : forall fuel maxf nri ty total rest, 1 <= maxf -> (length rest < fuel)%nat ->
  exists fs, fua_frags fuel maxf nri ty total rest = Ok fs /\ frags_ok (maxf + 2) fs.
Proof.
  induction fuel as [|fuel IH]; intros maxf nri ty total rest Hm Hf; [lia|].
  cbn [fua_frags]. pose proof (zlen_nonneg rest) as Hr.
  destruct (zlen rest <=? 0) eqn:E0; [exists []; split; [reflexivity|apply frags_ok_nil]|].
  set (cur := if maxf <? zlen rest then maxf else zlen rest).
  assert (Hcur : 1 <= cur <= zlen rest /\ cur <= maxf) by (unfold cur; destruct (maxf <? zlen rest) eqn:?; lia).
  rewrite (slice_take rest cur) by lia. rewrite (slice_drop rest cur) by lia.
  assert (Hd : (length (drop cur rest) < fuel)%nat).
  { pose proof (drop_zlen cur rest ltac:(lia)) as Hz. unfold zlen in *. lia. }
  destruct (IH maxf nri ty total (drop cur rest) Hm Hd) as (fs & Hrun & Hok).
  rewrite Hrun. eexists. split; [reflexivity|].
  apply frags_ok_cons; [|exact Hok]. rewrite !zlen_cons, take_zlen by lia. lia.
Qed.

Lemma emit_single_or_fua_ok mtu nalu :
  exists fs, emit_single_or_fua mtu nalu = Ok fs /\ frags_ok mtu fs.
Proof.
  unfold emit_single_or_fua. destruct nalu as [|b0 body]; [exists []; split; [reflexivity|apply frags_ok_nil]|].
  pose proof (zlen_nonneg body) as Hb.
  destruct (zlen (b0 :: body) <=? mtu) eqn:E1.
  - eexists. split; [reflexivity|]. apply frags_ok_one. rewrite zlen_cons in *. lia.
  - destruct ((if mtu - 2 <? zlen body then mtu - 2 else zlen body) <=? 0) eqn:E2;
      [exists []; split; [reflexivity|apply frags_ok_nil]|].
    assert (Hm : 1 <= mtu - 2) by (destruct (mtu - 2 <? zlen body) eqn:?; lia).
    destruct (fua_frags_ok (S (length body)) (mtu - 2) (Z.land b0 224) (Z.land b0 31) (zlen body) body Hm ltac:(lia))
      as (fs & Hrun & Hok).
    exists fs. split; [exact Hrun|]. replace mtu with (mtu - 2 + 2) at 1 by lia. exact Hok.
Qed.

(* the held parameter sets are never empty: the callback returns early on an empty unit, and
   packetizeH264Nalu indexes nalu[0] *)
Definition held_ok (st : h264pay) : Prop := hp_sps st <> Some [] /\ hp_pps st <> Some [].

Lemma held_ok_fresh d : held_ok (mkH264Pay d None None).
Proof. split; discriminate. Qed.

Lemma packetize_nalu_ok mtu nalu : nalu <> [] ->
  exists fs, packetize_nalu mtu nalu = Ok fs /\ frags_ok mtu fs.
Proof.
  intros Hne. unfold packetize_nalu. destruct nalu as [|b0 body]; [contradiction|].
  apply emit_single_or_fua_ok.
Qed.

Lemma flush_params_ok mtu st : held_ok st ->
  exists fs, flush_params mtu st = Ok (mkH264Pay (hp_disable_stapa st) None None, fs) /\ frags_ok mtu fs.
Proof.
  intros [Hs Hp]. unfold flush_params.
  assert (Hind : exists fs,
            match (match hp_sps st with Some s => packetize_nalu mtu s | None => Ok [] end) with
            | Ok f1 =>
              match (match hp_pps st with Some p => packetize_nalu mtu p | None => Ok [] end) with
              | Ok f2 => Ok (mkH264Pay (hp_disable_stapa st) None None, f1 ++ f2)
              | Err e => Err e
              | Panic => Panic
              end
            | Err e => Err e
            | Panic => Panic
            end = Ok (mkH264Pay (hp_disable_stapa st) None None, fs) /\ frags_ok mtu fs).
  { assert (H1 : exists f1, (match hp_sps st with Some s => packetize_nalu mtu s | None => Ok [] end) = Ok f1 /\ frags_ok mtu f1).
    { destruct (hp_sps st) as [sps|]; [|exists []; split; [reflexivity|apply frags_ok_nil]].
      apply packetize_nalu_ok. intros ->. apply Hs. reflexivity. }
    assert (H2 : exists f2, (match hp_pps st with Some p => packetize_nalu mtu p | None => Ok [] end) = Ok f2 /\ frags_ok mtu f2).
    { destruct (hp_pps st) as [pps|]; [|exists []; split; [reflexivity|apply frags_ok_nil]].
      apply packetize_nalu_ok. intros ->. apply Hp. reflexivity. }
    destruct H1 as (f1 & -> & Hok1). destruct H2 as (f2 & -> & Hok2).
    exists (f1 ++ f2). split; [reflexivity|apply frags_ok_app; assumption]. }
  destruct (hp_sps st) as [sps|] eqn:Esps; [|exact Hind].
  destruct (hp_pps st) as [pps|] eqn:Epps; [|exact Hind].
  match goal with |- context [if ?c then _ else _] => destruct c eqn:E end; [|exact Hind].
  eexists. split; [reflexivity|].
  apply frags_ok_one. split; [|lia]. rewrite zlen_cons.
  pose proof (zlen_nonneg (put16 (u16 (zlen sps)) ++ sps ++ put16 (u16 (zlen pps)) ++ pps)). lia.
Qed.

Lemma h264_nalu_ok mtu st nalu : held_ok st ->
  exists st' fs, h264_nalu mtu st nalu = Ok (st', fs) /\ frags_ok mtu fs /\ held_ok st'.
Proof.
  intros Hst. pose proof Hst as [Hs Hp].
  unfold h264_nalu. destruct nalu as [|b0 body];
    [exists st, []; split; [reflexivity|split; [apply frags_ok_nil|split; assumption]]|].
  destruct (emit_single_or_fua_ok mtu (b0 :: body)) as (fs & Hrun & Hok). rewrite Hrun.
  destruct (flush_params_ok mtu st Hst) as (pre & Hfl & Hpre).
  assert (Hsingle : forall s pre0, held_ok s -> frags_ok mtu pre0 ->
            exists st' fs0, @Ok (h264pay * list bref) (s, pre0 ++ fs) = Ok (st', fs0) /\ frags_ok mtu fs0 /\ held_ok st')
    by (intros s pre0 Hh Hpre0; exists s, (pre0 ++ fs); split; [reflexivity|split; [apply frags_ok_app; assumption|exact Hh]]).
  destruct ((Z.land b0 31 =? 9) || (Z.land b0 31 =? 12));
    [exists st, []; split; [reflexivity|split; [apply frags_ok_nil|exact Hst]]|].
  destruct (Z.land b0 31 =? 7).
  { destruct (negb (hp_disable_stapa st)); [|apply (Hsingle st []); [exact Hst|apply frags_ok_nil]].
    rewrite Hfl. cbn [hp_disable_stapa hp_pps]. eexists. exists pre. split; [reflexivity|]. split; [exact Hpre|].
    split; cbn [hp_sps hp_pps]; discriminate. }
  destruct (Z.land b0 31 =? 8).
  { destruct (negb (hp_disable_stapa st)); [|apply (Hsingle st []); [exact Hst|apply frags_ok_nil]].
    destruct (hp_pps st) as [pps|] eqn:Epps.
    - rewrite Hfl. cbn [hp_disable_stapa hp_sps]. eexists. exists pre. split; [reflexivity|]. split; [exact Hpre|].
      split; cbn [hp_sps hp_pps]; discriminate.
    - eexists. exists []. split; [reflexivity|]. split; [apply frags_ok_nil|].
      split; cbn [hp_sps hp_pps]; [exact Hs|discriminate]. }
  destruct (negb (hp_disable_stapa st)); [|apply (Hsingle st []); [exact Hst|apply frags_ok_nil]].
  rewrite Hfl. apply Hsingle; [apply held_ok_fresh|exact Hpre].
Qed.

Lemma h264_nalus_ok mtu : forall nalus st, held_ok st ->
  exists st' fs, h264_nalus mtu st nalus = Ok (st', fs) /\ frags_ok mtu fs /\ held_ok st'.
Proof.
  induction nalus as [|n t IH]; intros st Hst; cbn [h264_nalus];
    [exists st, []; split; [reflexivity|split; [apply frags_ok_nil|exact Hst]]|].
  destruct (h264_nalu_ok mtu st n Hst) as (st1 & fs1 & H1 & Hok1 & Hst1). rewrite H1.
  destruct (IH st1 Hst1) as (st2 & fs2 & H2 & Hok2 & Hst2). rewrite H2.
  exists st2, (fs1 ++ fs2). split; [reflexivity|split; [apply frags_ok_app; assumption|exact Hst2]].
Qed.

(* for every state a payloader can be in (fresh, or after any history of calls: held_ok is
   preserved), every MTU and every input *)
Theorem h264_frags_ok st mtu p : held_ok st ->
  exists st' fs, h264_payload st mtu p = Ok (st', fs) /\ frags_ok mtu fs /\ held_ok st'.
Proof.
  intros Hst.
  unfold h264_payload. destruct p as [[|b l]|]; try (exists st, []; split; [reflexivity|split; [apply frags_ok_nil|exact Hst]]).
  apply h264_nalus_ok, Hst.
Qed.

(* ---- VP9 ---- *)

Lemma flex_frags_ok : forall fuel pid maxf index rest, 1 <= maxf -> (length rest < fuel)%nat ->
  exists fs, flex_frags fuel pid maxf index rest = Ok fs /\ frags_ok (maxf + 3) fs.
Proof.
  induction fuel as [|fuel IH]; intros pid maxf index rest Hm Hf; [lia|].
  cbn [flex_frags]. pose proof (zlen_nonneg rest) as Hr.
  destruct (zlen rest <=? 0) eqn:E0; [exists []; split; [reflexivity|apply frags_ok_nil]|].
  set (cur := if maxf <? zlen rest then maxf else zlen rest).
  assert (Hcur : 1 <= cur <= zlen rest /\ cur <= maxf) by (unfold cur; destruct (maxf <? zlen rest) eqn:?; lia).
  rewrite (slice_take rest cur) by lia. rewrite (slice_drop rest cur) by lia.
  assert (Hd : (length (drop cur rest) < fuel)%nat).
  { pose proof (drop_zlen cur rest ltac:(lia)) as Hz. unfold zlen in *. lia. }
  destruct (IH pid maxf (index + cur) (drop cur rest) Hm Hd) as (fs & Hrun & Hok).
  rewrite Hrun. eexists. split; [reflexivity|].
  apply frags_ok_cons; [|exact Hok]. unfold pid_bytes. cbn [app]. rewrite !zlen_cons, take_zlen by lia. lia.
Qed.

Lemma nonflex_frags_ok : forall fuel pid mtu non_key w h index rest, (length rest < fuel)%nat ->
  nonflex_frags fuel pid mtu non_key w h index rest = Ok None \/
  exists fs, nonflex_frags fuel pid mtu non_key w h index rest = Ok (Some fs) /\ frags_ok mtu fs.
Proof.
  induction fuel as [|fuel IH]; intros pid mtu non_key w h index rest Hf; [lia|].
  cbn [nonflex_frags]. pose proof (zlen_nonneg rest) as Hr.
  destruct (zlen rest <=? 0) eqn:E0; [right; exists []; split; [reflexivity|apply frags_ok_nil]|].
  set (with_ss := negb non_key && (index =? 0)).
  set (hs := if with_ss then 11 else 3).
  set (cur := if mtu - hs <? zlen rest then mtu - hs else zlen rest).
  destruct (cur <=? 0) eqn:Ec; [left; reflexivity|].
  assert (Hcur : 1 <= cur <= zlen rest /\ cur <= mtu - hs) by (unfold cur in *; destruct (mtu - hs <? zlen rest) eqn:?; lia).
  rewrite (slice_take rest cur) by lia. rewrite (slice_drop rest cur) by lia.
  assert (Hd : (length (drop cur rest) < fuel)%nat).
  { pose proof (drop_zlen cur rest ltac:(lia)) as Hz. unfold zlen in *. lia. }
  destruct (IH pid mtu non_key w h (index + cur) (drop cur rest) Hd) as [Hnone|(fs & Hrun & Hok)].
  - left. rewrite Hnone. reflexivity.
  - right. rewrite Hrun. eexists. split; [reflexivity|].
    apply frags_ok_cons; [|exact Hok]. unfold pid_bytes. cbn [app].
    rewrite !zlen_cons, zlen_app, take_zlen by lia. unfold hs in Hcur.
    destruct with_ss; rewrite ?zlen_cons; change (zlen (@nil Z)) with 0; lia.
Qed.

Theorem vp9_frags_ok st init mtu p :
  (v9_flexible st = false -> vp9_header_unmarshal (match p with Some l => l | None => [] end) <> Panic) ->
  exists st' fs, vp9_payload st init mtu p = Ok (st', fs) /\ frags_ok mtu fs.
Proof.
  intros Hhdr. unfold vp9_payload.
  set (pid := if v9_initialized st then v9_pid st else Z.land init 32767).
  set (l := match p with Some l => l | None => [] end) in *.
  assert (Hfs : exists fs, (if v9_flexible st then payload_flexible pid mtu l else payload_nonflexible pid mtu l) = Ok fs
                           /\ frags_ok mtu fs).
  { destruct (v9_flexible st).
    - unfold payload_flexible.
      destruct ((if mtu - 3 <? zlen l then mtu - 3 else zlen l) <=? 0) eqn:E;
        [exists []; split; [reflexivity|apply frags_ok_nil]|].
      assert (Hm : 1 <= mtu - 3) by (pose proof (zlen_nonneg l); destruct (mtu - 3 <? zlen l) eqn:?; lia).
      destruct (flex_frags_ok (S (length l)) pid (mtu - 3) 0 l Hm ltac:(lia)) as (fs & Hrun & Hok).
      exists fs. split; [exact Hrun|]. replace mtu with (mtu - 3 + 3) at 1 by lia. exact Hok.
    - unfold payload_nonflexible. specialize (Hhdr eq_refl).
      destruct (vp9_header_unmarshal l) as [hdr|e|]; [| exists []; split; [reflexivity|apply frags_ok_nil] | congruence].
      destruct (nonflex_frags_ok (S (length l)) pid mtu (vh_non_key hdr) (vp9_width hdr) (vp9_height hdr) 0 l ltac:(lia))
        as [Hnone|(fs & Hrun & Hok)].
      + rewrite Hnone. exists []. split; [reflexivity|apply frags_ok_nil].
      + rewrite Hrun. exists fs. split; [reflexivity|exact Hok]. }
  destruct Hfs as (fs & Hrun & Hok). rewrite Hrun. eexists. exists fs. split; [reflexivity|exact Hok].
Qed.
