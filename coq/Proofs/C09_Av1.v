(* C09, AV1: the depacketizer and the deprecated AV1Packet parser are total on arbitrary bytes
   (the only Panic in the models is fuel exhaustion: shown unreachable because every round
   consumes at least one byte). *)
From Coq Require Import ZArith List Lia Bool.
From Coq Require Import ZifyBool.
From RTP Require Import Base.Bits Base.Res Base.ListX Base.Tactics Model.Leb128 Model.Obu Model.Av1Depack Model.Av1Legacy
  Proofs.Leb128Proofs.
Import ListNotations.
Open Scope Z_scope.

Lemma drop_length_le {A} (l : list A) k : (length (drop k l) <= length l)%nat.
Proof. unfold drop. rewrite skipn_length. lia. Qed.

Lemma drop_length_lt {A} (l : list A) k : 0 < k -> l <> [] -> (length (drop k l) < length l)%nat.
Proof.
  intros Hk Hne. unfold drop. rewrite skipn_length. destruct l; [congruence|]. cbn [length]. lia.
Qed.

Ltac finish IH Hl2 :=
  repeat first
  [ progress cbn [snd]
  | discriminate
  | apply IH; exact Hl2
  | match goal with |- context [if ?c then _ else _] => destruct c end
  | match goal with |- context [match ?x with _ => _ end] => destruct x end ].

Lemma av1d_loop_total : forall fuel z y count l k buffer buff, (length l < fuel)%nat ->
  snd (av1d_loop fuel z y count l k buffer buff) <> Panic.
Proof.
  induction fuel as [|f IH]; intros z y count l k buffer buff Hf; [lia|].
  cbn [av1d_loop]. destruct l as [|x l']; [cbn; discriminate|].
  set (l := x :: l') in *. assert (Hne : l <> []) by (unfold l; discriminate).
  destruct ((count =? 0) || negb (negb (count =? 0) && (k =? count - 1))) eqn:EA.
  - destruct (read_leb128 l) as [[v n]|] eqn:E; [|cbn; discriminate].
    apply read_leb128_bounds in E.
    assert (Hl1 : (length (drop n l) < length l)%nat) by (apply drop_length_lt; [lia|exact Hne]).
    set (l1 := drop n l) in *.
    destruct (zlen l1 <? v) eqn:Es; [cbn; discriminate|].
    assert (Hl2 : (length (drop v l1) < f)%nat) by (pose proof (drop_length_le l1 v); lia).
    finish IH Hl2.
  - assert (Hz : 1 <= zlen l) by (unfold l; rewrite zlen_cons; pose proof (zlen_nonneg l'); lia).
    replace (zlen l <? zlen l) with false by lia.
    assert (Hl2 : (length (drop (zlen l) l) < f)%nat).
    { rewrite drop_all by lia. cbn [length]. unfold l in Hf. cbn [length] in Hf. lia. }
    finish IH Hl2.
Qed.

Theorem av1d_unmarshal_total st p : snd (av1d_unmarshal st p) <> Panic.
Proof.
  unfold av1d_unmarshal. destruct (match p with Some l => l | None => [] end) as [|b0 [|b1 l1]]; try (cbn; discriminate).
  set (z := negb (Z.land 128 b0 =? 0)). set (y := negb (Z.land 64 b0 =? 0)).
  set (count := Z.shiftr (Z.land 48 b0) 4).
  match goal with |- context [av1d_loop ?fu ?a ?b ?c ?d ?e ?g ?h] =>
    pose proof (av1d_loop_total fu a b c d e g h ltac:(lia)) as Hl;
    destruct (av1d_loop fu a b c d e g h) as [buffer' r] end.
  cbn [snd] in Hl. destruct r as [[buff k]|e|]; [|cbn; discriminate|congruence].
  destruct (negb (count =? 0) && negb (k =? count - 1)); cbn; discriminate.
Qed.

Lemma av1p_body_total : forall fuel w l i acc, (length l < fuel)%nat -> av1p_body fuel w l i acc <> Panic.
Proof.
  induction fuel as [|f IH]; intros w l i acc Hf; [lia|].
  cbn [av1p_body]. destruct l as [|x l']; [discriminate|].
  set (l := x :: l') in *. assert (Hne : l <> []) by (unfold l; discriminate).
  destruct (negb (w =? 0) && (i =? w)); [discriminate|].
  destruct (read_leb128 l) as [[len n]|] eqn:E; [|discriminate].
  apply read_leb128_bounds in E.
  assert (Hl1 : (length (drop n l) < length l)%nat) by (apply drop_length_lt; [lia|exact Hne]).
  destruct (zlen (drop n l) <? len); [discriminate|].
  apply IH. pose proof (drop_length_le (drop n l) len). lia.
Qed.

Theorem av1p_unmarshal_total prev p : snd (av1p_unmarshal prev p) <> Panic.
Proof.
  unfold av1p_unmarshal. destruct p as [[|b0 [|b1 rest]]|]; try (cbn; discriminate).
  match goal with |- context [if ?c then _ else _] => destruct c end; [cbn; discriminate|].
  destruct (ap_elems prev); [cbn; discriminate|].
  pose proof (av1p_body_total (S (length (b1 :: rest))) (Z.shiftr (Z.land b0 48) 4) (b1 :: rest) 1 [] ltac:(lia)) as H.
  destruct (av1p_body (S (length (b1 :: rest))) (Z.shiftr (Z.land b0 48) 4) (b1 :: rest) 1 []); cbn; congruence.
Qed.
