(* C20: the clone reads equal to the original, lives in blocks allocated by Clone itself, and
   no store through either holder can be seen through the other. *)
From Coq Require Import ZArith List Lia Bool.
From RTP Require Import Base.ListX Model.RtpPacket Model.Heap.
Import ListNotations.

(* ---- growing the heap keeps every valid reference ---- *)

Lemma nth_ext (hp suf : heap) b x : nth_error hp b = Some x -> nth_error (hp ++ suf) b = Some x.
Proof.
  intros H. rewrite nth_error_app1; [exact H|]. apply nth_error_Some. congruence.
Qed.

Lemma rd_bytes_ext hp suf s v : rd_bytes hp s = Some v -> rd_bytes (hp ++ suf) s = Some v.
Proof.
  destruct s as [b|]; cbn [rd_bytes]; [|auto].
  destruct (nth_error hp b) as [[l|es]|] eqn:E; try discriminate.
  rewrite (nth_ext _ suf _ _ E). auto.
Qed.

Lemma rd_elems_ext hp suf es : forall v, rd_elems hp es = Some v -> rd_elems (hp ++ suf) es = Some v.
Proof.
  induction es as [|[i s] t IH]; intros v; cbn [rd_elems]; [auto|].
  destruct (rd_bytes hp s) as [x|] eqn:E1; [|discriminate].
  destruct (rd_elems hp t) as [vt|] eqn:E2; [|discriminate].
  rewrite (rd_bytes_ext _ suf _ _ E1), (IH _ eq_refl). auto.
Qed.

Lemma rd_exts_ext hp suf s v : rd_exts hp s = Some v -> rd_exts (hp ++ suf) s = Some v.
Proof.
  destruct s as [b|]; cbn [rd_exts]; [|auto].
  destruct (nth_error hp b) as [[l|es]|] eqn:E; try discriminate.
  rewrite (nth_ext _ suf _ _ E).
  destruct (rd_elems hp es) as [x|] eqn:E2; [|discriminate].
  rewrite (rd_elems_ext _ suf _ _ E2). auto.
Qed.

Lemma read_ext hp suf p v : read hp p = Some v -> read (hp ++ suf) p = Some v.
Proof.
  unfold read.
  destruct (rd_bytes hp (m_csrc p)) as [c|] eqn:E1; [|discriminate].
  destruct (rd_exts hp (m_exts p)) as [e|] eqn:E2; [|discriminate].
  destruct (rd_bytes hp (m_payload p)) as [pl|] eqn:E3; [|discriminate].
  rewrite (rd_bytes_ext _ suf _ _ E1), (rd_exts_ext _ suf _ _ E2), (rd_bytes_ext _ suf _ _ E3). auto.
Qed.

(* ---- what a readable packet can reach is allocated ---- *)

Definition below (n : nat) (bs : list nat) : Prop := forall b, In b bs -> (b < n)%nat.
Definition within (lo hi : nat) (bs : list nat) : Prop := forall b, In b bs -> (lo <= b < hi)%nat.

Lemma rd_bytes_below hp s v : rd_bytes hp s = Some v -> below (length hp) (slice_blocks s).
Proof.
  destruct s as [b|]; cbn [rd_bytes slice_blocks]; intros H x Hx; [|destruct Hx].
  destruct Hx as [<-|[]]. apply nth_error_Some. destruct (nth_error hp b); congruence.
Qed.

Lemma rd_elems_below hp es : forall v, rd_elems hp es = Some v -> below (length hp) (elems_blocks es).
Proof.
  induction es as [|[i s] t IH]; intros v; cbn [rd_elems elems_blocks flat_map]; [intros _ x []|].
  destruct (rd_bytes hp s) as [x|] eqn:E1; [|discriminate].
  destruct (rd_elems hp t) as [vt|] eqn:E2; [|discriminate].
  intros _ b Hb. apply in_app_or in Hb as [Hb|Hb].
  - exact (rd_bytes_below _ _ _ E1 b Hb).
  - exact (IH _ eq_refl b Hb).
Qed.

Lemma rd_exts_below hp s v : rd_exts hp s = Some v -> below (length hp) (exts_blocks hp s).
Proof.
  destruct s as [b|]; cbn [rd_exts exts_blocks]; [|intros _ x []].
  destruct (nth_error hp b) as [[l|es]|] eqn:E; try discriminate.
  destruct (rd_elems hp es) as [x|] eqn:E2; [|discriminate].
  intros _ y [<-|Hy].
  - apply nth_error_Some. congruence.
  - exact (rd_elems_below _ _ _ E2 y Hy).
Qed.

Lemma read_below hp p v : read hp p = Some v -> below (length hp) (reach hp p).
Proof.
  unfold read, reach.
  destruct (rd_bytes hp (m_csrc p)) as [c|] eqn:E1; [|discriminate].
  destruct (rd_exts hp (m_exts p)) as [e|] eqn:E2; [|discriminate].
  destruct (rd_bytes hp (m_payload p)) as [pl|] eqn:E3; [|discriminate].
  intros _ b Hb. apply in_app_or in Hb as [Hb|Hb]; [exact (rd_bytes_below _ _ _ E1 b Hb)|].
  apply in_app_or in Hb as [Hb|Hb]; [exact (rd_exts_below _ _ _ E2 b Hb)|exact (rd_bytes_below _ _ _ E3 b Hb)].
Qed.

(* ---- the frame: a read depends only on the blocks it reaches ---- *)

Definition same_on (hp hp2 : heap) (bs : list nat) : Prop :=
  forall b, In b bs -> nth_error hp2 b = nth_error hp b.

Lemma rd_bytes_same hp hp2 s : same_on hp hp2 (slice_blocks s) -> rd_bytes hp2 s = rd_bytes hp s.
Proof.
  destruct s as [b|]; cbn [rd_bytes slice_blocks]; [|auto].
  intros H. rewrite (H b (or_introl eq_refl)). reflexivity.
Qed.

Lemma rd_elems_same hp hp2 es : same_on hp hp2 (elems_blocks es) -> rd_elems hp2 es = rd_elems hp es.
Proof.
  induction es as [|[i s] t IH]; cbn [rd_elems elems_blocks flat_map]; [auto|].
  intros H. rewrite (rd_bytes_same hp hp2 s), IH; [reflexivity| |].
  - intros b Hb. apply H, in_or_app. right. exact Hb.
  - intros b Hb. apply H, in_or_app. left. exact Hb.
Qed.

Lemma rd_exts_same hp hp2 s : same_on hp hp2 (exts_blocks hp s) ->
  rd_exts hp2 s = rd_exts hp s /\ exts_blocks hp2 s = exts_blocks hp s.
Proof.
  destruct s as [b|]; cbn [rd_exts exts_blocks]; [|auto].
  intros H. rewrite (H b (or_introl eq_refl)).
  destruct (nth_error hp b) as [[l|es]|] eqn:E; auto.
  rewrite (rd_elems_same hp hp2 es); [auto|]. intros x Hx. apply H. right. exact Hx.
Qed.

Lemma read_same hp hp2 p : same_on hp hp2 (reach hp p) ->
  read hp2 p = read hp p /\ reach hp2 p = reach hp p.
Proof.
  unfold read, reach. intros H.
  assert (H1 : same_on hp hp2 (slice_blocks (m_csrc p))) by (intros b Hb; apply H, in_or_app; auto).
  assert (H2 : same_on hp hp2 (exts_blocks hp (m_exts p)))
    by (intros b Hb; apply H, in_or_app; right; apply in_or_app; auto).
  assert (H3 : same_on hp hp2 (slice_blocks (m_payload p)))
    by (intros b Hb; apply H, in_or_app; right; apply in_or_app; auto).
  destruct (rd_exts_same _ _ _ H2) as [-> ->].
  rewrite (rd_bytes_same _ _ _ H1), (rd_bytes_same _ _ _ H3). auto.
Qed.

Lemma hset_other hp : forall b c b', b <> b' -> nth_error (hset hp b c) b' = nth_error hp b'.
Proof.
  induction hp as [|x t IH]; intros b c b' Hne; [destruct b; reflexivity|].
  destruct b as [|b]; destruct b' as [|b']; cbn [hset nth_error]; try congruence; auto.
Qed.

Definition spares (bs : list nat) (m : mut) : Prop :=
  match m with MWrite b _ => ~ In b bs | MAlloc _ => True end.

Lemma apply_mut_same hp m bs : below (length hp) bs -> spares bs m -> same_on hp (apply_mut hp m) bs.
Proof.
  intros Hb Hs b Hin. destruct m as [w c|c]; cbn [apply_mut spares] in *.
  - apply hset_other. intros ->. exact (Hs Hin).
  - apply nth_error_app1. exact (Hb b Hin).
Qed.

(* no sequence of stores and allocations that spares a packet's blocks changes what it reads *)
Theorem frame : forall ms hp p v, read hp p = Some v ->
  Forall (spares (reach hp p)) ms -> read (fold_left apply_mut ms hp) p = Some v.
Proof.
  induction ms as [|m ms IH]; intros hp p v Hr Hs; cbn [fold_left]; [exact Hr|].
  apply Forall_cons_iff in Hs as [Hm Hs].
  pose proof (apply_mut_same hp m _ (read_below _ _ _ Hr) Hm) as Hsame.
  destruct (read_same _ _ _ Hsame) as [Hrd Hrc].
  apply IH; [congruence|rewrite Hrc; exact Hs].
Qed.

(* ---- Clone ---- *)

Lemma NoDup_app_intro {A} (a b : list A) :
  NoDup a -> NoDup b -> (forall x, In x a -> In x b -> False) -> NoDup (a ++ b).
Proof.
  induction a as [|x a IH]; cbn [app]; intros Ha Hb Hd; [exact Hb|].
  apply NoDup_cons_iff in Ha as [Hx Ha]. constructor.
  - intros Hin. apply in_app_or in Hin as [Hin|Hin]; [exact (Hx Hin)|exact (Hd x (or_introl eq_refl) Hin)].
  - apply IH; auto. intros y Hy. apply Hd. right. exact Hy.
Qed.

Lemma cl_bytes_spec hp s v : rd_bytes hp s = Some v ->
  exists suf s', cl_bytes hp s = Some (hp ++ suf, s') /\ rd_bytes (hp ++ suf) s' = Some v /\
                 within (length hp) (length (hp ++ suf)) (slice_blocks s') /\ NoDup (slice_blocks s').
Proof.
  destruct s as [b|]; cbn [rd_bytes cl_bytes].
  - destruct (nth_error hp b) as [[l|es]|] eqn:E; try discriminate. intros [= <-].
    exists [CBytes l], (Some (length hp)). repeat split.
    + cbn [rd_bytes]. rewrite nth_error_app2, Nat.sub_diag by lia. reflexivity.
    + destruct H as [<-|[]]. lia.
    + destruct H as [<-|[]]. rewrite app_length. cbn [length]. lia.
    + repeat constructor. intros [].
  - intros [= <-]. exists [], None. rewrite app_nil_r. repeat split; try (intros b []); try constructor.
    destruct H. destruct H.
Qed.

Lemma cl_elems_spec : forall es hp v, rd_elems hp es = Some v ->
  exists suf es', cl_elems hp es = Some (hp ++ suf, es') /\ rd_elems (hp ++ suf) es' = Some v /\
                  within (length hp) (length (hp ++ suf)) (elems_blocks es') /\ NoDup (elems_blocks es').
Proof.
  induction es as [|[i s] t IH]; intros hp v; cbn [rd_elems cl_elems].
  - intros [= <-]. exists [], []. rewrite app_nil_r. repeat split; try constructor; destruct H.
  - destruct (rd_bytes hp s) as [x|] eqn:E1; [|discriminate].
    destruct (rd_elems hp t) as [vt|] eqn:E2; [|discriminate]. intros [= <-].
    destruct (cl_bytes_spec _ _ _ E1) as (suf1 & s' & Hc1 & Hr1 & Hw1 & Hn1).
    destruct (IH (hp ++ suf1) vt (rd_elems_ext _ suf1 _ _ E2)) as (suf2 & t' & Hc2 & Hr2 & Hw2 & Hn2).
    exists (suf1 ++ suf2), ((i, s') :: t'). rewrite Hc1, Hc2, app_assoc. repeat split.
    + cbn [rd_elems]. rewrite (rd_bytes_ext _ suf2 _ _ Hr1), Hr2. reflexivity.
    + cbn [elems_blocks flat_map snd] in H. apply in_app_or in H as [H|H].
      * apply Hw1 in H. lia.
      * apply Hw2 in H. rewrite app_length in H. lia.
    + cbn [elems_blocks flat_map snd] in H. apply in_app_or in H as [H|H].
      * apply Hw1 in H. rewrite !app_length in *. lia.
      * apply Hw2 in H. lia.
    + cbn [elems_blocks flat_map snd]. apply NoDup_app_intro; auto.
      intros b Hb1 Hb2. apply Hw1 in Hb1. apply Hw2 in Hb2. lia.
Qed.

Lemma same_on_ext hp suf bs : below (length hp) bs -> same_on hp (hp ++ suf) bs.
Proof. intros Hb b Hin. apply nth_error_app1. exact (Hb b Hin). Qed.

Lemma exts_blocks_ext hp suf s v : rd_exts hp s = Some v -> exts_blocks (hp ++ suf) s = exts_blocks hp s.
Proof.
  intros H. apply (rd_exts_same hp (hp ++ suf) s). apply same_on_ext. exact (rd_exts_below _ _ _ H).
Qed.

Lemma reach_ext hp suf p v : read hp p = Some v -> reach (hp ++ suf) p = reach hp p.
Proof.
  intros H. apply (read_same hp (hp ++ suf) p). apply same_on_ext. exact (read_below _ _ _ H).
Qed.

Lemma cl_exts_spec hp s v : rd_exts hp s = Some v ->
  exists suf s', cl_exts hp s = Some (hp ++ suf, s') /\ rd_exts (hp ++ suf) s' = Some v /\
                 within (length hp) (length (hp ++ suf)) (exts_blocks (hp ++ suf) s') /\
                 NoDup (exts_blocks (hp ++ suf) s').
Proof.
  destruct s as [b|]; cbn [rd_exts cl_exts].
  - destruct (nth_error hp b) as [[l|es]|] eqn:E; try discriminate.
    destruct (rd_elems hp es) as [x|] eqn:E2; [|discriminate]. intros [= <-].
    destruct (cl_elems_spec _ _ _ E2) as (suf1 & es' & Hc & Hr & Hw & Hn).
    exists (suf1 ++ [CElems es']), (Some (length (hp ++ suf1))). rewrite Hc, app_assoc.
    assert (Hnth : nth_error ((hp ++ suf1) ++ [CElems es']) (length (hp ++ suf1)) = Some (CElems es'))
      by (rewrite nth_error_app2, Nat.sub_diag by lia; reflexivity).
    cbn [rd_exts exts_blocks]. rewrite Hnth. repeat split.
    + rewrite (rd_elems_ext _ [CElems es'] _ _ Hr). reflexivity.
    + destruct H as [<-|H]; [rewrite app_length; lia|]. apply Hw in H. lia.
    + destruct H as [<-|H]; [rewrite (app_length (hp ++ suf1)); cbn [length]; lia|].
      apply Hw in H. rewrite (app_length (hp ++ suf1)). lia.
    + constructor; [|exact Hn]. intros H. apply Hw in H. lia.
  - intros [= <-]. exists [], None. rewrite app_nil_r. cbn [rd_exts exts_blocks].
    repeat split; try constructor; destruct H.
Qed.

Theorem clone_spec hp p v : read hp p = Some v ->
  exists suf p', clone hp p = Some (hp ++ suf, p') /\
                 read (hp ++ suf) p' = Some v /\
                 read (hp ++ suf) p = Some v /\
                 within (length hp) (length (hp ++ suf)) (reach (hp ++ suf) p') /\
                 NoDup (reach (hp ++ suf) p').
Proof.
  intros Hread. pose proof Hread as Hread0. unfold read in Hread. unfold clone.
  destruct (rd_bytes hp (m_csrc p)) as [c|] eqn:E1; [|discriminate].
  destruct (rd_exts hp (m_exts p)) as [e|] eqn:E2; [|discriminate].
  destruct (rd_bytes hp (m_payload p)) as [pl|] eqn:E3; [|discriminate].
  injection Hread as <-.
  destruct (cl_bytes_spec _ _ _ E1) as (s1 & c' & Hc1 & Hr1 & Hw1 & Hn1).
  destruct (cl_exts_spec _ _ _ (rd_exts_ext _ s1 _ _ E2)) as (s2 & e' & Hc2 & Hr2 & Hw2 & Hn2).
  assert (E3' : rd_bytes ((hp ++ s1) ++ s2) (m_payload p) = Some pl)
    by (apply rd_bytes_ext, rd_bytes_ext; exact E3).
  destruct (cl_bytes_spec _ _ _ E3') as (s3 & pl' & Hc3 & Hr3 & Hw3 & Hn3).
  exists (s1 ++ s2 ++ s3), (mkMPacket (m_scal p) (m_poff p) c' e' pl' (m_pad p)).
  rewrite Hc1, Hc2, Hc3.
  assert (Hh : ((hp ++ s1) ++ s2) ++ s3 = hp ++ s1 ++ s2 ++ s3) by (rewrite <- !app_assoc; reflexivity).
  rewrite <- Hh.
  assert (Hx : exts_blocks (((hp ++ s1) ++ s2) ++ s3) e' = exts_blocks ((hp ++ s1) ++ s2) e')
    by exact (exts_blocks_ext _ s3 _ _ Hr2).
  assert (L1 : length (hp ++ s1) = (length hp + length s1)%nat) by apply app_length.
  assert (L2 : length ((hp ++ s1) ++ s2) = (length hp + length s1 + length s2)%nat)
    by (rewrite app_length, L1; reflexivity).
  assert (L3 : length (((hp ++ s1) ++ s2) ++ s3) = (length hp + length s1 + length s2 + length s3)%nat)
    by (rewrite app_length, L2; reflexivity).
  split; [reflexivity|]. split; [|split; [|split]].
  - unfold read. cbn [m_csrc m_exts m_payload m_scal m_poff m_pad].
    rewrite (rd_bytes_ext _ s3 _ _ (rd_bytes_ext _ s2 _ _ Hr1)), (rd_exts_ext _ s3 _ _ Hr2), Hr3.
    reflexivity.
  - apply read_ext, read_ext, read_ext. exact Hread0.
  - unfold reach. cbn [m_csrc m_exts m_payload]. rewrite Hx. intros b Hb.
    apply in_app_or in Hb as [Hb|Hb]; [apply Hw1 in Hb; lia|].
    apply in_app_or in Hb as [Hb|Hb]; [apply Hw2 in Hb; lia|apply Hw3 in Hb; lia].
  - unfold reach. cbn [m_csrc m_exts m_payload]. rewrite Hx.
    apply NoDup_app_intro; [exact Hn1| |].
    + apply NoDup_app_intro; [exact Hn2|exact Hn3|].
      intros b Hb1 Hb2. apply Hw2 in Hb1. apply Hw3 in Hb2. lia.
    + intros b Hb1 Hb2. apply Hw1 in Hb1.
      apply in_app_or in Hb2 as [Hb2|Hb2]; [apply Hw2 in Hb2; lia|apply Hw3 in Hb2; lia].
Qed.

(* the two packets reach disjoint sets of blocks *)
Corollary clone_disjoint hp p v hp' p' : read hp p = Some v -> clone hp p = Some (hp', p') ->
  forall b, In b (reach hp' p) -> In b (reach hp' p') -> False.
Proof.
  intros Hr Hc b H1 H2.
  destruct (clone_spec _ _ _ Hr) as (suf & q & Hc' & _ & _ & Hw & _).
  rewrite Hc in Hc'. injection Hc' as -> ->.
  rewrite (reach_ext _ suf _ _ Hr) in H1. apply (read_below _ _ _ Hr) in H1. apply Hw in H2. lia.
Qed.

(* stores through one holder (into its own blocks, or into blocks allocated after the clone) *)
Definition owned_by (hp : heap) (mine : list nat) (m : mut) : Prop :=
  match m with MWrite b _ => In b mine \/ (length hp <= b)%nat | MAlloc _ => True end.

Theorem independent_of_original hp p v hp' p' ms :
  read hp p = Some v -> clone hp p = Some (hp', p') ->
  Forall (owned_by hp' (reach hp' p)) ms -> read (fold_left apply_mut ms hp') p' = Some v.
Proof.
  intros Hr Hc Hms.
  destruct (clone_spec _ _ _ Hr) as (suf & q & Hc' & Hrq & Hrp & Hw & _).
  rewrite Hc in Hc'. injection Hc' as -> ->.
  apply frame; [exact Hrq|]. eapply Forall_impl; [|exact Hms].
  intros [b c|c]; cbn [owned_by spares]; [|auto]. intros [Hin|Hge] Hin2.
  - exact (clone_disjoint _ _ _ _ _ Hr Hc b Hin Hin2).
  - apply Hw in Hin2. lia.
Qed.

Theorem independent_of_clone hp p v hp' p' ms :
  read hp p = Some v -> clone hp p = Some (hp', p') ->
  Forall (owned_by hp' (reach hp' p')) ms -> read (fold_left apply_mut ms hp') p = Some v.
Proof.
  intros Hr Hc Hms.
  destruct (clone_spec _ _ _ Hr) as (suf & q & Hc' & Hrq & Hrp & Hw & _).
  rewrite Hc in Hc'. injection Hc' as -> ->.
  apply frame; [exact Hrp|]. eapply Forall_impl; [|exact Hms].
  intros [b c|c]; cbn [owned_by spares]; [|auto]. intros [Hin|Hge] Hin2.
  - exact (clone_disjoint _ _ _ _ _ Hr Hc b Hin2 Hin).
  - apply (read_below _ _ _ Hrp) in Hin2. lia.
Qed.
