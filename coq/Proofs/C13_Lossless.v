(* C13, end to end for every OBU sequence: AV1Payloader's output is the encoding of structured
   packets whose glued elements are exactly the transmitted OBUs (all but temporal delimiters and
   tile lists, size flag cleared) in order; AV1Depacketizer, fed those packets, returns the same
   OBUs with their size fields. *)
From Coq Require Import ZArith List Lia Bool.
From Coq Require Import ZifyBool.
From RTP Require Import Base.Bits Base.Res Base.ListX Base.Tactics Model.Leb128 Model.Obu Model.Av1Pay Model.Av1Depack
  Spec.Av1Rtp Proofs.Leb128Proofs Proofs.C13_Obu Proofs.C08_Av1 Proofs.C15_Av1 Proofs.C13_Stream Proofs.C13_PayStream.
Import ListNotations.
Open Scope Z_scope.

Definition wf_iobu (o : iobu) : Prop := hdr_in_range (io_hdr o true) /\ zlen (io_body o) < 4294967296.

Lemma io_range o b : wf_iobu o -> hdr_in_range (io_hdr o b).
Proof. intros [H _]. exact H. Qed.

Lemma io_elem_nonempty o : wf_iobu o -> io_elem o <> [].
Proof.
  intros Hw. destruct (obu_parse_marshal (io_hdr o false) (io_body o) (io_range o false Hw)) as [_ Hz].
  unfold io_elem. intros H. apply app_eq_nil in H as [H _]. rewrite H in Hz. change (zlen (@nil Z)) with 0 in Hz.
  pose proof (obu_hdr_size_pos (io_hdr o false)). lia.
Qed.

(* ---- the invariant of the OBU walk ---- *)
Definition jinv (mtu : Z) (st : pst) (sent : list (list Z)) : Prop :=
  exists pks, pays st = bytes_of pks /\ sinv mtu (cnt st) (start_new st) pks /\ pend (pending st) (glue_z pks) = sent.

Lemma sinv_seal mtu count s pks : sinv mtu count s pks -> sinv mtu count true pks.
Proof.
  intros (A & B & C & D). split; [exact A|]. split; [exact B|]. split; [exact C|].
  destruct (rev pks) as [|p rt]; [exact I|]. destruct D as [D|[D1 D2]]; [left; exact D|right; split; [exact D1|right; reflexivity]].
Qed.

Lemma flush_j mtu st need st' sent : 2 <= mtu < 2097152 -> flush_pending mtu st need = Ok st' -> jinv mtu st sent ->
  exists pks, pays st' = bytes_of pks /\ sinv mtu (cnt st') (start_new st') pks /\ glue_z pks = sent /\ pending st' = [].
Proof.
  intros Hm Hf (pks & Hp & Hs & Hg). unfold flush_pending in Hf. destruct (pending st) as [|x pe] eqn:Epe.
  - cbn [pend] in Hg. destruct need; injection Hf as <-; cbn [pays cnt start_new pending].
    + exists pks. split; [exact Hp|]. split; [eapply sinv_seal; exact Hs|]. split; [exact Hg|reflexivity].
    + exists pks. auto.
  - rewrite Hp in Hf.
    destruct (append_obu (bytes_of pks) (x :: pe) (new_seq st) need (start_new st) mtu (cnt st)) as [[ps c]|e|] eqn:Ea; try discriminate.
    injection Hf as <-. cbn [pays cnt start_new pending].
    destruct (append_obu_s pks (x :: pe) (new_seq st) need (start_new st) mtu (cnt st) ps c Hm ltac:(discriminate) Ea Hs)
      as (pks' & Hp' & _ & Hs' & Hg').
    exists pks'. split; [exact Hp'|]. split; [exact Hs'|]. split; [|reflexivity].
    rewrite Hg'. cbn [pend] in Hg. exact Hg.
Qed.

(* one sized OBU of the input *)
Lemma pay_loop_obu fuel mtu o rest st sent st' : 2 <= mtu < 2097152 -> wf_iobu o ->
  pay_loop (S fuel) mtu (io_bytes true o ++ rest) st = Ok st' -> jinv mtu st sent ->
  exists st1, pay_loop fuel mtu rest st1 = Ok st' /\
    jinv mtu st1 (if transmitted o then io_elem o :: sent else sent).
Proof.
  intros Hm Hw Hrun Hj. pose proof Hw as [Hr Hb].
  cbn [pay_loop] in Hrun. unfold io_bytes in Hrun. rewrite <- !app_assoc in Hrun.
  destruct (obu_parse_marshal (io_hdr o true) (write_leb128 (zlen (io_body o)) ++ io_body o ++ rest) Hr) as [Hp Hz].
  remember (obu_hdr_marshal (io_hdr o true) ++ write_leb128 (zlen (io_body o)) ++ io_body o ++ rest) as inp eqn:Ei.
  destruct inp as [|x l'].
  { exfalso. symmetry in Ei. apply app_eq_nil in Ei as [Ei _]. rewrite Ei in Hz. change (zlen (@nil Z)) with 0 in Hz.
    pose proof (obu_hdr_size_pos (io_hdr o true)). lia. }
  rewrite Ei in *. clear Ei x l'. rewrite Hp in Hrun. cbn [ohas_size io_hdr] in Hrun.
  change (obu_hdr_size {| otype := io_type o; oext := io_ext o; ohas_size := true; ores1 := io_res1 o |})
    with (obu_hdr_size (io_hdr o true)) in Hrun.
  rewrite <- Hz, drop_app_exact in Hrun.
  pose proof (zlen_nonneg (io_body o)) as Hb0.
  rewrite (leb128_roundtrip (zlen (io_body o)) (io_body o ++ rest) ltac:(lia)) in Hrun. rewrite drop_app_exact in Hrun.
  change (otype (io_hdr o true)) with (io_type o) in Hrun. change (oext (io_hdr o true)) with (io_ext o) in Hrun.
  change (ores1 (io_hdr o true)) with (io_res1 o) in Hrun.
  rewrite zlen_app in Hrun. pose proof (zlen_nonneg rest).
  replace (zlen (io_body o) + zlen rest <? zlen (io_body o)) with false in Hrun by lia.
  match type of Hrun with context [flush_pending mtu st ?need] =>
    destruct (flush_pending mtu st need) as [st2|e|] eqn:Ef; try discriminate end.
  destruct (flush_j _ _ _ _ _ Hm Ef Hj) as (pks & Hpays & Hs & Hg & Hpe).
  rewrite take_app_exact, drop_app_exact in Hrun.
  unfold transmitted.
  destruct ((io_type o =? 8) || (io_type o =? 2)) eqn:Et.
  - replace ((io_type o =? 2) || (io_type o =? 8)) with true by lia. cbn [negb].
    eexists. split; [exact Hrun|]. exists pks. unfold with_cur. cbn [pays cnt start_new pending].
    split; [exact Hpays|]. split; [exact Hs|]. rewrite Hpe. exact Hg.
  - replace ((io_type o =? 2) || (io_type o =? 8)) with false by lia. cbn [negb].
    eexists. split; [exact Hrun|]. exists pks. unfold with_cur. cbn [pays cnt start_new pending].
    split; [exact Hpays|]. split; [exact Hs|].
    fold (io_hdr o false). fold (io_elem o).
    pose proof (io_elem_nonempty o Hw) as Hne. destruct (io_elem o) as [|e0 et] eqn:Ee; [congruence|].
    cbn [pend]. rewrite Hg. reflexivity.
Qed.

Lemma io_bytes_len o : wf_iobu o -> (2 <= length (io_bytes true o))%nat.
Proof.
  intros Hw. unfold io_bytes. rewrite !app_length.
  destruct (obu_parse_marshal (io_hdr o true) [] (io_range o true Hw)) as [_ Hz].
  pose proof (obu_hdr_size_pos (io_hdr o true)).
  assert (1 <= length (obu_hdr_marshal (io_hdr o true)))%nat by (unfold zlen in Hz; lia).
  pose proof (zlen_nonneg (io_body o)). destruct Hw as [_ Hb].
  pose proof (leb_nonempty (zlen (io_body o)) ltac:(lia)). lia.
Qed.

Lemma pay_loop_obus mtu : 2 <= mtu < 2097152 -> forall obus fuel st sent st', Forall wf_iobu obus ->
  (length obus < fuel)%nat ->
  pay_loop fuel mtu (stream obus) st = Ok st' -> jinv mtu st sent ->
  jinv mtu st' (rev (map io_elem (filter transmitted obus)) ++ sent).
Proof.
  intros Hm. induction obus as [|o t IH]; intros fuel st sent st' Hall Hf Hrun Hj.
  - destruct fuel; [cbn [length] in Hf; lia|]. cbn [stream map concat pay_loop] in Hrun. injection Hrun as <-. exact Hj.
  - destruct fuel; [cbn [length] in Hf; lia|].
    apply Forall_cons_iff in Hall as [Hw Hall].
    change (stream (o :: t)) with (io_bytes true o ++ stream t) in Hrun.
    destruct (pay_loop_obu fuel mtu o (stream t) st sent st' Hm Hw Hrun Hj) as (st1 & Hrun1 & Hj1).
    specialize (IH fuel st1 _ st' Hall ltac:(cbn [length] in Hf; lia) Hrun1 Hj1).
    cbn [filter]. destruct (transmitted o); cbn [map rev].
    + rewrite <- app_assoc. exact IH.
    + exact IH.
Qed.

(* the last OBU of a temporal unit may omit its size field: it then extends to the end of the input *)
Lemma pay_loop_last_unsized fuel mtu o st sent st' : 2 <= mtu < 2097152 -> wf_iobu o ->
  pay_loop (S fuel) mtu (io_bytes false o) st = Ok st' -> jinv mtu st sent ->
  exists st1, pay_loop fuel mtu [] st1 = Ok st' /\
    jinv mtu st1 (if transmitted o then io_elem o :: sent else sent).
Proof.
  intros Hm Hw Hrun Hj. pose proof Hw as [Hr Hb].
  cbn [pay_loop] in Hrun. unfold io_bytes in Hrun. cbn [app] in Hrun.
  destruct (obu_parse_marshal (io_hdr o false) (io_body o) (io_range o false Hw)) as [Hp Hz].
  remember (obu_hdr_marshal (io_hdr o false) ++ io_body o) as inp eqn:Ei.
  destruct inp as [|x l'].
  { exfalso. symmetry in Ei. apply app_eq_nil in Ei as [Ei _]. rewrite Ei in Hz. change (zlen (@nil Z)) with 0 in Hz.
    pose proof (obu_hdr_size_pos (io_hdr o false)). lia. }
  rewrite Ei in *. clear Ei x l'. rewrite Hp in Hrun. cbn [ohas_size io_hdr] in Hrun.
  change (obu_hdr_size {| otype := io_type o; oext := io_ext o; ohas_size := false; ores1 := io_res1 o |})
    with (obu_hdr_size (io_hdr o false)) in Hrun.
  rewrite <- Hz, drop_app_exact in Hrun.
  change (otype (io_hdr o false)) with (io_type o) in Hrun. change (oext (io_hdr o false)) with (io_ext o) in Hrun.
  change (ores1 (io_hdr o false)) with (io_res1 o) in Hrun.
  replace (zlen (io_body o) <? zlen (io_body o)) with false in Hrun by lia.
  match type of Hrun with context [flush_pending mtu st ?need] =>
    destruct (flush_pending mtu st need) as [st2|e|] eqn:Ef; try discriminate end.
  destruct (flush_j _ _ _ _ _ Hm Ef Hj) as (pks & Hpays & Hs & Hg & Hpe).
  rewrite (take_all (zlen (io_body o)) (io_body o)), (drop_all (zlen (io_body o)) (io_body o)) in Hrun by lia.
  unfold transmitted.
  destruct ((io_type o =? 8) || (io_type o =? 2)) eqn:Et.
  - replace ((io_type o =? 2) || (io_type o =? 8)) with true by lia. cbn [negb].
    eexists. split; [exact Hrun|]. exists pks. unfold with_cur. cbn [pays cnt start_new pending].
    split; [exact Hpays|]. split; [exact Hs|]. rewrite Hpe. exact Hg.
  - replace ((io_type o =? 2) || (io_type o =? 8)) with false by lia. cbn [negb].
    eexists. split; [exact Hrun|]. exists pks. unfold with_cur. cbn [pays cnt start_new pending].
    split; [exact Hpays|]. split; [exact Hs|].
    fold (io_hdr o false). fold (io_elem o).
    pose proof (io_elem_nonempty o Hw) as Hne. destruct (io_elem o) as [|e0 et] eqn:Ee; [congruence|].
    cbn [pend]. rewrite Hg. reflexivity.
Qed.

(* ---- the whole Payload call ---- *)
Lemma stream_len obus : Forall wf_iobu obus -> (2 * length obus <= length (stream obus))%nat.
Proof.
  induction obus as [|o t IH]; intros Hall; [cbn; lia|].
  apply Forall_cons_iff in Hall as [Hw Hall]. change (stream (o :: t)) with (io_bytes true o ++ stream t).
  rewrite app_length. pose proof (io_bytes_len o Hw). specialize (IH Hall). cbn [length]. lia.
Qed.

Lemma jinv_init mtu : jinv mtu {| pays := []; pending := []; cur := None; cnt := 0; new_seq := false; start_new := false |} [].
Proof.
  exists []. split; [reflexivity|]. split; [|reflexivity].
  split; [constructor|]. split; [exact I|]. split; [reflexivity|exact I].
Qed.

Theorem av1_payload_stream mtu obus : 2 <= mtu < 2097152 -> Forall wf_iobu obus ->
  exists pks, av1_payload mtu (stream obus) = Ok (map spk_bytes pks) /\
    Forall (ok_pk mtu) pks /\ chained false pks /\ last_y pks = false /\
    glue_z pks = rev (map io_elem (filter transmitted obus)).
Proof.
  intros Hm Hall.
  unfold av1_payload. replace (mtu <=? 1) with false by lia. cbn [orb].
  destruct (zlen (stream obus) =? 0) eqn:E0.
  { assert (obus = []).
    { destruct obus as [|o t]; [reflexivity|]. pose proof (stream_len (o :: t) Hall) as H. cbn [length] in H. unfold zlen in E0. lia. }
    subst obus. exists []. cbn. repeat split; try constructor. }
  set (st0 := {| pays := []; pending := []; cur := None; cnt := 0; new_seq := false; start_new := false |}).
  destruct (pay_loop_ok (S (length (stream obus))) mtu (stream obus) st0 Hm ltac:(lia) ltac:(constructor)) as (st & El & Hok).
  rewrite El.
  pose proof (pay_loop_obus mtu Hm obus (S (length (stream obus))) st0 [] st Hall ltac:(pose proof (stream_len obus Hall); lia) El (jinv_init mtu)) as (pks & Hp & Hs & Hg).
  rewrite app_nil_r in Hg.
  destruct (pending st) as [|x pe] eqn:Epe.
  - cbn [pend] in Hg. exists pks. rewrite Hp. unfold bytes_of. rewrite rev_involutive.
    destruct Hs as (A & B & C & _). auto.
  - unfold pst_ok in Hok.
    destruct (append_obu_ok (pays st) (x :: pe) (new_seq st) true (start_new st) mtu (cnt st) Hm Hok) as (ps & c & Ea & _).
    rewrite Ea. rewrite Hp in Ea.
    destruct (append_obu_s pks (x :: pe) (new_seq st) true (start_new st) mtu (cnt st) ps c Hm ltac:(discriminate) Ea Hs)
      as (pks' & Hp' & _ & Hs' & Hg').
    exists pks'. rewrite Hp'. unfold bytes_of. rewrite rev_involutive.
    destruct Hs' as (A & B & C & _). split; [reflexivity|]. split; [exact A|]. split; [exact B|]. split; [exact C|].
    rewrite Hg'. cbn [pend] in Hg. exact Hg.
Qed.

(* ---- end to end ---- *)
Lemma enc_elems_bound w : forall es e, In e es -> zlen e <= zlen (enc_elems w es).
Proof.
  induction es as [|x t IH]; intros e Hin; [contradiction|].
  destruct t as [|x2 t'].
  - destruct Hin as [->|[]]. cbn [enc_elems]. destruct w; [lia|]. rewrite zlen_app. pose proof (zlen_nonneg (write_leb128 (zlen e))). lia.
  - change (enc_elems w (x :: x2 :: t')) with (write_leb128 (zlen x) ++ x ++ enc_elems w (x2 :: t')).
    rewrite !zlen_app. pose proof (zlen_nonneg (write_leb128 (zlen x))). pose proof (zlen_nonneg x).
    pose proof (zlen_nonneg (enc_elems w (x2 :: t'))).
    destruct Hin as [->|Hin]; [lia|]. specialize (IH e Hin). lia.
Qed.

Lemma ok_pk_wf mtu p : mtu < 2097152 -> ok_pk mtu p -> wf_spk p.
Proof.
  intros Hm [A B C D E]. split; [exact A|]. split; [|split; [exact C|exact D]].
  rewrite Forall_forall in *. intros e Hin. split; [apply B; exact Hin|].
  pose proof (enc_elems_bound (sp_w p) (sp_elems p) e Hin). unfold spk_bytes in E. rewrite zlen_cons in E. lia.
Qed.

Lemma chained_chain_ok mtu : mtu < 2097152 -> forall pks py, Forall (ok_pk mtu) pks -> chained py pks -> chain_ok py pks.
Proof.
  intros Hm. induction pks as [|p t IH]; intros py Hok Hch; [exact I|].
  apply Forall_cons_iff in Hok as [Hp Hok]. destruct Hch as [Hz Hch].
  split; [exact (ok_pk_wf mtu p Hm Hp)|]. split; [exact Hz|]. apply IH; assumption.
Qed.

Lemma io_elem_good o : wf_iobu o -> transmitted o = true -> good_obu (io_elem o).
Proof.
  intros Hw Ht. exists (io_hdr o false). unfold io_elem.
  destruct (obu_parse_marshal (io_hdr o false) (io_body o) (io_range o false Hw)) as [Hp _].
  split; [exact Hp|]. split; [reflexivity|]. unfold transmitted in Ht. cbn [io_hdr otype]. lia.
Qed.

Lemma io_elem_redeliver o : wf_iobu o -> redeliver (io_elem o) = io_bytes true o.
Proof.
  intros Hw. unfold redeliver, io_elem.
  destruct (obu_parse_marshal (io_hdr o false) (io_body o) (io_range o false Hw)) as [Hp Hz].
  rewrite Hp. rewrite <- Hz, drop_app_exact. reflexivity.
Qed.

Theorem av1_lossless mtu obus st : 2 <= mtu < 2097152 -> Forall wf_iobu obus ->
  exists pks outs, av1_payload mtu (stream obus) = Ok (map spk_bytes pks) /\
    chain_ok false pks /\ Forall (fun p => zlen (spk_bytes p) <= mtu) pks /\
    glue [] pks = (map io_elem (filter transmitted obus), []) /\
    snd (av1_run st (map spk_bytes pks)) = oks outs /\
    concat outs = concat (map (io_bytes true) (filter transmitted obus)).
Proof.
  intros Hm Hall.
  destruct (av1_payload_stream mtu obus Hm Hall) as (pks & Hpay & Hok & Hch & Hly & Hg).
  assert (Hchain : chain_ok false pks) by (apply (chained_chain_ok mtu); [lia|exact Hok|exact Hch]).
  assert (Hne : Forall (fun p => sp_elems p <> [] /\ Forall (fun e => e <> []) (sp_elems p)) pks).
  { eapply Forall_impl; [|exact Hok]. intros p [A B _ _ _]. split; assumption. }
  pose proof (glue_of_glue_z pks Hch Hly Hne) as Hglue. rewrite Hg, rev_involutive in Hglue.
  (* the receiver's own buffer does not matter: the first packet has Z = 0 *)
  assert (Hgb : glue (ad_buffer st) pks = (map io_elem (filter transmitted obus), if pks then ad_buffer st else [])).
  { destruct pks as [|p t]; [cbn [glue] in *; injection Hglue as <-; reflexivity|].
    destruct Hch as [Hz _]. cbn [glue] in *. rewrite Hz in *. exact Hglue. }
  assert (Hgood : Forall good_obu (map io_elem (filter transmitted obus))).
  { apply Forall_map. rewrite Forall_forall in *. intros o Hin. apply filter_In in Hin as [Hin Ht].
    apply io_elem_good; [apply Hall; exact Hin|exact Ht]. }
  destruct (av1_run_stream pks st false Hchain ltac:(discriminate) ltac:(rewrite Hgb; exact Hgood)) as (outs & Hr & Hc & _).
  exists pks, outs. split; [exact Hpay|]. split; [exact Hchain|].
  split; [eapply Forall_impl; [|exact Hok]; intros p [_ _ _ _ E]; exact E|].
  split; [exact Hglue|]. split; [exact Hr|].
  rewrite Hc, Hgb. cbn [fst]. rewrite map_map. f_equal.
  apply map_ext_in. intros o Hin. apply filter_In in Hin as [Hin _]. apply io_elem_redeliver.
  rewrite Forall_forall in Hall. apply Hall. exact Hin.
Qed.

(* ---- the same with the size field omitted on the last OBU ---- *)

Lemma pay_loop_prefix mtu : 2 <= mtu < 2097152 -> forall obus fuel st sent st' tl, Forall wf_iobu obus ->
  (length obus < fuel)%nat ->
  pay_loop fuel mtu (stream obus ++ tl) st = Ok st' -> jinv mtu st sent ->
  exists st1, pay_loop (fuel - length obus) mtu tl st1 = Ok st' /\
    jinv mtu st1 (rev (map io_elem (filter transmitted obus)) ++ sent).
Proof.
  intros Hm. induction obus as [|o t IH]; intros fuel st sent st' tl Hall Hf Hrun Hj.
  - cbn [stream map concat app length] in *. rewrite Nat.sub_0_r. exists st. auto.
  - destruct fuel; [cbn [length] in Hf; lia|].
    apply Forall_cons_iff in Hall as [Hw Hall].
    change (stream (o :: t) ++ tl) with ((io_bytes true o ++ stream t) ++ tl) in Hrun. rewrite <- app_assoc in Hrun.
    destruct (pay_loop_obu fuel mtu o (stream t ++ tl) st sent st' Hm Hw Hrun Hj) as (st1 & Hrun1 & Hj1).
    destruct (IH fuel st1 _ st' tl Hall ltac:(cbn [length] in Hf; lia) Hrun1 Hj1) as (st2 & Hrun2 & Hj2).
    exists st2. cbn [length]. split; [exact Hrun2|].
    cbn [filter]. destruct (transmitted o); cbn [map rev]; [rewrite <- app_assoc|]; exact Hj2.
Qed.

Lemma finish_payload mtu st sent : 2 <= mtu < 2097152 -> pst_ok mtu st -> jinv mtu st sent ->
  exists pks,
    match pending st with
    | [] => Ok (rev (pays st))
    | pe => match append_obu (pays st) pe (new_seq st) true (start_new st) mtu (cnt st) with
            | Panic => Panic | Err e => Err e | Ok (ps, _) => Ok (rev ps) end
    end = Ok (map spk_bytes pks) /\
    Forall (ok_pk mtu) pks /\ chained false pks /\ last_y pks = false /\ glue_z pks = sent.
Proof.
  intros Hm Hok (pks & Hp & Hs & Hg).
  destruct (pending st) as [|x pe] eqn:Epe.
  - cbn [pend] in Hg. exists pks. rewrite Hp. unfold bytes_of. rewrite rev_involutive.
    destruct Hs as (A & B & C & _). auto.
  - unfold pst_ok in Hok.
    destruct (append_obu_ok (pays st) (x :: pe) (new_seq st) true (start_new st) mtu (cnt st) Hm Hok) as (ps & c & Ea & _).
    rewrite Ea. rewrite Hp in Ea.
    destruct (append_obu_s pks (x :: pe) (new_seq st) true (start_new st) mtu (cnt st) ps c Hm ltac:(discriminate) Ea Hs)
      as (pks' & Hp' & _ & Hs' & Hg').
    exists pks'. rewrite Hp'. unfold bytes_of. rewrite rev_involutive.
    destruct Hs' as (A & B & C & _). split; [reflexivity|]. split; [exact A|]. split; [exact B|]. split; [exact C|].
    rewrite Hg'. cbn [pend] in Hg. exact Hg.
Qed.

Lemma io_bytes_u_len o : wf_iobu o -> (1 <= length (io_bytes false o))%nat.
Proof.
  intros Hw. unfold io_bytes. rewrite !app_length.
  destruct (obu_parse_marshal (io_hdr o false) [] (io_range o false Hw)) as [_ Hz].
  pose proof (obu_hdr_size_pos (io_hdr o false)). unfold zlen in Hz. lia.
Qed.

Theorem av1_payload_stream_u mtu init lst : 2 <= mtu < 2097152 -> Forall wf_iobu init -> wf_iobu lst ->
  exists pks, av1_payload mtu (stream_u init lst) = Ok (map spk_bytes pks) /\
    Forall (ok_pk mtu) pks /\ chained false pks /\ last_y pks = false /\
    glue_z pks = rev (map io_elem (filter transmitted (init ++ [lst]))).
Proof.
  intros Hm Hall Hl.
  unfold av1_payload. replace (mtu <=? 1) with false by lia. cbn [orb].
  pose proof (stream_len init Hall) as Hsl. pose proof (io_bytes_u_len lst Hl) as Hul.
  assert (Hlen : (2 * length init + 1 <= length (stream_u init lst))%nat) by (unfold stream_u; rewrite app_length; lia).
  replace (zlen (stream_u init lst) =? 0) with false by (unfold zlen; lia).
  set (st0 := {| pays := []; pending := []; cur := None; cnt := 0; new_seq := false; start_new := false |}).
  destruct (pay_loop_ok (S (length (stream_u init lst))) mtu (stream_u init lst) st0 Hm ltac:(lia) ltac:(constructor)) as (st & El & Hok).
  rewrite El. unfold stream_u in El.
  destruct (pay_loop_prefix mtu Hm init (S (length (stream init ++ io_bytes false lst))) st0 [] st (io_bytes false lst) Hall ltac:(unfold stream_u in Hlen; lia) El (jinv_init mtu))
    as (st1 & Hrun1 & Hj1).
  rewrite app_nil_r in Hj1.
  remember (S (length (stream init ++ io_bytes false lst)) - length init)%nat as f1 eqn:Ef1.
  destruct f1 as [|f1]; [unfold stream_u in Hlen; lia|].
  destruct (pay_loop_last_unsized f1 mtu lst st1 _ st Hm Hl Hrun1 Hj1) as (st2 & Hrun2 & Hj2).
  destruct f1 as [|f2]; [unfold stream_u in Hlen; lia|].
  cbn [pay_loop] in Hrun2. injection Hrun2 as <-.
  destruct (finish_payload mtu st2 _ Hm Hok Hj2) as (pks & Hfin & A & B & C & D).
  exists pks. split; [exact Hfin|]. split; [exact A|]. split; [exact B|]. split; [exact C|].
  rewrite D. rewrite filter_app, map_app, rev_app_distr. cbn [filter]. destruct (transmitted lst); reflexivity.
Qed.

Lemma depack_of_stream mtu pks all st : mtu < 2097152 -> Forall wf_iobu all ->
  Forall (ok_pk mtu) pks -> chained false pks -> last_y pks = false ->
  glue_z pks = rev (map io_elem (filter transmitted all)) ->
  chain_ok false pks /\ glue [] pks = (map io_elem (filter transmitted all), []) /\
  exists outs, snd (av1_run st (map spk_bytes pks)) = oks outs /\
    concat outs = concat (map (io_bytes true) (filter transmitted all)).
Proof.
  intros Hm Hall Hok Hch Hly Hg.
  assert (Hchain : chain_ok false pks) by (apply (chained_chain_ok mtu); [lia|exact Hok|exact Hch]).
  assert (Hne : Forall (fun p => sp_elems p <> [] /\ Forall (fun e => e <> []) (sp_elems p)) pks).
  { eapply Forall_impl; [|exact Hok]. intros p [A B _ _ _]. split; assumption. }
  pose proof (glue_of_glue_z pks Hch Hly Hne) as Hglue. rewrite Hg, rev_involutive in Hglue.
  assert (Hgb : glue (ad_buffer st) pks = (map io_elem (filter transmitted all), if pks then ad_buffer st else [])).
  { destruct pks as [|p t]; [cbn [glue] in *; injection Hglue as <-; reflexivity|].
    destruct Hch as [Hz _]. cbn [glue] in *. rewrite Hz in *. exact Hglue. }
  assert (Hgood : Forall good_obu (map io_elem (filter transmitted all))).
  { apply Forall_map. rewrite Forall_forall in *. intros o Hin. apply filter_In in Hin as [Hin Ht].
    apply io_elem_good; [apply Hall; exact Hin|exact Ht]. }
  destruct (av1_run_stream pks st false Hchain ltac:(discriminate) ltac:(rewrite Hgb; exact Hgood)) as (outs & Hr & Hc & _).
  split; [exact Hchain|]. split; [exact Hglue|]. exists outs. split; [exact Hr|].
  rewrite Hc, Hgb. cbn [fst]. rewrite map_map. f_equal.
  apply map_ext_in. intros o Hin. apply filter_In in Hin as [Hin _]. apply io_elem_redeliver.
  rewrite Forall_forall in Hall. apply Hall. exact Hin.
Qed.

Theorem av1_lossless_u mtu init lst st : 2 <= mtu < 2097152 -> Forall wf_iobu init -> wf_iobu lst ->
  exists pks outs, av1_payload mtu (stream_u init lst) = Ok (map spk_bytes pks) /\
    chain_ok false pks /\ Forall (fun p => zlen (spk_bytes p) <= mtu) pks /\
    glue [] pks = (map io_elem (filter transmitted (init ++ [lst])), []) /\
    snd (av1_run st (map spk_bytes pks)) = oks outs /\
    concat outs = concat (map (io_bytes true) (filter transmitted (init ++ [lst]))).
Proof.
  intros Hm Hall Hl.
  destruct (av1_payload_stream_u mtu init lst Hm Hall Hl) as (pks & Hpay & Hok & Hch & Hly & Hg).
  assert (Hall2 : Forall wf_iobu (init ++ [lst])) by (apply Forall_app; split; [exact Hall|constructor; [exact Hl|constructor]]).
  destruct (depack_of_stream mtu pks (init ++ [lst]) st ltac:(lia) Hall2 Hok Hch Hly Hg) as (Hchain & Hglue & outs & Hr & Hc).
  exists pks, outs. split; [exact Hpay|]. split; [exact Hchain|].
  split; [eapply Forall_impl; [|exact Hok]; intros p [_ _ _ _ E]; exact E|]. auto.
Qed.
