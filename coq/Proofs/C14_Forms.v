(* C14, parser clause: H265Packet decodes every well-formed RFC 7798 payload (Spec/Rfc7798.v:
   single NAL unit, aggregation, fragmentation unit, PACI; with and without DONL/DOND) to exactly
   the encoded field values. *)
From Coq Require Import ZArith List Lia Bool.
From Coq Require Import ZifyBool.
From RTP Require Import Base.Bits Base.Res Base.ListX Base.Bytes Base.Tactics
  Model.H265 Spec.Rfc7798 Proofs.C14_Accessors.
Import ListNotations.
Open Scope Z_scope.

Definition od (with_donl : bool) (v : Z) : option Z := if with_donl then Some v else None.

Definition expected (d : bool) (f : form) : h5packet :=
  match f with
  | FSingle ty layer tid donl payload => PSingle (phdr ty layer tid) (od d donl) payload
  | FAgg layer tid donl first others =>
    PAgg (od d donl) first (map (fun x => (od d (fst x), snd x)) others)
  | FFu layer tid s e futype donl payload =>
    PFu (phdr 49 layer tid) (fu_header s e futype) (od (d && s) donl) payload
  | FPaci layer tid a ctype phs f0 f1 f2 y phes payload =>
    PPaci (phdr 50 layer tid) (paci_word a ctype phs f0 f1 f2 y) phes payload
  end.

Lemma put16_split v : 0 <= v < 65536 -> exists a b, put16 v = [a; b] /\ Z.lor (Z.shiftl a 8) b = v.
Proof.
  intros H. pose proof (put16_be16 v H) as P. unfold put16 in *. do 2 eexists. split; [reflexivity|].
  destruct P as (P & _). exact P.
Qed.

Lemma phdr_fields ty layer tid : 0 <= ty < 64 -> 0 <= layer < 64 -> 0 <= tid < 8 ->
  nh_f (phdr ty layer tid) = false /\ nh_type (phdr ty layer tid) = ty /\ 0 <= phdr ty layer tid < 65536.
Proof.
  intros Ht Hl Hd. pose proof (nalu_header_fields false ty layer tid Ht Hl Hd) as H. cbv zeta in H.
  change ((if false then 32768 else 0) + ty * 512 + layer * 8 + tid) with (phdr ty layer tid) in H.
  destruct H as (H1 & H2 & _). repeat split; try assumption; unfold phdr; lia.
Qed.

Lemma nonempty_zlen {A} (l : list A) : l <> [] -> 1 <= zlen l.
Proof. destruct l; [contradiction|]. intros _. rewrite zlen_cons. pose proof (zlen_nonneg l). lia. Qed.

(* the aggregation-unit walk, with and without DOND *)
Lemma agg_others_units d : forall others fuel acc, (length others < fuel)%nat ->
  Forall (fun x => 0 <= fst x < 256 /\ zlen (snd x) < 65536) others ->
  agg_others fuel d (concat (map (agg_unit d) others)) acc
  = rev acc ++ map (fun x => (od d (fst x), snd x)) others.
Proof.
  induction others as [|[dd u] t IH]; intros fuel acc Hf Hall;
    (destruct fuel as [|fuel]; [cbn [length] in Hf; lia|]).
  - cbn [map concat agg_others]. rewrite app_nil_r. destruct d; reflexivity.
  - apply Forall_cons_iff in Hall. destruct Hall as [[Hd Hu] Ht]. cbn [fst snd] in Hd, Hu.
    cbn [map concat]. unfold agg_unit at 1. cbn [fst snd].
    pose proof (zlen_nonneg u) as Hu0.
    destruct (put16_split (zlen u) ltac:(lia)) as (a & b & -> & Hab).
    assert (Hmain : agg_others fuel d (drop (zlen u) (u ++ concat (map (agg_unit d) t)))
                      ((od d dd, take (zlen u) (u ++ concat (map (agg_unit d) t))) :: acc)
                    = rev acc ++ (od d dd, u) :: map (fun x => (od d (fst x), snd x)) t).
    { rewrite take_app_exact, drop_app_exact.
      rewrite IH; [|cbn [length] in Hf; lia|exact Ht].
      cbn [rev]. rewrite <- app_assoc. reflexivity. }
    destruct d; cbn [agg_others app od].
    + unfold be16. rewrite Hab.
      replace (zlen (u ++ concat (map (agg_unit true) t)) <? zlen u) with false
        by (rewrite zlen_app; pose proof (zlen_nonneg (concat (map (agg_unit true) t))); lia).
      exact Hmain.
    + unfold be16. rewrite Hab.
      replace (zlen (u ++ concat (map (agg_unit false) t)) <? zlen u) with false
        by (rewrite zlen_app; pose proof (zlen_nonneg (concat (map (agg_unit false) t))); lia).
      exact Hmain.
Qed.

Lemma agg_clean_units_d d : forall others fuel, (length others < fuel)%nat ->
  Forall (fun x => 0 <= fst x < 256 /\ zlen (snd x) < 65536) others ->
  agg_clean fuel d (concat (map (agg_unit d) others)) = true.
Proof.
  induction others as [|[dd u] t IH]; intros fuel Hf Hall;
    (destruct fuel as [|fuel]; [cbn [length] in Hf; lia|]).
  - reflexivity.
  - apply Forall_cons_iff in Hall. destruct Hall as [[Hd Hu] Ht]. cbn [fst snd] in Hd, Hu.
    cbn [map concat]. unfold agg_unit at 1. cbn [fst snd].
    pose proof (zlen_nonneg u) as Hu0.
    destruct (put16_split (zlen u) ltac:(lia)) as (a & b & -> & Hab).
    assert (Hmain : agg_clean fuel d (drop (zlen u) (u ++ concat (map (agg_unit d) t))) = true).
    { rewrite drop_app_exact. apply IH; [cbn [length] in Hf; lia|exact Ht]. }
    destruct d; cbn [agg_clean app].
    + unfold be16. rewrite Hab.
      replace (zlen (u ++ concat (map (agg_unit true) t)) <? zlen u) with false
        by (rewrite zlen_app; pose proof (zlen_nonneg (concat (map (agg_unit true) t))); lia).
      exact Hmain.
    + unfold be16. rewrite Hab.
      replace (zlen (u ++ concat (map (agg_unit false) t)) <? zlen u) with false
        by (rewrite zlen_app; pose proof (zlen_nonneg (concat (map (agg_unit false) t))); lia).
      exact Hmain.
Qed.

Ltac kill_if c v := replace c with v by (symmetry; lia).
Ltac no_short :=
  match goal with
  | |- context [if ?c then Err EShort else _] =>
    replace c with false by (symmetry; rewrite ?zlen_cons, ?zlen_nil, ?zlen_app; lia)
  end.

Lemma single_form d ty layer tid donl payload : wf_form (FSingle ty layer tid donl payload) ->
  h265_unmarshal d (Some (encode d (FSingle ty layer tid donl payload)))
  = Ok (expected d (FSingle ty layer tid donl payload)).
Proof.
  intros (Hty & Hl & Ht & Hd & Hp). cbn [encode expected].
  destruct (phdr_fields ty layer tid ltac:(lia) Hl Ht) as (Hf & Htype & Hrange).
  destruct (put16_split _ Hrange) as (p0 & p1 & -> & Hh).
  pose proof (nonempty_zlen payload Hp) as Hlen.
  unfold h265_unmarshal. cbn [app]. rewrite !zlen_cons, zlen_app.
  pose proof (zlen_nonneg (opt16 d donl)).
  kill_if (1 + (1 + (zlen (opt16 d donl) + zlen payload)) <=? 2) false.
  rewrite Hh, Hf, Htype.
  kill_if (ty =? 50) false. kill_if (ty =? 49) false. kill_if (ty =? 48) false.
  destruct d; cbn [opt16 od app].
  - destruct (put16_split donl Hd) as (d0 & d1 & -> & Hdd). cbn [app]. rewrite !zlen_cons.
    rewrite ?zlen_nil. no_short. rewrite Hdd. reflexivity.
  - reflexivity.
Qed.

Lemma fu_form d layer tid s e futype donl payload : wf_form (FFu layer tid s e futype donl payload) ->
  h265_unmarshal d (Some (encode d (FFu layer tid s e futype donl payload)))
  = Ok (expected d (FFu layer tid s e futype donl payload)).
Proof.
  intros (Hl & Ht & Hft & Hd & Hp). cbn [encode expected].
  destruct (phdr_fields 49 layer tid ltac:(lia) Hl Ht) as (Hf & Htype & Hrange).
  destruct (put16_split _ Hrange) as (p0 & p1 & -> & Hh).
  pose proof (nonempty_zlen payload Hp) as Hlen.
  destruct (fu_header_fields s e futype Hft) as (Hs & _). cbv zeta in Hs.
  change ((if s then 128 else 0) + (if e then 64 else 0) + futype) with (fu_header s e futype) in Hs.
  unfold h265_unmarshal. cbn [app]. rewrite !zlen_cons, zlen_app.
  pose proof (zlen_nonneg (opt16 (d && s) donl)).
  kill_if (1 + (1 + (1 + (zlen (opt16 (d && s) donl) + zlen payload))) <=? 2) false.
  rewrite Hh, Hf, Htype. change (49 =? 50) with false. change (49 =? 49) with true. cbv iota.
  kill_if (1 + (1 + (1 + (zlen (opt16 (d && s) donl) + zlen payload))) <=? 3) false.
  rewrite Hs. rewrite (andb_comm s d).
  destruct (d && s) eqn:E; cbn [opt16 od app].
  - destruct (put16_split donl Hd) as (d0 & d1 & -> & Hdd). cbn [app]. rewrite !zlen_cons.
    rewrite ?zlen_nil. no_short. rewrite Hdd. reflexivity.
  - reflexivity.
Qed.

Lemma paci_form d layer tid a ctype phs f0 f1 f2 y phes payload :
  wf_form (FPaci layer tid a ctype phs f0 f1 f2 y phes payload) ->
  h265_unmarshal d (Some (encode d (FPaci layer tid a ctype phs f0 f1 f2 y phes payload)))
  = Ok (expected d (FPaci layer tid a ctype phs f0 f1 f2 y phes payload)).
Proof.
  intros (Hl & Ht & Hc & Hphs & Hlen & Hp). cbn [encode expected].
  destruct (phdr_fields 50 layer tid ltac:(lia) Hl Ht) as (Hf & Htype & Hrange).
  destruct (put16_split _ Hrange) as (p0 & p1 & -> & Hh).
  pose proof (nonempty_zlen payload Hp) as Hpl.
  destruct (paci_fields a ctype phs f0 f1 f2 y Hc Hphs) as (_ & _ & Hsz & _). cbv zeta in Hsz.
  change ((if a then 32768 else 0) + ctype * 512 + phs * 16 + (if f0 then 8 else 0) + (if f1 then 4 else 0)
          + (if f2 then 2 else 0) + (if y then 1 else 0)) with (paci_word a ctype phs f0 f1 f2 y) in Hsz.
  assert (Hw : 0 <= paci_word a ctype phs f0 f1 f2 y < 65536)
    by (unfold paci_word; destruct a, f0, f1, f2, y; lia).
  destruct (put16_split _ Hw) as (w0 & w1 & -> & Hww).
  unfold h265_unmarshal. cbn [app]. rewrite !zlen_cons, zlen_app.
  kill_if (1 + (1 + (1 + (1 + (zlen phes + zlen payload)))) <=? 2) false.
  rewrite Hh, Hf, Htype. change (50 =? 50) with true. cbv iota.
  kill_if (1 + (1 + (1 + (1 + (zlen phes + zlen payload)))) <=? 4) false.
  rewrite Hww, Hsz. rewrite ?zlen_app. no_short.
  rewrite <- Hlen. rewrite take_app_exact, drop_app_exact.
  destruct (0 <? zlen phes) eqn:E; [reflexivity|].
  assert (phes = []) by (apply zlen_zero; pose proof (zlen_nonneg phes); lia). subst phes. reflexivity.
Qed.

Lemma length_units d (others : list (Z * list Z)) :
  (length others <= length (concat (map (agg_unit d) others)))%nat.
Proof.
  induction others as [|x t IH]; cbn [map concat length]; [lia|].
  rewrite app_length. unfold agg_unit at 1. rewrite !app_length. unfold put16. cbn [length]. lia.
Qed.

Lemma agg_form d layer tid donl first others : wf_form (FAgg layer tid donl first others) ->
  h265_unmarshal d (Some (encode d (FAgg layer tid donl first others)))
  = Ok (expected d (FAgg layer tid donl first others)).
Proof.
  intros (Hl & Ht & Hd & Hfirst & Hne & Hall). cbn [encode expected].
  destruct (phdr_fields 48 layer tid ltac:(lia) Hl Ht) as (Hf & Htype & Hrange).
  destruct (put16_split _ Hrange) as (p0 & p1 & -> & Hh).
  pose proof (zlen_nonneg first) as Hf0.
  destruct (put16_split (zlen first) ltac:(lia)) as (s0 & s1 & Hs & Hss).
  set (rest := concat (map (agg_unit d) others)).
  assert (Hrest : 1 <= zlen rest).
  { subst rest. destruct others as [|[dd u] t]; [contradiction|]. cbn [map concat]. rewrite zlen_app.
    unfold agg_unit at 1. cbn [fst snd]. rewrite !zlen_app. unfold put16. rewrite !zlen_cons, zlen_nil.
    pose proof (zlen_nonneg u). pose proof (zlen_nonneg (concat (map (agg_unit d) t))).
    pose proof (zlen_nonneg (if d then [dd] else [])). lia. }
  assert (Hwalk : forall fd, (if zlen (first ++ rest) <? zlen first then Err EShort else
            if negb (agg_clean (S (length (first ++ rest))) d (drop (zlen first) (first ++ rest))) then Err EShort else
            match agg_others (S (length (first ++ rest))) d (drop (zlen first) (first ++ rest)) [] with
            | [] => Err EShort
            | _ :: _ => Ok (PAgg fd (take (zlen first) (first ++ rest))
                              (agg_others (S (length (first ++ rest))) d (drop (zlen first) (first ++ rest)) []))
            end) = Ok (PAgg fd first (map (fun x => (od d (fst x), snd x)) others))).
  { intros fd. rewrite zlen_app. kill_if (zlen first + zlen rest <? zlen first) false.
    rewrite take_app_exact, drop_app_exact. subst rest.
    assert (Hfu : (length others < S (length (first ++ concat (map (agg_unit d) others))))%nat)
      by (rewrite app_length; pose proof (length_units d others); lia).
    rewrite (agg_clean_units_d d others _ Hfu Hall). cbn [negb].
    rewrite agg_others_units; [|exact Hfu|exact Hall].
    cbn [rev app]. destruct others as [|x t]; [contradiction|]. reflexivity. }
  unfold h265_unmarshal. cbn [app]. rewrite !zlen_cons.
  pose proof (zlen_nonneg (opt16 d donl ++ put16 (zlen first) ++ first ++ rest)).
  replace (1 + (1 + zlen (opt16 d donl ++ put16 (zlen first) ++ first ++ rest)) <=? 2) with false
    by (symmetry; rewrite !zlen_app; rewrite Hs, !zlen_cons, zlen_nil; pose proof (zlen_nonneg (opt16 d donl)); lia).
  rewrite Hh, Hf, Htype. change (48 =? 50) with false. change (48 =? 49) with false. change (48 =? 48) with true.
  cbv iota. rewrite Hs.
  destruct d; cbn [opt16 od app].
  - destruct (put16_split donl Hd) as (d0 & d1 & -> & Hdd). cbn [app]. rewrite Hdd, Hss. apply Hwalk.
  - rewrite Hss. apply Hwalk.
Qed.

Theorem parse_forms : forall d f, wf_form f ->
  h265_unmarshal d (Some (encode d f)) = Ok (expected d f).
Proof.
  intros d [ty layer tid donl payload|layer tid donl first others|layer tid s e futype donl payload
           |layer tid a ctype phs f0 f1 f2 y phes payload] H.
  - apply single_form, H.
  - apply agg_form, H.
  - apply fu_form, H.
  - apply paci_form, H.
Qed.

(* the TSCI extension of a PACI packet: present exactly when F0 is set and the PHES has at least
   three bytes, and then built from the first three PHES bytes *)
Theorem paci_tsci_spec a ctype phs f0 f1 f2 y phes : 0 <= ctype < 64 -> 0 <= phs < 32 -> zlen phes = phs ->
  paci_tsci (paci_word a ctype phs f0 f1 f2 y) phes
  = Ok (if f0 && (3 <=? phs) then match phes with p0 :: p1 :: p2 :: _ => Some (tsci_of p0 p1 p2) | _ => None end
        else None).
Proof.
  intros Hc Hp Hlen.
  destruct (paci_fields a ctype phs f0 f1 f2 y Hc Hp) as (_ & _ & Hsz & Hf0 & _). cbv zeta in Hsz, Hf0.
  change ((if a then 32768 else 0) + ctype * 512 + phs * 16 + (if f0 then 8 else 0) + (if f1 then 4 else 0)
          + (if f2 then 2 else 0) + (if y then 1 else 0)) with (paci_word a ctype phs f0 f1 f2 y) in Hsz, Hf0.
  unfold paci_tsci. rewrite Hsz, Hf0.
  destruct f0; cbn [negb orb andb]; [|reflexivity].
  destruct (phs <? 3) eqn:E.
  - replace (3 <=? phs) with false by lia. reflexivity.
  - replace (3 <=? phs) with true by lia.
    destruct phes as [|p0 [|p1 [|p2 r]]]; rewrite ?zlen_cons, ?zlen_nil in Hlen; try lia. reflexivity.
Qed.
