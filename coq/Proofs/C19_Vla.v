(* C19: VLA.Unmarshal is total and never reports more bytes than it was given; VLA.Marshal
   rejects exactly the out-of-range and duplicate inputs. *)
From Coq Require Import ZArith List Lia Bool.
From Coq Require Import ZifyBool.
From RTP Require Import Base.Bits Base.Res Base.ListX Base.Bytes Base.Tactics Model.ExtCodecs Model.Leb128 Model.Vla
  Proofs.Leb128Proofs.
Import ListNotations.
Open Scope Z_scope.

(* ---- Unmarshal: totality and the consumed count ---- *)

Definition within_total {A} (total : Z) (r : vres A) (ok : A -> Prop) : Prop :=
  match r with VPanic => False | VErr o _ => o <= total | VOk a => ok a end.

Lemma read_tls_total : forall slots idx l off acc total, l <> [] -> off + zlen l = total ->
  within_total total (read_tls slots idx l off acc)
    (fun '(ls, l', off') => l' <> [] /\ off' + zlen l' = total).
Proof.
  induction slots as [|[s sp] t IH]; intros idx l off acc total Hne Hoff; cbn [read_tls within_total].
  - auto.
  - destruct l as [|b l']; [congruence|]. rewrite zlen_cons in Hoff. pose proof (zlen_nonneg l').
    destruct (4 <=? idx) eqn:E; cbn [tl].
    + destruct l' as [|b' l'']; cbn [within_total]; [lia|].
      apply IH; [congruence|]. rewrite zlen_cons in *. lia.
    + apply IH; [congruence|]. rewrite zlen_cons. lia.
Qed.

Lemma read_rates_total : forall k l off total, off + zlen l = total ->
  within_total total (read_rates k l off) (fun '(vs, l', off') => off' + zlen l' = total /\ length vs = k).
Proof.
  induction k as [|k IH]; intros l off total Hoff; cbn [read_rates within_total]; [auto|].
  pose proof (zlen_nonneg l).
  destruct (read_leb128 l) as [[v n]|] eqn:E; cbn [within_total]; [|lia].
  apply read_leb128_bounds in E.
  specialize (IH (drop n l) (off + n) total ltac:(rewrite drop_zlen by lia; lia)).
  destruct (read_rates k (drop n l) (off + n)) as [[[vs l'] off']|o e|]; cbn [within_total] in *; auto.
  destruct IH as [? ?]. split; [assumption|cbn [length]; lia].
Qed.

Lemma read_all_rates_total : forall ls l off total, off + zlen l = total ->
  within_total total (read_all_rates ls l off) (fun '(xs, l', off') => off' + zlen l' = total /\ length xs = length ls).
Proof.
  induction ls as [|x t IH]; intros l off total Hoff; cbn [read_all_rates within_total]; [auto|].
  pose proof (read_rates_total (length (sl_bitrates x)) l off total Hoff) as H1.
  destruct (read_rates (length (sl_bitrates x)) l off) as [[[vs l1] off1]|o e|]; cbn [within_total] in *; auto.
  destruct H1 as [H1 _]. specialize (IH l1 off1 total H1).
  destruct (read_all_rates t l1 off1) as [[[xs l2] off2]|o e|]; cbn [within_total] in *; auto.
  destruct IH as [? ?]. split; [assumption|cbn [length]; lia].
Qed.

Theorem vla_unmarshal_total prev bs :
  match vla_unmarshal prev bs with
  | VPanic => False
  | VErr o _ => o <= zlen bs
  | VOk (_, n) => n <= zlen bs
  end.
Proof.
  unfold vla_unmarshal. destruct bs as [|b0 l1]; [cbn; lia|].
  rewrite zlen_cons. pose proof (zlen_nonneg l1) as Hl1.
  set (count := Z.land (Z.shiftr b0 4) 3 + 1).
  set (slbm := Z.land b0 15).
  assert (Hq : 0 <= Z.quot (count - 1) 2 + 1).
  { subst count. autorewrite with bits. rewrite Z.quot_div_nonneg by lia. lia. }
  set (need := Z.quot (count - 1) 2 + 1) in *.
  (* the two header forms leave (bms, l2, off2) with off2 + |l2| = total *)
  assert (Hhdr : forall hdr : vres (list Z * list Z * Z),
            within_total (1 + zlen l1) hdr (fun '(_, l2, off2) => off2 + zlen l2 = 1 + zlen l1) ->
            match
              match hdr with
              | VErr o e => VErr o e
              | VPanic => VPanic
              | VOk (bms, l2, off2) =>
                match l2 with
                | [] => VErr off2 EVlaShort
                | _ =>
                  match read_tls (active_slots count bms) 0 l2 off2 [] with
                  | VErr o e => VErr o e
                  | VPanic => VPanic
                  | VOk (ls, l3, off3) =>
                    match read_all_rates ls (tl l3) (off3 + 1) with
                    | VErr o e => VErr o e
                    | VPanic => VPanic
                    | VOk (ls', l5, off5) =>
                      match l5 with
                      | [] => VOk (mkVla (Z.land (Z.shiftr b0 6) 3) count ls' false, off5)
                      | _ =>
                        if zlen l5 <? zlen ls' * 5 then VErr off5 EVlaShort
                        else VOk (mkVla (Z.land (Z.shiftr b0 6) 3) count (read_res ls' l5) true, off5 + zlen ls' * 5)
                      end
                    end
                  end
                end
              end
            with
            | VPanic => False
            | VErr o _ => o <= 1 + zlen l1
            | VOk (_, n) => n <= 1 + zlen l1
            end).
  { intros [[[bms l2] off2]|o e|]; cbn [within_total]; auto. intros Hoff.
    destruct l2 as [|x l2']; [change (zlen (@nil Z)) with 0 in Hoff; lia|].
    pose proof (read_tls_total (active_slots count bms) 0 (x :: l2') off2 [] (1 + zlen l1) ltac:(congruence) Hoff) as H1.
    destruct (read_tls (active_slots count bms) 0 (x :: l2') off2 []) as [[[ls l3] off3]|o e|]; cbn [within_total] in H1; auto.
    destruct H1 as [Hne3 Hoff3]. destruct l3 as [|y l3']; [congruence|]. cbn [tl]. rewrite zlen_cons in Hoff3.
    pose proof (read_all_rates_total ls l3' (off3 + 1) (1 + zlen l1) ltac:(lia)) as H2.
    destruct (read_all_rates ls l3' (off3 + 1)) as [[[ls' l5] off5]|o e|]; cbn [within_total] in H2; auto.
    destruct H2 as [Hoff5 _]. pose proof (zlen_nonneg l5).
    destruct l5 as [|z l5']; [lia|].
    destruct (zlen (z :: l5') <? zlen ls' * 5) eqn:E; lia. }
  apply Hhdr.
  destruct (negb (slbm =? 0)); cbn [within_total]; [lia|].
  destruct (zlen l1 <? need) eqn:E; cbn [within_total]; [lia|].
  rewrite drop_zlen by lia. lia.
Qed.

(* ---- Marshal: what is rejected ---- *)

Definition layer_ok (count : Z) (l : slayer) : bool :=
  (0 <=? sl_stream l) && (sl_stream l <? count) && (0 <=? sl_spatial l) && (sl_spatial l <? 4) &&
  (1 <=? zlen (sl_bitrates l)) && (zlen (sl_bitrates l) <=? 4).

Definition same_slot (a b : slayer) : bool := (sl_stream a =? sl_stream b) && (sl_spatial a =? sl_spatial b).

Fixpoint slots_unique (ls : list slayer) : bool :=
  match ls with [] => true | l :: t => negb (existsb (same_slot l) t) && slots_unique t end.

Definition ranges_okb (v : vla) : bool :=
  (1 <=? v_count v) && (v_count v <=? 4) && (0 <=? v_rid v) && (v_rid v <? v_count v) &&
  forallb (layer_ok (v_count v)) (v_layers v) && slots_unique (v_layers v).

Lemma find_layer_none ls s sp :
  find_layer ls s sp = None <-> forall x, In x ls -> (sl_stream x =? s) && (sl_spatial x =? sp) = false.
Proof.
  unfold find_layer. split.
  - intros H x Hx. exact (find_none _ _ H x Hx).
  - induction ls as [|y t IH]; cbn [find]; [auto|]. intros H.
    rewrite (H y (or_introl eq_refl)). apply IH. intros x Hx. apply H. right. exact Hx.
Qed.

Lemma preprocess_none : forall ls seen count,
  preprocess count ls seen = None <->
  forallb (layer_ok count) ls = true /\ slots_unique ls = true /\
  (forall l x, In l ls -> In x seen -> same_slot x l = false).
Proof.
  induction ls as [|l t IH]; intros seen count; cbn [preprocess forallb slots_unique].
  - split; [intros _; repeat split; auto; intros ? ? []|auto].
  - unfold layer_ok at 1.
    destruct ((sl_stream l <? 0) || (count <=? sl_stream l)) eqn:E1.
    { split; [discriminate|]. intros (H & _). exfalso. lia. }
    destruct ((sl_spatial l <? 0) || (4 <=? sl_spatial l)) eqn:E2.
    { split; [discriminate|]. intros (H & _). exfalso. lia. }
    destruct ((zlen (sl_bitrates l) =? 0) || (4 <? zlen (sl_bitrates l))) eqn:E3.
    { split; [discriminate|]. intros (H & _). exfalso. pose proof (zlen_nonneg (sl_bitrates l)). lia. }
    pose proof (zlen_nonneg (sl_bitrates l)) as Hz.
    destruct (find_layer seen (sl_stream l) (sl_spatial l)) as [y|] eqn:E4.
    { split; [discriminate|]. intros (_ & _ & H). exfalso.
      unfold find_layer in E4. pose proof (find_some _ _ E4) as [Hin Hy].
      specialize (H l y (or_introl eq_refl) Hin). unfold same_slot in H. lia. }
    rewrite IH. pose proof (proj1 (find_layer_none _ _ _) E4) as E4'. clear E4. rename E4' into E4.
    replace ((0 <=? sl_stream l) && (sl_stream l <? count) && (0 <=? sl_spatial l) && (sl_spatial l <? 4) &&
             (1 <=? zlen (sl_bitrates l)) && (zlen (sl_bitrates l) <=? 4)) with true by lia.
    cbn [andb]. split.
    + intros (Hf & Hu & Hs). split; [exact Hf|]. split.
      * rewrite Hu, andb_true_r. apply negb_true_iff. apply not_true_is_false. intros Hex.
        apply existsb_exists in Hex as (x & Hx & Hxs).
        specialize (Hs x l Hx ltac:(apply in_or_app; right; left; reflexivity)). congruence.
      * intros a x [<-|Ha] Hx.
        -- specialize (E4 x Hx). unfold same_slot. exact E4.
        -- apply Hs; [exact Ha|apply in_or_app; left; exact Hx].
    + intros (Hf & Hu & Hs). apply andb_prop in Hu as [Hn Hu]. split; [exact Hf|]. split; [exact Hu|].
      intros a x Ha Hx. apply in_app_or in Hx as [Hx|[<-|[]]].
      * apply Hs; [right; exact Ha|exact Hx].
      * apply negb_true_iff in Hn. apply not_true_is_false. intros Hss. apply not_true_iff_false in Hn.
        apply Hn. apply existsb_exists. exists a. split; [exact Ha|exact Hss].
Qed.

Theorem vla_marshal_rejects v : (exists e, vla_marshal v = Err e) <-> ranges_okb v = false.
Proof.
  unfold vla_marshal, ranges_okb.
  destruct ((v_count v <=? 0) || (4 <? v_count v)) eqn:E1.
  { split; [intros _; lia|intros _; eexists; reflexivity]. }
  destruct ((v_rid v <? 0) || (v_count v <=? v_rid v)) eqn:E2.
  { split; [intros _; lia|intros _; eexists; reflexivity]. }
  replace ((1 <=? v_count v) && (v_count v <=? 4) && (0 <=? v_rid v) && (v_rid v <? v_count v)) with true by lia.
  cbn [andb].
  destruct (preprocess (v_count v) (v_layers v) []) as [e|] eqn:E3.
  - split; [|intros _; eexists; reflexivity]. intros _.
    destruct (forallb (layer_ok (v_count v)) (v_layers v) && slots_unique (v_layers v)) eqn:E4; [|reflexivity].
    apply andb_prop in E4 as [Ha Hb].
    assert (preprocess (v_count v) (v_layers v) [] = None) by (apply preprocess_none; repeat split; auto; intros ? ? _ []).
    congruence.
  - apply preprocess_none in E3 as (Ha & Hb & _). rewrite Ha, Hb. cbn [andb].
    split; [|discriminate]. intros [e He].
    match type of He with (if ?c then _ else _) = _ => destruct c end; discriminate.
Qed.

(* which error: an offending layer of that kind exists *)
Lemma slots_unique_dup : forall a y l t, In y a -> same_slot y l = true -> slots_unique (a ++ l :: t) = false.
Proof.
  induction a as [|x a IH]; intros y l t Hin Hs; [destruct Hin|].
  cbn [app slots_unique]. destruct Hin as [<-|Hin].
  - replace (existsb (same_slot x) (a ++ l :: t)) with true; [reflexivity|].
    symmetry. apply existsb_exists. exists l. split; [apply in_or_app; right; left; reflexivity|exact Hs].
  - rewrite (IH y l t Hin Hs). apply andb_false_r.
Qed.

Lemma preprocess_error : forall ls seen count e, preprocess count ls seen = Some e ->
  match e with
  | EVlaStreamID => exists l, In l ls /\ (sl_stream l < 0 \/ count <= sl_stream l)
  | EVlaSpatialID => exists l, In l ls /\ (sl_spatial l < 0 \/ 4 <= sl_spatial l)
  | EVlaTemporal => exists l, In l ls /\ (zlen (sl_bitrates l) = 0 \/ 4 < zlen (sl_bitrates l))
  | EVlaDuplicate => slots_unique (seen ++ ls) = false
  | _ => False
  end.
Proof.
  induction ls as [|l t IH]; intros seen count e; cbn [preprocess]; [discriminate|].
  destruct ((sl_stream l <? 0) || (count <=? sl_stream l)) eqn:E1.
  { intros [= <-]. exists l. split; [left; reflexivity|lia]. }
  destruct ((sl_spatial l <? 0) || (4 <=? sl_spatial l)) eqn:E2.
  { intros [= <-]. exists l. split; [left; reflexivity|lia]. }
  destruct ((zlen (sl_bitrates l) =? 0) || (4 <? zlen (sl_bitrates l))) eqn:E3.
  { intros [= <-]. exists l. split; [left; reflexivity|lia]. }
  destruct (find_layer seen (sl_stream l) (sl_spatial l)) as [y|] eqn:E4.
  { intros [= <-]. unfold find_layer in E4. pose proof (find_some _ _ E4) as [Hin Hy].
    apply (slots_unique_dup seen y l t Hin). unfold same_slot. exact Hy. }
  intros H. specialize (IH _ _ _ H).
  destruct e; auto; try (destruct IH as (a & Ha & Hc); exists a; split; [right; exact Ha|exact Hc]).
  rewrite <- app_assoc in IH. exact IH.
Qed.

Theorem vla_marshal_error_kind v e : vla_marshal v = Err e ->
  match e with
  | EVlaStreamCount => v_count v <= 0 \/ 4 < v_count v
  | EVlaStreamID => v_rid v < 0 \/ v_count v <= v_rid v \/
                    exists l, In l (v_layers v) /\ (sl_stream l < 0 \/ v_count v <= sl_stream l)
  | EVlaSpatialID => exists l, In l (v_layers v) /\ (sl_spatial l < 0 \/ 4 <= sl_spatial l)
  | EVlaTemporal => exists l, In l (v_layers v) /\ (zlen (sl_bitrates l) = 0 \/ 4 < zlen (sl_bitrates l))
  | EVlaDuplicate => slots_unique (v_layers v) = false
  | _ => False
  end.
Proof.
  unfold vla_marshal.
  destruct ((v_count v <=? 0) || (4 <? v_count v)) eqn:E1; [intros [= <-]; lia|].
  destruct ((v_rid v <? 0) || (v_count v <=? v_rid v)) eqn:E2; [intros [= <-]; lia|].
  destruct (preprocess (v_count v) (v_layers v) []) as [e'|] eqn:E3.
  - intros [= <-]. pose proof (preprocess_error _ _ _ _ E3) as H. destruct e'; auto; destruct H.
  - match goal with |- (if ?c then _ else _) = _ -> _ => destruct c end; discriminate.
Qed.
