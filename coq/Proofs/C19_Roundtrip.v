(* C19: pieces of the VLA round trip (Unmarshal after Marshal), proved separately. *)
From Coq Require Import ZArith List Lia Bool Sorted.
From Coq Require Import ZifyBool.
From RTP Require Import Base.Bits Base.Res Base.ListX Base.Bytes Base.Tactics Model.ExtCodecs Model.Leb128 Model.Vla
  Proofs.Leb128Proofs.
Import ListNotations.
Open Scope Z_scope.
Ltac bits := autorewrite with bits.
Ltac Zify.zify_post_hook ::= Z.div_mod_to_equations.

(* ---- bitrates ---- *)

(* a non-negative Go int *)
Definition rate_ok (v : Z) : Prop := 0 <= v < 9223372036854775808.   (* 2^63 *)

Lemma read_rates_roundtrip : forall vs rest off, Forall rate_ok vs ->
  read_rates (length vs) (flat_map write_leb128 vs ++ rest) off =
  VOk (vs, rest, off + zlen (flat_map write_leb128 vs)).
Proof.
  induction vs as [|v vs IH]; intros rest off Hall; cbn [length read_rates flat_map app].
  - change (zlen (@nil Z)) with 0. rewrite Z.add_0_r. reflexivity.
  - apply Forall_cons_iff in Hall as [Hv Hall]. rewrite <- app_assoc.
    rewrite (leb128_roundtrip_64 v (flat_map write_leb128 vs ++ rest) ltac:(unfold rate_ok in Hv; lia)).
    rewrite drop_app_exact. rewrite (IH rest (off + zlen (write_leb128 v)) Hall).
    assert (Hi : i64 v = v) by (unfold i64, rate_ok in *; rewrite Z.mod_small by lia; lia).
    rewrite Hi, zlen_app. f_equal. f_equal. lia.
Qed.

Definition strip (l : slayer) : slayer := mkSLayer (sl_stream l) (sl_spatial l) (sl_bitrates l) 0 0 0.
Definition shape_of (l : slayer) : slayer :=
  mkSLayer (sl_stream l) (sl_spatial l) (repeat 0 (length (sl_bitrates l))) 0 0 0.
Definition rates_bytes (ls : list slayer) : list Z :=
  flat_map (fun l => flat_map write_leb128 (sl_bitrates l)) ls.

Lemma read_all_rates_roundtrip : forall ls rest off,
  Forall (fun l => Forall rate_ok (sl_bitrates l)) ls ->
  read_all_rates (map shape_of ls) (rates_bytes ls ++ rest) off =
  VOk (map strip ls, rest, off + zlen (rates_bytes ls)).
Proof.
  induction ls as [|l ls IH]; intros rest off Hall; cbn [map read_all_rates rates_bytes flat_map app].
  - change (zlen (@nil Z)) with 0. rewrite Z.add_0_r. reflexivity.
  - apply Forall_cons_iff in Hall as [Hl Hall].
    cbn [shape_of sl_bitrates sl_stream sl_spatial]. rewrite repeat_length. rewrite <- app_assoc.
    rewrite (read_rates_roundtrip (sl_bitrates l) _ off Hl).
    fold (rates_bytes ls). rewrite (IH rest _ Hall). rewrite zlen_app.
    unfold strip at 2. f_equal. f_equal. lia.
Qed.

(* ---- resolution records ---- *)

Definition res_ok (l : slayer) : Prop :=
  1 <= sl_width l <= 65536 /\ 1 <= sl_height l <= 65536 /\ 0 <= sl_framerate l < 256.

Definition res_bytes (ls : list slayer) : list Z :=
  flat_map (fun l => put16 (u16 (sl_width l - 1)) ++ put16 (u16 (sl_height l - 1)) ++ [u8 (sl_framerate l)]) ls.

Lemma read_res_roundtrip : forall ls, Forall res_ok ls -> read_res (map strip ls) (res_bytes ls) = ls.
Proof.
  induction ls as [|l ls IH]; intros Hall; [reflexivity|].
  apply Forall_cons_iff in Hall as [(Hw & Hh & Hf) Hall].
  cbn [map res_bytes flat_map]. fold (res_bytes ls).
  pose proof (put16_be16 (u16 (sl_width l - 1)) ltac:(unfold u16; lia)) as Pw.
  pose proof (put16_be16 (u16 (sl_height l - 1)) ltac:(unfold u16; lia)) as Ph.
  destruct (put16 (u16 (sl_width l - 1))) as [|w0 [|w1 [|? ?]]]; try contradiction.
  destruct (put16 (u16 (sl_height l - 1))) as [|h0 [|h1 [|? ?]]]; try contradiction.
  destruct Pw as (Pw & _). destruct Ph as (Ph & _).
  cbn [app read_res strip sl_stream sl_spatial sl_bitrates]. rewrite Pw, Ph, (IH Hall).
  destruct l as [s sp br w h f]. cbn [sl_width sl_height sl_framerate sl_stream sl_spatial sl_bitrates] in *.
  unfold u16, u8. rewrite !Z.mod_small by lia. f_equal. f_equal; lia.
Qed.

Lemma zlen_res_bytes ls : zlen (res_bytes ls) = 5 * zlen ls.
Proof.
  induction ls as [|l ls IH]; [reflexivity|]. cbn [res_bytes flat_map]. fold (res_bytes ls).
  rewrite zlen_app, IH, zlen_cons. unfold put16. cbn [app]. rewrite !zlen_cons.
  change (zlen (@nil Z)) with 0. lia.
Qed.

(* ---- temporal layer counts: 2-bit fields, four per byte ---- *)

Definition pack4 (a b c d : Z) : Z :=
  Z.lor (Z.lor (Z.lor (u8 (Z.shiftl a 6)) (u8 (Z.shiftl b 4))) (u8 (Z.shiftl c 2))) (u8 d).
Definition field2 (B i : Z) : Z := Z.land (Z.shiftr B (2 * (3 - i))) 3.

Definition two_bit (v : Z) : Prop := 0 <= v < 4.

Lemma pack4_fields a b c d : two_bit a -> two_bit b -> two_bit c -> two_bit d ->
  field2 (pack4 a b c d) 0 = a /\ field2 (pack4 a b c d) 1 = b /\
  field2 (pack4 a b c d) 2 = c /\ field2 (pack4 a b c d) 3 = d.
Proof.
  unfold two_bit. intros Ha Hb Hc Hd.
  assert (Ca : a = 0 \/ a = 1 \/ a = 2 \/ a = 3) by lia.
  assert (Cb : b = 0 \/ b = 1 \/ b = 2 \/ b = 3) by lia.
  assert (Cc : c = 0 \/ c = 1 \/ c = 2 \/ c = 3) by lia.
  assert (Cd : d = 0 \/ d = 1 \/ d = 2 \/ d = 3) by lia.
  destruct Ca as [->|[->|[->| ->]]]; destruct Cb as [->|[->|[->| ->]]];
  destruct Cc as [->|[->|[->| ->]]]; destruct Cd as [->|[->|[->| ->]]]; repeat split; reflexivity.
Qed.

Definition key (l : slayer) : Z * Z := (sl_stream l, sl_spatial l).
Definition tl_ok (l : slayer) : Prop := 1 <= zlen (sl_bitrates l) <= 4.
Definition tlval (l : slayer) : Z := u8 (zlen (sl_bitrates l) - 1).
Definition tlvals (ls : list slayer) : list Z := map tlval ls.

Lemma tlval_two_bit l : tl_ok l -> two_bit (tlval l).
Proof. unfold tl_ok, two_bit, tlval, u8. intros H. rewrite Z.mod_small by lia. lia. Qed.

Lemma shape_of_tl s sp l : tl_ok l -> s = sl_stream l -> sp = sl_spatial l ->
  mkSLayer s sp (repeat 0 (Z.to_nat (tlval l + 1))) 0 0 0 = shape_of l.
Proof.
  intros H -> ->. unfold shape_of, tlval, u8, tl_ok in *. rewrite Z.mod_small by lia.
  f_equal. f_equal. unfold zlen. lia.
Qed.

Definition list_ind4 {A} (P : list A -> Prop)
  (H0 : P []) (H1 : forall a, P [a]) (H2 : forall a b, P [a; b]) (H3 : forall a b c, P [a; b; c])
  (H4 : forall a b c d t, P t -> P (a :: b :: c :: d :: t)) : forall l, P l :=
  fix go (l : list A) : P l :=
    match l with
    | [] => H0
    | [a] => H1 a
    | [a; b] => H2 a b
    | [a; b; c] => H3 a b c
    | a :: b :: c :: d :: t => H4 a b c d t (go t)
    end.

Lemma pack_tl_1 a : pack_tl [a] = [pack4 a 0 0 0].
Proof. unfold pack4. cbn [pack_tl]. change (u8 (Z.shiftl 0 4)) with 0. change (u8 (Z.shiftl 0 2)) with 0.
       change (u8 0) with 0. rewrite !Z.lor_0_r. reflexivity. Qed.
Lemma pack_tl_2 a b : pack_tl [a; b] = [pack4 a b 0 0].
Proof. unfold pack4. cbn [pack_tl]. change (u8 (Z.shiftl 0 2)) with 0. change (u8 0) with 0.
       rewrite !Z.lor_0_r. reflexivity. Qed.
Lemma pack_tl_3 a b c : pack_tl [a; b; c] = [pack4 a b c 0].
Proof. unfold pack4. cbn [pack_tl]. change (u8 0) with 0. rewrite !Z.lor_0_r. reflexivity. Qed.
Lemma pack_tl_4 a b c d t : pack_tl (a :: b :: c :: d :: t) = pack4 a b c d :: pack_tl t.
Proof. reflexivity. Qed.

(* moving on to the next byte *)
Lemma read_tls_next s t X l off acc : l <> [] ->
  read_tls (s :: t) 4 (X :: l) off acc = read_tls (s :: t) 0 l (off + 1) acc.
Proof. intros Hne. destruct l as [|y l']; [congruence|]. destruct s as [s sp]. reflexivity. Qed.

Lemma pack_tl_nonempty vs : vs <> [] -> pack_tl vs <> [].
Proof. destruct vs as [|a [|b [|c [|d t]]]]; cbn [pack_tl]; congruence. Qed.

Lemma zlen_pack_tl_pos vs : vs <> [] -> 1 <= zlen (pack_tl vs).
Proof.
  intros H. apply pack_tl_nonempty in H. destruct (pack_tl vs); [congruence|].
  rewrite zlen_cons. pose proof (zlen_nonneg l). lia.
Qed.

Lemma drop_succ {A} (x : A) l k : 0 <= k -> drop (1 + k) (x :: l) = drop k l.
Proof. intros Hk. unfold drop. replace (Z.to_nat (1 + k)) with (S (Z.to_nat k)) by lia. reflexivity. Qed.

Lemma read_tls_step s sp t idx B l off acc : 0 <= idx < 4 ->
  read_tls ((s, sp) :: t) idx (B :: l) off acc =
  read_tls t (idx + 1) (B :: l) off (mkSLayer s sp (repeat 0 (Z.to_nat (field2 B idx + 1))) 0 0 0 :: acc).
Proof. intros H. cbn [read_tls]. replace (4 <=? idx) with false by lia. reflexivity. Qed.

Lemma read_tls_done idx l off acc : read_tls [] idx l off acc = VOk (rev acc, l, off).
Proof. reflexivity. Qed.

Ltac tl_fields a b c d :=
  let F0 := fresh "F0" in let F1 := fresh "F1" in let F2 := fresh "F2" in let F3 := fresh "F3" in
  destruct (pack4_fields a b c d) as (F0 & F1 & F2 & F3);
  [ try (apply tlval_two_bit; assumption); unfold two_bit; lia ..
  | rewrite ?F0, ?F1, ?F2, ?F3 ].

Lemma read_tls_roundtrip : forall ls, ls <> [] -> Forall tl_ok ls -> forall rest off acc,
  read_tls (map key ls) 0 (pack_tl (tlvals ls) ++ rest) off acc =
  VOk (rev acc ++ map shape_of ls,
       drop (zlen (pack_tl (tlvals ls)) - 1) (pack_tl (tlvals ls) ++ rest),
       off + (zlen (pack_tl (tlvals ls)) - 1)).
Proof.
  induction ls as [|a|a b|a b c|a b c d t IH] using list_ind4; intros Hne Hall rest off acc; [congruence| | | |].
  - apply Forall_cons_iff in Hall as [Ha _].
    cbn [tlvals map]. rewrite pack_tl_1. cbn [app]. unfold key.
    rewrite (read_tls_step _ _ _ 0) by lia. rewrite read_tls_done.
    tl_fields (tlval a) 0 0 0.
    rewrite (shape_of_tl _ _ a Ha eq_refl eq_refl).
    change (zlen [pack4 (tlval a) 0 0 0]) with 1. cbn [rev app]. rewrite drop_0, Z.add_0_r. reflexivity.
  - apply Forall_cons_iff in Hall as [Ha Hall]. apply Forall_cons_iff in Hall as [Hb _].
    cbn [tlvals map]. rewrite pack_tl_2. cbn [app]. unfold key.
    rewrite (read_tls_step _ _ _ 0) by lia. change (0 + 1) with 1.
    rewrite (read_tls_step _ _ _ 1) by lia. rewrite read_tls_done.
    tl_fields (tlval a) (tlval b) 0 0.
    rewrite (shape_of_tl _ _ a Ha eq_refl eq_refl), (shape_of_tl _ _ b Hb eq_refl eq_refl).
    change (zlen [pack4 (tlval a) (tlval b) 0 0]) with 1. cbn [rev app]. rewrite <- app_assoc. cbn [app].
    rewrite drop_0, Z.add_0_r. reflexivity.
  - apply Forall_cons_iff in Hall as [Ha Hall]. apply Forall_cons_iff in Hall as [Hb Hall].
    apply Forall_cons_iff in Hall as [Hc _].
    cbn [tlvals map]. rewrite pack_tl_3. cbn [app]. unfold key.
    rewrite (read_tls_step _ _ _ 0) by lia. change (0 + 1) with 1.
    rewrite (read_tls_step _ _ _ 1) by lia. change (1 + 1) with 2.
    rewrite (read_tls_step _ _ _ 2) by lia. rewrite read_tls_done.
    tl_fields (tlval a) (tlval b) (tlval c) 0.
    rewrite (shape_of_tl _ _ a Ha eq_refl eq_refl), (shape_of_tl _ _ b Hb eq_refl eq_refl),
            (shape_of_tl _ _ c Hc eq_refl eq_refl).
    change (zlen [pack4 (tlval a) (tlval b) (tlval c) 0]) with 1. cbn [rev app]. rewrite <- !app_assoc. cbn [app].
    rewrite drop_0, Z.add_0_r. reflexivity.
  - apply Forall_cons_iff in Hall as [Ha Hall]. apply Forall_cons_iff in Hall as [Hb Hall].
    apply Forall_cons_iff in Hall as [Hc Hall]. apply Forall_cons_iff in Hall as [Hd Hall].
    cbn [tlvals map]. fold (tlvals t). rewrite pack_tl_4. cbn [app]. unfold key at 1 2 3 4.
    rewrite (read_tls_step _ _ _ 0) by lia. change (0 + 1) with 1.
    rewrite (read_tls_step _ _ _ 1) by lia. change (1 + 1) with 2.
    rewrite (read_tls_step _ _ _ 2) by lia. change (2 + 1) with 3.
    rewrite (read_tls_step _ _ _ 3) by lia. change (3 + 1) with 4.
    tl_fields (tlval a) (tlval b) (tlval c) (tlval d).
    rewrite (shape_of_tl _ _ a Ha eq_refl eq_refl), (shape_of_tl _ _ b Hb eq_refl eq_refl),
            (shape_of_tl _ _ c Hc eq_refl eq_refl), (shape_of_tl _ _ d Hd eq_refl eq_refl).
    rewrite zlen_cons.
    destruct t as [|e t'].
    + cbn [map tlvals pack_tl app]. rewrite read_tls_done. change (zlen (@nil Z)) with 0.
      cbn [rev app]. rewrite <- !app_assoc. cbn [app]. replace (1 + 0 - 1) with 0 by lia.
      rewrite drop_0, Z.add_0_r. reflexivity.
    + assert (Hne' : e :: t' <> []) by discriminate.
      assert (Hp : pack_tl (tlvals (e :: t')) <> []) by (apply pack_tl_nonempty; discriminate).
      pose proof (zlen_pack_tl_pos (tlvals (e :: t')) ltac:(discriminate)) as Hz.
      change (map key (e :: t')) with (key e :: map key t').
      rewrite read_tls_next by (intros Hnil; apply app_eq_nil in Hnil as [? _]; congruence).
      change (key e :: map key t') with (map key (e :: t')).
      rewrite (IH Hne' Hall rest (off + 1)).
      cbn [rev app]. rewrite <- !app_assoc. cbn [app].
      replace (1 + zlen (pack_tl (tlvals (e :: t'))) - 1) with (1 + (zlen (pack_tl (tlvals (e :: t'))) - 1)) by lia.
      rewrite drop_succ by lia. f_equal. f_equal. lia.
Qed.

Lemma zlen_pack_tl : forall vs, vs <> [] -> zlen (pack_tl vs) = Z.quot (zlen vs - 1) 4 + 1.
Proof.
  induction vs as [|a|a b|a b c|a b c d t IH] using list_ind4; intros Hne; try congruence; try reflexivity.
  rewrite pack_tl_4. rewrite !zlen_cons. pose proof (zlen_nonneg t) as Hz.
  destruct t as [|e t']; [reflexivity|].
  rewrite IH by discriminate.
  assert (1 <= zlen (e :: t')) by (rewrite zlen_cons; pose proof (zlen_nonneg t'); lia).
  rewrite !Z.quot_div_nonneg by lia. lia.
Qed.

(* ---- first byte and the per-stream bitmasks ---- *)

Lemma b0_fields rid count common : 0 <= rid < 4 -> 1 <= count <= 4 -> 0 <= common < 16 ->
  let b0 := Z.lor (Z.lor (u8 (Z.shiftl rid 6)) (u8 (Z.shiftl (u8 (count - 1)) 4))) common in
  Z.land (Z.shiftr b0 6) 3 = rid /\ Z.land (Z.shiftr b0 4) 3 + 1 = count /\ Z.land b0 15 = common.
Proof.
  intros Hr Hc Hm.
  assert (Cr : rid = 0 \/ rid = 1 \/ rid = 2 \/ rid = 3) by lia.
  assert (Cc : count = 1 \/ count = 2 \/ count = 3 \/ count = 4) by lia.
  assert (Cm : exists k, (k < 16)%nat /\ common = Z.of_nat k) by (exists (Z.to_nat common); lia).
  destruct Cm as (k & Hk & ->).
  destruct Cr as [->|[->|[->| ->]]]; destruct Cc as [->|[->|[->| ->]]];
    do 16 (destruct k as [|k]; [repeat split; reflexivity|]); lia.
Qed.

Definition nibble (v : Z) : Prop := 0 <= v < 16.

Lemma nibble_pair a b : nibble a -> nibble b ->
  let x := Z.lor (u8 (Z.shiftl a 4)) b in Z.land (Z.shiftr x 4) 15 = a /\ Z.land x 15 = b.
Proof.
  unfold nibble. intros Ha Hb.
  assert (Ca : exists k, (k < 16)%nat /\ a = Z.of_nat k) by (exists (Z.to_nat a); lia).
  assert (Cb : exists k, (k < 16)%nat /\ b = Z.of_nat k) by (exists (Z.to_nat b); lia).
  destruct Ca as (i & Hi & ->). destruct Cb as (j & Hj & ->).
  do 16 (destruct i as [|i]; [do 16 (destruct j as [|j]; [split; reflexivity|]); lia|]); lia.
Qed.

Lemma nibble_single a : nibble a -> Z.land (Z.shiftr (u8 (Z.shiftl a 4)) 4) 15 = a.
Proof.
  intros Ha. pose proof (nibble_pair a 0 Ha ltac:(unfold nibble; lia)) as [H _].
  cbv zeta in H. rewrite Z.lor_0_r in H. exact H.
Qed.

Lemma nibbles_pack count bms rest : 1 <= count <= 4 -> zlen bms = count -> Forall nibble bms ->
  nibbles count (pack_nibbles bms ++ rest) = bms /\ zlen (pack_nibbles bms) = Z.quot (count - 1) 2 + 1.
Proof.
  intros Hc Hl Hall.
  assert (Cc : count = 1 \/ count = 2 \/ count = 3 \/ count = 4) by lia.
  destruct bms as [|a [|b [|c [|d [|e t]]]]]; rewrite ?zlen_cons in Hl; change (zlen (@nil Z)) with 0 in Hl;
    try (exfalso; lia); try (pose proof (zlen_nonneg t); exfalso; lia).
  - apply Forall_cons_iff in Hall as [Ha _]. assert (count = 1) by lia. subst count.
    split; [|reflexivity].
    match goal with |- ?lhs = _ => change lhs with [Z.land (Z.shiftr (u8 (Z.shiftl a 4)) 4) 15] end.
    rewrite (nibble_single a Ha). reflexivity.
  - apply Forall_cons_iff in Hall as [Ha Hall]. apply Forall_cons_iff in Hall as [Hb _].
    assert (count = 2) by lia. subst count. split; [|reflexivity].
    destruct (nibble_pair a b Ha Hb) as [H1 H2]. cbv zeta in H1, H2.
    match goal with |- ?lhs = _ => change lhs with [Z.land (Z.shiftr (Z.lor (u8 (Z.shiftl a 4)) b) 4) 15; Z.land (Z.lor (u8 (Z.shiftl a 4)) b) 15] end.
    rewrite H1, H2. reflexivity.
  - apply Forall_cons_iff in Hall as [Ha Hall]. apply Forall_cons_iff in Hall as [Hb Hall].
    apply Forall_cons_iff in Hall as [Hc' _].
    assert (count = 3) by lia. subst count. split; [|reflexivity].
    destruct (nibble_pair a b Ha Hb) as [H1 H2]. cbv zeta in H1, H2.
    match goal with |- ?lhs = _ => change lhs with [Z.land (Z.shiftr (Z.lor (u8 (Z.shiftl a 4)) b) 4) 15; Z.land (Z.lor (u8 (Z.shiftl a 4)) b) 15;
            Z.land (Z.shiftr (u8 (Z.shiftl c 4)) 4) 15] end.
    rewrite H1, H2, (nibble_single c Hc'). reflexivity.
  - apply Forall_cons_iff in Hall as [Ha Hall]. apply Forall_cons_iff in Hall as [Hb Hall].
    apply Forall_cons_iff in Hall as [Hc' Hall]. apply Forall_cons_iff in Hall as [Hd _].
    assert (count = 4) by lia. subst count. split; [|reflexivity].
    destruct (nibble_pair a b Ha Hb) as [H1 H2]. destruct (nibble_pair c d Hc' Hd) as [H3 H4].
    cbv zeta in H1, H2, H3, H4.
    match goal with |- ?lhs = _ => change lhs with [Z.land (Z.shiftr (Z.lor (u8 (Z.shiftl a 4)) b) 4) 15; Z.land (Z.lor (u8 (Z.shiftl a 4)) b) 15;
            Z.land (Z.shiftr (Z.lor (u8 (Z.shiftl c 4)) d) 4) 15; Z.land (Z.lor (u8 (Z.shiftl c 4)) d) 15] end.
    rewrite H1, H2, H3, H4. reflexivity.
Qed.

(* ---- the (stream, spatial) slots in order ---- *)

Definition lt_key (a b : Z * Z) : Prop := fst a < fst b \/ (fst a = fst b /\ snd a < snd b).
Definition opt_list {A} (o : option A) : list A := match o with Some x => [x] | None => [] end.
Definition find_key (ls : list slayer) (k : Z * Z) : option slayer := find_layer ls (fst k) (snd k).

Lemma find_key_skip l t k : key l <> k -> find_key (l :: t) k = find_key t k.
Proof.
  intros H. unfold find_key, find_layer. cbn [find].
  destruct ((sl_stream l =? fst k) && (sl_spatial l =? snd k)) eqn:E; [|reflexivity].
  exfalso. apply H. unfold key. destruct k as [s sp]. cbn [fst snd] in E. f_equal; lia.
Qed.

Lemma find_key_hit l t : find_key (l :: t) (key l) = Some l.
Proof. unfold find_key, find_layer, key. cbn [find fst snd]. rewrite !Z.eqb_refl. reflexivity. Qed.

Lemma find_key_none ls k : (forall x, In x ls -> key x <> k) -> find_key ls k = None.
Proof.
  induction ls as [|l t IH]; intros H; [reflexivity|].
  rewrite find_key_skip by (apply H; left; reflexivity). apply IH. intros x Hx. apply H. right. exact Hx.
Qed.

Lemma flat_map_ext_in' {A B} (f g : A -> list B) l : (forall a, In a l -> f a = g a) -> flat_map f l = flat_map g l.
Proof.
  induction l as [|x l IH]; intros H; [reflexivity|]. cbn [flat_map].
  rewrite (H x (or_introl eq_refl)), IH; [reflexivity|]. intros a Ha. apply H. right. exact Ha.
Qed.

Definition sorted_layers (ls : list slayer) : Prop := StronglySorted (fun a b => lt_key (key a) (key b)) ls.

Lemma enumerate_sorted : forall ks ls, StronglySorted lt_key ks -> sorted_layers ls ->
  (forall x, In x ls -> In (key x) ks) ->
  flat_map (fun k => opt_list (find_key ls k)) ks = ls.
Proof.
  induction ks as [|k ks IH]; intros ls Hks Hls Hin.
  - destruct ls as [|l t]; [reflexivity|]. destruct (Hin l (or_introl eq_refl)).
  - apply StronglySorted_inv in Hks as [Hks Hk]. cbn [flat_map].
    destruct ls as [|l t]; [cbn [find_key find_layer find opt_list app]; apply (IH [] Hks); [constructor|intros x []]|].
    pose proof Hls as Hls0. apply StronglySorted_inv in Hls as [Ht Hl].
    destruct (Hin l (or_introl eq_refl)) as [Hkl|Hkl].
    + (* the first layer sits in this slot *)
      subst k. rewrite find_key_hit. cbn [opt_list app]. f_equal.
      transitivity (flat_map (fun k => opt_list (find_key t k)) ks).
      * apply flat_map_ext_in'. intros k' Hk'. rewrite find_key_skip; [reflexivity|].
        intros Heq. rewrite Forall_forall in Hk. specialize (Hk k' Hk'). rewrite <- Heq in Hk.
        unfold lt_key in Hk. lia.
      * apply (IH t Hks Ht).
        intros x Hx. destruct (Hin x (or_intror Hx)) as [Heq|Hx']; [|exact Hx'].
        rewrite Forall_forall in Hl. specialize (Hl x Hx). rewrite Heq in Hl. unfold lt_key in Hl. lia.
    + (* this slot is empty: every layer lies in a later slot *)
      rewrite Forall_forall in Hk. pose proof (Hk _ Hkl) as Hlt.
      assert (Hall : forall x, In x (l :: t) -> lt_key k (key x)).
      { intros x [<-|Hx]; [exact Hlt|]. rewrite Forall_forall in Hl. specialize (Hl x Hx).
        unfold lt_key in *. lia. }
      rewrite find_key_none by (intros x Hx Heq; specialize (Hall x Hx); rewrite Heq in Hall; unfold lt_key in Hall; lia).
      cbn [opt_list app]. apply (IH (l :: t) Hks Hls0).
      intros x Hx. destruct (Hin x Hx) as [Heq|Hx']; [|exact Hx'].
      specialize (Hall x Hx). rewrite Heq in Hall. unfold lt_key in Hall. lia.
Qed.

Definition slots (count : Z) : list (Z * Z) := flat_map (fun s => map (pair s) [0; 1; 2; 3]) (streams count).

Lemma slots_sorted count : 1 <= count <= 4 -> StronglySorted lt_key (slots count).
Proof.
  intros H. assert (C : count = 1 \/ count = 2 \/ count = 3 \/ count = 4) by lia.
  destruct C as [->|[->|[->| ->]]]; cbn; repeat (constructor; [|repeat (constructor; [unfold lt_key; cbn; lia|]); constructor]); constructor.
Qed.

Lemma combine_map_self {A B} (f : A -> B) l : combine l (map f l) = map (fun s => (s, f s)) l.
Proof. induction l as [|x l IH]; [reflexivity|]. cbn [map combine]. rewrite IH. reflexivity. Qed.

Lemma flat_map_map {A B C} (g : B -> list C) (h : A -> B) l : flat_map g (map h l) = flat_map (fun x => g (h x)) l.
Proof. induction l as [|x l IH]; [reflexivity|]. cbn [map flat_map]. rewrite IH. reflexivity. Qed.

Lemma map_flat_map {A B C} (h : B -> C) (g : A -> list B) l : map h (flat_map g l) = flat_map (fun x => map h (g x)) l.
Proof. induction l as [|x l IH]; [reflexivity|]. cbn [flat_map]. rewrite map_app, IH. reflexivity. Qed.

Lemma flat_map_nest {A B C} (G : A * B -> list C) (L : list B) (S : list A) :
  flat_map (fun s => flat_map (fun sp => G (s, sp)) L) S = flat_map G (flat_map (fun s => map (pair s) L) S).
Proof.
  induction S as [|s S IH]; [reflexivity|]. cbn [flat_map]. rewrite flat_map_app, IH, flat_map_map. reflexivity.
Qed.

Lemma ordered_layers_slots count ls :
  ordered_layers count ls = flat_map (fun k => opt_list (find_key ls k)) (slots count).
Proof.
  unfold ordered_layers, slots.
  rewrite <- (flat_map_nest (fun k => opt_list (find_key ls k)) [0; 1; 2; 3] (streams count)).
  apply flat_map_ext_in'. intros s _. apply flat_map_ext_in'. intros sp _.
  unfold find_key, opt_list. cbn [fst snd]. destruct (find_layer ls s sp); reflexivity.
Qed.

Lemma bitmask_bit ls s sp : In sp [0; 1; 2; 3] ->
  (Z.land (bitmask ls s) (Z.shiftl 1 sp) =? 0) = match find_layer ls s sp with Some _ => false | None => true end.
Proof.
  intros Hsp. unfold bitmask. cbn [fold_left].
  destruct Hsp as [<-|[<-|[<-|[<-|[]]]]];
    destruct (find_layer ls s 0), (find_layer ls s 1), (find_layer ls s 2), (find_layer ls s 3); reflexivity.
Qed.

Lemma bitmask_nibble ls s : nibble (bitmask ls s).
Proof.
  unfold bitmask, nibble. cbn [fold_left].
  destruct (find_layer ls s 0), (find_layer ls s 1), (find_layer ls s 2), (find_layer ls s 3); cbn; lia.
Qed.

Lemma active_slots_layers count ls :
  active_slots count (map (bitmask ls) (streams count)) =
  map key (flat_map (fun k => opt_list (find_key ls k)) (slots count)).
Proof.
  unfold active_slots, slots. rewrite combine_map_self, flat_map_map, map_flat_map.
  rewrite <- (flat_map_nest (fun k => map key (opt_list (find_key ls k))) [0; 1; 2; 3] (streams count)).
  apply flat_map_ext_in'. intros s _. apply flat_map_ext_in'. intros sp Hsp.
  rewrite (bitmask_bit ls s sp Hsp). unfold find_key. cbn [fst snd].
  destruct (find_layer ls s sp) as [l|] eqn:E; [|reflexivity].
  unfold find_layer in E. apply find_some in E as [_ E]. cbn [opt_list map]. unfold key. f_equal. f_equal; lia.
Qed.

(* ---- assembly ---- *)
From RTP Require Import Proofs.C19_Vla.

Definition layer_valid (count : Z) (hasres : bool) (l : slayer) : Prop :=
  0 <= sl_stream l < count /\ 0 <= sl_spatial l < 4 /\ tl_ok l /\ Forall rate_ok (sl_bitrates l) /\
  (if hasres then res_ok l else sl_width l = 0 /\ sl_height l = 0 /\ sl_framerate l = 0).

Definition valid_vla (v : vla) : Prop :=
  1 <= v_count v <= 4 /\ 0 <= v_rid v < v_count v /\ sorted_layers (v_layers v) /\
  Forall (layer_valid (v_count v) (v_hasres v)) (v_layers v) /\ (v_layers v = [] -> v_hasres v = false).

Lemma sorted_unique ls : sorted_layers ls -> slots_unique ls = true.
Proof.
  induction 1 as [|l t Ht IH Hl]; [reflexivity|]. cbn [slots_unique]. rewrite IH, andb_true_r.
  apply negb_true_iff. apply not_true_is_false. intros Hex. apply existsb_exists in Hex as (x & Hx & Hs).
  rewrite Forall_forall in Hl. specialize (Hl x Hx). unfold same_slot, lt_key, key in *. cbn [fst snd] in Hl. lia.
Qed.

Lemma in_streams count s : 0 <= s < count -> In s (streams count).
Proof.
  intros H. unfold streams. replace s with (Z.of_nat (Z.to_nat s)) by lia. apply in_map, in_seq. lia.
Qed.

Lemma in_slots count s sp : 0 <= s < count -> 0 <= sp < 4 -> In (s, sp) (slots count).
Proof.
  intros Hs Hsp. unfold slots. apply in_flat_map. exists s. split; [apply in_streams; exact Hs|].
  apply in_map. assert (C : sp = 0 \/ sp = 1 \/ sp = 2 \/ sp = 3) by lia. cbn. lia.
Qed.

Lemma zlen_streams count : 0 <= count -> zlen (streams count) = count.
Proof. intros H. unfold streams, zlen. rewrite map_length, seq_length. lia. Qed.

Lemma common_all bms : common_bm bms <> 0 -> Forall (fun b => b = common_bm bms) bms.
Proof.
  unfold common_bm. destruct bms as [|c t]; [congruence|].
  destruct (forallb (fun b => b =? c) t) eqn:E; [|congruence]. intros _.
  constructor; [reflexivity|]. rewrite forallb_forall in E. apply Forall_forall. intros x Hx.
  specialize (E x Hx). lia.
Qed.

Lemma common_nibble bms : Forall nibble bms -> nibble (common_bm bms).
Proof.
  intros H. unfold common_bm. destruct bms as [|c t]; [unfold nibble; lia|].
  apply Forall_cons_iff in H as [Hc _]. destruct (forallb _ t); [exact Hc|unfold nibble; lia].
Qed.

Lemma map_const_all {A} (c : Z) (l : list A) (bms : list Z) : length l = length bms ->
  Forall (fun b => b = c) bms -> map (fun _ => c) l = bms.
Proof.
  revert bms. induction l as [|x l IH]; intros [|b bms] Hl Hall; cbn [length] in Hl; try discriminate; [reflexivity|].
  apply Forall_cons_iff in Hall as [-> Hall]. cbn [map]. f_equal. apply IH; [lia|exact Hall].
Qed.

Lemma tl_drop {A} (l : list A) k : 0 <= k -> tl (drop k l) = drop (k + 1) l.
Proof.
  intros Hk. unfold drop. replace (Z.to_nat (k + 1)) with (S (Z.to_nat k)) by lia.
  generalize (Z.to_nat k). intros n. revert l. induction n as [|n IH]; intros l.
  - destruct l as [|x [|y l]]; reflexivity.
  - destruct l as [|x l]; [destruct n; reflexivity|]. cbn [skipn]. apply IH.
Qed.

Lemma map_strip_id ls : Forall (fun l => sl_width l = 0 /\ sl_height l = 0 /\ sl_framerate l = 0) ls -> map strip ls = ls.
Proof.
  induction 1 as [|l t (Hw & Hh & Hf) Ht IH]; [reflexivity|]. cbn [map]. rewrite IH. f_equal.
  destruct l; cbn in *; subst; reflexivity.
Qed.

(* the byte layout: first byte, per-stream bitmasks (only when not shared), 2-bit temporal layer
   counts, LEB128 bitrates, 5-byte resolution records - and nothing else *)
Definition tl_bytes (ls : list slayer) : list Z := match ls with [] => [0] | _ => pack_tl (tlvals ls) end.

Definition vla_layout (v : vla) : list Z :=
  let count := v_count v in let ls := v_layers v in
  let bms := map (bitmask ls) (streams count) in
  let common := common_bm bms in
  Z.lor (Z.lor (u8 (Z.shiftl (v_rid v) 6)) (u8 (Z.shiftl (u8 (count - 1)) 4))) common
  :: (if common =? 0 then pack_nibbles bms else [])
  ++ tl_bytes ls ++ rates_bytes ls ++ (if v_hasres v then res_bytes ls else []).

Lemma valid_ordered v : valid_vla v -> ordered_layers (v_count v) (v_layers v) = v_layers v.
Proof.
  intros (Hc & Hr & Hs & Hall & _). rewrite ordered_layers_slots.
  apply enumerate_sorted; [apply slots_sorted; exact Hc|exact Hs|].
  intros x Hx. rewrite Forall_forall in Hall. destruct (Hall x Hx) as (H1 & H2 & _).
  unfold key. apply in_slots; assumption.
Qed.

Lemma valid_preprocess v : valid_vla v -> preprocess (v_count v) (v_layers v) [] = None.
Proof.
  intros (Hc & Hr & Hs & Hall & _). apply preprocess_none. split; [|split].
  - apply forallb_forall. intros x Hx. rewrite Forall_forall in Hall.
    destruct (Hall x Hx) as (H1 & H2 & H3 & _). unfold layer_ok, tl_ok in *. lia.
  - apply sorted_unique. exact Hs.
  - intros ? ? _ [].
Qed.

Lemma zlen_tl_bytes ls : zlen (tl_bytes ls) = Z.quot (zlen ls - 1) 4 + 1.
Proof.
  destruct ls as [|l t]; [reflexivity|]. unfold tl_bytes.
  rewrite zlen_pack_tl by discriminate. unfold tlvals, zlen. rewrite map_length. reflexivity.
Qed.

Theorem vla_marshal_layout v : valid_vla v -> vla_marshal v = Ok (vla_layout v).
Proof.
  intros Hv. pose proof Hv as (Hc & Hr & Hs & Hall & Hnil).
  unfold vla_marshal.
  replace ((v_count v <=? 0) || (4 <? v_count v)) with false by lia.
  replace ((v_rid v <? 0) || (v_count v <=? v_rid v)) with false by lia.
  rewrite (valid_preprocess v Hv). cbv zeta. rewrite (valid_ordered v Hv).
  set (bms := map (bitmask (v_layers v)) (streams (v_count v))).
  set (common := common_bm bms).
  assert (Hbl : zlen bms = v_count v) by (unfold bms, zlen; rewrite map_length; fold (zlen (streams (v_count v))); apply zlen_streams; lia).
  assert (Hbn : Forall nibble bms) by (unfold bms; apply Forall_map, Forall_forall; intros; apply bitmask_nibble).
  (* the temporal-layer bytes *)
  assert (Htl : match pack_tl (map (fun l => u8 (zlen (sl_bitrates l) - 1)) (v_layers v)) with
                | [] => [0] | _ => pack_tl (map (fun l => u8 (zlen (sl_bitrates l) - 1)) (v_layers v)) end
                = tl_bytes (v_layers v)).
  { unfold tl_bytes. destruct (v_layers v) as [|l t] eqn:El; [reflexivity|].
    change (map (fun l0 => u8 (zlen (sl_bitrates l0) - 1)) (l :: t)) with (tlvals (l :: t)).
    pose proof (pack_tl_nonempty (tlvals (l :: t)) ltac:(discriminate)) as Hne.
    destruct (pack_tl (tlvals (l :: t))); [congruence|reflexivity]. }
  rewrite Htl.
  change (flat_map (fun l => flat_map (fun k => write_leb128 k) (sl_bitrates l)) (v_layers v)) with (rates_bytes (v_layers v)).
  change (flat_map (fun l => put16 (u16 (sl_width l - 1)) ++ put16 (u16 (sl_height l - 1)) ++ [u8 (sl_framerate l)]) (v_layers v))
    with (res_bytes (v_layers v)).
  fold (vla_layout v) || idtac.
  set (content := _ :: _ ++ tl_bytes (v_layers v) ++ rates_bytes (v_layers v) ++ _).
  assert (Hcontent : content = vla_layout v) by reflexivity.
  match goal with |- (if ?r <? _ then _ else _) = _ => set (required := r) end.
  assert (Hreq : required = zlen content).
  { unfold required, content. rewrite zlen_cons, !zlen_app, zlen_tl_bytes.
    assert (Hsl : zlen (if common =? 0 then pack_nibbles bms else []) = if common =? 0 then Z.quot (v_count v - 1) 2 + 1 else 0).
    { destruct (common =? 0); [|reflexivity]. apply (nibbles_pack (v_count v) bms [] Hc Hbl Hbn). }
    rewrite Hsl.
    assert (Hrs : zlen (if v_hasres v then res_bytes (v_layers v) else []) = if v_hasres v then zlen (v_layers v) * 5 else 0).
    { destruct (v_hasres v); [rewrite zlen_res_bytes; lia|reflexivity]. }
    rewrite Hrs. destruct (common =? 0); cbn [negb]; lia. }
  rewrite Hreq, Z.ltb_irrefl, Z.sub_diag. cbn [Z.to_nat repeat]. rewrite app_nil_r, Hcontent. reflexivity.
Qed.

Theorem vla_roundtrip v prev : valid_vla v -> vla_unmarshal prev (vla_layout v) = VOk (v, zlen (vla_layout v)).
Proof.
  intros Hv. pose proof Hv as (Hc & Hr & Hs & Hall & Hnil).
  unfold vla_layout.
  set (ls := v_layers v) in *. set (count := v_count v) in *.
  set (bms := map (bitmask ls) (streams count)).
  set (common := common_bm bms).
  assert (Hbl : zlen bms = count) by (unfold bms, zlen; rewrite map_length; fold (zlen (streams count)); apply zlen_streams; lia).
  assert (Hbn : Forall nibble bms) by (unfold bms; apply Forall_map, Forall_forall; intros; apply bitmask_nibble).
  assert (Hcn : nibble common) by (apply common_nibble; exact Hbn).
  destruct (b0_fields (v_rid v) count common ltac:(lia) Hc Hcn) as (Frid & Fcount & Fcommon).
  cbv zeta in Frid, Fcount, Fcommon.
  set (b0 := Z.lor (Z.lor (u8 (Z.shiftl (v_rid v) 6)) (u8 (Z.shiftl (u8 (count - 1)) 4))) common) in *.
  set (tail := tl_bytes ls ++ rates_bytes ls ++ (if v_hasres v then res_bytes ls else [])).
  assert (Hslots : active_slots count bms = map key ls).
  { unfold bms. rewrite active_slots_layers. f_equal. rewrite <- ordered_layers_slots. exact (valid_ordered v Hv). }
  unfold vla_unmarshal. rewrite Frid, Fcount, Fcommon.
  (* the header: shared bitmask or one nibble per stream *)
  set (slb := if common =? 0 then pack_nibbles bms else []).
  assert (Hhdr : (if negb (common =? 0) then VOk (map (fun _ => common) (streams count), slb ++ tail, 1)
                  else if zlen (slb ++ tail) <? Z.quot (count - 1) 2 + 1 then VErr 1 EVlaShort
                       else VOk (nibbles count (slb ++ tail), drop (Z.quot (count - 1) 2 + 1) (slb ++ tail),
                                 1 + (Z.quot (count - 1) 2 + 1)))
                 = VOk (bms, tail, 1 + zlen slb)).
  { unfold slb. destruct (common =? 0) eqn:E; cbn [negb app].
    - destruct (nibbles_pack count bms tail Hc Hbl Hbn) as [Hn Hz].
      rewrite zlen_app, Hz. pose proof (zlen_nonneg tail).
      replace (Z.quot (count - 1) 2 + 1 + zlen tail <? Z.quot (count - 1) 2 + 1) with false by lia.
      rewrite Hn. rewrite <- Hz, drop_app_exact. reflexivity.
    - change (zlen (@nil Z)) with 0. f_equal. f_equal. f_equal.
      apply map_const_all.
      + pose proof (zlen_streams count ltac:(lia)) as Hzs. unfold zlen in *. lia.
      + apply common_all. fold common. lia. }
  fold slb. rewrite Hhdr. clear Hhdr.
  (* the rest *)
  assert (Htn : tail <> []).
  { unfold tail, tl_bytes. destruct ls as [|l t]; [discriminate|].
    pose proof (pack_tl_nonempty (tlvals (l :: t)) ltac:(discriminate)) as Hne.
    destruct (pack_tl (tlvals (l :: t))); [congruence|discriminate]. }
  destruct tail as [|t0 tail'] eqn:Etail; [congruence|]. rewrite <- Etail. clear Htn.
  rewrite Hslots.
  assert (Htlok : Forall tl_ok ls) by (eapply Forall_impl; [|exact Hall]; intros a (_ & _ & H & _); exact H).
  assert (Hrates : Forall (fun l => Forall rate_ok (sl_bitrates l)) ls)
    by (eapply Forall_impl; [|exact Hall]; intros a (_ & _ & _ & H & _); exact H).
  destruct v as [rid cnt lsv hasres]. cbn [v_rid v_count v_layers v_hasres] in *.
  subst count ls.
  destruct lsv as [|l0 lt] eqn:Els.
  - (* no active layer *)
    assert (Hh0 : hasres = false) by (apply Hnil; reflexivity). subst hasres. subst tail. cbn [tl_bytes rates_bytes res_bytes flat_map app map read_tls rev tl read_all_rates].
    cbn [tl_bytes rates_bytes flat_map app] in Etail. 
    rewrite !zlen_cons, zlen_app. change (zlen [0]) with 1. change (zlen (@nil Z)) with 0.
    f_equal. f_equal. lia.
  - rewrite <- Els in *. assert (Hne : lsv <> []) by (rewrite Els; discriminate).
    subst tail. unfold tl_bytes at 1. rewrite Els at 1. rewrite <- Els.
    rewrite (read_tls_roundtrip lsv Hne Htlok). cbn [rev app].
    pose proof (zlen_pack_tl_pos (tlvals lsv) ltac:(unfold tlvals; rewrite Els; discriminate)) as Hz.
    rewrite tl_drop by lia. replace (zlen (pack_tl (tlvals lsv)) - 1 + 1) with (zlen (pack_tl (tlvals lsv))) by lia.
    rewrite drop_app_exact.
    rewrite (read_all_rates_roundtrip lsv _ _ Hrates).
    assert (Hsl : zlen (map strip lsv) = zlen lsv) by (unfold zlen; rewrite map_length; reflexivity).
    assert (Htb : tl_bytes lsv = pack_tl (tlvals lsv)) by (unfold tl_bytes; rewrite Els; reflexivity).
    destruct hasres.
    + assert (Hres : Forall res_ok lsv) by (eapply Forall_impl; [|exact Hall]; intros a (_ & _ & _ & _ & H); exact H).
      assert (Hrn : res_bytes lsv <> []).
      { intros Hnil'. pose proof (zlen_res_bytes lsv) as Hzr. rewrite Hnil' in Hzr. change (zlen (@nil Z)) with 0 in Hzr.
        rewrite Els, zlen_cons in Hzr. pose proof (zlen_nonneg lt). lia. }
      destruct (res_bytes lsv) as [|r0 rb] eqn:Erb; [congruence|]. rewrite <- Erb.
      rewrite Hsl, zlen_res_bytes. replace (5 * zlen lsv <? zlen lsv * 5) with false by lia.
      rewrite (read_res_roundtrip lsv Hres). f_equal. f_equal.
      rewrite !zlen_cons, !zlen_app, Htb, zlen_res_bytes. lia.
    + assert (Hzero : Forall (fun l => sl_width l = 0 /\ sl_height l = 0 /\ sl_framerate l = 0) lsv)
        by (eapply Forall_impl; [|exact Hall]; intros a (_ & _ & _ & _ & H); exact H).
      rewrite (map_strip_id lsv Hzero). f_equal. f_equal.
      rewrite !zlen_cons, !zlen_app, Htb. change (zlen (@nil Z)) with 0. lia.
Qed.

(* Marshal loses nothing: two valid allocations with the same encoding are the same allocation *)
Theorem vla_marshal_injective : forall v1 v2 bs, valid_vla v1 -> valid_vla v2 ->
  vla_marshal v1 = Ok bs -> vla_marshal v2 = Ok bs -> v1 = v2.
Proof.
  intros v1 v2 bs H1 H2 M1 M2.
  rewrite (vla_marshal_layout v1 H1) in M1. rewrite (vla_marshal_layout v2 H2) in M2.
  assert (E : vla_layout v1 = vla_layout v2) by congruence.
  pose proof (vla_roundtrip v1 v1 H1) as R1. pose proof (vla_roundtrip v2 v1 H2) as R2.
  rewrite E in R1. rewrite R1 in R2. congruence.
Qed.
