(* C06: the abs-send-time extension on the last packet of a train, and numbering over whole
   histories of Packetize / GeneratePadding / SkipSamples / EnableAbsSendTime calls. *)
From Coq Require Import ZArith List Lia Bool.
From Coq Require Import ZifyBool.
From RTP Require Import Base.Bits Base.Res Base.ListX Model.RtpPacket Model.Sequencer Model.ExtCodecs Model.Ntp
  Model.Packetizer Proofs.C07_Sequencer Proofs.C01_Roundtrip Proofs.C06_Packetizer.
Import ListNotations.
Open Scope Z_scope.

(* ids 1-14 use the one-byte form, 15-255 the two-byte form *)
Definition abs_profile (id : Z) : Z := if id <=? 14 then profile_one_byte else profile_two_byte.

Definition with_abs (id : Z) (b : list Z) (pk : packet) : packet :=
  mkPacket (with_exts (hdr pk) true (abs_profile id) [mkExt id b]) (payload pk) (padding_size pk).

(* the 24-bit 6.18 fixed-point send time, big-endian *)
Definition abs_bytes (now_nano : Z) : list Z :=
  let ts := new_abs_send_time now_nano in
  [u8 (Z.shiftr (Z.land ts 16711680) 16); u8 (Z.shiftr (Z.land ts 65280) 8); u8 (Z.land ts 255)].

Lemma train_hdrs p : forall frags e,
  Forall (fun pk => extension (hdr pk) = false /\ extensions (hdr pk) = []) (expected_train p e frags).
Proof.
  induction frags as [|f t IH]; intros e; cbn [expected_train]; constructor; [split; reflexivity|apply IH].
Qed.

Section WithPayloader.
  Variable pay : Z -> list Z -> list (list Z).

  Theorem packetize_abs : forall p payload samples now, sane (pz_seq p) -> payload <> [] ->
    1 <= pz_abs p <= 255 ->
    let frags := pay (pz_budget p) payload in
    frags <> [] -> roc (pz_seq p) + zlen frags < 18446744073709551616 ->
    exists init lastp,
      expected_train p (ext (pz_seq p)) frags = init ++ [lastp] /\
      snd (packetize pay p payload samples now) = init ++ [with_abs (pz_abs p) (abs_bytes now) lastp].
  Proof.
    intros p payload samples now Hs Hne Hid frags Hfr Hb. unfold packetize.
    destruct payload as [|b0 rest]; [congruence|].
    replace (pz_abs p =? 0) with false by lia. fold frags.
    pose proof (build_packets_spec frags p (pz_seq p) Hs Hb) as Hbp.
    destruct (build_packets p (pz_seq p) frags) as [s' pkts]. destruct Hbp as (_ & _ & Hp).
    assert (Hpn : pkts <> []).
    { intros Hnil. rewrite Hnil in Hp. pose proof (expected_train_length p (ext (pz_seq p)) frags) as Hl.
      rewrite <- Hp in Hl. destruct frags; [congruence|discriminate]. }
    destruct (exists_last Hpn) as (init & lastp & Hsplit).
    exists init, lastp. split; [rewrite <- Hp; exact Hsplit|].
    destruct pkts as [|pk0 pkt]; [congruence|]. rewrite Hsplit.
    unfold abs_send_marshal. fold (abs_bytes now). unfold set_last_extension.
    rewrite rev_app_distr. cbn [rev app]. rewrite rev_involutive.
    pose proof (train_hdrs p frags (ext (pz_seq p))) as Hh. rewrite <- Hp, Hsplit in Hh.
    apply Forall_app in Hh as [_ Hl]. apply Forall_cons_iff in Hl as [(Hx & Hes) _].
    unfold set_extension. rewrite Hx, Hes.
    assert (Hu : u8 (pz_abs p) = pz_abs p) by (unfold u8; apply Z.mod_small; lia). rewrite Hu.
    change (zlen (abs_bytes now)) with 3. unfold with_abs, abs_profile.
    destruct (Z_le_gt_dec (pz_abs p) 14) as [H14|H14].
    - replace ((1 <=? 3) && (3 <=? 16) && (1 <=? pz_abs p) && (pz_abs p <=? 14)) with true by lia.
      replace (pz_abs p <=? 14) with true by lia. cbn [app snd]. reflexivity.
    - replace ((1 <=? 3) && (3 <=? 16) && (1 <=? pz_abs p) && (pz_abs p <=? 14)) with false by lia.
      replace ((3 <? 256) && (1 <=? pz_abs p)) with true by lia.
      replace (pz_abs p <=? 14) with false by lia. cbn [app snd]. reflexivity.
  Qed.

End WithPayloader.

  (* the packet that carries the extension grows by exactly the room the budget left for it *)
  Lemma with_abs_size id b pk : 1 <= id <= 255 -> zlen b = 3 -> extension (hdr pk) = false ->
    packet_marshal_size (with_abs id b pk) = packet_marshal_size pk + (abs_overhead id - 12).
  Proof.
    intros Hid Hb Hx. unfold packet_marshal_size, header_marshal_size, with_abs, with_exts, abs_overhead, abs_profile.
    cbn [hdr extension csrc payload padding_size]. rewrite Hx.
    replace (id =? 0) with false by lia.
    unfold ext_block_size. cbn [extension_profile extensions].
    destruct (id <=? 14) eqn:E14.
    - replace (14 <? id) with false by lia.
      change (profile_one_byte =? profile_one_byte) with true. cbn [fold_left epayload]. rewrite Hb.
      change ((4 + 1 + 3 + 3) / 4 * 4) with 8. lia.
    - replace (14 <? id) with true by lia.
      change (profile_two_byte =? profile_one_byte) with false. change (ext_form profile_two_byte =? profile_two_byte) with true.
      cbn [fold_left epayload]. rewrite Hb. change ((4 + 2 + 3 + 3) / 4 * 4) with 12. lia.
  Qed.

  (* ... so with a payloader that honours its budget the whole train, extension included, stays
     within the MTU *)
  Theorem train_abs_within_mtu p e frags id b mtu : 1 <= id <= 255 -> zlen b = 3 ->
    Forall (fun f => zlen f <= mtu - abs_overhead id) frags ->
    forall init lastp, expected_train p e frags = init ++ [lastp] ->
    Forall (fun pk => packet_marshal_size pk <= mtu) (init ++ [with_abs id b lastp]).
  Proof.
    intros Hid Hb Hall init lastp Hsplit.
    pose proof (train_within_mtu p e frags (mtu - abs_overhead id) Hall) as Hm. rewrite Hsplit in Hm.
    apply Forall_app in Hm as [Hi Hl]. apply Forall_cons_iff in Hl as [Hl _].
    assert (Hov : 20 <= abs_overhead id <= 24) by (unfold abs_overhead; destruct (id =? 0) eqn:E0; destruct (14 <? id) eqn:E1; lia).
    apply Forall_app. split.
    - eapply Forall_impl; [|exact Hi]. cbv beta. intros pk H. lia.
    - constructor; [|constructor].
      pose proof (train_hdrs p frags e) as Hh. rewrite Hsplit in Hh.
      apply Forall_app in Hh as [_ Hh]. apply Forall_cons_iff in Hh as [(Hx & _) _].
      rewrite (with_abs_size id b lastp Hid Hb Hx). lia.
  Qed.

(* ---- whole histories ---- *)

Inductive pop : Type :=
| OPacketize (payload : list Z) (samples now : Z)
| OPadding (n : Z)
| OSkip (n : Z)
| OEnable (v : Z).

Lemma set_extension_seq h id v : sequence_number (fst (set_extension h id v)) = sequence_number h.
Proof.
  unfold set_extension.
  repeat match goal with
         | |- context [if ?c then _ else _] => destruct c
         | |- context [match ?x with _ => _ end] => destruct x
         end; reflexivity.
Qed.

Lemma set_last_extension_seqs ps id v ps' : set_last_extension ps id v = Some ps' ->
  map (fun pk => sequence_number (hdr pk)) ps' = map (fun pk => sequence_number (hdr pk)) ps.
Proof.
  unfold set_last_extension. destruct (rev ps) as [|lastp initr] eqn:Er; [intros [= <-]; reflexivity|].
  pose proof (set_extension_seq (hdr lastp) id v) as Hs.
  destruct (set_extension (hdr lastp) id v) as [h' [e|]]; [discriminate|]. intros [= <-].
  assert (Hps : ps = rev initr ++ [lastp]).
  { rewrite <- (rev_involutive ps), Er. reflexivity. }
  rewrite Hps, !map_app. cbn [map hdr fst] in *. rewrite Hs. reflexivity.
Qed.

Section Histories.
  Variable pay : Z -> list Z -> list (list Z).

  Definition pstep (p : pktz) (o : pop) : pktz * list packet :=
    match o with
    | OPacketize pl s now => packetize pay p pl s now
    | OPadding n => generate_padding p n
    | OSkip n => (skip_samples p n, [])
    | OEnable v => (enable_abs_send_time p v, [])
    end.

  (* how many sequence numbers the call takes *)
  Definition consumed (p : pktz) (o : pop) : Z :=
    match o with
    | OPacketize [] _ _ => 0
    | OPacketize pl _ _ => zlen (pay (pz_budget p) pl)
    | OPadding n => Z.of_nat (Z.to_nat n)
    | _ => 0
    end.

  Definition step_ok (p : pktz) (o : pop) : Prop :=
    let '(p1, out) := pstep p o in
    sane (pz_seq p1) /\
    ext (pz_seq p1) = ext (pz_seq p) + consumed p o /\
    zlen out <= consumed p o /\
    (forall k pk, nth_error out k = Some pk ->
       sequence_number (hdr pk) = (ext (pz_seq p) + 1 + Z.of_nat k) mod 65536).

  Lemma train_seqs p e frags k pk : nth_error (expected_train p e frags) k = Some pk ->
    sequence_number (hdr pk) = (e + 1 + Z.of_nat k) mod 65536.
  Proof. intros H. destruct (expected_train_nth frags p e k pk H) as (f & _ & _ & _ & Hs & _). exact Hs. Qed.

  Lemma step_numbering p o : sane (pz_seq p) -> roc (pz_seq p) + consumed p o < 18446744073709551616 ->
    step_ok p o.
  Proof.
    intros Hs Hb. unfold step_ok. destruct o as [pl s now|n|n|v]; cbn [pstep consumed] in *.
    - destruct pl as [|b0 rest].
      + cbn [packetize]. split; [exact Hs|]. split; [lia|]. split; [change (zlen (@nil packet)) with 0; lia|].
        intros k pk H. destruct k; discriminate.
      + set (payload := b0 :: rest) in *.
        set (frags := pay (pz_budget p) payload) in *.
        unfold packetize. fold payload. unfold payload at 1. fold frags.
        pose proof (build_packets_spec frags p (pz_seq p) Hs Hb) as Hbp.
        destruct (build_packets p (pz_seq p) frags) as [s' pkts]. destruct Hbp as (Hs' & He & Hp).
        assert (Hlen : zlen pkts = zlen frags) by (rewrite Hp; unfold zlen; rewrite expected_train_length; reflexivity).
        assert (Hfull : forall k pk, nth_error pkts k = Some pk ->
                  sequence_number (hdr pk) = (ext (pz_seq p) + 1 + Z.of_nat k) mod 65536)
          by (intros k pk H; rewrite Hp in H; exact (train_seqs _ _ _ _ _ H)).
        assert (Hempty : forall k (pk : packet), nth_error (@nil packet) k = Some pk ->
                  sequence_number (hdr pk) = (ext (pz_seq p) + 1 + Z.of_nat k) mod 65536)
          by (intros k pk H; destruct k; discriminate).
        pose proof (zlen_nonneg frags) as Hzf.
        assert (Hnone : sane s' /\ ext s' = ext (pz_seq p) + zlen frags /\ zlen (@nil packet) <= zlen frags /\
                  (forall k (pk : packet), nth_error (@nil packet) k = Some pk ->
                     sequence_number (hdr pk) = (ext (pz_seq p) + 1 + Z.of_nat k) mod 65536)).
        { split; [exact Hs'|]. split; [exact He|]. split; [change (zlen (@nil packet)) with 0; lia|exact Hempty]. }
        destruct pkts as [|pk0 pkt]; [cbn [pz_seq]; exact Hnone|].
        destruct (pz_abs p =? 0); [cbn [pz_seq]; split; [exact Hs'|]; split; [exact He|]; split; [lia|exact Hfull]|].
        unfold abs_send_marshal.
        destruct (set_last_extension (pk0 :: pkt) _ _) as [pkts'|] eqn:Esl;
          [|cbn [pz_seq]; exact Hnone].
        pose proof (set_last_extension_seqs _ _ _ _ Esl) as Hseq.
        cbn [pz_seq]. split; [exact Hs'|]. split; [exact He|]. split.
        * assert (length pkts' = length (pk0 :: pkt)) by (rewrite <- (map_length (fun pk => sequence_number (hdr pk))), Hseq, map_length; reflexivity).
          unfold zlen in *. lia.
        * intros k pk Hk.
          assert (Hm : nth_error (map (fun pk => sequence_number (hdr pk)) pkts') k = Some (sequence_number (hdr pk)))
            by (rewrite nth_error_map, Hk; reflexivity).
          rewrite Hseq, nth_error_map in Hm.
          destruct (nth_error (pk0 :: pkt) k) as [pk'|] eqn:Ek; [|discriminate].
          cbn [option_map] in Hm. injection Hm as <-. exact (Hfull k pk' Ek).
    - unfold generate_padding.
      pose proof (padding_packets_spec (Z.to_nat n) p (pz_seq p) Hs Hb) as Hpp.
      destruct (padding_packets p (pz_seq p) (Z.to_nat n)) as [s' ps]. destruct Hpp as (Hs' & He & Hl & Hk).
      cbn [pz_seq]. split; [exact Hs'|]. split; [exact He|]. split; [unfold zlen; rewrite Hl; lia|].
      intros k pk H. rewrite (Hk k pk H). reflexivity.
    - cbn [skip_samples pz_seq]. split; [exact Hs|]. split; [lia|]. split; [change (zlen (@nil packet)) with 0; lia|].
      intros k pk H. destruct k; discriminate.
    - cbn [enable_abs_send_time pz_seq]. split; [exact Hs|]. split; [lia|]. split; [change (zlen (@nil packet)) with 0; lia|].
      intros k pk H. destruct k; discriminate.
  Qed.

  Fixpoint bounded (p : pktz) (ops : list pop) : Prop :=
    match ops with
    | [] => True
    | o :: t => roc (pz_seq p) + consumed p o < 18446744073709551616 /\ bounded (fst (pstep p o)) t
    end.

  Fixpoint history_ok (p : pktz) (ops : list pop) : Prop :=
    match ops with
    | [] => True
    | o :: t => step_ok p o /\ history_ok (fst (pstep p o)) t
    end.

  Theorem history_numbering : forall ops p, sane (pz_seq p) -> bounded p ops -> history_ok p ops.
  Proof.
    induction ops as [|o t IH]; intros p Hs Hb; [exact I|].
    destruct Hb as [Hb1 Hb2]. cbn [history_ok].
    pose proof (step_numbering p o Hs Hb1) as Hstep. split; [exact Hstep|].
    apply IH; [|exact Hb2]. unfold step_ok in Hstep. destruct (pstep p o) as [p1 out]. apply Hstep.
  Qed.
End Histories.

(* ---- timestamps over whole histories: every Packetize call with a non-empty payload advances the
   timestamp by its sample count (also when the payloader returns nothing), SkipSamples by the skipped
   samples, nothing else moves it - modulo 2^32 ---- *)
Section Timestamps.
  Variable pay : Z -> list Z -> list (list Z).

  Definition ts_delta (o : pop) : Z :=
    match o with
    | OPacketize (_ :: _) s _ => s
    | OSkip n => n
    | _ => 0
    end.

  Fixpoint run_ops (p : pktz) (ops : list pop) : pktz :=
    match ops with [] => p | o :: t => run_ops (fst (pstep pay p o)) t end.

  Definition ts_ok (p : pktz) : Prop := 0 <= pz_ts p < 4294967296.

  Lemma step_ts p o : ts_ok p ->
    pz_ts (fst (pstep pay p o)) = (pz_ts p + ts_delta o) mod 4294967296 /\ ts_ok (fst (pstep pay p o)).
  Proof.
    intros Hts. unfold ts_ok in *.
    assert (Hsame : pz_ts p = (pz_ts p + 0) mod 4294967296) by (rewrite Z.add_0_r, Z.mod_small; lia).
    destruct o as [pl s now|n|n|v]; cbn [pstep ts_delta].
    - destruct pl as [|b0 rest]; [cbn [packetize fst]; split; [exact Hsame|exact Hts]|].
      unfold packetize.
      destruct (build_packets p (pz_seq p) _) as [s' pkts].
      assert (Hu : u32 (pz_ts p + s) = (pz_ts p + s) mod 4294967296) by reflexivity.
      assert (Hr : 0 <= (pz_ts p + s) mod 4294967296 < 4294967296) by (apply Z.mod_pos_bound; lia).
      destruct pkts as [|pk0 pkt]; [cbn [fst pz_ts]; rewrite Hu; split; [reflexivity|exact Hr]|].
      destruct (pz_abs p =? 0); [cbn [fst pz_ts]; rewrite Hu; split; [reflexivity|exact Hr]|].
      destruct (abs_send_marshal _) as [b|e|]; try (cbn [fst pz_ts]; rewrite Hu; split; [reflexivity|exact Hr]).
      destruct (set_last_extension _ _ _); cbn [fst pz_ts]; rewrite Hu; (split; [reflexivity|exact Hr]).
    - unfold generate_padding. destruct (padding_packets p (pz_seq p) (Z.to_nat n)) as [s' ps].
      cbn [fst pz_ts]. split; [exact Hsame|exact Hts].
    - cbn [fst skip_samples pz_ts]. split; [reflexivity|apply Z.mod_pos_bound; lia].
    - cbn [fst enable_abs_send_time pz_ts]. split; [exact Hsame|exact Hts].
  Qed.

  Theorem history_timestamp : forall ops p, ts_ok p ->
    pz_ts (run_ops p ops) = (pz_ts p + fold_right Z.add 0 (map ts_delta ops)) mod 4294967296.
  Proof.
    induction ops as [|o t IH]; intros p Hts.
    - cbn [run_ops map fold_right]. unfold ts_ok in Hts. rewrite Z.add_0_r, Z.mod_small; lia.
    - cbn [run_ops map fold_right]. destruct (step_ts p o Hts) as [Hs Hok].
      rewrite (IH _ Hok), Hs. rewrite Zplus_mod_idemp_l. f_equal. lia.
  Qed.
End Timestamps.

(* ---- "... and parses back equal": every packet of a train is a well-formed packet in the sense of
   C01 - with the abs-send-time element on the last one, in either form - so C01_packet_roundtrip
   applies to it ---- *)
Definition pktz_ok (p : pktz) : Prop :=
  0 <= pz_pt p < 128 /\ 0 <= pz_ts p < 4294967296 /\ 0 <= pz_ssrc p < 4294967296.

Lemma train_wf p : pktz_ok p -> forall frags e, Forall wf_packet (expected_train p e frags).
Proof.
  intros (Hpt & Hts & Hss). induction frags as [|f t IH]; intros e; cbn [expected_train]; constructor; [|apply IH].
  unfold wf_packet, wf_header, wf_exts.
  cbn [hdr version payload_type sequence_number timestamp ssrc csrc extension extension_profile extensions padding padding_size].
  pose proof (Z.mod_pos_bound (e + 1) 65536 ltac:(lia)).
  change (zlen (@nil Z)) with 0.
  repeat split; try lia; try constructor.
Qed.

Lemma with_abs_wf id b pk : 1 <= id <= 255 -> zlen b = 3 -> wf_packet pk -> extension (hdr pk) = false ->
  wf_packet (with_abs id b pk).
Proof.
  intros Hid Hb (Hh & Hp) Hx. destruct Hh as (H1 & H2 & H3 & H4 & H5 & H6 & H7 & _).
  unfold with_abs, with_exts, abs_profile. split.
  - unfold wf_header. cbn [hdr version payload_type sequence_number timestamp ssrc csrc].
    repeat (split; [assumption|]). unfold wf_exts, ext_block_size.
    cbn [extension extension_profile extensions].
    destruct (id <=? 14) eqn:E14.
    + change (profile_one_byte =? profile_one_byte) with true. cbn [fold_left epayload]. rewrite Hb. split; [|cbn; lia].
      left. split; [reflexivity|]. constructor; [|constructor]. unfold wf_ext1. cbn [eid epayload]. rewrite Hb. lia.
    + change (profile_two_byte =? profile_one_byte) with false. change (ext_form profile_two_byte =? profile_two_byte) with true.
      cbn [fold_left epayload]. rewrite Hb. split; [|cbn; lia].
      right. left. split; [unfold profile_two_byte; lia|]. split; [reflexivity|]. constructor; [|constructor]. unfold wf_ext2. cbn [eid epayload]. rewrite Hb. lia.
  - cbn [hdr padding padding_size]. exact Hp.
Qed.

Theorem train_abs_wf p e frags id b : pktz_ok p -> 1 <= id <= 255 -> zlen b = 3 ->
  forall init lastp, expected_train p e frags = init ++ [lastp] ->
  Forall wf_packet (init ++ [with_abs id b lastp]).
Proof.
  intros Hp Hid Hb init lastp Hsplit.
  pose proof (train_wf p Hp frags e) as Hw. rewrite Hsplit in Hw.
  apply Forall_app in Hw as [Hi Hl]. apply Forall_cons_iff in Hl as [Hl _].
  apply Forall_app. split; [exact Hi|]. constructor; [|constructor].
  pose proof (train_hdrs p frags e) as Hh. rewrite Hsplit in Hh.
  apply Forall_app in Hh as [_ Hh]. apply Forall_cons_iff in Hh as [(Hx & _) _].
  apply with_abs_wf; assumption.
Qed.

(* ---- every MTU (D37): with a payloader that honours the room it is offered - fragments of 1 .. budget bytes,
   hence none at all when there is no room - every packet of the train serialises to at most MTU bytes, whatever
   the MTU is: also one that is smaller than the RTP header, where the room is 0 and does not wrap ---- *)
Theorem train_within_every_mtu p e frags : pz_abs p = 0 ->
  Forall (fun f => 1 <= zlen f <= pz_budget p) frags ->
  Forall (fun pk => packet_marshal_size pk <= pz_mtu p) (expected_train p e frags).
Proof.
  intros Ha Hall. unfold pz_budget in Hall. rewrite Ha in Hall. change (abs_overhead 0) with 12 in Hall.
  destruct (pz_mtu p <? 12) eqn:E.
  - destruct frags as [|f t]; [constructor|]. apply Forall_cons_iff in Hall as [Hf _]. lia.
  - pose proof (train_within_mtu p e frags (pz_mtu p - 12)) as H.
    eapply Forall_impl; [|apply H].
    + cbv beta. intros pk Hpk. lia.
    + eapply Forall_impl; [|exact Hall]. cbv beta. intros f Hf. lia.
Qed.

Theorem train_abs_within_every_mtu p e frags b : 1 <= pz_abs p <= 255 -> zlen b = 3 ->
  Forall (fun f => 1 <= zlen f <= pz_budget p) frags ->
  frags = [] \/
  exists init lastp, expected_train p e frags = init ++ [lastp] /\
    Forall (fun pk => packet_marshal_size pk <= pz_mtu p) (init ++ [with_abs (pz_abs p) b lastp]).
Proof.
  intros Hid Hb Hall. destruct frags as [|f0 t0] eqn:Ef; [left; reflexivity|right]. rewrite <- Ef in *.
  assert (Hne : expected_train p e frags <> []).
  { intros Hnil. pose proof (expected_train_length p e frags) as Hl. rewrite Hnil, Ef in Hl. discriminate. }
  destruct (exists_last Hne) as (init & lastp & Hsplit). exists init, lastp. split; [exact Hsplit|].
  unfold pz_budget in Hall.
  destruct (pz_mtu p <? abs_overhead (pz_abs p)) eqn:E.
  - exfalso. rewrite Ef in Hall. apply Forall_cons_iff in Hall as [Hf _]. lia.
  - apply (train_abs_within_mtu p e frags (pz_abs p) b (pz_mtu p) Hid Hb); [|exact Hsplit].
    eapply Forall_impl; [|exact Hall]. cbv beta. intros f Hf. lia.
Qed.
