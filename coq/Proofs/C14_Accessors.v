(* C14: the H265 payload-header, FU-header, PACI and TSCI bit accessors equal the RFC 7798 fields,
   for every value of their domains (arithmetic proofs, no enumeration). *)
From Coq Require Import ZArith List Lia Bool.
From Coq Require Import ZifyBool.
From RTP Require Import Base.Bits Model.H265.
Open Scope Z_scope.

Ltac bits := autorewrite with bits.

(* RFC 7798 1.1.4:  F(1) Type(6) LayerId(6) TID(3) *)
Theorem nalu_header_fields : forall f ty layer tid,
  0 <= ty < 64 -> 0 <= layer < 64 -> 0 <= tid < 8 ->
  let h := (if f : bool then 32768 else 0) + ty * 512 + layer * 8 + tid in
  nh_f h = f /\ nh_type h = ty /\ nh_layer_id h = layer /\ nh_tid h = tid.
Proof.
  intros f ty layer tid Ht Hl Hd h. subst h. unfold nh_f, nh_type, nh_layer_id, nh_tid, u8.
  change 32256 with (Z.shiftl (Z.ones 6) 9). change 504 with (Z.shiftl (Z.ones 6) 3).
  rewrite !land_mask_range by lia. rewrite !shiftr_div by lia. bits.
  change (2 ^ 15) with 32768. change (2 ^ 9) with 512. change (2 ^ 6) with 64. change (2 ^ 3) with 8.
  destruct f; repeat split; lia.
Qed.

(* every 16-bit value is such a header: the accessors are total and decompose it *)
Theorem nalu_header_decompose : forall h, 0 <= h < 65536 ->
  h = (if nh_f h then 32768 else 0) + nh_type h * 512 + nh_layer_id h * 8 + nh_tid h /\
  0 <= nh_type h < 64 /\ 0 <= nh_layer_id h < 64 /\ 0 <= nh_tid h < 8.
Proof.
  intros h Hh. unfold nh_f, nh_type, nh_layer_id, nh_tid, u8.
  change 32256 with (Z.shiftl (Z.ones 6) 9). change 504 with (Z.shiftl (Z.ones 6) 3).
  rewrite !land_mask_range by lia. rewrite !shiftr_div by lia. bits.
  change (2 ^ 15) with 32768. change (2 ^ 9) with 512. change (2 ^ 6) with 64. change (2 ^ 3) with 8.
  destruct (h / 32768 =? 0) eqn:E; cbn [negb]; lia.
Qed.

(* 4.4.3:  S(1) E(1) FuType(6) *)
Theorem fu_header_fields : forall s e ty, 0 <= ty < 64 ->
  let b := (if s : bool then 128 else 0) + (if e : bool then 64 else 0) + ty in
  fu_s b = s /\ fu_e b = e /\ fu_type b = ty.
Proof.
  intros s e ty Ht b. subst b. unfold fu_s, fu_e, fu_type. bits. destruct s, e; repeat split; lia.
Qed.

Lemma land_b32768 x : Z.land x 32768 = (x / 32768) mod 2 * 32768.
Proof. apply (land_bit x 15); lia. Qed.

(* 4.4.4:  A(1) cType(6) PHSsize(5) F0 F1 F2 Y *)
Theorem paci_fields : forall a ctype phs f0 f1 f2 y,
  0 <= ctype < 64 -> 0 <= phs < 32 ->
  let f := (if a : bool then 32768 else 0) + ctype * 512 + phs * 16
           + (if f0 : bool then 8 else 0) + (if f1 : bool then 4 else 0) + (if f2 : bool then 2 else 0)
           + (if y : bool then 1 else 0) in
  paci_a f = a /\ paci_ctype f = ctype /\ paci_phssize f = phs /\
  paci_f0 f = f0 /\ paci_f1 f = f1 /\ paci_f2 f = f2 /\ paci_y f = y.
Proof.
  intros a ctype phs f0 f1 f2 y Hc Hp f. subst f.
  unfold paci_a, paci_ctype, paci_phssize, paci_f0, paci_f1, paci_f2, paci_y, u8.
  rewrite land_b32768.
  change 32256 with (Z.shiftl (Z.ones 6) 9). change 496 with (Z.shiftl (Z.ones 5) 4).
  rewrite !land_mask_range by lia. rewrite !shiftr_div by lia. bits.
  change (2 ^ 15) with 32768. change (2 ^ 9) with 512. change (2 ^ 6) with 64. change (2 ^ 5) with 32. change (2 ^ 4) with 16.
  destruct a, f0, f1, f2, y; repeat split; lia.
Qed.

(* 4.5 TSCI:  TL0PICIDX(8) IrapPicID(8) S E RES(6), the three PHES bytes *)
Theorem tsci_fields : forall p0 p1 p2, 0 <= p0 < 256 -> 0 <= p1 < 256 -> 0 <= p2 < 256 ->
  let t := tsci_of p0 p1 p2 in
  tsci_tl0picidx t = p0 /\ tsci_irap t = p1 /\
  tsci_s t = (p2 / 128 mod 2 =? 1) /\ tsci_e t = (p2 / 64 mod 2 =? 1) /\ tsci_res t = p2 mod 64.
Proof.
  intros p0 p1 p2 H0 H1 H2 t. subst t. unfold tsci_of.
  rewrite !shiftl_mul by lia. change (2 ^ 24) with 16777216. change (2 ^ 16) with 65536. change (2 ^ 8) with 256.
  rewrite (lor_add_small (p0 * 16777216) (p1 * 65536) 24) by lia.
  rewrite (lor_add_small _ (p2 * 256) 16) by lia.
  unfold tsci_tl0picidx, tsci_irap, tsci_s, tsci_e, tsci_res, u8.
  change 4294901760 with (Z.shiftl (Z.ones 16) 16). change 65280 with (Z.shiftl (Z.ones 8) 8).
  rewrite !land_mask_range by lia. rewrite !shiftr_div by lia. bits.
  change (2 ^ 16) with 65536. change (2 ^ 8) with 256.
  repeat split; lia.
Qed.
