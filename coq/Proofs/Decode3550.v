(* Header.Unmarshal / Packet.Unmarshal decode every well-formed RFC 3550 / RFC 8285 wire
   image to exactly what it was built from. *)
From Coq Require Import ZArith List Lia Bool.
From Coq Require Import ZifyBool.
From RTP Require Import Base.Bits Base.Res Base.ListX Base.Bytes Base.Tactics.
From RTP Require Import Model.RtpPacket Spec.Rfc8285 Spec.Rfc3550 Proofs.ExtLoop Proofs.ExtForm.
Import ListNotations.
Open Scope Z_scope.

Lemma enc_u16_be16 v : 0 <= v < 65536 -> exists a b, enc_u16 v = [a; b] /\ be16 a b = v.
Proof.
  intros Hv. unfold enc_u16. do 2 eexists. split; [reflexivity|].
  rewrite be16_arith by (unfold is_byte; lia). lia.
Qed.

Lemma enc_u32_be32 v : 0 <= v < 4294967296 -> exists a b c d, enc_u32 v = [a; b; c; d] /\ be32 a b c d = v.
Proof.
  intros Hv. unfold enc_u32. do 4 eexists. split; [reflexivity|].
  rewrite be32_arith by (unfold is_byte; lia). lia.
Qed.

Lemma read_csrcs_enc : forall cs rest, Forall (fun c => 0 <= c < 4294967296) cs ->
  read_csrcs (length cs) (concat (map enc_u32 cs) ++ rest) = Ok (cs, rest).
Proof.
  induction cs as [|c cs IH]; intros rest H; [reflexivity|].
  apply Forall_cons_iff in H as [Hc Hcs].
  destruct (enc_u32_be32 c Hc) as (a & b & c' & d & He & Hv).
  cbn [map concat length]. rewrite He. cbn [app read_csrcs].
  rewrite (IH rest Hcs). cbn [bind]. rewrite Hv. reflexivity.
Qed.

(* first octet: V(2) P(1) X(1) CC(4) *)
Lemma byte0_decode v p x cc : 0 <= v < 4 -> 0 <= cc <= 15 ->
  let b0 := v * 64 + (if p : bool then 32 else 0) + (if x : bool then 16 else 0) + cc in
  Z.land (Z.shiftr b0 6) 3 = v /\
  (0 <? Z.land (Z.shiftr b0 5) 1) = p /\
  (0 <? Z.land (Z.shiftr b0 4) 1) = x /\
  Z.land b0 15 = cc.
Proof.
  intros Hv Hcc b0. subst b0. autorewrite with bits.
  destruct p, x; repeat split; lia.
Qed.

(* second octet: M(1) PT(7) *)
Lemma byte1_decode m pt : 0 <= pt < 128 ->
  let b1 := (if m : bool then 128 else 0) + pt in
  (0 <? Z.land (Z.shiftr b1 7) 1) = m /\ Z.land b1 127 = pt.
Proof.
  intros Hpt b1. subst b1. autorewrite with bits. destruct m; split; lia.
Qed.

Lemma zlen_enc_u32s cs : zlen (concat (map enc_u32 cs)) = 4 * zlen cs.
Proof.
  induction cs as [|c cs IH]; [reflexivity|].
  cbn [map concat]. rewrite zlen_app, IH, zlen_cons. unfold enc_u32. rewrite !zlen_cons, zlen_nil. lia.
Qed.

Lemma zlen_enc_u16 v : zlen (enc_u16 v) = 2.
Proof. reflexivity. Qed.

Definition hdr_of (prev_profile : Z) (w : wire) : header := hdr (meaning prev_profile w).

(* the extension block, given that the fixed part and the CSRC list were consumed *)
Lemma decode_block : forall b rest n (mk : Z -> list ext -> header),
  wf_block b -> has_ext b = true ->
  exists offs,
  match enc_block b ++ rest with
  | p0 :: p1 :: e0 :: e1 :: le =>
      let profile := be16 p0 p1 in
      let ext_len := be16 e0 e1 * 4 in
      let n4 := n + 4 in
      let ext_end := n4 + ext_len in
      if zlen le <? ext_len then Err EShort
      else if (profile =? profile_one_byte) || (ext_form profile =? profile_two_byte)
           then bind (parse_exts (S (length le)) (ext_form profile =? profile_two_byte) le n4 ext_end [] [])
                     (fun '(exts, offs, nf, rest) => Ok (mkHdrResult (mk profile exts) nf offs rest))
           else Ok (mkHdrResult (mk profile [mkExt 0 (take ext_len le)]) ext_end [n4] (drop ext_len le))
  | _ => Err EShort
  end = Ok (mkHdrResult (mk (block_profile b) (block_elems b)) (n + zlen (enc_block b)) offs rest).
Proof.
  intros b rest n mk (Hwf & Hmod & Hwords) Hx.
  assert (Hprof : 0 <= block_profile b < 65536).
  { destruct b; cbn [block_profile] in *; lia. }
  assert (Hbody : 0 <= zlen (block_body b)) by apply zlen_nonneg.
  destruct (enc_u16_be16 (block_profile b) Hprof) as (p0 & p1 & Ep & Vp).
  destruct (enc_u16_be16 (zlen (block_body b) / 4) ltac:(lia)) as (e0 & e1 & Ee & Ve).
  assert (Henc : enc_block b = p0 :: p1 :: e0 :: e1 :: block_body b).
  { destruct b; [discriminate| | |]; unfold enc_block; rewrite Ep, Ee; reflexivity. }
  rewrite Henc. cbn [app]. cbv zeta. rewrite Vp, Ve.
  replace (zlen (block_body b) / 4 * 4) with (zlen (block_body b)) by lia.
  rewrite zlen_app. pose proof (zlen_nonneg rest).
  case_if; [lia|].
  rewrite !zlen_cons.
  destruct b as [|items|ab items|p body]; [discriminate| | |].
  - (* one-byte *)
    cbn [block_profile block_body block_elems] in *.
    change (48862 =? profile_one_byte) with true. change (ext_form 48862 =? profile_two_byte) with false.
    cbn [orb].
    rewrite parse_exts_items1 by (auto; rewrite app_length; lia).
    cbn [bind rev app]. eexists. f_equal. f_equal. lia.
  - (* two-byte *)
    cbn [block_profile block_body block_elems] in *. destruct Hwf as [Hab Hwf].
    change 4096 with profile_two_byte. rewrite (ext_form_two ab Hab), Z.eqb_refl.
    replace (profile_two_byte + ab =? profile_one_byte) with false by (unfold profile_two_byte, profile_one_byte; lia).
    cbn [orb].
    rewrite parse_exts_items2 by (auto; rewrite app_length; lia).
    cbn [bind rev app]. eexists. f_equal. f_equal. lia.
  - (* legacy *)
    cbn [block_profile block_body block_elems] in *. destruct Hwf as (Hp & Hn1 & Hn2).
    rewrite (ext_form_is_two p Hp).
    replace (p =? profile_one_byte) with false by (unfold profile_one_byte; lia).
    replace ((4096 <=? p) && (p <? 4112)) with false by lia. cbn [orb].
    rewrite take_app_exact, drop_app_exact. eexists. f_equal. f_equal. lia.
Qed.

Lemma zlen_enc_header_fixed w :
  zlen (enc_header w) = 12 + 4 * zlen (w_csrc w) + zlen (enc_block (w_ext w)).
Proof.
  unfold enc_header. rewrite !zlen_app, zlen_enc_u32s. unfold enc_u16, enc_u32.
  rewrite !zlen_cons, !zlen_nil. lia.
Qed.

Theorem header_decode_wire : forall w prev rest,
  wf_wire w ->
  exists offs,
  header_unmarshal_into prev (enc_header w ++ rest)
  = Ok (mkHdrResult (hdr_of 0 w) (zlen (enc_header w)) offs rest).
Proof.
  intros w prev rest (Hv & Hpt & Hseq & Hts & Hssrc & Hcc & Hcs & Hblk & _ & _).
  pose proof (zlen_enc_header_fixed w) as Hlen.
  pose proof (zlen_nonneg (w_csrc w)) as Hcc0.
  unfold enc_header in *.
  destruct (enc_u16_be16 _ Hseq) as (s0 & s1 & Es & Vs).
  destruct (enc_u32_be32 _ Hts) as (t0 & t1 & t2 & t3 & Et & Vt).
  destruct (enc_u32_be32 _ Hssrc) as (r0 & r1 & r2 & r3 & Er & Vr).
  rewrite Es, Et, Er in *. cbn [app] in *.
  destruct (byte0_decode (w_version w) (w_pad w) (has_ext (w_ext w)) (zlen (w_csrc w)) Hv ltac:(lia))
    as (D1 & D2 & D3 & D4).
  destruct (byte1_decode (w_marker w) (w_pt w) Hpt) as (D5 & D6).
  unfold header_unmarshal_into. cbv zeta.
  rewrite D1, D2, D3, D4, D5, D6, Vs, Vt, Vr.
  rewrite <- app_assoc.
  (* length check *)
  match goal with |- context [zlen ?l <? ?n] => assert (Hge : n <= zlen l) end.
  { rewrite !zlen_cons, !zlen_app, zlen_enc_u32s. pose proof (zlen_nonneg (enc_block (w_ext w) ++ rest)).
    rewrite zlen_app in *. lia. }
  case_if; [lia|]. clear E Hge.
  unfold zlen at 1. rewrite Nat2Z.id.
  rewrite read_csrcs_enc by assumption. cbn [bind].
  unfold hdr_of, meaning. cbn [hdr].
  destruct (has_ext (w_ext w)) eqn:Hx.
  - destruct (decode_block (w_ext w) rest (12 + zlen (w_csrc w) * 4)
               (fun profile exts =>
                  mkHeader (w_version w) (w_pad w) true (w_marker w) (w_pt w) (w_seq w) (w_ts w) (w_ssrc w)
                           (w_csrc w) profile exts) Hblk Hx) as (offs & Hd).
    exists offs. cbv zeta in Hd. rewrite Hd. f_equal. f_equal. rewrite Hlen. lia.
  - destruct (w_ext w); try discriminate. cbn [enc_block app block_elems].
    eexists. f_equal. f_equal. rewrite !zlen_cons, zlen_app, zlen_enc_u32s. cbn [enc_block]. rewrite zlen_nil. lia.
Qed.

Lemma last_app_single {A} (l : list A) (x d : A) : last (l ++ [x]) d = x.
Proof. induction l as [|a l IH]; [reflexivity|]. cbn [app]. destruct (l ++ [x]) eqn:E; [destruct l; discriminate|]. exact IH. Qed.

Theorem packet_decode_wire : forall w prev,
  wf_wire w ->
  exists offs,
  packet_unmarshal_into prev (encode w)
  = Ok (mkPktResult (meaning 0 w) (zlen (enc_header w)) offs).
Proof.
  intros w prev Hwf.
  destruct (header_decode_wire w (hdr prev) (w_payload w ++ enc_trailer w) Hwf) as (offs & Hh).
  destruct Hwf as (_ & _ & _ & _ & _ & _ & _ & _ & Hp1 & Hp2).
  exists offs. unfold packet_unmarshal_into, encode. rewrite Hh. cbn [bind hr_n hr_rest hr_header hr_offsets].
  unfold hdr_of, meaning. cbn [hdr padding].
  rewrite !zlen_app. pose proof (zlen_nonneg (enc_header w)). pose proof (zlen_nonneg (w_payload w)).
  unfold enc_trailer. destruct (w_pad w) eqn:Hpad.
  - specialize (Hp1 eq_refl). pose proof (zlen_nonneg (w_padfill w)).
    rewrite zlen_app, zlen_cons, zlen_nil.
    case_if; [lia|].
    rewrite app_assoc, last_app_single.
    case_if; [lia|].
    f_equal. f_equal. f_equal.
    rewrite <- app_assoc.
    replace (zlen (enc_header w) + (zlen (w_payload w) + (zlen (w_padfill w) + (1 + 0))) -
             (zlen (w_padfill w) + 1) - zlen (enc_header w)) with (zlen (w_payload w)) by lia.
    apply take_app_exact.
  - rewrite zlen_nil, app_nil_r. case_if; [lia|]. reflexivity.
Qed.
