(* C05: the extension accessors refine an ordered map; accepted values survive the wire. *)
From Coq Require Import ZArith List Lia Bool.
From Coq Require Import ZifyBool.
From RTP Require Import Base.Bits Base.Res Base.ListX Base.Bytes Base.Tactics Model.RtpPacket Spec.OrderedMap Proofs.ExtForm
  Spec.Rfc8285 Spec.Rfc3550 Proofs.ExtLoop Proofs.Decode3550 Proofs.C01_Roundtrip.
Import ListNotations.
Open Scope Z_scope.

Definition abs_exts (es : list ext) : amap := map (fun e => (eid e, epayload e)) es.
Definition abs (h : header) : amap := abs_exts (extensions h).

(* ---- the three list walks of the code are the ordered-map operations ---- *)
Lemma set_existing_spec id v es :
  abs_exts (match set_existing id v es with Some es' => es' | None => es ++ [mkExt id v] end)
  = am_set id v (abs_exts es).
Proof.
  induction es as [|e t IH]; [reflexivity|].
  cbn [set_existing abs_exts map am_set]. destruct (eid e =? id) eqn:E; [reflexivity|].
  fold (abs_exts t). rewrite <- IH.
  destruct (set_existing id v t) as [t'|]; reflexivity.
Qed.

Lemma abs_exts_filter id es :
  abs_exts (filter (fun x => negb (eid x =? id)) es) = filter (fun p => negb (fst p =? id)) (abs_exts es).
Proof.
  induction es as [|e t IH]; [reflexivity|]. cbn [filter abs_exts map fst].
  destruct (eid e =? id); cbn [negb abs_exts map]; [exact IH|]. f_equal. exact IH.
Qed.

Lemma del_first_spec id es :
  option_map abs_exts (del_first id es) = am_del id (abs_exts es).
Proof.
  induction es as [|e t IH]; [reflexivity|].
  cbn [del_first abs_exts map am_del]. destruct (eid e =? id); [cbn [option_map]; f_equal; apply abs_exts_filter|].
  fold (abs_exts t). rewrite <- IH. destruct (del_first id t); reflexivity.
Qed.

Lemma find_spec id es :
  match find (fun e => eid e =? id) es with Some e => Some (epayload e) | None => None end
  = am_get id (abs_exts es).
Proof.
  induction es as [|e t IH]; [reflexivity|].
  cbn [find abs_exts map am_get]. destruct (eid e =? id); [reflexivity|exact IH].
Qed.

Lemma ids_spec es : map eid es = am_ids (abs_exts es).
Proof. unfold am_ids, abs_exts. rewrite map_map. reflexivity. Qed.

(* ---- the specification state machine ---- *)
Record sstate := mkS { s_enabled : bool; s_profile : Z; s_map : amap }.

Definition abs_state (h : header) : sstate := mkS (extension h) (extension_profile h) (abs h).

Definition valid_for (profile id : Z) (v : list Z) : option err :=
  if profile =? profile_one_byte then
    if (id <? 1) || (14 <? id) then Some EIdRange
    else if (zlen v =? 0) || (16 <? zlen v) then Some ESize else None
  else if ext_form profile =? profile_two_byte then
    if id <? 1 then Some EIdRange else if 255 <? zlen v then Some ESize else None
  else if negb (id =? 0) then Some EIdRange else if 262140 <? zlen v then Some ESize else None.

Inductive op := OSet (id : Z) (v : list Z) | ODel (id : Z) | OGet (id : Z) | OIds.
Inductive out := RDone (e : option err) | RVal (o : option (list Z)) | RIds (o : option (list Z)).

Definition spec_step (s : sstate) (o : op) : sstate * out :=
  match o with
  | OSet id v =>
    if s_enabled s then
      match valid_for (s_profile s) id v with
      | Some e => (s, RDone (Some e))
      | None => (mkS true (s_profile s) (am_set id v (s_map s)), RDone None)
      end
    else
      let len := zlen v in
      if (1 <=? len) && (len <=? 16) && (1 <=? id) && (id <=? 14)
      then (mkS true profile_one_byte (am_set id v (s_map s)), RDone None)
      else if (len <? 256) && (1 <=? id)
      then (mkS true profile_two_byte (am_set id v (s_map s)), RDone None)
      else if id <? 1 then (s, RDone (Some EIdRange)) else (s, RDone (Some ESize))
  | ODel id =>
    if negb (s_enabled s) then (s, RDone (Some ENotEnabled))
    else match am_del id (s_map s) with
         | Some m => (mkS true (s_profile s) m, RDone None)
         | None => (s, RDone (Some ENotFound))
         end
  | OGet id => (s, RVal (if s_enabled s then am_get id (s_map s) else None))
  | OIds => (s, RIds (if s_enabled s then match s_map s with [] => None | m => Some (am_ids m) end else None))
  end.

Definition model_step (h : header) (o : op) : header * out :=
  match o with
  | OSet id v => let '(h', e) := set_extension h id v in (h', RDone e)
  | ODel id => let '(h', e) := del_extension h id in (h', RDone e)
  | OGet id => (h, RVal (get_extension h id))
  | OIds => (h, RIds (get_extension_ids h))
  end.

Fixpoint run {S} (step : S -> op -> S * out) (s : S) (ops : list op) : S * list out :=
  match ops with
  | [] => (s, [])
  | o :: t => let '(s1, r) := step s o in let '(s2, rs) := run step s1 t in (s2, r :: rs)
  end.

(* a header whose extension list is empty when the flag is off (every state reachable from the
   four starting states and from Unmarshal has this shape) *)
Definition shape_ok (h : header) : Prop := extension h = false -> extensions h = [].

(* SetExtension refuses a value that would make the elements exceed 65535 words, the most the 16-bit
   length field can count (D36).  The ordered map knows nothing of sizes: the refinement is stated for
   the calls that stay within that limit ([op_fits]; [inv_op_fits]: every call on a header without a
   repeated id does), a call beyond it returns an error and leaves the header unchanged
   ([error_leaves_unchanged]). *)
Definition op_fits (h : header) (o : op) : Prop :=
  match o with
  | OSet id v => extension h = true -> valid_for (extension_profile h) id v = None ->
                 exts_size_with (extension_profile h) id (zlen v) (extensions h) <= 262140
  | _ => True
  end.

Lemma step_refines h o : shape_ok h -> op_fits h o ->
  let '(h', r) := model_step h o in
  spec_step (abs_state h) o = (abs_state h', r) /\ shape_ok h'.
Proof.
  intros Hshape Hfit. destruct o as [id v|id|id|]; cbn [model_step spec_step].
  - (* Set *)
    unfold set_extension, abs_state, abs. cbn [s_enabled s_profile s_map].
    destruct (extension h) eqn:Hx.
    + assert (Hf : valid_for (extension_profile h) id v = None ->
                   (262140 <? exts_size_with (extension_profile h) id (zlen v) (extensions h)) = false)
        by (intros Hv; apply Z.ltb_ge, Hfit; [exact Hx|exact Hv]).
      unfold valid_for in *.
      destruct (extension_profile h =? profile_one_byte) eqn:E1.
      * destruct ((id <? 1) || (14 <? id)); [split; [rewrite ?Hx; reflexivity|exact Hshape]|].
        destruct ((zlen v =? 0) || (16 <? zlen v)); [split; [rewrite ?Hx; reflexivity|exact Hshape]|].
        rewrite (Hf eq_refl).
        pose proof (set_existing_spec id v (extensions h)) as Hs.
        destruct (set_existing id v (extensions h)); cbn [extension extension_profile extensions with_exts];
          rewrite <- Hs; (split; [reflexivity|intros; discriminate]).
      * destruct (ext_form (extension_profile h) =? profile_two_byte) eqn:E2.
        -- destruct (id <? 1); [split; [rewrite ?Hx; reflexivity|exact Hshape]|].
           destruct (255 <? zlen v); [split; [rewrite ?Hx; reflexivity|exact Hshape]|].
           rewrite (Hf eq_refl).
           pose proof (set_existing_spec id v (extensions h)) as Hs.
           destruct (set_existing id v (extensions h)); cbn [extension extension_profile extensions with_exts];
             rewrite <- Hs; (split; [reflexivity|intros; discriminate]).
        -- destruct (negb (id =? 0)); [split; [rewrite ?Hx; reflexivity|exact Hshape]|].
           destruct (262140 <? zlen v); [split; [rewrite ?Hx; reflexivity|exact Hshape]|].
           rewrite (Hf eq_refl).
           pose proof (set_existing_spec id v (extensions h)) as Hs.
           destruct (set_existing id v (extensions h)); cbn [extension extension_profile extensions with_exts];
             rewrite <- Hs; (split; [reflexivity|intros; discriminate]).
    + rewrite (Hshape Hx). cbn [abs_exts map app am_set].
      destruct ((1 <=? zlen v) && (zlen v <=? 16) && (1 <=? id) && (id <=? 14));
        [split; [reflexivity|intros; discriminate]|].
      destruct ((zlen v <? 256) && (1 <=? id)); [split; [reflexivity|intros; discriminate]|].
      destruct (id <? 1); (split; [cbn [abs_state]; unfold abs; rewrite Hx, (Hshape Hx); reflexivity|exact Hshape]).
  - (* Del *)
    unfold del_extension, abs_state, abs. cbn [s_enabled s_profile s_map].
    destruct (extension h) eqn:Hx; cbn [negb].
    + pose proof (del_first_spec id (extensions h)) as Hd.
      destruct (del_first id (extensions h)) as [es|]; cbn [option_map] in Hd; rewrite <- Hd.
      * cbn [extension extension_profile extensions with_exts]. split; [reflexivity|intros; discriminate].
      * rewrite Hx. split; [reflexivity|exact Hshape].
    + rewrite Hx. split; [reflexivity|exact Hshape].
  - (* Get *)
    unfold get_extension, abs_state, abs. cbn [s_enabled s_profile s_map].
    destruct (extension h); cbn [negb]; (split; [|exact Hshape]).
    + rewrite <- find_spec. reflexivity.
    + reflexivity.
  - (* Ids *)
    unfold get_extension_ids, abs_state, abs. cbn [s_enabled s_profile s_map].
    destruct (extension h); cbn [negb]; (split; [|exact Hshape]); [|reflexivity].
    destruct (extensions h) as [|e t]; [reflexivity|]. rewrite ids_spec. reflexivity.
Qed.

(* every finite operation sequence: the model's answers are the ordered map's answers *)
Fixpoint run_fits (h : header) (ops : list op) : Prop :=
  match ops with
  | [] => True
  | o :: t => op_fits h o /\ run_fits (fst (model_step h o)) t
  end.

Theorem accessors_refine : forall ops h, shape_ok h -> run_fits h ops ->
  let '(h', outs) := run model_step h ops in
  run spec_step (abs_state h) ops = (abs_state h', outs) /\ shape_ok h'.
Proof.
  induction ops as [|o t IH]; intros h Hs Hf; cbn [run]; [split; [reflexivity|exact Hs]|].
  destruct Hf as [Hf1 Hf2].
  pose proof (step_refines h o Hs Hf1) as H1.
  destruct (model_step h o) as [h1 r]. destruct H1 as [H1 Hs1]. rewrite H1.
  specialize (IH h1 Hs1 Hf2). destruct (run model_step h1 t) as [h2 rs]. destruct IH as [IH Hs2].
  rewrite IH. split; [reflexivity|exact Hs2].
Qed.

(* an operation that returns an error leaves the state unchanged *)
Theorem error_leaves_unchanged h o h' e :
  model_step h o = (h', RDone (Some e)) -> h' = h.
Proof.
  destruct o as [id v|id|id|]; cbn [model_step]; try discriminate.
  - unfold set_extension.
    destruct (extension h).
    + destruct (if extension_profile h =? profile_one_byte then _ else _) as [e0|].
      * intros H; inversion H; reflexivity.
      * destruct (262140 <? exts_size_with _ _ _ _); [intros H; inversion H; reflexivity|].
        destruct (set_existing id v (extensions h)); intros H; inversion H.
    + repeat (case_if; try (intros H; inversion H; reflexivity)); intros H; inversion H; reflexivity.
  - unfold del_extension. destruct (negb (extension h)); [intros H; inversion H; reflexivity|].
    destruct (del_first id (extensions h)); intros H; inversion H; reflexivity.
Qed.

(* ------------------------------------------------------------------ *)
(* Marshal never panics, on any header                                 *)

Lemma zlen_flat_map_put32 cs : zlen (flat_map put32 cs) = 4 * zlen cs.
Proof.
  induction cs as [|c cs IH]; [reflexivity|]. cbn [flat_map]. rewrite zlen_app, IH, zlen_cons.
  unfold put32. rewrite !zlen_cons, zlen_nil. lia.
Qed.

Lemma zlen_body_one es acc :
  fold_left (fun s e => s + 1 + zlen (epayload e)) es acc
  = acc + zlen (flat_map (fun e => Z.lor (u8 (Z.shiftl (eid e) 4)) (u8 (u8 (zlen (epayload e)) - 1)) :: epayload e) es).
Proof.
  revert acc. induction es as [|e es IH]; intros acc; [cbn; lia|].
  cbn [fold_left flat_map]. rewrite IH, zlen_app, zlen_cons. lia.
Qed.

Lemma zlen_body_two es acc :
  fold_left (fun s e => s + 2 + zlen (epayload e)) es acc
  = acc + zlen (flat_map (fun e => eid e :: u8 (zlen (epayload e)) :: epayload e) es).
Proof.
  revert acc. induction es as [|e es IH]; intros acc; [cbn; lia|].
  cbn [fold_left flat_map]. rewrite IH, zlen_app, !zlen_cons. lia.
Qed.

Lemma header_bytes_len h bs : header_bytes h = Ok bs -> zlen bs = header_marshal_size h.
Proof.
  unfold header_bytes, header_marshal_size. cbv zeta.
  destruct (extension h).
  - destruct (ext_body h) as [body| |] eqn:Eb; cbn [bind]; try discriminate.
    intros H. injection H as <-.
    unfold put16, put32. repeat (rewrite zlen_cons || rewrite zlen_app). rewrite zlen_flat_map_put32, zlen_repeat.
    change (zlen (@nil Z)) with 0.
    assert (Hsz : ext_block_size h = 4 + zlen body).
    { unfold ext_body, ext_block_size in *.
      destruct (extension_profile h =? profile_one_byte).
      - injection Eb as <-. apply zlen_body_one.
      - destruct (ext_form (extension_profile h) =? profile_two_byte).
        + injection Eb as <-. apply zlen_body_two.
        + destruct (extensions h) as [|e t]; [injection Eb as <-; reflexivity|].
          destruct (zlen (epayload e) mod 4 =? 0); [injection Eb as <-; reflexivity|discriminate]. }
    rewrite Hsz. pose proof (zlen_nonneg body). lia.
  - intros H. injection H as <-.
    unfold put16, put32. repeat (rewrite zlen_cons || rewrite zlen_app). rewrite zlen_flat_map_put32.
    change (zlen (@nil Z)) with 0. lia.
Qed.

Lemma header_bytes_no_panic h : header_bytes h <> Panic.
Proof.
  unfold header_bytes. cbv zeta. destruct (extension h); [|discriminate].
  destruct (ext_body h) eqn:Eb; cbn [bind]; try discriminate.
  unfold ext_body in Eb.
  destruct (extension_profile h =? profile_one_byte); [discriminate|].
  destruct (ext_form (extension_profile h) =? profile_two_byte); [discriminate|].
  destruct (extensions h) as [|e t]; [discriminate|]. destruct (zlen (epayload e) mod 4 =? 0); discriminate.
Qed.

Lemma header_marshal_to_no_panic h dst : header_marshal_to h dst <> Panic.
Proof.
  unfold header_marshal_to. case_if; [discriminate|].
  pose proof (header_bytes_no_panic h) as Hnp.
  destruct (header_bytes h) as [bs| |] eqn:Hb; cbn [bind]; try discriminate; [|congruence].
  rewrite (header_bytes_len h bs Hb). case_if; [lia|discriminate].
Qed.

Theorem header_marshal_total h : header_marshal h <> Panic.
Proof.
  unfold header_marshal. pose proof (header_marshal_to_no_panic h (repeat 0 (Z.to_nat (header_marshal_size h)))) as H.
  destruct (header_marshal_to h _) as [[b n]| |]; cbn [bind]; try discriminate. congruence.
Qed.

Theorem packet_marshal_total p : packet_marshal p <> Panic.
Proof.
  unfold packet_marshal, packet_marshal_to.
  destruct (padding (hdr p) && (padding_size p =? 0)); [discriminate|].
  pose proof (header_marshal_to_no_panic (hdr p) (repeat 0 (Z.to_nat (packet_marshal_size p)))) as H.
  destruct (header_marshal_to (hdr p) _) as [[b n]| |]; cbn [bind]; try discriminate; [|congruence].
  case_if; discriminate.
Qed.

(* ------------------------------------------------------------------ *)
(* Reachable headers are well-formed, so accepted values survive the wire *)

Definition ids (h : header) : list Z := map eid (extensions h).

(* what SetExtension admits in the one-byte profile: ids 1-14 (the decoder's id 0 is not reachable
   through the accessors); it implies C01's wf_ext1 *)
Definition wf_ext1s (e : ext) : Prop := 1 <= eid e <= 14 /\ 1 <= zlen (epayload e) <= 16.
Lemma wf_ext1s_weak e : wf_ext1s e -> wf_ext1 e.
Proof. unfold wf_ext1s, wf_ext1. lia. Qed.

Definition exts_inv (h : header) : Prop :=
  extension h = true ->
  NoDup (ids h) /\ 0 <= extension_profile h < 65536 /\
  if extension_profile h =? profile_one_byte then Forall wf_ext1s (extensions h)
  else if ext_form (extension_profile h) =? profile_two_byte then Forall wf_ext2 (extensions h)
  else Forall (fun e => eid e = 0 /\ zlen (epayload e) <= 262140) (extensions h).

Lemma set_existing_ids id v es :
  match set_existing id v es with
  | Some es' => map eid es' = map eid es /\ In id (map eid es)
  | None => ~ In id (map eid es)
  end.
Proof.
  induction es as [|e t IH]; cbn [set_existing map]; [intros []|].
  destruct (eid e =? id) eqn:E.
  - cbn [map eid]. split; [f_equal; lia|left; lia].
  - destruct (set_existing id v t) as [t'|].
    + destruct IH as [IH1 IH2]. cbn [map]. split; [rewrite IH1; reflexivity|right; exact IH2].
    + intros [H|H]; [lia|exact (IH H)].
Qed.

Lemma set_existing_forall (P : ext -> Prop) id v es es' :
  Forall P es -> P (mkExt id v) -> set_existing id v es = Some es' -> Forall P es'.
Proof.
  revert es'. induction es as [|e t IH]; intros es' Hall Hp H; cbn [set_existing] in H; [discriminate|].
  apply Forall_cons_iff in Hall as [He Ht].
  destruct (eid e =? id).
  - injection H as <-. constructor; assumption.
  - destruct (set_existing id v t) as [t'|]; [|discriminate]. injection H as <-.
    constructor; [assumption|apply IH; auto].
Qed.

Lemma del_first_sub id es es' : del_first id es = Some es' ->
  (forall P : ext -> Prop, Forall P es -> Forall P es') /\ (NoDup (map eid es) -> NoDup (map eid es')) /\
  incl (map eid es') (map eid es).
Proof.
  revert es'. induction es as [|e t IH]; intros es' H; cbn [del_first] in H; [discriminate|].
  destruct (eid e =? id).
  - injection H as <-.
    assert (Hmap : map eid (filter (fun x => negb (eid x =? id)) t) = filter (fun k => negb (k =? id)) (map eid t)).
    { clear. induction t as [|a t IH]; [reflexivity|]. cbn [filter map]. destruct (eid a =? id); cbn [negb map]; [exact IH|f_equal; exact IH]. }
    repeat split.
    + intros P Hall. apply Forall_cons_iff in Hall as [_ Hall]. apply Forall_forall. intros a Ha.
      apply filter_In in Ha as [Ha _]. exact (proj1 (Forall_forall _ _) Hall a Ha).
    + cbn [map]. intros Hnd. apply NoDup_cons_iff in Hnd as [_ Hnd]. rewrite Hmap. apply NoDup_filter. exact Hnd.
    + cbn [map]. intros a Ha. right. rewrite Hmap in Ha. apply filter_In in Ha as [Ha _]. exact Ha.
  - destruct (del_first id t) as [t'|]; [|discriminate]. injection H as <-.
    destruct (IH t' eq_refl) as (H1 & H2 & H3). repeat split.
    + intros P Hall. apply Forall_cons_iff in Hall as [He Ht]. constructor; [assumption|apply H1; assumption].
    + cbn [map]. intros Hnd. apply NoDup_cons_iff in Hnd as [Hnin Hnd]. apply NoDup_cons; [|apply H2; assumption].
      intros Hin. apply Hnin. apply H3. exact Hin.
    + cbn [map]. intros a [Ha|Ha]; [left; exact Ha|right; apply H3; exact Ha].
Qed.

Lemma NoDup_app_one (l : list Z) x : NoDup l -> ~ In x l -> NoDup (l ++ [x]).
Proof.
  intros Hnd Hnin. induction l as [|a l IH]; [constructor; [intros []|constructor]|].
  apply NoDup_cons_iff in Hnd as [Ha Hl]. cbn [app]. apply NoDup_cons.
  - intros Hin. apply in_app_or in Hin as [Hin|[->|[]]]; [exact (Ha Hin)|apply Hnin; left; reflexivity].
  - apply IH; [assumption|intros Hin; apply Hnin; right; exact Hin].
Qed.

Lemma upd_inv (P : ext -> Prop) id v es :
  NoDup (map eid es) -> Forall P es -> P (mkExt id v) ->
  let es' := match set_existing id v es with Some x => x | None => es ++ [mkExt id v] end in
  NoDup (map eid es') /\ Forall P es'.
Proof.
  intros Hnd Hall Hp. cbv zeta. pose proof (set_existing_ids id v es) as Hids.
  destruct (set_existing id v es) as [es'|] eqn:Es.
  - destruct Hids as [Hi1 _]. rewrite Hi1. split; [assumption|eapply set_existing_forall; eauto].
  - rewrite map_app. cbn [map eid]. split; [apply NoDup_app_one; assumption|].
    apply Forall_app. split; [assumption|constructor; [assumption|constructor]].
Qed.

Definition op_ok (o : op) : Prop :=
  match o with OSet id _ | ODel id | OGet id => 0 <= id <= 255 | OIds => True end.

Lemma step_preserves_inv h o : op_ok o -> shape_ok h -> exts_inv h -> exts_inv (fst (model_step h o)).
Proof.
  intros Hop Hshape Hinv. destruct o as [id v|id|id|]; cbn [model_step]; try exact Hinv; cbn [op_ok] in Hop.
  - (* Set *)
    unfold set_extension. pose proof (zlen_nonneg v) as Hv. destruct (extension h) eqn:Hx.
    + specialize (Hinv Hx). destruct Hinv as (Hnd & Hprof & Hall). unfold ids in *.
      destruct (extension_profile h =? profile_one_byte) eqn:E1.
      * destruct ((id <? 1) || (14 <? id)) eqn:Ea; [cbn [fst]; intros _; rewrite E1; auto|].
        destruct ((zlen v =? 0) || (16 <? zlen v)) eqn:Eb; [cbn [fst]; intros _; rewrite E1; auto|].
        destruct (262140 <? exts_size_with _ _ _ _); [cbn [fst]; intros _; rewrite E1; auto|].
        destruct (upd_inv wf_ext1s id v (extensions h) Hnd Hall ltac:(unfold wf_ext1s; cbn [eid epayload]; lia)) as [U1 U2].
        destruct (set_existing id v (extensions h)); cbn [fst]; intros _; unfold ids;
          cbn [extensions extension_profile with_exts]; rewrite E1; auto.
      * destruct (ext_form (extension_profile h) =? profile_two_byte) eqn:E2.
        -- destruct (id <? 1) eqn:Ea; [cbn [fst]; intros _; rewrite E1, E2; auto|].
           destruct (255 <? zlen v) eqn:Eb; [cbn [fst]; intros _; rewrite E1, E2; auto|].
           destruct (262140 <? exts_size_with _ _ _ _); [cbn [fst]; intros _; rewrite E1, E2; auto|].
           destruct (upd_inv wf_ext2 id v (extensions h) Hnd Hall ltac:(unfold wf_ext2; cbn [eid epayload]; lia)) as [U1 U2].
           destruct (set_existing id v (extensions h)); cbn [fst]; intros _; unfold ids;
             cbn [extensions extension_profile with_exts]; rewrite E1, E2; auto.
        -- destruct (negb (id =? 0)) eqn:Ea; [cbn [fst]; intros _; rewrite E1, E2; auto|].
           destruct (262140 <? zlen v) eqn:Eb; [cbn [fst]; intros _; rewrite E1, E2; auto|].
           destruct (262140 <? exts_size_with _ _ _ _); [cbn [fst]; intros _; rewrite E1, E2; auto|].
           destruct (upd_inv (fun e => eid e = 0 /\ zlen (epayload e) <= 262140) id v (extensions h) Hnd Hall
                       ltac:(cbn [eid epayload]; lia)) as [U1 U2].
           destruct (set_existing id v (extensions h)); cbn [fst]; intros _; unfold ids;
             cbn [extensions extension_profile with_exts]; rewrite E1, E2; auto.
    + rewrite (Hshape Hx). cbn [app].
      destruct ((1 <=? zlen v) && (zlen v <=? 16) && (1 <=? id) && (id <=? 14)) eqn:Ea.
      * cbn [fst]. intros _. unfold ids. cbn [extensions extension_profile with_exts map eid].
        change (profile_one_byte =? profile_one_byte) with true. cbv iota.
        repeat split; try (unfold profile_one_byte; lia); [repeat constructor; intros []|].
        constructor; [unfold wf_ext1s; cbn [eid epayload]; lia|constructor].
      * destruct ((zlen v <? 256) && (1 <=? id)) eqn:Eb.
        -- cbn [fst]. intros _. unfold ids. cbn [extensions extension_profile with_exts map eid].
           change (profile_two_byte =? profile_one_byte) with false.
           change (ext_form profile_two_byte =? profile_two_byte) with true. cbv iota.
           repeat split; try (unfold profile_two_byte; lia); [repeat constructor; intros []|].
           constructor; [unfold wf_ext2; cbn [eid epayload]; lia|constructor].
        -- destruct (id <? 1); cbn [fst]; intros Hx'; rewrite Hx in Hx'; discriminate.
  - (* Del *)
    unfold del_extension. destruct (extension h) eqn:Hx; cbn [negb]; [|cbn [fst]; intros Hx'; rewrite Hx in Hx'; discriminate].
    specialize (Hinv Hx). destruct Hinv as (Hnd & Hprof & Hall). unfold ids in *.
    destruct (del_first id (extensions h)) as [es'|] eqn:Ed; cbn [fst]; [|intros _; auto].
    destruct (del_first_sub id _ _ Ed) as (D1 & D2 & D3).
    intros _. unfold ids. cbn [extensions extension_profile with_exts].
    split; [apply D2; assumption|]. split; [assumption|].
    destruct (extension_profile h =? profile_one_byte); [apply D1; assumption|].
    destruct (ext_form (extension_profile h) =? profile_two_byte); apply D1; assumption.
Qed.

Lemma step_shape h o : shape_ok h -> shape_ok (fst (model_step h o)).
Proof.
  intros Hshape. destruct o as [id v|id|id|]; cbn [model_step fst]; try exact Hshape.
  - unfold set_extension. destruct (extension h) eqn:Hx.
    + destruct (if extension_profile h =? profile_one_byte then _ else _); [exact Hshape|].
      destruct (262140 <? exts_size_with _ _ _ _); [exact Hshape|].
      destruct (set_existing id v (extensions h)); cbn [fst]; intros H; discriminate.
    + repeat (case_if; try (cbn [fst]; intros H; discriminate)); exact Hshape.
  - unfold del_extension. destruct (negb (extension h)) eqn:Hx; [exact Hshape|].
    destruct (del_first id (extensions h)); cbn [fst]; [intros H; discriminate|exact Hshape].
Qed.

Lemma run_preserves_inv : forall ops h, Forall op_ok ops -> shape_ok h -> exts_inv h ->
  shape_ok (fst (run model_step h ops)) /\ exts_inv (fst (run model_step h ops)).
Proof.
  induction ops as [|o t IH]; intros h Hops Hs Hi; cbn [run fst]; [split; assumption|].
  apply Forall_cons_iff in Hops as [Ho Ht].
  pose proof (step_shape h o Hs) as Hs1. pose proof (step_preserves_inv h o Ho Hs Hi) as Hi1.
  destruct (model_step h o) as [h1 r]. cbn [fst] in Hi1, Hs1.
  specialize (IH h1 Ht Hs1 Hi1). destruct (run model_step h1 t) as [h2 rs]. exact IH.
Qed.

(* pigeonhole: distinct ids in 1..n are at most n *)
Lemma nodup_range_length (l : list Z) n : 0 <= n -> NoDup l -> Forall (fun x => 1 <= x <= n) l -> zlen l <= n.
Proof.
  intros Hn Hnd Hall.
  assert (Hincl : incl l (map Z.of_nat (seq 1 (Z.to_nat n)))).
  { intros x Hx. eapply Forall_forall in Hall; [|exact Hx]. cbv beta in Hall.
    replace x with (Z.of_nat (Z.to_nat x)) by lia. apply in_map. apply in_seq. lia. }
  pose proof (NoDup_incl_length Hnd Hincl) as Hl. rewrite map_length, seq_length in Hl. unfold zlen. lia.
Qed.

Lemma body1_bound es : Forall wf_ext1s es -> zlen (enc_items false (items_of es)) <= 17 * zlen es.
Proof.
  induction 1 as [|e es [Hid Hlen] _ IH]; [cbn; lia|].
  cbn [items_of map]. rewrite enc_items_cons, zlen_app. cbn [enc_item1]. rewrite !zlen_cons. fold (items_of es). lia.
Qed.

Lemma body2_bound es : Forall wf_ext2 es -> zlen (enc_items true (items_of es)) <= 257 * zlen es.
Proof.
  induction 1 as [|e es [Hid Hlen] _ IH]; [cbn; lia|].
  cbn [items_of map]. rewrite enc_items_cons, zlen_app. cbn [enc_item2]. rewrite !zlen_cons. fold (items_of es). lia.
Qed.

Definition fixed_ok (h : header) : Prop :=
  0 <= version h < 4 /\ 0 <= payload_type h < 128 /\ 0 <= sequence_number h < 65536 /\
  0 <= timestamp h < 4294967296 /\ 0 <= ssrc h < 4294967296 /\
  zlen (csrc h) <= 15 /\ Forall (fun c => 0 <= c < 4294967296) (csrc h).

Lemma zlen_map {A B} (f : A -> B) l : zlen (map f l) = zlen l.
Proof. unfold zlen. rewrite map_length. reflexivity. Qed.

(* reachable one-byte and two-byte headers are well-formed in the sense of C01 *)
Lemma inv_wf_rfc8285 h : fixed_ok h -> extension h = true -> exts_inv h ->
  (extension_profile h = profile_one_byte \/ ext_form (extension_profile h) = profile_two_byte) -> wf_header h.
Proof.
  intros Hf Hx Hinv Hp. destruct (Hinv Hx) as (Hnd & Hprof & Hall). unfold ids in Hnd.
  destruct Hf as (F1 & F2 & F3 & F4 & F5 & F6 & F7).
  unfold wf_header. repeat (split; [assumption|]). unfold wf_exts. rewrite Hx.
  destruct Hp as [Hp|Hp]; [rewrite Hp in *|].
  - change (profile_one_byte =? profile_one_byte) with true in Hall. cbv iota in Hall.
    split; [left; split; [reflexivity|eapply Forall_impl; [|exact Hall]; apply wf_ext1s_weak]|].
    unfold ext_block_size. rewrite Hp. change (profile_one_byte =? profile_one_byte) with true. cbv iota.
    rewrite fold_size_one. pose proof (body1_bound _ Hall) as Hb.
    assert (Hlen : zlen (map eid (extensions h)) <= 14).
    { apply nodup_range_length; [lia|assumption|]. apply Forall_map. eapply Forall_impl; [|exact Hall].
      intros e [He _]. exact He. }
    rewrite zlen_map in Hlen. lia.
  - rewrite (two_not_one _ Hprof Hp), Hp, Z.eqb_refl in Hall. cbv iota in Hall.
    split; [right; left; split; [exact Hprof|split; [exact Hp|assumption]]|].
    unfold ext_block_size. rewrite (two_not_one _ Hprof Hp), Hp, Z.eqb_refl. cbv iota.
    rewrite fold_size_two. pose proof (body2_bound _ Hall) as Hb.
    assert (Hlen : zlen (map eid (extensions h)) <= 255).
    { apply nodup_range_length; [lia|assumption|]. apply Forall_map. eapply Forall_impl; [|exact Hall].
      intros e [He _]. exact He. }
    rewrite zlen_map in Hlen. lia.
Qed.

(* a header without a repeated id never comes near the 16-bit word count: at most 14 elements of
   17 bytes, or 255 elements of 257 bytes - so on every header reachable from the four starting
   states (and from a wire that names no id twice) no call is refused for size, and the refinement
   to the ordered map applies to every sequence of calls *)
Lemma exts_size_skip_le k id es : 0 <= k -> exts_size_skip_first k id es <= exts_size k es.
Proof.
  intros Hk. induction es as [|e t IH]; cbn [exts_size_skip_first exts_size]; [lia|].
  pose proof (zlen_nonneg (epayload e)). destruct (eid e =? id); lia.
Qed.

Lemma exts_size_bound k m es : 0 <= k -> 0 <= m -> Forall (fun e => zlen (epayload e) <= m) es ->
  exts_size k es <= (k + m) * zlen es.
Proof.
  intros Hk Hm. induction 1 as [|e t He _ IH]; cbn [exts_size]; [unfold zlen; cbn [length]; lia|rewrite zlen_cons].
  cbv beta in He. pose proof (zlen_nonneg t). nia.
Qed.

Lemma inv_op_fits h o : exts_inv h -> op_fits h o.
Proof.
  intros Hinv. destruct o as [id v|id|id|]; cbn [op_fits]; auto.
  intros Hx Hval. destruct (Hinv Hx) as (Hnd & Hprof & Hall). unfold ids in Hnd.
  unfold valid_for in Hval. unfold exts_size_with, elem_hdr_len.
  destruct (extension_profile h =? profile_one_byte) eqn:E1.
  - cbn [Z.eqb]. destruct ((id <? 1) || (14 <? id)); [discriminate|].
    destruct ((zlen v =? 0) || (16 <? zlen v)) eqn:Ev; [discriminate|].
    pose proof (exts_size_skip_le 1 id (extensions h) ltac:(lia)) as H1.
    pose proof (exts_size_bound 1 16 (extensions h) ltac:(lia) ltac:(lia)) as H2.
    assert (Hlen : zlen (map eid (extensions h)) <= 14).
    { apply nodup_range_length; [lia|assumption|]. apply Forall_map. eapply Forall_impl; [|exact Hall].
      intros e [He _]. exact He. }
    rewrite zlen_map in Hlen. pose proof (zlen_nonneg (extensions h)).
    specialize (H2 ltac:(eapply Forall_impl; [|exact Hall]; intros e [_ He]; cbv beta; lia)). nia.
  - destruct (ext_form (extension_profile h) =? profile_two_byte) eqn:E2.
    + cbn [Z.eqb]. destruct (id <? 1); [discriminate|]. destruct (255 <? zlen v) eqn:Ev; [discriminate|].
      pose proof (exts_size_skip_le 2 id (extensions h) ltac:(lia)) as H1.
      pose proof (exts_size_bound 2 255 (extensions h) ltac:(lia) ltac:(lia)) as H2.
      assert (Hlen : zlen (map eid (extensions h)) <= 255).
      { apply nodup_range_length; [lia|assumption|]. apply Forall_map. eapply Forall_impl; [|exact Hall].
        intros e [He _]. exact He. }
      rewrite zlen_map in Hlen. pose proof (zlen_nonneg (extensions h)).
      specialize (H2 ltac:(eapply Forall_impl; [|exact Hall]; intros e [_ He]; cbv beta; lia)). nia.
    + cbn [Z.eqb]. destruct (negb (id =? 0)); [discriminate|]. destruct (262140 <? zlen v) eqn:Ev; [discriminate|]. lia.
Qed.

Lemma inv_run_fits : forall ops h, Forall op_ok ops -> shape_ok h -> exts_inv h -> run_fits h ops.
Proof.
  induction ops as [|o t IH]; intros h Hops Hs Hi; cbn [run_fits]; [exact I|].
  apply Forall_cons_iff in Hops as [Ho Ht]. split; [apply inv_op_fits; assumption|].
  apply IH; [assumption|apply step_shape; assumption|apply step_preserves_inv; assumption].
Qed.

(* Every value the accessors hold survives Marshal and Unmarshal; Marshal may refuse only a
   legacy-profile value that is not a whole number of 32-bit words. *)
Theorem accepted_survives_wire h id v :
  fixed_ok h -> extension h = true -> exts_inv h ->
  get_extension h id = Some v ->
  (header_marshal h = Err EShortBuffer /\ zlen v mod 4 <> 0 /\
   extension_profile h <> profile_one_byte /\ ext_form (extension_profile h) <> profile_two_byte)
  \/ (exists bs r, header_marshal h = Ok bs /\ header_unmarshal_into empty_header bs = Ok r /\
                   get_extension (hr_header r) id = Some v).
Proof.
  intros Hf Hx Hinv Hget.
  destruct (Z.eq_dec (extension_profile h) profile_one_byte) as [Hp1|Hp1];
    [|destruct (Z.eq_dec (ext_form (extension_profile h)) profile_two_byte) as [Hp2|Hp2]].
  - right. pose proof (inv_wf_rfc8285 h Hf Hx Hinv (or_introl Hp1)) as Hwf.
    destruct (header_roundtrip h Hwf) as (bs & Hm & _ & offs & Hu).
    exists bs, (mkHdrResult h (header_marshal_size h) offs []). repeat split; assumption.
  - right. pose proof (inv_wf_rfc8285 h Hf Hx Hinv (or_intror Hp2)) as Hwf.
    destruct (header_roundtrip h Hwf) as (bs & Hm & _ & offs & Hu).
    exists bs, (mkHdrResult h (header_marshal_size h) offs []). repeat split; assumption.
  - (* legacy: all ids are 0 and distinct, so there is exactly one element, the value asked for *)
    destruct (Hinv Hx) as (Hnd & Hprof & Hall). unfold ids in Hnd.
    destruct (extension_profile h =? profile_one_byte) eqn:E1; [lia|].
    destruct (ext_form (extension_profile h) =? profile_two_byte) eqn:E2; [lia|].
    unfold get_extension in Hget. rewrite Hx in Hget. cbn [negb] in Hget.
    destruct (extensions h) as [|e t] eqn:Hes; [discriminate|].
    assert (Ht : t = []).
    { destruct t as [|e2 t2]; [reflexivity|]. exfalso.
      apply Forall_cons_iff in Hall as [He Hall2]. apply Forall_cons_iff in Hall2 as [He2 _].
      cbn [map] in Hnd. apply NoDup_cons_iff in Hnd as [Hnin _]. apply Hnin. left. lia. }
    subst t. apply Forall_cons_iff in Hall as [[He Hesz] _].
    cbn [find] in Hget. destruct (eid e =? id) eqn:Eid; [|discriminate]. injection Hget as Hv.
    destruct (Z.eq_dec (zlen v mod 4) 0) as [Hm4|Hm4].
    + right.
      assert (Hwf : wf_header h).
      { destruct Hf as (F1 & F2 & F3 & F4 & F5 & F6 & F7). unfold wf_header. repeat (split; [assumption|]).
        unfold wf_exts. rewrite Hx. split.
        - right. right. repeat split; try assumption; try lia.
          exists v. rewrite Hes. split; [destruct e as [i0 p0]; simpl in He, Hv; subst; reflexivity|assumption].
        - unfold ext_block_size. rewrite E1, E2, Hes, Hv. pose proof (zlen_nonneg v). rewrite Hv in Hesz. lia. }
      destruct (header_roundtrip h Hwf) as (bs & Hm & _ & offs & Hu).
      exists bs, (mkHdrResult h (header_marshal_size h) offs []). repeat split; try assumption.
      cbn [hr_header]. unfold get_extension. rewrite Hx, Hes. cbn [negb find]. rewrite Eid, Hv. reflexivity.
    + left. repeat split; try assumption.
      unfold header_marshal, header_marshal_to. rewrite zlen_repeat.
      assert (0 <= header_marshal_size h).
      { unfold header_marshal_size. rewrite Hx. unfold ext_block_size. rewrite E1, E2, Hes.
        pose proof (zlen_nonneg (csrc h)). pose proof (zlen_nonneg (epayload e)). lia. }
      case_if; [lia|]. unfold header_bytes. cbv zeta. rewrite Hx. unfold ext_body. rewrite E1, E2, Hes, Hv.
      destruct (zlen v mod 4 =? 0) eqn:E4; [lia|]. reflexivity.
Qed.

(* "deleted ids absent", for every header - also one that came off the wire with an id named twice *)
Lemma del_first_absent id : forall es es', del_first id es = Some es' -> Forall (fun e => eid e <> id) es'.
Proof.
  induction es as [|e t IH]; intros es' H; cbn [del_first] in H; [discriminate|].
  destruct (eid e =? id) eqn:E.
  - injection H as <-. apply Forall_forall. intros a Ha. apply filter_In in Ha as [_ Ha].
    destruct (eid a =? id) eqn:E2; [cbn in Ha; discriminate|]. apply Z.eqb_neq. exact E2.
  - destruct (del_first id t) as [t'|]; [|discriminate]. injection H as <-.
    constructor; [apply Z.eqb_neq; exact E|apply IH; reflexivity].
Qed.

Theorem deleted_absent h id h' : del_extension h id = (h', None) ->
  get_extension h' id = None /\ (forall l, get_extension_ids h' = Some l -> ~ In id l).
Proof.
  unfold del_extension. destruct (extension h) eqn:Hx; cbn [negb]; [|intros H; discriminate].
  destruct (del_first id (extensions h)) as [es'|] eqn:Ed; [|intros H; discriminate].
  intros H. injection H as <-. pose proof (del_first_absent id _ _ Ed) as Hab.
  unfold get_extension, get_extension_ids. cbn [extension extensions with_exts negb]. split.
  - destruct (find (fun e => eid e =? id) es') as [e|] eqn:Ef; [|reflexivity].
    apply find_some in Ef as [Hin He]. pose proof (proj1 (Forall_forall _ _) Hab e Hin) as Hne.
    apply Z.eqb_eq in He. contradiction.
  - intros l Hl. destruct es' as [|e0 t0]; [discriminate|]. injection Hl as <-.
    intros Hin. change (eid e0 :: map eid t0) with (map eid (e0 :: t0)) in Hin. apply in_map_iff in Hin as (e & He & Hin). pose proof (proj1 (Forall_forall _ _) Hab e Hin) as Hne.
    contradiction.
Qed.
