(* C13, end to end for one large OBU: sent alone, an OBU that does not fit one packet becomes a
   chain of single-fragment packets (W = 1; Y on all but the last, Z on all but the first), and the
   depacketizer returns the caller's bytes when the last one arrives. *)
From Coq Require Import ZArith List Lia Bool.
From Coq Require Import ZifyBool.
From RTP Require Import Base.Bits Base.Res Base.ListX Base.Tactics Model.Leb128 Model.Obu Model.Av1Pay Model.Av1Depack
  Proofs.Leb128Proofs Proofs.C13_Obu Proofs.C08_Av1 Proofs.C13_Depack Proofs.C13_Small Proofs.C15_Av1 Proofs.C13_Frag.
Import ListNotations.
Open Scope Z_scope.

Fixpoint pieces (fuel : nat) (k : Z) (l : list Z) : list (list Z) :=
  match fuel with
  | O => []
  | S f => if zlen l <=? 0 then []
           else let n := if k <=? zlen l then k else zlen l in take n l :: pieces f k (drop n l)
  end.

Definition conts (ps : list (list Z)) : list (list Z) :=
  match ps with [] => [] | _ => map (cons 208) (removelast ps) ++ [144 :: last ps []] end.

Lemma conts_cons a ps : ps <> [] -> conts (a :: ps) = (208 :: a) :: conts ps.
Proof. intros H. destruct ps as [|b t]; [congruence|]. reflexivity. Qed.

Lemma pieces_spec : forall fuel k l, 1 <= k -> (length l < fuel)%nat ->
  concat (pieces fuel k l) = l /\ Forall (fun c => c <> []) (pieces fuel k l) /\ (l <> [] -> pieces fuel k l <> []).
Proof.
  induction fuel as [|fuel IH]; intros k l Hk Hf; [lia|]. cbn [pieces]. pose proof (zlen_nonneg l) as Hz.
  destruct (zlen l <=? 0) eqn:E.
  - assert (l = []) by (apply zlen_zero; lia). subst l. repeat split; [constructor|congruence].
  - set (n := if k <=? zlen l then k else zlen l). assert (Hn : 1 <= n <= zlen l) by (unfold n; destruct (k <=? zlen l) eqn:?; lia).
    assert (Hd : (length (drop n l) < fuel)%nat) by (pose proof (drop_zlen n l ltac:(lia)) as Hdz; unfold zlen in *; lia).
    destruct (IH k (drop n l) Hk Hd) as (H1 & H2 & _). cbn [concat]. rewrite H1, take_drop.
    split; [reflexivity|]. split; [|discriminate]. constructor; [|exact H2].
    intros Hnil. pose proof (take_zlen n l ltac:(lia)) as Htz. rewrite Hnil in Htz. change (zlen (@nil Z)) with 0 in Htz. lia.
Qed.

Lemma frag_loop_chain mtu : 2 <= mtu -> forall fuel p t obu pw c, pw <> 0 -> p <> [] -> (length obu < fuel)%nat ->
  obu <> [] ->
  frag_loop fuel (p :: t) obu pw true mtu c
  = Ok (rev (conts (pieces fuel (mtu - 1) obu)) ++ set_hdr (fun h => Z.lor h 64) p :: t, 1).
Proof.
  intros Hm. induction fuel as [|fuel IH]; intros p t obu pw c Hpw Hp Hf Hobu; [lia|].
  cbn [frag_loop pieces]. pose proof (zlen_nonneg obu) as Hz.
  assert (Hzl : 1 <= zlen obu) by (destruct obu; [congruence|rewrite zlen_cons; pose proof (zlen_nonneg obu); lia]).
  replace (zlen obu <=? 0) with false by lia. replace (pw =? 0) with false by lia. cbn [orb].
  set (n := if mtu - 1 <=? zlen obu then mtu - 1 else zlen obu).
  assert (Hn : 1 <= n <= zlen obu) by (unfold n; destruct (mtu - 1 <=? zlen obu) eqn:?; lia).
  rewrite checked_take_ok by lia. cbn [set_hdr app]. change (Z.lor 128 16) with 144.
  destruct (drop n obu) as [|y b'] eqn:Ed.
  - (* this was the last piece *)
    destruct fuel as [|fuel']; [pose proof (drop_zlen n obu ltac:(lia)); unfold zlen in *; cbn [length] in *; lia|].
    cbn [frag_loop pieces]. change (zlen (@nil Z) <=? 0) with true. cbv iota. cbn [conts removelast last map app rev]. reflexivity.
  - rewrite <- Ed in *.
    assert (Hd : (length (drop n obu) < fuel)%nat) by (pose proof (drop_zlen n obu ltac:(lia)) as Hdz; unfold zlen in *; lia).
    rewrite (IH (144 :: take n obu) _ (drop n obu) n 1 ltac:(lia) ltac:(discriminate) Hd ltac:(rewrite Ed; discriminate)).
    cbn [set_hdr]. change (Z.lor 144 64) with 208.
    destruct (pieces_spec fuel (mtu - 1) (drop n obu) ltac:(lia) Hd) as (_ & _ & Hne).
    rewrite conts_cons by (apply Hne; rewrite Ed; discriminate). cbn [rev]. rewrite <- app_assoc. reflexivity.
Qed.

Lemma removelast_last_props (ps : list (list Z)) : ps <> [] -> Forall (fun c => c <> []) ps ->
  Forall (fun c => c <> []) (removelast ps) /\ last ps [] <> [] /\ concat (removelast ps) ++ last ps [] = concat ps.
Proof.
  intros Hne Hall. pose proof (app_removelast_last [] Hne) as Hsplit.
  rewrite Hsplit in Hall at 1. apply Forall_app in Hall as [H1 H2]. apply Forall_cons_iff in H2 as [H2 _].
  split; [exact H1|]. split; [exact H2|]. rewrite Hsplit at 3. rewrite concat_app. cbn [concat]. rewrite app_nil_r. reflexivity.
Qed.

Lemma big_obu_packets mtu o : 2 <= mtu < 2097152 -> small_obu o -> mtu - 1 < zlen (elem o) ->
  av1_payload mtu (in_bytes o)
  = Ok ((80 :: take (mtu - 1) (elem o)) ::
        conts (pieces (S (length (elem o))) (mtu - 1) (drop (mtu - 1) (elem o)))).
Proof.
  intros Hm Hs Hbig. pose proof (zlen_nonneg (elem o)) as Hez.
  assert (Hb : zlen (drop (mtu - 1) (elem o)) = zlen (elem o) - (mtu - 1)) by (apply drop_zlen; lia).
  assert (Hbn : drop (mtu - 1) (elem o) <> []) by (intros Hn; rewrite Hn in Hb; change (zlen (@nil Z)) with 0 in Hb; lia).
  assert (Hbl : (length (drop (mtu - 1) (elem o)) < S (length (elem o)))%nat) by (unfold zlen in Hb; lia).
  unfold av1_payload. pose proof (in_bytes_len o Hs) as Lo.
  replace ((mtu <=? 1) || (zlen (in_bytes o) =? 0)) with false by (unfold zlen; lia).
  change {| pays := []; pending := []; cur := None; cnt := 0; new_seq := false; start_new := false |} with (mkst [] []).
  destruct (length (in_bytes o)) as [|[|k]] eqn:El; try lia.
  rewrite <- (app_nil_r (in_bytes o)).
  rewrite (pay_loop_step _ mtu o [] [] None Hm Hs eq_refl). rewrite pay_loop_end.
  cbn [mkst pending]. remember (elem o) as eo eqn:Eeo. destruct eo as [|x l']; [change (zlen (@nil Z)) with 0 in Hbig; lia|].
  rewrite Eeo in *. clear Eeo x l'. unfold mkst. cbn [pays new_seq start_new cnt pays_of].
  change (zlen (@nil sobu)) with 0. unfold append_obu.
  replace (mtu - 1 <=? zlen (elem o)) with true by lia. cbn [orb andb]. change (0 <? 3) with true. cbn [andb].
  rewrite checked_take_ok by lia. cbn [set_hdr app].
  change (Z.lor 0 (Z.land (u8 (Z.shiftl (0 + 1) 4)) 48)) with 16.
  rewrite (frag_loop_chain mtu ltac:(lia) _ (16 :: take (mtu - 1) (elem o)) [] (drop (mtu - 1) (elem o)) (mtu - 1) 0
             ltac:(lia) ltac:(discriminate) Hbl Hbn).
  cbn [set_hdr]. change (Z.lor 16 64) with 80. rewrite rev_app_distr, rev_involutive. cbn [rev app]. reflexivity.
Qed.

(* one OBU that does not fit: the packet chain, and what the depacketizer makes of it *)
Theorem big_obu_lossless mtu o st : 2 <= mtu < 2097152 -> small_obu o -> mtu - 1 < zlen (elem o) ->
  exists f1 mid fl,
    av1_payload mtu (in_bytes o) = Ok ((80 :: f1) :: map (cons 208) mid ++ [144 :: fl]) /\
    f1 ++ concat mid ++ fl = elem o /\ Forall (fun p => zlen p <= mtu) ((80 :: f1) :: map (cons 208) mid ++ [144 :: fl]) /\
    snd (av1_run st ((80 :: f1) :: map (cons 208) mid ++ [144 :: fl]))
    = Ok [] :: map (fun _ => Ok []) mid ++ [Ok (in_bytes o)].
Proof.
  intros Hm Hs Hbig. pose proof Hs as (Hwf & _).
  set (a := take (mtu - 1) (elem o)). set (b := drop (mtu - 1) (elem o)).
  pose proof (zlen_nonneg (elem o)) as Hez.
  assert (Ha : zlen a = mtu - 1) by (apply take_zlen; lia).
  assert (Hb : zlen b = zlen (elem o) - (mtu - 1)) by (apply drop_zlen; lia).
  assert (Hbn : b <> []) by (intros Hn; rewrite Hn in Hb; change (zlen (@nil Z)) with 0 in Hb; lia).
  assert (Han : a <> []) by (intros Hn; rewrite Hn in Ha; change (zlen (@nil Z)) with 0 in Ha; lia).
  set (ps := pieces (S (length (elem o))) (mtu - 1) b).
  assert (Hbl : (length b < S (length (elem o)))%nat) by (unfold zlen in Hb; lia).
  destruct (pieces_spec (S (length (elem o))) (mtu - 1) b ltac:(lia) Hbl) as (Hcat & Hall & Hne). fold ps in Hcat, Hall, Hne.
  specialize (Hne Hbn). destruct (removelast_last_props ps Hne Hall) as (Hmid & Hlast & Hcc).
  exists a, (removelast ps), (last ps []).
  assert (Hpay : av1_payload mtu (in_bytes o) = Ok ((80 :: a) :: map (cons 208) (removelast ps) ++ [144 :: last ps []])).
  { rewrite (big_obu_packets mtu o Hm Hs Hbig). fold a. fold b. fold ps. unfold conts. destruct ps; [congruence|]. reflexivity. }
  split; [exact Hpay|].
  assert (Hjoin : a ++ concat (removelast ps) ++ last ps [] = elem o) by (rewrite Hcc, Hcat; apply take_drop).
  split; [exact Hjoin|]. split.
  - destruct (av1_payload_ok mtu (in_bytes o) ltac:(lia)) as (out & Hout & Hok). rewrite Hpay in Hout. injection Hout as <-.
    eapply Forall_impl; [|exact Hok]. cbv beta. intros; lia.
  - change (in_bytes o) with (delivered o). apply depack_fragmented; auto.
Qed.
