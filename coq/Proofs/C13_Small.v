(* C13, end to end for small temporal units: one to three OBUs (no extension header, not a
   sequence header, temporal delimiter or tile list) that fit one packet together are sent as one
   packet with W = their number, and the depacketizer returns them with their size fields. *)
From Coq Require Import ZArith List Lia Bool.
From Coq Require Import ZifyBool.
From RTP Require Import Base.Bits Base.Res Base.ListX Base.Tactics Model.Leb128 Model.Obu Model.Av1Pay Model.Av1Depack
  Proofs.Leb128Proofs Proofs.C13_Obu Proofs.C08_Av1 Proofs.C13_Depack.
Import ListNotations.
Open Scope Z_scope.

(* the OBU as it appears in the caller's buffer: header with size flag, LEB128 size, payload *)
Definition in_bytes (o : sobu) : list Z := delivered o.

Definition small_obu (o : sobu) : Prop :=
  wf_sobu o /\ oext (so_hdr o) = None /\ otype (so_hdr o) <> 1.

Definition prefix_bytes (es : list sobu) : list Z :=
  flat_map (fun e => write_leb128 (zlen (elem e)) ++ elem e) es.

Lemma compute_write_size_fits want can : 0 <= want < 2097152 -> want + zlen (write_leb128 want) <= can ->
  compute_write_size want can = want.
Proof.
  intros Hw Hfit. rewrite zlen_write_leb128 in Hfit by lia. unfold compute_write_size, leb128_size.
  replace (268435456 <=? want) with false by lia. replace (2097152 <=? want) with false by lia.
  destruct (16384 <=? want) eqn:E3.
  - replace (want <? 128) with false in Hfit by lia. replace (want <? 16384) with false in Hfit by lia.
    replace (want + 3 <=? can) with true by lia. reflexivity.
  - destruct (128 <=? want) eqn:E2.
    + replace (want <? 128) with false in Hfit by lia. replace (want <? 16384) with true in Hfit by lia.
      replace (want + 2 <=? can) with true by lia. reflexivity.
    + replace (want <? 128) with true in Hfit by lia. replace (want + 1 <=? can) with true by lia. reflexivity.
Qed.

Lemma frag_loop_nil fuel pays prev is_last mtu count :
  frag_loop (S fuel) pays [] prev is_last mtu count = Ok (pays, count).
Proof. reflexivity. Qed.

(* appending a length-prefixed element to the packet under construction *)
Lemma append_prefixed done e mtu : 2 <= mtu < 2097152 -> (length done <= 2)%nat ->
  1 <= zlen (elem e) -> 1 + zlen (prefix_bytes done) + zlen (write_leb128 (zlen (elem e))) + zlen (elem e) < mtu ->
  append_obu (match done with [] => [] | _ => [0 :: prefix_bytes done] end) (elem e) false false false mtu (zlen done)
  = Ok ([0 :: prefix_bytes (done ++ [e])], zlen (done ++ [e])).
Proof.
  intros Hm Hd He Hfit. unfold append_obu.
  pose proof (zlen_nonneg (prefix_bytes done)) as Hp. pose proof (zlen_nonneg (write_leb128 (zlen (elem e)))) as Hl.
  assert (Hpre : prefix_bytes (done ++ [e]) = prefix_bytes done ++ write_leb128 (zlen (elem e)) ++ elem e).
  { unfold prefix_bytes. rewrite flat_map_app. cbn [flat_map]. rewrite app_nil_r. reflexivity. }
  destruct done as [|d0 dt].
  - (* first element: a new packet is opened *)
    cbn [zlen length Z.of_nat]. change (prefix_bytes []) with (@nil Z) in *. change (zlen (@nil Z)) with 0 in Hfit.
    assert (Hff : (mtu - 1 <=? zlen (elem e)) = false) by lia. rewrite !Hff. cbn [orb andb]. rewrite ?Hff. cbn [orb andb].
    replace (2 <=? mtu - 1) with true by lia.
    rewrite compute_write_size_fits by lia. rewrite checked_take_ok by lia.
    rewrite take_all, drop_all by lia. rewrite frag_loop_nil. rewrite Hpre. cbn [app]. reflexivity.
  - set (done := d0 :: dt) in *.
    assert (Hz : zlen (0 :: prefix_bytes done) = 1 + zlen (prefix_bytes done)) by apply zlen_cons.
    cbn [orb]. rewrite Hz.
    replace (mtu - (1 + zlen (prefix_bytes done)) <=? 0) with false by lia. cbn [orb].
    assert (Hff : (mtu - (1 + zlen (prefix_bytes done)) <=? zlen (elem e)) = false) by lia. rewrite !Hff. cbn [orb andb]. rewrite ?Hff. cbn [orb andb].
    replace (2 <=? mtu - (1 + zlen (prefix_bytes done))) with true by lia.
    rewrite compute_write_size_fits by lia. rewrite checked_take_ok by lia.
    rewrite take_all, drop_all by lia. rewrite frag_loop_nil. rewrite Hpre.
    rewrite zlen_app. change (zlen [e]) with 1. cbn [app]. reflexivity.
Qed.

Definition pays_of (done : list sobu) : list (list Z) := match done with [] => [] | _ => [0 :: prefix_bytes done] end.

(* the last element of the temporal unit: W is set, no length field *)
Lemma append_last done e mtu : 2 <= mtu < 2097152 -> (length done <= 2)%nat ->
  1 <= zlen (elem e) -> 1 + zlen (prefix_bytes done) + zlen (elem e) <= mtu ->
  append_obu (pays_of done) (elem e) false true false mtu (zlen done)
  = Ok ([((zlen done + 1) * 16) :: prefix_bytes done ++ elem e], 0).
Proof.
  intros Hm Hd He Hfit. unfold append_obu, pays_of. pose proof (zlen_nonneg (prefix_bytes done)) as Hp.
  destruct done as [|d0 dt].
  - change (prefix_bytes []) with (@nil Z) in *. change (zlen (@nil Z)) with 0 in Hfit. change (zlen (@nil sobu)) with 0.
    cbn [orb andb]. change (0 <? 3) with true. cbn [andb].
    assert (Htw : (if mtu - 1 <=? zlen (elem e) then mtu - 1 else zlen (elem e)) = zlen (elem e))
      by (destruct (mtu - 1 <=? zlen (elem e)) eqn:?; lia).
    rewrite Htw. rewrite checked_take_ok by lia. rewrite take_all, drop_all by lia. rewrite frag_loop_nil.
    reflexivity.
  - set (done := d0 :: dt) in *.
    assert (Hz : zlen (0 :: prefix_bytes done) = 1 + zlen (prefix_bytes done)) by apply zlen_cons.
    cbn [orb]. rewrite Hz.
    assert (Hc : zlen done = 1 \/ zlen done = 2).
    { unfold done, zlen in *. cbn [length] in *. lia. }
    replace (mtu - (1 + zlen (prefix_bytes done)) <=? 0) with false by lia. cbn [orb andb].
    replace (zlen done <? 3) with true by lia. cbn [andb].
    assert (Htw : (if mtu - (1 + zlen (prefix_bytes done)) <=? zlen (elem e) then mtu - (1 + zlen (prefix_bytes done)) else zlen (elem e)) = zlen (elem e))
      by (destruct (mtu - (1 + zlen (prefix_bytes done)) <=? zlen (elem e)) eqn:?; lia).
    rewrite Htw. rewrite checked_take_ok by lia. rewrite take_all, drop_all by lia. rewrite frag_loop_nil.
    cbn [set_hdr app]. f_equal. f_equal. f_equal. f_equal.
    destruct Hc as [-> | ->]; reflexivity.
Qed.

Definition mkst (done : list sobu) (pend : list Z) : pst :=
  {| pays := pays_of done; pending := pend; cur := None; cnt := zlen done; new_seq := false; start_new := false |}.

Lemma elem_of_small o : small_obu o ->
  obu_hdr_marshal {| otype := otype (so_hdr o); oext := oext (so_hdr o); ohas_size := false; ores1 := ores1 (so_hdr o) |}
  = obu_hdr_marshal (so_hdr o).
Proof. intros ((_ & Hs & _) & _). destruct (so_hdr o) as [ty ex hs r1]. cbn in *. subst hs. reflexivity. Qed.

(* one OBU of the input: the previous one (if any) is appended length-prefixed, this one is held *)
Lemma pay_loop_step fuel mtu o rest done prev : 2 <= mtu < 2097152 -> small_obu o ->
  match prev with
  | None => done = []
  | Some p => (length done <= 2)%nat /\ 1 <= zlen (elem p) /\
              1 + zlen (prefix_bytes done) + zlen (write_leb128 (zlen (elem p))) + zlen (elem p) < mtu
  end ->
  pay_loop (S fuel) mtu (in_bytes o ++ rest) (mkst done (match prev with Some p => elem p | None => [] end))
  = pay_loop fuel mtu rest (mkst (match prev with Some p => done ++ [p] | None => done end) (elem o)).
Proof.
  intros Hm Hs Hprev. pose proof Hs as ((Hr & Hsz & Ht2 & Ht8 & Hb) & Hext & Ht1).
  cbn [pay_loop]. unfold in_bytes, delivered.
  set (h' := {| otype := otype (so_hdr o); oext := oext (so_hdr o); ohas_size := true; ores1 := ores1 (so_hdr o) |}).
  assert (Hr' : hdr_in_range h') by (unfold hdr_in_range in *; cbn [otype oext h']; exact Hr).
  destruct (obu_parse_marshal h' (write_leb128 (zlen (so_body o)) ++ so_body o ++ rest) Hr') as [Hp Hz].
  rewrite <- !app_assoc.
  remember (obu_hdr_marshal h' ++ write_leb128 (zlen (so_body o)) ++ so_body o ++ rest) as inp eqn:Ei.
  destruct inp as [|x l'].
  { exfalso. symmetry in Ei. apply app_eq_nil in Ei as [Ei _]. rewrite Ei in Hz. change (zlen (@nil Z)) with 0 in Hz.
    pose proof (obu_hdr_size_pos h'). lia. }
  rewrite Ei in *. clear Ei x l'. rewrite Hp. cbn [ohas_size h'].
  rewrite <- Hz, drop_app_exact.
  pose proof (zlen_nonneg (so_body o)) as Hb0.
  rewrite (leb128_roundtrip (zlen (so_body o)) (so_body o ++ rest) ltac:(lia)). rewrite drop_app_exact.
  cbn [otype oext h']. rewrite Hext.
  replace ((otype (so_hdr o) =? 2) || (otype (so_hdr o) =? 1)) with false by lia.
  rewrite zlen_app. pose proof (zlen_nonneg rest).
  replace (zlen (so_body o) + zlen rest <? zlen (so_body o)) with false by lia.
  replace ((otype (so_hdr o) =? 8) || (otype (so_hdr o) =? 2)) with false by lia.
  rewrite take_app_exact, drop_app_exact.
  replace (otype (so_hdr o) =? 1) with false by lia.
  change (ores1 h') with (ores1 (so_hdr o)).
  pose proof (elem_of_small o Hs) as Hel. rewrite Hext in Hel. rewrite Hel. fold (elem o).
  (* the flush of what was pending *)
  destruct prev as [p|].
  - destruct Hprev as (Hd & Hp1 & Hfit). unfold flush_pending, mkst. cbn [pending pays new_seq start_new cnt cur].
    remember (elem p) as ep eqn:Ep. destruct ep as [|y ly]; [change (zlen (@nil Z)) with 0 in Hp1; lia|]. rewrite Ep in *. clear Ep y ly.
    change (pays_of done) with (match done with [] => [] | _ => [0 :: prefix_bytes done] end).
    rewrite (append_prefixed done p mtu Hm Hd Hp1 Hfit).
    unfold with_cur. cbn [pays pending cur cnt new_seq start_new].
    assert (Hpo : pays_of (done ++ [p]) = [0 :: prefix_bytes (done ++ [p])]) by (unfold pays_of; destruct done; reflexivity).
    rewrite Hpo. reflexivity.
  - subst done. unfold flush_pending, mkst. cbn [pending]. unfold with_cur. cbn [pays pending cur cnt new_seq start_new].
    reflexivity.
Qed.

Lemma in_bytes_len o : small_obu o -> (2 <= length (in_bytes o))%nat.
Proof.
  intros ((Hr & _) & _). unfold in_bytes, delivered. rewrite !app_length.
  set (h' := {| otype := otype (so_hdr o); oext := oext (so_hdr o); ohas_size := true; ores1 := ores1 (so_hdr o) |}).
  assert (Hr' : hdr_in_range h') by (unfold hdr_in_range in *; cbn [otype oext h']; exact Hr).
  destruct (obu_parse_marshal h' [] Hr') as [_ Hz]. pose proof (obu_hdr_size_pos h').
  assert (1 <= length (obu_hdr_marshal h'))%nat by (unfold zlen in Hz; lia).
  assert (1 <= length (write_leb128 (zlen (so_body o))))%nat.
  { unfold write_leb128. cbn [write_leb128_aux]. destruct (Z.shiftr (u64 (zlen (so_body o))) 7 =? 0); cbn [length]; lia. }
  lia.
Qed.

Lemma pay_loop_end fuel mtu st : pay_loop (S fuel) mtu [] st = Ok st.
Proof. reflexivity. Qed.

Lemma elem_pos o : small_obu o -> 1 <= zlen (elem o).
Proof. intros [Hw _]. pose proof (elem_len o Hw). lia. Qed.

(* one to three small OBUs that fit one packet: exactly one packet, W = their number *)
Theorem small_unit_one_packet mtu es : 2 <= mtu < 2097152 -> (1 <= length es <= 3)%nat -> Forall small_obu es ->
  1 + zlen (elems_bytes es) <= mtu ->
  av1_payload mtu (concat (map in_bytes es)) = Ok [enc_packet false es].
Proof.
  intros Hm Hl Hall Hfit. unfold av1_payload.
  assert (Hlen : (2 <= length (concat (map in_bytes es)))%nat).
  { destruct es as [|a t]; [cbn in Hl; lia|]. apply Forall_cons_iff in Hall as [Ha _].
    cbn [map concat]. rewrite app_length. pose proof (in_bytes_len a Ha). lia. }
  replace ((mtu <=? 1) || (zlen (concat (map in_bytes es)) =? 0)) with false by (unfold zlen; lia).
  change {| pays := []; pending := []; cur := None; cnt := 0; new_seq := false; start_new := false |} with (mkst [] []).
  destruct es as [|a [|b [|c [|? ?]]]]; cbn [length] in Hl; try lia.
  - (* one OBU *)
    apply Forall_cons_iff in Hall as [Ha _]. pose proof (elem_pos a Ha) as Ea. cbn [elems_bytes] in Hfit.
    cbn [map concat]. rewrite app_nil_r.
    pose proof (in_bytes_len a Ha) as La.
    destruct (length (in_bytes a)) as [|[|k]] eqn:El; try lia.
    rewrite <- (app_nil_r (in_bytes a)).
    rewrite (pay_loop_step _ mtu a [] [] None Hm Ha eq_refl). rewrite pay_loop_end.
    cbn [mkst pending]. remember (elem a) as ea eqn:Eea. destruct ea as [|x l']; [change (zlen (@nil Z)) with 0 in Ea; lia|].
    rewrite Eea in *. clear Eea x l'. unfold mkst. cbn [pays new_seq start_new cnt].
    rewrite (append_last [] a mtu Hm ltac:(cbn; lia) Ea ltac:(change (prefix_bytes []) with (@nil Z); change (zlen (@nil Z)) with 0; lia)).
    reflexivity.
  - (* two OBUs *)
    apply Forall_cons_iff in Hall as [Ha Hall]. apply Forall_cons_iff in Hall as [Hb _].
    pose proof (elem_pos a Ha) as Ea. pose proof (elem_pos b Hb) as Eb.
    change (elems_bytes [a; b]) with (write_leb128 (zlen (elem a)) ++ elem a ++ elem b) in Hfit.
    rewrite !zlen_app in Hfit. pose proof (zlen_nonneg (write_leb128 (zlen (elem a)))).
    cbn [map concat]. rewrite app_nil_r.
    pose proof (in_bytes_len a Ha) as La. pose proof (in_bytes_len b Hb) as Lb. rewrite app_length.
    destruct (length (in_bytes a) + length (in_bytes b))%nat as [|[|[|k]]] eqn:El; try lia.
    rewrite (pay_loop_step _ mtu a _ [] None Hm Ha eq_refl).
    rewrite <- (app_nil_r (in_bytes b)).
    rewrite (pay_loop_step _ mtu b [] [] (Some a) Hm Hb).
    2:{ split; [cbn; lia|]. split; [exact Ea|]. change (prefix_bytes []) with (@nil Z). change (zlen (@nil Z)) with 0. lia. }
    rewrite pay_loop_end. cbn [app].
    cbn [mkst pending]. remember (elem b) as eb eqn:Eeb. destruct eb as [|x l']; [change (zlen (@nil Z)) with 0 in Eb; lia|].
    rewrite Eeb in *. clear Eeb x l'. unfold mkst. cbn [pays new_seq start_new cnt].
    assert (Hpre : prefix_bytes [a] = write_leb128 (zlen (elem a)) ++ elem a) by (unfold prefix_bytes; cbn [flat_map]; apply app_nil_r).
    rewrite (append_last [a] b mtu Hm ltac:(cbn; lia) Eb ltac:(rewrite Hpre, zlen_app; lia)).
    rewrite Hpre. cbn [rev app]. unfold enc_packet. rewrite <- app_assoc. reflexivity.
  - (* three OBUs *)
    apply Forall_cons_iff in Hall as [Ha Hall]. apply Forall_cons_iff in Hall as [Hb Hall].
    apply Forall_cons_iff in Hall as [Hc _].
    pose proof (elem_pos a Ha) as Ea. pose proof (elem_pos b Hb) as Eb. pose proof (elem_pos c Hc) as Ec.
    change (elems_bytes [a; b; c]) with (write_leb128 (zlen (elem a)) ++ elem a ++ write_leb128 (zlen (elem b)) ++ elem b ++ elem c) in Hfit.
    rewrite !zlen_app in Hfit.
    pose proof (zlen_nonneg (write_leb128 (zlen (elem a)))). pose proof (zlen_nonneg (write_leb128 (zlen (elem b)))).
    cbn [map concat]. rewrite app_nil_r.
    pose proof (in_bytes_len a Ha) as La. pose proof (in_bytes_len b Hb) as Lb. pose proof (in_bytes_len c Hc) as Lc.
    rewrite !app_length.
    destruct (length (in_bytes a) + (length (in_bytes b) + length (in_bytes c)))%nat as [|[|[|[|k]]]] eqn:El; try lia.
    rewrite (pay_loop_step _ mtu a _ [] None Hm Ha eq_refl).
    rewrite (pay_loop_step _ mtu b _ [] (Some a) Hm Hb).
    2:{ split; [cbn; lia|]. split; [exact Ea|]. change (prefix_bytes []) with (@nil Z). change (zlen (@nil Z)) with 0. lia. }
    cbn [app].
    assert (Hpa : prefix_bytes [a] = write_leb128 (zlen (elem a)) ++ elem a) by (unfold prefix_bytes; cbn [flat_map]; apply app_nil_r).
    rewrite <- (app_nil_r (in_bytes c)).
    rewrite (pay_loop_step _ mtu c [] [a] (Some b) Hm Hc).
    2:{ split; [cbn; lia|]. split; [exact Eb|]. rewrite Hpa, zlen_app. lia. }
    rewrite pay_loop_end. cbn [app].
    cbn [mkst pending]. remember (elem c) as ec eqn:Eec. destruct ec as [|x l']; [change (zlen (@nil Z)) with 0 in Ec; lia|].
    rewrite Eec in *. clear Eec x l'. unfold mkst. cbn [pays new_seq start_new cnt].
    assert (Hpab : prefix_bytes [a; b] = write_leb128 (zlen (elem a)) ++ elem a ++ write_leb128 (zlen (elem b)) ++ elem b).
    { unfold prefix_bytes. cbn [flat_map]. rewrite app_nil_r, <- !app_assoc. reflexivity. }
    rewrite (append_last [a; b] c mtu Hm ltac:(cbn; lia) Ec ltac:(rewrite Hpab, !zlen_app; lia)).
    rewrite Hpab. cbn [rev app]. unfold enc_packet. rewrite <- !app_assoc. reflexivity.
Qed.

(* end to end: the depacketizer returns the caller's bytes *)
Theorem small_unit_lossless mtu es st : 2 <= mtu < 2097152 -> (1 <= length es <= 3)%nat -> Forall small_obu es ->
  1 + zlen (elems_bytes es) <= mtu ->
  exists pkt, av1_payload mtu (concat (map in_bytes es)) = Ok [pkt] /\
    snd (av1d_unmarshal st (Some pkt)) = Ok (concat (map in_bytes es)).
Proof.
  intros Hm Hl Hall Hfit. exists (enc_packet false es).
  split; [apply small_unit_one_packet; assumption|].
  rewrite (depack_unfragmented st false es Hl). { reflexivity. }
  eapply Forall_impl; [|exact Hall]. intros a [H _]. exact H.
Qed.
