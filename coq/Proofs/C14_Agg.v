(* C14: single NAL unit packets and aggregation packets (AddDONL off) parse back to the units. *)
From Coq Require Import ZArith List Lia Bool.
From Coq Require Import ZifyBool.
From RTP Require Import Base.Bits Base.Res Base.ListX Base.Own Base.Bytes Base.Tactics
  Model.AnnexB Model.H265 Proofs.C13_Obu Proofs.C14_Fu Proofs.C08_Mtu Proofs.C08_More Proofs.C08_H265.
Import ListNotations.
Open Scope Z_scope.
Ltac bits := autorewrite with bits.

(* a NAL unit as the property quantifies over them: F = 0, type 0..47, at least one payload byte *)
Definition valid_nal5 (n : list Z) : Prop :=
  match n with
  | h0 :: h1 :: _ :: _ => 0 <= h0 < 128 /\ 0 <= h1 < 256 /\ Z.land (Z.shiftr h0 1) 63 < 48
  | _ => False
  end.

Lemma hdr_small h0 h1 : 0 <= h0 < 128 -> 0 <= h1 < 256 ->
  nh_f (Z.lor (Z.shiftl h0 8) h1) = false.
Proof.
  intros H0 H1. unfold nh_f. rewrite shiftl_8, (lor_add_small (h0 * 256) h1 8) by lia.
  rewrite Z.shiftr_div_pow2 by lia. change (2 ^ 15) with 32768.
  replace ((h0 * 256 + h1) / 32768) with 0 by lia. reflexivity.
Qed.

Theorem single_parses n : valid_nal5 n ->
  match n with
  | h0 :: h1 :: body => h265_unmarshal false (Some n) = Ok (PSingle (Z.lor (Z.shiftl h0 8) h1) None body)
  | _ => False
  end.
Proof.
  destruct n as [|h0 [|h1 [|x body]]]; try contradiction. intros (H0 & H1 & Hty).
  unfold h265_unmarshal. rewrite !zlen_cons. pose proof (zlen_nonneg body).
  replace (1 + (1 + (1 + zlen body)) <=? 2) with false by lia.
  rewrite (hdr_small h0 h1 H0 H1). rewrite (nh_type_of_bytes h0 h1) by lia.
  pose proof (Z.land_nonneg (Z.shiftr h0 1) 63) as Hnn.
  replace (Z.land (Z.shiftr h0 1) 63 =? 50) with false by lia.
  replace (Z.land (Z.shiftr h0 1) 63 =? 49) with false by lia.
  replace (Z.land (Z.shiftr h0 1) 63 =? 48) with false by lia. reflexivity.
Qed.

(* ---- aggregation packets ---- *)

Definition unit_bytes (n : list Z) : list Z := put16 (u16 (zlen n)) ++ n.

Lemma agg_others_roundtrip : forall ns fuel acc, (length ns < fuel)%nat ->
  Forall (fun n => 1 <= zlen n < 65536) ns ->
  agg_others fuel false (concat (map unit_bytes ns)) acc = rev acc ++ map (fun n => (None, n)) ns.
Proof.
  induction ns as [|n t IH]; intros fuel acc Hf Hall; (destruct fuel as [|fuel]; [cbn [length] in Hf; lia|]).
  - cbn [map concat agg_others]. rewrite app_nil_r. reflexivity.
  - apply Forall_cons_iff in Hall as [Hn Hall]. cbn [map concat]. unfold unit_bytes at 1.
    pose proof (put16_be16 (u16 (zlen n)) ltac:(unfold u16; lia)) as P.
    destruct (put16 (u16 (zlen n))) as [|a [|b [|? ?]]]; try contradiction. destruct P as (P & _).
    unfold u16 in P. rewrite Z.mod_small in P by lia.
    cbn [app agg_others]. rewrite P. rewrite zlen_app.
    pose proof (zlen_nonneg (concat (map unit_bytes t))).
    replace (zlen n + zlen (concat (map unit_bytes t)) <? zlen n) with false by lia.
    rewrite take_app_exact, drop_app_exact.
    rewrite (IH fuel ((None, n) :: acc) ltac:(cbn [length] in Hf; lia) Hall).
    cbn [rev map]. rewrite <- app_assoc. reflexivity.
Qed.

Lemma agg_clean_units : forall ns fuel, (length ns < fuel)%nat ->
  Forall (fun n => 1 <= zlen n < 65536) ns ->
  agg_clean fuel false (concat (map unit_bytes ns)) = true.
Proof.
  induction ns as [|n t IH]; intros fuel Hf Hall; (destruct fuel as [|fuel]; [cbn [length] in Hf; lia|]).
  - reflexivity.
  - apply Forall_cons_iff in Hall as [Hn Hall]. cbn [map concat]. unfold unit_bytes at 1.
    pose proof (put16_be16 (u16 (zlen n)) ltac:(unfold u16; lia)) as P.
    destruct (put16 (u16 (zlen n))) as [|a [|b [|? ?]]]; try contradiction. destruct P as (P & _).
    unfold u16 in P. rewrite Z.mod_small in P by lia.
    cbn [app agg_clean]. rewrite P. rewrite zlen_app.
    pose proof (zlen_nonneg (concat (map unit_bytes t))).
    replace (zlen n + zlen (concat (map unit_bytes t)) <? zlen n) with false by lia.
    rewrite drop_app_exact. apply IH; [cbn [length] in Hf; lia|exact Hall].
Qed.

Lemma units_long : forall ns, (length ns <= length (concat (map unit_bytes ns)))%nat.
Proof.
  induction ns as [|n t IH]; [cbn; lia|]. cbn [map concat length]. rewrite app_length.
  unfold unit_bytes at 1. rewrite app_length. unfold put16. cbn [length]. lia.
Qed.

Lemma fold_min_bounds (f : list Z -> Z) : forall ns m, 0 <= m -> (forall n, 0 <= f n) ->
  let r := fold_left (fun m n => if f n <? m then f n else m) ns m in
  0 <= r <= m /\ forall n, In n ns -> r <= f n.
Proof.
  induction ns as [|x t IH]; intros m Hm Hf; cbn [fold_left]; [split; [lia|intros n []]|].
  destruct (f x <? m) eqn:E.
  - destruct (IH (f x) (Hf x) Hf) as [H1 H2]. split; [lia|]. intros n [<-|Hn]; [lia|exact (H2 n Hn)].
  - destruct (IH m Hm Hf) as [H1 H2]. split; [lia|]. intros n [<-|Hn]; [lia|exact (H2 n Hn)].
Qed.

Lemma layer_id_range h : 0 <= nh_layer_id h < 64.
Proof.
  unfold nh_layer_id, u8. change 504 with (Z.shiftl (Z.ones 6) 3). rewrite land_mask_range by lia.
  rewrite Z.shiftr_div_pow2 by lia. change (2 ^ 3) with 8. change (2 ^ 6) with 64. lia.
Qed.

Lemma tid_range h : 0 <= nh_tid h < 8.
Proof. unfold nh_tid, u8. rewrite land_7. lia. Qed.

Definition agg_header (layer tid : Z) : Z := Z.lor (Z.lor (Z.shiftl 48 9) (Z.shiftl layer 3)) tid.

Lemma agg_header_fields layer tid : 0 <= layer < 64 -> 0 <= tid < 8 ->
  0 <= agg_header layer tid < 32768 /\ nh_type (agg_header layer tid) = 48 /\
  nh_layer_id (agg_header layer tid) = layer /\ nh_tid (agg_header layer tid) = tid.
Proof.
  intros Hl Ht. unfold agg_header. change (Z.shiftl 48 9) with 24576. rewrite shiftl_3.
  rewrite (lor_add_small 24576 (layer * 8) 9) by lia.
  rewrite (lor_add_small (24576 + layer * 8) tid 3) by lia.
  split; [lia|]. unfold nh_type, nh_layer_id, nh_tid, u8.
  change 32256 with (Z.shiftl (Z.ones 6) 9). change 504 with (Z.shiftl (Z.ones 6) 3).
  rewrite !land_mask_range by lia. rewrite land_7. rewrite !Z.shiftr_div_pow2 by lia.
  change (2 ^ 9) with 512. change (2 ^ 6) with 64. change (2 ^ 3) with 8. repeat split; lia.
Qed.

(* the aggregation packet the payloader builds for two or more buffered units (AddDONL off):
   payload header of type 48 carrying the lowest layer id and TID of the units, then each unit
   behind its 16-bit size; H265Packet returns exactly the units *)
Theorem aggregation_parses st b n1 n2 t mtu : h5_donl_on st = false ->
  hb_nalus b = n1 :: n2 :: t -> buf_ok mtu false b ->
  Forall (fun n => 1 <= zlen n < 65536) (n1 :: n2 :: t) ->
  exists p, h5_flush st b = Ok (st, [Own p]) /\
    h265_unmarshal false (Some p) = Ok (PAgg None n1 (map (fun n => (None, n)) (n2 :: t))) /\
    exists layer tid, p = put16 (u16 (agg_header layer tid)) ++ concat (map unit_bytes (n1 :: n2 :: t)) /\
      0 <= layer < 64 /\ 0 <= tid < 8 /\
      (forall n, In n (n1 :: n2 :: t) -> layer <= nh_layer_id (hdr_of_nalu n) /\ tid <= nh_tid (hdr_of_nalu n)).
Proof.
  intros Hd Hn (Hsz & Hle & _) Hall. unfold h5_flush. rewrite Hn, Hd.
  set (ns := n1 :: n2 :: t) in *.
  set (layer := min_list (fun n => nh_layer_id (hdr_of_nalu n)) ns).
  set (tid := min_list (fun n => nh_tid (hdr_of_nalu n)) ns).
  destruct (fold_min_bounds (fun n => nh_layer_id (hdr_of_nalu n)) ns 255 ltac:(lia)
              (fun n => proj1 (layer_id_range (hdr_of_nalu n)))) as [Hl1 Hl2].
  destruct (fold_min_bounds (fun n => nh_tid (hdr_of_nalu n)) ns 255 ltac:(lia)
              (fun n => proj1 (tid_range (hdr_of_nalu n)))) as [Ht1 Ht2].
  fold (min_list (fun n => nh_layer_id (hdr_of_nalu n)) ns) in Hl1, Hl2. fold layer in Hl1, Hl2.
  fold (min_list (fun n => nh_tid (hdr_of_nalu n)) ns) in Ht1, Ht2. fold tid in Ht1, Ht2.
  assert (Hlr : 0 <= layer < 64).
  { pose proof (Hl2 n1 (or_introl eq_refl)). pose proof (layer_id_range (hdr_of_nalu n1)). lia. }
  assert (Htr : 0 <= tid < 8).
  { pose proof (Ht2 n1 (or_introl eq_refl)). pose proof (tid_range (hdr_of_nalu n1)). lia. }
  fold (agg_header layer tid).
  (* the units, each behind its size *)
  assert (Hunits : concat (map (fun '(i, n) => (if false then match i with O => put16 (h5_donl st) | S j => [u8 (Z.of_nat j)] end else [])
                                  ++ put16 (u16 (zlen n)) ++ n) (combine (seq 0 (length ns)) ns))
                   = concat (map unit_bytes ns)).
  { generalize 0%nat. generalize ns. clear. induction ns as [|x xs IH]; intros i; [reflexivity|].
    cbn [length seq combine map concat]. rewrite IH. reflexivity. }
  rewrite Hunits.
  set (content := put16 (u16 (agg_header layer tid)) ++ concat (map unit_bytes ns)).
  assert (Hc : zlen content = hb_size b).
  { unfold content. rewrite zlen_app. unfold put16 at 1. cbn [zlen length Z.of_nat].
    rewrite Hsz, Hn. fold ns. cbn [buf_size]. unfold ns at 2. cbn [buf_size].
    rewrite <- Hunits. rewrite (zlen_units false (h5_donl st) ns 0). change (Z.pos (Pos.of_succ_nat 1)) with 2. unfold ns. reflexivity. }
  rewrite Hc, Z.ltb_irrefl, Z.sub_diag. cbn [Z.to_nat repeat]. rewrite app_nil_r.
  exists content. split; [reflexivity|]. split.
  - destruct (agg_header_fields layer tid Hlr Htr) as (Hh & Hty & _ & _).
    unfold content. pose proof (put16_be16 (u16 (agg_header layer tid)) ltac:(unfold u16; lia)) as P.
    destruct (put16 (u16 (agg_header layer tid))) as [|c0 [|c1 [|? ?]]]; try contradiction.
    destruct P as (P & Pc0 & Pc1). unfold u16 in P. rewrite Z.mod_small in P by lia. unfold be16 in P.
    unfold ns. cbn [map concat app]. unfold unit_bytes at 1.
    apply Forall_cons_iff in Hall as [Hn1 Hall'].
    pose proof (put16_be16 (u16 (zlen n1)) ltac:(unfold u16; lia)) as P1.
    destruct (put16 (u16 (zlen n1))) as [|a [|bb [|? ?]]]; try contradiction. destruct P1 as (P1 & _).
    unfold u16 in P1. rewrite Z.mod_small in P1 by lia. unfold be16 in P1.
    cbn [app]. unfold h265_unmarshal. rewrite !zlen_cons, zlen_app.
    pose proof (zlen_nonneg (concat (map unit_bytes (n2 :: t)))) as Hz2.
    replace (1 + (1 + (1 + (1 + (zlen n1 + zlen (concat (map unit_bytes (n2 :: t))))))) <=? 2) with false by lia.
    rewrite P. assert (Hf : nh_f (agg_header layer tid) = false).
    { unfold nh_f. rewrite Z.shiftr_div_pow2 by lia. change (2 ^ 15) with 32768.
      replace (agg_header layer tid / 32768) with 0 by lia. reflexivity. }
    rewrite Hf, Hty. change (48 =? 50) with false. change (48 =? 49) with false. change (48 =? 48) with true.
    cbv iota. rewrite P1. rewrite zlen_app.
    replace (zlen n1 + zlen (concat (map unit_bytes (n2 :: t))) <? zlen n1) with false by lia.
    rewrite take_app_exact, drop_app_exact.
    change (unit_bytes n2 ++ concat (map unit_bytes t)) with (concat (map unit_bytes (n2 :: t))).
    match goal with |- context [agg_others ?fu false _ []] => assert (Hfu : (length (n2 :: t) < fu)%nat) end.
    { pose proof (units_long (n2 :: t)). rewrite app_length. lia. }
    rewrite (agg_clean_units (n2 :: t) _ Hfu Hall'). cbn [negb].
    rewrite (agg_others_roundtrip (n2 :: t) _ [] Hfu Hall').
    cbn [rev app map].
    pose proof (zlen_nonneg (unit_bytes n2)). pose proof (zlen_nonneg (concat (map unit_bytes t))).
    repeat match goal with |- context [if ?c then _ else _] => let E := fresh "E" in destruct c eqn:E; [exfalso; lia|] end.
    reflexivity.
  - exists layer, tid. split; [reflexivity|]. split; [exact Hlr|]. split; [exact Htr|].
    intros n Hin. split; [exact (Hl2 n Hin)|exact (Ht2 n Hin)].
Qed.
