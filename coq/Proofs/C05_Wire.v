(* C05, "obtained from Unmarshal": the wire clause for EVERY header that Header.Unmarshal yields - a
   wire may name an id any number of times, hold one-byte elements with id 0, and fill the block to the
   last of its 65535 words - and for everything reachable from it by SetExtension / DelExtension.
   The invariant [exts_inv_w] replaces the [NoDup] of [exts_inv] (which bounds the size of the block only
   because ids are distinct) by the size itself, which SetExtension checks since the repair of D36. *)
From Coq Require Import ZArith List Lia Bool.
From Coq Require Import ZifyBool.
From RTP Require Import Base.Bits Base.Res Base.ListX Base.Bytes Base.Tactics Model.RtpPacket Spec.OrderedMap Proofs.ExtForm
  Spec.Rfc8285 Spec.Rfc3550 Proofs.ExtLoop Proofs.Decode3550 Proofs.C01_Roundtrip Proofs.C03_Reencode Proofs.C05_Accessors.
Import ListNotations.
Open Scope Z_scope.

Definition exts_inv_w (h : header) : Prop :=
  extension h = true ->
  0 <= extension_profile h < 65536 /\
  if extension_profile h =? profile_one_byte
  then Forall wf_ext1 (extensions h) /\ exts_size 1 (extensions h) <= 262140
  else if ext_form (extension_profile h) =? profile_two_byte
  then Forall wf_ext2 (extensions h) /\ exts_size 2 (extensions h) <= 262140
  else (length (extensions h) <= 1)%nat /\
       Forall (fun e => eid e = 0 /\ zlen (epayload e) <= 262140) (extensions h).

Lemma fold_exts_size k es acc :
  fold_left (fun s e => s + k + zlen (epayload e)) es acc = acc + exts_size k es.
Proof.
  revert acc. induction es as [|e t IH]; intros acc; cbn [fold_left exts_size]; [lia|]. rewrite IH. lia.
Qed.

Lemma exts_size_nonneg k es : 0 <= k -> 0 <= exts_size k es.
Proof.
  intros Hk. induction es as [|e t IH]; cbn [exts_size]; [lia|]. pose proof (zlen_nonneg (epayload e)). lia.
Qed.

Lemma exts_size_app k a b : exts_size k (a ++ b) = exts_size k a + exts_size k b.
Proof. induction a as [|e t IH]; cbn [app exts_size]; [lia|]. rewrite IH. lia. Qed.

(* what SetExtension computes before it touches the header is the size of what it then builds *)
Lemma set_existing_size k id v es :
  match set_existing id v es with
  | Some es' => exts_size k es' = k + zlen v + exts_size_skip_first k id es
  | None => exts_size k (es ++ [mkExt id v]) = k + zlen v + exts_size_skip_first k id es
  end.
Proof.
  induction es as [|e t IH]; cbn [set_existing exts_size_skip_first app exts_size epayload]; [lia|].
  destruct (eid e =? id) eqn:E; [cbn [exts_size epayload]; lia|].
  destruct (set_existing id v t) as [t'|]; cbn [exts_size app]; lia.
Qed.

Lemma exts_size_filter_le k (f : ext -> bool) es : 0 <= k -> exts_size k (filter f es) <= exts_size k es.
Proof.
  intros Hk. induction es as [|e t IH]; cbn [filter exts_size]; [lia|].
  pose proof (zlen_nonneg (epayload e)). destruct (f e); cbn [exts_size]; lia.
Qed.

Lemma del_first_size k id es es' : 0 <= k -> del_first id es = Some es' -> exts_size k es' <= exts_size k es.
Proof.
  intros Hk. revert es'. induction es as [|e t IH]; intros es' H; cbn [del_first] in H; [discriminate|].
  pose proof (zlen_nonneg (epayload e)).
  destruct (eid e =? id).
  - injection H as <-. cbn [exts_size]. pose proof (exts_size_filter_le k (fun x => negb (eid x =? id)) t Hk). lia.
  - destruct (del_first id t) as [t'|]; [|discriminate]. injection H as <-. cbn [exts_size].
    specialize (IH t' eq_refl). lia.
Qed.

Lemma filter_length_le' {A} (f : A -> bool) l : (length (filter f l) <= length l)%nat.
Proof. induction l as [|a l IH]; cbn [filter length]; [lia|]. destruct (f a); cbn [length]; lia. Qed.

Lemma del_first_length id es es' : del_first id es = Some es' -> (length es' <= length es)%nat.
Proof.
  revert es'. induction es as [|e t IH]; intros es' H; cbn [del_first] in H; [discriminate|].
  destruct (eid e =? id).
  - injection H as <-. cbn [length]. pose proof (filter_length_le' (fun x => negb (eid x =? id)) t). lia.
  - destruct (del_first id t) as [t'|]; [|discriminate]. injection H as <-. cbn [length].
    specialize (IH t' eq_refl). lia.
Qed.

Lemma set_existing_length id v es es' : set_existing id v es = Some es' -> length es' = length es.
Proof.
  revert es'. induction es as [|e t IH]; intros es' H; cbn [set_existing] in H; [discriminate|].
  destruct (eid e =? id); [injection H as <-; reflexivity|].
  destruct (set_existing id v t) as [t'|]; [|discriminate]. injection H as <-. cbn [length]. f_equal. apply IH. reflexivity.
Qed.

(* all ids 0 and no element found with id 0: the list is empty *)
Lemma set_existing_none_all0 v es : Forall (fun e => eid e = 0 /\ zlen (epayload e) <= 262140) es ->
  set_existing 0 v es = None -> es = [].
Proof.
  destruct es as [|e t]; [reflexivity|]. intros Hall H. apply Forall_cons_iff in Hall as [[He _] _].
  cbn [set_existing] in H. replace (eid e =? 0) with true in H by lia. discriminate.
Qed.

Lemma step_preserves_inv_w h o : op_ok o -> shape_ok h -> exts_inv_w h -> exts_inv_w (fst (model_step h o)).
Proof.
  intros Hop Hshape Hinv. destruct o as [id v|id|id|]; cbn [model_step]; try exact Hinv; cbn [op_ok] in Hop.
  - (* Set *)
    unfold set_extension. pose proof (zlen_nonneg v) as Hv. destruct (extension h) eqn:Hx.
    + specialize (Hinv Hx). destruct Hinv as (Hprof & Hall).
      unfold exts_size_with, elem_hdr_len.
      destruct (extension_profile h =? profile_one_byte) eqn:E1.
      * destruct Hall as [Hall Hsz].
        destruct ((id <? 1) || (14 <? id)) eqn:Ea; [cbn [fst]; intros _; rewrite E1; auto|].
        destruct ((zlen v =? 0) || (16 <? zlen v)) eqn:Eb; [cbn [fst]; intros _; rewrite E1; auto|].
        cbn [Z.eqb].
        destruct (262140 <? 1 + zlen v + exts_size_skip_first 1 id (extensions h)) eqn:Es;
          [cbn [fst]; intros _; rewrite E1; auto|].
        assert (Hnew : wf_ext1 (mkExt id v)) by (unfold wf_ext1; cbn [eid epayload]; lia).
        pose proof (set_existing_size 1 id v (extensions h)) as Hss.
        destruct (set_existing id v (extensions h)) as [es'|] eqn:Ese; cbn [fst]; intros _;
          cbn [extensions extension_profile with_exts]; rewrite E1; (split; [assumption|split]).
        -- eapply set_existing_forall; eauto.
        -- lia.
        -- apply Forall_app. split; [assumption|constructor; [assumption|constructor]].
        -- lia.
      * destruct (ext_form (extension_profile h) =? profile_two_byte) eqn:E2.
        -- destruct Hall as [Hall Hsz].
           destruct (id <? 1) eqn:Ea; [cbn [fst]; intros _; rewrite E1, E2; auto|].
           destruct (255 <? zlen v) eqn:Eb; [cbn [fst]; intros _; rewrite E1, E2; auto|].
           cbn [Z.eqb].
           destruct (262140 <? 2 + zlen v + exts_size_skip_first 2 id (extensions h)) eqn:Es;
             [cbn [fst]; intros _; rewrite E1, E2; auto|].
           assert (Hnew : wf_ext2 (mkExt id v)) by (unfold wf_ext2; cbn [eid epayload]; lia).
           pose proof (set_existing_size 2 id v (extensions h)) as Hss.
           destruct (set_existing id v (extensions h)) as [es'|] eqn:Ese; cbn [fst]; intros _;
             cbn [extensions extension_profile with_exts]; rewrite E1, E2; (split; [assumption|split]).
           ++ eapply set_existing_forall; eauto.
           ++ lia.
           ++ apply Forall_app. split; [assumption|constructor; [assumption|constructor]].
           ++ lia.
        -- destruct Hall as [Hlen Hall].
           destruct (negb (id =? 0)) eqn:Ea; [cbn [fst]; intros _; rewrite E1, E2; auto|].
           destruct (262140 <? zlen v) eqn:Eb; [cbn [fst]; intros _; rewrite E1, E2; auto|].
           cbn [Z.eqb]. rewrite Eb.
           assert (Hid : id = 0) by lia. subst id.
           assert (Hnew : (fun e => eid e = 0 /\ zlen (epayload e) <= 262140) (mkExt 0 v)) by (cbn [eid epayload]; lia).
           destruct (set_existing 0 v (extensions h)) as [es'|] eqn:Ese; cbn [fst]; intros _;
             cbn [extensions extension_profile with_exts]; rewrite E1, E2; (split; [assumption|split]).
           ++ rewrite (set_existing_length _ _ _ _ Ese). assumption.
           ++ exact (set_existing_forall (fun e => eid e = 0 /\ zlen (epayload e) <= 262140) 0 v (extensions h) es' Hall Hnew Ese).
           ++ rewrite (set_existing_none_all0 v _ Hall Ese). cbn [app length]. lia.
           ++ apply Forall_app. split; [assumption|constructor; [assumption|constructor]].
    + rewrite (Hshape Hx). cbn [app].
      destruct ((1 <=? zlen v) && (zlen v <=? 16) && (1 <=? id) && (id <=? 14)) eqn:Ea.
      * cbn [fst]. intros _. cbn [extensions extension_profile with_exts].
        change (profile_one_byte =? profile_one_byte) with true. cbv iota.
        split; [unfold profile_one_byte; lia|]. split.
        -- constructor; [unfold wf_ext1; cbn [eid epayload]; lia|constructor].
        -- cbn [exts_size epayload]. lia.
      * destruct ((zlen v <? 256) && (1 <=? id)) eqn:Eb.
        -- cbn [fst]. intros _. cbn [extensions extension_profile with_exts].
           change (profile_two_byte =? profile_one_byte) with false.
           change (ext_form profile_two_byte =? profile_two_byte) with true. cbv iota.
           split; [unfold profile_two_byte; lia|]. split.
           ++ constructor; [unfold wf_ext2; cbn [eid epayload]; lia|constructor].
           ++ cbn [exts_size epayload]. lia.
        -- destruct (id <? 1); cbn [fst]; intros Hx'; rewrite Hx in Hx'; discriminate.
  - (* Del *)
    unfold del_extension. destruct (extension h) eqn:Hx; cbn [negb]; [|cbn [fst]; intros Hx'; rewrite Hx in Hx'; discriminate].
    specialize (Hinv Hx). destruct Hinv as (Hprof & Hall).
    destruct (del_first id (extensions h)) as [es'|] eqn:Ed; cbn [fst]; [|intros _; auto].
    destruct (del_first_sub id _ _ Ed) as (D1 & _ & _).
    intros _. cbn [extensions extension_profile with_exts]. split; [assumption|].
    destruct (extension_profile h =? profile_one_byte).
    + destruct Hall as [Hall Hsz]. split; [apply D1; assumption|].
      pose proof (del_first_size 1 id _ _ ltac:(lia) Ed). lia.
    + destruct (ext_form (extension_profile h) =? profile_two_byte).
      * destruct Hall as [Hall Hsz]. split; [apply D1; assumption|].
        pose proof (del_first_size 2 id _ _ ltac:(lia) Ed). lia.
      * destruct Hall as [Hlen Hall]. split; [|apply D1; assumption].
        pose proof (del_first_length id _ _ Ed). lia.
Qed.

Lemma fixed_with_exts h x p es : fixed_ok h -> fixed_ok (with_exts h x p es).
Proof. intros H. exact H. Qed.

Lemma step_fixed h o : fixed_ok h -> fixed_ok (fst (model_step h o)).
Proof.
  intros Hf. destruct o as [id v|id|id|]; cbn [model_step fst]; try exact Hf.
  - destruct (set_extension h id v) as [h' e] eqn:Es. cbn [fst].
    assert (Hh : h' = fst (set_extension h id v)) by (rewrite Es; reflexivity). subst h'. clear Es.
    unfold set_extension.
    repeat match goal with |- context [if ?c then _ else _] => destruct c end; cbn [fst]; try exact Hf;
      try (destruct (set_existing id v (extensions h)); cbn [fst]); try exact Hf; apply fixed_with_exts; exact Hf.
  - destruct (del_extension h id) as [h' e] eqn:Es. cbn [fst].
    assert (Hh : h' = fst (del_extension h id)) by (rewrite Es; reflexivity). subst h'. clear Es.
    unfold del_extension. destruct (negb (extension h)); cbn [fst]; [exact Hf|].
    destruct (del_first id (extensions h)); cbn [fst]; [apply fixed_with_exts|]; exact Hf.
Qed.

Lemma run_preserves_inv_w : forall ops h, Forall op_ok ops -> shape_ok h -> fixed_ok h -> exts_inv_w h ->
  shape_ok (fst (run model_step h ops)) /\ fixed_ok (fst (run model_step h ops)) /\
  exts_inv_w (fst (run model_step h ops)).
Proof.
  induction ops as [|o t IH]; intros h Hops Hs Hf Hi; cbn [run fst]; [split; [assumption|split; assumption]|].
  apply Forall_cons_iff in Hops as [Ho Ht].
  pose proof (step_shape h o Hs) as Hs1. pose proof (step_fixed h o Hf) as Hf1.
  pose proof (step_preserves_inv_w h o Ho Hs Hi) as Hi1.
  destruct (model_step h o) as [h1 r]. cbn [fst] in *.
  specialize (IH h1 Ht Hs1 Hf1 Hi1). destruct (run model_step h1 t) as [h2 rs]. exact IH.
Qed.

(* a one-byte or two-byte header with the invariant is well-formed in the sense of C01 *)
Lemma inv_w_wf_rfc8285 h : fixed_ok h -> extension h = true -> exts_inv_w h ->
  (extension_profile h = profile_one_byte \/ ext_form (extension_profile h) = profile_two_byte) -> wf_header h.
Proof.
  intros Hf Hx Hinv Hp. destruct (Hinv Hx) as (Hprof & Hall).
  destruct Hf as (F1 & F2 & F3 & F4 & F5 & F6 & F7).
  unfold wf_header. repeat (split; [assumption|]). unfold wf_exts. rewrite Hx.
  destruct Hp as [Hp|Hp]; [rewrite Hp in *|].
  - change (profile_one_byte =? profile_one_byte) with true in Hall. cbv iota in Hall. destruct Hall as [Hall Hsz].
    split; [left; split; [reflexivity|assumption]|].
    unfold ext_block_size. rewrite Hp. change (profile_one_byte =? profile_one_byte) with true. cbv iota.
    rewrite fold_exts_size. lia.
  - rewrite (two_not_one _ Hprof Hp), Hp, Z.eqb_refl in Hall. cbv iota in Hall. destruct Hall as [Hall Hsz].
    split; [right; left; split; [exact Hprof|split; [exact Hp|assumption]]|].
    unfold ext_block_size. rewrite (two_not_one _ Hprof Hp), Hp, Z.eqb_refl. cbv iota.
    rewrite fold_exts_size. lia.
Qed.

Theorem accepted_survives_wire_w h id v :
  fixed_ok h -> extension h = true -> exts_inv_w h ->
  get_extension h id = Some v ->
  (header_marshal h = Err EShortBuffer /\ zlen v mod 4 <> 0 /\
   extension_profile h <> profile_one_byte /\ ext_form (extension_profile h) <> profile_two_byte)
  \/ (exists bs r, header_marshal h = Ok bs /\ header_unmarshal_into empty_header bs = Ok r /\
                   get_extension (hr_header r) id = Some v).
Proof.
  intros Hf Hx Hinv Hget.
  destruct (Z.eq_dec (extension_profile h) profile_one_byte) as [Hp1|Hp1];
    [|destruct (Z.eq_dec (ext_form (extension_profile h)) profile_two_byte) as [Hp2|Hp2]].
  - right. pose proof (inv_w_wf_rfc8285 h Hf Hx Hinv (or_introl Hp1)) as Hwf.
    destruct (header_roundtrip h Hwf) as (bs & Hm & _ & offs & Hu).
    exists bs, (mkHdrResult h (header_marshal_size h) offs []). repeat split; assumption.
  - right. pose proof (inv_w_wf_rfc8285 h Hf Hx Hinv (or_intror Hp2)) as Hwf.
    destruct (header_roundtrip h Hwf) as (bs & Hm & _ & offs & Hu).
    exists bs, (mkHdrResult h (header_marshal_size h) offs []). repeat split; assumption.
  - destruct (Hinv Hx) as (Hprof & Hall).
    destruct (extension_profile h =? profile_one_byte) eqn:E1; [lia|].
    destruct (ext_form (extension_profile h) =? profile_two_byte) eqn:E2; [lia|].
    destruct Hall as [Hlen Hall].
    unfold get_extension in Hget. rewrite Hx in Hget. cbn [negb] in Hget.
    destruct (extensions h) as [|e t] eqn:Hes; [discriminate|].
    assert (Ht : t = []) by (destruct t; [reflexivity|cbn [length] in Hlen; lia]).
    subst t. apply Forall_cons_iff in Hall as [[He Hesz] _].
    cbn [find] in Hget. destruct (eid e =? id) eqn:Eid; [|discriminate]. injection Hget as Hv.
    destruct (Z.eq_dec (zlen v mod 4) 0) as [Hm4|Hm4].
    + right.
      assert (Hwf : wf_header h).
      { destruct Hf as (F1 & F2 & F3 & F4 & F5 & F6 & F7). unfold wf_header. repeat (split; [assumption|]).
        unfold wf_exts. rewrite Hx. split.
        - right. right. repeat split; try assumption; try lia.
          exists v. rewrite Hes. split; [destruct e as [i0 p0]; simpl in He, Hv; subst; reflexivity|assumption].
        - unfold ext_block_size. rewrite E1, E2, Hes, Hv. pose proof (zlen_nonneg v). rewrite Hv in Hesz. lia. }
      destruct (header_roundtrip h Hwf) as (bs & Hm & _ & offs & Hu).
      exists bs, (mkHdrResult h (header_marshal_size h) offs []). repeat split; try assumption.
      cbn [hr_header]. unfold get_extension. rewrite Hx, Hes. cbn [negb find]. rewrite Eid, Hv. reflexivity.
    + left. repeat split; try assumption.
      unfold header_marshal, header_marshal_to. rewrite zlen_repeat.
      assert (0 <= header_marshal_size h).
      { unfold header_marshal_size. rewrite Hx. unfold ext_block_size. rewrite E1, E2, Hes.
        pose proof (zlen_nonneg (csrc h)). pose proof (zlen_nonneg (epayload e)). lia. }
      case_if; [lia|]. unfold header_bytes. cbv zeta. rewrite Hx. unfold ext_body. rewrite E1, E2, Hes, Hv.
      destruct (zlen v mod 4 =? 0) eqn:E4; [lia|]. reflexivity.
Qed.

(* what Header.Unmarshal yields has the invariant (and the shape and the field ranges) *)
Lemma wf_header_inv_w h : wf_header h -> shape_ok h /\ fixed_ok h /\ exts_inv_w h.
Proof.
  intros (F1 & F2 & F3 & F4 & F5 & F6 & F7 & Hx).
  split; [|split; [unfold fixed_ok; tauto|]].
  - intros Hoff. unfold wf_exts in Hx. rewrite Hoff in Hx. apply Hx.
  - intros Hon. unfold wf_exts in Hx. rewrite Hon in Hx. destruct Hx as [Hform Hsz].
    destruct Hform as [[Hp Hall]|[(Hprof & Hp & Hall)|(Hprof & Hn1 & Hn2 & v & Hes & Hm)]].
    + rewrite Hp. split; [unfold profile_one_byte; lia|].
      change (profile_one_byte =? profile_one_byte) with true. cbv iota. split; [assumption|].
      unfold ext_block_size in Hsz. rewrite Hp in Hsz. change (profile_one_byte =? profile_one_byte) with true in Hsz.
      cbv iota in Hsz. rewrite fold_exts_size in Hsz. lia.
    + split; [assumption|]. rewrite (two_not_one _ Hprof Hp), Hp, Z.eqb_refl. cbv iota. split; [assumption|].
      unfold ext_block_size in Hsz. rewrite (two_not_one _ Hprof Hp), Hp, Z.eqb_refl in Hsz. cbv iota in Hsz.
      rewrite fold_exts_size in Hsz. lia.
    + split; [assumption|].
      replace (extension_profile h =? profile_one_byte) with false by lia.
      replace (ext_form (extension_profile h) =? profile_two_byte) with false by lia.
      rewrite Hes. split; [cbn [length]; lia|].
      constructor; [|constructor]. cbn [eid epayload]. split; [reflexivity|].
      unfold ext_block_size in Hsz.
      replace (extension_profile h =? profile_one_byte) with false in Hsz by lia.
      replace (ext_form (extension_profile h) =? profile_two_byte) with false in Hsz by lia.
      rewrite Hes in Hsz. cbn [epayload] in Hsz. lia.
Qed.

(* the wire clause for every header obtained from Unmarshal and everything reachable from it *)
Theorem unmarshalled_survives_wire buf r ops id v :
  bytes_ok buf -> header_unmarshal_into empty_header buf = Ok r -> Forall op_ok ops ->
  let h := fst (run model_step (hr_header r) ops) in
  extension h = true -> get_extension h id = Some v ->
  (header_marshal h = Err EShortBuffer /\ zlen v mod 4 <> 0 /\
   extension_profile h <> profile_one_byte /\ ext_form (extension_profile h) <> profile_two_byte)
  \/ (exists bs r', header_marshal h = Ok bs /\ header_unmarshal_into empty_header bs = Ok r' /\
                    get_extension (hr_header r') id = Some v).
Proof.
  intros Hb Hu Hops h Hx Hget.
  destruct (wf_header_inv_w _ (header_unmarshal_wf buf r Hb Hu)) as (Hs & Hf & Hi).
  destruct (run_preserves_inv_w ops (hr_header r) Hops Hs Hf Hi) as (_ & Hf' & Hi').
  apply accepted_survives_wire_w; assumption.
Qed.
