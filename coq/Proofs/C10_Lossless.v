(* C10: composition.  H264Payloader output for a sequence of NAL units, fed in order to one
   H264Packet, yields exactly the units that the hold-back rule delivers, each behind the
   receiver's prefix (Annex-B start code or AVC length).  A held SPS/PPS pair goes out as one
   STAP-A when it fits the MTU and as two units otherwise. *)
From Coq Require Import ZArith List Lia Bool.
From Coq Require Import ZifyBool.
From RTP Require Import Base.Bits Base.Res Base.ListX Base.Bytes Base.Own Base.Tactics
  Model.AnnexB Model.H264 Proofs.C10_H264 Proofs.C13_Obu.
From RTP Require Proofs.AnnexBSplit.
Import ListNotations.
Open Scope Z_scope.

(* ---- header byte ---- *)
Lemma nal_header_split_sweep :
  forallb (fun b0 => (Z.lor (Z.land b0 224) (Z.land b0 31) =? b0) &&
                     ((Z.land b0 224 =? 0) || (Z.land b0 224 =? 32) || (Z.land b0 224 =? 64) || (Z.land b0 224 =? 96) ||
                      (Z.land b0 224 =? 128) || (Z.land b0 224 =? 160) || (Z.land b0 224 =? 192) || (Z.land b0 224 =? 224)))
          (zr 256) = true.
Proof. vm_compute. reflexivity. Qed.

Lemma nal_header_split b0 : 0 <= b0 < 256 ->
  Z.lor (Z.land b0 224) (Z.land b0 31) = b0 /\
  fnri_ok (Z.land b0 224).
Proof.
  intros H. pose proof (proj1 (forallb_forall _ _) nal_header_split_sweep b0 (in_zr 256 b0 ltac:(lia))) as Hs.
  cbv beta in Hs. unfold fnri_ok. lia.
Qed.

(* ---- one unit: single NAL unit packet or FU-A ---- *)
Lemma unit_roundtrip mtu n avc stale : 3 <= mtu -> valid_nal n ->
  exists fs stale', emit_single_or_fua mtu n = Ok fs /\ fs <> [] /\
    depack (mkH264Pkt avc stale) (map own_bytes fs) = Ok (mkH264Pkt avc stale', packaging avc [] n).
Proof.
  intros Hm Hv. pose proof Hv as [Hlen Hb]. destruct n as [|b0 body]; [contradiction|]. destruct Hb as [Hb0 Hty].
  unfold emit_single_or_fua. destruct (zlen (b0 :: body) <=? mtu) eqn:E.
  - exists [Own (b0 :: body)], stale. split; [reflexivity|]. split; [discriminate|].
    cbn [map own_bytes depack]. rewrite (single_decodes (mkH264Pkt avc stale) (b0 :: body) Hv). cbn [hk_avc].
    rewrite app_nil_r. reflexivity.
  - rewrite zlen_cons in *. pose proof (zlen_nonneg body) as Hzb.
    replace ((if mtu - 2 <? zlen body then mtu - 2 else zlen body) <=? 0) with false
      by (destruct (mtu - 2 <? zlen body) eqn:?; lia).
    destruct (fua_frags_spec (S (length body)) (mtu - 2) (Z.land b0 224) (Z.land b0 31) (zlen body) body
                ltac:(lia) ltac:(lia) ltac:(lia) ltac:(lia)) as (fs & cs & Hrun & Hrel & Hcat & _ & Hne).
    rewrite Z.eqb_refl in Hrel.
    destruct (nal_header_split b0 Hb0) as [Hsplit Hnri].
    exists fs, []. split; [exact Hrun|]. split; [inversion Hrel; discriminate|].
    rewrite (depack_fua avc (Z.land b0 224) (Z.land b0 31) fs cs Hnri Hty Hrel stale).
    rewrite Hcat, Hsplit. reflexivity.
Qed.

(* ---- STAP-A of a held SPS/PPS pair ---- *)
Definition stap_of (sps pps : list Z) : list Z :=
  120 :: put16 (u16 (zlen sps)) ++ sps ++ put16 (u16 (zlen pps)) ++ pps.

Lemma stapa_step fuel avc a b l2 acc : 0 <= be16 a b <= zlen l2 ->
  stapa_loop (S fuel) avc (a :: b :: l2) acc
  = stapa_loop fuel avc (drop (be16 a b) l2) (packaging avc acc (take (be16 a b) l2)).
Proof. intros H. cbn [stapa_loop]. replace (zlen l2 <? be16 a b) with false by lia. reflexivity. Qed.

Lemma stap_decodes st sps pps : zlen sps < 65536 -> zlen pps < 65536 ->
  h264_unmarshal st (Some (stap_of sps pps))
  = Ok (st, packaging (hk_avc st) (packaging (hk_avc st) [] sps) pps).
Proof.
  intros Hs Hp. unfold stap_of, h264_unmarshal.
  change (Z.land 120 31) with 24. change ((0 <? 24) && (24 <? 24)) with false. change (24 =? 24) with true. cbv iota.
  pose proof (zlen_nonneg sps) as Hs0. pose proof (zlen_nonneg pps) as Hp0.
  pose proof (put16_be16 (u16 (zlen sps)) ltac:(unfold u16; lia)) as P1.
  pose proof (put16_be16 (u16 (zlen pps)) ltac:(unfold u16; lia)) as P2.
  destruct (put16 (u16 (zlen sps))) as [|a1 [|b1 [|? ?]]]; try contradiction.
  destruct (put16 (u16 (zlen pps))) as [|a2 [|b2 [|? ?]]]; try contradiction.
  destruct P1 as (P1 & _). destruct P2 as (P2 & _).
  unfold u16 in P1, P2. rewrite Z.mod_small in P1, P2 by lia.
  cbn [app].
  assert (Hl : exists k, S (length (a1 :: b1 :: sps ++ a2 :: b2 :: pps)) = S (S (S k))).
  { exists (length sps + S (S (length pps)))%nat. cbn [length]. rewrite app_length. cbn [length]. lia. }
  destruct Hl as [k ->].
  rewrite stapa_step by (rewrite P1, zlen_app; pose proof (zlen_nonneg (a2 :: b2 :: pps)); lia).
  rewrite P1, take_app_exact, drop_app_exact.
  rewrite stapa_step by (rewrite P2; lia).
  rewrite P2, (take_all (zlen pps) pps), (drop_all (zlen pps) pps) by lia.
  destruct k; reflexivity.
Qed.

(* ---- the hold-back rule at the level of whole units ---- *)
Definition prefixed (avc : bool) (n : list Z) : list Z := packaging avc [] n.

(* the parameter sets a payloader holds back, in the order they were given (an SPS is only ever
   held together with a PPS that came after it) *)
Definition held (st : h264pay) : list (list Z) :=
  (match hp_sps st with Some s => [s] | None => [] end) ++ (match hp_pps st with Some p => [p] | None => [] end).

(* the hold-back rule: AUD and filler are dropped; with STAP-A enabled an SPS or PPS is held - what
   was held before goes out first when it would be replaced (a second PPS) or overtaken (a new SPS,
   any other unit); every other unit is sent behind whatever was held *)
Definition deliver (st : h264pay) (n : list Z) : h264pay * list (list Z) :=
  let ty := nal_type n in
  let d := hp_disable_stapa st in
  if (ty =? 9) || (ty =? 12) then (st, [])
  else if ty =? 7 then
    if negb d then (mkH264Pay d (Some n) None, held st) else (st, [n])
  else if ty =? 8 then
    if negb d then
      match hp_pps st with
      | Some _ => (mkH264Pay d None (Some n), held st)
      | None => (mkH264Pay d (hp_sps st) (Some n), [])
      end
    else (st, [n])
  else
    if negb d then (mkH264Pay d None None, held st ++ [n]) else (st, [n]).

Fixpoint deliver_all (st : h264pay) (ns : list (list Z)) : h264pay * list (list Z) :=
  match ns with
  | [] => (st, [])
  | n :: t => let '(st1, d1) := deliver st n in let '(st2, d2) := deliver_all st1 t in (st2, d1 ++ d2)
  end.

(* the parameter sets a payloader holds are units it was given: valid ones, on valid input *)
Definition held_valid (st : h264pay) : Prop :=
  (forall s, hp_sps st = Some s -> valid_nal s) /\ (forall p, hp_pps st = Some p -> valid_nal p).

Lemma held_valid_fresh d : held_valid (mkH264Pay d None None).
Proof. split; intros ? [=]. Qed.

Lemma packaging_app avc acc n : packaging avc acc n = acc ++ prefixed avc n.
Proof. unfold prefixed, packaging. destruct avc; reflexivity. Qed.

(* unit_roundtrip with the fragments named once *)
Lemma unit_rt mtu n avc : 3 <= mtu -> valid_nal n ->
  exists fs, emit_single_or_fua mtu n = Ok fs /\
    forall stale, exists stale',
      depack (mkH264Pkt avc stale) (map own_bytes fs) = Ok (mkH264Pkt avc stale', prefixed avc n).
Proof.
  intros Hm Hv. destruct (unit_roundtrip mtu n avc [] Hm Hv) as (fs & _ & Hrun & _ & _).
  exists fs. split; [exact Hrun|]. intros stale.
  destruct (unit_roundtrip mtu n avc stale Hm Hv) as (fs' & stale' & Hrun' & _ & Hd).
  rewrite Hrun in Hrun'. injection Hrun' as <-. exists stale'. exact Hd.
Qed.

(* flushing what is held: the depacketizer gets exactly the held units, in order *)
Lemma flush_lossless mtu st avc : 3 <= mtu <= 65535 -> held_valid st ->
  exists fs, flush_params mtu st = Ok (mkH264Pay (hp_disable_stapa st) None None, fs) /\
    forall stale, exists stale',
      depack (mkH264Pkt avc stale) (map own_bytes fs)
      = Ok (mkH264Pkt avc stale', concat (map (prefixed avc) (held st))).
Proof.
  intros Hm [Hhs Hhp]. unfold flush_params, held.
  (* each held unit on its own *)
  assert (Hind : exists fs,
            match (match hp_sps st with Some s => packetize_nalu mtu s | None => Ok [] end) with
            | Ok f1 =>
              match (match hp_pps st with Some p => packetize_nalu mtu p | None => Ok [] end) with
              | Ok f2 => Ok (mkH264Pay (hp_disable_stapa st) None None, f1 ++ f2)
              | Err e => Err e
              | Panic => Panic
              end
            | Err e => Err e
            | Panic => Panic
            end = Ok (mkH264Pay (hp_disable_stapa st) None None, fs) /\
            forall stale, exists stale',
              depack (mkH264Pkt avc stale) (map own_bytes fs)
              = Ok (mkH264Pkt avc stale', concat (map (prefixed avc)
                     ((match hp_sps st with Some s => [s] | None => [] end) ++ (match hp_pps st with Some p => [p] | None => [] end))))).
  { assert (H1 : exists f1, (match hp_sps st with Some s => packetize_nalu mtu s | None => Ok [] end) = Ok f1 /\
                  forall stale, exists stale', depack (mkH264Pkt avc stale) (map own_bytes f1)
                    = Ok (mkH264Pkt avc stale', concat (map (prefixed avc) (match hp_sps st with Some s => [s] | None => [] end)))).
    { destruct (hp_sps st) as [sps|]; [|exists []; split; [reflexivity|intros stale; exists stale; reflexivity]].
      pose proof (Hhs sps eq_refl) as Hvs. destruct (unit_rt mtu sps avc ltac:(lia) Hvs) as (f1 & Hr1 & Hd1).
      exists f1. split.
      - unfold packetize_nalu. destruct sps; [destruct Hvs as [_ []]|exact Hr1].
      - intros stale. destruct (Hd1 stale) as (s1 & E1). exists s1. rewrite E1. cbn [map concat]. rewrite app_nil_r. reflexivity. }
    assert (H2 : exists f2, (match hp_pps st with Some p => packetize_nalu mtu p | None => Ok [] end) = Ok f2 /\
                  forall stale, exists stale', depack (mkH264Pkt avc stale) (map own_bytes f2)
                    = Ok (mkH264Pkt avc stale', concat (map (prefixed avc) (match hp_pps st with Some p => [p] | None => [] end)))).
    { destruct (hp_pps st) as [pps|]; [|exists []; split; [reflexivity|intros stale; exists stale; reflexivity]].
      pose proof (Hhp pps eq_refl) as Hvp. destruct (unit_rt mtu pps avc ltac:(lia) Hvp) as (f2 & Hr2 & Hd2).
      exists f2. split.
      - unfold packetize_nalu. destruct pps; [destruct Hvp as [_ []]|exact Hr2].
      - intros stale. destruct (Hd2 stale) as (s1 & E1). exists s1. rewrite E1. cbn [map concat]. rewrite app_nil_r. reflexivity. }
    destruct H1 as (f1 & -> & Hd1). destruct H2 as (f2 & -> & Hd2).
    exists (f1 ++ f2). split; [reflexivity|]. intros stale.
    destruct (Hd1 stale) as (s1 & E1). destruct (Hd2 s1) as (s2 & E2). exists s2.
    rewrite map_app, depack_app, E1, E2, map_app, concat_app. reflexivity. }
  destruct (hp_sps st) as [sps|] eqn:Es; [|exact Hind].
  destruct (hp_pps st) as [pps|] eqn:Ep; [|exact Hind].
  pose proof (Hhs sps eq_refl) as Hvs. pose proof (Hhp pps eq_refl) as Hvp.
  fold (stap_of sps pps).
  destruct (zlen (stap_of sps pps) <=? mtu) eqn:Efit; [|exact Hind].
  assert (Hsz : zlen sps < 65536 /\ zlen pps < 65536).
  { unfold stap_of, put16 in Efit. cbn [app] in Efit. rewrite !zlen_cons, zlen_app, !zlen_cons in Efit.
    pose proof (zlen_nonneg sps). pose proof (zlen_nonneg pps). lia. }
  destruct Hsz as [Hs2 Hp2].
  exists [Own (stap_of sps pps)]. split; [reflexivity|]. intros stale. eexists.
  cbn [map own_bytes depack].
  rewrite (stap_decodes (mkH264Pkt avc stale) sps pps Hs2 Hp2). cbn [hk_avc app map concat].
  rewrite !packaging_app. cbn [app]. rewrite !app_nil_r. reflexivity.
Qed.

Lemma nalu_lossless mtu st n avc : 3 <= mtu <= 65535 -> valid_nal n -> held_valid st ->
  exists fs, h264_nalu mtu st n = Ok (fst (deliver st n), fs) /\ held_valid (fst (deliver st n)) /\
    forall stale, exists stale',
      depack (mkH264Pkt avc stale) (map own_bytes fs)
      = Ok (mkH264Pkt avc stale', concat (map (prefixed avc) (snd (deliver st n)))).
Proof.
  intros Hm Hv Hst. pose proof Hst as [Hhs Hhp]. pose proof Hv as [Hlen Hb].
  destruct n as [|b0 body]; [contradiction|].
  unfold h264_nalu, deliver. cbn [nal_type]. set (n := b0 :: body) in *.
  destruct (unit_rt mtu n avc ltac:(lia) Hv) as (fs & Hrun & Hdn).
  destruct (flush_lossless mtu st avc Hm Hst) as (pre & Hfl & Hdpre).
  (* the unit itself is sent, nothing is held *)
  assert (Hone : exists fs0, match emit_single_or_fua mtu n with
                       | Ok fs0 => Ok (st, [] ++ fs0) | Err e => Err e | Panic => Panic end
                       = Ok (fst (st, [n]), fs0) /\ held_valid (fst (st, [n])) /\
              forall stale, exists stale', depack (mkH264Pkt avc stale) (map own_bytes fs0)
                = Ok (mkH264Pkt avc stale', concat (map (prefixed avc) (snd (st, [n]))))).
  { rewrite Hrun. exists fs. split; [reflexivity|]. split; [exact Hst|]. intros stale.
    destruct (Hdn stale) as (stale' & Hd). exists stale'. rewrite Hd. cbn [snd map concat]. rewrite app_nil_r. reflexivity. }
  destruct ((Z.land b0 31 =? 9) || (Z.land b0 31 =? 12)).
  { exists []. split; [reflexivity|]. split; [exact Hst|]. intros stale. exists stale. reflexivity. }
  destruct (Z.land b0 31 =? 7) eqn:E7.
  { destruct (negb (hp_disable_stapa st)); [|exact Hone].
    rewrite Hfl. cbn [hp_disable_stapa hp_pps]. exists pre. split; [reflexivity|].
    split; [split; cbn [fst hp_sps hp_pps]; [intros s [= <-]; exact Hv|intros p [=]]|]. exact Hdpre. }
  destruct (Z.land b0 31 =? 8) eqn:E8.
  { destruct (negb (hp_disable_stapa st)); [|exact Hone].
    destruct (hp_pps st) as [pps|] eqn:Epps.
    - rewrite Hfl. cbn [hp_disable_stapa hp_sps]. exists pre. split; [reflexivity|].
      split; [split; cbn [fst hp_sps hp_pps]; [intros s [=]|intros p [= <-]; exact Hv]|]. exact Hdpre.
    - exists []. split; [reflexivity|].
      split; [split; cbn [fst hp_sps hp_pps]; [exact Hhs|intros p [= <-]; exact Hv]|].
      intros stale. exists stale. reflexivity. }
  destruct (negb (hp_disable_stapa st)); [|exact Hone].
  rewrite Hfl, Hrun. exists (pre ++ fs). split; [reflexivity|]. split; [apply held_valid_fresh|].
  intros stale. destruct (Hdpre stale) as (s1 & E1). destruct (Hdn s1) as (s2 & E2). exists s2.
  rewrite map_app, depack_app, E1, E2. cbn [snd]. rewrite map_app, concat_app. cbn [map concat]. rewrite app_nil_r. reflexivity.
Qed.

Theorem nalus_lossless mtu avc : 3 <= mtu <= 65535 -> forall ns st,
  Forall valid_nal ns -> held_valid st ->
  exists fs, h264_nalus mtu st ns = Ok (fst (deliver_all st ns), fs) /\
    held_valid (fst (deliver_all st ns)) /\
    forall stale, exists stale',
      depack (mkH264Pkt avc stale) (map own_bytes fs)
      = Ok (mkH264Pkt avc stale', concat (map (prefixed avc) (snd (deliver_all st ns)))).
Proof.
  intros Hm. induction ns as [|n t IH]; intros st Hv Hh.
  - exists []. split; [reflexivity|]. split; [exact Hh|]. intros stale. exists stale. reflexivity.
  - apply Forall_cons_iff in Hv as [Hv Hvt].
    destruct (nalu_lossless mtu st n avc Hm Hv Hh) as (fs1 & H1 & Hh1 & Hd1).
    cbn [h264_nalus deliver_all]. rewrite H1.
    destruct (deliver st n) as [st1 d1] eqn:Ed. cbn [fst snd] in *.
    destruct (IH st1 Hvt Hh1) as (fs2 & H2 & Hh2 & Hd2). rewrite H2.
    destruct (deliver_all st1 t) as [st2 d2] eqn:Ed2. cbn [fst snd] in *.
    exists (fs1 ++ fs2). split; [reflexivity|]. split; [exact Hh2|].
    intros stale. destruct (Hd1 stale) as (stale1 & Hr1). destruct (Hd2 stale1) as (stale2 & Hr2).
    exists stale2. rewrite map_app, depack_app, Hr1, Hr2, map_app, concat_app. reflexivity.
Qed.

(* From the caller's bytes: an Annex-B stream of valid units (3- or 4-byte start codes) *)
Theorem access_unit_lossless mtu avc b n t st : 3 <= mtu <= 65535 ->
  AnnexBSplit.valid_nal n -> Forall (fun x => AnnexBSplit.valid_nal (snd x)) t ->
  Forall valid_nal (n :: map snd t) -> held_valid st ->
  exists fs, h264_payload st mtu (Some (AnnexBSplit.stream ((b, n) :: t)))
             = Ok (fst (deliver_all st (n :: map snd t)), fs) /\
    forall stale, exists stale',
      depack (mkH264Pkt avc stale) (map own_bytes fs)
      = Ok (mkH264Pkt avc stale', concat (map (prefixed avc) (snd (deliver_all st (n :: map snd t))))).
Proof.
  intros Hm Hn Ht Hv Hh. unfold h264_payload.
  pose proof (AnnexBSplit.emit_nalus_stream b n t Hn Ht) as Hsplit.
  assert (Hne : exists x l, AnnexBSplit.stream ((b, n) :: t) = x :: l).
  { cbn [AnnexBSplit.stream]. destruct b; cbn [app AnnexBSplit.sc3 AnnexBSplit.sc4]; eauto. }
  destruct Hne as (x & l & Es). rewrite Es. cbv iota beta. rewrite <- Es, Hsplit.
  destruct (nalus_lossless mtu avc Hm (n :: map snd t) st Hv Hh) as (fs & H1 & _ & Hd).
  exists fs. split; [exact H1|exact Hd].
Qed.

(* ---- nothing is lost, nothing is reordered: what has been delivered, followed by what is still held
   back, is what was held before followed by the units given (AUD and filler dropped) - in order ---- *)
Definition kept (n : list Z) : bool := negb ((nal_type n =? 9) || (nal_type n =? 12)).

Definition hold_ok (st : h264pay) : Prop := hp_disable_stapa st = true -> held st = [].

Lemma deliver_complete st n : hold_ok st ->
  snd (deliver st n) ++ held (fst (deliver st n)) = held st ++ (if kept n then [n] else []) /\
  hp_disable_stapa (fst (deliver st n)) = hp_disable_stapa st /\ hold_ok (fst (deliver st n)).
Proof.
  intros Hh. unfold deliver, kept, hold_ok in *.
  destruct ((nal_type n =? 9) || (nal_type n =? 12)); cbn [negb fst snd].
  { rewrite ?app_nil_r. auto. }
  destruct (nal_type n =? 7).
  { destruct (hp_disable_stapa st) eqn:Ed; cbn [negb fst snd].
    - split; [rewrite (Hh eq_refl); reflexivity|]. split; [exact Ed|intros _; apply Hh; reflexivity].
    - unfold held at 2. cbn [hp_sps hp_pps hp_disable_stapa app]. rewrite ?app_nil_r.
      split; [reflexivity|]. split; [reflexivity|discriminate]. }
  destruct (nal_type n =? 8).
  { destruct (hp_disable_stapa st) eqn:Ed; cbn [negb fst snd].
    - split; [rewrite (Hh eq_refl); reflexivity|]. split; [exact Ed|intros _; apply Hh; reflexivity].
    - destruct (hp_pps st) as [pps|] eqn:Ep; cbn [fst snd].
      + unfold held at 2. cbn [hp_sps hp_pps hp_disable_stapa app].
        split; [reflexivity|]. split; [reflexivity|discriminate].
      + unfold held. cbn [hp_sps hp_pps hp_disable_stapa app]. rewrite Ep, ?app_nil_r.
        split; [reflexivity|]. split; [reflexivity|discriminate]. }
  destruct (hp_disable_stapa st) eqn:Ed; cbn [negb fst snd].
  - split; [rewrite (Hh eq_refl); reflexivity|]. split; [exact Ed|intros _; apply Hh; reflexivity].
  - unfold held at 2. cbn [hp_sps hp_pps hp_disable_stapa app]. rewrite ?app_nil_r.
    split; [reflexivity|]. split; [reflexivity|discriminate].
Qed.

Theorem deliver_all_complete : forall ns st, hold_ok st ->
  snd (deliver_all st ns) ++ held (fst (deliver_all st ns)) = held st ++ filter kept ns.
Proof.
  induction ns as [|n t IH]; intros st Hh; cbn [deliver_all filter].
  - cbn [fst snd app]. rewrite app_nil_r. reflexivity.
  - destruct (deliver_complete st n Hh) as (H1 & _ & Hh1).
    destruct (deliver st n) as [st1 d1]. cbn [fst snd] in *.
    specialize (IH st1 Hh1). destruct (deliver_all st1 t) as [st2 d2]. cbn [fst snd] in *.
    rewrite <- app_assoc, IH, app_assoc, H1, <- app_assoc. f_equal.
    destruct (kept n); reflexivity.
Qed.

Lemma hold_ok_fresh d : hold_ok (mkH264Pay d None None).
Proof. intros _. reflexivity. Qed.
