(* C12: the VP9 bit reader returns exactly bits [pos, pos+n) of the buffer read as one big-endian
   bit string (codecs/vp9/bits.go, three phases: rest of the current byte, whole bytes, head of
   the last byte). *)
From Coq Require Import ZArith List Lia Bool.
From Coq Require Import ZifyBool.
From RTP Require Import Base.Bits Base.Res Base.ListX Base.Tactics Model.Vp9Header.
Import ListNotations.
Open Scope Z_scope.

Definition bigval (buf : list Z) : Z := fold_left (fun a b => a * 256 + b) buf 0.
Definition bytes (buf : list Z) : Prop := Forall (fun b => 0 <= b < 256) buf.

(* bits [p, p+n) of the bit string, most significant first *)
Definition ext (buf : list Z) (p n : Z) : Z := (bigval buf / 2 ^ (8 * zlen buf - p - n)) mod 2 ^ n.

Lemma fold_acc : forall l acc,
  fold_left (fun a b => a * 256 + b) l acc = acc * 256 ^ zlen l + fold_left (fun a b => a * 256 + b) l 0.
Proof.
  induction l as [|x l IH]; intros acc; cbn [fold_left].
  - change (zlen (@nil Z)) with 0. lia.
  - rewrite IH. rewrite (IH (0 * 256 + x)). rewrite zlen_cons.
    pose proof (zlen_nonneg l). rewrite Z.pow_add_r by lia. ring.
Qed.

Lemma bigval_app a c : bigval (a ++ c) = bigval a * 256 ^ zlen c + bigval c.
Proof. unfold bigval. rewrite fold_left_app. apply fold_acc. Qed.

Lemma bigval_bound l : bytes l -> 0 <= bigval l < 256 ^ zlen l.
Proof.
  induction 1 as [|x l Hx Hl IH].
  - cbn. lia.
  - change (x :: l) with ([x] ++ l). rewrite bigval_app. change (bigval [x]) with (0 * 256 + x).
    rewrite zlen_app. change (zlen [x]) with 1. pose proof (zlen_nonneg l).
    rewrite Z.pow_add_r by lia. change (256 ^ 1) with 256.
    assert (0 < 256 ^ zlen l) by (apply Z.pow_pos_nonneg; lia). nia.
Qed.

Lemma pow256 m : 0 <= m -> 256 ^ m = 2 ^ (8 * m).
Proof. intros. rewrite Z.pow_mul_r by lia. reflexivity. Qed.

(* bits inside one byte *)
Lemma ext_byte pre b suf o n : bytes pre -> bytes suf -> 0 <= b < 256 -> 0 <= o -> 0 <= n -> o + n <= 8 ->
  ext (pre ++ b :: suf) (8 * zlen pre + o) n = (b / 2 ^ (8 - o - n)) mod 2 ^ n.
Proof.
  intros Hpre Hsuf Hb Ho Hn Hon. unfold ext.
  rewrite zlen_app, zlen_cons. pose proof (zlen_nonneg pre) as Hzp. pose proof (zlen_nonneg suf) as Hzs.
  replace (8 * (zlen pre + (1 + zlen suf)) - (8 * zlen pre + o) - n) with (8 * zlen suf + (8 - o - n)) by lia.
  change (b :: suf) with ([b] ++ suf). rewrite app_assoc, bigval_app, bigval_app.
  change (bigval [b]) with (0 * 256 + b). change (zlen [b]) with 1. change (256 ^ 1) with 256.
  pose proof (bigval_bound suf Hsuf) as Hbs. pose proof (bigval_bound pre Hpre) as Hbp.
  set (A := bigval pre) in *. set (S := bigval suf) in *. set (s := 8 - o - n).
  rewrite Z.pow_add_r by lia. rewrite <- pow256 by lia.
  assert (Hp : 0 < 256 ^ zlen suf) by (apply Z.pow_pos_nonneg; lia).
  rewrite <- Z.div_div by lia.
  rewrite Z.div_add_l by lia. rewrite (Z.div_small S) by lia. rewrite Z.add_0_r.
  (* (A*256 + b) / 2^s mod 2^n, where 256 = 2^(o+n) * 2^s *)
  assert (H256 : 256 = 2 ^ o * 2 ^ n * 2 ^ s).
  { rewrite <- !Z.pow_add_r by lia. replace (o + n + s) with 8 by lia. reflexivity. }
  assert (Hs : 0 < 2 ^ s) by (apply Z.pow_pos_nonneg; lia).
  assert (Hn2 : 0 < 2 ^ n) by (apply Z.pow_pos_nonneg; lia).
  replace (A * 256 + (0 * 256 + b)) with (A * 2 ^ o * 2 ^ n * 2 ^ s + b) by (rewrite H256; ring).
  rewrite Z.div_add_l by lia.
  rewrite Z.add_comm, Z.mod_add by lia. reflexivity.
Qed.

(* concatenation of adjacent bit ranges *)
Lemma ext_split buf p a b : 0 <= a -> 0 <= b -> p + a + b <= 8 * zlen buf ->
  ext buf p (a + b) = ext buf p a * 2 ^ b + ext buf (p + a) b.
Proof.
  intros Ha Hb Hle. unfold ext.
  set (V := bigval buf). set (k := 8 * zlen buf - p - (a + b)).
  replace (8 * zlen buf - p - a) with (k + b) by lia.
  replace (8 * zlen buf - (p + a) - b) with k by lia.
  assert (Hk : 0 <= k) by lia.
  assert (H2k : 0 < 2 ^ k) by (apply Z.pow_pos_nonneg; lia).
  assert (H2b : 0 < 2 ^ b) by (apply Z.pow_pos_nonneg; lia).
  assert (H2a : 0 < 2 ^ a) by (apply Z.pow_pos_nonneg; lia).
  rewrite (Z.pow_add_r 2 k b) by lia. rewrite <- Z.div_div by lia.
  set (x := V / 2 ^ k).
  rewrite (Z.add_comm a b), (Z.pow_add_r 2 b a) by lia.
  rewrite Z.rem_mul_r by lia. lia.
Qed.

Lemma ext_range buf p n : 0 <= n -> 0 <= ext buf p n < 2 ^ n.
Proof. intros Hn. unfold ext. apply Z.mod_pos_bound. apply Z.pow_pos_nonneg; lia. Qed.

(* ---- the reader ---- *)

Lemma idx_split (buf : list Z) i b : idx buf i = Some b ->
  exists pre suf, buf = pre ++ b :: suf /\ zlen pre = i.
Proof.
  unfold idx. destruct (i <? 0) eqn:E; [discriminate|]. intros H.
  apply nth_error_split in H as (pre & suf & -> & Hl). exists pre, suf. split; [reflexivity|].
  unfold zlen. lia.
Qed.

Lemma idx_some (buf : list Z) i : 0 <= i < zlen buf -> exists b, idx buf i = Some b.
Proof.
  intros H. unfold idx. replace (i <? 0) with false by lia.
  destruct (nth_error buf (Z.to_nat i)) as [b|] eqn:E; [eauto|].
  apply nth_error_None in E. unfold zlen in H. lia.
Qed.

(* the byte holding bit position p, and the bit ranges inside it *)
Lemma byte_at_ext buf p : bytes buf -> 0 <= p < 8 * zlen buf ->
  exists b, byte_at buf p = Ok b /\ 0 <= b < 256 /\
    forall n, 0 <= n -> p mod 8 + n <= 8 -> ext buf p n = (b / 2 ^ (8 - p mod 8 - n)) mod 2 ^ n.
Proof.
  intros Hb Hp. unfold byte_at. rewrite shiftr_3.
  destruct (idx_some buf (p / 8) ltac:(lia)) as [b Hi]. rewrite Hi. exists b. split; [reflexivity|].
  destruct (idx_split _ _ _ Hi) as (pre & suf & -> & Hl).
  apply Forall_app in Hb as [Hpre Hbs]. apply Forall_cons_iff in Hbs as [Hb0 Hsuf].
  split; [exact Hb0|]. intros n Hn Hon.
  replace p with (8 * zlen pre + p mod 8) at 1 by lia.
  apply ext_byte; auto; lia.
Qed.

Lemma mask8 n : 0 <= n <= 8 -> u8 (u8 (Z.shiftl 1 n) - 1) = 2 ^ n - 1.
Proof.
  intros H. assert (C : n = 0 \/ n = 1 \/ n = 2 \/ n = 3 \/ n = 4 \/ n = 5 \/ n = 6 \/ n = 7 \/ n = 8) by lia.
  destruct C as [->|[->|[->|[->|[->|[->|[->|[->| ->]]]]]]]]; reflexivity.
Qed.

Lemma land_low x n : 0 <= n -> Z.land x (2 ^ n - 1) = x mod 2 ^ n.
Proof. intros Hn. rewrite <- Z.land_ones by lia. rewrite Z.ones_equiv. reflexivity. Qed.

(* phase two: whole bytes *)
Lemma read_whole_spec : forall fuel buf p0 k pos n bits, bytes buf ->
  0 <= p0 -> 0 <= k -> pos = p0 + k -> pos mod 8 = 0 -> 0 <= n -> k + n <= 64 -> pos + n <= 8 * zlen buf ->
  (Z.to_nat (n / 8) < fuel)%nat -> bits = ext buf p0 k ->
  exists m, 0 <= m < 8 /\ (n - m) mod 8 = 0 /\
    read_whole fuel buf pos n bits = Ok (pos + (n - m), m, ext buf p0 (k + (n - m))).
Proof.
  induction fuel as [|fuel IH]; intros buf p0 k pos n bits Hb Hp0 Hk Hpos Hal Hn Hkn Hle Hf Hbits; [lia|].
  cbn [read_whole]. destruct (8 <=? n) eqn:E.
  - destruct (byte_at_ext buf pos Hb ltac:(lia)) as (b & Hba & Hbr & Hext). rewrite Hba.
    assert (Hstep : u64 (Z.lor (Z.shiftl bits 8) b) = ext buf p0 (k + 8)).
    { rewrite shiftl_8. rewrite (lor_add_small (bits * 256) b 8) by lia.
      rewrite (ext_split buf p0 k 8) by lia. rewrite <- Hpos.
      rewrite (Hext 8) by lia. rewrite Hal. change (8 - 0 - 8) with 0. change (2 ^ 0) with 1.
      rewrite Z.div_1_r. change (2 ^ 8) with 256. rewrite (Z.mod_small b) by lia. subst bits.
      unfold u64. apply Z.mod_small.
      pose proof (ext_range buf p0 k Hk) as Hr.
      assert (Hpq : 2 ^ k * 256 <= 18446744073709551616).
      { change 256 with (2 ^ 8). rewrite <- Z.pow_add_r by lia. change 18446744073709551616 with (2 ^ 64).
        apply Z.pow_le_mono_r; lia. }
      set (X := ext buf p0 k) in *. set (P := 2 ^ k) in *.
      assert (Hx : X * 256 <= (P - 1) * 256) by lia. lia. }
    rewrite Hstep.
    destruct (IH buf p0 (k + 8) (pos + 8) (n - 8) (ext buf p0 (k + 8)) Hb Hp0 ltac:(lia) ltac:(lia) ltac:(lia)
                 ltac:(lia) ltac:(lia) ltac:(lia) ltac:(lia) eq_refl) as (m & Hm & Hmm & Hrun).
    exists m. split; [exact Hm|]. split; [lia|]. rewrite Hrun. f_equal. f_equal; [f_equal; lia|f_equal; lia].
  - exists n. split; [lia|]. split; [replace (n - n) with 0 by lia; reflexivity|].
    replace (n - n) with 0 by lia. rewrite !Z.add_0_r. subst bits. reflexivity.
Qed.

Theorem read_bits_unsafe_spec buf pos n : bytes buf -> 0 <= pos -> 1 <= n <= 64 -> pos + n <= 8 * zlen buf ->
  read_bits_unsafe buf pos n = Ok (ext buf pos n, pos + n).
Proof.
  intros Hb Hpos Hn Hle. unfold read_bits_unsafe. rewrite land_7.
  set (o := pos mod 8). set (r := 8 - o). assert (Ho : 0 <= o < 8) by (unfold o; lia).
  destruct (byte_at_ext buf pos Hb ltac:(lia)) as (b0 & Hba & Hb0 & Hext). rewrite Hba.
  fold o in Hext.
  destruct (n <? r) eqn:E1.
  - (* inside the current byte *)
    rewrite mask8 by lia. rewrite land_low by lia. rewrite Z.shiftr_div_pow2 by lia.
    rewrite (Hext n) by lia. replace (8 - o - n) with (r - n) by lia. reflexivity.
  - rewrite mask8 by lia. rewrite land_low by lia.
    assert (Hbits : b0 mod 2 ^ r = ext buf pos r).
    { rewrite (Hext r) by lia. replace (8 - o - r) with 0 by lia. change (2 ^ 0) with 1.
      rewrite Z.div_1_r. reflexivity. }
    rewrite Hbits.
    destruct (read_whole_spec 9 buf pos r (pos + r) (n - r) (ext buf pos r) Hb Hpos ltac:(lia) eq_refl
                ltac:(unfold r, o; lia) ltac:(lia) ltac:(lia) ltac:(lia) ltac:(lia) eq_refl) as (m & Hm & Hmm & Hrun).
    rewrite Hrun. destruct (0 <? m) eqn:E2.
    + set (pos2 := pos + r + (n - r - m)).
      assert (Hal2 : pos2 mod 8 = 0) by (unfold pos2, r, o; lia).
      destruct (byte_at_ext buf pos2 Hb ltac:(unfold pos2; lia)) as (b & Hbb & Hbr & Hext2). rewrite Hbb.
      f_equal. f_equal; [|unfold pos2; lia].
      rewrite Z.shiftl_mul_pow2 by lia. rewrite Z.shiftr_div_pow2 by lia.
      assert (H2m : 0 < 2 ^ m) by (apply Z.pow_pos_nonneg; lia).
      assert (Hbm : 0 <= b / 2 ^ (8 - m) < 2 ^ m).
      { split; [apply Z.div_pos; [lia|apply Z.pow_pos_nonneg; lia]|].
        apply Z.div_lt_upper_bound; [apply Z.pow_pos_nonneg; lia|].
        rewrite <- Z.pow_add_r by lia. replace (8 - m + m) with 8 by lia. change (2 ^ 8) with 256. lia. }
      rewrite (lor_add_small (ext buf pos (r + (n - r - m)) * 2 ^ m) (b / 2 ^ (8 - m)) m)
        by (try lia; rewrite Z.mod_mul by lia; reflexivity).
      replace (ext buf pos n) with (ext buf pos ((r + (n - r - m)) + m)) by (f_equal; lia).
      rewrite (ext_split buf pos (r + (n - r - m)) m) by lia.
      replace (pos + (r + (n - r - m))) with pos2 by (unfold pos2; lia).
      rewrite (Hext2 m) by lia. rewrite Hal2. replace (8 - 0 - m) with (8 - m) by lia.
      rewrite (Z.mod_small (b / 2 ^ (8 - m))) by lia.
      unfold u64. apply Z.mod_small.
      pose proof (ext_range buf pos (r + (n - r - m)) ltac:(lia)) as Hr.
      assert (Hpq : 2 ^ (r + (n - r - m)) * 2 ^ m <= 18446744073709551616).
      { rewrite <- Z.pow_add_r by lia. change 18446744073709551616 with (2 ^ 64). apply Z.pow_le_mono_r; lia. }
      set (X := ext buf pos (r + (n - r - m))) in *. set (P := 2 ^ (r + (n - r - m))) in *.
      set (Q := 2 ^ m) in *. set (y := b / 2 ^ (8 - m)) in *.
      assert (Hx : X * Q <= (P - 1) * Q) by (apply Z.mul_le_mono_nonneg_r; lia).
      assert (Hx0 : 0 <= X * Q) by (apply Z.mul_nonneg_nonneg; lia).
      replace ((P - 1) * Q) with (P * Q - Q) in Hx by ring.
      clearbody X P Q y. clear - Hx Hx0 Hpq Hr Hbm H2m. lia.
    + assert (m = 0) by lia. subst m. f_equal. f_equal; [f_equal; lia|lia].
Qed.
