(* C13, decoder against the aggregation-header semantics for unfragmented packets with W = 0:
   every element length-prefixed, any number of them. *)
From Coq Require Import ZArith List Lia Bool.
From Coq Require Import ZifyBool.
From RTP Require Import Base.Bits Base.Res Base.ListX Base.Tactics Model.Leb128 Model.Obu Model.Av1Depack
  Proofs.Leb128Proofs Proofs.C13_Obu Proofs.C13_Depack Proofs.C13_Small.
Import ListNotations.
Open Scope Z_scope.

Lemma prefix_bytes_cons e t : prefix_bytes (e :: t) = write_leb128 (zlen (elem e)) ++ elem e ++ prefix_bytes t.
Proof. unfold prefix_bytes. cbn [flat_map]. rewrite <- app_assoc. reflexivity. Qed.

Lemma prefix_bytes_nonempty e t : wf_sobu e -> prefix_bytes (e :: t) <> [].
Proof.
  intros He. rewrite prefix_bytes_cons. intros Hnil. apply app_eq_nil in Hnil as [_ Hnil].
  apply app_eq_nil in Hnil as [Hnil _]. exact (proj1 (proj2 (elem_step e He)) Hnil).
Qed.

Lemma av1d_loop_w0 : forall es fuel k buffer buff, es <> [] -> Forall wf_sobu es ->
  (length (prefix_bytes es) < fuel)%nat ->
  exists k', av1d_loop fuel false false 0 (prefix_bytes es) k buffer buff
             = (buffer, Ok (buff ++ concat (map delivered es), k')).
Proof.
  induction es as [|e t IH]; intros fuel k buffer buff Hne Hall Hf; [congruence|].
  apply Forall_cons_iff in Hall as [He Hall].
  destruct (elem_step e He) as (Hparse & Henn & Hdrop). pose proof (elem_len e He) as Hel.
  pose proof (prefix_bytes_nonempty e t He) as Hpn.
  destruct He as (Hr & Hsz & Ht2 & Ht8 & Hb).
  destruct fuel as [|fuel]; [lia|].
  cbn [av1d_loop]. remember (prefix_bytes (e :: t)) as pb eqn:Epb. destruct pb as [|x l']; [congruence|].
  rewrite Epb in *. clear Epb x l'. rewrite prefix_bytes_cons in *.
  change (0 =? 0) with true. cbn [negb andb orb].
  rewrite (leb128_roundtrip (zlen (elem e)) (elem e ++ prefix_bytes t) ltac:(lia)).
  rewrite drop_app_exact. rewrite zlen_app. pose proof (zlen_nonneg (prefix_bytes t)) as Hpt.
  replace (zlen (elem e) + zlen (prefix_bytes t) <? zlen (elem e)) with false by lia.
  rewrite take_app_exact, drop_app_exact. rewrite andb_false_r. cbn [andb].
  replace (zlen (elem e) =? 0) with false by lia. rewrite Hparse.
  replace ((otype (so_hdr e) =? 2) || (otype (so_hdr e) =? 8)) with false by lia.
  rewrite Hsz, Hdrop.
  destruct t as [|e2 t'].
  - (* the last element: it consumes the rest of the packet *)
    change (prefix_bytes []) with (@nil Z). change (zlen (@nil Z)) with 0.
    replace (zlen (elem e) =? zlen (elem e) + 0) with true by lia. cbn [andb orb].
    exists k. cbn [map concat]. rewrite app_nil_r. unfold delivered. reflexivity.
  - assert (Hz2 : 1 <= zlen (prefix_bytes (e2 :: t'))).
    { apply Forall_cons_iff in Hall as [He2 _]. pose proof (prefix_bytes_nonempty e2 t' He2) as Hn2.
      destruct (prefix_bytes (e2 :: t')); [congruence|]. rewrite zlen_cons. pose proof (zlen_nonneg l). lia. }
    replace (zlen (elem e) =? zlen (elem e) + zlen (prefix_bytes (e2 :: t'))) with false by lia. cbn [andb orb].
    destruct (IH fuel (k + 1) buffer
                (buff ++ obu_hdr_marshal {| otype := otype (so_hdr e); oext := oext (so_hdr e); ohas_size := true; ores1 := ores1 (so_hdr e) |}
                      ++ write_leb128 (zlen (so_body e)) ++ so_body e)
                ltac:(discriminate) Hall) as (k' & Hrun).
    { rewrite !app_length in Hf.
      assert (1 <= length (write_leb128 (zlen (elem e))))%nat.
      { pose proof (leb128_roundtrip (zlen (elem e)) [] ltac:(lia)) as Hrt. rewrite app_nil_r in Hrt.
        apply read_leb128_bounds in Hrt.
        destruct (write_leb128 (zlen (elem e))); [change (zlen (@nil Z)) with 0 in Hrt; lia|cbn [length]; lia]. }
      lia. }
    exists k'. rewrite Hrun. cbn [map concat]. unfold delivered. rewrite <- !app_assoc. reflexivity.
Qed.

Definition enc_packet0 (n : bool) (es : list sobu) : list Z := (if n then 8 else 0) :: prefix_bytes es.

Theorem depack_unfragmented_w0 st n es : es <> [] -> Forall wf_sobu es ->
  av1d_unmarshal st (Some (enc_packet0 n es))
  = (mkAv1Dep [] false false n, Ok (concat (map delivered es))).
Proof.
  intros Hne Hall. unfold enc_packet0, av1d_unmarshal.
  destruct es as [|e t]; [congruence|].
  pose proof (prefix_bytes_nonempty e t ltac:(apply Forall_cons_iff in Hall as [He _]; exact He)) as Hpn.
  remember (prefix_bytes (e :: t)) as pb eqn:Epb. destruct pb as [|x l']; [congruence|].
  rewrite Epb in *. clear Epb x l'.
  assert (Hflags : forall b : bool, (Z.land 128 (if b then 8 else 0) =? 0) = true /\ (Z.land 64 (if b then 8 else 0) =? 0) = true /\
                   Z.shiftr (Z.land 48 (if b then 8 else 0)) 4 = 0 /\ negb (Z.land 8 (if b then 8 else 0) =? 0) = b)
    by (intros [|]; repeat split; reflexivity).
  destruct (Hflags n) as (Hz & Hy & Hc & Hn). rewrite Hz, Hy, Hc, Hn. cbn [negb andb].
  assert (Hbuf : (if 0 <? zlen (if n then [] else ad_buffer st) then [] else (if n then [] else ad_buffer st)) = []).
  { destruct (0 <? zlen (if n then [] else ad_buffer st)) eqn:E; [reflexivity|].
    apply zlen_zero. pose proof (zlen_nonneg (if n then [] else ad_buffer st)). lia. }
  rewrite Hbuf.
  destruct (av1d_loop_w0 (e :: t) (S (length (prefix_bytes (e :: t)))) 0 [] [] ltac:(discriminate) Hall ltac:(lia)) as (k' & Hrun).
  rewrite Hrun. cbn [app]. change (0 =? 0) with true. cbn [negb andb]. reflexivity.
Qed.
