(* C08, H265: every MTU, every input, every payloader option - no panic (the aggregation packet
   is built into a buffer of exactly the size that was accumulated), every packet owned and
   1..MTU bytes. *)
From Coq Require Import ZArith List Lia Bool.
From Coq Require Import ZifyBool.
From RTP Require Import Base.Bits Base.Res Base.ListX Base.Own Base.Bytes Base.Tactics
  Model.AnnexB Model.H265 Proofs.C10_H264 Proofs.C08_Mtu Proofs.C08_More.
Import ListNotations.
Open Scope Z_scope.

Definition dsz (donl : bool) (i : nat) : Z := if donl then (match i with O => 2 | S _ => 1 end) else 0.
Definition unit_len (donl : bool) (i : nat) (n : list Z) : Z := dsz donl i + 2 + zlen n.
Fixpoint usz (donl : bool) (i : nat) (ns : list (list Z)) : Z :=
  match ns with [] => 0 | n :: t => unit_len donl i n + usz donl (S i) t end.

Lemma usz_app donl : forall ns i n, usz donl i (ns ++ [n]) = usz donl i ns + unit_len donl (i + length ns) n.
Proof.
  induction ns as [|x ns IH]; intros i n; cbn [app usz length].
  - rewrite Nat.add_0_r. lia.
  - rewrite IH. replace (S i + length ns)%nat with (i + S (length ns))%nat by lia. lia.
Qed.

(* size the buffer has accumulated *)
Definition buf_size (donl : bool) (ns : list (list Z)) : Z :=
  match ns with
  | [] => 0
  | [n] => zlen n + 2 + (if donl then 2 else 0)
  | _ => 2 + usz donl 0 ns
  end.

Definition buf_ok (mtu : Z) (donl : bool) (b : h5buf) : Prop :=
  hb_size b = buf_size donl (hb_nalus b) /\ hb_size b <= mtu /\ Forall (fun n => 2 <= zlen n) (hb_nalus b).

Lemma buf_ok_empty mtu donl : 0 <= mtu -> buf_ok mtu donl (mkH5Buf [] 0).
Proof. intros H. repeat split; cbn; try lia. constructor. Qed.

Lemma zlen_units (donl : bool) (d : Z) : forall (ns : list (list Z)) (i : nat),
  zlen (concat (map (fun p : nat * list Z => let '(i, n) := p in
          ((if donl then (match i with O => put16 d | S j => [u8 (Z.of_nat j)] end) else [])
          ++ put16 (u16 (zlen n)) ++ n : list Z)) (combine (seq i (length ns)) ns))) = usz donl i ns.
Proof.
  induction ns as [|n ns IH]; intros i; [reflexivity|].
  cbn [length seq combine map concat usz]. rewrite zlen_app, IH. unfold unit_len, dsz.
  rewrite !zlen_app. unfold put16. destruct donl; [destruct i|]; cbn [app]; rewrite ?zlen_cons; change (zlen (@nil Z)) with 0; lia.
Qed.

Lemma h5_flush_ok mtu st b : buf_ok mtu (h5_donl_on st) b ->
  exists st' fs, h5_flush st b = Ok (st', fs) /\ frags_ok mtu fs /\
                 h5_donl_on st' = h5_donl_on st /\ h5_skip_agg st' = h5_skip_agg st.
Proof.
  intros (Hsz & Hle & Hall). unfold h5_flush.
  destruct (hb_nalus b) as [|n [|n2 t]] eqn:En.
  - exists st, []. repeat split; constructor.
  - apply Forall_cons_iff in Hall as [Hn _]. cbn [buf_size] in Hsz.
    destruct (h5_donl_on st) eqn:Ed.
    + destruct n as [|a [|c body]]; cbn [zlen length] in Hn; try (exfalso; rewrite ?zlen_cons in Hn; change (zlen (@nil Z)) with 0 in Hn; lia).
      eexists. eexists. split; [reflexivity|]. split; [|split; first [reflexivity | symmetry; assumption | assumption]].
      apply frags_ok_one. unfold put16. cbn [app]. rewrite !zlen_cons in *. pose proof (zlen_nonneg body). lia.
    + exists st, [Own n]. split; [reflexivity|]. split; [|split; first [reflexivity | symmetry; assumption | assumption]]. apply frags_ok_one. lia.
  - cbn [buf_size] in Hsz.
    set (ns := n :: n2 :: t) in *.
    match goal with |- context [if hb_size b <? zlen ?c then _ else _] => set (content := c) end.
    assert (Hc : zlen content = hb_size b).
    { unfold content. rewrite zlen_app. unfold put16 at 1. cbn [zlen length Z.of_nat].
      rewrite (zlen_units (h5_donl_on st) (h5_donl st) ns 0). rewrite Hsz. change (Z.of_nat 2) with 2. lia. }
    rewrite Hc, Z.ltb_irrefl, Z.sub_diag. cbn [Z.to_nat repeat]. rewrite app_nil_r.
    exists st. eexists. split; [reflexivity|]. split; [|split; first [reflexivity | symmetry; assumption | assumption]].
    apply frags_ok_one. rewrite Hc. split; [|exact Hle]. rewrite Hsz.
    unfold ns. cbn [usz]. unfold unit_len, dsz. pose proof (zlen_nonneg n). pose proof (zlen_nonneg n2).
    assert (0 <= usz (h5_donl_on st) 2 t).
    { clear. generalize 2%nat. induction t as [|x t IH]; intros i; cbn [usz]; [lia|].
      specialize (IH (S i)). unfold unit_len, dsz. pose proof (zlen_nonneg x). destruct (h5_donl_on st); [destruct i|]; lia. }
    destruct (h5_donl_on st); lia.
Qed.

Lemma h5_fus_ok : forall fuel st maxf h0 h1 ty total rest, 1 <= maxf -> (length rest < fuel)%nat ->
  exists st' fs, h5_fus fuel st maxf h0 h1 ty total rest = Ok (st', fs) /\
                 frags_ok (maxf + 3 + (if h5_donl_on st then 2 else 0)) fs /\
                 h5_donl_on st' = h5_donl_on st /\ h5_skip_agg st' = h5_skip_agg st.
Proof.
  induction fuel as [|fuel IH]; intros st maxf h0 h1 ty total rest Hm Hf; [lia|].
  cbn [h5_fus]. pose proof (zlen_nonneg rest) as Hr.
  destruct (zlen rest <=? 0) eqn:E0; [exists st, []; repeat split; constructor|].
  set (cur := if maxf <? zlen rest then maxf else zlen rest).
  assert (Hcur : 1 <= cur <= zlen rest /\ cur <= maxf) by (unfold cur; destruct (maxf <? zlen rest) eqn:?; lia).
  rewrite (slice_take rest cur) by lia. rewrite (slice_drop rest cur) by lia.
  assert (Hd : (length (drop cur rest) < fuel)%nat).
  { pose proof (drop_zlen cur rest ltac:(lia)) as Hz. unfold zlen in *. lia. }
  destruct (h5_donl_on st) eqn:Ed.
  - destruct (IH (mkH265Pay true (h5_skip_agg st) (u16 (h5_donl st + 1))) maxf h0 h1 ty total (drop cur rest) Hm Hd)
      as (st2 & fs & Hrun & Hok & Hf1 & Hf2).
    rewrite Hrun. exists st2. eexists. split; [reflexivity|]. split; [|split; [exact Hf1|exact Hf2]].
    apply frags_ok_cons; [|exact Hok]. unfold put16. cbn [app]. rewrite !zlen_cons, take_zlen by lia. lia.
  - destruct (IH st maxf h0 h1 ty total (drop cur rest) Hm Hd) as (st2 & fs & Hrun & Hok & Hf1 & Hf2).
    rewrite Hrun. exists st2. eexists. split; [reflexivity|]. rewrite Ed in *.
    split; [|split; [exact Hf1|exact Hf2]].
    apply frags_ok_cons; [|exact Hok]. rewrite !zlen_cons, take_zlen by lia. lia.
Qed.

Lemma buf_ok_add mtu donl b nalu m : buf_ok mtu donl b -> 2 <= zlen nalu ->
  m = (let m0 := if zlen (hb_nalus b) =? 1 then zlen nalu + 4 else zlen nalu + 2 in
       if donl then (if zlen (hb_nalus b) =? 0 then m0 + 2 else m0 + 1) else m0) ->
  hb_size b + m <= mtu ->
  buf_ok mtu donl (mkH5Buf (hb_nalus b ++ [nalu]) (hb_size b + m)).
Proof.
  intros (Hsz & Hle & Hall) Hn Hm Hfit. split; [|split].
  - cbn [hb_size hb_nalus]. rewrite Hsz, Hm. clear Hm Hfit.
    destruct (hb_nalus b) as [|n1 [|n2 t]].
    + change (zlen (@nil (list Z))) with 0. cbn [app buf_size Z.eqb]. destruct donl; lia.
    + change (zlen [n1]) with 1. cbn [app buf_size usz Z.eqb Pos.eqb]. unfold unit_len, dsz. destruct donl; lia.
    + change ((n1 :: n2 :: t) ++ [nalu]) with (n1 :: n2 :: (t ++ [nalu])).
      cbn [buf_size]. change (n1 :: n2 :: (t ++ [nalu])) with ((n1 :: n2 :: t) ++ [nalu]).
      rewrite usz_app. unfold unit_len, dsz. rewrite !zlen_cons. cbn [length Nat.add].
      pose proof (zlen_nonneg t).
      replace (1 + (1 + zlen t) =? 1) with false by lia. replace (1 + (1 + zlen t) =? 0) with false by lia.
      destruct donl; lia.
  - cbn [hb_size]. exact Hfit.
  - cbn [hb_nalus]. apply Forall_app. split; [exact Hall|constructor; [exact Hn|constructor]].
Qed.

Lemma h5_nalu_ok mtu st b nalu : 0 <= mtu -> buf_ok mtu (h5_donl_on st) b ->
  exists st' b' fs, h5_nalu mtu st b nalu = Ok (st', b', fs) /\ frags_ok mtu fs /\
                    buf_ok mtu (h5_donl_on st') b' /\
                    h5_donl_on st' = h5_donl_on st /\ h5_skip_agg st' = h5_skip_agg st.
Proof.
  intros Hm Hb. unfold h5_nalu.
  destruct (zlen nalu <? 2) eqn:E2; [exists st, b, []; repeat split; auto; try constructor; apply Hb|].
  destruct (zlen nalu + 2 + (if h5_donl_on st then 2 else 0) <=? mtu) eqn:Efit.
  - set (m := h5_marginal st b nalu).
    destruct (mtu <? hb_size b + m) eqn:Eov.
    + (* flush first, then start a new buffer with this unit *)
      destruct (h5_flush_ok mtu st b Hb) as (st1 & out1 & Hfl & Hok1 & Hd1 & Hs1). rewrite Hfl.
      pose proof (buf_ok_add mtu (h5_donl_on st1) (mkH5Buf [] 0) nalu (h5_marginal st1 (mkH5Buf [] 0) nalu)
                    (buf_ok_empty mtu _ Hm) ltac:(lia) eq_refl) as Hb2.
      cbn [hb_nalus hb_size app] in Hb2.
      assert (Hfit2 : 0 + h5_marginal st1 (mkH5Buf [] 0) nalu <= mtu).
      { unfold h5_marginal. cbn [hb_nalus]. change (zlen (@nil (list Z))) with 0. cbn. rewrite Hd1.
        destruct (h5_donl_on st); lia. }
      specialize (Hb2 Hfit2). cbn [hb_nalus hb_size app].
      destruct (h5_skip_agg st1) eqn:Esk.
      * destruct (h5_flush_ok mtu st1 _ Hb2) as (st2 & out2 & Hfl2 & Hok2 & Hd2 & Hs2). rewrite Hfl2.
        exists st2, (mkH5Buf [] 0), (out1 ++ out2). split; [reflexivity|].
        split; [apply frags_ok_app; assumption|]. split; [apply buf_ok_empty; exact Hm|]. split; congruence.
      * exists st1. eexists. exists out1. split; [reflexivity|]. split; [exact Hok1|]. split; [exact Hb2|]. split; congruence.
    + pose proof (buf_ok_add mtu (h5_donl_on st) b nalu (h5_marginal st b nalu) Hb ltac:(lia) eq_refl ltac:(fold m; lia)) as Hb2.
      destruct (h5_skip_agg st) eqn:Esk.
      * destruct (h5_flush_ok mtu st _ Hb2) as (st2 & out2 & Hfl2 & Hok2 & Hd2 & Hs2). rewrite Hfl2.
        exists st2, (mkH5Buf [] 0), out2. split; [reflexivity|].
        split; [exact Hok2|]. split; [apply buf_ok_empty; exact Hm|]. split; congruence.
      * exists st. eexists. exists []. split; [reflexivity|]. split; [apply frags_ok_nil|]. split; [exact Hb2|]. split; congruence.
  - destruct nalu as [|h0 [|h1 body]]; try (exfalso; rewrite ?zlen_cons in E2; change (zlen (@nil Z)) with 0 in E2; lia).
    set (maxf := mtu - (3 + (if h5_donl_on st then 2 else 0))).
    pose proof (zlen_nonneg body) as Hb0.
    destruct (zlen body =? 0) eqn:Ez.
    { exists st, b, []. split; [reflexivity|]. split; [apply frags_ok_nil|]. split; [exact Hb|]. split; reflexivity. }
    destruct (zlen body <=? maxf + 1) eqn:Eone.
    { (* the unit fits a single NAL unit packet *)
      destruct (h5_flush_ok mtu st b Hb) as (st1 & out1 & Hfl & Hok1 & Hd1 & Hs1). rewrite Hfl.
      assert (Hlen : 1 <= zlen body <= maxf + 1) by lia.
      unfold h5_flush. cbn [hb_nalus].
      destruct (h5_donl_on st1) eqn:Ed1.
      - eexists. exists (mkH5Buf [] 0). eexists. split; [reflexivity|].
        split; [apply frags_ok_app; [exact Hok1|]|].
        + assert (Hds : h5_donl_on st = true) by congruence. unfold maxf in Hlen. rewrite Hds in Hlen.
          apply frags_ok_one. unfold put16. cbn [app]. rewrite !zlen_cons. lia.
        + split; [apply buf_ok_empty; exact Hm|]. cbn [h5_donl_on h5_skip_agg]. split; congruence.
      - exists st1, (mkH5Buf [] 0). eexists. split; [reflexivity|].
        split; [apply frags_ok_app; [exact Hok1|]|].
        + assert (Hds : h5_donl_on st = false) by congruence. unfold maxf in Hlen. rewrite Hds in Hlen.
          apply frags_ok_one. rewrite !zlen_cons. lia.
        + split; [apply buf_ok_empty; exact Hm|]. split; congruence. }
    destruct (maxf <=? 0) eqn:Eskip.
    { exists st, b, []. split; [reflexivity|]. split; [apply frags_ok_nil|]. split; [exact Hb|]. split; reflexivity. }
    destruct (h5_flush_ok mtu st b Hb) as (st1 & out1 & Hfl & Hok1 & Hd1 & Hs1). rewrite Hfl.
    destruct (h5_fus_ok (S (length body)) st1 maxf h0 h1 (nh_type (Z.lor (Z.shiftl h0 8) h1)) (zlen body) body
                ltac:(lia) ltac:(lia)) as (st2 & out2 & Hrun & Hok2 & Hd2 & Hs2).
    rewrite Hrun. exists st2, (mkH5Buf [] 0), (out1 ++ out2). split; [reflexivity|].
    split; [apply frags_ok_app; [exact Hok1|]|].
    + rewrite Hd1 in Hok2. replace mtu with (maxf + 3 + (if h5_donl_on st then 2 else 0)) at 1 by (unfold maxf; lia).
      exact Hok2.
    + split; [apply buf_ok_empty; exact Hm|]. split; congruence.
Qed.

Lemma h5_nalus_ok mtu : 0 <= mtu -> forall nalus st b, buf_ok mtu (h5_donl_on st) b ->
  exists st' b' fs, h5_nalus mtu st b nalus = Ok (st', b', fs) /\ frags_ok mtu fs /\ buf_ok mtu (h5_donl_on st') b'.
Proof.
  intros Hm. induction nalus as [|n t IH]; intros st b Hb; cbn [h5_nalus].
  - exists st, b, []. split; [reflexivity|]. split; [apply frags_ok_nil|exact Hb].
  - destruct (h5_nalu_ok mtu st b n Hm Hb) as (st1 & b1 & o1 & H1 & Hok1 & Hb1 & _ & _). rewrite H1.
    destruct (IH st1 b1 Hb1) as (st2 & b2 & o2 & H2 & Hok2 & Hb2). rewrite H2.
    exists st2, b2, (o1 ++ o2). split; [reflexivity|]. split; [apply frags_ok_app; assumption|exact Hb2].
Qed.

Theorem h265_frags_ok st mtu p : 0 <= mtu ->
  exists st' fs, h265_payload st mtu p = Ok (st', fs) /\ frags_ok mtu fs.
Proof.
  intros Hm. unfold h265_payload.
  destruct p as [[|x l]|]; try (exists st, []; split; [reflexivity|apply frags_ok_nil]).
  destruct (mtu =? 0); [exists st, []; split; [reflexivity|apply frags_ok_nil]|].
  destruct (h5_nalus_ok mtu Hm (emit_nalus (x :: l)) st (mkH5Buf [] 0) (buf_ok_empty mtu _ Hm))
    as (st1 & b1 & o1 & H1 & Hok1 & Hb1). rewrite H1.
  destruct (h5_flush_ok mtu st1 b1 Hb1) as (st2 & o2 & H2 & Hok2 & _ & _). rewrite H2.
  exists st2, (o1 ++ o2). split; [reflexivity|apply frags_ok_app; assumption].
Qed.
