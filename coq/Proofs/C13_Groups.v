(* C13, the packetization rules that are about which OBUs may share a packet: the OBU walk cuts the
   input into groups - a new group at every temporal delimiter, every sequence header and every OBU
   whose extension header carries layer ids different from those remembered for the group - and the
   packets of different groups are disjoint: the output is the concatenation, group by group, of
   self-contained packet runs (first Z = 0, last Y = 0) that carry exactly the group's OBUs. *)
From Coq Require Import ZArith List Lia Bool.
From Coq Require Import ZifyBool.
From RTP Require Import Base.Bits Base.Res Base.ListX Base.Tactics Model.Leb128 Model.Obu Model.Av1Pay
  Spec.Av1Rtp Proofs.Leb128Proofs Proofs.C13_Obu Proofs.C08_Av1 Proofs.C15_Av1 Proofs.C13_Stream Proofs.C13_PayStream
  Proofs.C13_Lossless.
Import ListNotations.
Open Scope Z_scope.

(* ---- frame: the payloader only ever touches the newest packet ---- *)
Definition lift (old : list (list Z)) (r : res (list (list Z) * Z)) : res (list (list Z) * Z) :=
  match r with Ok (ps, c) => Ok (ps ++ old, c) | Err e => Err e | Panic => Panic end.

Lemma lift_nil r : lift [] r = r.
Proof. destruct r as [[ps c]| |]; cbn [lift]; rewrite ?app_nil_r; reflexivity. Qed.

Lemma frag_loop_frame : forall fuel pays old obu pw is_last mtu c, pays <> [] ->
  frag_loop fuel (pays ++ old) obu pw is_last mtu c = lift old (frag_loop fuel pays obu pw is_last mtu c).
Proof.
  induction fuel as [|f IH]; intros pays old obu pw is_last mtu c Hne; [reflexivity|].
  destruct pays as [|p t]; [congruence|]. cbn [frag_loop app].
  destruct (zlen obu <=? 0); [reflexivity|].
  destruct (is_last || (mtu - 1 <=? zlen obu)).
  - destruct (checked_take _ obu) as [[a b]|]; [|reflexivity].
    rewrite !app_comm_cons. apply IH. discriminate.
  - destruct (checked_take _ obu) as [[a b]|]; [|reflexivity].
    rewrite !app_comm_cons. apply IH. discriminate.
Qed.

Lemma append_obu_frame pays old obu ns is_last start mtu c : pays <> [] ->
  append_obu (pays ++ old) obu ns is_last start mtu c = lift old (append_obu pays obu ns is_last start mtu c).
Proof.
  intros Hne. destruct pays as [|p t]; [congruence|]. unfold append_obu. cbn [app].
  destruct ((mtu - zlen p <=? 0) || start).
  - cbv iota beta zeta.
    match goal with |- context [if ?b then _ else _] => destruct b end.
    + destruct (checked_take _ obu) as [[a b]|]; [|reflexivity].
      rewrite !app_comm_cons. apply frag_loop_frame. discriminate.
    + case_if.
      * destruct (checked_take _ obu) as [[a b]|]; [|reflexivity].
        rewrite !app_comm_cons. apply frag_loop_frame. discriminate.
      * rewrite !app_comm_cons. apply frag_loop_frame. discriminate.
  - cbv iota beta zeta.
    match goal with |- context [if ?b then _ else _] => destruct b end.
    + destruct (checked_take _ obu) as [[a b]|]; [|reflexivity].
      rewrite !app_comm_cons. apply frag_loop_frame. discriminate.
    + case_if.
      * destruct (checked_take _ obu) as [[a b]|]; [|reflexivity].
        rewrite !app_comm_cons. apply frag_loop_frame. discriminate.
      * rewrite !app_comm_cons. apply frag_loop_frame. discriminate.
Qed.

(* after a "new packet" decision the packets already emitted are a mere suffix *)
Lemma append_obu_sealed old obu ns is_last mtu c c' :
  append_obu old obu ns is_last true mtu c = lift old (append_obu [] obu ns is_last true mtu c').
Proof.
  destruct old as [|p t]; [rewrite lift_nil; reflexivity|].
  unfold append_obu. rewrite orb_true_r. cbv iota beta zeta.
  match goal with |- context [if ?b then _ else _] => destruct b end.
  - destruct (checked_take _ obu) as [[a b]|]; [|reflexivity].
    change (?x :: p :: t) with ([x] ++ p :: t). apply frag_loop_frame. discriminate.
  - case_if.
    + destruct (checked_take _ obu) as [[a b]|]; [|reflexivity].
      change (?x :: p :: t) with ([x] ++ p :: t). apply frag_loop_frame. discriminate.
    + change (?x :: p :: t) with ([x] ++ p :: t). apply frag_loop_frame. discriminate.
Qed.

(* ---- one step of the OBU walk on a sized OBU ---- *)
Definition need_of (c : option (Z * Z)) (o : iobu) : bool :=
  if (io_type o =? 2) || (io_type o =? 1) then true else
  match io_ext o, c with
  | Some (t, s, _), Some (ct, cs) => negb (s =? cs) || negb (t =? ct)
  | _, _ => false
  end.

Definition next_cur (c : option (Z * Z)) (o : iobu) : option (Z * Z) :=
  match io_ext o with Some (t, s, _) => Some (t, s) | None => if need_of c o then None else c end.

Definition after_obu (st2 : pst) (o : iobu) : pst :=
  let st2' := with_cur st2 (match io_ext o with Some (t, s, _) => Some (t, s) | None => cur st2 end) in
  if (io_type o =? 8) || (io_type o =? 2) then st2'
  else {| pays := pays st2'; pending := io_elem o; cur := cur st2'; cnt := cnt st2';
          new_seq := (io_type o =? 1); start_new := start_new st2' |}.

Lemma pay_loop_step fuel mtu o rest st : wf_iobu o ->
  pay_loop (S fuel) mtu (io_bytes true o ++ rest) st =
  match flush_pending mtu st (need_of (cur st) o) with
  | Ok st2 => pay_loop fuel mtu rest (after_obu st2 o)
  | Err e => Err e
  | Panic => Panic
  end.
Proof.
  intros Hw. pose proof Hw as [Hr Hb].
  cbn [pay_loop]. unfold io_bytes. rewrite <- !app_assoc.
  destruct (obu_parse_marshal (io_hdr o true) (write_leb128 (zlen (io_body o)) ++ io_body o ++ rest) Hr) as [Hp Hz].
  remember (obu_hdr_marshal (io_hdr o true) ++ write_leb128 (zlen (io_body o)) ++ io_body o ++ rest) as inp eqn:Ei.
  destruct inp as [|x l'].
  { exfalso. symmetry in Ei. apply app_eq_nil in Ei as [Ei _]. rewrite Ei in Hz. change (zlen (@nil Z)) with 0 in Hz.
    pose proof (obu_hdr_size_pos (io_hdr o true)). lia. }
  rewrite Ei in *. clear Ei x l'. rewrite Hp. cbn [ohas_size io_hdr].
  change (obu_hdr_size {| otype := io_type o; oext := io_ext o; ohas_size := true; ores1 := io_res1 o |})
    with (obu_hdr_size (io_hdr o true)).
  rewrite <- Hz, drop_app_exact.
  pose proof (zlen_nonneg (io_body o)) as Hb0.
  rewrite (leb128_roundtrip (zlen (io_body o)) (io_body o ++ rest) ltac:(lia)). rewrite drop_app_exact.
  change (otype (io_hdr o true)) with (io_type o). change (oext (io_hdr o true)) with (io_ext o).
  change (ores1 (io_hdr o true)) with (io_res1 o).
  rewrite zlen_app. pose proof (zlen_nonneg rest).
  replace (zlen (io_body o) + zlen rest <? zlen (io_body o)) with false by lia.
  rewrite take_app_exact, drop_app_exact.
  unfold need_of.
  destruct (flush_pending mtu st _) as [st2|e|]; try reflexivity.
  unfold after_obu. fold (io_hdr o false). fold (io_elem o).
  destruct ((io_type o =? 8) || (io_type o =? 2)); reflexivity.
Qed.

(* ---- the groups of the walk, as a function of the OBU list alone ---- *)
Fixpoint walk (c : option (Z * Z)) (acc : list iobu) (fin : list (list iobu)) (obus : list iobu)
  : list (list iobu) * list iobu * option (Z * Z) :=
  match obus with
  | [] => (fin, acc, c)
  | o :: t => if need_of c o then walk (next_cur c o) [o] (fin ++ [rev acc]) t
              else walk (next_cur c o) (o :: acc) fin t
  end.

Definition groups (obus : list iobu) : list (list iobu) :=
  let '(fin, acc, _) := walk None [] [] obus in fin ++ [rev acc].

Lemma walk_app : forall a b c acc fin,
  walk c acc fin (a ++ b) = let '(f1, a1, c1) := walk c acc fin a in walk c1 a1 f1 b.
Proof.
  induction a as [|o t IH]; intros b c acc fin; [reflexivity|].
  cbn [app walk]. destruct (need_of c o); apply IH.
Qed.

(* a finished group and its packets: a self-contained run carrying exactly the group's OBUs *)
Definition grp_ok (mtu : Z) (g : list iobu) (pks : list spk) : Prop :=
  Forall (ok_pk mtu) pks /\ chained false pks /\ last_y pks = false /\
  glue_z pks = rev (map io_elem (filter transmitted g)).

Definition ginv (mtu : Z) (st : pst) (done : list (list spk)) (sent : list (list Z)) : Prop :=
  exists pks, pays st = bytes_of pks ++ bytes_of (concat done) /\ sinv mtu (cnt st) (start_new st) pks /\
    pend (pending st) (glue_z pks) = sent /\ (pks = [] -> done <> [] -> start_new st = true).

Lemma sinv_nil mtu c s : sinv mtu c s [].
Proof. split; [constructor|]. split; [exact I|]. split; [reflexivity|exact I]. Qed.

Lemma append_g mtu pks done obu ns is_last s c ps c' : 2 <= mtu < 2097152 -> obu <> [] ->
  sinv mtu c s pks -> (pks = [] -> done <> [] -> s = true) ->
  append_obu (bytes_of pks ++ bytes_of (concat done)) obu ns is_last s mtu c = Ok (ps, c') ->
  exists pks', ps = bytes_of pks' ++ bytes_of (concat done) /\ pks' <> [] /\ sinv mtu c' is_last pks' /\
    glue_z pks' = obu :: glue_z pks.
Proof.
  intros Hm Hobu Hs Hseal Hrun.
  destruct pks as [|p0 pt].
  - change (bytes_of []) with (@nil (list Z)) in Hrun. cbn [app] in Hrun.
    destruct (bytes_of (concat done)) as [|b bt] eqn:Eold.
    + destruct (append_obu_s [] obu ns is_last s mtu c ps c' Hm Hobu Hrun Hs) as (pks' & H1 & H2 & H3 & H4).
      exists pks'. rewrite app_nil_r. auto.
    + assert (Hd : done <> []) by (intros ->; discriminate).
      rewrite (Hseal eq_refl Hd) in *. rewrite (append_obu_sealed (b :: bt) obu ns is_last mtu c c) in Hrun.
      destruct (append_obu [] obu ns is_last true mtu c) as [[ps0 c0]|e|] eqn:Ea; cbn [lift] in Hrun; try discriminate.
      injection Hrun as <- <-.
      destruct (append_obu_s [] obu ns is_last true mtu c ps0 c0 Hm Hobu Ea Hs) as (pks' & H1 & H2 & H3 & H4).
      exists pks'. rewrite H1. auto.
  - assert (Hne : bytes_of (p0 :: pt) <> []) by (intros H; apply bytes_of_nil_iff in H; discriminate).
    rewrite (append_obu_frame _ _ _ _ _ _ _ _ Hne) in Hrun.
    destruct (append_obu (bytes_of (p0 :: pt)) obu ns is_last s mtu c) as [[ps0 c0]|e|] eqn:Ea; cbn [lift] in Hrun; try discriminate.
    injection Hrun as <- <-.
    destruct (append_obu_s (p0 :: pt) obu ns is_last s mtu c ps0 c0 Hm Hobu Ea Hs) as (pks' & H1 & H2 & H3 & H4).
    exists pks'. rewrite H1. auto.
Qed.

Lemma flush_g mtu st need st' done sent : 2 <= mtu < 2097152 -> flush_pending mtu st need = Ok st' -> ginv mtu st done sent ->
  exists pks, pays st' = bytes_of pks ++ bytes_of (concat done) /\ sinv mtu (cnt st') (start_new st') pks /\
    glue_z pks = sent /\ pending st' = [] /\ (need = true -> start_new st' = true) /\
    (pks = [] -> done <> [] -> start_new st' = true) /\ cur st' = (if need then None else cur st).
Proof.
  intros Hm Hf (pks & Hp & Hs & Hg & Hseal). unfold flush_pending in Hf. destruct (pending st) as [|x pe] eqn:Epe.
  - cbn [pend] in Hg. destruct need; injection Hf as <-; cbn [pays cnt start_new pending cur].
    + exists pks. split; [exact Hp|]. split; [eapply sinv_seal; exact Hs|]. split; [exact Hg|]. split; [reflexivity|].
      split; [reflexivity|]. split; [reflexivity|reflexivity].
    + exists pks. rewrite Epe. split; [exact Hp|]. split; [exact Hs|]. split; [exact Hg|]. split; [reflexivity|].
      split; [intros H; discriminate H|]. split; [exact Hseal|reflexivity].
  - rewrite Hp in Hf.
    destruct (append_obu (bytes_of pks ++ bytes_of (concat done)) (x :: pe) (new_seq st) need (start_new st) mtu (cnt st))
      as [[ps c]|e|] eqn:Ea; try discriminate.
    injection Hf as <-. cbn [pays cnt start_new pending cur].
    destruct (append_g mtu pks done (x :: pe) (new_seq st) need (start_new st) (cnt st) ps c Hm ltac:(discriminate) Hs Hseal Ea)
      as (pks' & Hp' & Hne' & Hs' & Hg').
    exists pks'. split; [exact Hp'|]. split; [exact Hs'|]. split; [rewrite Hg'; cbn [pend] in Hg; exact Hg|].
    split; [reflexivity|]. split; [auto|]. split; [intros H; congruence|reflexivity].
Qed.

Lemma bytes_of_app a b : bytes_of (a ++ b) = bytes_of b ++ bytes_of a.
Proof. unfold bytes_of. rewrite map_app, rev_app_distr. reflexivity. Qed.

Lemma filter_rev {A} (f : A -> bool) (l : list A) : filter f (rev l) = rev (filter f l).
Proof.
  induction l as [|x t IH]; [reflexivity|]. cbn [rev filter]. rewrite filter_app, IH. cbn [filter].
  destruct (f x); cbn [rev]; rewrite ?app_nil_r; reflexivity.
Qed.

Lemma sent_rev acc : map io_elem (filter transmitted acc) = rev (map io_elem (filter transmitted (rev acc))).
Proof. rewrite filter_rev, map_rev, rev_involutive. reflexivity. Qed.

(* one OBU of the input, whatever its framing: the pending OBU is flushed and the new one is held *)
Lemma group_step mtu st st2 o done fin acc : 2 <= mtu < 2097152 -> wf_iobu o ->
  flush_pending mtu st (need_of (cur st) o) = Ok st2 ->
  ginv mtu st done (map io_elem (filter transmitted acc)) -> Forall2 (grp_ok mtu) fin done ->
  exists done',
    ginv mtu (after_obu st2 o) done' (map io_elem (filter transmitted (if need_of (cur st) o then [o] else o :: acc))) /\
    Forall2 (grp_ok mtu) (if need_of (cur st) o then fin ++ [rev acc] else fin) done' /\
    cur (after_obu st2 o) = next_cur (cur st) o.
Proof.
  intros Hm Hw Ef Hj Hdone.
  destruct (flush_g _ _ _ _ _ _ Hm Ef Hj) as (pks & Hp & Hs & Hg & Hpe & Hneed & Hseal & Hcur).
  assert (Hc1 : cur (after_obu st2 o) = next_cur (cur st) o).
  { unfold after_obu, next_cur, with_cur. destruct ((io_type o =? 8) || (io_type o =? 2)); cbn [cur];
      rewrite Hcur; destruct (io_ext o) as [[[te se] xe]|]; reflexivity. }
  assert (Hfields : pays (after_obu st2 o) = pays st2 /\ cnt (after_obu st2 o) = cnt st2 /\
                    start_new (after_obu st2 o) = start_new st2 /\
                    pending (after_obu st2 o) = (if transmitted o then io_elem o else [])).
  { unfold after_obu, with_cur, transmitted.
    destruct ((io_type o =? 8) || (io_type o =? 2)) eqn:Et; cbn [pays cnt start_new pending].
    - replace ((io_type o =? 2) || (io_type o =? 8)) with true by lia. cbn [negb]. auto.
    - replace ((io_type o =? 2) || (io_type o =? 8)) with false by lia. cbn [negb]. auto. }
  destruct Hfields as (Fp & Fc & Fs & Fpe).
  assert (Hpend : forall g, pend (pending (after_obu st2 o)) g = (if transmitted o then io_elem o :: g else g)).
  { intros g. rewrite Fpe. destruct (transmitted o); [|reflexivity].
    pose proof (io_elem_nonempty o Hw) as Hne. destruct (io_elem o); [congruence|reflexivity]. }
  destruct (need_of (cur st) o) eqn:En.
  - (* the group is finished *)
    exists (done ++ [pks]). split; [|split; [|exact Hc1]].
    + exists []. rewrite Fp, Fc, Fs. split.
      { rewrite Hp. rewrite concat_app. cbn [concat]. rewrite app_nil_r, bytes_of_app. reflexivity. }
      split; [apply sinv_nil|]. split.
      { rewrite Hpend. change (glue_z []) with (@nil (list Z)). cbn [filter]. destruct (transmitted o); reflexivity. }
      intros _ _. apply Hneed. reflexivity.
    + apply Forall2_app; [exact Hdone|]. constructor; [|constructor].
      destruct Hs as (A & B & C & _). split; [exact A|]. split; [exact B|]. split; [exact C|].
      rewrite Hg. apply sent_rev.
  - exists done. split; [|split; [exact Hdone|exact Hc1]].
    exists pks. rewrite Fp, Fc, Fs. split; [exact Hp|]. split; [exact Hs|]. split; [|exact Hseal].
    rewrite Hpend, Hg. cbn [filter]. destruct (transmitted o); reflexivity.
Qed.

Lemma pay_loop_groups mtu : 2 <= mtu < 2097152 -> forall obus fuel st done fin acc st' tl,
  Forall wf_iobu obus -> (length obus < fuel)%nat ->
  pay_loop fuel mtu (stream obus ++ tl) st = Ok st' ->
  ginv mtu st done (map io_elem (filter transmitted acc)) -> Forall2 (grp_ok mtu) fin done ->
  let '(fin', acc', c') := walk (cur st) acc fin obus in
  exists st1 done', pay_loop (fuel - length obus) mtu tl st1 = Ok st' /\ cur st1 = c' /\
    ginv mtu st1 done' (map io_elem (filter transmitted acc')) /\ Forall2 (grp_ok mtu) fin' done'.
Proof.
  intros Hm. induction obus as [|o t IH]; intros fuel st done fin acc st' tl Hall Hf Hrun Hj Hdone.
  - cbn [stream map concat app length walk] in *. rewrite Nat.sub_0_r. exists st, done. auto.
  - destruct fuel; [cbn [length] in Hf; lia|].
    apply Forall_cons_iff in Hall as [Hw Hall].
    change (stream (o :: t) ++ tl) with ((io_bytes true o ++ stream t) ++ tl) in Hrun. rewrite <- app_assoc in Hrun.
    rewrite (pay_loop_step fuel mtu o (stream t ++ tl) st Hw) in Hrun.
    destruct (flush_pending mtu st (need_of (cur st) o)) as [st2|e|] eqn:Ef; try discriminate.
    destruct (group_step mtu st st2 o done fin acc Hm Hw Ef Hj Hdone) as (done1 & Hj1 & Hd1 & Hc1).
    cbn [walk length]. change (S fuel - S (length t))%nat with (fuel - length t)%nat.
    specialize (IH fuel (after_obu st2 o) done1 (if need_of (cur st) o then fin ++ [rev acc] else fin)
                  (if need_of (cur st) o then [o] else o :: acc) st' tl Hall ltac:(cbn [length] in Hf; lia) Hrun Hj1 Hd1).
    rewrite Hc1 in IH. destruct (need_of (cur st) o); exact IH.
Qed.

(* ---- the whole Payload call ---- *)
Lemma ginv_init mtu : ginv mtu {| pays := []; pending := []; cur := None; cnt := 0; new_seq := false; start_new := false |} [] [].
Proof.
  exists []. split; [reflexivity|]. split; [apply sinv_nil|]. split; [reflexivity|]. intros _ H. congruence.
Qed.

Lemma rev_bytes_of done pks : rev (bytes_of pks ++ bytes_of (concat done)) = map spk_bytes (concat (done ++ [pks])).
Proof.
  rewrite concat_app. cbn [concat]. rewrite app_nil_r. unfold bytes_of.
  rewrite rev_app_distr, !rev_involutive, map_app. reflexivity.
Qed.

(* what a group means on the wire, in the terms of the specification ([glue], driven by Z and Y) *)
Definition grp_spec (mtu : Z) (g : list iobu) (pks : list spk) : Prop :=
  chain_ok false pks /\ last_y pks = false /\ Forall (fun p => zlen (spk_bytes p) <= mtu) pks /\
  glue [] pks = (map io_elem (filter transmitted g), []).

Lemma grp_ok_spec mtu g pks : mtu < 2097152 -> grp_ok mtu g pks -> grp_spec mtu g pks.
Proof.
  intros Hm (Hok & Hch & Hly & Hg).
  split; [apply (chained_chain_ok mtu); [lia|exact Hok|exact Hch]|]. split; [exact Hly|].
  split; [eapply Forall_impl; [|exact Hok]; intros p [_ _ _ _ E]; exact E|].
  assert (Hne : Forall (fun p => sp_elems p <> [] /\ Forall (fun e => e <> []) (sp_elems p)) pks).
  { eapply Forall_impl; [|exact Hok]. intros p [A B _ _ _]. split; assumption. }
  rewrite (glue_of_glue_z pks Hch Hly Hne), Hg, rev_involutive. reflexivity.
Qed.

Lemma finish_groups mtu st done fin acc : 2 <= mtu < 2097152 -> pst_ok mtu st ->
  ginv mtu st done (map io_elem (filter transmitted acc)) -> Forall2 (grp_ok mtu) fin done ->
  exists pkss,
    match pending st with
    | [] => Ok (rev (pays st))
    | pe => match append_obu (pays st) pe (new_seq st) true (start_new st) mtu (cnt st) with
            | Panic => Panic | Err e => Err e | Ok (ps, _) => Ok (rev ps) end
    end = Ok (map spk_bytes (concat pkss)) /\ Forall2 (grp_ok mtu) (fin ++ [rev acc]) pkss.
Proof.
  intros Hm Hok (pks & Hp & Hs & Hg & Hseal) Hdone.
  destruct (pending st) as [|x pe] eqn:Epe.
  - cbn [pend] in Hg. exists (done ++ [pks]). rewrite Hp, rev_bytes_of. split; [reflexivity|].
    apply Forall2_app; [exact Hdone|]. constructor; [|constructor].
    destruct Hs as (A & B & C & _). split; [exact A|]. split; [exact B|]. split; [exact C|].
    rewrite Hg. apply sent_rev.
  - unfold pst_ok in Hok.
    destruct (append_obu_ok (pays st) (x :: pe) (new_seq st) true (start_new st) mtu (cnt st) Hm Hok) as (ps & c & Ea & _).
    rewrite Ea. rewrite Hp in Ea.
    destruct (append_g mtu pks done (x :: pe) (new_seq st) true (start_new st) (cnt st) ps c Hm ltac:(discriminate) Hs Hseal Ea)
      as (pks' & Hp' & _ & Hs' & Hg').
    exists (done ++ [pks']). rewrite Hp', rev_bytes_of. split; [reflexivity|].
    apply Forall2_app; [exact Hdone|]. constructor; [|constructor].
    destruct Hs' as (A & B & C & _). split; [exact A|]. split; [exact B|]. split; [exact C|].
    rewrite Hg'. cbn [pend] in Hg. rewrite Hg. apply sent_rev.
Qed.

Theorem av1_payload_groups mtu obus : 2 <= mtu < 2097152 -> Forall wf_iobu obus ->
  exists pkss, av1_payload mtu (stream obus) = Ok (map spk_bytes (concat pkss)) /\
    Forall2 (grp_ok mtu) (groups obus) pkss.
Proof.
  intros Hm Hall.
  unfold av1_payload. replace (mtu <=? 1) with false by lia. cbn [orb].
  destruct (zlen (stream obus) =? 0) eqn:E0.
  { assert (obus = []).
    { destruct obus as [|o t]; [reflexivity|]. pose proof (stream_len (o :: t) Hall) as H. cbn [length] in H. unfold zlen in E0. lia. }
    subst obus. exists [[]]. split; [reflexivity|]. unfold groups. cbn [walk rev app].
    constructor; [|constructor]. split; [constructor|]. split; [exact I|]. split; reflexivity. }
  set (st0 := {| pays := []; pending := []; cur := None; cnt := 0; new_seq := false; start_new := false |}).
  destruct (pay_loop_ok (S (length (stream obus))) mtu (stream obus) st0 Hm ltac:(lia) ltac:(constructor)) as (st & El & Hok).
  rewrite El. pose proof (stream_len obus Hall) as Hsl.
  rewrite <- (app_nil_r (stream obus)) in El.
  pose proof (pay_loop_groups mtu Hm obus (S (length (stream obus ++ []))) st0 [] [] [] st [] Hall
                ltac:(rewrite app_nil_r; lia) El (ginv_init mtu) ltac:(constructor)) as Hw.
  change (cur st0) with (@None (Z * Z)) in Hw. unfold groups.
  destruct (walk None [] [] obus) as [[fin acc] c'].
  destruct Hw as (st1 & done & Hrun1 & _ & Hj1 & Hdone).
  remember (S (length (stream obus ++ [])) - length obus)%nat as f1 eqn:Ef1.
  destruct f1 as [|f1]; [rewrite app_nil_r in Ef1; lia|].
  cbn [pay_loop] in Hrun1. injection Hrun1 as <-.
  exact (finish_groups mtu st1 done fin acc Hm Hok Hj1 Hdone).
Qed.

(* the last OBU of the input without its size field *)
Lemma pay_loop_step_u fuel mtu o st : wf_iobu o ->
  pay_loop (S fuel) mtu (io_bytes false o) st =
  match flush_pending mtu st (need_of (cur st) o) with
  | Ok st2 => pay_loop fuel mtu [] (after_obu st2 o)
  | Err e => Err e
  | Panic => Panic
  end.
Proof.
  intros Hw. pose proof Hw as [Hr Hb].
  cbn [pay_loop]. unfold io_bytes. cbn [app].
  destruct (obu_parse_marshal (io_hdr o false) (io_body o) (io_range o false Hw)) as [Hp Hz].
  remember (obu_hdr_marshal (io_hdr o false) ++ io_body o) as inp eqn:Ei.
  destruct inp as [|x l'].
  { exfalso. symmetry in Ei. apply app_eq_nil in Ei as [Ei _]. rewrite Ei in Hz. change (zlen (@nil Z)) with 0 in Hz.
    pose proof (obu_hdr_size_pos (io_hdr o false)). lia. }
  rewrite Ei in *. clear Ei x l'. rewrite Hp. cbn [ohas_size io_hdr].
  change (obu_hdr_size {| otype := io_type o; oext := io_ext o; ohas_size := false; ores1 := io_res1 o |})
    with (obu_hdr_size (io_hdr o false)).
  rewrite <- Hz, drop_app_exact.
  change (otype (io_hdr o false)) with (io_type o). change (oext (io_hdr o false)) with (io_ext o).
  change (ores1 (io_hdr o false)) with (io_res1 o).
  replace (zlen (io_body o) <? zlen (io_body o)) with false by lia.
  rewrite (take_all (zlen (io_body o)) (io_body o)), (drop_all (zlen (io_body o)) (io_body o)) by lia.
  unfold need_of.
  destruct (flush_pending mtu st _) as [st2|e|]; try reflexivity.
  unfold after_obu. fold (io_hdr o false). fold (io_elem o).
  destruct ((io_type o =? 8) || (io_type o =? 2)); reflexivity.
Qed.

Theorem av1_payload_groups_u mtu init lst : 2 <= mtu < 2097152 -> Forall wf_iobu init -> wf_iobu lst ->
  exists pkss, av1_payload mtu (stream_u init lst) = Ok (map spk_bytes (concat pkss)) /\
    Forall2 (grp_ok mtu) (groups (init ++ [lst])) pkss.
Proof.
  intros Hm Hall Hl.
  unfold av1_payload. replace (mtu <=? 1) with false by lia. cbn [orb].
  pose proof (stream_len init Hall) as Hsl. pose proof (io_bytes_u_len lst Hl) as Hul.
  assert (Hlen : (2 * length init + 1 <= length (stream_u init lst))%nat) by (unfold stream_u; rewrite app_length; lia).
  replace (zlen (stream_u init lst) =? 0) with false by (unfold zlen; lia).
  set (st0 := {| pays := []; pending := []; cur := None; cnt := 0; new_seq := false; start_new := false |}).
  destruct (pay_loop_ok (S (length (stream_u init lst))) mtu (stream_u init lst) st0 Hm ltac:(lia) ltac:(constructor)) as (st & El & Hok).
  rewrite El. unfold stream_u in El, Hlen.
  pose proof (pay_loop_groups mtu Hm init (S (length (stream init ++ io_bytes false lst))) st0 [] [] [] st (io_bytes false lst) Hall
                ltac:(lia) El (ginv_init mtu) ltac:(constructor)) as Hw.
  change (cur st0) with (@None (Z * Z)) in Hw. unfold groups. rewrite walk_app.
  destruct (walk None [] [] init) as [[fin acc] c1].
  destruct Hw as (st1 & done & Hrun1 & Hc1 & Hj1 & Hdone).
  remember (S (length (stream init ++ io_bytes false lst)) - length init)%nat as f1 eqn:Ef1.
  destruct f1 as [|f1]; [lia|].
  rewrite (pay_loop_step_u f1 mtu lst st1 Hl) in Hrun1.
  destruct (flush_pending mtu st1 (need_of (cur st1) lst)) as [st2|e|] eqn:Ef; try discriminate.
  destruct (group_step mtu st1 st2 lst done fin acc Hm Hl Ef Hj1 Hdone) as (done2 & Hj2 & Hd2 & Hc2).
  destruct f1 as [|f2]; [lia|].
  cbn [pay_loop] in Hrun1. injection Hrun1 as <-.
  cbn [walk]. rewrite <- Hc1.
  destruct (need_of (cur st1) lst).
  - exact (finish_groups mtu _ done2 _ [lst] Hm Hok Hj2 Hd2).
  - exact (finish_groups mtu _ done2 _ (lst :: acc) Hm Hok Hj2 Hd2).
Qed.

(* ---- what the groups guarantee ---- *)
(* the layer ids remembered for the group are those of every OBU in it that has an extension header *)
Definition layers_agree (g : list iobu) : Prop :=
  forall o1 o2 t1 s1 x1 t2 s2 x2, In o1 g -> In o2 g ->
    io_ext o1 = Some (t1, s1, x1) -> io_ext o2 = Some (t2, s2, x2) -> t1 = t2 /\ s1 = s2.

(* a temporal delimiter or sequence header can only be the first OBU of a group *)
Definition starts_only_first (g : list iobu) : Prop :=
  match g with [] => True | _ :: tl => Forall (fun o => io_type o <> 1 /\ io_type o <> 2) tl end.

Definition acc_inv (c : option (Z * Z)) (acc : list iobu) : Prop :=
  (forall o t s x, In o acc -> io_ext o = Some (t, s, x) -> c = Some (t, s)) /\ starts_only_first (rev acc).

Lemma acc_inv_layers c acc : acc_inv c acc -> layers_agree (rev acc).
Proof.
  intros [H _] o1 o2 t1 s1 x1 t2 s2 x2 H1 H2 E1 E2. apply in_rev in H1. apply in_rev in H2.
  pose proof (H _ _ _ _ H1 E1) as A. pose proof (H _ _ _ _ H2 E2) as B. rewrite A in B. injection B as <- <-. auto.
Qed.

Lemma starts_snoc g o : starts_only_first g -> g <> [] -> io_type o <> 1 /\ io_type o <> 2 -> starts_only_first (g ++ [o]).
Proof.
  intros H Hne Ho. destruct g as [|a tl]; [congruence|]. cbn [app starts_only_first] in *.
  apply Forall_app. split; [exact H|]. constructor; [exact Ho|constructor].
Qed.

Lemma walk_inv : forall obus c acc fin, acc_inv c acc ->
  Forall (fun g => layers_agree g /\ starts_only_first g) fin ->
  let '(fin', acc', _) := walk c acc fin obus in
  Forall (fun g => layers_agree g /\ starts_only_first g) (fin' ++ [rev acc']).
Proof.
  induction obus as [|o t IH]; intros c acc fin Hacc Hfin.
  - cbn [walk]. apply Forall_app. split; [exact Hfin|]. constructor; [|constructor].
    split; [eapply acc_inv_layers; exact Hacc|exact (proj2 Hacc)].
  - cbn [walk]. destruct (need_of c o) eqn:En.
    + apply IH.
      * split.
        -- intros o' t' s' x' [<-|[]] E. unfold next_cur. rewrite E. reflexivity.
        -- cbn [rev app starts_only_first]. constructor.
      * apply Forall_app. split; [exact Hfin|]. constructor; [|constructor].
        split; [eapply acc_inv_layers; exact Hacc|exact (proj2 Hacc)].
    + apply IH; [|exact Hfin].
      unfold need_of in En.
      destruct ((io_type o =? 2) || (io_type o =? 1)) eqn:Et; [discriminate|].
      destruct Hacc as [Hl Hs]. split.
      * intros o' t' s' x' [<-|Hin] E.
        -- unfold next_cur. rewrite E. reflexivity.
        -- pose proof (Hl _ _ _ _ Hin E) as Hc. subst c. unfold next_cur.
           destruct (io_ext o) as [[[te se] xe]|] eqn:Ee.
           ++ f_equal. f_equal; lia.
           ++ unfold need_of. rewrite Et, Ee. reflexivity.
      * cbn [rev]. destruct (rev acc) as [|a tl] eqn:Er.
        -- cbn [app starts_only_first]. constructor.
        -- apply starts_snoc; [exact Hs|discriminate|lia].
Qed.

Theorem groups_rules obus : Forall (fun g => layers_agree g /\ starts_only_first g) (groups obus) /\ concat (groups obus) = obus.
Proof.
  split.
  - unfold groups. pose proof (walk_inv obus None [] [] ltac:(split; [intros ? ? ? ? []|exact I]) ltac:(constructor)) as H.
    destruct (walk None [] [] obus) as [[fin acc] c']. exact H.
  - unfold groups.
    assert (G : forall obus c acc fin, let '(fin', acc', _) := walk c acc fin obus in
                concat (fin' ++ [rev acc']) = concat fin ++ rev acc ++ obus).
    { clear. induction obus as [|o t IH]; intros c acc fin.
      - cbn [walk]. rewrite concat_app. cbn [concat]. rewrite !app_nil_r. reflexivity.
      - cbn [walk]. destruct (need_of c o).
        + specialize (IH (next_cur c o) [o] (fin ++ [rev acc])). destruct (walk _ _ _ t) as [[f a] c']. rewrite IH.
          rewrite concat_app. cbn [concat rev app]. rewrite app_nil_r, <- app_assoc. reflexivity.
        + specialize (IH (next_cur c o) (o :: acc) fin). destruct (walk _ _ _ t) as [[f a] c']. rewrite IH.
          cbn [rev]. rewrite <- !app_assoc. reflexivity. }
    specialize (G obus None [] []). destruct (walk None [] [] obus) as [[fin acc] c']. rewrite G. reflexivity.
Qed.

Lemma Forall2_weaken {A B} (P Q : A -> B -> Prop) : (forall a b, P a b -> Q a b) ->
  forall l1 l2, Forall2 P l1 l2 -> Forall2 Q l1 l2.
Proof. intros H l1 l2 F. induction F; constructor; auto. Qed.

(* ---- the rule, in the terms of the specification ---- *)
Theorem av1_layer_rule mtu obus : 2 <= mtu < 2097152 -> Forall wf_iobu obus ->
  exists pkss, av1_payload mtu (stream obus) = Ok (map spk_bytes (concat pkss)) /\
    Forall2 (grp_spec mtu) (groups obus) pkss /\
    Forall (fun g => layers_agree g /\ starts_only_first g) (groups obus) /\ concat (groups obus) = obus.
Proof.
  intros Hm Hall. destruct (av1_payload_groups mtu obus Hm Hall) as (pkss & Hp & Hg).
  exists pkss. split; [exact Hp|]. split; [|apply groups_rules].
  eapply Forall2_weaken; [|exact Hg]. intros g pks H. apply grp_ok_spec; [lia|exact H].
Qed.

Theorem av1_layer_rule_u mtu init lst : 2 <= mtu < 2097152 -> Forall wf_iobu init -> wf_iobu lst ->
  exists pkss, av1_payload mtu (stream_u init lst) = Ok (map spk_bytes (concat pkss)) /\
    Forall2 (grp_spec mtu) (groups (init ++ [lst])) pkss /\
    Forall (fun g => layers_agree g /\ starts_only_first g) (groups (init ++ [lst])) /\
    concat (groups (init ++ [lst])) = init ++ [lst].
Proof.
  intros Hm Hall Hl. destruct (av1_payload_groups_u mtu init lst Hm Hall Hl) as (pkss & Hp & Hg).
  exists pkss. split; [exact Hp|]. split; [|apply groups_rules].
  eapply Forall2_weaken; [|exact Hg]. intros g pks H. apply grp_ok_spec; [lia|exact H].
Qed.
