(* C12: the VP9 uncompressed-header parser against the bitstream syntax table.
   The specification side is [hdr_fields]: the syntax elements in order, each as (width, value),
   laid over the ideal big-endian bit string [ext] of the buffer; reserved bits are wildcards. *)
From Coq Require Import ZArith List Lia Bool.
From Coq Require Import ZifyBool.
From RTP Require Import Base.Bits Base.Res Base.ListX Base.Tactics Model.Vp9Header Proofs.C12_Bits.
Import ListNotations.
Open Scope Z_scope.
Arguments ext : simpl never.
Arguments Z.mul : simpl never.

Definition b2z (b : bool) : Z := if b then 1 else 0.

Fixpoint fields (buf : list Z) (p : Z) (fs : list (Z * option Z)) : Prop :=
  match fs with
  | [] => p <= 8 * zlen buf
  | (n, v) :: t => match v with Some x => ext buf p n = x | None => True end /\ fields buf (p + n) t
  end.

Record shdr : Type := mkSHdr {
  s_profile : Z; s_non_key : bool; s_show : bool; s_err : bool;
  s_depth12 : bool; s_cs : Z; s_range : bool; s_sx : bool; s_sy : bool; s_w : Z; s_h : Z }.

Definition odd_profile (p : Z) : bool := (p =? 1) || (p =? 3).

(* uncompressed_header() up to frame_size(), show_existing_frame = 0 *)
Definition hdr_fields (h : shdr) : list (Z * option Z) :=
  let p := s_profile h in
  [(2, Some 2); (1, Some (p mod 2)); (1, Some (p / 2))] ++
  (if p =? 3 then [(1, None)] else []) ++
  [(1, Some 0); (1, Some (b2z (s_non_key h))); (1, Some (b2z (s_show h))); (1, Some (b2z (s_err h)))] ++
  (if s_non_key h then [] else
     [(8, Some 73); (8, Some 131); (8, Some 66)] ++
     (if 2 <=? p then [(1, Some (b2z (s_depth12 h)))] else []) ++
     [(3, Some (s_cs h))] ++
     (if s_cs h =? 7
      then (if odd_profile p then [(1, None)] else [])
      else [(1, Some (b2z (s_range h)))] ++
           (if odd_profile p then [(1, Some (b2z (s_sx h))); (1, Some (b2z (s_sy h))); (1, None)] else [])) ++
     [(16, Some (s_w h - 1)); (16, Some (s_h h - 1))]).

Definition wf_shdr (h : shdr) : Prop :=
  0 <= s_profile h <= 3 /\ 0 <= s_cs h <= 7 /\ 1 <= s_w h <= 65535 /\ 1 <= s_h h <= 65535.

Definition expected (h : shdr) : vp9hdr :=
  let p := s_profile h in
  if s_non_key h then mkVp9Hdr p false 0 true (s_show h) (s_err h) None None
  else
    let depth := if 2 <=? p then (if s_depth12 h then 12 else 10) else 8 in
    let cc := if s_cs h =? 7 then (depth, 7, true, false, false)
              else if odd_profile p then (depth, s_cs h, s_range h, s_sx h, s_sy h)
              else (depth, s_cs h, s_range h, true, true) in
    mkVp9Hdr p false 0 false (s_show h) (s_err h) (Some cc) (Some (s_w h - 1, s_h h - 1)).

Lemma read_flag_unsafe_spec buf pos : bytes buf -> 0 <= pos -> pos + 1 <= 8 * zlen buf ->
  read_flag_unsafe buf pos = Ok (ext buf pos 1 =? 1, pos + 1).
Proof.
  intros Hb Hp Hle. unfold read_flag_unsafe. rewrite land_7.
  destruct (byte_at_ext buf pos Hb ltac:(lia)) as (b & Hba & Hbr & Hext). rewrite Hba.
  rewrite (Hext 1) by lia. rewrite Z.shiftr_div_pow2 by lia. rewrite land_1.
  replace (8 - pos mod 8 - 1) with (7 - pos mod 8) by lia. change (2 ^ 1) with 2. reflexivity.
Qed.

Lemma b2z_eqb b : (b2z b =? 1) = b.
Proof. destruct b; reflexivity. Qed.

Ltac use_field buf p n :=
  match goal with
  | H : ext buf ?p' n = _ |- _ =>
    replace (ext buf p n) with (ext buf p' n) by (f_equal; lia); rewrite H
  end.

(* evaluate a closed subterm *)
Ltac ev_bool t :=
  let v := eval vm_compute in t in
  lazymatch v with true => change t with true | false => change t with false end.
Ltac ev_num t :=
  let v := eval vm_compute in t in
  lazymatch v with Z0 => change t with v | Zpos _ => change t with v end.
Ltac closed_z x := lazymatch x with Z0 => idtac | Zpos _ => idtac | Zneg _ => idtac end.

Ltac step Hb :=
  first
  [ match goal with |- context [has_space ?b ?p ?n] =>
      replace (has_space b p n) with true by (unfold has_space; lia) end
  | match goal with |- context [read_bits_unsafe ?b ?p ?n] =>
      rewrite (read_bits_unsafe_spec b p n Hb) by lia; use_field b p n end
  | match goal with |- context [read_flag_unsafe ?b ?p] =>
      rewrite (read_flag_unsafe_spec b p Hb) by lia; use_field b p 1; rewrite ?b2z_eqb end
  | match goal with |- context [u8 ?x] => ev_num (u8 x) end
  | match goal with |- context [?x =? ?y] => closed_z x; closed_z y; ev_bool (x =? y) end
  | match goal with |- context [?x <=? ?y] => closed_z x; closed_z y; ev_bool (x <=? y) end
  | progress unfold read_flag, read_bits
  | progress cbn [bind negb andb orb] ].

Theorem vp9_header_decodes h buf : bytes buf -> wf_shdr h -> fields buf 0 (hdr_fields h) ->
  vp9_header_unmarshal buf = Ok (expected h).
Proof.
  intros Hb (Hp & Hcs & Hw & Hh) Hf.
  destruct h as [p non_key show err d12 cs range sx sy w h]. cbn [s_profile s_non_key s_show s_err s_depth12 s_cs s_range s_sx s_sy s_w s_h] in *.
  assert (Cp : p = 0 \/ p = 1 \/ p = 2 \/ p = 3) by lia.
  assert (Hu8 : u8 cs = cs) by (unfold u8; apply Z.mod_small; lia).
  assert (Hw16 : u16 (w - 1) = w - 1) by (unfold u16; apply Z.mod_small; lia).
  assert (Hh16 : u16 (h - 1) = h - 1) by (unfold u16; apply Z.mod_small; lia).
  unfold vp9_header_unmarshal, expected, key_frame_part, color_config.
  cbn [s_profile s_non_key s_show s_err s_depth12 s_cs s_range s_sx s_sy s_w s_h].
  unfold hdr_fields in Hf. cbn [s_profile s_non_key s_show s_err s_depth12 s_cs s_range s_sx s_sy s_w s_h] in Hf.
  revert Hf. destruct (cs =? 7) eqn:Ecs; intros Hf.
  - apply Z.eqb_eq in Ecs. subst cs.
    destruct Cp as [->|[->|[->| ->]]]; destruct non_key; cbn in Hf;
      repeat match type of Hf with _ /\ _ => let H1 := fresh "F" in destruct Hf as [H1 Hf] end;
      repeat (first [step Hb | rewrite Hw16 | rewrite Hh16]); reflexivity.
  - destruct Cp as [->|[->|[->| ->]]]; destruct non_key; cbn in Hf;
      repeat match type of Hf with _ /\ _ => let H1 := fresh "F" in destruct Hf as [H1 Hf] end;
      repeat (first [step Hb | rewrite Hu8 | rewrite Ecs | rewrite Hw16 | rewrite Hh16]); reflexivity.
Qed.

(* the width and height the payloader puts into the scalability structure *)
Corollary vp9_header_size h buf : bytes buf -> wf_shdr h -> fields buf 0 (hdr_fields h) -> s_non_key h = false ->
  exists hdr, vp9_header_unmarshal buf = Ok hdr /\ vh_non_key hdr = false /\
              vp9_width hdr = s_w h /\ vp9_height hdr = s_h h /\ vh_profile hdr = s_profile h.
Proof.
  intros Hb Hwf Hf Hk. exists (expected h). split; [apply vp9_header_decodes; assumption|].
  destruct Hwf as (_ & _ & Hw & Hh). unfold expected. rewrite Hk.
  cbn [vh_non_key vp9_width vp9_height vh_size vh_profile]. unfold u16.
  repeat split; try (rewrite Z.mod_small by lia; lia).
Qed.

