(* C08 (audio and VP8 payloaders): every MTU and every input - no panic, every fragment an owned
   copy of 1..MTU bytes.  Owned ([Own]) fragments do not depend on the caller's buffers
   (Base/Own.v: resolve_own), which is the "neither retains nor aliases" half. *)
From Coq Require Import ZArith List Lia Bool.
From RTP Require Import Base.Bits Base.Res Base.ListX Base.Own Base.Tactics Model.Audio Model.Vp8
  Proofs.C16_Audio Proofs.C11_Vp8.
Import ListNotations.
Open Scope Z_scope.

Definition frag_len (f : bref) : Z := match f with Own l => zlen l | View _ _ len => len end.

Definition frags_ok (mtu : Z) (fs : list bref) : Prop :=
  forallb is_own fs = true /\ Forall (fun f => 1 <= frag_len f <= mtu) fs.

Theorem g711_frags_ok mtu p : 0 <= mtu ->
  g711_payload mtu p <> Panic /\
  forall fs, g711_payload mtu p = Ok fs ->
    forallb is_own fs = true /\ Forall (fun f => frag_len f <= mtu) fs /\
    (forall l, p = Some l -> l <> [] -> Forall (fun f => 1 <= frag_len f) fs /\ (1 <= mtu -> fs <> [])).
Proof.
  intros Hm. split; [apply g711_total; exact Hm|]. intros fs Hfs.
  split; [exact (g711_all_own _ _ _ Hfs)|].
  destruct p as [l|]; [|unfold g711_payload in Hfs; injection Hfs as <-; repeat split; try constructor; intros; discriminate].
  destruct (Z.eq_dec mtu 0) as [->|Hnz].
  { unfold g711_payload in Hfs. cbn in Hfs. injection Hfs as <-. split; [constructor|].
    intros l' _ _. split; [constructor|lia]. }
  destruct (g711_split mtu l ltac:(lia)) as (cs & Hrun & Hcat & _ & Hlen & Hne).
  rewrite Hrun in Hfs. injection Hfs as <-. split.
  - apply Forall_map. exact Hlen.
  - intros l' [= <-] Hnn. specialize (Hne Hnn). split.
    + apply Forall_map. eapply Forall_impl; [|exact Hne]. cbn. intros a Ha.
      destruct a; [congruence|]. rewrite zlen_cons. pose proof (zlen_nonneg a). lia.
    + intros _ Hnil. destruct cs; [|discriminate]. cbn in Hcat. congruence.
Qed.

Lemma frag_rel_lens st maxf : forall first fs cs, frag_rel st first fs cs ->
  Forall (fun c => 1 <= zlen c <= maxf) cs ->
  forallb is_own fs = true /\ Forall (fun f => 1 <= frag_len f <= vp8_header_size st + maxf) fs.
Proof.
  induction 1 as [first|first c fs cs Hrel IH]; intros Hall; [split; constructor|].
  apply Forall_cons_iff in Hall as [Hc Hall]. destruct (IH Hall) as [Ho Hl].
  split; [cbn [forallb is_own]; exact Ho|]. constructor; [|exact Hl].
  cbn [frag_len]. rewrite zlen_app, zlen_vp8_header.
  assert (0 <= vp8_header_size st) by (unfold vp8_header_size; destruct (vp_enable st); [destruct (vp_pid st <? 128)|]; lia). lia.
Qed.

Theorem vp8_frags_ok st mtu p :
  vp8_payload st mtu p <> Panic /\
  forall st' fs, vp8_payload st mtu p = Ok (st', fs) ->
    frags_ok mtu fs /\ ((exists l, p = Some l /\ l <> []) -> vp8_header_size st < mtu -> fs <> []).
Proof.
  unfold vp8_payload.
  set (l := match p with Some l => l | None => [] end).
  set (maxf := mtu - vp8_header_size st).
  destruct ((if maxf <? zlen l then maxf else zlen l) <=? 0) eqn:E.
  - split; [discriminate|]. intros st' fs [= <- <-]. split; [split; constructor|].
    intros (l' & -> & Hne) Hm. exfalso. subst l. cbn in E.
    assert (1 <= zlen l') by (destruct l'; [congruence|rewrite zlen_cons; pose proof (zlen_nonneg l'); lia]).
    destruct (maxf <? zlen l') eqn:?; unfold maxf in *; lia.
  - assert (Hm : 1 <= maxf) by (destruct (maxf <? zlen l) eqn:?; lia).
    destruct (vp8_frags_spec (S (length l)) st maxf true l Hm ltac:(lia)) as (fs & cs & Hrun & Hrel & Hcat & Hall & Hcs).
    rewrite Hrun. split; [discriminate|]. intros st' fs' [= <- <-].
    destruct (frag_rel_lens st maxf _ _ _ Hrel Hall) as [Ho Hl]. split.
    + split; [exact Ho|]. eapply Forall_impl; [|exact Hl]. cbv beta. unfold maxf. intros; lia.
    + intros _ _ Hnil. subst fs. inversion Hrel; subst.
      assert (l <> []) by (intros Hl0; rewrite Hl0 in E; change (zlen (@nil Z)) with 0 in E; destruct (maxf <? 0) eqn:?; lia).
      apply Hcs; auto.
Qed.
