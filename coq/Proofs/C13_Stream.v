(* C13, decoder against the aggregation-header semantics in general: packets whose first element
   continues an OBU from the previous packet (Z), whose last element continues into the next (Y),
   with any number of complete elements in between, W = 0 or W = 1..3.  [run_elems] is the
   semantics of one packet written from the AV1 RTP specification; [glue] chains packets. *)
From Coq Require Import ZArith List Lia Bool.
From Coq Require Import ZifyBool.
From RTP Require Import Base.Bits Base.Res Base.ListX Base.Tactics Model.Leb128 Model.Obu Model.Av1Depack
  Proofs.Leb128Proofs Proofs.C13_Obu Proofs.C13_Depack.
Import ListNotations.
Open Scope Z_scope.

(* the elements of one packet on the wire: every element but the last carries a LEB128 length; the
   last one too unless the W field gives the element count *)
Fixpoint enc_elems (w : bool) (es : list (list Z)) : list Z :=
  match es with
  | [] => []
  | [e] => if w then e else write_leb128 (zlen e) ++ e
  | e :: t => write_leb128 (zlen e) ++ e ++ enc_elems w t
  end.

(* one packet: the first element continues the pending fragment when Z is set, the last element
   stays pending when Y is set, everything else is a complete OBU *)
Fixpoint run_elems (z y first : bool) (buffer : list Z) (es : list (list Z)) : list Z * list (list Z) :=
  match es with
  | [] => (buffer, [])
  | e :: t =>
    let obu := if first && z then buffer ++ e else e in
    let buffer' := if first && z then [] else buffer in
    match t with
    | [] => if y then (obu, []) else (buffer', [obu])
    | _ => let '(b, os) := run_elems z y false buffer' t in (b, obu :: os)
    end
  end.

(* an OBU as the payloader transmits it: parsable header without size field, not a temporal
   delimiter, not a tile list *)
Definition good_obu (obu : list Z) : Prop :=
  exists h, parse_obu_header obu = Some h /\ ohas_size h = false /\ otype h <> 2 /\ otype h <> 8.

(* the same OBU as the depacketizer hands it out: size flag set, LEB128 size in front of the payload *)
Definition redeliver (obu : list Z) : list Z :=
  match parse_obu_header obu with
  | Some h => let body := drop (obu_hdr_size h) obu in
              obu_hdr_marshal (mkObuHdr (otype h) (oext h) true (ores1 h)) ++ write_leb128 (zlen body) ++ body
  | None => []
  end.

Definition elem_ok (e : list Z) : Prop := e <> [] /\ zlen e < 72057594037927936.

Lemma elem_ok_len e : elem_ok e -> 1 <= zlen e < 72057594037927936.
Proof. intros [Hne Hb]. destruct e; [congruence|]. rewrite zlen_cons in *. pose proof (zlen_nonneg e). lia. Qed.

Lemma leb_nonempty v : 0 <= v < 72057594037927936 -> (1 <= length (write_leb128 v))%nat.
Proof.
  intros Hv. pose proof (leb128_roundtrip v [] Hv) as Hrt. rewrite app_nil_r in Hrt.
  apply read_leb128_bounds in Hrt.
  destruct (write_leb128 v); [change (zlen (@nil Z)) with 0 in Hrt; lia|cbn [length]; lia].
Qed.

Lemma enc_elems_nonempty w e t : elem_ok e -> enc_elems w (e :: t) <> [].
Proof.
  intros He. pose proof (elem_ok_len e He) as Hl. destruct He as [Hne _].
  destruct t as [|e2 t']; cbn [enc_elems].
  - destruct w; [exact Hne|]. intros H. apply app_eq_nil in H as [_ H]. congruence.
  - intros H. apply app_eq_nil in H as [_ H]. apply app_eq_nil in H as [H _]. congruence.
Qed.

Lemma enc_elems_len w e t : elem_ok e -> 1 <= zlen (enc_elems w (e :: t)).
Proof.
  intros He. pose proof (enc_elems_nonempty w e t He). destruct (enc_elems w (e :: t)); [congruence|].
  rewrite zlen_cons. pose proof (zlen_nonneg l). lia.
Qed.

(* what the loop does with one complete, good OBU *)
Lemma good_obu_nonempty obu : good_obu obu -> obu <> [].
Proof. intros (h & Hp & _) ->. discriminate. Qed.

Lemma run_elems_cons2 z y first buffer e e2 t' :
  run_elems z y first buffer (e :: e2 :: t')
  = (fst (run_elems z y false (if first && z then [] else buffer) (e2 :: t')),
     (if first && z then buffer ++ e else e) :: snd (run_elems z y false (if first && z then [] else buffer) (e2 :: t'))).
Proof.
  change (run_elems z y first buffer (e :: e2 :: t'))
    with (let '(b, os) := run_elems z y false (if first && z then [] else buffer) (e2 :: t') in
          (b, (if first && z then buffer ++ e else e) :: os)).
  destruct (run_elems z y false (if first && z then [] else buffer) (e2 :: t')). reflexivity.
Qed.

(* the loop over the remaining elements [es] of a packet, the first of them having index k *)
Lemma av1d_loop_gen : forall es fuel z y (w : bool) count k buffer buff,
  es <> [] -> Forall elem_ok es ->
  (w = true -> count = k + zlen es) -> (w = false -> count = 0) -> 0 <= k ->
  (k = 0 -> z = true -> buffer <> []) -> (k <> 0 \/ z = false -> buffer = []) ->
  Forall good_obu (snd (run_elems z y (k =? 0) buffer es)) ->
  (length (enc_elems w es) < fuel)%nat ->
  av1d_loop fuel z y count (enc_elems w es) k buffer buff
  = (fst (run_elems z y (k =? 0) buffer es),
     Ok (buff ++ concat (map redeliver (snd (run_elems z y (k =? 0) buffer es))), k + zlen es - 1)).
Proof.
  induction es as [|e t IH]; intros fuel z y w count k buffer buff Hne Hall Hcw Hc0 Hk Hbz Hbn Hgood Hf; [congruence|].
  apply Forall_cons_iff in Hall as [He Hall]. pose proof (elem_ok_len e He) as Hel.
  pose proof (enc_elems_nonempty w e t He) as Hnn.
  destruct fuel as [|fuel]; [lia|].
  cbn [av1d_loop]. remember (enc_elems w (e :: t)) as wl eqn:Ewl. destruct wl as [|x0 l0]; [congruence|].
  rewrite Ewl in *. clear Ewl x0 l0.
  (* the OBU this element completes or continues, and the buffer afterwards *)
  set (fz := (k =? 0) && z).
  set (obu := if fz then buffer ++ e else e).
  set (buffer' := if fz then [] else buffer).
  assert (Hfz0 : (fz && (zlen buffer =? 0)) = false).
  { unfold fz. destruct (k =? 0) eqn:Ek; [|reflexivity]. destruct z; [|reflexivity]. cbn [andb].
    assert (buffer <> []) by (apply Hbz; [lia|reflexivity]).
    destruct buffer; [congruence|]. rewrite zlen_cons. pose proof (zlen_nonneg buffer). lia. }
  assert (Hobu_len : 1 <= zlen obu).
  { unfold obu. destruct fz; [rewrite zlen_app; pose proof (zlen_nonneg buffer); lia|lia]. }
  destruct t as [|e2 t'].
  - (* the last element of the packet *)
    cbn [run_elems] in *. fold fz in Hgood |- *. fold obu in Hgood |- *. fold buffer' in Hgood |- *.
    change (zlen [e]) with 1 in *. cbn [enc_elems] in *.
    assert (Hstep : forall (is_last : bool) l1, is_last = true -> l1 = e ->
      (if zlen l1 <? zlen e then (buffer, @Err (list Z * Z) EShort) else
       let elem := take (zlen e) l1 in let l2 := drop (zlen e) l1 in
       if ((k =? 0) && z) && (zlen buffer =? 0) then
         (if is_last then (buffer, Ok (buff, k)) else av1d_loop fuel z y count l2 (k + 1) buffer buff)
       else
         let obu := if (k =? 0) && z then buffer ++ elem else elem in
         let buffer := if (k =? 0) && z then [] else buffer in
         if is_last && y then (obu, Ok (buff, k))
         else if zlen obu =? 0 then av1d_loop fuel z y count l2 (k + 1) buffer buff
         else match parse_obu_header obu with
              | None => (buffer, Err EObuHeader)
              | Some h =>
                if (otype h =? 2) || (otype h =? 8) then av1d_loop fuel z y count l2 (k + 1) buffer buff
                else let body := drop (obu_hdr_size h) obu in
                  if ohas_size h then
                    match read_leb128 body with
                    | None => (buffer, Err ELeb128)
                    | Some (sz, n) =>
                      if negb (zlen e =? obu_hdr_size h + sz + n) then (buffer, Err EShort)
                      else let buff := buff ++ obu in
                        if is_last then (buffer, Ok (buff, k)) else av1d_loop fuel z y count l2 (k + 1) buffer buff
                    end
                  else
                    let hdr := obu_hdr_marshal (mkObuHdr (otype h) (oext h) true (ores1 h)) in
                    let buff := buff ++ hdr ++ write_leb128 (zlen body) ++ body in
                    if is_last then (buffer, Ok (buff, k)) else av1d_loop fuel z y count l2 (k + 1) buffer buff
              end)
      = (fst (if y then (obu, []) else (buffer', [obu])),
         Ok (buff ++ concat (map redeliver (snd (if y then (obu, @nil (list Z)) else (buffer', [obu])))), k + 1 - 1))).
    { intros is_last l1 -> ->. replace (zlen e <? zlen e) with false by lia. cbv zeta.
      rewrite (take_all (zlen e) e) by lia. fold fz. rewrite Hfz0. fold obu. fold buffer'. cbn [andb].
      destruct y; cbn [fst snd map concat].
      - rewrite app_nil_r. f_equal. f_equal. f_equal. lia.
      - replace (zlen obu =? 0) with false by lia.
        apply Forall_cons_iff in Hgood as [(h & Hp & Hsz & H2 & H8) _]. rewrite Hp.
        replace ((otype h =? 2) || (otype h =? 8)) with false by lia. rewrite Hsz.
        unfold redeliver. rewrite Hp. rewrite app_nil_r. f_equal. f_equal. f_equal. lia. }
    destruct w.
    + specialize (Hcw eq_refl).
      replace (count =? 0) with false by lia. replace (k =? count - 1) with true by lia. cbn [negb andb orb].
      apply (Hstep true e); reflexivity.
    + specialize (Hc0 eq_refl). subst count. change (0 =? 0) with true. cbn [negb andb orb].
      rewrite (leb128_roundtrip (zlen e) e ltac:(lia)). rewrite drop_app_exact.
      replace (zlen e =? zlen e) with true by lia. cbn [andb orb]. replace (k =? 0 - 1) with false by lia. cbn [orb].
      apply (Hstep true e); reflexivity.
  - (* a length-prefixed element followed by more *)
    set (t := e2 :: t') in *.
    assert (He2 : elem_ok e2) by (apply Forall_cons_iff in Hall as [H _]; exact H).
    pose proof (enc_elems_len w e2 t' He2) as Hrest. fold t in Hrest.
    change (enc_elems w (e :: t)) with (write_leb128 (zlen e) ++ e ++ enc_elems w t) in *.
    assert (Hzt : 1 <= zlen t) by (unfold t; rewrite zlen_cons; pose proof (zlen_nonneg t'); lia).
    rewrite zlen_cons in *.
    assert (Hre : run_elems z y (k =? 0) buffer (e :: t)
                  = (fst (run_elems z y false buffer' t), obu :: snd (run_elems z y false buffer' t))).
    { unfold t. rewrite run_elems_cons2. reflexivity. }
    rewrite Hre in *. cbn [fst snd] in *.
    apply Forall_cons_iff in Hgood as [(h & Hp & Hsz & H2 & H8) Hgood'].
    assert (Hnotlast : ((count =? 0) || negb (negb (count =? 0) && (k =? count - 1))) = true).
    { destruct w; [specialize (Hcw eq_refl)|specialize (Hc0 eq_refl)]; lia. }
    rewrite Hnotlast.
    rewrite (leb128_roundtrip (zlen e) (e ++ enc_elems w t) ltac:(lia)). rewrite drop_app_exact.
    assert (Hil : (negb (count =? 0) && (k =? count - 1) || (count =? 0) && (zlen e =? zlen (e ++ enc_elems w t))) = false).
    { rewrite zlen_app. destruct w; [specialize (Hcw eq_refl)|specialize (Hc0 eq_refl)]; lia. }
    rewrite Hil. rewrite zlen_app. replace (zlen e + zlen (enc_elems w t) <? zlen e) with false by lia.
    rewrite take_app_exact, drop_app_exact. fold fz. rewrite Hfz0. fold obu. fold buffer'. cbn [andb].
    replace (zlen obu =? 0) with false by lia. rewrite Hp.
    replace ((otype h =? 2) || (otype h =? 8)) with false by lia. rewrite Hsz.
    assert (Hk1 : (k + 1 =? 0) = false) by lia.
    specialize (IH fuel z y w count (k + 1) buffer'
                  (buff ++ obu_hdr_marshal (mkObuHdr (otype h) (oext h) true (ores1 h))
                        ++ write_leb128 (zlen (drop (obu_hdr_size h) obu)) ++ drop (obu_hdr_size h) obu)).
    rewrite Hk1 in IH. rewrite IH.
    + cbn [map concat]. unfold redeliver at 2. rewrite Hp. rewrite <- !app_assoc. f_equal. f_equal. f_equal. lia.
    + discriminate.
    + exact Hall.
    + intros Hw. specialize (Hcw Hw). lia.
    + exact Hc0.
    + lia.
    + intros; lia.
    + intros _. unfold buffer', fz. destruct ((k =? 0) && z) eqn:E; [reflexivity|].
      apply Hbn. destruct (k =? 0) eqn:Ek; [right; destruct z; [discriminate|reflexivity]|left; lia].
    + exact Hgood'.
    + rewrite !app_length in Hf. pose proof (leb_nonempty (zlen e) ltac:(lia)). lia.
Qed.

(* ---- one packet ---- *)
Record spk : Type := mkSpk { sp_z : bool; sp_y : bool; sp_n : bool; sp_w : bool; sp_elems : list (list Z) }.

Definition spk_hdr (p : spk) : Z :=
  (if sp_z p then 128 else 0) + (if sp_y p then 64 else 0)
  + (if sp_w p then zlen (sp_elems p) * 16 else 0) + (if sp_n p then 8 else 0).

Definition spk_bytes (p : spk) : list Z := spk_hdr p :: enc_elems (sp_w p) (sp_elems p).

(* at least one element, none empty, W only for up to three elements, N only on a packet that does
   not continue a fragment *)
Definition wf_spk (p : spk) : Prop :=
  sp_elems p <> [] /\ Forall elem_ok (sp_elems p) /\ (sp_w p = true -> zlen (sp_elems p) <= 3) /\
  (sp_n p = true -> sp_z p = false).

Lemma agg_hdr_bits (z y n : bool) wv : 0 <= wv <= 3 ->
  let h := (if z then 128 else 0) + (if y then 64 else 0) + wv * 16 + (if n then 8 else 0) in
  negb (Z.land 128 h =? 0) = z /\ negb (Z.land 64 h =? 0) = y /\ Z.shiftr (Z.land 48 h) 4 = wv /\
  negb (Z.land 8 h =? 0) = n.
Proof.
  intros Hw. assert (C : wv = 0 \/ wv = 1 \/ wv = 2 \/ wv = 3) by lia.
  destruct C as [->|[->|[->| ->]]]; destruct z, y, n; repeat split; reflexivity.
Qed.

Theorem av1d_packet st p : wf_spk p ->
  (sp_z p = true -> ad_buffer st <> []) ->
  let buffer := if sp_z p then ad_buffer st else [] in
  let r := run_elems (sp_z p) (sp_y p) true buffer (sp_elems p) in
  Forall good_obu (snd r) ->
  av1d_unmarshal st (Some (spk_bytes p))
  = (mkAv1Dep (fst r) (sp_z p) (sp_y p) (sp_n p), Ok (concat (map redeliver (snd r)))).
Proof.
  intros (Hne & Hall & Hw3 & Hnz) Hbuf buffer r Hgood. subst r.
  unfold av1d_unmarshal, spk_bytes.
  destruct (sp_elems p) as [|e t] eqn:Ees; [congruence|].
  assert (He : elem_ok e) by (apply Forall_cons_iff in Hall as [H _]; exact H).
  pose proof (enc_elems_nonempty (sp_w p) e t He) as Hnn.
  remember (enc_elems (sp_w p) (e :: t)) as wl eqn:Ewl. destruct wl as [|x0 l0]; [congruence|].
  rewrite Ewl in *. clear Ewl x0 l0.
  set (wv := if sp_w p then zlen (e :: t) else 0).
  assert (Hwv : 0 <= wv <= 3).
  { unfold wv. destruct (sp_w p); [|lia]. specialize (Hw3 eq_refl).
    rewrite zlen_cons in *. pose proof (zlen_nonneg t). lia. }
  assert (Hh : spk_hdr p = (if sp_z p then 128 else 0) + (if sp_y p then 64 else 0) + wv * 16 + (if sp_n p then 8 else 0)).
  { unfold spk_hdr, wv. rewrite Ees. destruct (sp_w p); lia. }
  rewrite Hh. destruct (agg_hdr_bits (sp_z p) (sp_y p) (sp_n p) wv Hwv) as (Bz & By & Bw & Bn). cbv zeta in Bz, By, Bw, Bn.
  rewrite Bz, By, Bw, Bn.
  (* the buffer the loop starts with *)
  assert (Hb0 : (if negb (sp_z p) && (0 <? zlen (if sp_n p then [] else ad_buffer st)) then []
                 else (if sp_n p then [] else ad_buffer st)) = buffer).
  { unfold buffer. destruct (sp_z p) eqn:Ez; cbn [negb andb].
    - destruct (sp_n p) eqn:En; [specialize (Hnz eq_refl); congruence|reflexivity].
    - destruct (0 <? zlen (if sp_n p then [] else ad_buffer st)) eqn:E; [reflexivity|].
      apply zlen_zero. pose proof (zlen_nonneg (if sp_n p then [] else ad_buffer st)). lia. }
  rewrite Hb0.
  pose proof (av1d_loop_gen (e :: t) (S (length (enc_elems (sp_w p) (e :: t)))) (sp_z p) (sp_y p) (sp_w p) wv 0 buffer []
                ltac:(discriminate) Hall) as HL.
  change (0 =? 0) with true in HL. rewrite HL; clear HL.
  - cbn [app]. replace (0 + zlen (e :: t) - 1) with (zlen (e :: t) - 1) by lia.
    unfold wv. destruct (sp_w p).
    + replace (zlen (e :: t) =? 0) with false by (rewrite zlen_cons; pose proof (zlen_nonneg t); lia).
      rewrite Z.eqb_refl. cbn [negb andb]. reflexivity.
    + change (0 =? 0) with true. cbn [negb andb]. reflexivity.
  - intros Hw. unfold wv. rewrite Hw. lia.
  - intros Hw. unfold wv. rewrite Hw. reflexivity.
  - lia.
  - intros _ Hz. unfold buffer. rewrite Hz. apply Hbuf, Hz.
  - intros [H|H]; [lia|]. unfold buffer. rewrite H. reflexivity.
  - exact Hgood.
  - lia.
Qed.

(* ---- a sequence of packets ---- *)
From RTP Require Import Proofs.C15_Av1.

(* completed OBUs, in order, and the fragment left pending at the end *)
Fixpoint glue (buffer : list Z) (pks : list spk) : list (list Z) * list Z :=
  match pks with
  | [] => ([], buffer)
  | p :: t =>
    let r := run_elems (sp_z p) (sp_y p) true (if sp_z p then buffer else []) (sp_elems p) in
    let '(os2, bf) := glue (fst r) t in (snd r ++ os2, bf)
  end.

(* the continuation flags chain: a packet has Z exactly when the one before it had Y *)
Fixpoint chain_ok (pending : bool) (pks : list spk) : Prop :=
  match pks with
  | [] => True
  | p :: t => wf_spk p /\ sp_z p = pending /\ chain_ok (sp_y p) t
  end.

Lemma run_elems_pending : forall es z y first buffer, es <> [] -> Forall elem_ok es ->
  (first = false \/ z = false -> buffer = []) ->
  (y = true -> fst (run_elems z y first buffer es) <> []) /\
  (y = false -> fst (run_elems z y first buffer es) = []).
Proof.
  induction es as [|e t IH]; intros z y first buffer Hne Hall Hb; [congruence|].
  apply Forall_cons_iff in Hall as [He Hall]. destruct He as [Hen _].
  destruct t as [|e2 t'].
  - cbn [run_elems]. destruct y; cbn [fst]; split; try discriminate; intros _.
    + destruct (first && z); [intros H; apply app_eq_nil in H as [_ H]; congruence|exact Hen].
    + destruct (first && z) eqn:E; [reflexivity|]. apply Hb.
      destruct first; [right; destruct z; [discriminate|reflexivity]|left; reflexivity].
  - rewrite run_elems_cons2. cbn [fst]. apply IH; [discriminate|exact Hall|].
    intros _. destruct (first && z) eqn:E; [reflexivity|]. apply Hb.
    destruct first; [right; destruct z; [discriminate|reflexivity]|left; reflexivity].
Qed.

Definition oks (outs : list (list Z)) : list (res (list Z)) := map (fun o => Ok o) outs.

Theorem av1_run_stream : forall pks st pending, chain_ok pending pks ->
  (pending = true -> ad_buffer st <> []) ->
  Forall good_obu (fst (glue (ad_buffer st) pks)) ->
  exists outs, snd (av1_run st (map spk_bytes pks)) = oks outs /\
    concat outs = concat (map redeliver (fst (glue (ad_buffer st) pks))) /\
    (pks <> [] -> ad_buffer (fst (av1_run st (map spk_bytes pks))) = snd (glue (ad_buffer st) pks)).
Proof.
  induction pks as [|p t IH]; intros st pending Hch Hpend Hgood.
  - exists []. split; [reflexivity|]. split; [reflexivity|congruence].
  - destruct Hch as (Hwf & Hz & Hch). cbn [glue] in *. cbn [map av1_run].
    set (b0 := if sp_z p then ad_buffer st else []) in *.
    set (r := run_elems (sp_z p) (sp_y p) true b0 (sp_elems p)) in *.
    destruct (glue (fst r) t) as [os2 bf] eqn:Eg. cbn [fst snd] in *.
    apply Forall_app in Hgood as [Hg1 Hg2].
    pose proof (av1d_packet st p Hwf ltac:(intros Hzz; apply Hpend; congruence)) as Hp.
    cbv zeta in Hp. fold b0 in Hp. fold r in Hp. specialize (Hp Hg1). rewrite Hp.
    destruct Hwf as (Hne & Hall & _).
    pose proof (run_elems_pending (sp_elems p) (sp_z p) (sp_y p) true b0 Hne Hall
                  ltac:(intros [H|H]; [discriminate|unfold b0; rewrite H; reflexivity])) as [Hy1 Hy0].
    fold r in Hy1, Hy0.
    specialize (IH (mkAv1Dep (fst r) (sp_z p) (sp_y p) (sp_n p)) (sp_y p) Hch). cbn [ad_buffer] in IH.
    rewrite Eg in IH. cbn [fst snd] in IH.
    destruct (IH Hy1 Hg2) as (outs & Hr & Hc & Hb).
    destruct (av1_run (mkAv1Dep (fst r) (sp_z p) (sp_y p) (sp_n p)) (map spk_bytes t)) as [st2 rs] eqn:Er.
    cbn [fst snd] in *.
    exists (concat (map redeliver (snd r)) :: outs). split; [cbn [oks map]; rewrite Hr; reflexivity|].
    split; [cbn [concat]; rewrite Hc, map_app, concat_app; reflexivity|].
    intros _. destruct t as [|p2 t'].
    + cbn [map av1_run] in Er. injection Er as <- _. cbn [glue] in Eg. injection Eg as _ <-. reflexivity.
    + apply Hb. discriminate.
Qed.
