(* C13, the deprecated receive path: AV1Packet.Unmarshal splits an unfragmented packet (W = 1..3)
   into exactly its OBU elements, and frame.AV1.ReadFrames hands them out unchanged. *)
From Coq Require Import ZArith List Lia Bool.
From Coq Require Import ZifyBool.
From RTP Require Import Base.Bits Base.Res Base.ListX Base.Tactics Model.Leb128 Model.Obu Model.Av1Legacy
  Proofs.Leb128Proofs Proofs.C13_Obu Proofs.C13_Depack.
Import ListNotations.
Open Scope Z_scope.

Lemma av1p_body_elems : forall es fuel w i acc, es <> [] -> Forall wf_sobu es ->
  1 <= w <= 3 -> i = w - zlen es + 1 -> 1 <= i -> (length (elems_bytes es) < fuel)%nat ->
  av1p_body fuel w (elems_bytes es) i acc = Ok (rev acc ++ map elem es).
Proof.
  induction es as [|e t IH]; intros fuel w i acc Hne Hall Hw Hi Hi1 Hf; [congruence|].
  apply Forall_cons_iff in Hall as [He Hall].
  destruct (elem_step e He) as (_ & Henn & _). pose proof (elem_len e He) as Hel.
  destruct fuel as [|fuel]; [lia|].
  destruct t as [|e2 t'].
  - cbn [elems_bytes av1p_body]. remember (elem e) as el eqn:Ee. destruct el as [|x l']; [congruence|].
    rewrite Ee in *. clear Ee x l'. change (zlen [e]) with 1 in Hi.
    replace (negb (w =? 0) && (i =? w)) with true by lia.
    cbn [rev map]. reflexivity.
  - change (elems_bytes (e :: e2 :: t')) with (write_leb128 (zlen (elem e)) ++ elem e ++ elems_bytes (e2 :: t')) in *.
    set (t := e2 :: t') in *.
    assert (Hzt : 1 <= zlen t) by (unfold t; rewrite zlen_cons; pose proof (zlen_nonneg t'); lia).
    rewrite zlen_cons in Hi. cbn [av1p_body].
    remember (write_leb128 (zlen (elem e)) ++ elem e ++ elems_bytes t) as wl eqn:El.
    destruct wl as [|x l'].
    { exfalso. symmetry in El. apply app_eq_nil in El as [_ El]. apply app_eq_nil in El as [El _]. congruence. }
    rewrite El in *. clear El x l'.
    replace (negb (w =? 0) && (i =? w)) with false by lia.
    rewrite (leb128_roundtrip (zlen (elem e)) (elem e ++ elems_bytes t) ltac:(lia)).
    rewrite drop_app_exact, zlen_app. pose proof (zlen_nonneg (elems_bytes t)).
    replace (zlen (elem e) + zlen (elems_bytes t) <? zlen (elem e)) with false by lia.
    rewrite take_app_exact, drop_app_exact.
    rewrite (IH fuel w (i + 1) (elem e :: acc) ltac:(discriminate) Hall Hw ltac:(lia) ltac:(lia)).
    + cbn [rev map]. rewrite <- app_assoc. reflexivity.
    + rewrite !app_length in Hf.
      assert (1 <= length (write_leb128 (zlen (elem e))))%nat.
      { pose proof (leb128_roundtrip (zlen (elem e)) [] ltac:(lia)) as Hrt. rewrite app_nil_r in Hrt.
        apply read_leb128_bounds in Hrt.
        destruct (write_leb128 (zlen (elem e))); [change (zlen (@nil Z)) with 0 in Hrt; lia|cbn [length]; lia]. }
      lia.
Qed.

Theorem legacy_unfragmented n es buffer : (1 <= length es <= 3)%nat -> Forall wf_sobu es ->
  exists pkt, av1p_unmarshal (mkAv1Pkt false false 0 false None) (Some (enc_packet n es))
              = (pkt, Ok (elems_bytes es)) /\
    ap_elems pkt = Some (map elem es) /\ ap_z pkt = false /\ ap_y pkt = false /\ ap_w pkt = zlen es /\ ap_n pkt = n /\
    read_frames buffer pkt = (buffer, map elem es).
Proof.
  intros Hl Hall. unfold enc_packet, av1p_unmarshal.
  assert (Hw : 1 <= zlen es <= 3) by (unfold zlen; lia).
  assert (Hne : es <> []) by (destruct es; [cbn in Hl; lia|discriminate]).
  assert (Hbn : elems_bytes es <> []).
  { destruct es as [|e [|e2 t]]; [congruence| |].
    - apply Forall_cons_iff in Hall as [He _]. cbn [elems_bytes]. apply (elem_step e He).
    - apply Forall_cons_iff in Hall as [He _].
      change (elems_bytes (e :: e2 :: t)) with (write_leb128 (zlen (elem e)) ++ elem e ++ elems_bytes (e2 :: t)).
      intros Hnil. apply app_eq_nil in Hnil as [_ Hnil]. apply app_eq_nil in Hnil as [Hnil _].
      exact (proj1 (proj2 (elem_step e He)) Hnil). }
  remember (elems_bytes es) as eb eqn:Eb. destruct eb as [|x l']; [congruence|]. rewrite Eb in *. clear Eb x l'.
  assert (Hflags : forall (w : Z) (b : bool), 1 <= w <= 3 ->
            negb (Z.shiftr (Z.land (w * 16 + (if b then 8 else 0)) 128) 7 =? 0) = false /\
            negb (Z.shiftr (Z.land (w * 16 + (if b then 8 else 0)) 64) 6 =? 0) = false /\
            negb (Z.shiftr (Z.land (w * 16 + (if b then 8 else 0)) 8) 3 =? 0) = b /\
            Z.shiftr (Z.land (w * 16 + (if b then 8 else 0)) 48) 4 = w).
  { intros w b H. assert (C : w = 1 \/ w = 2 \/ w = 3) by lia.
    destruct C as [->|[->| ->]]; destruct b; repeat split; reflexivity. }
  destruct (Hflags (zlen es) n Hw) as (Fz & Fy & Fn & Fw). rewrite Fz, Fy, Fn, Fw. cbn [andb ap_elems].
  rewrite (av1p_body_elems es (S (length (elems_bytes es))) (zlen es) 1 [] Hne Hall Hw ltac:(lia) ltac:(lia) ltac:(lia)).
  cbn [rev app]. eexists. split; [reflexivity|]. cbn [ap_elems ap_z ap_y ap_w ap_n].
  repeat split. unfold read_frames. cbn [ap_elems ap_z ap_y].
  destruct (map elem es) eqn:Em; reflexivity.
Qed.
