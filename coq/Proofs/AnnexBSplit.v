(* The Annex-B splitter recovers exactly the NAL units of a stream in which every unit is valid
   (non-empty, no start code inside, last byte non-zero - what emulation prevention guarantees)
   and preceded by a 3- or 4-byte start code. *)
From Coq Require Import ZArith List Lia Bool.
From Coq Require Import ZifyBool.
From RTP Require Import Model.AnnexB.
Import ListNotations.
Open Scope Z_scope.

Definition sc3 := [0;0;1].
Definition sc4 := [0;0;0;1].

Definition valid_nal (n : list Z) := n <> [] /\ find_sc n = None /\ last n 1 <> 0.

(* where the first start code is, when a valid nal is followed by a 3- or 4-byte code *)
Lemma find_sc_app3 : forall n r, find_sc n = None -> last n 1 <> 0 ->
  find_sc (n ++ sc3 ++ r) = Some (length n).
Proof.
  induction n as [|a n IH]; intros r Hn Hl.
  - reflexivity.
  - cbn [app find_sc] in *.
    destruct (is_sc (a :: n)) eqn:E; [discriminate|].
    destruct (find_sc n) eqn:Fn; [discriminate|].
    assert (Hl' : last n 1 <> 0).
    { destruct n; [cbn; lia|]. exact Hl. }
    rewrite (IH r eq_refl Hl'). cbn [option_map length].
    assert (is_sc (a :: n ++ sc3 ++ r) = false) as ->; [|reflexivity].
    destruct n as [|b [|c n']]; cbn in *.
    + destruct (a =? 0) eqn:?; cbn; auto; lia.
    + destruct (a =? 0) eqn:?; destruct (b =? 0) eqn:?; cbn; auto; lia.
    + exact E.
Qed.

Lemma find_sc_app4 : forall n r, n <> [] -> find_sc n = None -> last n 1 <> 0 ->
  find_sc (n ++ sc4 ++ r) = Some (S (length n)).
Proof.
  induction n as [|a n IH]; intros r Hne Hn Hl.
  - congruence.
  - cbn [app find_sc] in *.
    destruct (is_sc (a :: n)) eqn:E; [discriminate|].
    destruct (find_sc n) eqn:Fn; [discriminate|].
    destruct n as [|b n].
    + cbn in *. destruct (a =? 0) eqn:?; [lia|]. reflexivity.
    + assert (Hl' : last (b :: n) 1 <> 0) by exact Hl.
      rewrite (IH r ltac:(congruence) eq_refl Hl'). cbn [option_map length].
      assert (is_sc (a :: (b :: n) ++ sc4 ++ r) = false) as ->; [|reflexivity].
      destruct n as [|c n']; cbn in *.
      * destruct (a =? 0) eqn:?; destruct (b =? 0) eqn:?; cbn; auto; lia.
      * exact E.
Qed.

Lemma firstn_app_len {A} (a b : list A) : firstn (length a) (a ++ b) = a.
Proof. induction a; cbn; congruence. Qed.
Lemma skipn_app_len {A} (a b : list A) k : skipn (length a + k) (a ++ b) = skipn k b.
Proof. induction a; cbn; auto. Qed.

Lemma nth_last_app : forall (n r : list Z), n <> [] -> nth (pred (length n)) (n ++ r) 1 = last n 1.
Proof.
  induction n as [|a n IH]; intros r H; [congruence|].
  destruct n as [|b n]; [reflexivity|].
  change (nth (pred (length (a :: b :: n))) ((a :: b :: n) ++ r) 1)
    with (nth (pred (length (b :: n))) ((b :: n) ++ r) 1).
  rewrite IH by congruence. reflexivity.
Qed.

(* a stream: each nal preceded by a start code (true = 4-byte) *)
Fixpoint stream (xs : list (bool * list Z)) : list Z :=
  match xs with
  | [] => []
  | (b, n) :: t => (if b then sc4 else sc3) ++ n ++ stream t
  end.

(* tail of a stream after the start code of the first nal: n ++ stream t *)
Lemma split_stream : forall t n fuel, valid_nal n -> Forall (fun x => valid_nal (snd x)) t ->
  (length (n ++ stream t) < fuel)%nat ->
  split fuel (n ++ stream t) = n :: map snd t.
Proof.
  induction t as [|[b m] t IH]; intros n fuel (Hne & Hsc & Hl) Ht Hf.
  - cbn [stream] in *. rewrite app_nil_r in *. destruct fuel; [lia|]. cbn [split]. rewrite Hsc. reflexivity.
  - inversion Ht as [|? ? Hm Ht']; subst. cbn [snd] in Hm.
    destruct fuel; [lia|]. cbn [split stream map snd].
    destruct b.
    + rewrite find_sc_app4 by auto.
      destruct (length n) eqn:Ln; [destruct n; cbn in Ln; congruence|].
      assert (Hz : nth (S n0) (n ++ sc4 ++ m ++ stream t) 1 = 0).
      { replace (S n0) with (length n + 0)%nat by lia. rewrite app_nth2_plus. reflexivity. }
      rewrite Hz. cbn [Z.eqb pred]. rewrite <- Ln.
      rewrite firstn_app_len. f_equal.
      replace (S (length n) + 3)%nat with (length n + 4)%nat by lia.
      rewrite skipn_app_len. cbn [sc4 app skipn].
      apply IH; auto. cbn [stream] in Hf. rewrite !app_length in Hf. cbn [sc4 length] in Hf. rewrite app_length. lia.
    + rewrite find_sc_app3 by auto.
      destruct (length n) eqn:Ln; [destruct n; cbn in Ln; congruence|].
      assert (Hz : nth n0 (n ++ sc3 ++ m ++ stream t) 1 = last n 1).
      { replace n0 with (pred (length n)) by lia. apply nth_last_app; auto. }
      rewrite Hz. destruct (last n 1 =? 0) eqn:E0; [lia|].
      rewrite <- Ln. rewrite firstn_app_len. f_equal.
      rewrite skipn_app_len. cbn [sc3 app skipn].
      apply IH; auto. cbn [stream] in Hf. rewrite !app_length in Hf. cbn [sc3 length] in Hf. rewrite app_length. lia.
Qed.

Theorem emit_nalus_stream : forall b n t, valid_nal n -> Forall (fun x => valid_nal (snd x)) t ->
  emit_nalus (stream ((b, n) :: t)) = n :: map snd t.
Proof.
  intros b n t Hn Ht. unfold emit_nalus. cbn [stream].
  destruct b.
  - change (sc4 ++ n ++ stream t) with (0 :: sc3 ++ n ++ stream t).
    cbn [find_sc is_sc sc3 app]. cbn [Z.eqb andb option_map find_sc is_sc].
    cbn [Nat.add skipn]. apply split_stream; auto. cbn [length]. lia.
  - cbn [find_sc is_sc sc3 app Z.eqb andb]. cbn [Nat.add skipn].
    apply split_stream; auto. cbn [length]. lia.
Qed.
