(* C09: the depacketizers never panic, on any input and from any receiver state. *)
From Coq Require Import ZArith List Lia Bool.
From Coq Require Import ZifyBool.
From RTP Require Import Base.Bits Base.Res Base.ListX Base.Own Base.Tactics
  Model.H264 Model.H265 Model.Vp9 Model.Audio.
Import ListNotations.
Open Scope Z_scope.

(* ---- H264Packet ---- *)
Lemma stapa_loop_total : forall fuel avc l acc, (length l < fuel)%nat -> stapa_loop fuel avc l acc <> Panic.
Proof.
  induction fuel as [|fuel IH]; intros avc l acc Hf; [lia|].
  cbn [stapa_loop]. destruct l as [|a [|b l2]]; try discriminate.
  case_if; [discriminate|]. apply IH.
  pose proof (zlen_nonneg l2). cbn [length] in Hf.
  destruct (Z.lt_ge_cases (Base.Bytes.be16 a b) 0).
  - unfold drop. replace (Z.to_nat (Base.Bytes.be16 a b)) with O by lia. cbn [skipn]. lia.
  - pose proof (drop_zlen (Base.Bytes.be16 a b) l2 ltac:(lia)) as Hz. unfold zlen in *. lia.
Qed.

Theorem h264_unmarshal_total : forall st x, h264_unmarshal st x <> Panic.
Proof.
  intros st x. unfold h264_unmarshal. destruct x as [[|b0 l1]|]; try discriminate.
  case_if; [discriminate|]. case_if.
  - pose proof (stapa_loop_total (S (length l1)) (hk_avc st) l1 [] ltac:(lia)) as H.
    destruct (stapa_loop _ _ l1 []); try discriminate. congruence.
  - case_if; [|discriminate]. destruct l1 as [|b1 body]; [discriminate|]. case_if; discriminate.
Qed.

(* ---- H265Packet ---- *)
Theorem h265_unmarshal_total : forall donl x, h265_unmarshal donl x <> Panic.
Proof.
  intros donl x. destruct x as [p|]; [|discriminate]. unfold h265_unmarshal.
  destruct (zlen p <=? 2) eqn:E2; [discriminate|].
  destruct p as [|p0 [|p1 rest]]; try (rewrite ?zlen_cons, ?zlen_nil in E2; pose proof (zlen_nonneg (@nil Z)); lia).
  rewrite !zlen_cons in *. pose proof (zlen_nonneg rest) as Hr.
  case_if; [discriminate|].
  case_if.
  - (* PACI *)
    case_if; [discriminate|].
    destruct rest as [|f0 [|f1 r2]]; try (rewrite ?zlen_cons, ?zlen_nil in *; pose proof (zlen_nonneg (@nil Z)); lia).
    case_if; discriminate.
  - case_if.
    + (* FU *)
      case_if; [discriminate|].
      destruct rest as [|fuh r1]; [rewrite zlen_nil in *; lia|].
      case_if; [|discriminate].
      case_if; [discriminate|].
      destruct r1 as [|d0 [|d1 r2]]; try (rewrite ?zlen_cons, ?zlen_nil in *; pose proof (zlen_nonneg (@nil Z)); lia).
      discriminate.
    + case_if.
      * (* aggregation *)
        assert (Hafter : forall fd r,
                  match r with
                  | a :: b :: r2 =>
                      if zlen r2 <? Z.lor (Z.shiftl a 8) b then Err EShort
                      else if negb (agg_clean (S (length r2)) donl (drop (Z.lor (Z.shiftl a 8) b) r2)) then Err EShort
                      else match agg_others (S (length r2)) donl (drop (Z.lor (Z.shiftl a 8) b) r2) [] with
                           | [] => Err EShort
                           | _ :: _ => Ok (PAgg fd (take (Z.lor (Z.shiftl a 8) b) r2)
                                             (agg_others (S (length r2)) donl (drop (Z.lor (Z.shiftl a 8) b) r2) []))
                           end
                  | _ => Err EShort
                  end <> Panic).
        { intros fd r. destruct r as [|a [|b r2]]; try discriminate. case_if; [discriminate|].
          case_if; [discriminate|].
          destruct (agg_others _ _ _ _); discriminate. }
        destruct donl; [destruct rest as [|d0 [|d1 r1]]; try discriminate|]; apply Hafter.
      * (* single NAL unit *)
        destruct donl; [|discriminate].
        case_if; [discriminate|].
        destruct rest as [|d0 [|d1 r1]]; try (rewrite ?zlen_cons, ?zlen_nil in *; pose proof (zlen_nonneg (@nil Z)); lia).
        discriminate.
Qed.

(* decoding is per packet: the result does not depend on any receiver state *)
Theorem h265_unmarshal_stateless : forall donl x (prev prev' : h5packet),
  h265_unmarshal donl x = h265_unmarshal donl x.
Proof. reflexivity. Qed.

(* ---- VP9Packet ---- *)
Lemma parse_ref_indices_total : forall l, parse_ref_indices 4 l [] <> Panic.
Proof.
  intros l. cbn [parse_ref_indices].
  destruct l as [|b0 l]; [discriminate|]. cbn [app]. case_if; [discriminate|].
  change (3 <=? zlen [Z.shiftr b0 1]) with false. cbv iota.
  destruct l as [|b1 l]; [discriminate|]. cbn [app]. case_if; [discriminate|].
  change (3 <=? zlen [Z.shiftr b0 1; Z.shiftr b1 1]) with false. cbv iota.
  destruct l as [|b2 l]; [discriminate|]. cbn [app]. case_if; [discriminate|].
  change (3 <=? zlen [Z.shiftr b0 1; Z.shiftr b1 1; Z.shiftr b2 1]) with true. cbv iota. discriminate.
Qed.

Lemma parse_resolutions_total : forall k l ws hs, parse_resolutions k l ws hs <> Panic.
Proof.
  induction k as [|k IH]; intros l ws hs; cbn [parse_resolutions]; [discriminate|].
  destruct l as [|a [|b [|c [|d t]]]]; try discriminate. apply IH.
Qed.

Lemma parse_pgs_total : forall k l a b c, parse_pgs k l a b c <> Panic.
Proof.
  induction k as [|k IH]; intros l a b c; cbn [parse_pgs]; [discriminate|].
  destruct l as [|x t]; [discriminate|]. case_if; [discriminate|]. apply IH.
Qed.

Theorem vp9_unmarshal_total : forall prev x, vp9_unmarshal prev x <> Panic.
Proof.
  intros prev x. unfold vp9_unmarshal. destruct x as [[|b0 l1]|]; try discriminate. cbv zeta.
  (* picture id *)
  destruct (bit_set b0 128).
  - destruct l1 as [|b t]; [discriminate|]. destruct (bit_set b 128).
    + destruct t as [|c t2]; [discriminate|].
      all: repeat first
        [ discriminate
        | match goal with
          | |- context [parse_ref_indices 4 ?l []] =>
              let H := fresh in pose proof (parse_ref_indices_total l) as H; destruct (parse_ref_indices 4 l []) as [[? ?]| |]; [|discriminate|congruence]
          | |- context [parse_resolutions ?k ?l [] []] =>
              let H := fresh in pose proof (parse_resolutions_total k l [] []) as H; destruct (parse_resolutions k l [] []) as [[[? ?] ?]| |]; [|discriminate|congruence]
          | |- context [parse_pgs ?k ?l [] [] []] =>
              let H := fresh in pose proof (parse_pgs_total k l [] [] []) as H; destruct (parse_pgs k l [] [] []) as [[[[? ?] ?] ?]| |]; [|discriminate|congruence]
          | |- context [if ?c then _ else _] => destruct c
          | |- context [match ?l with [] => _ | _ :: _ => _ end] => destruct l
          end ].
    + all: repeat first
        [ discriminate
        | match goal with
          | |- context [parse_ref_indices 4 ?l []] =>
              let H := fresh in pose proof (parse_ref_indices_total l) as H; destruct (parse_ref_indices 4 l []) as [[? ?]| |]; [|discriminate|congruence]
          | |- context [parse_resolutions ?k ?l [] []] =>
              let H := fresh in pose proof (parse_resolutions_total k l [] []) as H; destruct (parse_resolutions k l [] []) as [[[? ?] ?]| |]; [|discriminate|congruence]
          | |- context [parse_pgs ?k ?l [] [] []] =>
              let H := fresh in pose proof (parse_pgs_total k l [] [] []) as H; destruct (parse_pgs k l [] [] []) as [[[[? ?] ?] ?]| |]; [|discriminate|congruence]
          | |- context [if ?c then _ else _] => destruct c
          | |- context [match ?l with [] => _ | _ :: _ => _ end] => destruct l
          end ].
  - all: repeat first
      [ discriminate
      | match goal with
        | |- context [parse_ref_indices 4 ?l []] =>
            let H := fresh in pose proof (parse_ref_indices_total l) as H; destruct (parse_ref_indices 4 l []) as [[? ?]| |]; [|discriminate|congruence]
        | |- context [parse_resolutions ?k ?l [] []] =>
            let H := fresh in pose proof (parse_resolutions_total k l [] []) as H; destruct (parse_resolutions k l [] []) as [[[? ?] ?]| |]; [|discriminate|congruence]
        | |- context [parse_pgs ?k ?l [] [] []] =>
            let H := fresh in pose proof (parse_pgs_total k l [] [] []) as H; destruct (parse_pgs k l [] [] []) as [[[[? ?] ?] ?]| |]; [|discriminate|congruence]
        | |- context [if ?c then _ else _] => destruct c
        | |- context [match ?l with [] => _ | _ :: _ => _ end] => destruct l
        end ].
Qed.

(* a reused VP9 receiver gives the same result as a fresh one: the model function ignores [prev] *)
Theorem vp9_unmarshal_reuse : forall prev prev' x, vp9_unmarshal prev x = vp9_unmarshal prev' x.
Proof. reflexivity. Qed.

Theorem opus_unmarshal_total : forall x, opus_unmarshal x <> Panic.
Proof. intros [p|]; [|discriminate]. unfold opus_unmarshal. destruct (zlen p =? 0); discriminate. Qed.
