(* C02: Header.Unmarshal / Packet.Unmarshal are total and bounded on arbitrary input, and the
   result does not depend on what the receiver held before. *)
From Coq Require Import ZArith List Lia Bool.
From Coq Require Import ZifyBool.
From RTP Require Import Base.Bits Base.Res Base.ListX Base.Bytes Base.Tactics Model.RtpPacket.
Import ListNotations.
Open Scope Z_scope.

(* the value of element e sits at absolute offset off of buf *)
Definition ext_at (buf : list Z) (e : ext) (off : Z) : Prop :=
  0 <= off /\ off + zlen (epayload e) <= zlen buf /\
  epayload e = take (zlen (epayload e)) (drop off buf).

Lemma drop_cons_next {A} n (buf : list A) b l : 0 <= n -> drop n buf = b :: l -> drop (n + 1) buf = l.
Proof.
  intros Hn H. rewrite <- (drop_drop 1 n) by lia. rewrite H. reflexivity.
Qed.

Lemma drop_nonempty_lt {A} n (buf : list A) b l : 0 <= n -> drop n buf = b :: l -> n < zlen buf.
Proof.
  intros Hn H. destruct (Z.lt_ge_cases n (zlen buf)); [assumption|].
  rewrite drop_all in H by lia. discriminate.
Qed.

Lemma zlen_drop_eq {A} n (buf : list A) l : 0 <= n <= zlen buf -> drop n buf = l -> zlen l = zlen buf - n.
Proof. intros Hn H. rewrite <- H. apply drop_zlen. assumption. Qed.

Lemma Forall2_app_one {A B} (P : A -> B -> Prop) l1 l2 a b :
  Forall2 P l1 l2 -> P a b -> Forall2 P (l1 ++ [a]) (l2 ++ [b]).
Proof. intros H1 H2. apply Forall2_app; [assumption|constructor; [assumption|constructor]]. Qed.

Lemma Forall_skipn {A} (P : A -> Prop) : forall k (l : list A), Forall P l -> Forall P (skipn k l).
Proof.
  induction k as [|k IH]; intros l H; [exact H|].
  destruct l as [|a l]; [constructor|]. cbn [skipn]. apply IH. inversion H; assumption.
Qed.

Lemma bytes_ok_drop n (buf : list Z) : bytes_ok buf -> bytes_ok (drop n buf).
Proof. unfold bytes_ok, drop. apply Forall_skipn. Qed.

Lemma mono_le (acc : list ext) (offs : list Z) n k :
  Forall2 (fun e off => off + zlen (epayload e) <= n) acc offs -> n <= k ->
  Forall2 (fun e off => off + zlen (epayload e) <= k) acc offs.
Proof. intros H Hk. induction H; constructor; [lia|assumption]. Qed.

(* the element loop: never panics, and everything it returns lies inside buf *)
Lemma parse_exts_safe : forall fuel two l n ext_end acc offs buf,
  bytes_ok buf ->
  0 <= n <= zlen buf -> drop n buf = l -> ext_end <= zlen buf ->
  (length l < fuel)%nat ->
  Forall2 (ext_at buf) (rev acc) (rev offs) ->
  Forall2 (fun e off => off + zlen (epayload e) <= n) (rev acc) (rev offs) ->
  match parse_exts fuel two l n ext_end acc offs with
  | Ok (exts, os, nf, rest) =>
      n <= nf <= zlen buf /\ rest = drop nf buf /\ Forall2 (ext_at buf) exts os /\
      Forall2 (fun e off => off + zlen (epayload e) <= nf) exts os
  | Err _ => True
  | Panic => False
  end.
Proof.
  induction fuel as [|fuel IH]; intros two l n ext_end acc offs buf Hok Hn Hl Hend Hf Hacc Hle; [lia|].
  cbn [parse_exts]. case_if.
  { repeat split; try lia; auto. }
  pose proof (zlen_drop_eq n buf l Hn Hl) as Hzl.
  destruct l as [|b l1]; [rewrite zlen_nil in Hzl; lia|].
  pose proof (drop_cons_next n buf b l1 ltac:(lia) Hl) as Hl1.
  pose proof (bytes_ok_drop n buf Hok) as Hokl. rewrite Hl in Hokl.
  apply Forall_cons_iff in Hokl as [Hb Hokl1]. unfold is_byte in Hb.
  rewrite zlen_cons in Hzl. cbn [length] in Hf.
  pose proof (zlen_nonneg l1) as Hl1nn.
  case_if.
  - (* padding *)
    specialize (IH two l1 (n + 1) ext_end acc offs buf Hok ltac:(lia) Hl1 Hend ltac:(lia) Hacc
                   (mono_le _ _ n (n + 1) Hle ltac:(lia))).
    destruct (parse_exts fuel two l1 (n + 1) ext_end acc offs) as [[[[exts os] nf] rest]| |]; auto.
    destruct IH as (H1 & H2 & H3 & H4). repeat split; auto; lia.
  - destruct two.
    + (* two-byte *)
      destruct l1 as [|len l2]; [exact I|].
      pose proof (drop_cons_next (n + 1) buf len l2 ltac:(lia) Hl1) as Hl2.
      replace (n + 1 + 1) with (n + 2) in Hl2 by lia.
      apply Forall_cons_iff in Hokl1 as [Hlen _]. unfold is_byte in Hlen.
      rewrite zlen_cons in *. pose proof (zlen_nonneg l2) as Hl2nn.
      case_if; [exact I|].
      case_if; [lia|].
      assert (Hd : drop (n + 2 + len) buf = drop len l2).
      { rewrite <- Hl2. rewrite drop_drop by lia. reflexivity. }
      assert (Hat : ext_at buf (mkExt b (take len l2)) (n + 2)).
      { unfold ext_at. cbn [epayload]. rewrite take_zlen by lia. rewrite Hl2. repeat split; lia. }
      specialize (IH true (drop len l2) (n + 2 + len) ext_end (mkExt b (take len l2) :: acc) (n + 2 :: offs) buf
                     Hok ltac:(lia) Hd Hend).
      cbn [rev] in IH.
      assert (Hf2 : (length (drop len l2) < fuel)%nat).
      { pose proof (drop_zlen len l2 ltac:(lia)) as Hz. unfold zlen in *. cbn [length] in Hf. lia. }
      specialize (IH Hf2 (Forall2_app_one _ _ _ _ _ Hacc Hat)).
      assert (Hle2 : Forall2 (fun e off => off + zlen (epayload e) <= n + 2 + len)
                             (rev acc ++ [mkExt b (take len l2)]) (rev offs ++ [n + 2])).
      { apply Forall2_app_one; [apply (mono_le _ _ n); [assumption|lia]|].
        cbn [epayload]. rewrite take_zlen by lia. lia. }
      specialize (IH Hle2).
      destruct (parse_exts fuel true (drop len l2) (n + 2 + len) ext_end _ _) as [[[[exts os] nf] rest]| |]; auto.
      destruct IH as (H1 & H2 & H3 & H4). repeat split; auto; lia.
    + (* one-byte *)
      set (len := u8 (Z.land b 15 + 1)).
      assert (Hlen : 1 <= len <= 16) by (unfold len, u8; rewrite land_15; lia).
      case_if.
      * (* reserved id: the cursor stays right behind the id byte *)
        repeat split; try lia; auto. apply (mono_le _ _ n); [assumption|lia].
      * case_if; [exact I|].
        case_if; [lia|].
        assert (Hd : drop (n + 1 + len) buf = drop len l1).
        { rewrite <- Hl1. rewrite drop_drop by lia. reflexivity. }
        assert (Hat : ext_at buf (mkExt (Z.shiftr b 4) (take len l1)) (n + 1)).
        { unfold ext_at. cbn [epayload]. rewrite take_zlen by lia. rewrite Hl1. repeat split; lia. }
        specialize (IH false (drop len l1) (n + 1 + len) ext_end (mkExt (Z.shiftr b 4) (take len l1) :: acc)
                       (n + 1 :: offs) buf Hok ltac:(lia) Hd Hend).
        cbn [rev] in IH.
        assert (Hf2 : (length (drop len l1) < fuel)%nat).
        { pose proof (drop_zlen len l1 ltac:(lia)) as Hz. unfold zlen in *. lia. }
        specialize (IH Hf2 (Forall2_app_one _ _ _ _ _ Hacc Hat)).
        assert (Hle2 : Forall2 (fun e off => off + zlen (epayload e) <= n + 1 + len)
                               (rev acc ++ [mkExt (Z.shiftr b 4) (take len l1)]) (rev offs ++ [n + 1])).
        { apply Forall2_app_one; [apply (mono_le _ _ n); [assumption|lia]|].
          cbn [epayload]. rewrite take_zlen by lia. lia. }
        specialize (IH Hle2).
        destruct (parse_exts fuel false (drop len l1) (n + 1 + len) ext_end _ _) as [[[[exts os] nf] rest]| |]; auto.
        destruct IH as (H1 & H2 & H3 & H4). repeat split; auto; lia.
Qed.

Lemma read_csrcs_safe : forall k l, 4 * Z.of_nat k <= zlen l ->
  exists cs, read_csrcs k l = Ok (cs, drop (4 * Z.of_nat k) l) /\ length cs = k.
Proof.
  induction k as [|k IH]; intros l H.
  - exists []. split; reflexivity.
  - destruct l as [|a [|b [|c [|d l']]]]; rewrite ?zlen_cons, ?zlen_nil in H; try lia.
    destruct (IH l' ltac:(lia)) as (cs & Hr & Hlen). cbn [read_csrcs]. rewrite Hr. cbn [bind].
    exists (be32 a b c d :: cs). split; [|cbn [length]; rewrite Hlen; reflexivity].
    f_equal. f_equal. unfold drop. replace (Z.to_nat (4 * Z.of_nat (S k))) with (4 + Z.to_nat (4 * Z.of_nat k))%nat by lia.
    reflexivity.
Qed.

Definition header_post (buf : list Z) (r : hdr_result) : Prop :=
  0 <= hr_n r <= zlen buf /\ hr_rest r = drop (hr_n r) buf /\
  Forall2 (ext_at buf) (extensions (hr_header r)) (hr_offsets r) /\
  Forall2 (fun e off => off + zlen (epayload e) <= hr_n r) (extensions (hr_header r)) (hr_offsets r).

Theorem header_unmarshal_safe : forall prev buf, bytes_ok buf ->
  match header_unmarshal_into prev buf with
  | Ok r => header_post buf r
  | Err _ => True
  | Panic => False
  end.
Proof.
  intros prev buf Hok. unfold header_unmarshal_into.
  destruct buf as [|b0 [|b1 [|s0 [|s1 l4]]]]; try exact I.
  cbv zeta. set (buf := b0 :: b1 :: s0 :: s1 :: l4) in *.
  assert (Hb0 : is_byte b0) by (inversion Hok; assumption). unfold is_byte in Hb0.
  set (ncsrc := Z.land b0 15).
  assert (Hnc : 0 <= ncsrc <= 15) by (unfold ncsrc; rewrite land_15; lia).
  case_if; [exact I|].
  assert (Hlen : 12 + ncsrc * 4 <= zlen buf) by lia.
  destruct l4 as [|t0 [|t1 [|t2 [|t3 [|r0 [|r1 [|r2 [|r3 l12]]]]]]]];
    try (unfold buf in Hlen; rewrite ?zlen_cons, ?zlen_nil in Hlen; lia).
  assert (Hz12 : zlen buf = 12 + zlen l12) by (unfold buf; rewrite !zlen_cons; lia).
  destruct (read_csrcs_safe (Z.to_nat ncsrc) l12 ltac:(lia)) as (cs & Hr & Hcl).
  rewrite Hr. cbn [bind].
  assert (Hdrop12 : drop 12 buf = l12) by reflexivity.
  assert (Hlc : drop (4 * Z.of_nat (Z.to_nat ncsrc)) l12 = drop (12 + ncsrc * 4) buf).
  { rewrite <- Hdrop12. rewrite drop_drop by lia. f_equal. lia. }
  rewrite Hlc. set (n := 12 + ncsrc * 4) in *.
  pose proof (zlen_nonneg l12).
  case_if.
  - (* extension present *)
    destruct (drop n buf) as [|p0 [|p1 [|e0 [|e1 le]]]] eqn:Hdn; try exact I.
    assert (Hle : drop (n + 4) buf = le).
    { rewrite <- (drop_drop 4 n) by lia. rewrite Hdn. reflexivity. }
    pose proof (zlen_drop_eq n buf _ ltac:(lia) Hdn) as Hzn. rewrite !zlen_cons in Hzn.
    pose proof (bytes_ok_drop n buf Hok) as Hokn. rewrite Hdn in Hokn.
    assert (He : is_byte e0 /\ is_byte e1).
    { inversion Hokn as [|? ? _ Hk2]; inversion Hk2 as [|? ? _ Hk3]; inversion Hk3 as [|? ? Hk0 Hk4]; inversion Hk4; auto. }
    destruct He as [He0 He1]. unfold is_byte in *.
    assert (Hel : 0 <= be16 e0 e1 * 4) by (rewrite be16_arith by (unfold is_byte; lia); lia).
    set (ext_len := be16 e0 e1 * 4) in *.
    pose proof (zlen_nonneg le).
    case_if; [exact I|].
    case_if.
    + pose proof (parse_exts_safe (S (length le)) (ext_form (be16 p0 p1) =? profile_two_byte) le (n + 4) (n + 4 + ext_len)
                   [] [] buf Hok ltac:(lia) Hle ltac:(lia) ltac:(lia) ltac:(constructor) ltac:(constructor)) as Hp.
      destruct (parse_exts _ _ le (n + 4) (n + 4 + ext_len) [] []) as [[[[exts os] nf] rest]| |]; auto.
      destruct Hp as (H1 & H2 & H3 & H4). cbn [bind]. unfold header_post.
      cbn [hr_n hr_rest hr_header hr_offsets extensions]. repeat split; auto; lia.
    + unfold header_post. cbn [hr_n hr_rest hr_header hr_offsets extensions].
      split; [lia|]. split.
      * rewrite <- Hle. rewrite drop_drop by lia. f_equal; lia.
      * split; (constructor; [|constructor]).
        -- unfold ext_at. cbn [epayload]. rewrite take_zlen by lia. rewrite Hle. repeat split; lia.
        -- cbn [epayload]. rewrite take_zlen by lia. lia.
  - unfold header_post. cbn [hr_n hr_rest hr_header hr_offsets extensions].
    repeat split; try lia; constructor.
Qed.

Theorem header_unmarshal_no_panic : forall prev buf, bytes_ok buf -> header_unmarshal_into prev buf <> Panic.
Proof.
  intros prev buf Hok H. pose proof (header_unmarshal_safe prev buf Hok) as Hs. rewrite H in Hs. exact Hs.
Qed.

(* ------------------------------------------------------------------ *)
(* Packet.Unmarshal                                                    *)

Definition packet_post (buf : list Z) (r : pkt_result) : Prop :=
  let p := pr_packet r in
  0 <= pr_n r <= zlen buf /\
  0 <= padding_size p /\
  pr_n r + zlen (payload p) + padding_size p = zlen buf /\
  payload p = take (zlen (payload p)) (drop (pr_n r) buf) /\
  Forall2 (ext_at buf) (extensions (hdr p)) (pr_offsets r) /\
  Forall2 (fun e off => off + zlen (epayload e) <= pr_n r) (extensions (hdr p)) (pr_offsets r).

Lemma last_is_byte (l : list Z) : bytes_ok l -> l <> [] -> is_byte (last l 0).
Proof.
  induction l as [|a l IH]; intros H Hne; [congruence|].
  apply Forall_cons_iff in H as [Ha Hl]. destruct l as [|b l]; [exact Ha|].
  apply IH; [assumption|discriminate].
Qed.

Theorem packet_unmarshal_safe : forall prev buf, bytes_ok buf ->
  match packet_unmarshal_into prev buf with
  | Ok r => packet_post buf r
  | Err _ => True
  | Panic => False
  end.
Proof.
  intros prev buf Hok. unfold packet_unmarshal_into.
  pose proof (header_unmarshal_safe (hdr prev) buf Hok) as Hh.
  destruct (header_unmarshal_into (hdr prev) buf) as [hr| |]; [|exact I|exact Hh].
  cbn [bind]. destruct Hh as (Hn & Hrest & Hat & Hle).
  pose proof (zlen_drop_eq (hr_n hr) buf _ Hn (eq_sym Hrest)) as Hzr.
  case_if.
  - case_if; [exact I|].
    assert (Hne : hr_rest hr <> []) by (intros Hnil; rewrite Hnil, zlen_nil in Hzr; lia).
    pose proof (last_is_byte (hr_rest hr) ltac:(rewrite Hrest; apply bytes_ok_drop; assumption) Hne) as Hlast.
    unfold is_byte in Hlast.
    case_if; [exact I|].
    unfold packet_post. cbn [pr_packet pr_n pr_offsets payload padding_size hdr].
    set (k := zlen buf - last (hr_rest hr) 0 - hr_n hr).
    assert (Hk : zlen (take k (hr_rest hr)) = k) by (apply take_zlen; unfold k; lia).
    rewrite Hk. rewrite <- Hrest. unfold k. repeat split; auto; lia.
  - case_if; [exact I|].
    unfold packet_post. cbn [pr_packet pr_n pr_offsets payload padding_size hdr].
    rewrite <- Hrest. rewrite take_all by lia. repeat split; auto; lia.
Qed.

Theorem packet_unmarshal_no_panic : forall prev buf, bytes_ok buf -> packet_unmarshal_into prev buf <> Panic.
Proof.
  intros prev buf Hok H. pose proof (packet_unmarshal_safe prev buf Hok) as Hs. rewrite H in Hs. exact Hs.
Qed.

(* ------------------------------------------------------------------ *)
(* Receiver reuse                                                      *)

(* since repair D26 the result does not depend on the receiver at all: the previous value is not read *)
Theorem header_unmarshal_reuse : forall prev buf,
  header_unmarshal_into prev buf = header_unmarshal_into empty_header buf.
Proof. intros prev buf. reflexivity. Qed.

Theorem packet_unmarshal_reuse : forall prev buf,
  packet_unmarshal_into prev buf = packet_unmarshal_into empty_packet buf.
Proof. intros prev buf. unfold packet_unmarshal_into. rewrite (header_unmarshal_reuse (hdr prev) buf). reflexivity. Qed.
