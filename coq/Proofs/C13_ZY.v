(* C13, aggregation header rule "Z equals the previous packet's Y; the first packet has Z = 0 and
   the last packet has Y = 0", for every input and MTU: an invariant of the packet list the
   payloader builds (kept newest first). *)
From Coq Require Import ZArith List Lia Bool.
From Coq Require Import ZifyBool.
From RTP Require Import Base.Bits Base.Res Base.ListX Base.Tactics Model.Leb128 Model.Obu Model.Av1Pay.
Import ListNotations.
Open Scope Z_scope.

Definition hd0 (p : list Z) : Z := match p with h :: _ => h | [] => 0 end.
Definition zbit (p : list Z) : bool := negb (Z.land (hd0 p) 128 =? 0).
Definition ybit (p : list Z) : bool := negb (Z.land (hd0 p) 64 =? 0).

(* newest first: each packet's Z is the Y of the packet before it; the oldest has Z = 0 *)
Fixpoint linked (ps : list (list Z)) : Prop :=
  match ps with
  | [] => True
  | p :: t => p <> [] /\ zbit p = match t with q :: _ => ybit q | [] => false end /\ linked t
  end.
Definition closed (ps : list (list Z)) : Prop := match ps with p :: _ => ybit p = false | [] => True end.
Definition zy_inv (ps : list (list Z)) : Prop := linked ps /\ closed ps.

Lemma hd0_app p a : p <> [] -> hd0 (p ++ a) = hd0 p.
Proof. destruct p; [congruence|reflexivity]. Qed.
Lemma hd0_set_hdr f p : p <> [] -> hd0 (set_hdr f p) = f (hd0 p).
Proof. destruct p; [congruence|reflexivity]. Qed.
Lemma set_hdr_nonempty f p : p <> [] -> set_hdr f p <> [].
Proof. destruct p; [congruence|discriminate]. Qed.

(* OR-ing in the Y bit, a W count or the N bit leaves the other flag bits alone *)
Lemma land_lor_const h m k : Z.land (Z.lor h m) k = Z.lor (Z.land h k) (Z.land m k).
Proof. apply Z.land_lor_distr_l. Qed.

Lemma zbit_lor_64 h : negb (Z.land (Z.lor h 64) 128 =? 0) = negb (Z.land h 128 =? 0).
Proof. rewrite land_lor_const. change (Z.land 64 128) with 0. rewrite Z.lor_0_r. reflexivity. Qed.
Lemma ybit_lor_64 h : negb (Z.land (Z.lor h 64) 64 =? 0) = true.
Proof.
  rewrite land_lor_const. change (Z.land 64 64) with 64.
  destruct (Z.lor (Z.land h 64) 64 =? 0) eqn:E; [|reflexivity].
  apply Z.eqb_eq in E. apply Z.lor_eq_0_iff in E as [_ E]. discriminate.
Qed.
Lemma bits_lor_w h x k : k = 128 \/ k = 64 -> Z.land (Z.lor h (Z.land x 48)) k = Z.land h k.
Proof.
  intros Hk. rewrite land_lor_const, <- Z.land_assoc.
  destruct Hk as [-> | ->]; [change (Z.land 48 128) with 0|change (Z.land 48 64) with 0];
    rewrite Z.land_0_r, Z.lor_0_r; reflexivity.
Qed.

Lemma frag_loop_zy : forall fuel pays obu prev_write is_last mtu count pays' c,
  frag_loop fuel pays obu prev_write is_last mtu count = Ok (pays', c) ->
  zy_inv pays -> pays <> [] -> zy_inv pays' /\ pays' <> [].
Proof.
  induction fuel as [|fuel IH]; intros pays obu prev_write is_last mtu count pays' c; cbn [frag_loop]; [discriminate|].
  destruct (zlen obu <=? 0); [intros [= <- <-]; auto|].
  intros Hrun [Hl Hc] Hne. destruct pays as [|p t]; [congruence|]. clear Hne.
  destruct Hl as (Hpn & Hz & Hlt). cbn [closed] in Hc.
  set (p1 := if prev_write =? 0 then p else set_hdr (fun h => Z.lor h 64) p) in *.
  assert (Hp1n : p1 <> []) by (unfold p1; destruct (prev_write =? 0); [exact Hpn|apply set_hdr_nonempty; exact Hpn]).
  assert (Hp1z : zbit p1 = zbit p).
  { unfold p1. destruct (prev_write =? 0); [reflexivity|]. unfold zbit. rewrite hd0_set_hdr by exact Hpn. apply zbit_lor_64. }
  assert (Hp1y : ybit p1 = negb (prev_write =? 0)).
  { unfold p1. destruct (prev_write =? 0); [exact Hc|]. unfold ybit. rewrite hd0_set_hdr by exact Hpn. apply ybit_lor_64. }
  (* the packet that is opened: Z set iff the previous one was left open, Y clear *)
  assert (Hnew : forall newp, newp <> [] ->
            (hd0 newp = (if prev_write =? 0 then 0 else 128) \/ hd0 newp = Z.lor (if prev_write =? 0 then 0 else 128) 16) ->
            zy_inv (newp :: p1 :: t)).
  { intros newp Hnn Hh. split; [|cbn [closed]; unfold ybit; destruct Hh as [-> | ->]; destruct (prev_write =? 0); reflexivity].
    cbn [linked]. split; [exact Hnn|]. split.
    - rewrite Hp1y. unfold zbit. destruct Hh as [-> | ->]; destruct (prev_write =? 0); reflexivity.
    - split; [exact Hp1n|]. split; [rewrite Hp1z; exact Hz|exact Hlt]. }
  destruct (is_last || (mtu - 1 <=? zlen obu)).
  - destruct (checked_take _ obu) as [[a b]|]; [|discriminate]. 
    apply IH in Hrun; [exact Hrun| |discriminate].
    apply Hnew; [discriminate|]. right. reflexivity.
  - destruct (checked_take _ obu) as [[a b]|]; [|discriminate].
    apply IH in Hrun; [exact Hrun| |discriminate].
    apply Hnew; [discriminate|]. left. reflexivity.
Qed.

Lemma append_obu_zy pays obu is_new_seq is_last start_new mtu count pays' c :
  append_obu pays obu is_new_seq is_last start_new mtu count = Ok (pays', c) ->
  zy_inv pays -> zy_inv pays' /\ pays' <> [].
Proof.
  unfold append_obu. intros Hrun [Hl Hc].
  set (need_new := match pays with [] => true | _ => ((match pays with p :: _ => mtu - zlen p | [] => 0 end) <=? 0) || start_new end) in *.
  set (pays1 := if need_new then [if is_new_seq then 8 else 0] :: pays else pays) in *.
  assert (Hinv1 : zy_inv pays1 /\ pays1 <> []).
  { unfold pays1. destruct need_new eqn:En.
    - split; [|discriminate]. split; [|cbn [closed]; destruct is_new_seq; reflexivity].
      cbn [linked]. split; [discriminate|]. split; [|exact Hl].
      destruct pays as [|q t]; [destruct is_new_seq; reflexivity|].
      cbn [closed] in Hc. rewrite Hc. destruct is_new_seq; reflexivity.
    - split; [split; assumption|]. unfold need_new in En. destruct pays; [discriminate|discriminate]. }
  destruct Hinv1 as [[Hl1 Hc1] Hne1]. destruct pays1 as [|p t] eqn:Ep1; [congruence|].
  destruct Hl1 as (Hpn & Hz & Hlt). cbn [closed] in Hc1.
  (* appending to the current packet, with or without touching its W field, keeps Z and Y *)
  assert (Hkeep : forall p', p' <> [] -> (Z.land (hd0 p') 128 = Z.land (hd0 p) 128) ->
            (Z.land (hd0 p') 64 = Z.land (hd0 p) 64) -> zy_inv (p' :: t)).
  { intros p' Hn H128 H64. split; [|cbn [closed]; unfold ybit in *; rewrite H64; exact Hc1].
    cbn [linked]. split; [exact Hn|]. split; [unfold zbit in *; rewrite H128; exact Hz|exact Hlt]. }
  match type of Hrun with (if ?c then _ else _) = _ => destruct c end.
  - destruct (checked_take _ obu) as [[a b]|]; [|discriminate].
    apply frag_loop_zy in Hrun; [exact Hrun| |discriminate].
    apply Hkeep.
    + intros Hnil. apply app_eq_nil in Hnil as [Hnil _]. revert Hnil. apply set_hdr_nonempty. exact Hpn.
    + rewrite hd0_app by (apply set_hdr_nonempty; exact Hpn). rewrite hd0_set_hdr by exact Hpn.
      apply bits_lor_w. left. reflexivity.
    + rewrite hd0_app by (apply set_hdr_nonempty; exact Hpn). rewrite hd0_set_hdr by exact Hpn.
      apply bits_lor_w. right. reflexivity.
  - match type of Hrun with (if ?c then _ else _) = _ => destruct c end.
    + destruct (checked_take _ obu) as [[a b]|]; [|discriminate].
      apply frag_loop_zy in Hrun; [exact Hrun| |discriminate].
      apply Hkeep.
      * intros Hnil. apply app_eq_nil in Hnil as [Hnil _]. congruence.
      * rewrite hd0_app by exact Hpn. reflexivity.
      * rewrite hd0_app by exact Hpn. reflexivity.
    + apply frag_loop_zy in Hrun; [exact Hrun| |discriminate].
      apply Hkeep; [exact Hpn|reflexivity|reflexivity].
Qed.

Lemma flush_pending_zy mtu st need st' : flush_pending mtu st need = Ok st' -> zy_inv (pays st) -> zy_inv (pays st').
Proof.
  unfold flush_pending. destruct (pending st) as [|x pe].
  - destruct need; intros [= <-]; auto.
  - destruct (append_obu (pays st) (x :: pe) (new_seq st) need (start_new st) mtu (cnt st)) as [[ps c]|e|] eqn:E; try discriminate.
    intros [= <-] Hinv. cbn [pays]. exact (proj1 (append_obu_zy _ _ _ _ _ _ _ _ _ E Hinv)).
Qed.

Lemma pay_loop_zy : forall fuel mtu rest st st', pay_loop fuel mtu rest st = Ok st' -> zy_inv (pays st) -> zy_inv (pays st').
Proof.
  induction fuel as [|fuel IH]; intros mtu rest st st'; cbn [pay_loop]; [discriminate|].
  destruct rest as [|x rest']; [intros [= <-]; auto|].
  destruct (parse_obu_header (x :: rest')) as [h|]; [|intros [= <-]; auto].
  match goal with |- context [match ?sz with Some _ => _ | None => _ end] => destruct sz as [[obu_size rest2]|] end;
    [|intros [= <-]; auto].
  destruct (zlen rest2 <? obu_size); [intros [= <-]; auto|].
  match goal with |- context [flush_pending mtu st ?need] =>
    destruct (flush_pending mtu st need) as [st2|e|] eqn:Ef; try discriminate end.
  intros Hrun Hinv. pose proof (flush_pending_zy _ _ _ _ Ef Hinv) as Hinv2.
  destruct ((otype h =? 8) || (otype h =? 2)); apply IH in Hrun; auto.
Qed.

(* the packets in sending order are the reverse of the list that was built *)
Theorem av1_payload_zy mtu payload ps : av1_payload mtu payload = Ok ps -> zy_inv (rev ps).
Proof.
  unfold av1_payload. destruct ((mtu <=? 1) || (zlen payload =? 0)); [intros [= <-]; split; exact I|].
  destruct (pay_loop _ mtu payload _) as [st|e|] eqn:E; try discriminate.
  apply pay_loop_zy in E; [|split; exact I].
  destruct (pending st) as [|x pe].
  - intros [= <-]. rewrite rev_involutive. exact E.
  - destruct (append_obu (pays st) (x :: pe) (new_seq st) true (start_new st) mtu (cnt st)) as [[ps' c]|e|] eqn:Ea; try discriminate.
    intros [= <-]. rewrite rev_involutive. exact (proj1 (append_obu_zy _ _ _ _ _ _ _ _ _ Ea E)).
Qed.
