(* C13, decoder against the aggregation-header semantics for unfragmented packets: a packet with
   Z = 0, Y = 0 and W = 1..3 complete OBU elements (all but the last length-prefixed) is decoded to
   the same OBUs with their size fields restored, in order. *)
From Coq Require Import ZArith List Lia Bool.
From Coq Require Import ZifyBool.
From RTP Require Import Base.Bits Base.Res Base.ListX Base.Tactics Model.Leb128 Model.Obu Model.Av1Depack
  Proofs.Leb128Proofs Proofs.C13_Obu.
Import ListNotations.
Open Scope Z_scope.

Record sobu : Type := mkSObu { so_hdr : obuhdr; so_body : list Z }.

Definition wf_sobu (o : sobu) : Prop :=
  hdr_in_range (so_hdr o) /\ ohas_size (so_hdr o) = false /\
  otype (so_hdr o) <> 2 /\ otype (so_hdr o) <> 8 /\ zlen (so_body o) < 4294967296.

(* as transmitted: header without size field, then the payload *)
Definition elem (o : sobu) : list Z := obu_hdr_marshal (so_hdr o) ++ so_body o.
(* as delivered: size flag set, LEB128 size, payload *)
Definition delivered (o : sobu) : list Z :=
  obu_hdr_marshal (mkObuHdr (otype (so_hdr o)) (oext (so_hdr o)) true (ores1 (so_hdr o)))
  ++ write_leb128 (zlen (so_body o)) ++ so_body o.

Fixpoint elems_bytes (es : list sobu) : list Z :=
  match es with
  | [] => []
  | [e] => elem e
  | e :: t => write_leb128 (zlen (elem e)) ++ elem e ++ elems_bytes t
  end.

Lemma obu_hdr_size_pos' h : 1 <= obu_hdr_size h <= 2.
Proof. unfold obu_hdr_size. destruct (oext h); lia. Qed.

Lemma elem_len o : wf_sobu o -> 1 <= zlen (elem o) < 72057594037927936.
Proof.
  intros (Hr & _ & _ & _ & Hb). unfold elem. rewrite zlen_app.
  destruct (obu_parse_marshal (so_hdr o) [] Hr) as [_ Hz]. rewrite Hz.
  pose proof (obu_hdr_size_pos' (so_hdr o)). pose proof (zlen_nonneg (so_body o)). lia.
Qed.

(* one element: what the loop appends to its output *)
Lemma elem_step o : wf_sobu o ->
  parse_obu_header (elem o) = Some (so_hdr o) /\ elem o <> [] /\
  drop (obu_hdr_size (so_hdr o)) (elem o) = so_body o.
Proof.
  intros (Hr & _). destruct (obu_parse_marshal (so_hdr o) (so_body o) Hr) as [Hp Hz].
  split; [exact Hp|]. split.
  - unfold elem. intros Hnil. apply app_eq_nil in Hnil as [Hnil _]. rewrite Hnil in Hz.
    change (zlen (@nil Z)) with 0 in Hz. pose proof (obu_hdr_size_pos' (so_hdr o)). lia.
  - unfold elem. rewrite <- Hz. apply drop_app_exact.
Qed.

Lemma av1d_loop_elems : forall es fuel count k buffer buff,
  es <> [] -> Forall wf_sobu es -> 1 <= count -> k = count - zlen es -> 0 <= k ->
  (length (elems_bytes es) < fuel)%nat ->
  av1d_loop fuel false false count (elems_bytes es) k buffer buff
  = (buffer, Ok (buff ++ concat (map delivered es), count - 1)).
Proof.
  induction es as [|e t IH]; intros fuel count k buffer buff Hne Hall Hc Hk Hk0 Hf; [congruence|].
  apply Forall_cons_iff in Hall as [He Hall].
  destruct (elem_step e He) as (Hparse & Henn & Hdrop). pose proof (elem_len e He) as Hel.
  destruct He as (Hr & Hsz & Ht2 & Ht8 & Hb).
  destruct fuel as [|fuel]; [lia|].
  destruct t as [|e2 t'].
  - (* the last element: no length field *)
    cbn [elems_bytes]. cbn [av1d_loop]. remember (elem e) as el eqn:Ee. destruct el as [|x l']; [congruence|]. rewrite Ee in *. clear Ee x l'.
    change (zlen [e]) with 1 in Hk.
    replace (count =? 0) with false by lia. replace (k =? count - 1) with true by lia. cbn [negb andb orb].
    replace (zlen (elem e) <? zlen (elem e)) with false by lia.
    rewrite (take_all (zlen (elem e)) (elem e)) by lia. rewrite (drop_all (zlen (elem e)) (elem e)) by lia.
    rewrite andb_false_r. cbn [andb].
    replace (zlen (elem e) =? 0) with false by lia. rewrite Hparse.
    replace ((otype (so_hdr e) =? 2) || (otype (so_hdr e) =? 8)) with false by lia.
    rewrite Hsz, Hdrop. cbn [map concat]. rewrite app_nil_r. unfold delivered. f_equal. f_equal. f_equal. lia.
  - (* a length-prefixed element *)
    change (elems_bytes (e :: e2 :: t')) with (write_leb128 (zlen (elem e)) ++ elem e ++ elems_bytes (e2 :: t')) in *.
    set (t := e2 :: t') in *.
    assert (Hzt : 1 <= zlen t) by (unfold t; rewrite zlen_cons; pose proof (zlen_nonneg t'); lia).
    rewrite zlen_cons in Hk.
    cbn [av1d_loop].
    remember (write_leb128 (zlen (elem e)) ++ elem e ++ elems_bytes t) as wl eqn:El.
    destruct wl as [|x l'].
    { exfalso. symmetry in El. apply app_eq_nil in El as [_ El]. apply app_eq_nil in El as [El _]. congruence. }
    rewrite El in *. clear El x l'.
    replace (count =? 0) with false by lia. replace (k =? count - 1) with false by lia. cbn [negb andb orb].
    rewrite (leb128_roundtrip (zlen (elem e)) (elem e ++ elems_bytes t) ltac:(lia)).
    rewrite drop_app_exact. rewrite zlen_app.
    pose proof (zlen_nonneg (elems_bytes t)).
    replace (zlen (elem e) + zlen (elems_bytes t) <? zlen (elem e)) with false by lia.
    rewrite take_app_exact, drop_app_exact. rewrite andb_false_r. cbn [andb].
    replace (zlen (elem e) =? 0) with false by lia. rewrite Hparse.
    replace ((otype (so_hdr e) =? 2) || (otype (so_hdr e) =? 8)) with false by lia.
    rewrite Hsz, Hdrop.
    rewrite (IH fuel count (k + 1) buffer _ ltac:(discriminate) Hall Hc ltac:(lia) ltac:(lia)).
    + cbn [map concat]. unfold delivered. rewrite <- !app_assoc. reflexivity.
    + rewrite !app_length in Hf.
      assert (1 <= length (write_leb128 (zlen (elem e))))%nat.
      { pose proof (leb128_roundtrip (zlen (elem e)) [] ltac:(lia)) as Hrt. rewrite app_nil_r in Hrt.
        apply read_leb128_bounds in Hrt.
        destruct (write_leb128 (zlen (elem e))); [change (zlen (@nil Z)) with 0 in Hrt; lia|cbn [length]; lia]. }
      lia.
Qed.

(* aggregation header: Z = 0, Y = 0, W = number of elements, N as given *)
Definition enc_packet (n : bool) (es : list sobu) : list Z :=
  (zlen es * 16 + (if n then 8 else 0)) :: elems_bytes es.

Lemma agg_hdr_fields w (n : bool) : 1 <= w <= 3 ->
  let b0 := w * 16 + (if n then 8 else 0) in
  (Z.land 128 b0 =? 0) = true /\ (Z.land 64 b0 =? 0) = true /\ Z.shiftr (Z.land 48 b0) 4 = w /\
  negb (Z.land 8 b0 =? 0) = n.
Proof.
  intros Hw. assert (C : w = 1 \/ w = 2 \/ w = 3) by lia.
  destruct C as [->|[->| ->]]; destruct n; repeat split; reflexivity.
Qed.

Theorem depack_unfragmented st n es : (1 <= length es <= 3)%nat -> Forall wf_sobu es ->
  av1d_unmarshal st (Some (enc_packet n es))
  = (mkAv1Dep [] false false n, Ok (concat (map delivered es))).
Proof.
  intros Hl Hall. unfold enc_packet, av1d_unmarshal.
  assert (Hw : 1 <= zlen es <= 3) by (unfold zlen; lia).
  destruct (agg_hdr_fields (zlen es) n Hw) as (Hz & Hy & Hcount & Hn). cbv zeta in Hz, Hy, Hcount, Hn.
  assert (Hne : es <> []) by (destruct es; [cbn in Hl; lia|discriminate]).
  assert (Hbn : elems_bytes es <> []).
  { destruct es as [|e [|e2 t]]; [congruence| |].
    - apply Forall_cons_iff in Hall as [He _]. cbn [elems_bytes]. apply (elem_step e He).
    - apply Forall_cons_iff in Hall as [He _]. change (elems_bytes (e :: e2 :: t)) with (write_leb128 (zlen (elem e)) ++ elem e ++ elems_bytes (e2 :: t)).
      intros Hnil. apply app_eq_nil in Hnil as [_ Hnil]. apply app_eq_nil in Hnil as [Hnil _].
      exact (proj1 (proj2 (elem_step e He)) Hnil). }
  destruct (elems_bytes es) as [|x l'] eqn:Eb; [congruence|]. rewrite <- Eb.
  rewrite Hz, Hy, Hcount, Hn. cbn [negb andb].
  assert (Hbuf : (if 0 <? zlen (if n then [] else ad_buffer st) then [] else (if n then [] else ad_buffer st)) = []).
  { destruct (0 <? zlen (if n then [] else ad_buffer st)) eqn:E; [reflexivity|].
    apply zlen_zero. pose proof (zlen_nonneg (if n then [] else ad_buffer st)). lia. }
  rewrite Hbuf.
  rewrite (av1d_loop_elems es (S (length (elems_bytes es))) (zlen es) 0 [] [] Hne Hall ltac:(lia) ltac:(lia) ltac:(lia) ltac:(lia)).
  cbn [app]. replace (zlen es =? 0) with false by lia. rewrite Z.eqb_refl. cbn [negb andb]. reflexivity.
Qed.
