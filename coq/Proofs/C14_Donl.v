(* C14, AddDONL on, for units that need no fragmentation (fragmented units are KF-C14-donl-every-fu):
   what the payloader emits IS the RFC 7798 encoding (Spec/Rfc7798.v, with decoding-order fields) of
   a single NAL unit packet carrying the running DONL, or of an aggregation packet whose first unit
   carries the DONL and every further unit a one-byte DOND; parsed with DONL expected and
   reassembled, the packets give back the units in order. *)
From Coq Require Import ZArith List Lia Bool.
From Coq Require Import ZifyBool.
From RTP Require Import Base.Bits Base.Res Base.ListX Base.Own Base.Bytes Base.Tactics
  Model.AnnexB Model.H265 Spec.Rfc7798 Proofs.C10_H264 Proofs.C14_Accessors Proofs.C14_Fu Proofs.C14_Agg Proofs.C14_Forms
  Proofs.C08_Mtu Proofs.C08_More Proofs.C08_H265 Proofs.C14_Lossless.
Import ListNotations.
Open Scope Z_scope.

Definition parses_d (f : bref) (p : h5packet) : Prop := h265_unmarshal true (Some (own_bytes f)) = Ok p.

(* ---- single NAL unit packet with DONL ---- *)
Lemma single_donl_parses h0 h1 body d : valid_nal5 (h0 :: h1 :: body) -> 0 <= d < 65536 ->
  h265_unmarshal true (Some (h0 :: h1 :: put16 d ++ body)) = Ok (PSingle (Z.lor (Z.shiftl h0 8) h1) (Some d) body).
Proof.
  intros Hv Hd. destruct body as [|x body]; [contradiction|]. destruct Hv as (H0 & H1 & Hty).
  destruct (put16_split d Hd) as (d0 & d1 & -> & Hdv). cbn [app].
  unfold h265_unmarshal. rewrite !zlen_cons. pose proof (zlen_nonneg body).
  replace (1 + (1 + (1 + (1 + (1 + zlen body)))) <=? 2) with false by lia.
  rewrite (hdr_small h0 h1 H0 H1). rewrite (nh_type_of_bytes h0 h1) by lia.
  pose proof (Z.land_nonneg (Z.shiftr h0 1) 63) as Hnn.
  replace (Z.land (Z.shiftr h0 1) 63 =? 50) with false by lia.
  replace (Z.land (Z.shiftr h0 1) 63 =? 49) with false by lia.
  replace (Z.land (Z.shiftr h0 1) 63 =? 48) with false by lia.
  replace (1 + (1 + (1 + zlen body)) <=? 2) with false by lia. rewrite Hdv. reflexivity.
Qed.

(* ---- aggregation packet with DONL / DOND: the payloader's bytes are the RFC encoder's ---- *)
Fixpoint donds (j : nat) (ns : list (list Z)) : list (Z * list Z) :=
  match ns with [] => [] | n :: t => (u8 (Z.of_nat j), n) :: donds (S j) t end.

Lemma donds_snd : forall ns j, map snd (donds j ns) = ns.
Proof. induction ns as [|n t IH]; intros j; [reflexivity|]. cbn [donds map snd]. rewrite IH. reflexivity. Qed.

Lemma donds_wf : forall ns j, Forall (fun n => zlen n < 65536) ns ->
  Forall (fun x => 0 <= fst x < 256 /\ zlen (snd x) < 65536) (donds j ns).
Proof.
  induction ns as [|n t IH]; intros j Hall; [constructor|]. apply Forall_cons_iff in Hall as [Hn Hall].
  cbn [donds]. constructor; [|apply IH; exact Hall]. cbn [fst snd]. split; [unfold u8; lia|exact Hn].
Qed.

Lemma units_donds d0 : forall ns j, Forall (fun n => zlen n < 65536) ns ->
  concat (map (fun '(i, n) => match i with O => put16 d0 | S k => [u8 (Z.of_nat k)] end
                               ++ put16 (u16 (zlen n)) ++ n) (combine (seq (S j) (length ns)) ns))
  = concat (map (agg_unit true) (donds j ns)).
Proof.
  induction ns as [|n t IH]; intros j Hall; [reflexivity|]. apply Forall_cons_iff in Hall as [Hn Hall].
  cbn [length seq combine map concat donds]. rewrite (IH (S j) Hall). unfold agg_unit at 1. cbn [fst snd].
  unfold u16. pose proof (zlen_nonneg n). rewrite Z.mod_small by lia. reflexivity.
Qed.

Lemma agg_header_phdr layer tid : 0 <= layer < 64 -> 0 <= tid < 8 -> u16 (agg_header layer tid) = phdr 48 layer tid.
Proof.
  intros Hl Ht. unfold agg_header, phdr. change (Z.shiftl 48 9) with 24576. rewrite shiftl_3.
  rewrite (lor_add_small 24576 (layer * 8) 9) by lia.
  rewrite (lor_add_small (24576 + layer * 8) tid 3) by lia. unfold u16. rewrite Z.mod_small by lia. lia.
Qed.

Theorem aggregation_donl_encodes st b n1 n2 t mtu : h5_donl_on st = true -> 0 <= h5_donl st < 65536 ->
  hb_nalus b = n1 :: n2 :: t -> buf_ok mtu true b ->
  Forall (fun n => zlen n < 65536) (n1 :: n2 :: t) ->
  exists layer tid,
    let f := FAgg layer tid (h5_donl st) n1 (donds 0 (n2 :: t)) in
    h5_flush st b = Ok (st, [Own (encode true f)]) /\ wf_form f /\
    (forall n, In n (n1 :: n2 :: t) -> layer <= nh_layer_id (hdr_of_nalu n) /\ tid <= nh_tid (hdr_of_nalu n)).
Proof.
  intros Hd Hdv Hn (Hsz & Hle & _) Hall. unfold h5_flush. rewrite Hn, Hd. cbv iota.
  set (ns := n1 :: n2 :: t) in *.
  set (layer := min_list (fun n => nh_layer_id (hdr_of_nalu n)) ns).
  set (tid := min_list (fun n => nh_tid (hdr_of_nalu n)) ns).
  destruct (fold_min_bounds (fun n => nh_layer_id (hdr_of_nalu n)) ns 255 ltac:(lia)
              (fun n => proj1 (layer_id_range (hdr_of_nalu n)))) as [Hl1 Hl2].
  destruct (fold_min_bounds (fun n => nh_tid (hdr_of_nalu n)) ns 255 ltac:(lia)
              (fun n => proj1 (tid_range (hdr_of_nalu n)))) as [Ht1 Ht2].
  fold (min_list (fun n => nh_layer_id (hdr_of_nalu n)) ns) in Hl1, Hl2. fold layer in Hl1, Hl2.
  fold (min_list (fun n => nh_tid (hdr_of_nalu n)) ns) in Ht1, Ht2. fold tid in Ht1, Ht2.
  assert (Hlr : 0 <= layer < 64).
  { pose proof (Hl2 n1 (or_introl eq_refl)). pose proof (layer_id_range (hdr_of_nalu n1)). lia. }
  assert (Htr : 0 <= tid < 8).
  { pose proof (Ht2 n1 (or_introl eq_refl)). pose proof (tid_range (hdr_of_nalu n1)). lia. }
  exists layer, tid. cbv zeta. fold (agg_header layer tid). rewrite (agg_header_phdr layer tid Hlr Htr).
  apply Forall_cons_iff in Hall as [Hn1 Hall'].
  set (content := put16 (phdr 48 layer tid) ++ _).
  assert (Hcontent : content = encode true (FAgg layer tid (h5_donl st) n1 (donds 0 (n2 :: t)))).
  { unfold content, ns.
    change (combine (seq 0 (length (n1 :: n2 :: t))) (n1 :: n2 :: t))
      with ((0%nat, n1) :: combine (seq 1 (length (n2 :: t))) (n2 :: t)).
    cbn [map concat encode opt16].
    rewrite (units_donds (h5_donl st) (n2 :: t) 0 Hall').
    unfold u16. pose proof (zlen_nonneg n1). rewrite Z.mod_small by lia. rewrite <- !app_assoc. reflexivity. }
  assert (Hc : zlen content = hb_size b).
  { pose proof (zlen_units true (h5_donl st) ns 0) as Hzu. cbv iota in Hzu.
    unfold content. rewrite zlen_app, Hzu, Hsz, Hn. reflexivity. }
  rewrite Hc, Z.ltb_irrefl, Z.sub_diag. cbn [Z.to_nat repeat]. rewrite app_nil_r. rewrite Hcontent.
  split; [reflexivity|]. split.
  - cbn [wf_form]. split; [exact Hlr|]. split; [exact Htr|]. split; [exact Hdv|]. split; [exact Hn1|].
    split; [discriminate|]. apply donds_wf. exact Hall'.
  - intros n Hin. split; [exact (Hl2 n Hin)|exact (Ht2 n Hin)].
Qed.

(* every packet carries its decoding-order fields where the DONL-expecting parser reads them *)
Definition donl_placed (p : h5packet) : Prop :=
  match p with
  | PSingle _ (Some _) _ => True
  | PAgg (Some _) _ others => Forall (fun o => fst o <> None) others
  | _ => False
  end.

(* ---- flushing the buffer ---- *)
Definition st_ok (st : h265pay) : Prop := h5_donl_on st = true /\ 0 <= h5_donl st < 65536.

Lemma flush_reassembles_d mtu st b : st_ok st -> buf_ok mtu true b -> buf_units_ok b ->
  exists st' fs pkts, h5_flush st b = Ok (st', fs) /\ st_ok st' /\ h5_skip_agg st' = h5_skip_agg st /\
    Forall2 parses_d fs pkts /\ Forall donl_placed pkts /\
    forall rest, reassemble (pkts ++ rest) None = hb_nalus b ++ reassemble rest None.
Proof.
  intros [Hd Hdv] Hb Hall. unfold buf_units_ok in Hall. destruct (hb_nalus b) as [|n1 [|n2 t]] eqn:En.
  - exists st, [], []. split; [unfold h5_flush; rewrite En; reflexivity|]. split; [split; assumption|].
    split; [reflexivity|]. split; [constructor|]. split; [constructor|reflexivity].
  - apply Forall_cons_iff in Hall as [[Hv _] _].
    destruct n1 as [|h0 [|h1 body]]; try contradiction.
    eexists. exists [Own (h0 :: h1 :: put16 (h5_donl st) ++ body)], [PSingle (Z.lor (Z.shiftl h0 8) h1) (Some (h5_donl st)) body].
    split; [unfold h5_flush; rewrite En, Hd; reflexivity|].
    split; [split; [reflexivity|cbn [h5_donl]; unfold u16; lia]|]. split; [reflexivity|].
    split; [constructor; [apply single_donl_parses; assumption|constructor]|].
    split; [constructor; [exact I|constructor]|].
    intros rest. cbn [app reassemble]. f_equal. unfold nal_of_single.
    destruct body as [|x body']; [contradiction|]. destruct Hv as (H0 & H1 & _).
    rewrite shiftl_8, (lor_add_small (h0 * 256) h1 8) by lia. rewrite shiftr_8, land_255. f_equal; [lia|f_equal; lia].
  - assert (Hsz : Forall (fun n => zlen n < 65536) (n1 :: n2 :: t)).
    { eapply Forall_impl; [|exact Hall]. cbv beta. intros a [_ Hl]. exact Hl. }
    destruct (aggregation_donl_encodes st b n1 n2 t mtu Hd Hdv En Hb Hsz) as (layer & tid & Hfl & Hwf & _).
    cbv zeta in Hfl, Hwf.
    exists st. eexists. eexists [_]. split; [exact Hfl|]. split; [split; assumption|]. split; [reflexivity|].
    split; [constructor; [unfold parses_d; cbn [own_bytes]; apply parse_forms; exact Hwf|constructor]|].
    split.
    { constructor; [|constructor]. cbn [expected donl_placed od]. apply Forall_map.
      apply Forall_forall. intros o _. cbn [fst]. discriminate. }
    intros rest. cbn [expected app reassemble]. rewrite map_map. cbn [snd]. 
    change (map (fun x : Z * list Z => snd x) (donds 0 (n2 :: t))) with (map snd (donds 0 (n2 :: t))).
    rewrite donds_snd. reflexivity.
Qed.

(* a unit that fits a packet together with its DONL: no fragmentation *)
(* the fits test of the payloader asks for zlen n + 4 <= mtu; a unit one or two bytes longer goes to the
   fragmentation branch, where it is sent whole because it fits a single NAL unit packet together with
   its DONL (repairs D12 and D28) *)
Definition unit_fits (mtu : Z) (n : list Z) : Prop := valid_nal5 n /\ zlen n + 2 <= mtu /\ zlen n < 65536.

Lemma nalu_reassembles_d mtu st b n : 4 <= mtu -> st_ok st -> buf_ok mtu true b -> buf_units_ok b ->
  unit_fits mtu n ->
  exists st' b' fs pkts emitted,
    h5_nalu mtu st b n = Ok (st', b', fs) /\ st_ok st' /\ h5_skip_agg st' = h5_skip_agg st /\
    buf_ok mtu true b' /\ buf_units_ok b' /\
    Forall2 parses_d fs pkts /\ Forall donl_placed pkts /\
    (forall rest, reassemble (pkts ++ rest) None = emitted ++ reassemble rest None) /\
    hb_nalus b ++ [n] = emitted ++ hb_nalus b'.
Proof.
  intros Hm Hst Hb Hu (Hv & Hfit & Hlen). pose proof (valid_nal5_len n Hv) as H3. pose proof Hst as [Hd Hdv].
  unfold h5_nalu. rewrite Hd. replace (zlen n <? 2) with false by lia.
  destruct (zlen n + 2 + 2 <=? mtu) eqn:Efit4.
  2: { (* mtu - 3 <= zlen n <= mtu - 2: the fragmentation branch sends the unit whole, DONL behind the payload header *)
    destruct (flush_reassembles_d mtu st b Hst Hb Hu) as (st1 & fs1 & pk1 & Hfl & Hst1 & Hsk1 & Hp1 & Hq1 & Hr1).
    destruct n as [|h0 [|h1 body]]; try contradiction.
    rewrite !zlen_cons in *. pose proof (zlen_nonneg body) as Hb0.
    replace (zlen body =? 0) with false by lia.
    replace (zlen body <=? mtu - (3 + 2) + 1) with true by lia.
    rewrite Hfl.
    unfold h5_flush at 1. cbn [hb_nalus]. destruct Hst1 as [Hd1 Hdv1]. rewrite Hd1.
    eexists. exists (mkH5Buf [] 0), (fs1 ++ [Own (h0 :: h1 :: put16 (h5_donl st1) ++ body)]),
      (pk1 ++ [PSingle (Z.lor (Z.shiftl h0 8) h1) (Some (h5_donl st1)) body]), (hb_nalus b ++ [h0 :: h1 :: body]).
    split; [reflexivity|]. split; [split; [reflexivity|cbn [h5_donl]; unfold u16; lia]|].
    split; [cbn [h5_skip_agg]; exact Hsk1|]. split; [apply buf_ok_empty; lia|]. split; [constructor|].
    split; [apply Forall2_app; [exact Hp1|constructor; [apply single_donl_parses; assumption|constructor]]|].
    split; [apply Forall_app; split; [exact Hq1|constructor; [exact I|constructor]]|].
    split; [|cbn [hb_nalus]; rewrite app_nil_r; reflexivity].
    intros rest. rewrite <- app_assoc, Hr1. cbn [app reassemble]. rewrite <- app_assoc. cbn [app]. f_equal. f_equal.
    unfold nal_of_single. destruct body as [|x body']; [contradiction|]. destruct Hv as (H0 & H1 & _).
    rewrite shiftl_8, (lor_add_small (h0 * 256) h1 8) by lia. rewrite shiftr_8, land_255. f_equal; [lia|f_equal; lia]. }
  assert (Hadd : forall st0 b0, st_ok st0 -> buf_ok mtu true b0 -> buf_units_ok b0 ->
            hb_size b0 + h5_marginal st0 b0 n <= mtu ->
            buf_ok mtu true (mkH5Buf (hb_nalus b0 ++ [n]) (hb_size b0 + h5_marginal st0 b0 n)) /\
            buf_units_ok (mkH5Buf (hb_nalus b0 ++ [n]) (hb_size b0 + h5_marginal st0 b0 n))).
  { intros st0 b0 [Hd0 _] Hb0 Hu0 Hfit0. split.
    - apply (buf_ok_add mtu true b0 n); [exact Hb0|lia| |exact Hfit0].
      unfold h5_marginal. rewrite Hd0. reflexivity.
    - unfold buf_units_ok. cbn [hb_nalus]. apply Forall_app. split; [exact Hu0|constructor; [split; assumption|constructor]]. }
  set (m := h5_marginal st b n).
  destruct (mtu <? hb_size b + m) eqn:Eov.
  - destruct (flush_reassembles_d mtu st b Hst Hb Hu) as (st1 & fs1 & pk1 & Hfl & Hst1 & Hsk1 & Hp1 & Hq1 & Hr1). rewrite Hfl.
    assert (Hfit0 : hb_size (mkH5Buf [] 0) + h5_marginal st1 (mkH5Buf [] 0) n <= mtu).
    { unfold h5_marginal. destruct Hst1 as [Hd1 _]. rewrite Hd1. cbn [hb_nalus hb_size]. change (zlen (@nil (list Z))) with 0. cbn. lia. }
    destruct (Hadd st1 (mkH5Buf [] 0) Hst1 (buf_ok_empty mtu true ltac:(lia)) ltac:(constructor) Hfit0) as [Hb2 Hu2].
    cbn [hb_nalus hb_size app] in Hb2, Hu2 |- *.
    destruct (h5_skip_agg st1) eqn:Esk.
    + destruct (flush_reassembles_d mtu st1 _ Hst1 Hb2 Hu2) as (st2 & fs2 & pk2 & Hfl2 & Hst2 & Hsk2 & Hp2 & Hq2 & Hr2). rewrite Hfl2.
      exists st2, (mkH5Buf [] 0), (fs1 ++ fs2), (pk1 ++ pk2), (hb_nalus b ++ [n]).
      split; [reflexivity|]. split; [exact Hst2|]. split; [congruence|]. split; [apply buf_ok_empty; lia|]. split; [constructor|].
      split; [apply Forall2_app; assumption|]. split; [apply Forall_app; split; assumption|].
      split; [|cbn [hb_nalus]; rewrite app_nil_r; reflexivity].
      intros rest. rewrite <- app_assoc, Hr1, Hr2. cbn [hb_nalus]. rewrite <- app_assoc. reflexivity.
    + exists st1. eexists. exists fs1, pk1, (hb_nalus b).
      split; [reflexivity|]. split; [exact Hst1|]. split; [congruence|]. split; [exact Hb2|]. split; [exact Hu2|].
      split; [exact Hp1|]. split; [exact Hq1|]. split; [exact Hr1|]. reflexivity.
  - destruct (Hadd st b Hst Hb Hu ltac:(fold m; lia)) as [Hb2 Hu2].
    destruct (h5_skip_agg st) eqn:Esk.
    + destruct (flush_reassembles_d mtu st _ Hst Hb2 Hu2) as (st2 & fs2 & pk2 & Hfl2 & Hst2 & Hsk2 & Hp2 & Hq2 & Hr2). rewrite Hfl2.
      exists st2, (mkH5Buf [] 0), fs2, pk2, (hb_nalus b ++ [n]).
      split; [reflexivity|]. split; [exact Hst2|]. split; [congruence|]. split; [apply buf_ok_empty; lia|]. split; [constructor|].
      split; [exact Hp2|]. split; [exact Hq2|]. split; [exact Hr2|]. cbn [hb_nalus]. rewrite app_nil_r. reflexivity.
    + exists st. eexists. exists [], [], [].
      split; [reflexivity|]. split; [exact Hst|]. split; [exact Esk|]. split; [exact Hb2|]. split; [exact Hu2|].
      split; [constructor|]. split; [constructor|]. split; [reflexivity|]. reflexivity.
Qed.

Lemma nalus_reassemble_d mtu : 4 <= mtu -> forall ns st b,
  st_ok st -> buf_ok mtu true b -> buf_units_ok b -> Forall (unit_fits mtu) ns ->
  exists st' b' fs pkts emitted,
    h5_nalus mtu st b ns = Ok (st', b', fs) /\ st_ok st' /\ buf_ok mtu true b' /\ buf_units_ok b' /\
    Forall2 parses_d fs pkts /\ Forall donl_placed pkts /\
    (forall rest, reassemble (pkts ++ rest) None = emitted ++ reassemble rest None) /\
    hb_nalus b ++ ns = emitted ++ hb_nalus b'.
Proof.
  intros Hm. induction ns as [|n t IH]; intros st b Hst Hb Hu Hall.
  - exists st, b, [], [], []. cbn [h5_nalus]. split; [reflexivity|]. split; [exact Hst|]. split; [exact Hb|]. split; [exact Hu|].
    split; [constructor|]. split; [constructor|]. split; [reflexivity|]. apply app_nil_r.
  - apply Forall_cons_iff in Hall as [Hn Hall].
    destruct (nalu_reassembles_d mtu st b n Hm Hst Hb Hu Hn) as (st1 & b1 & fs1 & pk1 & em1 & H1 & Hst1 & _ & Hb1 & Hu1 & Hp1 & Hq1 & Hr1 & Hc1).
    destruct (IH st1 b1 Hst1 Hb1 Hu1 Hall) as (st2 & b2 & fs2 & pk2 & em2 & H2 & Hst2 & Hb2 & Hu2 & Hp2 & Hq2 & Hr2 & Hc2).
    exists st2, b2, (fs1 ++ fs2), (pk1 ++ pk2), (em1 ++ em2). cbn [h5_nalus]. rewrite H1, H2.
    split; [reflexivity|]. split; [exact Hst2|]. split; [exact Hb2|]. split; [exact Hu2|].
    split; [apply Forall2_app; assumption|]. split; [apply Forall_app; split; assumption|]. split.
    + intros rest. rewrite <- app_assoc, Hr1, Hr2, <- app_assoc. reflexivity.
    + change (n :: t) with ([n] ++ t). rewrite app_assoc, Hc1, <- app_assoc, Hc2, app_assoc. reflexivity.
Qed.

Theorem h265_lossless_donl mtu st x l : 4 <= mtu -> h5_donl_on st = true -> 0 <= h5_donl st < 65536 ->
  Forall (unit_fits mtu) (emit_nalus (x :: l)) ->
  exists st' fs pkts, h265_payload st mtu (Some (x :: l)) = Ok (st', fs) /\
    Forall2 parses_d fs pkts /\ Forall donl_placed pkts /\ reassemble pkts None = emit_nalus (x :: l).
Proof.
  intros Hm Hd Hdv Hall. unfold h265_payload. replace (mtu =? 0) with false by lia.
  destruct (nalus_reassemble_d mtu Hm (emit_nalus (x :: l)) st (mkH5Buf [] 0) (conj Hd Hdv) (buf_ok_empty mtu true ltac:(lia))
              ltac:(constructor) Hall) as (st1 & b1 & fs1 & pk1 & em1 & H1 & Hst1 & Hb1 & Hu1 & Hp1 & Hq1 & Hr1 & Hc1).
  rewrite H1.
  destruct (flush_reassembles_d mtu st1 b1 Hst1 Hb1 Hu1) as (st2 & fs2 & pk2 & Hfl & _ & _ & Hp2 & Hq2 & Hr2). rewrite Hfl.
  exists st2, (fs1 ++ fs2), (pk1 ++ pk2). split; [reflexivity|]. split; [apply Forall2_app; assumption|].
  split; [apply Forall_app; split; assumption|].
  rewrite Hr1. rewrite <- (app_nil_r pk2), Hr2. cbn [reassemble]. rewrite app_nil_r.
  cbn [hb_nalus app] in Hc1. rewrite Hc1. reflexivity.
Qed.
