(* IsPartitionHead on payloader output (C10, C11, C14): true exactly on the first payload of each
   unit - single NAL unit packets, aggregation packets and the fragment that carries the S bit -
   and false on every other fragment. *)
From Coq Require Import ZArith List Lia Bool.
From Coq Require Import ZifyBool.
From RTP Require Import Base.Bits Base.Res Base.ListX Base.Own Base.Bytes Base.Tactics
  Model.H264 Model.H265 Model.Vp8 Proofs.C10_H264 Proofs.C14_Accessors Proofs.C14_Fu Proofs.C14_Agg.
Import ListNotations.
Open Scope Z_scope.

(* ---- H264 ---- *)
Definition head264 (f : bref) : bool := h264_is_partition_head (Some (own_bytes f)).

Lemma bit7_plain ty : 0 <= ty < 64 -> (Z.land ty 128 =? 0) = true.
Proof. intros H. rewrite land_b128. lia. Qed.
Lemma bit7_e ty : 0 <= ty < 64 -> (Z.land (Z.lor ty 64) 128 =? 0) = true.
Proof. intros H. rewrite lor_64_add by lia. rewrite land_b128. lia. Qed.
Lemma bit7_s ty : 0 <= ty < 64 -> (Z.land (Z.lor ty 128) 128 =? 0) = false.
Proof. intros H. rewrite lor_128_add by lia. rewrite land_b128. lia. Qed.

Lemma repeat_cons {A} (x : A) n : (1 <= n)%nat -> repeat x n = x :: repeat x (n - 1).
Proof. destruct n; [lia|]. intros _. cbn [repeat]. replace (S n - 1)%nat with n by lia. reflexivity. Qed.

Lemma fua_heads ind ty first fs cs : Z.land ind 31 = 28 -> 0 <= ty < 64 ->
  fua_rel ind ty first fs cs -> map head264 fs = first :: repeat false (length fs - 1).
Proof.
  intros Hi Ht Hrel. induction Hrel as [c|first c fs cs Hne Hrel IH].
  - cbn [map length Nat.sub repeat]. unfold head264, h264_is_partition_head. cbn [own_bytes].
    rewrite Hi. change (28 =? 28) with true. cbn [orb]. rewrite (bit7_e ty Ht). reflexivity.
  - cbn [map length]. rewrite IH. f_equal.
    + unfold head264, h264_is_partition_head. cbn [own_bytes]. rewrite Hi. change (28 =? 28) with true. cbn [orb].
      destruct first; [rewrite (bit7_s ty Ht)|rewrite (bit7_plain ty Ht)]; reflexivity.
    + assert (1 <= length fs)%nat by (inversion Hrel; cbn [length]; lia).
      replace (S (length fs) - 1)%nat with (length fs) by lia. symmetry. apply repeat_cons. assumption.
Qed.

(* the fragments of one unit: the first, and only the first, is a partition head *)
Theorem h264_fua_heads nri ty fs cs : nri = 0 \/ nri = 32 \/ nri = 64 \/ nri = 96 \/ nri = 128 \/ nri = 160 \/ nri = 192 \/ nri = 224 -> 1 <= ty <= 23 ->
  fua_rel (Z.lor 28 nri) ty true fs cs -> map head264 fs = true :: repeat false (length fs - 1).
Proof.
  intros Hn Ht Hrel. apply (fua_heads (Z.lor 28 nri) ty true fs cs); [|lia|exact Hrel].
  destruct Hn as [-> | [-> | [-> | [-> | [-> | [-> | [-> | ->]]]]]]]; reflexivity.
Qed.

(* a single NAL unit packet, and an aggregation packet (STAP-A, type 24), is a head *)
Theorem h264_single_head n : valid_nal n -> h264_is_partition_head (Some n) = true.
Proof.
  intros [Hl Hn]. destruct n as [|b0 [|b1 t]]; try contradiction.
  destruct Hn as [_ Hty]. unfold h264_is_partition_head.
    replace (Z.land b0 31 =? 28) with false by lia. replace (Z.land b0 31 =? 29) with false by lia. reflexivity.
Qed.

Theorem h264_stapa_head b0 b1 t : Z.land b0 31 = 24 -> h264_is_partition_head (Some (b0 :: b1 :: t)) = true.
Proof. intros H. unfold h264_is_partition_head. rewrite H. reflexivity. Qed.

(* ---- VP8 ---- *)
Theorem vp8_head st first c : vp8_is_partition_head (Some (vp8_header st first ++ c)) = first.
Proof.
  unfold vp8_header, vp8_is_partition_head.
  destruct (vp_enable st); [destruct (vp_pid st <? 128)|]; destruct first; reflexivity.
Qed.

(* ---- H265 ---- *)
Definition head265 (f : bref) : bool := h265_is_partition_head (Some (own_bytes f)).

Lemma fu_b0_cases h0 : 0 <= h0 < 128 -> fu_b0 h0 = 98 \/ fu_b0 h0 = 99.
Proof.
  intros H. unfold fu_b0. change (u8 (Z.shiftl 49 1)) with 98.
  assert (C : Z.land h0 129 = 0 \/ Z.land h0 129 = 1).
  { change 129 with (Z.lor 128 1). rewrite Z.land_lor_distr_r. rewrite land_b128, land_1.
    replace (h0 / 128 mod 2 * 128) with 0 by lia. rewrite Z.lor_0_l. lia. }
  destruct C as [-> | ->]; [left|right]; reflexivity.
Qed.

Lemma fu_type49 h0 h1 : 0 <= h0 < 128 -> 0 <= h1 < 256 -> nh_type (be16 (fu_b0 h0) h1) = 49.
Proof.
  intros H0 H1. unfold be16.
  destruct (fu_b0_cases h0 H0) as [-> | ->]; rewrite nh_type_of_bytes by lia; reflexivity.
Qed.

Lemma h5fu_heads h0 h1 ty first fs cs : 0 <= h0 < 128 -> 0 <= h1 < 256 -> 0 <= ty < 64 ->
  h5fu_rel (fu_b0 h0) h1 ty first fs cs -> map head265 fs = first :: repeat false (length fs - 1).
Proof.
  intros H0 H1 Ht Hrel. pose proof (fu_type49 h0 h1 H0 H1) as H49.
  assert (Hs : forall x, h265_is_partition_head (Some (fu_b0 h0 :: h1 :: x :: nil ++ [])) = fu_s x).
  { intros x. unfold h265_is_partition_head. cbn [app]. rewrite H49. reflexivity. }
  assert (Hhead : forall x c, h265_is_partition_head (Some (fu_b0 h0 :: h1 :: x :: c)) = fu_s x).
  { intros x c. unfold h265_is_partition_head. rewrite H49. reflexivity. }
  assert (Fs : fu_s (Z.lor ty 128) = true /\ fu_s (Z.lor ty 64) = false /\ fu_s ty = false).
  { unfold fu_s. rewrite lor_128_add, lor_64_add by lia. rewrite !land_b128.
    repeat split; rewrite shiftr_7; cbn; lia. }
  destruct Fs as (F1 & F2 & F3).
  induction Hrel as [c|first c fs cs Hne Hrel IH].
  - cbn [map length Nat.sub repeat]. unfold head265. cbn [own_bytes]. rewrite Hhead, F2. reflexivity.
  - cbn [map length]. rewrite IH. f_equal.
    + unfold head265. cbn [own_bytes]. rewrite Hhead. destruct first; assumption.
    + assert (1 <= length fs)%nat by (inversion Hrel; cbn [length]; lia).
      replace (S (length fs) - 1)%nat with (length fs) by lia. symmetry. apply repeat_cons. assumption.
Qed.

Theorem h265_single_head n : valid_nal5 n -> h265_is_partition_head (Some n) = true.
Proof.
  destruct n as [|h0 [|h1 [|x body]]]; try contradiction. intros (H0 & H1 & Hty).
  unfold h265_is_partition_head, be16. rewrite nh_type_of_bytes by lia.
  pose proof (Z.land_nonneg (Z.shiftr h0 1) 63).
  replace (Z.land (Z.shiftr h0 1) 63 =? 49) with false by lia. reflexivity.
Qed.

Theorem h265_agg_head layer tid rest x : 0 <= layer < 64 -> 0 <= tid < 8 ->
  match put16 (u16 (agg_header layer tid)) with
  | [a; b] => h265_is_partition_head (Some (a :: b :: x :: rest)) = true
  | _ => False
  end.
Proof.
  intros Hl Ht. destruct (agg_header_fields layer tid Hl Ht) as (Hr & Hty & _).
  pose proof (put16_be16 (u16 (agg_header layer tid)) ltac:(unfold u16; lia)) as P.
  destruct (put16 (u16 (agg_header layer tid))) as [|a [|b [|? ?]]]; try contradiction.
  destruct P as (P & _). unfold h265_is_partition_head. rewrite P. unfold u16. rewrite Z.mod_small by lia.
  rewrite Hty. reflexivity.
Qed.

(* ---- VP9: the B bit ---- *)
From RTP Require Import Model.Vp9 Proofs.C12_Vp9 Proofs.C12_Nonflex.

Theorem vp9_flex_head first last rest : vp9_is_partition_head (Some (flex_b0 first last :: rest)) = first.
Proof. unfold vp9_is_partition_head, flex_b0, bit_set. destruct first, last; reflexivity. Qed.

Theorem vp9_nonflex_head pid non_key first last w h c :
  vp9_is_partition_head (Some (nonflex_hdr pid non_key first last w h ++ c)) = first.
Proof.
  unfold nonflex_hdr. cbn [app]. unfold vp9_is_partition_head, nonflex_b0, bit_set.
  destruct non_key, first, last; reflexivity.
Qed.
