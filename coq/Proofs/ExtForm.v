(* extensionForm: which 16-bit profiles mean the RFC 8285 two-byte form *)
From Coq Require Import ZArith List Lia Bool.
From Coq Require Import ZifyBool.
From RTP Require Import Base.Bits Base.ListX Model.RtpPacket Proofs.C13_Obu.
Import ListNotations.
Open Scope Z_scope.

Lemma ext_form_sweep :
  forallb (fun hi => forallb (fun lo => let p := hi * 256 + lo in
             ext_form p =? (if (4096 <=? p) && (p <? 4112) then 4096 else p)) (zr 256)) (zr 256) = true.
Proof. vm_compute. reflexivity. Qed.

Lemma ext_form_spec p : 0 <= p < 65536 ->
  ext_form p = if (4096 <=? p) && (p <? 4112) then 4096 else p.
Proof.
  intros H.
  pose proof (proj1 (forallb_forall _ _) ext_form_sweep (p / 256) (in_zr 256 (p / 256) ltac:(lia))) as Hs.
  cbv beta in Hs.
  pose proof (proj1 (forallb_forall _ _) Hs (p mod 256) (in_zr 256 (p mod 256) ltac:(lia))) as Hs1.
  cbv beta zeta in Hs1. replace (p / 256 * 256 + p mod 256) with p in Hs1 by lia. lia.
Qed.

(* 0x1000 + appbits *)
Lemma ext_form_two a : 0 <= a < 16 -> ext_form (profile_two_byte + a) = profile_two_byte.
Proof. intros H. unfold profile_two_byte. rewrite ext_form_spec by lia. replace ((4096 <=? 4096 + a) && (4096 + a <? 4112)) with true by lia. reflexivity. Qed.

Lemma ext_form_is_two p : 0 <= p < 65536 ->
  (ext_form p =? profile_two_byte) = (4096 <=? p) && (p <? 4112).
Proof. intros H. rewrite ext_form_spec by lia. unfold profile_two_byte. destruct ((4096 <=? p) && (p <? 4112)) eqn:E; lia. Qed.

Lemma ext_form_two_inv p : 0 <= p < 65536 -> ext_form p = profile_two_byte -> 4096 <= p < 4112.
Proof. intros H E. pose proof (ext_form_is_two p H) as Hi. rewrite E in Hi. rewrite Z.eqb_refl in Hi. lia. Qed.

Lemma ext_form_one : ext_form profile_one_byte = profile_one_byte.
Proof. reflexivity. Qed.

(* a two-byte profile is not the one-byte profile *)
Lemma two_not_one p : 0 <= p < 65536 -> ext_form p = profile_two_byte -> (p =? profile_one_byte) = false.
Proof. intros H E. pose proof (ext_form_two_inv p H E). unfold profile_one_byte. lia. Qed.

Lemma ext_form_range p : 0 <= p < 65536 -> 0 <= ext_form p < 65536.
Proof. intros H. rewrite ext_form_spec by lia. destruct ((4096 <=? p) && (p <? 4112)); lia. Qed.
