(* C10, second sentence: the SHAPE of the whole output of H264Payloader.  "Each emitted payload is a single
   NAL unit, a STAP-A, or one of at least two FU-A fragments whose indicator carries the unit's NRI (and F),
   whose header carries its type, with S only on the first and E only on the last fragment, and
   IsPartitionHead is true exactly on the first payload of each unit."  [C10_fua_shape] says this of the
   fragmentation loop alone; here it is composed over the hold-back logic and the unit walk: the output of
   any sequence of valid units is a sequence of GROUPS - the payloads of one delivered unit, or the STAP-A
   of a held pair - in the order in which [deliver_all] delivers the units. *)
From Coq Require Import ZArith List Lia Bool.
From Coq Require Import ZifyBool.
From RTP Require Import Base.Bits Base.Res Base.ListX Base.Bytes Base.Own Base.Tactics
  Model.AnnexB Model.H264 Proofs.C10_H264 Proofs.C10_Lossless Proofs.PartitionHead.
Import ListNotations.
Open Scope Z_scope.

(* the payloads of one unit: the unit itself, or >= 2 fragments (fua_rel: indicator 28 | F | NRI on all,
   S on the first only, E on the last only, the unit's type on all) whose chunks are the unit's body *)
Inductive unit_payloads (n : list Z) : list bref -> Prop :=
| UPSingle : unit_payloads n [Own n]
| UPFua b0 body fs cs : n = b0 :: body ->
    fua_rel (Z.lor 28 (Z.land b0 224)) (Z.land b0 31) true fs cs -> concat cs = body ->
    Forall (fun c => 1 <= zlen c) cs -> (2 <= length fs)%nat ->
    unit_payloads n fs.

(* units delivered, payloads emitted, partition-head flags expected *)
Inductive out_shape : list (list Z) -> list bref -> list bool -> Prop :=
| OSNil : out_shape [] [] []
| OSUnit n fs us rest hs : valid_nal n -> unit_payloads n fs -> out_shape us rest hs ->
    out_shape (n :: us) (fs ++ rest) ((true :: repeat false (length fs - 1)) ++ hs)
| OSStap sps pps us rest hs : valid_nal sps -> valid_nal pps -> out_shape us rest hs ->
    out_shape (sps :: pps :: us) (Own (stap_of sps pps) :: rest) (true :: hs).

Lemma out_shape_app u1 f1 h1 u2 f2 h2 :
  out_shape u1 f1 h1 -> out_shape u2 f2 h2 -> out_shape (u1 ++ u2) (f1 ++ f2) (h1 ++ h2).
Proof.
  induction 1 as [|n fs us rest hs Hv Hu Hs IH|sps pps us rest hs Hs1 Hs2 Hs IH]; intros H2.
  - exact H2.
  - rewrite <- (app_assoc fs rest f2), <- (app_assoc (true :: repeat false (length fs - 1)) hs h2).
    change ((n :: us) ++ u2) with (n :: (us ++ u2)). apply OSUnit; auto.
  - change ((sps :: pps :: us) ++ u2) with (sps :: pps :: (us ++ u2)).
    change ((Own (stap_of sps pps) :: rest) ++ f2) with (Own (stap_of sps pps) :: (rest ++ f2)).
    change ((true :: hs) ++ h2) with (true :: (hs ++ h2)). apply OSStap; auto.
Qed.

Lemma fua_rel_length ind ty first fs cs : fua_rel ind ty first fs cs -> length fs = length cs.
Proof. induction 1; cbn [length]; [reflexivity|]. f_equal. assumption. Qed.

Lemma two_chunks m (cs : list (list Z)) : 0 <= m -> Forall (fun c => 1 <= zlen c <= m) cs -> m < zlen (concat cs) -> (2 <= length cs)%nat.
Proof.
  intros H0 Hall Hm. destruct cs as [|c [|c2 t]]; cbn [length]; try lia.
  - cbn [concat] in Hm. rewrite zlen_nil in Hm. lia.
  - apply Forall_cons_iff in Hall as [Hc _]. cbn [concat] in Hm. rewrite app_nil_r in Hm. lia.
Qed.

(* one unit: single NAL unit packet or >= 2 FU-A fragments *)
Lemma unit_shape mtu n : 3 <= mtu -> valid_nal n ->
  exists fs, emit_single_or_fua mtu n = Ok fs /\ unit_payloads n fs.
Proof.
  intros Hm Hv. pose proof Hv as [Hlen Hb]. destruct n as [|b0 body]; [contradiction|]. destruct Hb as [Hb0 Hty].
  unfold emit_single_or_fua. destruct (zlen (b0 :: body) <=? mtu) eqn:E.
  - exists [Own (b0 :: body)]. split; [reflexivity|constructor].
  - rewrite zlen_cons in *. pose proof (zlen_nonneg body) as Hzb.
    replace ((if mtu - 2 <? zlen body then mtu - 2 else zlen body) <=? 0) with false
      by (destruct (mtu - 2 <? zlen body) eqn:?; lia).
    destruct (fua_frags_spec (S (length body)) (mtu - 2) (Z.land b0 224) (Z.land b0 31) (zlen body) body
                ltac:(lia) ltac:(lia) ltac:(lia) ltac:(lia)) as (fs & cs & Hrun & Hrel & Hcat & Hall & Hne).
    rewrite Z.eqb_refl in Hrel.
    exists fs. split; [exact Hrun|].
    apply (UPFua (b0 :: body) b0 body fs cs eq_refl Hrel Hcat).
    + eapply Forall_impl; [|exact Hall]. intros c Hc. cbv beta in Hc. lia.
    + rewrite (fua_rel_length _ _ _ _ _ Hrel). apply (two_chunks (mtu - 2)); [lia|exact Hall|]. rewrite Hcat. lia.
Qed.

Lemma packetize_shape mtu n : 3 <= mtu -> valid_nal n ->
  exists fs, packetize_nalu mtu n = Ok fs /\ unit_payloads n fs.
Proof.
  intros Hm Hv. destruct (unit_shape mtu n Hm Hv) as (fs & Hr & Hs). exists fs. split; [|exact Hs].
  unfold packetize_nalu. destruct n; [destruct Hv as [_ []]|exact Hr].
Qed.

Lemma one_unit_shape n fs : valid_nal n -> unit_payloads n fs ->
  out_shape [n] fs (true :: repeat false (length fs - 1)).
Proof.
  intros Hv Hu. pose proof (OSUnit n fs [] [] [] Hv Hu OSNil) as H. rewrite !app_nil_r in H. exact H.
Qed.

(* flushing what is held *)
Lemma flush_shape mtu st : 3 <= mtu <= 65535 -> held_valid st ->
  exists fs hs, flush_params mtu st = Ok (mkH264Pay (hp_disable_stapa st) None None, fs) /\
    out_shape (held st) fs hs.
Proof.
  intros Hm [Hhs Hhp]. unfold flush_params, held.
  assert (Hind : exists fs hs,
            match (match hp_sps st with Some s => packetize_nalu mtu s | None => Ok [] end) with
            | Ok f1 =>
              match (match hp_pps st with Some p => packetize_nalu mtu p | None => Ok [] end) with
              | Ok f2 => Ok (mkH264Pay (hp_disable_stapa st) None None, f1 ++ f2)
              | Err e => Err e
              | Panic => Panic
              end
            | Err e => Err e
            | Panic => Panic
            end = Ok (mkH264Pay (hp_disable_stapa st) None None, fs) /\
            out_shape ((match hp_sps st with Some s => [s] | None => [] end) ++
                       (match hp_pps st with Some p => [p] | None => [] end)) fs hs).
  { assert (H1 : exists f1 h1, (match hp_sps st with Some s => packetize_nalu mtu s | None => Ok [] end) = Ok f1 /\
                  out_shape (match hp_sps st with Some s => [s] | None => [] end) f1 h1).
    { destruct (hp_sps st) as [sps|]; [|exists [], []; split; [reflexivity|constructor]].
      pose proof (Hhs sps eq_refl) as Hvs. destruct (packetize_shape mtu sps ltac:(lia) Hvs) as (f1 & Hr1 & Hs1).
      exists f1, (true :: repeat false (length f1 - 1)). split; [exact Hr1|apply one_unit_shape; assumption]. }
    assert (H2 : exists f2 h2, (match hp_pps st with Some p => packetize_nalu mtu p | None => Ok [] end) = Ok f2 /\
                  out_shape (match hp_pps st with Some p => [p] | None => [] end) f2 h2).
    { destruct (hp_pps st) as [pps|]; [|exists [], []; split; [reflexivity|constructor]].
      pose proof (Hhp pps eq_refl) as Hvp. destruct (packetize_shape mtu pps ltac:(lia) Hvp) as (f2 & Hr2 & Hs2).
      exists f2, (true :: repeat false (length f2 - 1)). split; [exact Hr2|apply one_unit_shape; assumption]. }
    destruct H1 as (f1 & h1 & -> & Hs1). destruct H2 as (f2 & h2 & -> & Hs2).
    exists (f1 ++ f2), (h1 ++ h2). split; [reflexivity|apply out_shape_app; assumption]. }
  destruct (hp_sps st) as [sps|] eqn:Es; [|exact Hind].
  destruct (hp_pps st) as [pps|] eqn:Ep; [|exact Hind].
  pose proof (Hhs sps eq_refl) as Hvs. pose proof (Hhp pps eq_refl) as Hvp.
  fold (stap_of sps pps).
  destruct (zlen (stap_of sps pps) <=? mtu) eqn:Efit; [|exact Hind].
  exists [Own (stap_of sps pps)], [true]. split; [reflexivity|].
  cbn [app]. apply OSStap; [assumption|assumption|constructor].
Qed.

Lemma nalu_shape mtu st n : 3 <= mtu <= 65535 -> valid_nal n -> held_valid st ->
  exists fs hs, h264_nalu mtu st n = Ok (fst (deliver st n), fs) /\ out_shape (snd (deliver st n)) fs hs.
Proof.
  intros Hm Hv Hst. pose proof Hst as [Hhs Hhp]. pose proof Hv as [Hlen Hb].
  destruct n as [|b0 body]; [contradiction|].
  unfold h264_nalu, deliver. cbn [nal_type]. set (n := b0 :: body) in *.
  destruct (unit_shape mtu n ltac:(lia) Hv) as (fs & Hrun & Hsn).
  destruct (flush_shape mtu st Hm Hst) as (pre & hpre & Hfl & Hspre).
  assert (Hone : exists fs0 hs0, match emit_single_or_fua mtu n with
                       | Ok fs0 => Ok (st, [] ++ fs0) | Err e => Err e | Panic => Panic end
                       = Ok (fst (st, [n]), fs0) /\ out_shape (snd (st, [n])) fs0 hs0).
  { rewrite Hrun. exists fs, (true :: repeat false (length fs - 1)). split; [reflexivity|].
    cbn [snd]. apply one_unit_shape; assumption. }
  destruct ((Z.land b0 31 =? 9) || (Z.land b0 31 =? 12)).
  { exists [], []. split; [reflexivity|constructor]. }
  destruct (Z.land b0 31 =? 7) eqn:E7.
  { destruct (negb (hp_disable_stapa st)); [|exact Hone].
    rewrite Hfl. cbn [hp_disable_stapa hp_pps]. exists pre, hpre. split; [reflexivity|exact Hspre]. }
  destruct (Z.land b0 31 =? 8) eqn:E8.
  { destruct (negb (hp_disable_stapa st)); [|exact Hone].
    destruct (hp_pps st) as [pps|] eqn:Epps.
    - rewrite Hfl. cbn [hp_disable_stapa hp_sps]. exists pre, hpre. split; [reflexivity|exact Hspre].
    - exists [], []. split; [reflexivity|constructor]. }
  destruct (negb (hp_disable_stapa st)); [|exact Hone].
  rewrite Hfl, Hrun. exists (pre ++ fs), (hpre ++ (true :: repeat false (length fs - 1))).
  split; [reflexivity|]. cbn [snd]. apply out_shape_app; [exact Hspre|apply one_unit_shape; assumption].
Qed.

Theorem nalus_shape mtu : 3 <= mtu <= 65535 -> forall ns st,
  Forall valid_nal ns -> held_valid st ->
  exists fs hs, h264_nalus mtu st ns = Ok (fst (deliver_all st ns), fs) /\
    out_shape (snd (deliver_all st ns)) fs hs.
Proof.
  intros Hm. induction ns as [|n t IH]; intros st Hv Hh.
  - exists [], []. split; [reflexivity|constructor].
  - apply Forall_cons_iff in Hv as [Hv Hvt].
    destruct (nalu_shape mtu st n Hm Hv Hh) as (fs1 & hs1 & H1 & Hs1).
    destruct (nalu_lossless mtu st n false Hm Hv Hh) as (fs1' & H1' & Hh1 & _).
    cbn [h264_nalus deliver_all]. rewrite H1.
    destruct (deliver st n) as [st1 d1] eqn:Ed. cbn [fst snd] in *.
    destruct (IH st1 Hvt Hh1) as (fs2 & hs2 & H2 & Hs2). rewrite H2.
    destruct (deliver_all st1 t) as [st2 d2] eqn:Ed2. cbn [fst snd] in *.
    exists (fs1 ++ fs2), (hs1 ++ hs2). split; [reflexivity|apply out_shape_app; assumption].
Qed.

(* IsPartitionHead on such an output: true exactly on the first payload of each group *)
Lemma unit_heads n fs : valid_nal n -> unit_payloads n fs ->
  map head264 fs = true :: repeat false (length fs - 1).
Proof.
  intros Hv Hu. destruct Hu as [|b0 body fs cs Hn Hrel Hcat Hall Hlen].
  - cbn [map length Nat.sub repeat]. unfold head264. cbn [own_bytes]. rewrite (h264_single_head n Hv). reflexivity.
  - subst n. destruct Hv as [_ [Hb0 Hty]]. destruct (nal_header_split b0 Hb0) as [_ Hnri].
    exact (h264_fua_heads (Z.land b0 224) (Z.land b0 31) fs cs Hnri Hty Hrel).
Qed.

Theorem out_shape_heads us fs hs : out_shape us fs hs -> map head264 fs = hs.
Proof.
  induction 1 as [|n fs us rest hs Hv Hu Hs IH|sps pps us rest hs Hs1 Hs2 Hs IH].
  - reflexivity.
  - rewrite map_app, IH, (unit_heads n fs Hv Hu). reflexivity.
  - cbn [map]. rewrite IH. f_equal.
Qed.

