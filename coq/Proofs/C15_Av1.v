(* C15, AV1Depacketizer: a packet with Z = 0 (it does not continue a fragment) makes the receiver
   forget whatever an abandoned fragment left behind, so a frame whose first packet has Z = 0
   decodes the same after any history as on a fresh depacketizer. *)
From Coq Require Import ZArith List Lia Bool.
From Coq Require Import ZifyBool.
From RTP Require Import Base.Bits Base.Res Base.ListX Model.Leb128 Model.Obu Model.Av1Depack.
Import ListNotations.
Open Scope Z_scope.

(* a packet of at least two bytes whose Z bit is clear *)
Definition starts_fresh (p : list Z) : Prop :=
  match p with b0 :: _ :: _ => Z.land 128 b0 = 0 | _ => False end.

Lemma av1d_z0_independent st1 st2 p : starts_fresh p ->
  av1d_unmarshal st1 (Some p) = av1d_unmarshal st2 (Some p).
Proof.
  intros Hz. unfold av1d_unmarshal. destruct p as [|b0 [|b1 l1]]; try contradiction.
  cbn [starts_fresh] in Hz. rewrite Hz. cbn [Z.eqb negb andb].
  assert (Hb : forall b : list Z, (if 0 <? zlen b then [] else b) = []).
  { intros b. destruct (0 <? zlen b) eqn:E; [reflexivity|]. apply zlen_zero. pose proof (zlen_nonneg b). lia. }
  rewrite !Hb. reflexivity.
Qed.

(* feed payloads in order; outputs of the packets that were accepted or rejected, in order *)
Fixpoint av1_run (st : av1dep) (ps : list (list Z)) : av1dep * list (res (list Z)) :=
  match ps with
  | [] => (st, [])
  | p :: t => let '(st1, r) := av1d_unmarshal st (Some p) in
              let '(st2, rs) := av1_run st1 t in (st2, r :: rs)
  end.

(* the receiver after an arbitrary history of deliveries (nil, garbage, any loss subset) *)
Fixpoint av1_after (st : av1dep) (h : list (option (list Z))) : av1dep :=
  match h with [] => st | p :: t => av1_after (fst (av1d_unmarshal st p)) t end.

Theorem av1_resync : forall h p f st0, starts_fresh p ->
  av1_run (av1_after st0 h) (p :: f) = av1_run st0 (p :: f).
Proof.
  intros h p f st0 Hp. cbn [av1_run]. rewrite (av1d_z0_independent (av1_after st0 h) st0 p Hp). reflexivity.
Qed.
