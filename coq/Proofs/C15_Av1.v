(* C15, AV1Depacketizer: a packet with Z = 0 (it does not continue a fragment) makes the receiver
   forget whatever an abandoned fragment left behind, so a frame whose first packet has Z = 0
   decodes the same after any history as on a fresh depacketizer. *)
From Coq Require Import ZArith List Lia Bool.
From Coq Require Import ZifyBool.
From RTP Require Import Base.Bits Base.Res Base.ListX Model.Leb128 Model.Obu Model.Av1Depack.
Import ListNotations.
Open Scope Z_scope.

(* a packet of at least two bytes whose Z bit is clear *)
Definition starts_fresh (p : list Z) : Prop :=
  match p with b0 :: _ :: _ => Z.land 128 b0 = 0 | _ => False end.

Lemma av1d_z0_independent st1 st2 p : starts_fresh p ->
  av1d_unmarshal st1 (Some p) = av1d_unmarshal st2 (Some p).
Proof.
  intros Hz. unfold av1d_unmarshal. destruct p as [|b0 [|b1 l1]]; try contradiction.
  cbn [starts_fresh] in Hz. rewrite Hz. cbn [Z.eqb negb andb].
  assert (Hb : forall b : list Z, (if 0 <? zlen b then [] else b) = []).
  { intros b. destruct (0 <? zlen b) eqn:E; [reflexivity|]. apply zlen_zero. pose proof (zlen_nonneg b). lia. }
  rewrite !Hb. reflexivity.
Qed.

(* feed payloads in order; outputs of the packets that were accepted or rejected, in order *)
Fixpoint av1_run (st : av1dep) (ps : list (list Z)) : av1dep * list (res (list Z)) :=
  match ps with
  | [] => (st, [])
  | p :: t => let '(st1, r) := av1d_unmarshal st (Some p) in
              let '(st2, rs) := av1_run st1 t in (st2, r :: rs)
  end.

(* the receiver after an arbitrary history of deliveries (nil, garbage, any loss subset) *)
Fixpoint av1_after (st : av1dep) (h : list (option (list Z))) : av1dep :=
  match h with [] => st | p :: t => av1_after (fst (av1d_unmarshal st p)) t end.

Theorem av1_resync : forall h p f st0, starts_fresh p ->
  av1_run (av1_after st0 h) (p :: f) = av1_run st0 (p :: f).
Proof.
  intros h p f st0 Hp. cbn [av1_run]. rewrite (av1d_z0_independent (av1_after st0 h) st0 p Hp). reflexivity.
Qed.

(* a packet of at least two bytes whose N bit is set (first packet of a coded video sequence) *)
Definition starts_sequence (p : list Z) : Prop :=
  match p with b0 :: _ :: _ => Z.land 8 b0 <> 0 | _ => False end.

Lemma av1d_n1_independent st1 st2 p : starts_sequence p ->
  av1d_unmarshal st1 (Some p) = av1d_unmarshal st2 (Some p).
Proof.
  intros Hn. unfold av1d_unmarshal. destruct p as [|b0 [|b1 l1]]; try contradiction.
  cbn [starts_sequence] in Hn. apply Z.eqb_neq in Hn. rewrite Hn. cbn [negb]. reflexivity.
Qed.

(* N = 1 drops the carried fragment whatever Z says: a frame that opens a new coded video sequence is
   decoded as by a fresh receiver after any history, even when its first packet claims (Z = 1) to
   continue a fragment - the orphan continuation is skipped on both sides alike *)
Theorem av1_resync_sequence : forall h p f st0, starts_sequence p ->
  av1_run (av1_after st0 h) (p :: f) = av1_run st0 (p :: f).
Proof.
  intros h p f st0 Hp. cbn [av1_run]. rewrite (av1d_n1_independent (av1_after st0 h) st0 p Hp). reflexivity.
Qed.

(* an orphan continuation: Z = 1 reaching a receiver that holds no fragment (fresh, or after a packet
   with Y = 0, or after the fragment was dropped).  With W = 1 the packet carries the lost unit's
   tail only and yields no bytes; nothing of it reaches the next packet *)
Example orphan_continuation_skipped :
  av1d_unmarshal (mkAv1Dep [] false false false) (Some [144; 170; 187])
  = (mkAv1Dep [] true false false, Ok []).
Proof. vm_compute. reflexivity. Qed.

(* the flags Z, Y, N a receiver shows are outputs only: what a packet decodes to, and the fragment
   carried on, depend on the receiver through the carried fragment alone *)
Lemma av1d_state_is_buffer st1 st2 p : ad_buffer st1 = ad_buffer st2 ->
  snd (av1d_unmarshal st1 p) = snd (av1d_unmarshal st2 p) /\
  ad_buffer (fst (av1d_unmarshal st1 p)) = ad_buffer (fst (av1d_unmarshal st2 p)).
Proof.
  intros H. unfold av1d_unmarshal. rewrite H.
  destruct (match p with Some l => l | None => [] end) as [|b0 [|b1 l1]]; cbn [fst snd]; auto.
Qed.

Theorem av1_run_state_is_buffer : forall ps st1 st2, ad_buffer st1 = ad_buffer st2 ->
  snd (av1_run st1 ps) = snd (av1_run st2 ps) /\
  ad_buffer (fst (av1_run st1 ps)) = ad_buffer (fst (av1_run st2 ps)).
Proof.
  induction ps as [|p t IH]; intros st1 st2 H; cbn [av1_run]; [auto|].
  destruct (av1d_state_is_buffer st1 st2 (Some p) H) as [Ho Hb].
  destruct (av1d_unmarshal st1 (Some p)) as [s1 r1]. destruct (av1d_unmarshal st2 (Some p)) as [s2 r2].
  cbn [fst snd] in Ho, Hb. specialize (IH s1 s2 Hb).
  destruct (av1_run s1 t) as [s1' o1]. destruct (av1_run s2 t) as [s2' o2]. cbn [fst snd] in *.
  destruct IH as [I1 I2]. split; [congruence|exact I2].
Qed.
