(* C14: fragmentation units.  A NAL unit that does not fit (and is not exactly MTU-1 bytes long,
   KF-C14-lone-fu; AddDONL off, KF-C14-donl-every-fu) becomes at least two FUs: payload header of
   type 49 with the unit's F, layer id and TID, FU header with S on the first only, E on the last
   only and the unit's type on all, chunks that concatenate to the unit's body; H265Packet parses
   each to exactly those fields, and the unit's own two header bytes are recovered from them. *)
From Coq Require Import ZArith List Lia Bool.
From Coq Require Import ZifyBool.
From RTP Require Import Base.Bits Base.Res Base.ListX Base.Own Base.Bytes Base.Tactics
  Model.AnnexB Model.H265 Proofs.C10_H264 Proofs.C13_Obu.
Import ListNotations.
Open Scope Z_scope.
Ltac bits := autorewrite with bits.

Definition fu_b0 (h0 : Z) : Z := Z.lor (Z.land h0 129) (u8 (Z.shiftl 49 1)).

Inductive h5fu_rel (b0 h1 ty : Z) : bool -> list bref -> list (list Z) -> Prop :=
| h5fu_last c : h5fu_rel b0 h1 ty false [Own (b0 :: h1 :: Z.lor ty 64 :: c)] [c]
| h5fu_more first c fs cs : cs <> [] -> h5fu_rel b0 h1 ty false fs cs ->
    h5fu_rel b0 h1 ty first (Own (b0 :: h1 :: (if first then Z.lor ty 128 else ty) :: c) :: fs) (c :: cs).

Lemma h5_fus_spec : forall fuel st maxf h0 h1 ty total rest, h5_donl_on st = false ->
  1 <= maxf -> (length rest < fuel)%nat -> 1 <= zlen rest <= total ->
  (zlen rest = total -> maxf < zlen rest) ->
  exists fs cs, h5_fus fuel st maxf h0 h1 ty total rest = Ok (st, fs) /\
    h5fu_rel (fu_b0 h0) h1 ty (zlen rest =? total) fs cs /\ concat cs = rest /\
    Forall (fun c => 1 <= zlen c <= maxf) cs /\ cs <> [].
Proof.
  induction fuel as [|fuel IH]; intros st maxf h0 h1 ty total rest Hd Hm Hf Hr Hfirst; [lia|].
  cbn [h5_fus]. rewrite Hd. replace (zlen rest <=? 0) with false by lia. fold (fu_b0 h0).
  destruct (maxf <? zlen rest) eqn:Ecur.
  - rewrite slice_take, slice_drop by lia.
    assert (Hdz : 1 <= zlen (drop maxf rest) <= total) by (rewrite drop_zlen by lia; lia).
    assert (Hdl : (length (drop maxf rest) < fuel)%nat).
    { pose proof (drop_zlen maxf rest ltac:(lia)) as Hz. unfold zlen in *. lia. }
    destruct (IH st maxf h0 h1 ty total (drop maxf rest) Hd Hm Hdl Hdz ltac:(rewrite drop_zlen by lia; lia))
      as (fs & cs & Hrun & Hrel & Hcat & Hall & Hne).
    rewrite Hrun. replace (zlen (drop maxf rest) =? total) with false in Hrel by (rewrite drop_zlen by lia; lia).
    exists (Own (fu_b0 h0 :: h1 :: (if zlen rest =? total then Z.lor ty 128 else ty) :: take maxf rest) :: fs),
           (take maxf rest :: cs).
    split.
    + f_equal. f_equal. f_equal. f_equal. f_equal. f_equal.
      destruct (zlen rest =? total); [reflexivity|]. destruct (zlen rest - maxf =? 0) eqn:?; [lia|reflexivity].
    + split; [constructor; assumption|]. split; [cbn [concat]; rewrite Hcat; apply take_drop|].
      split; [constructor; [rewrite take_zlen by lia; lia|assumption]|discriminate].
  - assert (Hnf : (zlen rest =? total) = false) by (destruct (zlen rest =? total) eqn:?; [lia|reflexivity]).
    rewrite Hnf. rewrite slice_take, slice_drop by lia.
    rewrite (drop_all (zlen rest) rest) by lia. rewrite (take_all (zlen rest) rest) by lia.
    destruct fuel; [unfold zlen in *; lia|]. cbn [h5_fus]. change (zlen (@nil Z) <=? 0) with true. cbv iota.
    replace (zlen rest - zlen rest =? 0) with true by lia.
    exists [Own (fu_b0 h0 :: h1 :: Z.lor ty 64 :: rest)], [rest].
    split; [reflexivity|]. split; [constructor|]. split; [cbn; apply app_nil_r|].
    split; [constructor; [lia|constructor]|discriminate].
Qed.

(* the unit's first header byte, from the FU payload header and FU header (RFC 7798 4.4.3) *)
Definition fu_nal_header (hdr fuh : Z) : list Z :=
  [Z.lor (Z.land (Z.shiftr hdr 8) 129) (Z.shiftl (fu_type fuh) 1); Z.land hdr 255].

Definition fu_hdr_ok (h0 ty : Z) (first last : bool) : bool :=
  let b0 := fu_b0 h0 in
  let fuh := if first then Z.lor ty 128 else if last then Z.lor ty 64 else ty in
  (Z.shiftr (Z.shiftl b0 8) 15 =? 0) && (u8 (Z.shiftr (Z.land (Z.shiftl b0 8) 32256) 9) =? 49) &&
  Bool.eqb (fu_s fuh) first && Bool.eqb (fu_e fuh) (negb first && last) && (fu_type fuh =? ty) &&
  (Z.lor (Z.land b0 129) (Z.shiftl (fu_type fuh) 1) =? h0).

Lemma fu_hdr_sweep :
  forallb (fun h0 => forallb (fun fl => fu_hdr_ok h0 (Z.land (Z.shiftr h0 1) 63) (fst fl) (snd fl))
                             [(true, false); (false, true); (false, false)]) (zr 128) = true.
Proof. vm_compute. reflexivity. Qed.

Lemma fu_fragment_parses h0 h1 first last c : 0 <= h0 < 128 -> 0 <= h1 < 256 -> c <> [] ->
  (first = true -> last = false) ->
  let ty := Z.land (Z.shiftr h0 1) 63 in
  let fuh := if first then Z.lor ty 128 else if last then Z.lor ty 64 else ty in
  let hdr := Z.lor (Z.shiftl (fu_b0 h0) 8) h1 in
  h265_unmarshal false (Some (fu_b0 h0 :: h1 :: fuh :: c)) = Ok (PFu hdr fuh None c) /\
  fu_s fuh = first /\ fu_e fuh = last /\ fu_type fuh = ty /\ fu_nal_header hdr fuh = [h0; h1].
Proof.
  intros Hh0 Hh1 Hc Hfl ty fuh hdr.
  pose proof (proj1 (forallb_forall _ _) fu_hdr_sweep h0 (in_zr 128 h0 ltac:(lia))) as Hs.
  cbv beta in Hs. rewrite forallb_forall in Hs.
  assert (Hin : In (first, last) [(true, false); (false, true); (false, false)]).
  { destruct first, last; cbn; auto. specialize (Hfl eq_refl). discriminate. }
  specialize (Hs _ Hin). unfold fu_hdr_ok in Hs. cbn [fst snd] in Hs. fold ty in Hs. fold fuh in Hs.
  repeat (apply andb_prop in Hs as [Hs ?]).
  assert (Hb0 : 0 <= fu_b0 h0 < 128).
  { unfold fu_b0. change (u8 (Z.shiftl 49 1)) with 98.
    assert (C : Z.land h0 129 = 0 \/ Z.land h0 129 = 1).
    { change 129 with (Z.lor 128 1). rewrite Z.land_lor_distr_r. rewrite land_b128, land_1.
      replace (h0 / 128 mod 2 * 128) with 0 by lia. rewrite Z.lor_0_l. lia. }
    destruct C as [-> | ->]; cbn; lia. }
  assert (Hhdr : hdr = fu_b0 h0 * 256 + h1).
  { unfold hdr. rewrite shiftl_8. apply (lor_add_small (fu_b0 h0 * 256) h1 8); lia. }
  assert (Hf : nh_f hdr = false).
  { unfold nh_f. rewrite Hhdr. rewrite Z.shiftr_div_pow2 by lia. change (2 ^ 15) with 32768.
    replace ((fu_b0 h0 * 256 + h1) / 32768) with 0 by lia. reflexivity. }
  assert (Hty : nh_type hdr = 49).
  { unfold nh_type. rewrite Hhdr.
    replace (Z.land (fu_b0 h0 * 256 + h1) 32256) with (Z.land (Z.shiftl (fu_b0 h0) 8) 32256); [lia|].
    rewrite shiftl_8. change 32256 with (Z.shiftl (Z.ones 6) 9). rewrite !land_mask_range by lia.
    change (2 ^ 9) with 512. change (2 ^ 6) with 64. f_equal. f_equal. lia. }
  split.
  - unfold h265_unmarshal. rewrite !zlen_cons. pose proof (zlen_nonneg c).
    assert (1 <= zlen c) by (destruct c; [congruence|rewrite zlen_cons; pose proof (zlen_nonneg c); lia]).
    replace (1 + (1 + (1 + zlen c)) <=? 2) with false by lia. fold hdr. rewrite Hf, Hty.
    change (49 =? 50) with false. change (49 =? 49) with true. cbv iota.
    replace (1 + (1 + (1 + zlen c)) <=? 3) with false by lia. rewrite andb_false_r. reflexivity.
  - split; [apply eqb_prop; assumption|]. split.
    + match goal with H : Bool.eqb (fu_e fuh) _ = true |- _ => apply eqb_prop in H; rewrite H end.
      destruct first; [rewrite (Hfl eq_refl); reflexivity|reflexivity].
    + split; [lia|]. unfold fu_nal_header. f_equal; [|f_equal].
      * rewrite Hhdr. rewrite shiftr_8. replace ((fu_b0 h0 * 256 + h1) / 256) with (fu_b0 h0) by lia. lia.
      * rewrite Hhdr, land_255. lia.
Qed.

From RTP Require Import Proofs.C08_Mtu Proofs.C08_More Proofs.C08_H265.

Lemma nh_type_of_bytes h0 h1 : 0 <= h0 < 256 -> 0 <= h1 < 256 ->
  nh_type (Z.lor (Z.shiftl h0 8) h1) = Z.land (Z.shiftr h0 1) 63.
Proof.
  intros H0 H1. unfold nh_type. rewrite shiftl_8, (lor_add_small (h0 * 256) h1 8) by lia.
  change 32256 with (Z.shiftl (Z.ones 6) 9). rewrite land_mask_range by lia.
  change (2 ^ 9) with 512. change (2 ^ 6) with 64. rewrite shiftr_1, land_63. unfold u8.
  rewrite Z.shiftr_div_pow2 by lia. change (2 ^ 9) with 512. lia.
Qed.

(* a unit of more than MTU bytes, AddDONL off: whatever was buffered is flushed, then >= 2 FUs *)
Theorem fu_unit_lossless mtu st b h0 h1 body : 4 <= mtu -> h5_donl_on st = false ->
  buf_ok mtu false b -> 0 <= h0 < 256 -> 0 <= h1 < 256 -> mtu < zlen (h0 :: h1 :: body) ->
  exists st1 out1 fs cs,
    h5_nalu mtu st b (h0 :: h1 :: body) = Ok (st1, mkH5Buf [] 0, out1 ++ fs) /\
    h5_flush st b = Ok (st1, out1) /\
    h5fu_rel (fu_b0 h0) h1 (Z.land (Z.shiftr h0 1) 63) true fs cs /\ concat cs = body /\
    Forall (fun c => 1 <= zlen c <= mtu - 3) cs /\ (2 <= length cs)%nat.
Proof.
  intros Hm Hd Hb Hh0 Hh1 Hlen. unfold h5_nalu. rewrite Hd. rewrite !zlen_cons in *.
  pose proof (zlen_nonneg body) as Hzb.
  replace (1 + (1 + zlen body) <? 2) with false by lia.
  replace (1 + (1 + zlen body) + 2 + 0 <=? mtu) with false by lia.
  replace (zlen body =? 0) with false by lia.
  replace (zlen body <=? mtu - (3 + 0) + 1) with false by lia.
  replace (mtu - (3 + 0) <=? 0) with false by lia.
  rewrite <- Hd in Hb. destruct (h5_flush_ok mtu st b Hb) as (st1 & out1 & Hfl & _ & Hd1 & _). rewrite Hfl.
  rewrite Hd in Hd1.
  destruct (h5_fus_spec (S (length body)) st1 (mtu - (3 + 0)) h0 h1 (nh_type (Z.lor (Z.shiftl h0 8) h1)) (zlen body) body
              Hd1 ltac:(lia) ltac:(lia) ltac:(lia) ltac:(lia)) as (fs & cs & Hrun & Hrel & Hcat & Hall & Hne).
  rewrite Hrun. rewrite Z.eqb_refl in Hrel. rewrite nh_type_of_bytes in Hrel by lia.
  exists st1, out1, fs, cs. split; [reflexivity|]. split; [reflexivity|]. split; [exact Hrel|]. split; [exact Hcat|].
  split; [eapply Forall_impl; [|exact Hall]; cbv beta; intros; lia|].
  inversion Hrel as [|first c fs' cs' Hne' Hrel' Hf]; subst. destruct cs'; [congruence|]. cbn [length]. lia.
Qed.

(* "F / layer id / TID preserved": the payload header of every fragment reads, through the header
   accessors, the F bit, layer id and TID of the fragmented unit, and type 49 - for all 2^16 headers *)
Definition fu_fields_ok (h0 h1 : Z) : bool :=
  let hdr := h0 * 256 + h1 in
  let fuhdr := fu_b0 h0 * 256 + h1 in
  Bool.eqb (nh_f fuhdr) (nh_f hdr) && (nh_layer_id fuhdr =? nh_layer_id hdr) &&
  (nh_tid fuhdr =? nh_tid hdr) && (nh_type fuhdr =? 49).

Lemma fu_fields_sweep : forallb (fun h0 => forallb (fu_fields_ok h0) (zr 256)) (zr 256) = true.
Proof. vm_compute. reflexivity. Qed.

Theorem fu_header_preserves h0 h1 : 0 <= h0 < 256 -> 0 <= h1 < 256 ->
  let hdr := h0 * 256 + h1 in
  let fuhdr := fu_b0 h0 * 256 + h1 in
  nh_f fuhdr = nh_f hdr /\ nh_layer_id fuhdr = nh_layer_id hdr /\ nh_tid fuhdr = nh_tid hdr /\ nh_type fuhdr = 49.
Proof.
  intros H0 H1 hdr fuhdr.
  pose proof (proj1 (forallb_forall _ _) fu_fields_sweep h0 (in_zr 256 h0 ltac:(lia))) as Hs. cbv beta in Hs.
  pose proof (proj1 (forallb_forall _ _) Hs h1 (in_zr 256 h1 ltac:(lia))) as Hs1.
  unfold fu_fields_ok in Hs1. fold hdr fuhdr in Hs1.
  apply andb_prop in Hs1 as [Hs1 Ht]. apply andb_prop in Hs1 as [Hs1 Htid]. apply andb_prop in Hs1 as [Hf Hl].
  apply eqb_prop in Hf. repeat split; [exact Hf|lia|lia|lia].
Qed.
