(* C13: OBU header parse / marshal are mutually inverse.  Both directions range over a finite
   space (in-range headers: 16448; byte pairs: 65536), so each is a complete enumeration
   evaluated by the kernel (vm_compute) and lifted to the quantified statement by forallb_forall;
   the bounds are part of the statements. *)
From Coq Require Import ZArith List Lia Bool.
From RTP Require Import Base.Bits Base.Res Base.ListX Model.Obu.
Import ListNotations.
Open Scope Z_scope.

Definition zr (n : nat) : list Z := map Z.of_nat (seq 0 n).

Lemma in_zr n x : 0 <= x < Z.of_nat n -> In x (zr n).
Proof.
  intros H. unfold zr. replace x with (Z.of_nat (Z.to_nat x)) by lia.
  apply in_map, in_seq. lia.
Qed.

Definition ext_eqb (a b : option (Z * Z * Z)) : bool :=
  match a, b with
  | None, None => true
  | Some (t, s, r), Some (t', s', r') => (t =? t') && (s =? s') && (r =? r')
  | _, _ => false
  end.
Definition hdr_eqb (a b : obuhdr) : bool :=
  (otype a =? otype b) && ext_eqb (oext a) (oext b) && Bool.eqb (ohas_size a) (ohas_size b) &&
  Bool.eqb (ores1 a) (ores1 b).

Lemma hdr_eqb_eq a b : hdr_eqb a b = true -> a = b.
Proof.
  destruct a as [ty e hs r1], b as [ty' e' hs' r1']. unfold hdr_eqb. cbn [otype oext ohas_size ores1].
  intros H. apply andb_prop in H as [H H4]. apply andb_prop in H as [H H3]. apply andb_prop in H as [H1 H2].
  apply Z.eqb_eq in H1. apply eqb_prop in H3. apply eqb_prop in H4. subst.
  f_equal. destruct e as [[[t s] r]|], e' as [[[t' s'] r']|]; cbn [ext_eqb] in H2; try discriminate; [|reflexivity].
  apply andb_prop in H2 as [H2 Hc]. apply andb_prop in H2 as [Ha Hb].
  apply Z.eqb_eq in Ha, Hb, Hc. subst. reflexivity.
Qed.

(* ---- parse (marshal h) = h ---- *)

Definition all_exts : list (option (Z * Z * Z)) :=
  None :: flat_map (fun t => flat_map (fun s => map (fun r => Some (t, s, r)) (zr 8)) (zr 4)) (zr 8).
Definition all_hdrs : list obuhdr :=
  flat_map (fun ty => flat_map (fun e => flat_map (fun hs => map (fun r1 => mkObuHdr ty e hs r1) [false; true])
                                                  [false; true]) all_exts) (zr 16).

Definition hdr_in_range (h : obuhdr) : Prop :=
  0 <= otype h < 16 /\
  match oext h with Some (t, s, r) => 0 <= t < 8 /\ 0 <= s < 4 /\ 0 <= r < 8 | None => True end.

Lemma in_bools (b : bool) : In b [false; true].
Proof. destruct b; cbn; auto. Qed.

Lemma in_all_hdrs h : hdr_in_range h -> In h all_hdrs.
Proof.
  destruct h as [ty e hs r1]. unfold hdr_in_range. cbn [otype oext]. intros [Hty He].
  unfold all_hdrs. apply in_flat_map. exists ty. split; [apply (in_zr 16); lia|].
  apply in_flat_map. exists e. split.
  - unfold all_exts. destruct e as [[[t s] r]|]; [right|left; reflexivity].
    destruct He as (Ht & Hs & Hr).
    apply in_flat_map. exists t. split; [apply (in_zr 8); lia|].
    apply in_flat_map. exists s. split; [apply (in_zr 4); lia|].
    apply (in_map (fun r0 => Some (t, s, r0))). apply (in_zr 8); lia.
  - apply in_flat_map. exists hs. split; [apply in_bools|]. apply in_map. apply in_bools.
Qed.

Definition parse_marshal_ok (h : obuhdr) : bool :=
  match parse_obu_header (obu_hdr_marshal h) with Some h' => hdr_eqb h' h | None => false end.

Lemma parse_marshal_sweep : forallb parse_marshal_ok all_hdrs = true.
Proof. vm_compute. reflexivity. Qed.

(* the parser reads one byte, or two when the extension flag is set *)
Lemma parse_one_indep b0 h rest : parse_obu_header [b0] = Some h -> parse_obu_header (b0 :: rest) = Some h.
Proof.
  unfold parse_obu_header.
  destruct (negb (Z.land b0 128 =? 0)); [discriminate|].
  destruct (negb (Z.land b0 4 =? 0)); [discriminate|]. auto.
Qed.

Lemma parse_two_indep b0 b1 rest : parse_obu_header (b0 :: b1 :: rest) = parse_obu_header [b0; b1].
Proof. reflexivity. Qed.

Theorem obu_parse_marshal h rest : hdr_in_range h ->
  parse_obu_header (obu_hdr_marshal h ++ rest) = Some h /\ zlen (obu_hdr_marshal h) = obu_hdr_size h.
Proof.
  intros Hr. pose proof (proj1 (forallb_forall _ _) parse_marshal_sweep h (in_all_hdrs h Hr)) as H.
  unfold parse_marshal_ok in H.
  destruct (parse_obu_header (obu_hdr_marshal h)) as [h'|] eqn:E; [|discriminate].
  apply hdr_eqb_eq in H. subst h'.
  unfold obu_hdr_marshal, obu_hdr_size in *. destruct (oext h) as [[[t s] r]|]; cbn [app].
  - split; [|reflexivity]. rewrite parse_two_indep. exact E.
  - split; [|reflexivity]. apply parse_one_indep. exact E.
Qed.

(* ---- marshal (parse bytes) = the bytes read ---- *)

Definition bytes_eqb (a b : list Z) : bool :=
  (Nat.eqb (length a) (length b)) && forallb (fun p => fst p =? snd p) (combine a b).

Lemma bytes_eqb_eq : forall a b, bytes_eqb a b = true -> a = b.
Proof.
  unfold bytes_eqb. induction a as [|x a IH]; intros [|y b]; cbn [length Nat.eqb combine forallb andb fst snd];
    try discriminate; [reflexivity|].
  intros H. apply andb_prop in H as [Hl H]. apply andb_prop in H as [Hx H].
  apply Z.eqb_eq in Hx. subst y. f_equal. apply IH. rewrite Hl, H. reflexivity.
Qed.

Definition marshal_parse_ok (b0 b1 : Z) : bool :=
  match parse_obu_header [b0; b1] with
  | Some h => bytes_eqb (obu_hdr_marshal h) (firstn (Z.to_nat (obu_hdr_size h)) [b0; b1]) &&
              (match parse_obu_header [b0] with
               | Some h1 => hdr_eqb h1 h && (obu_hdr_size h =? 1)
               | None => obu_hdr_size h =? 2
               end)
  | None => (128 <=? b0) && (match parse_obu_header [b0] with None => true | Some _ => false end)
  end.

Lemma marshal_parse_sweep : forallb (fun b0 => forallb (marshal_parse_ok b0) (zr 256)) (zr 256) = true.
Proof. vm_compute. reflexivity. Qed.

Lemma marshal_parse_pair b0 b1 : 0 <= b0 < 256 -> 0 <= b1 < 256 -> marshal_parse_ok b0 b1 = true.
Proof.
  intros H0 H1.
  pose proof (proj1 (forallb_forall _ _) marshal_parse_sweep b0 (in_zr 256 b0 ltac:(lia))) as H.
  exact (proj1 (forallb_forall _ _) H b1 (in_zr 256 b1 ltac:(lia))).
Qed.

(* every pair of bytes: the header parses unless the forbidden bit is set, and marshalling what
   was parsed gives back exactly the bytes that were read *)
Theorem obu_marshal_parse b0 b1 rest : 0 <= b0 < 256 -> 0 <= b1 < 256 ->
  match parse_obu_header (b0 :: b1 :: rest) with
  | Some h => obu_hdr_marshal h = firstn (Z.to_nat (obu_hdr_size h)) [b0; b1]
  | None => 128 <= b0
  end.
Proof.
  intros H0 H1. rewrite parse_two_indep. pose proof (marshal_parse_pair b0 b1 H0 H1) as H.
  unfold marshal_parse_ok in H. destruct (parse_obu_header [b0; b1]) as [h|].
  - apply andb_prop in H as [H _]. apply bytes_eqb_eq. exact H.
  - apply andb_prop in H as [H _]. lia.
Qed.
