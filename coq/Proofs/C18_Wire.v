(* C18 joined to the wire form of C17: the estimate sees only the 24 bits the extension carries. *)
From Coq Require Import ZArith List Lia Bool.
From RTP Require Import Base.Bits Base.Res Base.Tactics Model.ExtCodecs Model.Ntp Proofs.C17_Ext Proofs.C18_Ntp.
Import ListNotations.
Open Scope Z_scope.

Lemma estimate_low24 ts r : 0 <= ts -> estimate (ts mod 16777216) r = estimate ts r.
Proof.
  intros H. unfold estimate. cbv zeta.
  replace (Z.land (ts mod 16777216) 16777215) with (Z.land ts 16777215); [reflexivity|].
  change 16777215 with (Z.ones 24). rewrite !Z.land_ones by lia.
  change (2 ^ 24) with 16777216. rewrite Z.mod_mod by lia. reflexivity.
Qed.

Lemma to_ntp_nonneg u : 0 <= to_ntp u.
Proof.
  unfold to_ntp. cbv zeta. apply Z.lor_nonneg. split.
  - unfold u64. apply Z.mod_pos_bound. lia.
  - apply Z.div_pos; [|lia]. unfold u64. apply Z.mod_pos_bound. lia.
Qed.

Lemma new_abs_send_time_nonneg u : 0 <= new_abs_send_time u.
Proof. unfold new_abs_send_time. apply Z.shiftr_nonneg. apply to_ntp_nonneg. Qed.

(* what the receiver holds after Marshal / Unmarshal of NewAbsSendTimeExtension(send) is the low
   24 bits of the sender's value, whatever the receiving struct held before, and Estimate on it
   recovers the send instant as C18_estimate says *)
Theorem estimate_over_the_wire send delay prev :
  in_era send -> 0 <= delay <= max_delay ->
  exists bs got, abs_send_marshal (new_abs_send_time send) = Ok bs /\ length bs = 3%nat /\
    abs_send_unmarshal prev bs = Ok got /\ got = new_abs_send_time send mod 16777216 /\
    0 <= send - estimate got (send + delay) <= 3816.
Proof.
  intros Hs Hd. pose proof (new_abs_send_time_nonneg send) as Hn.
  set (ts := new_abs_send_time send) in *.
  assert (Hm : 0 <= ts mod 16777216 < 16777216) by (apply Z.mod_pos_bound; lia).
  destruct (abs_send_roundtrip prev (ts mod 16777216) Hm) as (bs & Hma & Hun).
  rewrite abs_send_marshal_spec in Hma by lia. rewrite Z.mod_mod in Hma by lia.
  exists bs, (ts mod 16777216). rewrite abs_send_marshal_spec by lia.
  split; [exact Hma|]. split; [injection Hma as <-; reflexivity|]. split; [exact Hun|]. split; [reflexivity|].
  rewrite estimate_low24 by exact Hn. apply estimate_recovers_any; assumption.
Qed.
