(* C12, non-flexible mode: lossless, B/E, P = non-key frame, and the first packet of a key frame
   carries the scalability structure with the width and height the frame header parser found. *)
From Coq Require Import ZArith List Lia Bool.
From Coq Require Import ZifyBool.
From RTP Require Import Base.Bits Base.Res Base.ListX Base.Own Base.Tactics Model.Vp9Header Model.Vp9
  Proofs.C10_H264 Proofs.C12_Vp9.
Import ListNotations.
Open Scope Z_scope.
Ltac bits := autorewrite with bits.

Definition nonflex_b0 (non_key first last : bool) : Z :=
  129 + (if non_key then 64 else 0) + (if first then 8 else 0) + (if last then 4 else 0) +
  (if negb non_key && first then 2 else 0).

Definition ss_bytes (w h : Z) : list Z :=
  [24; u8 (Z.shiftr w 8); u8 (Z.land w 255); u8 (Z.shiftr h 8); u8 (Z.land h 255); 1; 20; 1].

Definition nonflex_hdr (pid : Z) (non_key first last : bool) (w h : Z) : list Z :=
  nonflex_b0 non_key first last :: pid_bytes pid ++ (if negb non_key && first then ss_bytes w h else []).

Inductive nonflex_rel (pid : Z) (non_key : bool) (w h : Z) : bool -> list bref -> list (list Z) -> Prop :=
| nonflex_nil first : nonflex_rel pid non_key w h first [] []
| nonflex_cons first c fs cs : nonflex_rel pid non_key w h false fs cs ->
    nonflex_rel pid non_key w h first (Own (nonflex_hdr pid non_key first (is_nil cs) w h ++ c) :: fs) (c :: cs).

Lemma nonflex_frags_spec : forall fuel pid mtu non_key w h index rest, 11 < mtu -> 0 <= index ->
  (length rest < fuel)%nat ->
  exists fs cs, nonflex_frags fuel pid mtu non_key w h index rest = Ok (Some fs) /\
                nonflex_rel pid non_key w h (index =? 0) fs cs /\ concat cs = rest /\
                Forall (fun c => 1 <= zlen c) cs /\
                Forall (fun f => match f with Own l => zlen l <= mtu | _ => False end) fs /\
                (rest <> [] -> cs <> []).
Proof.
  induction fuel as [|fuel IH]; intros pid mtu non_key w h index rest Hm Hi Hf; [lia|].
  cbn [nonflex_frags]. pose proof (zlen_nonneg rest) as Hr.
  destruct (zlen rest <=? 0) eqn:E0.
  - exists [], []. assert (rest = []) by (apply zlen_zero; lia). subst rest.
    repeat split; try constructor. congruence.
  - set (with_ss := negb non_key && (index =? 0)).
    set (hs := if with_ss then 11 else 3).
    assert (Hhs : 3 <= hs <= 11) by (unfold hs; destruct with_ss; lia).
    set (cur := if mtu - hs <? zlen rest then mtu - hs else zlen rest).
    assert (Hcur : 1 <= cur <= zlen rest /\ cur <= mtu - hs) by (unfold cur; destruct (mtu - hs <? zlen rest) eqn:?; lia).
    destruct (cur <=? 0) eqn:Ec; [lia|].
    rewrite (slice_take rest cur) by lia. rewrite (slice_drop rest cur) by lia.
    assert (Hd : (length (drop cur rest) < fuel)%nat).
    { pose proof (drop_zlen cur rest ltac:(lia)) as Hz. unfold zlen in *. lia. }
    destruct (IH pid mtu non_key w h (index + cur) (drop cur rest) Hm ltac:(lia) Hd)
      as (fs & cs & Hrun & Hrel & Hcat & Hall & Hlen & Hne).
    rewrite Hrun. replace (index + cur =? 0) with false in Hrel by lia.
    assert (Hlast : (zlen rest =? cur) = is_nil cs).
    { destruct (zlen rest =? cur) eqn:E1.
      - assert (Hdn : drop cur rest = []) by (apply zlen_zero; rewrite drop_zlen by lia; lia).
        rewrite Hdn in Hcat. destruct cs as [|c cs']; [reflexivity|].
        apply Forall_cons_iff in Hall as [Hc _]. cbn [concat] in Hcat.
        apply app_eq_nil in Hcat as [-> _]. change (zlen (@nil Z)) with 0 in Hc. lia.
      - destruct cs as [|c cs']; [|reflexivity]. exfalso. apply Hne; [|reflexivity].
        intros Hdn. pose proof (drop_zlen cur rest ltac:(lia)) as Hz. rewrite Hdn in Hz.
        change (zlen (@nil Z)) with 0 in Hz. lia. }
    exists (Own (nonflex_hdr pid non_key (index =? 0) (is_nil cs) w h ++ take cur rest) :: fs), (take cur rest :: cs).
    assert (Hhdr : forall a,
      (let b0 := 129 in
       let b0 := if non_key then Z.lor b0 64 else b0 in
       let b0 := if index =? 0 then Z.lor b0 8 else b0 in
       let b0 := if zlen rest =? cur then Z.lor b0 4 else b0 in
       let b0 := if with_ss then Z.lor b0 2 else b0 in b0)
      :: pid_bytes pid ++ (if with_ss
              then [24; u8 (Z.shiftr w 8); u8 (Z.land w 255); u8 (Z.shiftr h 8); u8 (Z.land h 255); 1; 20; 1]
              else []) ++ a = nonflex_hdr pid non_key (index =? 0) (is_nil cs) w h ++ a).
    { intros a. unfold nonflex_hdr, nonflex_b0, ss_bytes, with_ss. rewrite Hlast. cbn [app].
      rewrite <- app_assoc. f_equal.
      destruct non_key, (index =? 0), (is_nil cs); reflexivity. }
    cbv zeta in Hhdr. split; [rewrite Hhdr; reflexivity|].
    split; [constructor; exact Hrel|].
    split; [cbn [concat]; rewrite Hcat; apply take_drop|].
    split; [constructor; [rewrite take_zlen by lia; lia|exact Hall]|].
    split; [|intros _; discriminate].
    constructor; [|exact Hlen].
    rewrite zlen_app, take_zlen by lia. unfold nonflex_hdr, pid_bytes, ss_bytes.
    fold with_ss. unfold hs in Hcur. destruct with_ss; cbn [app]; rewrite ?zlen_cons; change (zlen (@nil Z)) with 0; lia.
Qed.

Theorem vp9_nonflexible_spec : forall pid mtu frame hdr, 11 < mtu -> frame <> [] ->
  vp9_header_unmarshal frame = Ok hdr ->
  exists fs cs, payload_nonflexible pid mtu frame = Ok fs /\
                nonflex_rel pid (vh_non_key hdr) (vp9_width hdr) (vp9_height hdr) true fs cs /\
                concat cs = frame /\ cs <> [] /\ Forall (fun c => 1 <= zlen c) cs /\
                Forall (fun f => match f with Own l => zlen l <= mtu | _ => False end) fs.
Proof.
  intros pid mtu frame hdr Hm Hne Hh. unfold payload_nonflexible. rewrite Hh.
  destruct (nonflex_frags_spec (S (length frame)) pid mtu (vh_non_key hdr) (vp9_width hdr) (vp9_height hdr) 0 frame
              Hm ltac:(lia) ltac:(lia)) as (fs & cs & Hrun & Hrel & Hcat & Hall & Hlen & Hcs).
  rewrite Hrun. exists fs, cs. repeat split; auto.
Qed.

(* a frame whose uncompressed header does not parse is not sent at all *)
Theorem vp9_nonflexible_bad_header : forall pid mtu frame e,
  vp9_header_unmarshal frame = Err e -> payload_nonflexible pid mtu frame = Ok [].
Proof. intros pid mtu frame e H. unfold payload_nonflexible. rewrite H. reflexivity. Qed.

(* what VP9Packet makes of a non-flexible packet *)
Definition nonflex_packet (pid : Z) (non_key first last : bool) (w h : Z) (c : list Z) : vp9pkt :=
  if negb non_key && first
  then mkVp9Pkt true non_key false false first last true true pid 0 false 0 false [] 0
                0 true true 1 [w] [h] [0] [true] [[1]] c
  else mkVp9Pkt true non_key false false first last false true pid 0 false 0 false [] 0
                0 false false 0 [] [] [] [] [] c.

Theorem vp9_nonflex_fragment_decodes : forall pid non_key first last w h c prev,
  0 <= pid < 32768 -> 0 <= w < 65536 -> 0 <= h < 65536 ->
  vp9_unmarshal prev (Some (nonflex_hdr pid non_key first last w h ++ c)) =
  Ok (nonflex_packet pid non_key first last w h c).
Proof.
  intros pid non_key first last w h c prev Hp Hw Hh. unfold nonflex_hdr, pid_bytes. cbn [app].
  set (hi := Z.lor (u8 (Z.shiftr pid 8)) 128).
  assert (Hhi : hi = pid / 256 + 128).
  { unfold hi, u8. bits. rewrite Z.mod_small by lia. apply lor_128_add. lia. }
  unfold vp9_unmarshal.
  set (b0 := nonflex_b0 non_key first last).
  assert (F128 : bit_set b0 128 = true) by (destruct non_key, first, last; reflexivity).
  assert (F64 : bit_set b0 64 = non_key) by (destruct non_key, first, last; reflexivity).
  assert (F32 : bit_set b0 32 = false) by (destruct non_key, first, last; reflexivity).
  assert (F16 : bit_set b0 16 = false) by (destruct non_key, first, last; reflexivity).
  assert (F8 : bit_set b0 8 = first) by (destruct non_key, first, last; reflexivity).
  assert (F4 : bit_set b0 4 = last) by (destruct non_key, first, last; reflexivity).
  assert (F2 : bit_set b0 2 = negb non_key && first) by (destruct non_key, first, last; reflexivity).
  assert (F1 : bit_set b0 1 = true) by (destruct non_key, first, last; reflexivity).
  rewrite F128, F64, F32, F16, F8, F4, F2, F1. cbn [andb].
  assert (Hset : bit_set hi 128 = true).
  { unfold bit_set. rewrite land_b128, Hhi. apply negb_true_iff. lia. }
  rewrite Hset.
  assert (Hpid : Z.lor (u16 (Z.shiftl (Z.land hi 127) 8)) (u8 pid) = pid).
  { rewrite Hhi. unfold u16, u8. bits.
    replace ((pid / 256 + 128) mod 128) with (pid / 256) by lia.
    rewrite Z.mod_small by lia.
    rewrite (lor_add_small (pid / 256 * 256) (pid mod 256) 8) by lia. lia. }
  rewrite Hpid. unfold nonflex_packet.
  destruct (negb non_key && first) eqn:Ess; [|reflexivity].
  unfold ss_bytes. cbn [app].
  change (Z.shiftr 24 5) with 0. change (bit_set 24 16) with true. change (bit_set 24 8) with true.
  change (Z.to_nat (0 + 1)) with 1%nat. cbn [parse_resolutions app].
  change (Z.to_nat 1) with 1%nat. cbn [parse_pgs].
  change (Z.land (Z.shiftr 20 2) 3) with 1. change (zlen (1 :: c) <? 1) with (zlen (1 :: c) <? 1).
  rewrite zlen_cons. pose proof (zlen_nonneg c). replace (1 + zlen c <? 1) with false by lia.
  change (Z.shiftr 20 5) with 0. change (bit_set 20 16) with true.
  change (drop 1 (1 :: c)) with c. change (take 1 (1 :: c)) with [1]. cbn [app].
  assert (Hw16 : Z.lor (Z.shiftl (u8 (Z.shiftr w 8)) 8) (u8 (Z.land w 255)) = w).
  { unfold u8. bits. rewrite (Z.mod_small (w / 256)) by lia. rewrite (Z.mod_small (w mod 256)) by lia.
    rewrite (lor_add_small (w / 256 * 256) (w mod 256) 8) by lia. lia. }
  assert (Hh16 : Z.lor (Z.shiftl (u8 (Z.shiftr h 8)) 8) (u8 (Z.land h 255)) = h).
  { unfold u8. bits. rewrite (Z.mod_small (h / 256)) by lia. rewrite (Z.mod_small (h mod 256)) by lia.
    rewrite (lor_add_small (h / 256 * 256) (h mod 256) 8) by lia. lia. }
  rewrite Hw16, Hh16. reflexivity.
Qed.
