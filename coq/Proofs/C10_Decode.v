(* C10, decoder clause: H264Packet decodes every RFC 6184 single / STAP-A / FU-A stream produced
   by the independent encoder of Spec/Rfc6184.v to the NAL units it was built from. *)
From Coq Require Import ZArith List Lia Bool.
From Coq Require Import ZifyBool.
From RTP Require Import Base.Bits Base.Res Base.ListX Base.Bytes Base.Own Base.Tactics
  Model.H264 Spec.Rfc6184 Proofs.C10_H264 Proofs.C10_Lossless.
Import ListNotations.
Open Scope Z_scope.

Lemma packaging_prefixed avc buf n : packaging avc buf n = buf ++ prefixed avc n.
Proof. unfold prefixed, packaging. destruct avc; cbn [app]; reflexivity. Qed.

Lemma fold_packaging avc us : forall acc,
  fold_left (packaging avc) us acc = acc ++ concat (map (prefixed avc) us).
Proof.
  induction us as [|u t IH]; intros acc; cbn [fold_left map concat].
  - rewrite app_nil_r. reflexivity.
  - rewrite IH, packaging_prefixed, app_assoc. reflexivity.
Qed.

(* STAP-A with any number of units *)
Lemma stapa_units avc : forall us fuel acc, Forall (fun u => zlen u < 65536) us -> (length us < fuel)%nat ->
  stapa_loop fuel avc (concat (map unit_enc us)) acc = Ok (fold_left (packaging avc) us acc).
Proof.
  induction us as [|u t IH]; intros fuel acc Hall Hf.
  - destruct fuel; [cbn [length] in Hf; lia|]. reflexivity.
  - destruct fuel; [cbn [length] in Hf; lia|].
    apply Forall_cons_iff in Hall. destruct Hall as [Hu Ht].
    cbn [map concat fold_left]. unfold unit_enc at 1.
    pose proof (zlen_nonneg u) as Hu0.
    pose proof (put16_be16 (zlen u) ltac:(lia)) as P.
    destruct (put16 (zlen u)) as [|a [|b [|? ?]]]; try contradiction. destruct P as (P & _).
    cbn [app].
    rewrite stapa_step by (rewrite P, zlen_app; pose proof (zlen_nonneg (concat (map unit_enc t))); lia).
    rewrite P, take_app_exact, drop_app_exact.
    apply IH; [exact Ht|cbn [length] in Hf; lia].
Qed.

Lemma stapa_decodes st nri us : nri_ok nri -> Forall (fun u => zlen u < 65536) us ->
  h264_unmarshal st (Some (Z.lor 24 nri :: concat (map unit_enc us)))
  = Ok (st, concat (map (prefixed (hk_avc st)) us)).
Proof.
  intros Hn Hall. unfold h264_unmarshal.
  assert (Hty : Z.land (Z.lor 24 nri) 31 = 24) by (destruct Hn as [->|[->|[->|[->|[->|[->|[->| ->]]]]]]]; reflexivity).
  rewrite Hty. change ((0 <? 24) && (24 <? 24)) with false. change (24 =? 24) with true. cbv iota.
  rewrite stapa_units.
  - rewrite fold_packaging. reflexivity.
  - exact Hall.
  - assert (H : (length us <= length (concat (map unit_enc us)))%nat).
    { clear. induction us as [|u t IH]; cbn [map concat length]; [lia|].
      rewrite app_length. unfold unit_enc at 1. rewrite app_length. unfold put16. cbn [length]. lia. }
    lia.
Qed.

(* FU-A with any cut points *)
Lemma fua_enc_rel ind ty : forall cs first, cs <> [] -> (first = true -> (2 <= length cs)%nat) ->
  fua_rel ind ty first (map Own (fua_enc ind ty first cs)) cs.
Proof.
  induction cs as [|c t IH]; intros first Hne Hf; [contradiction|].
  destruct t as [|c2 t2].
  - destruct first; [specialize (Hf eq_refl); cbn [length] in Hf; lia|].
    cbn [fua_enc map]. constructor.
  - change (fua_enc ind ty first (c :: c2 :: t2))
      with ((ind :: (if first then Z.lor ty 128 else ty) :: c) :: fua_enc ind ty false (c2 :: t2)).
    cbn [map]. constructor; [discriminate|]. apply IH; [discriminate|discriminate].
Qed.

Lemma map_own_bytes (l : list (list Z)) : map own_bytes (map Own l) = l.
Proof. induction l as [|a t IH]; cbn [map own_bytes]; [reflexivity|rewrite IH; reflexivity]. Qed.

Lemma item_decodes avc i : wf_item i -> forall stale, exists stale',
  depack (mkH264Pkt avc stale) (item_enc i)
  = Ok (mkH264Pkt avc stale', concat (map (prefixed avc) (item_units i))).
Proof.
  intros Hwf stale. destruct i as [n|nri us|h cs]; cbn [item_enc item_units wf_item] in *.
  - exists stale. cbn [depack]. destruct n as [|b0 l1]; [contradiction|]. destruct Hwf as [_ Hty].
    unfold h264_unmarshal. replace ((0 <? Z.land b0 31) && (Z.land b0 31 <? 24)) with true by lia.
    cbn [hk_avc map concat]. rewrite !app_nil_r. reflexivity.
  - destruct Hwf as [Hn Hall]. exists stale. cbn [depack].
    rewrite (stapa_decodes (mkH264Pkt avc stale) nri us Hn Hall). cbn [hk_avc]. rewrite app_nil_r. reflexivity.
  - destruct Hwf as (Hh & Hty & Hlen). exists [].
    destruct (nal_header_split h Hh) as [Hsplit Hnri].
    pose proof (fua_enc_rel (Z.lor 28 (Z.land h 224)) (Z.land h 31) cs true
                  ltac:(destruct cs; [cbn [length] in Hlen; lia|discriminate]) ltac:(intros _; exact Hlen)) as Hrel.
    pose proof (depack_fua avc (Z.land h 224) (Z.land h 31) _ _ Hnri Hty Hrel stale) as D.
    rewrite map_own_bytes in D. rewrite D. cbn [map concat]. rewrite app_nil_r.
    unfold prefixed.
    rewrite Hsplit. reflexivity.
Qed.

Theorem decode_rfc avc : forall plan, Forall wf_item plan -> forall stale, exists stale',
  depack (mkH264Pkt avc stale) (rfc_stream plan)
  = Ok (mkH264Pkt avc stale', concat (map (prefixed avc) (rfc_units plan))).
Proof.
  induction plan as [|i t IH]; intros Hall stale.
  - exists stale. reflexivity.
  - apply Forall_cons_iff in Hall. destruct Hall as [Hi Ht].
    unfold rfc_stream, rfc_units. cbn [map concat]. rewrite depack_app.
    destruct (item_decodes avc i Hi stale) as [s1 ->].
    destruct (IH Ht s1) as [s2 E]. unfold rfc_stream, rfc_units in E. rewrite E.
    exists s2. rewrite map_app, concat_app. reflexivity.
Qed.
