(* C12: every strict prefix of a well-formed VP9 payload descriptor is rejected (errShortPacket). *)
From Coq Require Import ZArith List Lia Bool.
From Coq Require Import ZifyBool.
From RTP Require Import Base.Bits Base.Res Base.ListX Base.Own Base.Tactics Model.Vp9Header Model.Vp9 Spec.Vp9Rtp
  Proofs.C12_Decode.
Import ListNotations.
Open Scope Z_scope.

Lemma take_cons_pos {A} (x : A) l j : 1 <= j -> take j (x :: l) = x :: take (j - 1) l.
Proof. intros H. unfold take. replace (Z.to_nat j) with (S (Z.to_nat (j - 1))) by lia. reflexivity. Qed.

Lemma take_nonpos {A} (l : list A) j : j <= 0 -> take j l = [].
Proof. intros H. unfold take. replace (Z.to_nat j) with O by lia. reflexivity. Qed.

Lemma take_app_ge {A} (a r : list A) j : zlen a <= j -> take j (a ++ r) = a ++ take (j - zlen a) r.
Proof.
  revert j. induction a as [|x a IH]; intros j H.
  - change (zlen (@nil A)) with 0. rewrite Z.sub_0_r. reflexivity.
  - rewrite zlen_cons in H. pose proof (zlen_nonneg a). cbn [app]. rewrite take_cons_pos by lia.
    rewrite IH by lia. rewrite zlen_cons. replace (j - 1 - zlen a) with (j - (1 + zlen a)) by lia. reflexivity.
Qed.

(* the shape shared by all four stages: fewer bytes than the field needs is an error, otherwise
   the field is decoded as before and the remaining budget applies to the rest *)
Definition cut {V} (stage : list Z -> res (V * list Z)) (x : list Z) (v : V) : Prop :=
  forall r j, 0 <= j -> stage (take j (x ++ r)) =
    if j <? zlen x then Err EShort else Ok (v, take (j - zlen x) r).

Lemma cut_pid pid :
  match pid with Some (true, id) => 0 <= id < 32768 | Some (false, id) => 0 <= id < 128 | None => True end ->
  cut (stage_pid (some pid)) (enc_pid pid) (match pid with Some (_, id) => id | None => 0 end).
Proof.
  intros H r j Hj. destruct (j <? zlen (enc_pid pid)) eqn:E.
  - destruct pid as [[[|] id]|]; cbn [enc_pid some] in *.
    + change (zlen [128 + id / 256; id mod 256]) with 2 in E. cbn [app].
      assert (C : j = 0 \/ j = 1) by lia. destruct C as [-> | ->].
      * rewrite take_nonpos by lia. reflexivity.
      * rewrite take_cons_pos by lia. rewrite take_nonpos by lia. cbn [stage_pid].
        assert (Hb : bit_set (128 + id / 256) 128 = true) by (unfold bit_set; rewrite land_b128; apply negb_true_iff; lia).
        rewrite Hb. reflexivity.
    + change (zlen [id]) with 1 in E. rewrite take_nonpos by lia. reflexivity.
    + change (zlen (@nil Z)) with 0 in E. lia.
  - rewrite take_app_ge by lia. apply stage_pid_decode. exact H.
Qed.

Lemma cut_layer layer f tl0 :
  match layer with Some ly => 0 <= ly_tid ly < 8 /\ 0 <= ly_sid ly < 5 | None => True end ->
  cut (stage_layer (some layer) f) (enc_layer layer f tl0)
      (match layer with Some ly => ly_tid ly | None => 0 end,
       match layer with Some ly => ly_u ly | None => false end,
       match layer with Some ly => ly_sid ly | None => 0 end,
       match layer with Some ly => ly_d ly | None => false end,
       match layer with Some _ => if f then 0 else tl0 | None => 0 end).
Proof.
  intros H r j Hj. destruct (j <? zlen (enc_layer layer f tl0)) eqn:E.
  - destruct layer as [[tid u sid d]|]; cbn [enc_layer some ly_tid ly_u ly_sid ly_d] in *;
      [|change (zlen (@nil Z)) with 0 in E; lia].
    destruct H as [Ht Hs]. destruct (layer_byte tid u sid d Ht Hs) as (L1 & L2 & L3 & L4). cbv zeta in L1, L2, L3, L4.
    destruct f; cbn [app] in *.
    + rewrite zlen_cons in E. change (zlen (@nil Z)) with 0 in E. rewrite take_nonpos by lia. reflexivity.
    + rewrite !zlen_cons in E. change (zlen (@nil Z)) with 0 in E.
      assert (C : j = 0 \/ j = 1) by lia. destruct C as [-> | ->].
      * rewrite take_nonpos by lia. reflexivity.
      * rewrite take_cons_pos by lia. rewrite take_nonpos by lia. cbn [stage_layer]. rewrite L1.
        replace (5 <=? sid) with false by lia. reflexivity.
  - rewrite take_app_ge by lia. apply stage_layer_decode. exact H.
Qed.

Lemma cut_pd c ds :
  (c = true -> (1 <= length ds <= 3)%nat /\ Forall (fun x => 0 <= x < 128) ds) ->
  cut (stage_pd c) (if c then enc_pdiffs ds else []) (if c then ds else []).
Proof.
  intros H r j Hj. destruct c.
  2:{ change (zlen (@nil Z)) with 0. replace (j <? 0) with false by lia. rewrite Z.sub_0_r. reflexivity. }
  destruct (H eq_refl) as [Hl Hall].
  destruct (j <? zlen (enc_pdiffs ds)) eqn:E.
  - unfold stage_pd. destruct ds as [|a [|b [|c [|? ?]]]]; cbn [length] in Hl; try lia; cbn [enc_pdiffs app] in *;
      rewrite ?zlen_cons in E; change (zlen (@nil Z)) with 0 in E.
    + rewrite take_nonpos by lia. reflexivity.
    + apply Forall_cons_iff in Hall as [Ha _]. destruct (pdiff_more a Ha) as [A1 A2].
      assert (C : j = 0 \/ j = 1) by lia. destruct C as [-> | ->].
      * rewrite take_nonpos by lia. reflexivity.
      * rewrite take_cons_pos by lia. rewrite take_nonpos by lia. cbn [parse_ref_indices]. rewrite A2.
        change (3 <=? zlen ([] ++ [Z.shiftr (a * 2 + 1) 1])) with false. reflexivity.
    + apply Forall_cons_iff in Hall as [Ha Hall]. apply Forall_cons_iff in Hall as [Hb _].
      destruct (pdiff_more a Ha) as [A1 A2]. destruct (pdiff_more b Hb) as [B1 B2].
      assert (C : j = 0 \/ j = 1 \/ j = 2) by lia. destruct C as [-> | [-> | ->]].
      * rewrite take_nonpos by lia. reflexivity.
      * rewrite take_cons_pos by lia. rewrite take_nonpos by lia. cbn [parse_ref_indices]. rewrite A2.
        change (3 <=? zlen ([] ++ [Z.shiftr (a * 2 + 1) 1])) with false. reflexivity.
      * rewrite take_cons_pos by lia. change (2 - 1) with 1. rewrite take_cons_pos by lia. rewrite take_nonpos by lia.
        cbn [parse_ref_indices]. rewrite A2. change (3 <=? zlen ([] ++ [Z.shiftr (a * 2 + 1) 1])) with false. cbv iota.
        rewrite B2. change (3 <=? zlen (([] ++ [Z.shiftr (a * 2 + 1) 1]) ++ [Z.shiftr (b * 2 + 1) 1])) with false. reflexivity.
  - rewrite take_app_ge by lia. unfold stage_pd. apply ref_indices_decode; assumption.
Qed.

(* ---- the scalability structure: a strict prefix is an error ---- *)
Lemma resolutions_short : forall rs j ws hs, 0 <= j < 4 * zlen rs ->
  parse_resolutions (length rs) (take j (enc_res rs)) ws hs = Err EShort.
Proof.
  induction rs as [|[w h] rs IH]; intros j ws hs Hj.
  - change (zlen (@nil (Z * Z))) with 0 in Hj. lia.
  - rewrite zlen_cons in Hj. cbn [length parse_resolutions enc_res flat_map]. fold (enc_res rs). cbn [fst snd app].
    assert (C : j = 0 \/ j = 1 \/ j = 2 \/ j = 3 \/ 4 <= j) by lia.
    destruct C as [-> | [-> | [-> | [-> | Hge]]]].
    + rewrite take_nonpos by lia. reflexivity.
    + rewrite take_cons_pos by lia. rewrite take_nonpos by lia. reflexivity.
    + rewrite take_cons_pos by lia. change (2 - 1) with 1. rewrite take_cons_pos by lia. rewrite take_nonpos by lia. reflexivity.
    + rewrite take_cons_pos by lia. change (3 - 1) with 2. rewrite take_cons_pos by lia. change (2 - 1) with 1.
      rewrite take_cons_pos by lia. rewrite take_nonpos by lia. reflexivity.
    + rewrite take_cons_pos by lia. rewrite take_cons_pos by lia. rewrite take_cons_pos by lia. rewrite take_cons_pos by lia.
      apply IH. lia.
Qed.

Lemma pgs_short : forall gs j tids us pds, Forall wf_pg gs -> 0 <= j < zlen (flat_map enc_pg gs) ->
  parse_pgs (length gs) (take j (flat_map enc_pg gs)) tids us pds = Err EShort.
Proof.
  induction gs as [|g gs IH]; intros j tids us pds Hall Hj.
  - change (zlen (flat_map enc_pg [])) with 0 in Hj. lia.
  - apply Forall_cons_iff in Hall as [(Ht & Hl & Hb) Hall].
    cbn [length parse_pgs flat_map]. unfold enc_pg at 1. cbn [app].
    cbn [flat_map] in Hj. unfold enc_pg at 1 in Hj. cbn [app] in Hj. rewrite zlen_cons, zlen_app in Hj.
    assert (Hr : 0 <= zlen (pg_pdiffs g) <= 3) by (unfold zlen; lia).
    destruct (pg_byte (pg_tid g) (pg_u g) (zlen (pg_pdiffs g)) Ht Hr) as (P1 & P2 & P3). cbv zeta in P1, P2, P3.
    destruct (Z.eq_dec j 0) as [-> | Hj0]; [rewrite take_nonpos by lia; reflexivity|].
    rewrite take_cons_pos by lia. rewrite P1.
    destruct (j - 1 <? zlen (pg_pdiffs g)) eqn:E.
    + (* cut inside the P_DIFFs of this group *)
      pose proof (zlen_nonneg (flat_map enc_pg gs)).
      assert (Hz : zlen (take (j - 1) (pg_pdiffs g ++ flat_map enc_pg gs)) = j - 1)
        by (apply take_zlen; rewrite zlen_app; lia).
      rewrite Hz. replace (j - 1 <? zlen (pg_pdiffs g)) with true by lia. reflexivity.
    + rewrite take_app_ge by lia. rewrite zlen_app.
      pose proof (zlen_nonneg (take (j - 1 - zlen (pg_pdiffs g)) (flat_map enc_pg gs))).
      replace (zlen (pg_pdiffs g) + zlen (take (j - 1 - zlen (pg_pdiffs g)) (flat_map enc_pg gs)) <? zlen (pg_pdiffs g)) with false by lia.
      rewrite drop_app_exact. apply IH; [exact Hall|lia].
Qed.

Lemma zlen_enc_res rs : zlen (enc_res rs) = 4 * zlen rs.
Proof.
  induction rs as [|r rs IH]; [reflexivity|]. cbn [enc_res flat_map]. fold (enc_res rs).
  cbn [app]. rewrite !zlen_cons, IH. lia.
Qed.

Lemma ss_short s mk j : wf_ss s -> 0 <= j < zlen (enc_ss s) ->
  stage_ss true mk (take j (enc_ss s)) = Err EShort.
Proof.
  intros (Hns & Hres & Hpgs) Hj. destruct s as [ns res pgs]. cbn [ss_ns ss_res ss_pgs] in *.
  unfold enc_ss in *. cbn [ss_ns ss_res ss_pgs app] in *.
  destruct (Z.eq_dec j 0) as [-> | Hj0]; [rewrite take_nonpos by lia; reflexivity|].
  rewrite take_cons_pos by lia. cbn [stage_ss].
  destruct (ss_byte ns (some res) (some pgs) Hns) as (S1 & S2 & S3). cbv zeta in S1, S2, S3. rewrite S1, S2, S3.
  rewrite zlen_cons, zlen_app in Hj.
  set (R := match res with Some rs => enc_res rs | None => [] end) in *.
  set (G := match pgs with Some gs => zlen gs :: flat_map enc_pg gs | None => [] end) in *.
  pose proof (zlen_nonneg R) as HR. pose proof (zlen_nonneg G) as HG.
  destruct (j - 1 <? zlen R) eqn:E.
  - (* cut inside the resolutions *)
    destruct res as [rs|]; [|unfold R in E; change (zlen (@nil Z)) with 0 in E; lia].
    cbn [some]. destruct Hres as [Hl Hall]. unfold R in *. rewrite zlen_enc_res in E.
    rewrite take_app_le by (rewrite zlen_enc_res; lia).
    replace (Z.to_nat (ns + 1)) with (length rs) by (unfold zlen in Hl; lia).
    rewrite resolutions_short by lia. reflexivity.
  - assert (Hres' : (if some res then parse_resolutions (Z.to_nat (ns + 1)) (take (j - 1) (R ++ G)) [] []
                     else Ok ([], [], take (j - 1) (R ++ G)))
                    = Ok (match res with Some rs => map fst rs | None => [] end,
                          match res with Some rs => map snd rs | None => [] end, take (j - 1 - zlen R) G)).
    { rewrite take_app_ge by lia. destruct res as [rs|]; cbn [some]; unfold R.
      - destruct Hres as [Hl Hall]. replace (Z.to_nat (ns + 1)) with (length rs) by (unfold zlen in Hl; lia).
        rewrite (resolutions_decode rs _ [] [] Hall). reflexivity.
      - reflexivity. }
    rewrite Hres'. clear Hres'.
    destruct pgs as [gs|]; cbn [some]; unfold G in *.
    + destruct Hpgs as [Hl Hall]. rewrite zlen_cons in Hj.
      destruct (Z.eq_dec (j - 1 - zlen R) 0) as [E0 | E0].
      * rewrite E0, take_nonpos by lia. reflexivity.
      * rewrite take_cons_pos by lia.
        replace (Z.to_nat (zlen gs)) with (length gs) by (unfold zlen; lia).
        rewrite pgs_short by (auto; lia). reflexivity.
    + change (zlen (@nil Z)) with 0 in Hj. lia.
Qed.

Theorem vp9_prefix_rejected d prev k : wf_vdesc d -> 0 <= k < zlen (encode_vdesc d) ->
  vp9_unmarshal prev (Some (take k (encode_vdesc d))) = Err EShort.
Proof.
  destruct d as [pid p f b e z layer tl0 pdiffs ss]. intros (Hpid & Hlayer & Htl0 & Hpd & Hss) Hk.
  cbn [vd_pid vd_p vd_f vd_b vd_e vd_z vd_layer vd_tl0 vd_pdiffs vd_ss] in *.
  unfold encode_vdesc in *. cbn [vd_pid vd_p vd_f vd_b vd_e vd_z vd_layer vd_tl0 vd_pdiffs vd_ss app] in *.
  destruct (Z.eq_dec k 0) as [-> | Hk0]; [rewrite take_nonpos by lia; reflexivity|].
  rewrite take_cons_pos by lia. rewrite unmarshal_staged.
  destruct (b0_flags (some pid) p (some layer) f b e (some ss) z) as (F1 & F2 & F3 & F4 & F5 & F6 & F7 & F8).
  cbv zeta in F1, F2, F3, F4, F5, F6, F7, F8. rewrite F1, F2, F3, F4, F5, F6, F7, F8.
  fold (enc_pid pid) in *. fold (enc_layer layer f tl0) in *. rewrite zlen_cons in Hk.
  pose proof (cut_pid pid Hpid) as CA. pose proof (cut_layer layer f tl0 Hlayer) as CB.
  pose proof (cut_pd (f && p) pdiffs Hpd) as CC. unfold cut in CA, CB, CC.
  set (A := enc_pid pid) in *. set (B := enc_layer layer f tl0) in *.
  set (C := if f && p then enc_pdiffs pdiffs else []) in *.
  set (D := match ss with Some s => enc_ss s | None => [] end) in *.
  rewrite !zlen_app in Hk.
  pose proof (zlen_nonneg A). pose proof (zlen_nonneg B). pose proof (zlen_nonneg C). pose proof (zlen_nonneg D).
  rewrite (CA (B ++ C ++ D) (k - 1) ltac:(lia)).
  destruct (k - 1 <? zlen A) eqn:EA; [reflexivity|].
  rewrite (CB (C ++ D) (k - 1 - zlen A) ltac:(lia)).
  destruct (k - 1 - zlen A <? zlen B) eqn:EB; [reflexivity|].
  rewrite (CC D (k - 1 - zlen A - zlen B) ltac:(lia)).
  destruct (k - 1 - zlen A - zlen B <? zlen C) eqn:EC; [reflexivity|].
  destruct ss as [s|]; cbn [some]; unfold D in *.
  - rewrite <- (app_nil_r (enc_ss s)) at 1. rewrite app_nil_r. apply ss_short; [exact Hss|lia].
  - change (zlen (@nil Z)) with 0 in Hk. lia.
Qed.
