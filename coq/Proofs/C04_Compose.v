(* C04 composed with C01: MarshalTo followed by Unmarshal, and the independence of the written bytes
   from the destination. *)
From Coq Require Import ZArith List Lia.
From RTP Require Import Base.Res Base.ListX Model.RtpPacket Spec.Rfc3550 Proofs.C01_Roundtrip.
Import ListNotations.
Open Scope Z_scope.

(* MarshalTo into any sufficient destination, then Unmarshal of the n bytes it reports: the packet
   comes back, and the destination beyond n is what it was - C04 composed with C01 *)
Theorem marshal_to_roundtrip : forall p dst, wf_packet p -> packet_marshal_size p <= zlen dst ->
  exists out, packet_marshal_to p dst = Ok (out, packet_marshal_size p) /\
    zlen out = zlen dst /\
    drop (packet_marshal_size p) out = drop (packet_marshal_size p) dst /\
    exists offs, packet_unmarshal_into empty_packet (take (packet_marshal_size p) out)
                 = Ok (mkPktResult p (header_marshal_size (hdr p)) offs).
Proof.
  intros p dst Hp Hsz.
  destruct (packet_roundtrip p Hp) as (bs & Hm & Hl & offs & Hu).
  pose proof (packet_marshal_to_spec p dst Hp Hsz) as Ht.
  pose proof (packet_marshal_spec p Hp) as Hm'. rewrite Hm in Hm'. injection Hm' as Hbs.
  rewrite <- Hbs in Ht.
  exists (bs ++ drop (packet_marshal_size p) dst). split; [exact Ht|].
  assert (Hn : 0 <= packet_marshal_size p) by (rewrite <- Hl; apply zlen_nonneg).
  split; [rewrite zlen_app, drop_zlen by lia; lia|].
  split.
  - rewrite <- Hl at 1. rewrite drop_app_exact. reflexivity.
  - exists offs. rewrite <- Hl at 1. rewrite take_app_exact. exact Hu.
Qed.

(* the bytes written do not depend on what the destination held or on how long it is *)
Theorem marshal_to_dst_independent : forall p d1 d2 o1 o2 n1 n2, wf_packet p ->
  packet_marshal_to p d1 = Ok (o1, n1) -> packet_marshal_to p d2 = Ok (o2, n2) ->
  n1 = n2 /\ take n1 o1 = take n2 o2.
Proof.
  intros p d1 d2 o1 o2 n1 n2 Hp H1 H2.
  destruct (Z_lt_le_dec (zlen d1) (packet_marshal_size p)) as [L1|L1];
    [rewrite (packet_marshal_to_short p d1 Hp L1) in H1; discriminate|].
  destruct (Z_lt_le_dec (zlen d2) (packet_marshal_size p)) as [L2|L2];
    [rewrite (packet_marshal_to_short p d2 Hp L2) in H2; discriminate|].
  rewrite (packet_marshal_to_spec p d1 Hp L1) in H1. rewrite (packet_marshal_to_spec p d2 Hp L2) in H2.
  pose proof (zlen_encode_wire p Hp) as Hl. remember (encode (wire_of p)) as e eqn:He.
  assert (E1 : o1 = e ++ drop (packet_marshal_size p) d1 /\ n1 = packet_marshal_size p) by (split; congruence).
  assert (E2 : o2 = e ++ drop (packet_marshal_size p) d2 /\ n2 = packet_marshal_size p) by (split; congruence).
  destruct E1 as [-> ->]. destruct E2 as [-> ->]. split; [reflexivity|].
  rewrite <- Hl. rewrite !take_app_exact. reflexivity.
Qed.
