(* C12, flexible mode: VP9Payloader output is lossless, carries B on the first and E on the last
   packet only, the frame's 15-bit picture id in every packet, and VP9Packet decodes each packet
   to exactly that. *)
From Coq Require Import ZArith List Lia Bool.
From Coq Require Import ZifyBool.
From RTP Require Import Base.Bits Base.Res Base.ListX Base.Own Base.Tactics Model.Vp9Header Model.Vp9
  Proofs.C10_H264.
Import ListNotations.
Open Scope Z_scope.
Ltac bits := autorewrite with bits.

(* first byte of a flexible-mode packet: I and F set, B on the first, E on the last fragment *)
Definition flex_b0 (first last : bool) : Z := 144 + (if first then 8 else 0) + (if last then 4 else 0).

Definition is_nil {A} (l : list A) : bool := match l with [] => true | _ => false end.

Inductive flex_rel (pid : Z) : bool -> list bref -> list (list Z) -> Prop :=
| flex_nil first : flex_rel pid first [] []
| flex_cons first c fs cs : flex_rel pid false fs cs ->
    flex_rel pid first (Own (flex_b0 first (is_nil cs) :: pid_bytes pid ++ c) :: fs) (c :: cs).

Lemma flex_frags_spec : forall fuel pid maxf index rest, 1 <= maxf -> 0 <= index -> (length rest < fuel)%nat ->
  exists fs cs, flex_frags fuel pid maxf index rest = Ok fs /\ flex_rel pid (index =? 0) fs cs /\
                concat cs = rest /\ Forall (fun c => 1 <= zlen c <= maxf) cs /\ (rest <> [] -> cs <> []).
Proof.
  induction fuel as [|fuel IH]; intros pid maxf index rest Hm Hi Hf; [lia|].
  cbn [flex_frags]. pose proof (zlen_nonneg rest) as Hr.
  destruct (zlen rest <=? 0) eqn:E0.
  - exists [], []. assert (rest = []) by (apply zlen_zero; lia). subst rest.
    repeat split; try constructor. congruence.
  - set (cur := if maxf <? zlen rest then maxf else zlen rest).
    assert (Hcur : 1 <= cur <= zlen rest /\ cur <= maxf) by (unfold cur; destruct (maxf <? zlen rest) eqn:?; lia).
    rewrite (slice_take rest cur) by lia. rewrite (slice_drop rest cur) by lia.
    assert (Hd : (length (drop cur rest) < fuel)%nat).
    { pose proof (drop_zlen cur rest ltac:(lia)) as Hz. unfold zlen in *. lia. }
    destruct (IH pid maxf (index + cur) (drop cur rest) Hm ltac:(lia) Hd) as (fs & cs & Hrun & Hrel & Hcat & Hall & Hne).
    rewrite Hrun. replace (index + cur =? 0) with false in Hrel by lia.
    exists (Own (flex_b0 (index =? 0) (is_nil cs) :: pid_bytes pid ++ take cur rest) :: fs), (take cur rest :: cs).
    split.
    + f_equal. f_equal. f_equal. f_equal.
      assert (Hlast : (zlen rest =? cur) = is_nil cs).
      { destruct (zlen rest =? cur) eqn:E1.
        - assert (Hdn : drop cur rest = []) by (apply zlen_zero; rewrite drop_zlen by lia; lia).
          rewrite Hdn in Hcat. destruct cs as [|c cs']; [reflexivity|].
          apply Forall_cons_iff in Hall as [Hc _]. cbn [concat] in Hcat.
          apply app_eq_nil in Hcat as [-> _]. change (zlen (@nil Z)) with 0 in Hc. lia.
        - destruct cs as [|c cs']; [|reflexivity]. exfalso. apply Hne; [|reflexivity].
          intros Hdn. pose proof (drop_zlen cur rest ltac:(lia)) as Hz. rewrite Hdn in Hz.
          change (zlen (@nil Z)) with 0 in Hz. lia. }
      rewrite Hlast. destruct (index =? 0); destruct (is_nil cs); reflexivity.
    + split; [constructor; exact Hrel|].
      split; [cbn [concat]; rewrite Hcat; apply take_drop|].
      split; [constructor; [rewrite take_zlen by lia; lia|exact Hall]|]. intros _. discriminate.
Qed.

Theorem vp9_flexible_spec : forall pid mtu frame, 3 < mtu -> frame <> [] ->
  exists fs cs, payload_flexible pid mtu frame = Ok fs /\ flex_rel pid true fs cs /\ concat cs = frame /\
                cs <> [] /\ Forall (fun c => 1 <= zlen c /\ 3 + zlen c <= mtu) cs.
Proof.
  intros pid mtu frame Hm Hne. unfold payload_flexible.
  assert (Hzl : 1 <= zlen frame).
  { destruct frame; [congruence|]. rewrite zlen_cons. pose proof (zlen_nonneg frame). lia. }
  destruct ((if mtu - 3 <? zlen frame then mtu - 3 else zlen frame) <=? 0) eqn:E.
  { destruct (mtu - 3 <? zlen frame) eqn:?; lia. }
  destruct (flex_frags_spec (S (length frame)) pid (mtu - 3) 0 frame ltac:(lia) ltac:(lia) ltac:(lia))
    as (fs & cs & Hrun & Hrel & Hcat & Hall & Hcs).
  exists fs, cs. split; [exact Hrun|]. split; [exact Hrel|]. split; [exact Hcat|]. split; [auto|].
  eapply Forall_impl; [|exact Hall]. cbv beta. intros; lia.
Qed.

(* the payloader state: same picture id for the whole call, +1 modulo 2^15 afterwards, also for a
   call that emits nothing *)
Theorem vp9_picture_id_step : forall st init mtu p st' fs, 0 <= v9_pid st < 32768 ->
  vp9_payload st init mtu p = Ok (st', fs) ->
  let pid := if v9_initialized st then v9_pid st else init mod 32768 in
  v9_pid st' = (pid + 1) mod 32768 /\ v9_initialized st' = true /\ v9_flexible st' = v9_flexible st.
Proof.
  intros st init mtu p st' fs Hp. unfold vp9_payload. rewrite land_32767.
  set (pid := if v9_initialized st then v9_pid st else init mod 32768).
  assert (Hpid : 0 <= pid < 32768) by (unfold pid; destruct (v9_initialized st); lia).
  destruct (if v9_flexible st then _ else _) as [fs0|e|]; try discriminate.
  intros [= <- <-]. cbn [v9_pid v9_initialized v9_flexible]. unfold u16.
  split; [|auto]. destruct (32768 <=? (pid + 1) mod 65536) eqn:E; lia.
Qed.

(* what VP9Packet makes of a flexible-mode packet *)
Definition flex_packet (pid : Z) (first last : bool) (c : list Z) : vp9pkt :=
  mkVp9Pkt true false false true first last false false pid 0 false 0 false [] 0 0 false false 0 [] [] [] [] [] c.

Theorem vp9_flex_fragment_decodes : forall pid first last c prev, 0 <= pid < 32768 ->
  vp9_unmarshal prev (Some (flex_b0 first last :: pid_bytes pid ++ c)) = Ok (flex_packet pid first last c).
Proof.
  intros pid first last c prev Hp. unfold pid_bytes. cbn [app].
  set (hi := Z.lor (u8 (Z.shiftr pid 8)) 128).
  assert (Hhi : hi = pid / 256 + 128).
  { unfold hi, u8. bits. rewrite Z.mod_small by lia. apply lor_128_add. lia. }
  unfold vp9_unmarshal.
  assert (Hb : forall m, bit_set (flex_b0 first last) m =
                         negb (Z.land (flex_b0 first last) m =? 0)) by reflexivity.
  assert (F128 : bit_set (flex_b0 first last) 128 = true) by (destruct first, last; reflexivity).
  assert (F64 : bit_set (flex_b0 first last) 64 = false) by (destruct first, last; reflexivity).
  assert (F32 : bit_set (flex_b0 first last) 32 = false) by (destruct first, last; reflexivity).
  assert (F16 : bit_set (flex_b0 first last) 16 = true) by (destruct first, last; reflexivity).
  assert (F8 : bit_set (flex_b0 first last) 8 = first) by (destruct first, last; reflexivity).
  assert (F4 : bit_set (flex_b0 first last) 4 = last) by (destruct first, last; reflexivity).
  assert (F2 : bit_set (flex_b0 first last) 2 = false) by (destruct first, last; reflexivity).
  assert (F1 : bit_set (flex_b0 first last) 1 = false) by (destruct first, last; reflexivity).
  rewrite F128, F64, F32, F16, F8, F4, F2, F1. cbn [andb].
  assert (Hset : bit_set hi 128 = true).
  { unfold bit_set. rewrite land_b128, Hhi. apply negb_true_iff. lia. }
  rewrite Hset. unfold flex_packet. f_equal. f_equal.
  rewrite Hhi. unfold u16, u8. bits.
  replace ((pid / 256 + 128) mod 128) with (pid / 256) by lia.
  rewrite Z.mod_small by lia.
  rewrite (lor_add_small (pid / 256 * 256) (pid mod 256) 8) by lia. lia.
Qed.
