(* Bit-level facts used to turn the masks and shifts of the Go code into
   div / mod / + so that lia can finish.  Bytes and all Go integers are Z. *)
From Coq Require Import ZArith List Lia Bool.
From Coq Require Import ZifyBool.
Import ListNotations.
Open Scope Z_scope.

Ltac Zify.zify_post_hook ::= Z.div_mod_to_equations.

Definition u8 (x : Z) : Z := x mod 256.
Definition u16 (x : Z) : Z := x mod 65536.
Definition u32 (x : Z) : Z := x mod 4294967296.
Definition u64 (x : Z) : Z := x mod 18446744073709551616.

Definition is_byte (b : Z) : Prop := 0 <= b < 256.
Definition bytes_ok (l : list Z) : Prop := Forall is_byte l.

Lemma land_ones_mod a n : 0 <= n -> Z.land a (Z.ones n) = a mod 2 ^ n.
Proof. intros; apply Z.land_ones; auto. Qed.

Lemma shiftr_div a n : 0 <= n -> Z.shiftr a n = a / 2 ^ n.
Proof. intros; apply Z.shiftr_div_pow2; auto. Qed.

Lemma shiftl_mul a n : 0 <= n -> Z.shiftl a n = a * 2 ^ n.
Proof. intros; apply Z.shiftl_mul_pow2; auto. Qed.

Lemma testbit_small lo n k : 0 <= lo < 2 ^ n -> n <= k -> Z.testbit lo k = false.
Proof.
  intros Hlo Hk. destruct (Z.eq_dec lo 0) as [->|Hne]; [apply Z.bits_0|].
  assert (0 <= n) by (destruct (Z.lt_ge_cases n 0); [rewrite Z.pow_neg_r in Hlo; lia|lia]).
  assert (Z.log2 lo < n) by (apply Z.log2_lt_pow2; lia).
  apply Z.bits_above_log2; lia.
Qed.

Lemma land_shiftl_small hi lo n : 0 <= n -> 0 <= lo < 2 ^ n -> Z.land (Z.shiftl hi n) lo = 0.
Proof.
  intros Hn Hlo. apply Z.bits_inj'; intros k Hk.
  rewrite Z.land_spec, Z.bits_0.
  destruct (Z.lt_ge_cases k n).
  - rewrite Z.shiftl_spec_low by auto. reflexivity.
  - rewrite (testbit_small lo n k) by auto. apply andb_false_r.
Qed.

(* disjoint "or" is "+" *)
Lemma lor_add_disjoint hi lo n : 0 <= n -> 0 <= lo < 2 ^ n ->
  Z.lor (hi * 2 ^ n) lo = hi * 2 ^ n + lo.
Proof.
  intros Hn Hlo. rewrite <- Z.shiftl_mul_pow2 by auto.
  pose proof (land_shiftl_small hi lo n Hn Hlo) as Hd.
  rewrite Z.add_nocarry_lxor by exact Hd. symmetry; apply Z.lxor_lor; exact Hd.
Qed.

Lemma lor_add_disjoint' lo hi n : 0 <= n -> 0 <= lo < 2 ^ n ->
  Z.lor lo (hi * 2 ^ n) = hi * 2 ^ n + lo.
Proof. intros. rewrite Z.lor_comm. apply lor_add_disjoint; auto. Qed.

(* x & (2^k) as a test of bit k, for bytes *)
Lemma land_pow2_testbit x k : 0 <= k -> Z.land x (2 ^ k) = if Z.testbit x k then 2 ^ k else 0.
Proof.
  intros Hk. apply Z.bits_inj'; intros i Hi.
  rewrite Z.land_spec, Z.pow2_bits_eqb by auto.
  destruct (Z.eqb_spec k i) as [->|Hne].
  - destruct (Z.testbit x i) eqn:E; [rewrite Z.pow2_bits_true by auto; reflexivity|rewrite Z.bits_0; reflexivity].
  - rewrite andb_false_r. destruct (Z.testbit x k); [rewrite Z.pow2_bits_false by auto|rewrite Z.bits_0]; reflexivity.
Qed.

Lemma testbit_div_mod x k : 0 <= k -> Z.testbit x k = ((x / 2 ^ k) mod 2 =? 1).
Proof.
  intros Hk. rewrite Z.testbit_eqb by auto. reflexivity.
Qed.

(* generic mask with contiguous ones at [lo, lo+w) *)
Lemma land_mask_range x lo w : 0 <= lo -> 0 <= w ->
  Z.land x (Z.shiftl (Z.ones w) lo) = ((x / 2 ^ lo) mod 2 ^ w) * 2 ^ lo.
Proof.
  intros Hlo Hw.
  rewrite <- (Z.shiftl_mul_pow2 _ lo) by auto.
  rewrite <- land_ones_mod by auto. rewrite <- shiftr_div by auto.
  apply Z.bits_inj'; intros i Hi.
  rewrite Z.land_spec.
  destruct (Z.lt_ge_cases i lo).
  - rewrite !Z.shiftl_spec_low by auto. apply andb_false_r.
  - rewrite !Z.shiftl_spec by auto. rewrite Z.land_spec, Z.shiftr_spec by lia.
    replace (i - lo + lo) with i by lia. reflexivity.
Qed.

(* most convenient form: the left operand is a multiple of 2^n, the right one is below 2^n *)
Lemma lor_add_small x lo n : 0 <= n -> x mod 2 ^ n = 0 -> 0 <= lo < 2 ^ n -> Z.lor x lo = x + lo.
Proof.
  intros Hn Hx Hlo.
  assert (Hp : 0 < 2 ^ n) by (apply Z.pow_pos_nonneg; lia).
  rewrite (Z.div_mod x (2 ^ n)) at 1 2 by lia. rewrite Hx, Z.add_0_r, Z.mul_comm.
  apply lor_add_disjoint; auto.
Qed.

(* the literal masks that occur in the code *)
Lemma land_1 x : Z.land x 1 = x mod 2.      Proof. apply (land_ones_mod x 1); lia. Qed.
Lemma land_3 x : Z.land x 3 = x mod 4.      Proof. apply (land_ones_mod x 2); lia. Qed.
Lemma land_7 x : Z.land x 7 = x mod 8.      Proof. apply (land_ones_mod x 3); lia. Qed.
Lemma land_15 x : Z.land x 15 = x mod 16.   Proof. apply (land_ones_mod x 4); lia. Qed.
Lemma land_31 x : Z.land x 31 = x mod 32.   Proof. apply (land_ones_mod x 5); lia. Qed.
Lemma land_63 x : Z.land x 63 = x mod 64.   Proof. apply (land_ones_mod x 6); lia. Qed.
Lemma land_127 x : Z.land x 127 = x mod 128. Proof. apply (land_ones_mod x 7); lia. Qed.
Lemma land_255 x : Z.land x 255 = x mod 256. Proof. apply (land_ones_mod x 8); lia. Qed.
Lemma land_4095 x : Z.land x 4095 = x mod 4096. Proof. apply (land_ones_mod x 12); lia. Qed.
Lemma land_32767 x : Z.land x 32767 = x mod 32768. Proof. apply (land_ones_mod x 15); lia. Qed.
Lemma land_65535 x : Z.land x 65535 = x mod 65536. Proof. apply (land_ones_mod x 16); lia. Qed.
Lemma land_ffffff x : Z.land x 16777215 = x mod 16777216. Proof. apply (land_ones_mod x 24); lia. Qed.

Lemma shiftr_1 x : Z.shiftr x 1 = x / 2.   Proof. apply (shiftr_div x 1); lia. Qed.
Lemma shiftr_2 x : Z.shiftr x 2 = x / 4.   Proof. apply (shiftr_div x 2); lia. Qed.
Lemma shiftr_3 x : Z.shiftr x 3 = x / 8.   Proof. apply (shiftr_div x 3); lia. Qed.
Lemma shiftr_4 x : Z.shiftr x 4 = x / 16.  Proof. apply (shiftr_div x 4); lia. Qed.
Lemma shiftr_5 x : Z.shiftr x 5 = x / 32.  Proof. apply (shiftr_div x 5); lia. Qed.
Lemma shiftr_6 x : Z.shiftr x 6 = x / 64.  Proof. apply (shiftr_div x 6); lia. Qed.
Lemma shiftr_7 x : Z.shiftr x 7 = x / 128. Proof. apply (shiftr_div x 7); lia. Qed.
Lemma shiftr_8 x : Z.shiftr x 8 = x / 256. Proof. apply (shiftr_div x 8); lia. Qed.
Lemma shiftr_16 x : Z.shiftr x 16 = x / 65536. Proof. apply (shiftr_div x 16); lia. Qed.
Lemma shiftr_24 x : Z.shiftr x 24 = x / 16777216. Proof. apply (shiftr_div x 24); lia. Qed.
Lemma shiftl_3 x : Z.shiftl x 3 = x * 8.   Proof. apply (shiftl_mul x 3); lia. Qed.
Lemma shiftl_4 x : Z.shiftl x 4 = x * 16.  Proof. apply (shiftl_mul x 4); lia. Qed.
Lemma shiftl_5 x : Z.shiftl x 5 = x * 32.  Proof. apply (shiftl_mul x 5); lia. Qed.
Lemma shiftl_6 x : Z.shiftl x 6 = x * 64.  Proof. apply (shiftl_mul x 6); lia. Qed.
Lemma shiftl_7 x : Z.shiftl x 7 = x * 128. Proof. apply (shiftl_mul x 7); lia. Qed.
Lemma shiftl_8 x : Z.shiftl x 8 = x * 256. Proof. apply (shiftl_mul x 8); lia. Qed.

(* rewrite database: masks and shifts by literals become mod / div / mul *)
Create HintDb bits discriminated.
#[export] Hint Rewrite land_1 land_3 land_7 land_15 land_31 land_63 land_127 land_255 land_4095
  land_32767 land_65535 land_ffffff
  shiftr_1 shiftr_2 shiftr_3 shiftr_4 shiftr_5 shiftr_6 shiftr_7 shiftr_8 shiftr_16 shiftr_24
  shiftl_3 shiftl_4 shiftl_5 shiftl_6 shiftl_7 shiftl_8 : bits.

(* setting a bit that is clear adds its weight *)
Lemma lor_pow2_add x k : 0 <= k -> (x / 2 ^ k) mod 2 = 0 -> Z.lor x (2 ^ k) = x + 2 ^ k.
Proof.
  intros Hk Hb.
  assert (Hd : Z.land x (2 ^ k) = 0).
  { rewrite land_pow2_testbit by auto. rewrite testbit_div_mod by auto. rewrite Hb. reflexivity. }
  rewrite Z.add_nocarry_lxor by exact Hd. symmetry. apply Z.lxor_lor. exact Hd.
Qed.

Lemma lor_16_add x : (x / 16) mod 2 = 0 -> Z.lor x 16 = x + 16.   Proof. apply (lor_pow2_add x 4); lia. Qed.
Lemma lor_32_add x : (x / 32) mod 2 = 0 -> Z.lor x 32 = x + 32.   Proof. apply (lor_pow2_add x 5); lia. Qed.
Lemma lor_64_add x : (x / 64) mod 2 = 0 -> Z.lor x 64 = x + 64.   Proof. apply (lor_pow2_add x 6); lia. Qed.
Lemma lor_128_add x : (x / 128) mod 2 = 0 -> Z.lor x 128 = x + 128. Proof. apply (lor_pow2_add x 7); lia. Qed.
Lemma lor_8_add x : (x / 8) mod 2 = 0 -> Z.lor x 8 = x + 8.       Proof. apply (lor_pow2_add x 3); lia. Qed.
Lemma lor_4_add x : (x / 4) mod 2 = 0 -> Z.lor x 4 = x + 4.       Proof. apply (lor_pow2_add x 2); lia. Qed.
Lemma lor_2_add x : (x / 2) mod 2 = 0 -> Z.lor x 2 = x + 2.       Proof. apply (lor_pow2_add x 1); lia. Qed.
Lemma lor_1_add x : x mod 2 = 0 -> Z.lor x 1 = x + 1.
Proof. intros H. apply (lor_pow2_add x 0); [lia|]. change (2 ^ 0) with 1. rewrite Z.div_1_r. exact H. Qed.

(* single-bit masks *)
Lemma land_bit x k : 0 <= k -> Z.land x (2 ^ k) = (x / 2 ^ k) mod 2 * 2 ^ k.
Proof.
  intros Hk. assert (E : Z.shiftl (Z.ones 1) k = 2 ^ k).
  { rewrite Z.shiftl_mul_pow2 by lia. change (Z.ones 1) with 1. lia. }
  rewrite <- E at 1. rewrite land_mask_range by lia. change (2 ^ 1) with 2. reflexivity.
Qed.
Lemma land_b128 x : Z.land x 128 = (x / 128) mod 2 * 128. Proof. apply (land_bit x 7); lia. Qed.
Lemma land_b64 x : Z.land x 64 = (x / 64) mod 2 * 64.     Proof. apply (land_bit x 6); lia. Qed.
Lemma land_b32 x : Z.land x 32 = (x / 32) mod 2 * 32.     Proof. apply (land_bit x 5); lia. Qed.
Lemma land_b16 x : Z.land x 16 = (x / 16) mod 2 * 16.     Proof. apply (land_bit x 4); lia. Qed.
Lemma land_b8 x : Z.land x 8 = (x / 8) mod 2 * 8.         Proof. apply (land_bit x 3); lia. Qed.
Lemma land_b4 x : Z.land x 4 = (x / 4) mod 2 * 4.         Proof. apply (land_bit x 2); lia. Qed.
Lemma land_b2 x : Z.land x 2 = (x / 2) mod 2 * 2.         Proof. apply (land_bit x 1); lia. Qed.
#[export] Hint Rewrite land_b128 land_b64 land_b32 land_b16 land_b8 land_b4 land_b2 : bits.
