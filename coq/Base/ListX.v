(* Z-indexed list helpers mirroring Go slice expressions, with the facts the
   proofs need.  [take]/[drop] are total; the checked variants used by the
   models return None where Go would panic. *)
From Coq Require Import ZArith List Lia Bool.
Import ListNotations.
Open Scope Z_scope.

Definition zlen {A} (l : list A) : Z := Z.of_nat (length l).
Definition take {A} (n : Z) (l : list A) : list A := firstn (Z.to_nat n) l.
Definition drop {A} (n : Z) (l : list A) : list A := skipn (Z.to_nat n) l.

(* l[lo:hi] with Go's bounds check 0 <= lo <= hi <= len *)
Definition slice {A} (l : list A) (lo hi : Z) : option (list A) :=
  if (lo <? 0) || (hi <? lo) || (zlen l <? hi) then None
  else Some (take (hi - lo) (drop lo l)).

(* l[i] *)
Definition idx {A} (l : list A) (i : Z) : option A :=
  if i <? 0 then None else nth_error l (Z.to_nat i).

Lemma zlen_nil {A} : zlen (@nil A) = 0. Proof. reflexivity. Qed.
Lemma zlen_cons {A} (a : A) l : zlen (a :: l) = 1 + zlen l.
Proof. unfold zlen. cbn [length]. lia. Qed.
Lemma zlen_app {A} (a b : list A) : zlen (a ++ b) = zlen a + zlen b.
Proof. unfold zlen. rewrite app_length. lia. Qed.
Lemma zlen_nonneg {A} (l : list A) : 0 <= zlen l.
Proof. unfold zlen. lia. Qed.
Lemma zlen_zero {A} (l : list A) : zlen l = 0 -> l = [].
Proof. destruct l; [reflexivity|]. rewrite zlen_cons. pose proof (zlen_nonneg l). lia. Qed.

Lemma take_zlen {A} n (l : list A) : 0 <= n <= zlen l -> zlen (take n l) = n.
Proof. unfold zlen, take. intros. rewrite firstn_length. lia. Qed.
Lemma take_all {A} n (l : list A) : zlen l <= n -> take n l = l.
Proof. unfold zlen, take. intros. apply firstn_all2. lia. Qed.
Lemma drop_zlen {A} n (l : list A) : 0 <= n <= zlen l -> zlen (drop n l) = zlen l - n.
Proof. unfold zlen, drop. intros. rewrite skipn_length. lia. Qed.
Lemma drop_all {A} n (l : list A) : zlen l <= n -> drop n l = [].
Proof. unfold zlen, drop. intros. apply skipn_all2. lia. Qed.
Lemma take_drop {A} n (l : list A) : take n l ++ drop n l = l.
Proof. unfold take, drop. apply firstn_skipn. Qed.
Lemma take_0 {A} (l : list A) : take 0 l = [].
Proof. reflexivity. Qed.
Lemma drop_0 {A} (l : list A) : drop 0 l = l.
Proof. reflexivity. Qed.
Lemma take_neg {A} n (l : list A) : n <= 0 -> take n l = [].
Proof. unfold take. intros. replace (Z.to_nat n) with O by lia. reflexivity. Qed.

Lemma take_app_exact {A} (a b : list A) : take (zlen a) (a ++ b) = a.
Proof.
  unfold take, zlen. rewrite Nat2Z.id.
  induction a; cbn; congruence.
Qed.
Lemma drop_app_exact {A} (a b : list A) : drop (zlen a) (a ++ b) = b.
Proof.
  unfold drop, zlen. rewrite Nat2Z.id.
  induction a; cbn; congruence.
Qed.
Lemma drop_app_plus {A} (a b : list A) k : 0 <= k -> drop (zlen a + k) (a ++ b) = drop k b.
Proof.
  intros Hk. unfold drop, zlen.
  replace (Z.to_nat (Z.of_nat (length a) + k)) with (length a + Z.to_nat k)%nat by lia.
  induction a; cbn; auto.
Qed.
Lemma take_app_le {A} (a b : list A) k : k <= zlen a -> take k (a ++ b) = take k a.
Proof.
  intros Hk. unfold take, zlen in *. rewrite firstn_app.
  replace (Z.to_nat k - length a)%nat with O by lia. cbn. apply app_nil_r.
Qed.

Lemma skipn_skipn_nat {A} : forall (y x : nat) (l : list A), skipn x (skipn y l) = skipn (y + x) l.
Proof.
  induction y as [|y IH]; intros x l; [reflexivity|].
  destruct l as [|a l]; [cbn; destruct x; reflexivity|]. cbn [skipn Nat.add]. apply IH.
Qed.

Lemma drop_drop {A} a b (l : list A) : 0 <= a -> 0 <= b -> drop a (drop b l) = drop (b + a) l.
Proof.
  intros Ha Hb. unfold drop. rewrite skipn_skipn_nat. f_equal. lia.
Qed.

(* writing x at the end of an already written prefix *)
Definition overwrite_def {A} (dst : list A) (off : Z) (bs : list A) : list A :=
  take off dst ++ bs ++ drop (off + zlen bs) dst.

Lemma overwrite_after {A} (pre d x : list A) :
  zlen pre + zlen x <= zlen d ->
  overwrite_def (pre ++ drop (zlen pre) d) (zlen pre) x = (pre ++ x) ++ drop (zlen pre + zlen x) d.
Proof.
  intros H. unfold overwrite_def. pose proof (zlen_nonneg pre). pose proof (zlen_nonneg x).
  rewrite take_app_exact. rewrite drop_app_plus by lia. rewrite drop_drop by lia.
  rewrite <- app_assoc. reflexivity.
Qed.
