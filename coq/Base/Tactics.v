From Coq Require Import ZArith List Lia Bool.
From Coq Require Import ZifyBool.
Open Scope Z_scope.

(* destruct the condition of the first [if] in the goal, naming the equation *)
Ltac case_if :=
  match goal with
  | |- context [if ?c then _ else _] =>
    let E := fresh "E" in destruct c eqn:E
  end.

(* decide a boolean condition by lia and rewrite with the result *)
Ltac if_true c := replace c with true by (symmetry; lia).
Ltac if_false c := replace c with false by (symmetry; lia).

Ltac inv H := inversion H; subst; clear H.
