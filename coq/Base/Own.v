(* Ownership of byte strings.  Gallina values cannot alias, so where a property is
   about aliasing the model says explicitly whether a returned or retained byte
   string is a fresh copy ([Own]) or a window onto a caller buffer ([View]).
   Buffers handed to the API during a history are numbered 0,1,2,... in call
   order; [store] gives their *current* contents (the caller may have overwritten
   them since: the [Scribble] operation of histories). *)
From Coq Require Import ZArith List Lia Bool.
From RTP Require Import Base.ListX.
Import ListNotations.
Open Scope Z_scope.

Inductive bref : Type :=
| Own (l : list Z)
| View (buf : nat) (off len : Z).

Definition store := nat -> list Z.

Definition resolve (st : store) (r : bref) : list Z :=
  match r with
  | Own l => l
  | View k off len => take len (drop off (st k))
  end.

Definition is_own (r : bref) : bool := match r with Own _ => true | View _ _ _ => false end.

Definition update (st : store) (k : nat) (l : list Z) : store :=
  fun i => if Nat.eqb i k then l else st i.

(* The one fact everything else rests on: an owned value does not depend on the store. *)
Lemma resolve_own st st' r : is_own r = true -> resolve st r = resolve st' r.
Proof. destruct r; [reflexivity|discriminate]. Qed.

Lemma resolve_all_own st st' rs :
  forallb is_own rs = true -> map (resolve st) rs = map (resolve st') rs.
Proof.
  induction rs as [|r rs IH]; cbn [forallb map]; [reflexivity|].
  intros H. apply andb_prop in H as [H1 H2].
  rewrite (resolve_own st st' r H1), (IH H2). reflexivity.
Qed.
