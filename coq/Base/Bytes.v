(* Big-endian integers as the Go code reads and writes them (encoding/binary). *)
From Coq Require Import ZArith List Lia Bool.
From Coq Require Import ZifyBool.
From RTP Require Import Base.Bits Base.ListX.
Import ListNotations.
Open Scope Z_scope.

Definition be16 (a b : Z) : Z := Z.lor (Z.shiftl a 8) b.
Definition be32 (a b c d : Z) : Z :=
  Z.lor (Z.lor (Z.lor (Z.shiftl a 24) (Z.shiftl b 16)) (Z.shiftl c 8)) d.

Definition put16 (v : Z) : list Z := [u8 (Z.shiftr v 8); u8 v].
Definition put32 (v : Z) : list Z := [u8 (Z.shiftr v 24); u8 (Z.shiftr v 16); u8 (Z.shiftr v 8); u8 v].

Lemma be16_arith a b : is_byte b -> be16 a b = a * 256 + b.
Proof.
  intros Hb. unfold be16, is_byte in *. rewrite shiftl_mul by lia.
  change (2 ^ 8) with 256. apply (lor_add_small _ _ 8); lia.
Qed.

Lemma be32_arith a b c d : is_byte b -> is_byte c -> is_byte d ->
  be32 a b c d = a * 16777216 + b * 65536 + c * 256 + d.
Proof.
  intros Hb Hc Hd. unfold be32, is_byte in *. rewrite !shiftl_mul by lia.
  change (2 ^ 24) with 16777216. change (2 ^ 16) with 65536. change (2 ^ 8) with 256.
  rewrite (lor_add_small (a * 16777216) (b * 65536) 24) by lia.
  rewrite (lor_add_small (a * 16777216 + b * 65536) (c * 256) 16) by lia.
  rewrite (lor_add_small _ d 8) by lia. reflexivity.
Qed.

Lemma put16_be16 v : 0 <= v < 65536 ->
  match put16 v with [a; b] => be16 a b = v /\ is_byte a /\ is_byte b | _ => False end.
Proof.
  intros Hv. unfold put16, u8. rewrite shiftr_div by lia. change (2 ^ 8) with 256.
  split; [|unfold is_byte; lia]. rewrite be16_arith by (unfold is_byte; lia). lia.
Qed.

Lemma put32_be32 v : 0 <= v < 4294967296 ->
  match put32 v with [a; b; c; d] => be32 a b c d = v /\ is_byte a /\ is_byte b /\ is_byte c /\ is_byte d | _ => False end.
Proof.
  intros Hv. unfold put32, u8. rewrite !shiftr_div by lia.
  change (2 ^ 8) with 256. change (2 ^ 16) with 65536. change (2 ^ 24) with 16777216.
  split; [|unfold is_byte; lia]. rewrite be32_arith by (unfold is_byte; lia). lia.
Qed.
