(* Outcomes of modelled Go calls.  [Panic] is what the model returns wherever
   the Go code would index or slice out of range or dereference nil; error
   classes are a small enum (message text is never modelled). *)
From Coq Require Import ZArith List.
Import ListNotations.
Open Scope Z_scope.

Inductive err : Type :=
| EShort            (* errShortPacket / errTooSmall / header size insufficient *)
| ENil              (* errNilPacket *)
| EShortBuffer      (* io.ErrShortBuffer *)
| EInvalidPadding   (* errInvalidRTPPadding *)
| EOverflow         (* audio level overflow / playout delay invalid *)
| ETooManyPDiff
| ETooManySpatial
| EUnhandled        (* errUnhandledNALUType *)
| ECorrupt          (* errH265CorruptedPacket *)
| EInvalidType      (* errInvalidH265PacketType *)
| EKeyFragment      (* AV1: Z and N both set *)
| ELeb128           (* ErrFailedToReadLEB128 *)
| EObuHeader        (* ErrInvalidOBUHeader / ErrShortHeader *)
| ENotEnabled       (* errHeaderExtensionsNotEnabled *)
| ENotFound         (* errHeaderExtensionNotFound *)
| EIdRange          (* errRFC8285*HeaderIDRange / errRFC3550HeaderIDRange *)
| ESize             (* errRFC8285*HeaderSize *)
| EVlaStreamCount | EVlaStreamID | EVlaSpatialID | EVlaDuplicate | EVlaTemporal | EVlaShort.

Definition err_code (e : err) : Z :=
  match e with
  | EShort => 1 | ENil => 2 | EShortBuffer => 3 | EInvalidPadding => 4 | EOverflow => 5
  | ETooManyPDiff => 6 | ETooManySpatial => 7 | EUnhandled => 8 | ECorrupt => 9
  | EInvalidType => 10 | EKeyFragment => 11 | ELeb128 => 12 | EObuHeader => 13
  | ENotEnabled => 14 | ENotFound => 15 | EIdRange => 16 | ESize => 17
  | EVlaStreamCount => 18 | EVlaStreamID => 19 | EVlaSpatialID => 20 | EVlaDuplicate => 21
  | EVlaTemporal => 22 | EVlaShort => 23
  end.

(* What the harness can observe of an error: exported sentinel errors keep their identity,
   everything else is just "an error" (code 1).  Message text is never compared. *)
Definition err_obs (e : err) : Z :=
  match e with
  | EShortBuffer => 3          (* io.ErrShortBuffer *)
  (* which error a malformed AV1 payload, OBU header or LEB128 field is refused with is nobody's clause:
     ELeb128 and EObuHeader are observed as the general class *)
  | EVlaStreamCount => 18 | EVlaStreamID => 19 | EVlaSpatialID => 20 | EVlaDuplicate => 21
  | EVlaTemporal => 22 | EVlaShort => 23
  | _ => 1
  end.

Inductive res (A : Type) : Type :=
| Ok (a : A)
| Err (e : err)
| Panic.
Arguments Ok {A} a.
Arguments Err {A} e.
Arguments Panic {A}.

Definition bind {A B} (r : res A) (f : A -> res B) : res B :=
  match r with
  | Ok a => f a
  | Err e => Err e
  | Panic => Panic
  end.

Declare Scope res_scope.
Notation "x <- r ;; k" := (bind r (fun x => k)) (at level 61, r at next level, right associativity) : res_scope.
Notation "' p <- r ;; k" := (bind r (fun p => k)) (at level 61, p pattern, r at next level, right associativity) : res_scope.

Definition is_ok {A} (r : res A) : bool := match r with Ok _ => true | _ => false end.
Definition no_panic {A} (r : res A) : Prop := r <> Panic.

Definition of_option {A} (o : option A) : res A :=
  match o with Some a => Ok a | None => Panic end.
