(* Cases for packet.go (C01-C05, C20). *)
From Coq Require Import ZArith List Bool.
From RTP Require Import Base.Res Base.ListX Extract.Value Model.RtpPacket Model.Heap Model.HeaderExtViews Spec.Rfc8285 Spec.Rfc3550.
Import ListNotations.
Open Scope Z_scope.

(* [version padding ext marker pt seq ts ssrc [csrc...] profile [[id xvalue]...]] *)
Definition t_ext (t : tok) : option ext :=
  match t with
  | TList [TInt id; TBytes v] => Some (mkExt id v)
  | _ => None
  end.

Definition t_header (t : tok) : option header :=
  match t with
  | TList [TInt v; pad; x; m; TInt pt; TInt sq; TInt ts; TInt ss; TList cs; TInt prof; TList es] =>
    match t_bool pad, t_bool x, t_bool m, opt_map t_int cs, opt_map t_ext es with
    | Some pad, Some x, Some m, Some cs, Some es => Some (mkHeader v pad x m pt sq ts ss cs prof es)
    | _, _, _, _, _ => None
    end
  | _ => None
  end.

(* the elements as the public API shows them: ids in order, each with GetExtension(id) *)
Definition v_exts_api (h : header) : value :=
  match get_extension_ids h with
  | None => VList []
  | Some ids => VList (map (fun id => VList [VInt id; match get_extension h id with
                                                      | Some v => VBytes v | None => VTag 1 VUnit end]) ids)
  end.

Definition v_header (h : header) : value :=
  VList [VInt (version h); VBool (padding h); VBool (extension h); VBool (marker h);
         VInt (payload_type h); VInt (sequence_number h); VInt (timestamp h); VInt (ssrc h);
         VList (map VInt (csrc h)); VInt (extension_profile h); v_exts_api h;
         VInt (zlen (extensions h))].   (* len(h.Extensions): the public field, also when the X bit is off *)

Definition v_packet (p : packet) : value :=
  VList [v_header (hdr p); VBytes (payload p); VInt (padding_size p)].

(* offset of the first element with the given id, -1 for an empty value (an empty Go slice has
   no observable position) *)
Fixpoint first_offset (id : Z) (es : list ext) (offs : list Z) : Z :=
  match es, offs with
  | e :: et, o :: ot => if eid e =? id then (if zlen (epayload e) =? 0 then -1 else o) else first_offset id et ot
  | _, _ => -1
  end.

Definition v_offsets (h : header) (offs : list Z) : value :=
  match get_extension_ids h with
  | None => VList []
  | Some ids => VList (map (fun id => VInt (first_offset id (extensions h) offs)) ids)
  end.

(* decode a list of buffers one after the other into the same receiver *)
Fixpoint pkt_unmarshal_seq (prev : packet) (bufs : list (list Z)) : list value :=
  match bufs with
  | [] => []
  | b :: t =>
    match packet_unmarshal_into prev b with
    | Ok r => VTag 0 (VList [v_packet (pr_packet r); VInt (pr_n r); v_offsets (hdr (pr_packet r)) (pr_offsets r)])
              :: pkt_unmarshal_seq (pr_packet r) t
    | Err e => VTag 1 (VInt (err_obs e)) :: pkt_unmarshal_seq empty_packet t
        (* after an error the implementation's receiver is only partially updated; the harness KEEPS it
           and decodes the next input into it, the model continues from a fresh one: what Unmarshal
           yields does not depend on the receiver (C02_reuse_packet), so the two must agree on every
           later accepted input - which is the clause under test *)
    | Panic => VTag 2 VUnit :: pkt_unmarshal_seq empty_packet t
    end
  end.

Fixpoint hdr_unmarshal_seq (prev : header) (bufs : list (list Z)) : list value :=
  match bufs with
  | [] => []
  | b :: t =>
    match header_unmarshal_into prev b with
    | Ok r => VTag 0 (VList [v_header (hr_header r); VInt (hr_n r); v_offsets (hr_header r) (hr_offsets r)])
              :: hdr_unmarshal_seq (hr_header r) t
    | Err e => VTag 1 (VInt (err_obs e)) :: hdr_unmarshal_seq empty_header t
    | Panic => VTag 2 VUnit :: hdr_unmarshal_seq empty_header t
    end
  end.

(* accessor operations: [1 id xv] set | [2 id] del | [3 id] get | [4] ids *)
Definition v_opterr (e : option err) : value :=
  match e with None => VTag 0 VUnit | Some e => VTag 1 (VInt (err_obs e)) end.

Definition v_optbytes (o : option (list Z)) : value :=
  match o with Some v => VTag 0 (VBytes v) | None => VTag 1 VUnit end.

Fixpoint run_ext_ops (h : header) (ops : list tok) : header * list value :=
  match ops with
  | [] => (h, [])
  | o :: t =>
    let '(h1, r) :=
      match o with
      | TList [TInt 1; TInt id; TBytes v] => let '(h1, e) := set_extension h id v in (h1, v_opterr e)
      | TList [TInt 2; TInt id] => let '(h1, e) := del_extension h id in (h1, v_opterr e)
      | TList [TInt 3; TInt id] => (h, v_optbytes (get_extension h id))
      | TList [TInt 4] => (h, match get_extension_ids h with
                              | Some ids => VTag 0 (VList (map VInt ids)) | None => VTag 1 VUnit end)
      | _ => (h, VBad)
      end in
    let '(h2, rs) := run_ext_ops h1 t in (h2, r :: rs)
  end.

(* wire description: [version marker pt seq ts ssrc [csrc] ext payload xpadfill pad]
   ext: [0] none | [1 [items]] one-byte | [2 [items]] two-byte | [3 profile xbody] legacy
   item: [0] pad | [1 id xvalue] *)
Definition t_item (t : tok) : option item :=
  match t with
  | TList [TInt 0] => Some IPad
  | TList [TInt 1; TInt id; TBytes v] => Some (IElem id v)
  | _ => None
  end.
Definition t_block (t : tok) : option ext_block :=
  match t with
  | TList [TInt 0] => Some XNone
  | TList [TInt 1; TList its] => match opt_map t_item its with Some l => Some (XOne l) | None => None end
  | TList [TInt 2; TList its; TInt ab] => match opt_map t_item its with Some l => Some (XTwo ab l) | None => None end
  | TList [TInt 2; TList its] => match opt_map t_item its with Some l => Some (XTwo 0 l) | None => None end
  | TList [TInt 3; TInt p; TBytes body] => Some (XLegacy p body)
  | _ => None
  end.
Definition t_wire (t : tok) : option wire :=
  match t with
  | TList [TInt v; m; TInt pt; TInt sq; TInt ts; TInt ss; TList cs; b; TBytes pl; TBytes fill; pd] =>
    match t_bool m, opt_map t_int cs, t_block b, t_bool pd with
    | Some m, Some cs, Some b, Some pd => Some (mkWire v m pt sq ts ss cs b pl fill pd)
    | _, _, _, _ => None
    end
  | _ => None
  end.

Definition v_optb (r : res (option (list Z))) : value :=
  v_res (fun o => match o with Some v => VTag 0 (VBytes v) | None => VTag 1 VUnit end) r.

Definition d_clone (h : header) (pl : list Z) (ps : Z) : value :=
      let '(hp, mp) := lay_out h pl ps in
      match clone hp mp with
      | Some (hp', mp') =>
        match read hp' mp', nth_error hp' (match m_exts mp' with Some b => b | None => O end) with
        | Some v, Some (CElems es) =>
          VList [v_packet (view_packet v);
                 VList [VInt (fresh_flag (length hp) (m_csrc mp'));
                        VList (map (fun e => VInt (fresh_flag (length hp) (snd e))) es);
                        VInt (fresh_flag (length hp) (m_payload mp'))]]
        | _, _ => VBad
        end
      | None => VBad
      end.

Definition dispatch_rtp (op : Z) (args : list tok) : value :=
  match op, args with
  | 101, [TList bufs] =>
    match opt_map t_bytes bufs with
    | Some bs => VList (pkt_unmarshal_seq empty_packet bs)
    | None => VBad
    end
  | 102, [TList bufs] =>
    match opt_map t_bytes bufs with
    | Some bs => VList (hdr_unmarshal_seq empty_header bs)
    | None => VBad
    end
  | 103, [h; TBytes pl; TInt ps] =>
    match t_header h with
    | Some h => let p := mkPacket h pl ps in
                VList [VInt (packet_marshal_size p); v_res VBytes (packet_marshal p)]
    | None => VBad
    end
  | 104, [h] =>
    match t_header h with
    | Some h => VList [VInt (header_marshal_size h); v_res VBytes (header_marshal h)]
    | None => VBad
    end
  | 105, [h; TBytes pl; TInt ps; TBytes dst] =>
    match t_header h with
    | Some h => v_res (fun '(d, n) => VList [VBytes d; VInt n]) (packet_marshal_to (mkPacket h pl ps) dst)
    | None => VBad
    end
  | 106, [h; TBytes dst] =>
    match t_header h with
    | Some h => v_res (fun '(d, n) => VList [VBytes d; VInt n]) (header_marshal_to h dst)
    | None => VBad
    end
  | 110, [h; TBytes pl; TInt ps] =>
    match t_header h with
    | Some h =>
      let p := mkPacket h pl ps in
      let m := packet_marshal p in
      VList [VInt (packet_marshal_size p); v_res VBytes m;
             match m with
             | Ok bs => v_res (fun r => VList [v_packet (pr_packet r); VInt (pr_n r)]) (packet_unmarshal_into empty_packet bs)
             | _ => VUnit
             end]
    | None => VBad
    end
  | 111, [h] =>
    match t_header h with
    | Some h =>
      let m := header_marshal h in
      VList [VInt (header_marshal_size h); v_res VBytes m;
             match m with
             | Ok bs => v_res (fun r => VList [v_header (hr_header r); VInt (hr_n r)]) (header_unmarshal_into empty_header bs)
             | _ => VUnit
             end]
    | None => VBad
    end
  | 301, [w] => match t_wire w with Some w => VBytes (encode w) | None => VBad end
  | 305, [w; TBytes wire] =>
    (* the Spec/Rfc3550.v encoding of the description (the case's own bytes when it holds a reserved
       id 15, which the grammar of the spec does not produce), then the decoder model on it *)
    let bs := match t_wire w with Some ww => encode ww | None => wire end in
    VList [VBytes bs; VList (pkt_unmarshal_seq empty_packet [bs])]
  | 302, [TBytes buf; TList ids] =>        (* one-byte view *)
    match opt_map t_int ids with
    | Some ids =>
      match onebyte_unmarshal buf with
      | Ok p => VTag 0 (VList [v_res (fun l => VList (map VInt l)) (onebyte_get_ids p);
                               VList (map (fun id => v_optb (onebyte_get p id)) ids); VBytes p; VInt (zlen p)])
      | Err e => VTag 1 (VInt (err_obs e)) | Panic => VTag 2 VUnit
      end
    | None => VBad
    end
  | 303, [TBytes buf; TList ids] =>        (* two-byte view *)
    match opt_map t_int ids with
    | Some ids =>
      match twobyte_unmarshal buf with
      | Ok p => VTag 0 (VList [v_res (fun l => VList (map VInt l)) (twobyte_get_ids p);
                               VList (map (fun id => v_optb (twobyte_get p id)) ids); VBytes p; VInt (zlen p)])
      | Err e => VTag 1 (VInt (err_obs e)) | Panic => VTag 2 VUnit
      end
    | None => VBad
    end
  | 304, [TBytes buf] =>
    match raw_unmarshal buf with
    | Ok p => VTag 0 (VList [VList (map VInt (raw_get_ids p)); v_optb (Ok (raw_get p 0)); VBytes p; VInt (zlen p)])
    | Err e => VTag 1 (VInt (err_obs e)) | Panic => VTag 2 VUnit
    end
  | 2001, [h; pl; TInt ps] =>
    (* Clone: an equal packet whose slices are all fresh (provenance flags 1); a nil payload is
       observed like an empty one *)
    match t_header h, t_optbytes pl with
    | Some h, Some opl => d_clone h (match opl with Some l => l | None => [] end) ps
    | _, _ => VBad
    end
  | 2002, [h; pl; TInt ps; TList pre] =>
    (* the header has a Set/Del history before it is cloned *)
    match t_header h, t_optbytes pl with
    | Some h, Some opl => d_clone (fst (run_ext_ops h pre)) (match opl with Some l => l | None => [] end) ps
    | _, _ => VBad
    end
  | 2003, [TBytes w] =>
    (* the packet comes from Unmarshal (elements no SetExtension call can create, e.g. one-byte id 0) *)
    match packet_unmarshal_into empty_packet w with
    | Ok r => d_clone (hdr (pr_packet r)) (payload (pr_packet r)) (padding_size (pr_packet r))
    | _ => VTag 97 VUnit
    end
  | 2004, [TBytes w1; TBytes w2] =>
    (* the packet cloned is a reused receiver: it decoded w1, then w2 (what Unmarshal yields does not
       depend on the receiver, C02_reuse_packet) *)
    match packet_unmarshal_into empty_packet w1 with
    | Ok r1 =>
      match packet_unmarshal_into (pr_packet r1) w2 with
      | Ok r => d_clone (hdr (pr_packet r)) (payload (pr_packet r)) (padding_size (pr_packet r))
      | _ => VTag 97 VUnit
      end
    | _ => VTag 97 VUnit
    end
  | 501, [h; TList ops] =>
    match t_header h with
    | Some h =>
      let '(h1, rs) := run_ext_ops h ops in
      let m := header_marshal h1 in
      VList [VList rs; v_header h1; v_res VBytes m;
             match m with
             | Ok bs => v_res (fun r => v_header (hr_header r)) (header_unmarshal_into empty_header bs)
             | _ => VUnit
             end]
    | None => VBad
    end
  | 502, [TBytes w; TList ops] =>
    match header_unmarshal_into empty_header w with
    | Ok r =>
      let '(h1, rs) := run_ext_ops (hr_header r) ops in
      let m := header_marshal h1 in
      VList [VList rs; v_header h1; v_res VBytes m;
             match m with
             | Ok bs => v_res (fun r => v_header (hr_header r)) (header_unmarshal_into empty_header bs)
             | _ => VUnit
             end]
    | Err e => VTag 1 (VInt (err_obs e))
    | Panic => VTag 2 VUnit
    end
  | _, _ => VBad
  end.
