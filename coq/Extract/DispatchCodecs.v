(* Cases for the codec payloaders and depacketizers (C08-C15). *)
From Coq Require Import ZArith List Bool.
From RTP Require Import Base.Res Base.ListX Base.Own Extract.Value Model.Vp8 Model.H264 Model.H265 Model.Vp9Header Model.Vp9 Model.Av1Pay Model.Av1Depack Model.Av1Legacy Model.Leb128 Model.Obu.
From RTP Require Spec.Rfc6184 Spec.Rfc7798 Spec.Rfc7741 Spec.Av1Rtp.
Import ListNotations.
Open Scope Z_scope.

Definition st_of' (p : option (list Z)) : store :=
  fun _ => match p with Some l => l | None => [] end.

(* a payloader history: list of [mtu payload]; output one result per call *)
Fixpoint vp8_history (st : vp8pay) (calls : list tok) : list value :=
  match calls with
  | [] => []
  | TList [TInt mtu; p] :: t =>
    match t_optbytes p with
    | Some ob =>
      match vp8_payload st mtu ob with
      | Ok (st', fs) => VTag 0 (VList (map (v_bref (st_of' ob)) fs)) :: vp8_history st' t
      | Err e => VTag 1 (VInt (err_obs e)) :: vp8_history st t
      | Panic => VTag 2 VUnit :: vp8_history st t
      end
    | None => [VBad]
    end
  | _ => [VBad]
  end.

Definition v_vp8pkt (p : vp8pkt) : value :=
  VList [VInt (v8_x p); VInt (v8_n p); VInt (v8_s p); VInt (v8_pid p); VInt (v8_i p); VInt (v8_l p);
         VInt (v8_t p); VInt (v8_k p); VInt (v8_picture_id p); VInt (v8_tl0picidx p); VInt (v8_tid p);
         VInt (v8_y p); VInt (v8_keyidx p); VBytes (v8_payload p)].

Definition vp8_fresh : vp8pkt := mkVp8Pkt 0 0 0 0 0 0 0 0 0 0 0 0 0 [].

Fixpoint vp8_unmarshal_seq (prev : vp8pkt) (ps : list tok) : list value :=
  match ps with
  | [] => []
  | p :: t =>
    match t_optbytes p with
    | Some ob =>
      match vp8_unmarshal prev ob with
      | Ok r => VTag 0 (VList [v_vp8pkt r; VBool (vp8_is_partition_head ob)]) :: vp8_unmarshal_seq r t
      | Err e => VTag 1 (VList [VInt (err_obs e); VBool (vp8_is_partition_head ob)]) :: vp8_unmarshal_seq vp8_fresh t
      | Panic => VTag 2 VUnit :: vp8_unmarshal_seq vp8_fresh t
      end
    | None => [VBad]
    end
  end.

Fixpoint h264_history (st : h264pay) (calls : list tok) : list value :=
  match calls with
  | [] => []
  | TList [TInt mtu; p] :: t =>
    match t_optbytes p with
    | Some ob =>
      match h264_payload st mtu ob with
      | Ok (st', fs) => VTag 0 (VList (map (v_bref (st_of' ob)) fs)) :: h264_history st' t
      | Err e => VTag 1 (VInt (err_obs e)) :: h264_history st t
      | Panic => VTag 2 VUnit :: h264_history st t
      end
    | None => [VBad]
    end
  | _ => [VBad]
  end.

(* the fragments a payloader emits over a history of calls (errors and panics emit nothing) *)
Fixpoint h264_frags (st : h264pay) (calls : list (Z * list Z)) : list (list Z) :=
  match calls with
  | [] => []
  | (mtu, p) :: t =>
    match h264_payload st mtu (Some p) with
    | Ok (st', fs) => map (resolve (fun _ => [])) fs ++ h264_frags st' t
    | _ => h264_frags st t
    end
  end.

Fixpoint h264_unmarshal_seq (st : h264pkt) (ps : list tok) : list value :=
  match ps with
  | [] => []
  | p :: t =>
    match t_optbytes p with
    | Some ob =>
      match h264_unmarshal st ob with
      | Ok (st', out) => VTag 0 (VList [VBytes out; VBool (h264_is_partition_head ob)]) :: h264_unmarshal_seq st' t
      | Err e => VTag 1 (VList [VInt (err_obs e); VBool (h264_is_partition_head ob)]) :: h264_unmarshal_seq st t
      | Panic => VTag 2 VUnit :: h264_unmarshal_seq st t
      end
    | None => [VBad]
    end
  end.

(* an RFC 6184 plan: [0 xnal] single, [1 nri [xunit...]] STAP-A, [2 h [xchunk...]] FU-A *)
Definition t_item (t : tok) : option Rfc6184.item :=
  match t with
  | TList [TInt 0; TBytes n] => Some (Rfc6184.ISingle n)
  | TList [TInt 1; TInt nri; TList us] => option_map (Rfc6184.IStapA nri) (opt_map t_bytes us)
  | TList [TInt 2; TInt h; TList cs] => option_map (Rfc6184.IFua h) (opt_map t_bytes cs)
  | _ => None
  end.

(* an RFC 7798 form: [0 ty layer tid donl xpayload] | [1 layer tid donl xfirst [[dond xunit]...]]
   | [2 layer tid s e futype donl xpayload] | [3 layer tid a ctype phs f0 f1 f2 y xphes xpayload] *)
Definition t_form (t : tok) : option Rfc7798.form :=
  match t with
  | TList [TInt 0; TInt ty; TInt layer; TInt tid; TInt donl; TBytes pl] => Some (Rfc7798.FSingle ty layer tid donl pl)
  | TList [TInt 1; TInt layer; TInt tid; TInt donl; TBytes first; TList os] =>
    option_map (Rfc7798.FAgg layer tid donl first)
      (opt_map (fun o => match o with TList [TInt dond; TBytes u] => Some (dond, u) | _ => None end) os)
  | TList [TInt 2; TInt layer; TInt tid; s; e; TInt futype; TInt donl; TBytes pl] =>
    match t_bool s, t_bool e with
    | Some s, Some e => Some (Rfc7798.FFu layer tid s e futype donl pl)
    | _, _ => None
    end
  | TList [TInt 3; TInt layer; TInt tid; a; TInt ctype; TInt phs; f0; f1; f2; y; TBytes phes; TBytes pl] =>
    match t_bool a, t_bool f0, t_bool f1, t_bool f2, t_bool y with
    | Some a, Some f0, Some f1, Some f2, Some y => Some (Rfc7798.FPaci layer tid a ctype phs f0 f1 f2 y phes pl)
    | _, _, _, _, _ => None
    end
  | _ => None
  end.

Fixpoint h265_history (st : h265pay) (calls : list tok) : list value :=
  match calls with
  | [] => []
  | TList [TInt mtu; p] :: t =>
    match t_optbytes p with
    | Some ob =>
      match h265_payload st mtu ob with
      | Ok (st', fs) => VTag 0 (VList (map (v_bref (st_of' ob)) fs)) :: h265_history st' t
      | Err e => VTag 1 (VInt (err_obs e)) :: h265_history st t
      | Panic => VTag 2 VUnit :: h265_history st t
      end
    | None => [VBad]
    end
  | _ => [VBad]
  end.

Definition v_nh (h : Z) : value := VList [VBool (nh_f h); VInt (nh_type h); VInt (nh_layer_id h); VInt (nh_tid h)].
Definition v_optz (o : option Z) : value := match o with Some z => VTag 0 (VInt z) | None => VTag 1 VUnit end.

Definition v_h5packet (p : h5packet) : value :=
  match p with
  | PSingle h d pl => VTag 10 (VList [v_nh h; v_optz d; VBytes pl])
  | PAgg fd f os => VTag 11 (VList [v_optz fd; VBytes f; VList (map (fun '(d, u) => VList [v_optz d; VBytes u]) os)])
  | PFu h fh d pl => VTag 12 (VList [v_nh h; VBool (fu_s fh); VBool (fu_e fh); VInt (fu_type fh); v_optz d; VBytes pl])
  | PPaci h f phes pl =>
    VTag 13 (VList [v_nh h; VBool (paci_a f); VInt (paci_ctype f); VInt (paci_phssize f); VBool (paci_f0 f);
                    VBool (paci_f1 f); VBool (paci_f2 f); VBool (paci_y f); VBytes phes; VBytes pl;
                    match paci_tsci f phes with
                    | Ok (Some t) => VTag 0 (VList [VInt (tsci_tl0picidx t); VInt (tsci_irap t); VBool (tsci_s t);
                                                    VBool (tsci_e t); VInt (tsci_res t)])
                    | Ok None => VTag 1 VUnit
                    | _ => VTag 2 VUnit
                    end])
  end.

Definition h265_unmarshal_seq (donl : bool) (ps : list tok) : list value :=
  map (fun p => match t_optbytes p with
                | Some ob => VList [v_res v_h5packet (h265_unmarshal donl ob); VBool (h265_is_partition_head ob)]
                | None => VBad
                end) ps.

Fixpoint vp9_history (st : vp9pay) (init : Z) (calls : list tok) : list value :=
  match calls with
  | [] => []
  | TList [TInt mtu; p] :: t =>
    match t_optbytes p with
    | Some ob =>
      match vp9_payload st init mtu ob with
      | Ok (st', fs) => VTag 0 (VList (map (v_bref (st_of' ob)) fs)) :: vp9_history st' init t
      | Err e => VTag 1 (VInt (err_obs e)) :: vp9_history st init t
      | Panic => VTag 2 VUnit :: vp9_history st init t
      end
    | None => [VBad]
    end
  | _ => [VBad]
  end.

Definition v_vp9pkt (p : vp9pkt) : value :=
  VList [VBool (p9_i p); VBool (p9_p p); VBool (p9_l p); VBool (p9_f p); VBool (p9_b p); VBool (p9_e p);
         VBool (p9_v p); VBool (p9_z p); VInt (p9_picture_id p); VInt (p9_tid p); VBool (p9_u p); VInt (p9_sid p);
         VBool (p9_d p); VList (map VInt (p9_pdiff p)); VInt (p9_tl0picidx p); VInt (p9_ns p); VBool (p9_y p);
         VBool (p9_g p); VInt (p9_ng p); VList (map VInt (p9_width p)); VList (map VInt (p9_height p));
         VList (map VInt (p9_pgtid p)); VList (map VBool (p9_pgu p));
         VList (map (fun l => VList (map VInt l)) (p9_pgpdiff p)); VBytes (p9_payload p)].

Definition vp9_fresh : vp9pkt :=
  mkVp9Pkt false false false false false false false false 0 0 false 0 false [] 0 0 false false 0 [] [] [] [] [] [].

Fixpoint vp9_unmarshal_seq (prev : vp9pkt) (ps : list tok) : list value :=
  match ps with
  | [] => []
  | p :: t =>
    match t_optbytes p with
    | Some ob =>
      match vp9_unmarshal prev ob with
      | Ok r => VTag 0 (VList [v_vp9pkt r; VBool (vp9_is_partition_head ob)]) :: vp9_unmarshal_seq r t
      | Err e => VTag 1 (VList [VInt (err_obs e); VBool (vp9_is_partition_head ob)]) :: vp9_unmarshal_seq vp9_fresh t
      | Panic => VTag 2 VUnit :: vp9_unmarshal_seq vp9_fresh t
      end
    | None => [VBad]
    end
  end.

Definition v_vp9hdr (h : vp9hdr) : value :=
  VList [VInt (vh_profile h); VBool (vh_show_existing h); VInt (vh_frame_to_show h); VBool (vh_non_key h);
         VBool (vh_show_frame h); VBool (vh_error_res h);
         match vh_color h with
         | Some (d, cs, r, sx, sy) => VTag 0 (VList [VInt d; VInt cs; VBool r; VBool sx; VBool sy])
         | None => VTag 1 VUnit
         end;
         VInt (vp9_width h); VInt (vp9_height h)].

Fixpoint av1d_seq (st : av1dep) (ps : list tok) : list value :=
  match ps with
  | [] => []
  | p :: t =>
    match t_optbytes p with
    | Some ob =>
      let '(st', r) := av1d_unmarshal st ob in
      (* the flags of a receiver straight after a rejected payload are not compared (every later result is) *)
      let ok := match r with Ok _ => true | _ => false end in
      VList [v_res VBytes r; VBool (ok && ad_z st'); VBool (ok && ad_y st'); VBool (ok && ad_n st'); VBool (av1d_is_partition_head ob)]
      :: av1d_seq st' t
    | None => [VBad]
    end
  end.

(* the deprecated path: a fresh AV1Packet per payload, one frame assembler for the stream *)
Fixpoint av1_legacy_seq (buffer : option (list Z)) (ps : list tok) : list value :=
  match ps with
  | [] => []
  | p :: t =>
    match t_optbytes p with
    | Some ob =>
      let '(pk, r) := av1p_unmarshal (mkAv1Pkt false false 0 false None) ob in
      match r with
      | Ok rest =>
        let '(buffer', obus) := read_frames buffer pk in
        VTag 0 (VList [VBytes rest; VBool (ap_z pk); VBool (ap_y pk); VInt (ap_w pk); VBool (ap_n pk);
                       VList (map VBytes (match ap_elems pk with Some es => es | None => [] end));
                       VList (map VBytes obus)]) :: av1_legacy_seq buffer' t
      | Err e => VTag 1 (VInt (err_obs e)) :: av1_legacy_seq buffer t
      | Panic => VTag 2 VUnit :: av1_legacy_seq buffer t
      end
    | None => [VBad]
    end
  end.

Definition dispatch_codecs (op : Z) (args : list tok) : value :=
  match op, args with
  | 1101, [enable; TInt warm; TList calls] =>
    (* warm unrecorded calls Payload(10, [1]) on a fresh payloader, then the history *)
    match t_bool enable with
    | Some en =>
      let st0 := Z.iter warm (fun st => match vp8_payload st 10 (Some [1]) with Ok (st', _) => st' | _ => st end)
                        (mkVp8Pay en 0) in
      VList (vp8_history st0 calls)
    | None => VBad
    end
  | 1102, [TList ps] => VList (vp8_unmarshal_seq vp8_fresh ps)
  | 1104, [n; s; TInt pid; x; i; m; TInt picid; l; TInt tl0; t; k; TInt tid; y; TInt keyidx; TBytes rest] =>
    (* the Spec/Rfc7741.v encoder run on the descriptor, the receiver model on descriptor ++ rest
       and on every strict prefix of the descriptor *)
    match t_bool n, t_bool s, t_bool x, t_bool i, t_bool m, t_bool l, t_bool t, t_bool k, t_bool y with
    | Some n, Some s, Some x, Some i, Some m, Some l, Some t, Some k, Some y =>
      let e := Rfc7741.mkDext (if i then Some (m, picid) else None) (if l then Some tl0 else None)
                              (if t then Some (tid, y) else None) (if k then Some keyidx else None) in
      let d := Rfc7741.mkDesc n s pid (if x then Some e else None) in
      let wire := Rfc7741.encode_desc d in
      VList [VBytes (wire ++ rest);
             VList (vp8_unmarshal_seq vp8_fresh [TBytes (wire ++ rest)]);
             VList (map (fun j => match vp8_unmarshal vp8_fresh (Some (take (Z.of_nat j) wire)) with
                                  | Ok _ => VInt 0 | Err _ => VInt 1 | Panic => VInt 2 end)
                        (seq 0 (length wire)))]
    | _, _, _, _, _, _, _, _, _ => VBad
    end
  | 1301, [TInt mtu; p] =>
    match t_optbytes p with
    | Some ob => v_res (fun ps => VList (map VBytes ps)) (av1_payload mtu (match ob with Some l => l | None => [] end))
    | None => VBad
    end
  | 1302, [TList ps] => VList (av1d_seq (mkAv1Dep [] false false false) ps)
  | 1303, [TList ps] => VList (av1_legacy_seq None ps)
  | 1304, [TInt v] => VList [VBytes (write_leb128 v); VInt (encode_leb128 v)]
  | 1305, [TBytes b] => match read_leb128 b with Some (v, n) => VTag 0 (VList [VInt v; VInt n]) | None => VTag 1 (VInt 1) end
  | 1306, [TBytes b] =>
    match parse_obu_header b with
    | Some h => VTag 0 (VList [VInt (otype h);
                               match oext h with Some (t, s, r) => VTag 0 (VList [VInt t; VInt s; VInt r]) | None => VTag 1 VUnit end;
                               VBool (ohas_size h); VBool (ores1 h); VBytes (obu_hdr_marshal h)])
    | None => VTag 1 (VInt 1)
    end
  | 1201, [flex; TInt init; TList calls] =>
    match t_bool flex with
    | Some f => VList (vp9_history (mkVp9Pay f 0 false) init calls)
    | None => VBad
    end
  | 1204, [flex; TInt init; TList calls] =>
    (* as 1201; every call also carries the description of its frame, which only the harness oracle reads *)
    match t_bool flex with
    | Some f => VList (vp9_history (mkVp9Pay f 0 false) init
                         (map (fun c => match c with TList (m :: b :: _) => TList [m; b] | _ => c end) calls))
    | None => VBad
    end
  | 1202, [TList ps] => VList (vp9_unmarshal_seq vp9_fresh ps)
  | 1203, [TBytes b] => v_res v_vp9hdr (vp9_header_unmarshal b)
  | 1401, [donl; skip; TList calls] =>
    match t_bool donl, t_bool skip with
    | Some d, Some sk => VList (h265_history (mkH265Pay d sk 0) calls)
    | _, _ => VBad
    end
  | 1402, [donl; TList ps] =>
    match t_bool donl with
    | Some d => VList (h265_unmarshal_seq d ps)
    | None => VBad
    end
  | 1406, [donl; skip; TList calls] =>
    (* calls given as unit lists with their start-code lengths: build the Annex-B streams, then as 1401 *)
    let unit_bytes (u : tok) : option (list Z) :=
      match u with
      | TList [TInt sc; TBytes n] => Some ((if sc =? 3 then [0; 0; 1] else [0; 0; 0; 1]) ++ n)
      | _ => None
      end in
    let call_tok (c : tok) : option tok :=
      match c with
      | TList [TInt mtu; TList us] => option_map (fun bs => TList [TInt mtu; TBytes (concat bs)]) (opt_map unit_bytes us)
      | _ => None
      end in
    match t_bool donl, t_bool skip, opt_map call_tok calls with
    | Some d, Some sk, Some cs => VList (h265_history (mkH265Pay d sk 0) cs)
    | _, _, _ => VBad
    end
  | 1405, [donl; f] =>
    (* the Spec/Rfc7798.v encoder run on the form, then the parser model on its bytes *)
    match t_bool donl, t_form f with
    | Some d, Some f =>
      let bs := Rfc7798.encode d f in
      VList [VBytes bs; VList (h265_unmarshal_seq d [TBytes bs])]
    | _, _ => VBad
    end
  | 1403, [TInt h] => v_nh h
  | 1404, [TInt b] => VList [VBool (fu_s b); VBool (fu_e b); VInt (fu_type b)]
  | 1001, [disable; TList calls] =>
    match t_bool disable with
    | Some d => VList (h264_history (mkH264Pay d None None) calls)
    | None => VBad
    end
  | 1002, [avc; TList ps] =>
    match t_bool avc with
    | Some a => VList (h264_unmarshal_seq (mkH264Pkt a []) ps)
    | None => VBad
    end
  | 1006, [disable; avc; TList calls] =>
    (* calls given as unit lists with their start-code lengths: build the Annex-B streams, run the
       payloader model over them, then the receiver model over the packets it emitted *)
    let unit_bytes (u : tok) : option (list Z) :=
      match u with
      | TList [TInt sc; TBytes n] => Some ((if sc =? 3 then [0; 0; 1] else [0; 0; 0; 1]) ++ n)
      | _ => None
      end in
    let call_of (c : tok) : option (Z * list Z) :=
      match c with
      | TList [TInt mtu; TList us] => option_map (fun bs => (mtu, concat bs)) (opt_map unit_bytes us)
      | _ => None
      end in
    match t_bool disable, t_bool avc, opt_map call_of calls with
    | Some d, Some a, Some cs =>
      VList [VList (h264_history (mkH264Pay d None None) (map (fun c => TList [TInt (fst c); TBytes (snd c)]) cs));
             VList (h264_unmarshal_seq (mkH264Pkt a []) (map TBytes (h264_frags (mkH264Pay d None None) cs)))]
    | _, _, _ => VBad
    end
  | 1005, [avc; TInt _; TList ps] =>
    match t_bool avc with
    | Some a => VList (h264_unmarshal_seq (mkH264Pkt a []) ps)
    | None => VBad
    end
  | 1308, [TInt mtu; TList os] =>
    (* the OBUs rendered by Spec/Av1Rtp.v (size field on each one that asks for it), the payloader
       model, and both receiver models on its packets *)
    let t_obu (t : tok) : option (bool * Av1Rtp.iobu) :=
      match t with
      | TList [TInt ty; ext; TInt tid; TInt sid; TInt r3; hs; TBytes pl] =>
        match t_bool ext, t_bool hs with
        | Some e, Some h => Some (h, Av1Rtp.mkIobu ty (if e then Some (tid, sid, r3) else None) false pl)
        | _, _ => None
        end
      | _ => None
      end in
    match opt_map t_obu os with
    | Some l =>
      let input := concat (map (fun x => Av1Rtp.io_bytes (fst x) (snd x)) l) in
      match av1_payload mtu input with
      | Ok ps => VList [VBytes input; VTag 0 (VList (map VBytes ps));
                        VList (av1d_seq (mkAv1Dep [] false false false) (map TBytes ps));
                        VList (av1_legacy_seq None (map TBytes ps))]
      | Err e => VTag 1 (VInt (err_obs e))
      | Panic => VTag 2 VUnit
      end
    | None => VBad
    end
  | 1307, [TInt _; TList ps] => VList (av1d_seq (mkAv1Dep [] false false false) ps)
  | 1004, [avc; TList plan] =>
    (* the Spec/Rfc6184.v encoder run on the plan, then the receiver model on its packets *)
    match t_bool avc, opt_map t_item plan with
    | Some a, Some items =>
      let ps := Rfc6184.rfc_stream items in
      VList [VList (map VBytes ps); VList (h264_unmarshal_seq (mkH264Pkt a []) (map TBytes ps))]
    | _, _ => VBad
    end
  | _, _ => VBad
  end.
