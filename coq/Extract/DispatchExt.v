(* Cases for the fixed-size header-extension codecs and NTP arithmetic (C17, C18). *)
From Coq Require Import ZArith List Bool.
From RTP Require Import Base.Res Base.ListX Extract.Value Model.ExtCodecs Model.Ntp Model.Sequencer Model.Vla.
Import ListNotations.
Open Scope Z_scope.

Definition t_optint (t : tok) : option (option Z) :=
  match t with TInt z => Some (Some z) | TNil => Some None | _ => None end.

Definition v_optint (o : option Z) : value :=
  match o with Some z => VTag 0 (VInt z) | None => VTag 1 VUnit end.

Definition t_slayer (t : tok) : option slayer :=
  match t with
  | TList [TInt s; TInt sp; TList rs; TInt w; TInt h; TInt f] =>
    match opt_map t_int rs with Some rs => Some (mkSLayer s sp rs w h f) | None => None end
  | _ => None
  end.

Definition t_vla (t : tok) : option vla :=
  match t with
  | TList [TInt rid; TInt count; hr; TList ls] =>
    match t_bool hr, opt_map t_slayer ls with
    | Some hr, Some ls => Some (mkVla rid count ls hr)
    | _, _ => None
    end
  | _ => None
  end.

Definition v_vla (v : vla) : value :=
  VList [VInt (v_rid v); VInt (v_count v); VBool (v_hasres v);
         VList (map (fun l => VList ([VInt (sl_stream l); VInt (sl_spatial l); VList (map VInt (sl_bitrates l))]
                                    ++ (if v_hasres v then [VInt (sl_width l); VInt (sl_height l); VInt (sl_framerate l)] else [])))
                    (v_layers v))].

Definition vla_empty : vla := mkVla 0 0 [] false.

Fixpoint vla_unmarshal_seq (prev : vla) (bufs : list (list Z)) : list value :=
  match bufs with
  | [] => []
  | b :: t =>
    match vla_unmarshal prev b with
    | VOk (v, n) => VTag 0 (VList [VInt n; v_vla v]) :: vla_unmarshal_seq v t
    | VErr _ _ => VTag 1 VUnit :: vla_unmarshal_seq vla_empty t
    | VPanic => VTag 2 VUnit :: vla_unmarshal_seq vla_empty t
    end
  end.

Definition dispatch_ext (op : Z) (args : list tok) : value :=
  match op, args with
  | 1701, [TInt level; voice] =>
    match t_bool voice with
    | Some v => v_res VBytes (audio_level_marshal (mkAudioLevel level v))
    | None => VBad
    end
  | 1702, [TInt pl; pv; TBytes raw] =>
    match t_bool pv with
    | Some pv => v_res (fun a => VList [VInt (al_level a); VBool (al_voice a)])
                       (audio_level_unmarshal (mkAudioLevel pl pv) raw)
    | None => VBad
    end
  | 1703, [TInt s] => v_res VBytes (tcc_marshal s)
  | 1704, [TInt prev; TBytes raw] => v_res VInt (tcc_unmarshal prev raw)
  | 1705, [TInt mn; TInt mx] => v_res VBytes (playout_marshal mn mx)
  | 1706, [TInt pmn; TInt pmx; TBytes raw] =>
    v_res (fun '(a, b) => VList [VInt a; VInt b]) (playout_unmarshal (pmn, pmx) raw)
  | 1707, [TInt ts] => v_res VBytes (abs_send_marshal ts)
  | 1708, [TInt prev; TBytes raw] => v_res VInt (abs_send_unmarshal prev raw)
  | 1709, [TInt ts; off] =>
    match t_optint off with
    | Some o => v_res VBytes (abs_capture_marshal (mkAbsCapture ts o))
    | None => VBad
    end
  | 1710, [TInt pts; poff; TBytes raw] =>
    match t_optint poff with
    | Some po => v_res (fun a => VList [VInt (ac_ts a); v_optint (ac_offset a)])
                       (abs_capture_unmarshal (mkAbsCapture pts po) raw)
    | None => VBad
    end
  | 1801, [TInt u] =>
    let a := new_abs_capture_time u in VList [VInt (ac_ts a); VInt (capture_time a)]
  | 1802, [TInt send; TInt delay] =>
    let ts := new_abs_send_time send in
    VList [VInt ts; VInt (estimate ts (send + delay))]
  | 1803, [TInt u; TInt d] =>
    let a := new_abs_capture_time_with_offset u d in
    VList [v_optint (ac_offset a); v_optint (offset_duration a)]
  | 1901, [v] => match t_vla v with Some v => v_res VBytes (vla_marshal v) | None => VBad end
  | 1902, [TList bufs] =>
    match opt_map t_bytes bufs with Some bs => VList (vla_unmarshal_seq vla_empty bs) | None => VBad end
  | 701, TInt kind :: TInt start :: TList ops :: _ =>
    (* kind 0: NewFixedSequencer(start); kind 1: random sequencer whose PRNG draw was start *)
    match opt_map (fun t => match t with TInt 0 => Some SNext | TInt 1 => Some SRoc | _ => None end) ops with
    | Some ops => VList (map VInt (snd (seq_run (if kind =? 0 then new_fixed start else new_random start) ops)))
    | None => VBad
    end
  | 704, [TInt start; TList ops] =>
    (* one sequencer shared by direct callers and a packetizer: [2 k] / [3 n] draw k / n numbers *)
    match opt_map (fun t => match t with
                            | TInt 0 => Some (BOne SNext) | TInt 1 => Some (BOne SRoc)
                            | TList [TInt _; TInt k] => Some (BTake (Z.to_nat k))
                            | _ => None end) ops with
    | Some bops => VList (map (fun (p : bop * list Z) => match fst p with BOne _ => VInt (hd 0 (snd p)) | BTake _ => VList (map VInt (snd p)) end)
                              (combine bops (snd (seq_brun (new_fixed start) bops))))
    | None => VBad
    end
  | 703, [TList _] => VUnit   (* a recorded concurrent trace: judged by the harness rule only *)
  | 702, [TInt d; TList ops] =>
    (* NewRandomSequencer with a generator whose Intn(n) returns min(d, n-1) *)
    match opt_map (fun t => match t with TInt 0 => Some SNext | TInt 1 => Some SRoc | _ => None end) ops with
    | Some ops => VList (map VInt (snd (seq_run (new_random (Z.min d (max_initial_random - 1))) ops)))
    | None => VBad
    end
  | _, _ => VBad
  end.
