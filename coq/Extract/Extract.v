From Coq Require Extraction.
From Coq Require Import ExtrOcamlBasic.
From RTP Require Import Extract.Value Extract.Dispatch.
Extraction "model.ml" dispatch z_of_digits digits_of_z.
