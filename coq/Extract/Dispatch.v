(* opcode -> run of the model.  Opcodes are grouped by property: Cxx uses xx00..xx99. *)
From Coq Require Import ZArith List Bool.
From RTP Require Import Base.Res Base.ListX Base.Own Extract.Value.
From RTP Require Import Model.Audio Extract.DispatchRtp Extract.DispatchExt Extract.DispatchCodecs Extract.DispatchPktz.
Import ListNotations.
Open Scope Z_scope.

Definition st_of (p : option (list Z)) : store :=
  fun _ => match p with Some l => l | None => [] end.

Definition d_payloader (f : Z -> option (list Z) -> res (list bref)) (args : list tok) : value :=
  match args with
  | [TInt mtu; p] =>
    match t_optbytes p with
    | Some ob => v_res (fun fs => VList (map (v_bref (st_of ob)) fs)) (f mtu ob)
    | None => VBad
    end
  | _ => VBad
  end.

Definition dispatch (op : Z) (args : list tok) : value :=
  match op with
  | 1601 => d_payloader g711_payload args
  | 1602 => d_payloader g722_payload args
  | 1603 => d_payloader opus_payload args
  | 1604 =>
    match args with
    | [p] => match t_optbytes p with
             | Some ob => v_res (fun r => VList [v_bref (st_of ob) r; VBool (audio_is_partition_head ob);
                                                 VBool (audio_is_partition_tail false ob)])
                                (opus_unmarshal ob)
             | None => VBad
             end
    | _ => VBad
    end
  | 1606 =>
    (* one payloader instance (0 G711, 1 G722, 2 Opus) over a sequence of calls: it keeps nothing
       between calls, so every call is judged on its own *)
    match args with
    | [TInt kind; TList calls] =>
      let f := if kind =? 0 then g711_payload else if kind =? 1 then g722_payload else opus_payload in
      VList (map (fun c => match c with TList a => d_payloader f a | _ => VBad end) calls)
    | _ => VBad
    end
  | 1605 =>
    (* one OpusPacket over a sequence of payloads (the receiver keeps nothing between calls) *)
    match args with
    | [TList ps] =>
      VList (map (fun p => match t_optbytes p with
                           | Some ob => VList [v_res (v_bref (st_of ob)) (opus_unmarshal ob);
                                               VBool (audio_is_partition_head ob); VBool (audio_is_partition_tail false ob)]
                           | None => VBad end) ps)
    | _ => VBad
    end
  | _ => if op =? 602 then VUnit   (* a packetizer history with a stateful payloader: judged by the harness oracle alone *)
         else if op =? 601 then dispatch_pktz op args
         else if (op =? 2001) || (op =? 2002) || (op =? 2003) || (op =? 2004) then dispatch_rtp op args
         else if (100 <=? op) && (op <? 600) then dispatch_rtp op args
         else if ((1700 <=? op) && (op <? 2000)) || (op =? 701) || (op =? 702) || (op =? 703) || (op =? 704) then dispatch_ext op args
         else if (800 <=? op) && (op <? 1600) then dispatch_codecs op args else VBad
  end.
