(* Cases for packetizer.go (C06). *)
From Coq Require Import ZArith List Bool.
From RTP Require Import Base.Res Base.ListX Base.Own Extract.Value Extract.DispatchRtp
  Model.RtpPacket Model.Sequencer Model.Packetizer Model.Audio Model.Vp8.
Import ListNotations.
Open Scope Z_scope.

Definition frags_of (r : res (list bref)) : list (list Z) :=
  match r with Ok fs => map (resolve (fun _ => [])) fs | _ => [] end.

(* stateless payloaders usable as the packetizer's parameter *)
Definition payloader_of (code : Z) : Z -> list Z -> list (list Z) :=
  fun mtu p =>
    if code =? 0 then frags_of (g711_payload mtu (Some p))
    else if code =? 1 then frags_of (g722_payload mtu (Some p))
    else if code =? 2 then frags_of (opus_payload mtu (Some p))
    else if code =? 4 then   (* the harness's gate payloader: nothing for a first byte below 128 *)
      match p with
      | b :: _ => if b <? 128 then [] else frags_of (g711_payload mtu (Some p))
      | [] => []
      end
    else match vp8_payload (mkVp8Pay false 0) mtu (Some p) with
         | Ok (_, fs) => map (resolve (fun _ => [])) fs
         | _ => []
         end.

Fixpoint run_pktz (pay : Z -> list Z -> list (list Z)) (p : pktz) (ops : list tok) : list value :=
  match ops with
  | [] => []
  | TList [TInt 1; TBytes payload; TInt samples; TInt now] :: t =>
    let '(p', pk) := packetize pay p payload samples now in
    VList (map v_packet pk) :: run_pktz pay p' t
  | TList [TInt 2; TInt n] :: t =>
    let '(p', pk) := generate_padding p n in
    VList (map v_packet pk) :: run_pktz pay p' t
  | TList [TInt 3; TInt n] :: t => VUnit :: run_pktz pay (skip_samples p n) t
  | TList [TInt 4; TInt v] :: t => VUnit :: run_pktz pay (enable_abs_send_time p v) t
  | _ => [VBad]
  end.

Definition dispatch_pktz (op : Z) (args : list tok) : value :=
  match op, args with
  | 601, [TInt mtu; TInt pt; TInt ssrc; TInt ts0; TInt seq0; TInt code; TList ops] =>
    VList (run_pktz (payloader_of code) (mkPktz mtu pt ssrc ts0 0 (new_fixed seq0)) ops)
  | _, _ => VBad
  end.
