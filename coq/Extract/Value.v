(* Generic input tokens and output observables shared by the model runner and the
   Go harness.  Rendering happens here, inside Coq, so that the OCaml driver only
   tokenises lines and prints trees. *)
From Coq Require Import ZArith List Bool.
From RTP Require Import Base.Res Base.ListX Base.Own.
Import ListNotations.
Open Scope Z_scope.

Inductive tok : Type :=
| TInt (z : Z)
| TBytes (l : list Z)
| TNil
| TList (l : list tok).

Inductive value : Type :=
| VInt (z : Z)
| VBytes (l : list Z)
| VList (l : list value)
| VTag (n : Z) (v : value).

(* decidable equality on observables, used by the in-Coq re-evaluation of a sub-corpus (thorough
   tier): the extracted runner's outputs must be what vm_compute gives for the same cases *)
Fixpoint zlist_eqb (a b : list Z) : bool :=
  match a, b with
  | [], [] => true
  | x :: s, y :: t => (x =? y) && zlist_eqb s t
  | _, _ => false
  end.

Fixpoint value_eqb (a b : value) : bool :=
  match a, b with
  | VInt x, VInt y => x =? y
  | VBytes x, VBytes y => zlist_eqb x y
  | VList x, VList y =>
    (fix go (l1 l2 : list value) : bool :=
       match l1, l2 with
       | [], [] => true
       | h1 :: t1, h2 :: t2 => value_eqb h1 h2 && go t1 t2
       | _, _ => false
       end) x y
  | VTag n v, VTag m w => (n =? m) && value_eqb v w
  | _, _ => false
  end.

Definition VBool (b : bool) : value := VInt (if b then 1 else 0).
Definition VUnit : value := VList [].
Definition VBad : value := VTag 99 VUnit.   (* malformed case line *)

Definition v_res {A} (f : A -> value) (r : res A) : value :=
  match r with
  | Ok a => VTag 0 (f a)
  | Err e => VTag 1 (VInt (err_obs e))
  | Panic => VTag 2 VUnit
  end.

Definition v_opt {A} (f : A -> value) (o : option A) : value :=
  match o with Some a => VTag 0 (f a) | None => VTag 1 VUnit end.

(* byte-string argument that may be nil *)
Definition t_optbytes (t : tok) : option (option (list Z)) :=
  match t with
  | TBytes l => Some (Some l)
  | TNil => Some None
  | _ => None
  end.

(* a fragment with its provenance class: 1 = fresh copy, 0 = window on a caller buffer *)
Definition v_bref (st : store) (r : bref) : value :=
  VList [VBool (is_own r); VBytes (resolve st r)].

(* decimal conversion for the driver (which only handles digits 0..9 itself) *)
Definition z_of_digits (neg : bool) (ds : list Z) : Z :=
  let v := fold_left (fun a d => a * 10 + d) ds 0 in if neg then - v else v.

Fixpoint digits_aux (fuel : nat) (z : Z) (acc : list Z) : list Z :=
  match fuel with
  | O => acc
  | S f => if z <? 10 then z :: acc else digits_aux f (z / 10) (z mod 10 :: acc)
  end.

Definition digits_of_z (z : Z) : bool * list Z :=
  (z <? 0, digits_aux (S (Z.to_nat (Z.log2 (Z.abs z)))) (Z.abs z) []).

(* argument helpers: None on a malformed case *)
Definition t_int (t : tok) : option Z := match t with TInt z => Some z | _ => None end.
Definition t_bytes (t : tok) : option (list Z) := match t with TBytes l => Some l | _ => None end.
Definition t_bool (t : tok) : option bool := match t with TInt z => Some (negb (z =? 0)) | _ => None end.
Definition t_list (t : tok) : option (list tok) := match t with TList l => Some l | _ => None end.

Fixpoint opt_map {A B} (f : A -> option B) (l : list A) : option (list B) :=
  match l with
  | [] => Some []
  | a :: t => match f a, opt_map f t with
              | Some b, Some bs => Some (b :: bs)
              | _, _ => None
              end
  end.
