(* C12 — VP9 packetization is lossless and its descriptor decodes per the VP9 RTP spec.
   Proved: flexible and non-flexible mode are lossless with B on the first and E on the last
   packet only, the frame's 15-bit picture id in every packet and +1 mod 2^15 per call; in
   non-flexible mode P = non-key frame and the first packet of a key frame carries the
   scalability structure (N_S=0, Y=1, G=1, N_G=1) with the width and height of the frame's
   uncompressed header; the bit reader returns exactly the addressed bits of the big-endian bit
   string; the uncompressed-header parser decodes the syntax elements of the bitstream syntax
   table for all four profiles and every colour configuration; VP9Packet decodes the payloader's
   packets to exactly those values, never panics, and does not depend on the receiver's past.
   C12_decode: every well-formed payload descriptor of the payload format (Spec/Vp9Rtp.v, written
   from the figures with arithmetic only: both picture id forms, layer indices with or without
   TL0PICIDX, one to three reference indices, scalability structures with resolutions and
   picture groups) decodes to exactly the encoded values and the bytes after it; C12_truncated:
   every strict prefix of such a descriptor is rejected as too short. *)
From Coq Require Import ZArith List Lia Bool.
From RTP Require Import Base.Res Base.ListX Base.Own Model.Vp9Header Model.Vp9
  Proofs.C12_Vp9 Proofs.C12_Nonflex Proofs.C12_Bits Proofs.C12_Header Proofs.C12_HeaderTotal Proofs.C09_Total Spec.Vp9Rtp Proofs.C12_Decode Proofs.C12_Prefix.
Import ListNotations.
Open Scope Z_scope.

Theorem C12_flexible : forall pid mtu frame, 3 < mtu -> frame <> [] ->
  exists fs cs, payload_flexible pid mtu frame = Ok fs /\ flex_rel pid true fs cs /\ concat cs = frame /\
                cs <> [] /\ Forall (fun c => 1 <= zlen c /\ 3 + zlen c <= mtu) cs.
Proof. exact vp9_flexible_spec. Qed.
Print Assumptions C12_flexible.

Theorem C12_flexible_decodes : forall pid first last c prev, 0 <= pid < 32768 ->
  vp9_unmarshal prev (Some (flex_b0 first last :: pid_bytes pid ++ c)) = Ok (flex_packet pid first last c).
Proof. exact vp9_flex_fragment_decodes. Qed.
Print Assumptions C12_flexible_decodes.

Theorem C12_nonflexible : forall pid mtu frame hdr, 11 < mtu -> frame <> [] ->
  vp9_header_unmarshal frame = Ok hdr ->
  exists fs cs, payload_nonflexible pid mtu frame = Ok fs /\
                nonflex_rel pid (vh_non_key hdr) (vp9_width hdr) (vp9_height hdr) true fs cs /\
                concat cs = frame /\ cs <> [] /\ Forall (fun c => 1 <= zlen c) cs /\
                Forall (fun f => match f with Own l => zlen l <= mtu | _ => False end) fs.
Proof. exact vp9_nonflexible_spec. Qed.
Print Assumptions C12_nonflexible.

Theorem C12_nonflexible_decodes : forall pid non_key first last w h c prev,
  0 <= pid < 32768 -> 0 <= w < 65536 -> 0 <= h < 65536 ->
  vp9_unmarshal prev (Some (nonflex_hdr pid non_key first last w h ++ c)) =
  Ok (nonflex_packet pid non_key first last w h c).
Proof. exact vp9_nonflex_fragment_decodes. Qed.
Print Assumptions C12_nonflexible_decodes.

(* IsPartitionHead (the B bit) is true on the first packet of a frame only, in both modes *)
From RTP Require Import Proofs.PartitionHead.
Theorem C12_partition_head_flexible : forall first last rest,
  vp9_is_partition_head (Some (flex_b0 first last :: rest)) = first.
Proof. exact vp9_flex_head. Qed.
Print Assumptions C12_partition_head_flexible.

Theorem C12_partition_head_nonflexible : forall pid non_key first last w h c,
  vp9_is_partition_head (Some (nonflex_hdr pid non_key first last w h ++ c)) = first.
Proof. exact vp9_nonflex_head. Qed.
Print Assumptions C12_partition_head_nonflexible.


(* ---- end to end, over histories: any sequence of frames the mode can carry (frame_fits: non-empty;
   in non-flexible mode with a parsable uncompressed header) through one payloader, every emitted
   payload handed in order to one reused VP9Packet (vp9_run), gives back every frame as the
   concatenation of the decoded payloads, with B on the first and E on the last packet of a frame
   only, I set, and the picture id of the k-th frame equal to (first id + k) mod 2^15 in every one of
   its packets; in non-flexible mode P = non-key frame on every packet, and V with one spatial layer
   of the frame header's width and height on the first packet of a key frame and nowhere else
   (frames_ok9 / frame_ok9) ---- *)
From RTP Require Import Proofs.VpHistory.
Theorem C12_history : forall frames st init mtu prev, 0 <= v9_pid st < 32768 -> 0 <= init ->
  (if v9_flexible st then 3 else 11) < mtu -> Forall (frame_fits (v9_flexible st)) frames ->
  exists r, vp9_run st init mtu prev frames = Ok r /\ frames_ok9 (v9_flexible st) (start_pid st init) frames r.
Proof. exact vp9_history. Qed.
Print Assumptions C12_history.

Theorem C12_picture_id : forall st init mtu p st' fs, 0 <= v9_pid st < 32768 ->
  vp9_payload st init mtu p = Ok (st', fs) ->
  let pid := if v9_initialized st then v9_pid st else init mod 32768 in
  v9_pid st' = (pid + 1) mod 32768 /\ v9_initialized st' = true /\ v9_flexible st' = v9_flexible st.
Proof. exact vp9_picture_id_step. Qed.
Print Assumptions C12_picture_id.

Theorem C12_bits : forall buf pos n, bytes buf -> 0 <= pos -> 1 <= n <= 64 -> pos + n <= 8 * zlen buf ->
  read_bits_unsafe buf pos n = Ok (ext buf pos n, pos + n).
Proof. exact read_bits_unsafe_spec. Qed.
Print Assumptions C12_bits.

Theorem C12_header : forall h buf, bytes buf -> wf_shdr h -> fields buf 0 (hdr_fields h) ->
  vp9_header_unmarshal buf = Ok (expected h).
Proof. exact vp9_header_decodes. Qed.
Print Assumptions C12_header.

Theorem C12_header_size : forall h buf, bytes buf -> wf_shdr h -> fields buf 0 (hdr_fields h) ->
  s_non_key h = false ->
  exists hdr, vp9_header_unmarshal buf = Ok hdr /\ vh_non_key hdr = false /\
              vp9_width hdr = s_w h /\ vp9_height hdr = s_h h /\ vh_profile hdr = s_profile h.
Proof. exact vp9_header_size. Qed.
Print Assumptions C12_header_size.

Theorem C12_decode : forall d prev rest, wf_vdesc d ->
  vp9_unmarshal prev (Some (encode_vdesc d ++ rest)) = Ok (fields_of d rest).
Proof. exact vp9_decode_desc. Qed.
Print Assumptions C12_decode.

Theorem C12_truncated : forall d prev k, wf_vdesc d -> 0 <= k < zlen (encode_vdesc d) ->
  vp9_unmarshal prev (Some (take k (encode_vdesc d))) = Err EShort.
Proof. exact vp9_prefix_rejected. Qed.
Print Assumptions C12_truncated.

Theorem C12_header_total : forall buf, bytes buf -> vp9_header_unmarshal buf <> Panic.
Proof. exact vp9_header_unmarshal_total. Qed.
Print Assumptions C12_header_total.

Theorem C12_unmarshal_total_reuse : forall prev prev' x,
  vp9_unmarshal prev x <> Panic /\ vp9_unmarshal prev x = vp9_unmarshal prev' x.
Proof. intros; split; [apply vp9_unmarshal_total|apply vp9_unmarshal_reuse]. Qed.
Print Assumptions C12_unmarshal_total_reuse.

(* Non-vacuity of C12_decode: 15-bit picture id, layer indices, flexible mode with two reference
   indices, a scalability structure with two resolutions and two picture groups *)
Definition ex_desc : vdesc :=
  mkVDesc (Some (true, 4660)) true true true false false (Some (mkVLayer 2 true 1 false)) 0 [1; 5]
          (Some (mkSS 1 (Some [(320, 180); (640, 360)]) (Some [mkPGroup 0 true [4]; mkPGroup 1 false []]))).
Example C12_decode_nonvacuous : wf_vdesc ex_desc /\ encode_vdesc ex_desc =
  [250; 146; 52; 82; 3; 10; 56; 1; 64; 0; 180; 2; 128; 1; 104; 2; 20; 4; 32].
Proof.
  split; [|reflexivity]. unfold wf_vdesc, ex_desc, wf_ss, wf_pg. cbn.
  repeat split; try lia; repeat constructor; cbn; lia.
Qed.

(* Non-vacuity: a profile-0 key frame header, 320x240, satisfies the premises of C12_header and is
   sent in non-flexible mode with the scalability structure on the first packet. *)
Definition ex_frame : list Z := [130; 73; 131; 66; 32; 19; 240; 14; 240; 1; 2; 3; 4; 5; 6; 7].
Definition ex_shdr : shdr := mkSHdr 0 false true false false 1 false false false 320 240.

Example C12_nonvacuous :
  bytes ex_frame /\ wf_shdr ex_shdr /\ fields ex_frame 0 (hdr_fields ex_shdr) /\
  (exists fs, payload_nonflexible 300 20 ex_frame = Ok fs /\ length fs = 2%nat /\
     hd (Own []) fs = Own (nonflex_hdr 300 false true false 320 240 ++ [130; 73; 131; 66; 32; 19; 240; 14; 240])) /\
  (exists fs, payload_flexible 300 6 [1; 2; 3; 4; 5; 6; 7] = Ok fs /\
     fs = [Own [152; 129; 44; 1; 2; 3]; Own [144; 129; 44; 4; 5; 6]; Own [148; 129; 44; 7]]).
Proof.
  split; [repeat constructor; lia|]. split; [unfold wf_shdr; cbn; lia|].
  split; [vm_compute; repeat split; congruence|].
  split; [eexists; split; [vm_compute; reflexivity|split; reflexivity]|eexists; split; reflexivity].
Qed.

(* C12_history is not vacuous: two key frames (320x240, profile 0) in non-flexible mode at MTU 20,
   first picture id 32767 (from InitialPictureIDFn), into a receiver that held something else *)
Example C12_history_nonvacuous :
  frame_fits false ex_frame /\
  exists r, vp9_run (mkVp9Pay false 0 false) 32767 20 (flex_packet 5 true true [1]) [ex_frame; ex_frame] = Ok r /\
    map (map p9_picture_id) r = [[32767; 32767]; [0; 0]] /\
    map (map p9_b) r = [[true; false]; [true; false]] /\ map (map p9_e) r = [[false; true]; [false; true]] /\
    map (map p9_v) r = [[true; false]; [true; false]] /\ map (map p9_width) r = [[[320]; []]; [[320]; []]] /\
    map (concat (A := Z)) (map (map p9_payload) r) = [ex_frame; ex_frame].
Proof.
  split; [split; [discriminate|intros _; eexists; vm_compute; reflexivity]|].
  eexists. split; [vm_compute; reflexivity|repeat split].
Qed.
