(* C19 — Video Layers Allocation encodes per spec and round-trips.
   valid_vla: 1-4 streams, stream id below the count, layers strictly ordered by (stream, spatial)
   (hence unique) with ids in range, 1-4 bitrates each in 0..2^56-1, resolution 1..65536 and frame
   rate 0..255 when present (all zero when absent; no resolution flag without layers).
   C19_layout: Marshal emits exactly [vla_layout]: the first byte, per-stream bitmask nibbles only
   when the streams do not share one, 2-bit temporal counts four per byte, LEB128 bitrates, 5-byte
   resolution records, and no further byte.  C19_roundtrip: Unmarshal of those bytes into any
   previously used receiver consumes them all and yields the same value.  C19_rejects /
   C19_error_kind: what Marshal refuses.  C19_total: Unmarshal on arbitrary bytes. *)
From Coq Require Import ZArith List Lia Bool.
From RTP Require Import Base.Res Base.ListX Model.Leb128 Model.Vla Proofs.Leb128Proofs Proofs.C19_Vla Proofs.C19_Roundtrip.
Import ListNotations.
Open Scope Z_scope.

Theorem C19_layout : forall v, valid_vla v -> vla_marshal v = Ok (vla_layout v).
Proof. exact vla_marshal_layout. Qed.
Print Assumptions C19_layout.

Theorem C19_roundtrip : forall v prev, valid_vla v ->
  vla_unmarshal prev (vla_layout v) = VOk (v, zlen (vla_layout v)).
Proof. exact vla_roundtrip. Qed.
Print Assumptions C19_roundtrip.

(* Marshal loses nothing: two valid allocations with the same encoding are the same allocation *)
Theorem C19_marshal_injective : forall v1 v2 bs, valid_vla v1 -> valid_vla v2 ->
  vla_marshal v1 = Ok bs -> vla_marshal v2 = Ok bs -> v1 = v2.
Proof. exact vla_marshal_injective. Qed.
Print Assumptions C19_marshal_injective.

Theorem C19_total : forall prev bs,
  match vla_unmarshal prev bs with
  | VPanic => False
  | VErr o _ => o <= zlen bs
  | VOk (_, n) => n <= zlen bs
  end.
Proof. exact vla_unmarshal_total. Qed.
Print Assumptions C19_total.

Theorem C19_rejects : forall v, (exists e, vla_marshal v = Err e) <-> ranges_okb v = false.
Proof. exact vla_marshal_rejects. Qed.
Print Assumptions C19_rejects.

Theorem C19_error_kind : forall v e, vla_marshal v = Err e ->
  match e with
  | EVlaStreamCount => v_count v <= 0 \/ 4 < v_count v
  | EVlaStreamID => v_rid v < 0 \/ v_count v <= v_rid v \/
                    exists l, In l (v_layers v) /\ (sl_stream l < 0 \/ v_count v <= sl_stream l)
  | EVlaSpatialID => exists l, In l (v_layers v) /\ (sl_spatial l < 0 \/ 4 <= sl_spatial l)
  | EVlaTemporal => exists l, In l (v_layers v) /\ (zlen (sl_bitrates l) = 0 \/ 4 < zlen (sl_bitrates l))
  | EVlaDuplicate => slots_unique (v_layers v) = false
  | _ => False
  end.
Proof. exact vla_marshal_error_kind. Qed.
Print Assumptions C19_error_kind.

Theorem C19_leb128_inverse : forall v rest, 0 <= v < 18446744073709551616 ->
  read_leb128 (write_leb128 v ++ rest) = Some (v, zlen (write_leb128 v)).
Proof. exact leb128_roundtrip_64. Qed.
Print Assumptions C19_leb128_inverse.

(* Non-vacuity: a valid two-stream allocation is accepted and decodes to itself into a used
   receiver; the rejected shapes are rejected. *)
Definition ex_vla : vla :=
  mkVla 1 2 [mkSLayer 0 0 [100; 200] 320 180 15; mkSLayer 1 1 [70000] 640 360 30] true.
Definition ex_prev : vla := mkVla 3 4 [mkSLayer 2 2 [1; 2; 3] 1 1 1] true.

Example C19_valid_example : valid_vla ex_vla.
Proof.
  unfold valid_vla, ex_vla. cbn [v_count v_rid v_layers v_hasres]. split; [lia|]. split; [lia|]. split.
  - repeat constructor; unfold lt_key, key; cbn; lia.
  - split; [|discriminate]. repeat constructor; unfold tl_ok, rate_ok, res_ok; cbn; lia.
Qed.

Example C19_nonvacuous :
  ranges_okb ex_vla = true /\
  (exists bs, vla_marshal ex_vla = Ok bs /\ vla_unmarshal ex_prev bs = VOk (ex_vla, zlen bs)) /\
  vla_marshal (mkVla 0 5 [] false) = Err EVlaStreamCount /\
  vla_marshal (mkVla 0 1 [mkSLayer 0 0 [1] 0 0 0; mkSLayer 0 0 [2] 0 0 0] false) = Err EVlaDuplicate /\
  vla_unmarshal ex_prev [0] = VErr 1 EVlaShort.
Proof.
  split; [reflexivity|]. split; [exists (match vla_marshal ex_vla with Ok bs => bs | _ => [] end); split; vm_compute; reflexivity|].
  repeat split; vm_compute; reflexivity.
Qed.

(* D19, repaired in /repo: ReadLeb128 used to pack the encoded bytes into a 64-bit accumulator, so a
   bitrate of 2^56 or more (9 or 10 LEB128 bytes) did not survive; it now adds the 7-bit groups up
   directly and valid_vla admits every non-negative Go int (rate_ok: below 2^63). *)
Example C19_large_bitrates_repaired :
  rate_ok 72057594037927936 /\ rate_ok 9223372036854775807 /\
  write_leb128 72057594037927936 = [128; 128; 128; 128; 128; 128; 128; 128; 1] /\
  read_leb128 (write_leb128 72057594037927936) = Some (72057594037927936, 9) /\
  read_leb128 (write_leb128 9223372036854775807) = Some (9223372036854775807, 9) /\
  read_leb128 (write_leb128 18446744073709551615) = Some (18446744073709551615, 10).
Proof. unfold rate_ok. repeat split; try lia; vm_compute; reflexivity. Qed.
