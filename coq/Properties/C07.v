(* C07 - Sequencer is a linearizable 16-bit counter with exact rollover count.
   [seq_next] / [seq_roc] are the two mutex-protected methods as atomic steps; a run of the
   sequencer under any number of concurrent callers is, by mutual exclusion, some sequence of
   such steps: any list of operations, tagged with the calling goroutine or not.  What is proved
   here holds for every such list, hence for every interleaving.  That the Go mutex provides the
   atomicity is assumed (and sampled by the concurrent harness under the race detector). *)
From Coq Require Import ZArith List.
From RTP Require Import Model.Sequencer Proofs.C07_Sequencer.
Import ListNotations.
Open Scope Z_scope.

(* i-th Next of any run: value (E0+1+i) mod 2^16, rollover count (E0+1+i) / 2^16, where
   E0 = roc*65536 + seq of the starting state: no duplicates, no gaps, 65535 is followed by 0 *)
Theorem C07_successive_values : forall ops s, sane s -> roc s + count_next ops < 18446744073709551616 ->
  forall i v r, nth_error (next_trace s ops) i = Some (v, r) ->
  v = (ext s + 1 + Z.of_nat i) mod 65536 /\ r = (ext s + 1 + Z.of_nat i) / 65536.
Proof. exact next_trace_spec. Qed.
Print Assumptions C07_successive_values.

(* RollOverCount returns the number of times 0 has been handed out *)
Theorem C07_rollover_counts_zeros : forall ops s, sane s -> roc s + count_next ops < 18446744073709551616 ->
  Forall (fun '(r, z) => r = roc s + z) (zeros_before s ops).
Proof. exact roc_counts_zeros. Qed.
Print Assumptions C07_rollover_counts_zeros.

(* RollOverCount*65536 + value grows by exactly one per issued number *)
Theorem C07_extended_increasing : forall ops s, sane s -> roc s + count_next ops < 18446744073709551616 ->
  forall i j vi ri vj rj, (i < j)%nat ->
  nth_error (next_trace s ops) i = Some (vi, ri) -> nth_error (next_trace s ops) j = Some (vj, rj) ->
  ri * 65536 + vi + Z.of_nat (j - i) = rj * 65536 + vj.
Proof. exact extended_strictly_increasing. Qed.
Print Assumptions C07_extended_increasing.

(* every schedule of any set of goroutines: each goroutine's results are entries of the global
   trace, and two different calls never receive the same extended value *)
Theorem C07_interleavings_in_trace : forall g sched s x, In x (received g s sched) ->
  exists i, nth_error (next_trace s (map snd sched)) i = Some x.
Proof. exact received_in_trace. Qed.
Print Assumptions C07_interleavings_in_trace.

Theorem C07_interleavings_distinct : forall (sched : list (nat * sop)) s, sane s ->
  roc s + count_next (map snd sched) < 18446744073709551616 ->
  forall i j x y, i <> j ->
  nth_error (next_trace s (map snd sched)) i = Some x -> nth_error (next_trace s (map snd sched)) j = Some y ->
  snd x * 65536 + fst x <> snd y * 65536 + fst y.
Proof. exact no_duplicates_across_goroutines. Qed.
Print Assumptions C07_interleavings_distinct.

(* the 16-bit values themselves, "each successive 16-bit value exactly once": two Nexts fewer than
   65536 issues apart never receive the same 16-bit value, and two Nexts exactly 65536 issues apart
   receive the same value with rollover counts one apart - one lap hands out every value once *)
Theorem C07_window_distinct : forall ops s, sane s -> roc s + count_next ops < 18446744073709551616 ->
  forall i j vi ri vj rj, (i < j)%nat -> Z.of_nat j - Z.of_nat i < 65536 ->
  nth_error (next_trace s ops) i = Some (vi, ri) -> nth_error (next_trace s ops) j = Some (vj, rj) ->
  vi <> vj.
Proof. exact window_distinct. Qed.
Print Assumptions C07_window_distinct.

Theorem C07_window_period : forall ops s, sane s -> roc s + count_next ops < 18446744073709551616 ->
  forall i j vi ri vj rj, Z.of_nat j = Z.of_nat i + 65536 ->
  nth_error (next_trace s ops) i = Some (vi, ri) -> nth_error (next_trace s ops) j = Some (vj, rj) ->
  vj = vi /\ rj = ri + 1.
Proof. exact window_period. Qed.
Print Assumptions C07_window_period.

(* start values: all 65536 fixed starts; the random start is below 2^15 *)
Theorem C07_fixed_start : forall s0, 0 <= s0 < 65536 -> snd (seq_next (new_fixed s0)) = s0 /\ sane (new_fixed s0).
Proof. intros. split; [apply fixed_first_value; assumption|apply new_fixed_sane]. Qed.
Print Assumptions C07_fixed_start.

Theorem C07_random_start : forall draw, 0 <= draw < max_initial_random ->
  1 <= snd (seq_next (new_random draw)) < 32768 /\ sane (new_random draw).
Proof. intros. split; [apply random_first_value; assumption|apply new_random_sane]. Qed.
Print Assumptions C07_random_start.

(* the sequencer shared with a packetizer: a frame of n packets (and a run of n padding packets) draws
   n successive numbers, so a history with such batches is the plain history with the batches spelled
   out - every theorem above applies to it: no gap, no duplicate, rollovers counted wherever a frame
   starts or ends *)
Theorem C07_batches_are_steps : forall l s,
  fst (seq_brun s l) = fst (seq_run s (flatten_bops l)) /\
  concat (snd (seq_brun s l)) = snd (seq_run s (flatten_bops l)).
Proof. exact batches_are_steps. Qed.
Print Assumptions C07_batches_are_steps.

Example C07_frame_starting_at_zero :
  snd (seq_brun (new_fixed 65535) [BOne SNext; BOne SRoc; BTake 4; BOne SRoc; BOne SNext])
  = [[65535]; [0]; [0; 1; 2; 3]; [1]; [4]].
Proof. vm_compute. reflexivity. Qed.

Example C07_nonvacuous :
  snd (seq_run (new_fixed 65534) [SNext; SRoc; SNext; SNext; SRoc; SNext]) = [65534; 0; 65535; 0; 1; 1].
Proof. vm_compute. reflexivity. Qed.
