(* C15 - Stateful depacketizers resynchronise at the next complete frame after loss.
   H264Packet: [item_ok] describes a completely
   delivered frame - payloads that are not FU-A, and FU-A trains that run from their start fragment
   to their end fragment; [after_history] is the receiver after ANY list of earlier payloads
   (every loss subset of every earlier frame, nil, empty and garbage included). *)
From Coq Require Import ZArith List.
From RTP Require Import Base.Res Base.ListX Model.H264 Proofs.C10_H264 Model.Av1Depack Proofs.C15_Av1.
Import ListNotations.
Open Scope Z_scope.

Theorem C15_h264_resync : forall h f avc, Forall item_ok f ->
  out_of (depack (after_history (mkH264Pkt avc []) h) (frame_payloads f))
  = out_of (depack (mkH264Pkt avc []) (frame_payloads f)).
Proof. exact resync_after_any_history. Qed.
Print Assumptions C15_h264_resync.

(* the mechanism: bytes buffered from an abandoned fragment are never prepended to a unit that
   begins with its own start-of-fragment marker *)
Theorem C15_h264_start_fragment_resets : forall avc nri ty fs cs,
  nri = 0 \/ nri = 32 \/ nri = 64 \/ nri = 96 \/ nri = 128 \/ nri = 160 \/ nri = 192 \/ nri = 224 -> 1 <= ty <= 23 ->
  fua_rel (Z.lor 28 nri) ty true fs cs -> forall stale,
  depack (mkH264Pkt avc stale) (map own_bytes fs)
  = Ok (mkH264Pkt avc [], packaging avc [] (Z.lor nri ty :: concat cs)).
Proof. exact depack_fua. Qed.
Print Assumptions C15_h264_start_fragment_resets.

(* non-vacuity: the witness of defect D14 now decodes to the second unit only *)
Example C15_nonvacuous :
  out_of (depack (after_history (mkH264Pkt false []) [Some [124; 133; 170; 187]])
                 [[124; 133; 1; 2]; [124; 69; 3]])
  = Ok [0; 0; 0; 1; 101; 1; 2; 3].
Proof. vm_compute. reflexivity. Qed.

(* AV1Depacketizer: after ANY history, a frame whose first packet does not continue a fragment
   (Z = 0, as every first packet of a payloader call) is decoded exactly as by a fresh receiver -
   same outputs, same errors, same final receiver state *)
Theorem C15_av1_resync : forall h p f st0, starts_fresh p ->
  av1_run (av1_after st0 h) (p :: f) = av1_run st0 (p :: f).
Proof. exact av1_resync. Qed.
Print Assumptions C15_av1_resync.

(* non-vacuity: an abandoned first fragment (Y = 1, never continued), then a complete one-OBU
   packet: the bytes 170 187 of the abandoned fragment do not appear *)
Example C15_av1_nonvacuous :
  starts_fresh [16; 48; 1; 2] /\
  snd (av1_run (av1_after (mkAv1Dep [] false false false) [Some [80; 48; 170; 187]]) [[16; 48; 1; 2]])
  = [Ok [50; 2; 1; 2]] /\
  ad_buffer (av1_after (mkAv1Dep [] false false false) [Some [80; 48; 170; 187]]) = [48; 170; 187].
Proof. split; [reflexivity|]. split; vm_compute; reflexivity. Qed.
