(* C15 - Stateful depacketizers resynchronise at the next complete frame after loss.
   H264Packet: [item_ok] describes a completely
   delivered frame - payloads that are not FU-A, and FU-A trains that run from their start fragment
   to their end fragment; [after_history] is the receiver after ANY list of earlier payloads
   (every loss subset of every earlier frame, nil, empty and garbage included). *)
From Coq Require Import ZArith List.
From RTP Require Import Base.Res Base.ListX Model.H264 Proofs.C10_H264 Model.Av1Depack Proofs.C15_Av1.
Import ListNotations.
Open Scope Z_scope.

Theorem C15_h264_resync : forall h f avc, Forall item_ok f ->
  out_of (depack (after_history (mkH264Pkt avc []) h) (frame_payloads f))
  = out_of (depack (mkH264Pkt avc []) (frame_payloads f)).
Proof. exact resync_after_any_history. Qed.
Print Assumptions C15_h264_resync.

(* the mechanism: bytes buffered from an abandoned fragment are never prepended to a unit that
   begins with its own start-of-fragment marker *)
Theorem C15_h264_start_fragment_resets : forall avc nri ty fs cs,
  nri = 0 \/ nri = 32 \/ nri = 64 \/ nri = 96 \/ nri = 128 \/ nri = 160 \/ nri = 192 \/ nri = 224 -> 1 <= ty <= 23 ->
  fua_rel (Z.lor 28 nri) ty true fs cs -> forall stale,
  depack (mkH264Pkt avc stale) (map own_bytes fs)
  = Ok (mkH264Pkt avc [], packaging avc [] (Z.lor nri ty :: concat cs)).
Proof. exact depack_fua. Qed.
Print Assumptions C15_h264_start_fragment_resets.

(* non-vacuity: the witness of defect D14 now decodes to the second unit only *)
Example C15_nonvacuous :
  out_of (depack (after_history (mkH264Pkt false []) [Some [124; 133; 170; 187]])
                 [[124; 133; 1; 2]; [124; 69; 3]])
  = Ok [0; 0; 0; 1; 101; 1; 2; 3].
Proof. vm_compute. reflexivity. Qed.

(* AV1Depacketizer: after ANY history, a frame whose first packet does not continue a fragment
   (Z = 0, as every first packet of a payloader call) is decoded exactly as by a fresh receiver -
   same outputs, same errors, same final receiver state *)
Theorem C15_av1_resync : forall h p f st0, starts_fresh p ->
  av1_run (av1_after st0 h) (p :: f) = av1_run st0 (p :: f).
Proof. exact av1_resync. Qed.
Print Assumptions C15_av1_resync.

(* the other reset the anchor names (N = 1): a frame that opens a new coded video sequence is decoded as by
   a fresh receiver after any history, even when its first packet claims (Z = 1) to continue a fragment *)
Theorem C15_av1_resync_sequence : forall h p f st0, starts_sequence p ->
  av1_run (av1_after st0 h) (p :: f) = av1_run st0 (p :: f).
Proof. exact av1_resync_sequence. Qed.
Print Assumptions C15_av1_resync_sequence.

(* nothing but the carried fragment links one packet to the next: the flags Z, Y, N the receiver shows are
   outputs only, so two receivers holding the same fragment decode every further packet sequence alike *)
Theorem C15_av1_state_is_buffer : forall ps st1 st2, ad_buffer st1 = ad_buffer st2 ->
  snd (av1_run st1 ps) = snd (av1_run st2 ps) /\
  ad_buffer (fst (av1_run st1 ps)) = ad_buffer (fst (av1_run st2 ps)).
Proof. exact av1_run_state_is_buffer. Qed.
Print Assumptions C15_av1_state_is_buffer.

(* N = 1 and Z = 1 (W = 2) after an abandoned fragment: the stale bytes 170 187 are dropped, the orphan
   continuation 1 2 is skipped, the second element decodes; without the N bit (160) the stale bytes
   would be glued to the continuation *)
Example C15_av1_sequence_nonvacuous :
  starts_sequence [168; 2; 1; 2; 48; 7] /\
  snd (av1_run (av1_after (mkAv1Dep [] false false false) [Some [80; 48; 170; 187]]) [[168; 2; 1; 2; 48; 7]])
  = [Ok [50; 1; 7]] /\
  snd (av1_run (av1_after (mkAv1Dep [] false false false) [Some [80; 48; 170; 187]]) [[160; 2; 1; 2; 48; 7]])
  = [Ok [50; 4; 170; 187; 1; 2; 50; 1; 7]].
Proof. split; [cbn; discriminate|split; vm_compute; reflexivity]. Qed.

(* non-vacuity: an abandoned first fragment (Y = 1, never continued), then a complete one-OBU
   packet: the bytes 170 187 of the abandoned fragment do not appear *)
Example C15_av1_nonvacuous :
  starts_fresh [16; 48; 1; 2] /\
  snd (av1_run (av1_after (mkAv1Dep [] false false false) [Some [80; 48; 170; 187]]) [[16; 48; 1; 2]])
  = [Ok [50; 2; 1; 2]] /\
  ad_buffer (av1_after (mkAv1Dep [] false false false) [Some [80; 48; 170; 187]]) = [48; 170; 187].
Proof. split; [reflexivity|]. split; vm_compute; reflexivity. Qed.
