(* C06 - Packetizer emits a valid, MTU-bounded, correctly numbered packet train.
   The payloader is an arbitrary function [pay]; the clock instant is an argument.  [ext s] is the
   extended sequence value roc*65536 + seq of the sequencer (C07): packet k of a call carries
   (ext + 1 + k) mod 2^16, and the state after the call is ext + number of packets, so numbering
   continues across calls, including GeneratePadding and calls that return nothing.
   C06_abs_send_time: with the extension enabled the train is the same except that its last
   packet carries one element (id, 24-bit 6.18 send time) - one-byte profile for ids 1-14, two-byte
   profile for ids 15-255 - and C06_mtu_abs: it still serialises to at most MTU bytes (the budget
   accounts for the form the id requires; D24).  C06_history: over any
   sequence of Packetize / GeneratePadding / SkipSamples / EnableAbsSendTime calls every call
   numbers its packets from the state's extended value + 1 and advances the state by exactly the
   numbers it took (also when it returns nothing). *)
From Coq Require Import ZArith List.
From RTP Require Import Base.Bits Base.ListX Model.RtpPacket Model.Sequencer Model.Packetizer
  Proofs.C07_Sequencer Proofs.C01_Roundtrip Proofs.C06_Packetizer Proofs.C06_Abs.
Import ListNotations.
Open Scope Z_scope.

Theorem C06_packetize : forall pay p payload samples now, sane (pz_seq p) -> payload <> [] ->
  let frags := pay (pz_budget p) payload in
  roc (pz_seq p) + zlen frags < 18446744073709551616 ->
  let '(p', pkts) := packetize pay p payload samples now in
  sane (pz_seq p') /\ ext (pz_seq p') = ext (pz_seq p) + zlen frags /\
  pz_ts p' = (pz_ts p + samples) mod 4294967296 /\
  pz_mtu p' = pz_mtu p /\ pz_pt p' = pz_pt p /\ pz_ssrc p' = pz_ssrc p /\ pz_abs p' = pz_abs p /\
  (pz_abs p = 0 -> pkts = expected_train p (ext (pz_seq p)) frags).
Proof. exact packetize_numbering. Qed.
Print Assumptions C06_packetize.

(* what "expected_train" means, packet by packet *)
Theorem C06_train : forall frags p e k pk, nth_error (expected_train p e frags) k = Some pk ->
  exists f, nth_error frags k = Some f /\ payload pk = f /\ padding_size pk = 0 /\
    sequence_number (hdr pk) = (e + 1 + Z.of_nat k) mod 65536 /\ timestamp (hdr pk) = pz_ts p /\
    ssrc (hdr pk) = pz_ssrc p /\ payload_type (hdr pk) = pz_pt p /\ version (hdr pk) = 2 /\
    marker (hdr pk) = Nat.eqb (S k) (length frags) /\ extension (hdr pk) = false /\ padding (hdr pk) = false.
Proof. exact expected_train_nth. Qed.
Print Assumptions C06_train.

(* if the payloader honours its budget, every packet serialises to at most 12 + budget bytes *)
Theorem C06_mtu : forall p e frags budget, Forall (fun f => zlen f <= budget) frags ->
  Forall (fun pk => packet_marshal_size pk <= 12 + budget) (expected_train p e frags).
Proof. exact train_within_mtu. Qed.
Print Assumptions C06_mtu.

Theorem C06_skip_enable : forall p n v,
  pz_ts (skip_samples p n) = (pz_ts p + n) mod 4294967296 /\ pz_seq (skip_samples p n) = pz_seq p /\
  pz_ts (enable_abs_send_time p v) = pz_ts p /\ pz_seq (enable_abs_send_time p v) = pz_seq p /\
  pz_abs (enable_abs_send_time p v) = v.
Proof. exact skip_and_enable. Qed.
Print Assumptions C06_skip_enable.

(* GeneratePadding(n): n packets continuing the numbering, current timestamp, P bit, 255 bytes of padding *)
Theorem C06_padding : forall n p s, sane s -> roc s + Z.of_nat n < 18446744073709551616 ->
  let '(s', pkts) := padding_packets p s n in
  sane s' /\ ext s' = ext s + Z.of_nat n /\ length pkts = n /\
  forall k pk, nth_error pkts k = Some pk ->
    pk = mkPacket (mkHeader 2 true false false (pz_pt p) ((ext s + 1 + Z.of_nat k) mod 65536) (pz_ts p) (pz_ssrc p) [] 0 []) [] 255.
Proof. exact padding_packets_spec. Qed.
Print Assumptions C06_padding.

(* ... each of which is a well-formed packet, hence (C01) serialises and parses back equal *)
Theorem C06_padding_valid : forall pt sq ts ss, 0 <= pt < 128 -> 0 <= sq < 65536 ->
  0 <= ts < 4294967296 -> 0 <= ss < 4294967296 ->
  wf_packet (mkPacket (mkHeader 2 true false false pt sq ts ss [] 0 []) [] 255).
Proof. exact padding_packet_wf. Qed.
Print Assumptions C06_padding_valid.

Theorem C06_abs_send_time : forall pay p payload samples now, sane (pz_seq p) -> payload <> [] ->
  1 <= pz_abs p <= 255 ->
  let frags := pay (pz_budget p) payload in
  frags <> [] -> roc (pz_seq p) + zlen frags < 18446744073709551616 ->
  exists init lastp,
    expected_train p (ext (pz_seq p)) frags = init ++ [lastp] /\
    snd (packetize pay p payload samples now) = init ++ [with_abs (pz_abs p) (abs_bytes now) lastp].
Proof. exact packetize_abs. Qed.
Print Assumptions C06_abs_send_time.

(* ... and the train stays within the MTU with the extension on its last packet, in the one-byte
   form (ids 1-14: 8 more bytes) as in the two-byte form (ids 15-255: 12 more bytes): the budget
   handed to the payloader is MTU - abs_overhead id, and the last packet grows by abs_overhead id - 12 *)
Theorem C06_mtu_abs : forall p e frags id b mtu, 1 <= id <= 255 -> zlen b = 3 ->
  Forall (fun f => zlen f <= mtu - abs_overhead id) frags ->
  forall init lastp, expected_train p e frags = init ++ [lastp] ->
  Forall (fun pk => packet_marshal_size pk <= mtu) (init ++ [with_abs id b lastp]).
Proof. exact train_abs_within_mtu. Qed.
Print Assumptions C06_mtu_abs.

(* "... and MTU": EVERY MTU, also one that leaves no room behind the header (12 bytes; 20 or 24 with the
   abs-send-time block).  [pz_budget] is what Packetize offers the payloader: MTU less the header, and 0 - not
   the uint16 wrap-around of the difference, as before the repair of D37 - when the MTU is smaller than that.
   A payloader that honours the offer (fragments of 1 .. budget bytes, so none when there is no room) gives a
   train whose every packet serialises to at most MTU bytes. *)
Theorem C06_every_mtu : forall p e frags, pz_abs p = 0 ->
  Forall (fun f => 1 <= zlen f <= pz_budget p) frags ->
  Forall (fun pk => packet_marshal_size pk <= pz_mtu p) (expected_train p e frags).
Proof. exact train_within_every_mtu. Qed.
Print Assumptions C06_every_mtu.

Theorem C06_every_mtu_abs : forall p e frags b, 1 <= pz_abs p <= 255 -> zlen b = 3 ->
  Forall (fun f => 1 <= zlen f <= pz_budget p) frags ->
  frags = [] \/
  exists init lastp, expected_train p e frags = init ++ [lastp] /\
    Forall (fun pk => packet_marshal_size pk <= pz_mtu p) (init ++ [with_abs (pz_abs p) b lastp]).
Proof. exact train_abs_within_every_mtu. Qed.
Print Assumptions C06_every_mtu_abs.

Example C06_no_room_repaired :
  pz_budget (mkPktz 11 96 1 0 0 (new_fixed 1)) = 0 /\ pz_budget (mkPktz 19 96 1 0 3 (new_fixed 1)) = 0 /\
  pz_budget (mkPktz 23 96 1 0 200 (new_fixed 1)) = 0 /\ pz_budget (mkPktz 21 96 1 0 3 (new_fixed 1)) = 1.
Proof. vm_compute. repeat split. Qed.

(* "... and parses back equal": every packet of a train is a well-formed packet in the sense of C01,
   with the abs-send-time element on its last packet in either form, so C01_packet_roundtrip applies
   (payload type below 128, timestamp and SSRC 32-bit: pktz_ok) *)
Theorem C06_train_wf : forall p, pktz_ok p -> forall frags e, Forall wf_packet (expected_train p e frags).
Proof. exact train_wf. Qed.
Print Assumptions C06_train_wf.

Theorem C06_train_abs_wf : forall p e frags id b, pktz_ok p -> 1 <= id <= 255 -> zlen b = 3 ->
  forall init lastp, expected_train p e frags = init ++ [lastp] ->
  Forall wf_packet (init ++ [with_abs id b lastp]).
Proof. exact train_abs_wf. Qed.
Print Assumptions C06_train_abs_wf.

Example C06_abs_overhead_values : abs_overhead 0 = 12 /\ abs_overhead 14 = 20 /\ abs_overhead 15 = 24 /\ abs_overhead 255 = 24.
Proof. repeat split. Qed.

Theorem C06_history : forall pay ops p, sane (pz_seq p) -> bounded pay p ops -> history_ok pay p ops.
Proof. exact history_numbering. Qed.
Print Assumptions C06_history.

(* timestamps over whole histories: the state's timestamp - which every packet of the next call
   carries (C06_train) - is the initial one plus the sample counts of all earlier Packetize calls
   with a non-empty payload (also those for which the payloader returned nothing) plus all skipped
   samples, modulo 2^32; GeneratePadding and EnableAbsSendTime do not move it *)
Theorem C06_history_timestamp : forall pay ops p, ts_ok p ->
  pz_ts (run_ops pay p ops) = (pz_ts p + fold_right Z.add 0 (map ts_delta ops)) mod 4294967296.
Proof. exact history_timestamp. Qed.
Print Assumptions C06_history_timestamp.

(* the one-step meaning of history_ok, spelled out *)
Theorem C06_step : forall pay p o, sane (pz_seq p) -> roc (pz_seq p) + consumed pay p o < 18446744073709551616 ->
  let '(p1, out) := pstep pay p o in
  sane (pz_seq p1) /\ ext (pz_seq p1) = ext (pz_seq p) + consumed pay p o /\ zlen out <= consumed pay p o /\
  (forall k pk, nth_error out k = Some pk ->
     sequence_number (hdr pk) = (ext (pz_seq p) + 1 + Z.of_nat k) mod 65536).
Proof. exact step_numbering. Qed.
Print Assumptions C06_step.
