(* C08 — Payloaders respect the MTU, never panic, and neither modify nor retain the input.
   Proved for all eight payloaders (G711, G722, Opus, VP8, VP9, H264, H265, AV1), for every MTU,
   every input and every payloader state / option setting: Payload returns (no panic; for the
   fuel-modelled loops this is the termination proof), every fragment is 1..MTU bytes long and is
   an owned copy ([Own]: independent of every caller buffer, Base/Own.v resolve_own; the AV1 model
   builds its packets as fresh values throughout).  Opus ignores the MTU by specification.
   Outside the model, checked on the implementation by the harness with guarded and checksummed
   input buffers: that the caller's buffer is not written to. *)
From Coq Require Import ZArith List Lia Bool.
From RTP Require Import Base.Res Base.ListX Base.Own Model.Audio Model.Vp8 Model.H264 Model.Vp9Header Model.Vp9 Proofs.C16_Audio Proofs.C08_Mtu Proofs.C08_More Proofs.C12_Bits Proofs.C12_HeaderTotal Model.Av1Pay Proofs.C08_Av1 Model.H265 Proofs.C08_H265.
Import ListNotations.
Open Scope Z_scope.

Theorem C08_g711 : forall mtu p, 0 <= mtu ->
  g711_payload mtu p <> Panic /\
  forall fs, g711_payload mtu p = Ok fs ->
    forallb is_own fs = true /\ Forall (fun f => frag_len f <= mtu) fs /\
    (forall l, p = Some l -> l <> [] -> Forall (fun f => 1 <= frag_len f) fs /\ (1 <= mtu -> fs <> [])).
Proof. exact g711_frags_ok. Qed.
Print Assumptions C08_g711.

Theorem C08_g722 : forall mtu p, 0 <= mtu ->
  g722_payload mtu p <> Panic /\
  forall fs, g722_payload mtu p = Ok fs ->
    forallb is_own fs = true /\ Forall (fun f => frag_len f <= mtu) fs /\
    (forall l, p = Some l -> l <> [] -> Forall (fun f => 1 <= frag_len f) fs /\ (1 <= mtu -> fs <> [])).
Proof. exact g711_frags_ok. Qed.
Print Assumptions C08_g722.

Theorem C08_opus : forall mtu p, opus_payload mtu (Some p) = Ok [Own p].
Proof. exact opus_payload_spec. Qed.
Print Assumptions C08_opus.

Theorem C08_vp8 : forall st mtu p,
  vp8_payload st mtu p <> Panic /\
  forall st' fs, vp8_payload st mtu p = Ok (st', fs) ->
    frags_ok mtu fs /\ ((exists l, p = Some l /\ l <> []) -> vp8_header_size st < mtu -> fs <> []).
Proof. exact vp8_frags_ok. Qed.
Print Assumptions C08_vp8.

(* held_ok: the parameter sets a payloader holds are never empty (it ignores empty units); true of a
   fresh payloader and preserved by every call, so the statement covers every reachable state *)
Theorem C08_h264 : forall st mtu p, held_ok st ->
  exists st' fs, h264_payload st mtu p = Ok (st', fs) /\ frags_ok mtu fs /\ held_ok st'.
Proof. exact h264_frags_ok. Qed.
Print Assumptions C08_h264.

Theorem C08_h264_fresh : forall d, held_ok (mkH264Pay d None None).
Proof. exact held_ok_fresh. Qed.
Print Assumptions C08_h264_fresh.

Theorem C08_vp9 : forall st init mtu p, bytes (match p with Some l => l | None => [] end) ->
  exists st' fs, vp9_payload st init mtu p = Ok (st', fs) /\ frags_ok mtu fs.
Proof. intros st init mtu p Hb. apply vp9_frags_ok. intros _. apply vp9_header_unmarshal_total. exact Hb. Qed.
Print Assumptions C08_vp9.

Theorem C08_h265 : forall st mtu p, 0 <= mtu ->
  exists st' fs, h265_payload st mtu p = Ok (st', fs) /\ frags_ok mtu fs.
Proof. exact h265_frags_ok. Qed.
Print Assumptions C08_h265.

(* AV1: terminates (every fragment written is at least one byte long) and every packet is
   1..MTU bytes, for every input and every MTU below 2^21 (the API's MTU is 16 bits) *)
Theorem C08_av1 : forall mtu payload, mtu < 2097152 ->
  exists ps, av1_payload mtu payload = Ok ps /\ pays_ok mtu ps.
Proof. exact av1_payload_ok. Qed.
Print Assumptions C08_av1.

(* owned fragments cannot change when a caller buffer is overwritten afterwards *)
Theorem C08_owned_is_independent : forall st st' fs, forallb is_own fs = true ->
  map (resolve st) fs = map (resolve st') fs.
Proof. exact resolve_all_own. Qed.
Print Assumptions C08_owned_is_independent.

Example C08_nonvacuous :
  (exists fs, g711_payload 3 (Some [1; 2; 3; 4; 5; 6; 7]) = Ok fs /\ length fs = 3%nat) /\
  (exists st' fs, vp8_payload (mkVp8Pay true 200) 6 (Some [1; 2; 3; 4; 5]) = Ok (st', fs) /\ length fs = 3%nat).
Proof. split; [eexists; split; reflexivity|eexists; eexists; split; reflexivity]. Qed.
