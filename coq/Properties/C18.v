(* C18 - NTP time mapping and send-time estimation recover the original instant.
   Instants are int64 nanoseconds since the Unix epoch (time.Time.UnixNano); [in_era u] says
   1970-01-01 <= u < end of NTP era 0 (2036). *)
From Coq Require Import ZArith.
From Coq Require Import List.
From RTP Require Import Base.Res Model.ExtCodecs Model.Ntp Proofs.C18_Ntp Proofs.C18_Wire.
Open Scope Z_scope.

Theorem C18_capture : forall u, in_era u ->
  0 <= u - capture_time (new_abs_capture_time u) <= 1.
Proof. exact capture_roundtrip. Qed.
Print Assumptions C18_capture.

(* delay in [0, 64 s - 2^-18 s): the estimate is the send instant within one field quantum
   (3815 ns) plus the 1 ns of the conversion, across 64 s wraps of the 24-bit field *)
(* only the SEND instant is restricted to the era: a packet sent in its last 64 seconds may arrive after
   its end, where toNtpTime wraps modulo 2^64 - Estimate looks at differences only and is not disturbed *)
Theorem C18_estimate : forall send delay,
  in_era send -> 0 <= delay <= max_delay ->
  0 <= send - estimate (new_abs_send_time send) (send + delay) <= 3816.
Proof. exact estimate_recovers_any. Qed.
Print Assumptions C18_estimate.

(* "applied to the 24-bit abs-send-time of the send instant": the same through the wire form - what a
   receiver holds after Marshal / Unmarshal of NewAbsSendTimeExtension(send), whatever its struct held
   before, is the low 24 bits of the sender's 50-bit value, and Estimate on it recovers the send instant *)
Theorem C18_estimate_over_the_wire : forall send delay prev,
  in_era send -> 0 <= delay <= max_delay ->
  exists bs got, abs_send_marshal (new_abs_send_time send) = Ok bs /\ length bs = 3%nat /\
    abs_send_unmarshal prev bs = Ok got /\ got = new_abs_send_time send mod 16777216 /\
    0 <= send - estimate got (send + delay) <= 3816.
Proof. exact estimate_over_the_wire. Qed.
Print Assumptions C18_estimate_over_the_wire.

Theorem C18_offset : forall u d, - offset_limit < d < offset_limit ->
  exists back, offset_duration (new_abs_capture_time_with_offset u d) = Some back /\
               Z.abs (d - back) <= 1 /\ (0 < d -> 0 <= back) /\ (d < 0 -> back <= 0) /\ (d = 0 -> back = 0).
Proof. exact offset_roundtrip. Qed.
Print Assumptions C18_offset.

(* non-vacuity: an instant one nanosecond before a 64 s wrap, received 63.9 s later *)
(* sent in the last nanosecond of the era (2036-02-07 06:28:15.999999999), received 63.9 s later *)
Example C18_estimate_past_era_end :
  in_era 2085978495999999999 /\ ~ in_era (2085978495999999999 + 63900000000) /\
  estimate (new_abs_send_time 2085978495999999999) (2085978495999999999 + 63900000000) = 2085978495999996185.
Proof.
  unfold in_era, ntp_epoch_offset. split; [split; [vm_compute; congruence|vm_compute; reflexivity]|].
  split; [intros [_ H]; vm_compute in H; discriminate H|vm_compute; reflexivity].
Qed.

(* the bound is the largest whole number of nanoseconds below 64 s - 2^-18 s (63999996185.3 ns) and is itself
   admitted; there the error reaches the resolution of the field: 3815 ns (2^-18 s = 3814.7 ns) *)
Example C18_estimate_at_the_bound :
  max_delay = 63999996185 /\
  1436164031999996185 - estimate (new_abs_send_time 1436164031999996185) (1436164031999996185 + max_delay) = 3815.
Proof. split; vm_compute; reflexivity. Qed.

Example C18_nonvacuous :
  in_era 1700000063999999999 /\ in_era (1700000063999999999 + 63900000000) /\
  estimate (new_abs_send_time 1700000063999999999) (1700000063999999999 + 63900000000) = 1700000063999996185.
Proof. unfold in_era, ntp_epoch_offset. repeat split; try (vm_compute; congruence); vm_compute; reflexivity. Qed.
