(* C09 - Depacketizers are panic-free, reuse-safe and own the state they retain.
   Theorems closed so far: totality of H264Packet, H265Packet, VP8Packet, VP9Packet and OpusPacket
   from every receiver state and on every input (nil and empty included), receiver-independence of
   the per-packet formats.  In preparation: the same for AV1Depacketizer / AV1Packet + frame
   assembler.  Totality from EVERY state, not only reachable ones, makes the statement for all
   finite sequences and all interleavings of Unmarshal / IsPartitionHead / IsPartitionTail an
   immediate induction; the partition predicates are total functions of their argument. *)
From Coq Require Import ZArith List.
From RTP Require Import Base.Res Base.ListX Model.H264 Model.H265 Model.Vp8 Model.Vp9 Model.Audio
  Proofs.C09_Total Proofs.C11_Vp8.
Import ListNotations.
From RTP Require Import Model.Av1Depack Model.Av1Legacy Proofs.C09_Av1.
Open Scope Z_scope.

Theorem C09_total_h264 : forall st x, h264_unmarshal st x <> Panic.
Proof. exact h264_unmarshal_total. Qed.
Print Assumptions C09_total_h264.

Theorem C09_total_h265 : forall donl x, h265_unmarshal donl x <> Panic.
Proof. exact h265_unmarshal_total. Qed.
Print Assumptions C09_total_h265.

Theorem C09_total_vp8 : forall prev x, vp8_unmarshal prev x <> Panic.
Proof. exact vp8_unmarshal_total. Qed.
Print Assumptions C09_total_vp8.

Theorem C09_total_vp9 : forall prev x, vp9_unmarshal prev x <> Panic.
Proof. exact vp9_unmarshal_total. Qed.
Print Assumptions C09_total_vp9.

Theorem C09_total_opus : forall x, opus_unmarshal x <> Panic.
Proof. exact opus_unmarshal_total. Qed.
Print Assumptions C09_total_opus.

(* per-packet formats: a reused receiver gives the same result and metadata as a fresh one
   (H265Packet builds a new structure per call: its model takes no receiver at all) *)
Theorem C09_reuse_vp8 : forall prev prev' x, vp8_unmarshal prev x = vp8_unmarshal prev' x.
Proof. exact vp8_unmarshal_reuse. Qed.
Print Assumptions C09_reuse_vp8.

Theorem C09_reuse_vp9 : forall prev prev' x, vp9_unmarshal prev x = vp9_unmarshal prev' x.
Proof. exact vp9_unmarshal_reuse. Qed.
Print Assumptions C09_reuse_vp9.

(* AV1: the depacketizer and the deprecated AV1Packet parser, on arbitrary bytes and from any
   receiver state (the new receiver state is the first component) *)
Theorem C09_total_av1_depacketizer : forall st p, snd (av1d_unmarshal st p) <> Panic.
Proof. exact av1d_unmarshal_total. Qed.
Print Assumptions C09_total_av1_depacketizer.

Theorem C09_total_av1_packet : forall prev p, snd (av1p_unmarshal prev p) <> Panic.
Proof. exact av1p_unmarshal_total. Qed.
Print Assumptions C09_total_av1_packet.
