(* C13 — AV1: what is proved so far.
   Proved: LEB128 write/read are mutually inverse (for every value below 2^56, which contains
   the 0..2^32-1 of the property) and ReadLeb128 never reports more bytes than it was given;
   OBU header parse/marshal are mutually inverse in both directions (complete enumerations,
   bounds in the statements); two of the aggregation rules for every input and MTU: every
   packet is 1..MTU bytes long (with termination of the payloader), and Z of each packet equals Y
   of the packet before it, the first packet has Z = 0 and the last has Y = 0.
   C13_depack_sem_partial: the depacketizer against the aggregation-header semantics for
   unfragmented packets (Z = 0, Y = 0; W = 1..3 complete OBUs with all but the last length-prefixed,
   or W = 0 with every OBU length-prefixed):
   the same OBUs come out with their size fields restored, in order, whatever the receiver held.
   C13_lossless_partial: end to end for small temporal units - one to three OBUs (no extension
   header; not a sequence header, temporal delimiter or tile list) that fit one packet together
   are sent as exactly one packet with W = their number, and the depacketizer, whatever it held,
   returns the caller's bytes.
   C13_rule_w_partial: W equals the number of elements (1..3) or is 0 with every element
   length-prefixed, and no element is empty - for every input and MTU.
   The general statements, closed during the build, are in the second half of this file and subsume
   the _partial ones: C13_depack_sem (decoder = aggregation-header semantics for any well-chained
   packet sequence), C13_lossless / C13_lossless_unsized_last (payloader + depacketizer end to end
   for every OBU sequence and MTU; the transmitted elements are the OBUs with the size flag
   cleared), C13_legacy_sem / C13_lossless_legacy (the deprecated AV1Packet + frame assembler path),
   C13_rule_layers / C13_rule_layers_unsized_last (OBUs with different temporal or spatial ids never
   share a packet; a sequence header is first in its packet; packets do not span temporal
   delimiters).  Nothing of the property's text is left to the correspondence check alone. *)
From Coq Require Import ZArith List Lia Bool.
From RTP Require Import Base.Res Base.ListX Model.Leb128 Model.Obu Proofs.Leb128Proofs Proofs.C13_Obu Model.Av1Pay Proofs.C08_Av1 Proofs.C13_ZY Model.Av1Depack Proofs.C13_Depack Proofs.C13_Small Proofs.C13_DepackW0 Model.Av1Legacy Proofs.C13_Legacy Proofs.C13_W Proofs.C15_Av1 Proofs.C13_Frag Proofs.C13_Big.
Import ListNotations.
Open Scope Z_scope.

Theorem C13_leb128 : forall v rest, 0 <= v < 4294967296 ->
  read_leb128 (write_leb128 v ++ rest) = Some (v, zlen (write_leb128 v)).
Proof. exact leb128_roundtrip_u32. Qed.
Print Assumptions C13_leb128.

(* ... and on every uint (since the repair of D19 ReadLeb128 reads back whatever WriteToLeb128 writes) *)
Theorem C13_leb128_64 : forall v rest, 0 <= v < 18446744073709551616 ->
  read_leb128 (write_leb128 v ++ rest) = Some (v, zlen (write_leb128 v)).
Proof. exact leb128_roundtrip_64. Qed.
Print Assumptions C13_leb128_64.

(* EncodeLEB128 packs exactly those bytes, first byte most significant, into one 64-bit uint - for
   every value that needs at most eight LEB128 bytes (below 2^56) *)
From RTP Require Import Proofs.Leb128Pack.
Theorem C13_leb128_packed : forall v, 0 <= v < 72057594037927936 ->
  encode_leb128 v = be256 (write_leb128 v) 0 /\ (length (write_leb128 v) <= 8)%nat.
Proof. exact encode_leb128_packs. Qed.
Print Assumptions C13_leb128_packed.

Theorem C13_leb128_length : forall v, 0 <= v < 4294967296 -> 1 <= zlen (write_leb128 v) <= 5.
Proof. exact leb128_length_u32. Qed.
Print Assumptions C13_leb128_length.

Theorem C13_leb128_read_bounds : forall l v n, read_leb128 l = Some (v, n) -> 0 < n <= zlen l.
Proof. exact read_leb128_bounds. Qed.
Print Assumptions C13_leb128_read_bounds.

Theorem C13_obu_parse_marshal : forall h rest, hdr_in_range h ->
  parse_obu_header (obu_hdr_marshal h ++ rest) = Some h /\ zlen (obu_hdr_marshal h) = obu_hdr_size h.
Proof. exact obu_parse_marshal. Qed.
Print Assumptions C13_obu_parse_marshal.

Theorem C13_obu_marshal_parse : forall b0 b1 rest, 0 <= b0 < 256 -> 0 <= b1 < 256 ->
  match parse_obu_header (b0 :: b1 :: rest) with
  | Some h => obu_hdr_marshal h = firstn (Z.to_nat (obu_hdr_size h)) [b0; b1]
  | None => 128 <= b0
  end.
Proof. exact obu_marshal_parse. Qed.
Print Assumptions C13_obu_marshal_parse.

(* rule: continuation flags chain.  [zy_inv] is stated on the packets newest first: each
   packet's Z equals the Y of the one sent before it, the first sent has Z = 0, the last Y = 0 *)
Theorem C13_rule_zy_partial : forall mtu payload ps, av1_payload mtu payload = Ok ps -> zy_inv (rev ps).
Proof. exact av1_payload_zy. Qed.
Print Assumptions C13_rule_zy_partial.

(* rule: W and the element structure.  wf_agg p: either W = 0 and the packet is a header followed
   by length-prefixed non-empty elements only, or W = 1..3 and it is W-1 length-prefixed non-empty
   elements followed by one non-empty element that runs to the end of the packet *)
Theorem C13_rule_w_partial : forall mtu payload ps, mtu < 2097152 ->
  av1_payload mtu payload = Ok ps -> Forall wf_agg ps.
Proof. exact av1_payload_w. Qed.
Print Assumptions C13_rule_w_partial.

(* rule: every payload is 1..MTU bytes, and the payloader returns for every input *)
Theorem C13_rule_size_partial : forall mtu payload, mtu < 2097152 ->
  exists ps, av1_payload mtu payload = Ok ps /\ pays_ok mtu ps.
Proof. exact av1_payload_ok. Qed.
Print Assumptions C13_rule_size_partial.

Theorem C13_depack_sem_partial : forall st n es, (1 <= length es <= 3)%nat -> Forall wf_sobu es ->
  av1d_unmarshal st (Some (enc_packet n es))
  = (mkAv1Dep [] false false n, Ok (concat (map delivered es))).
Proof. exact depack_unfragmented. Qed.
Print Assumptions C13_depack_sem_partial.

(* ... and the W = 0 form: any number of complete OBUs, every one length-prefixed *)
Theorem C13_depack_sem_w0_partial : forall st n es, es <> [] -> Forall wf_sobu es ->
  av1d_unmarshal st (Some (enc_packet0 n es))
  = (mkAv1Dep [] false false n, Ok (concat (map delivered es))).
Proof. exact depack_unfragmented_w0. Qed.
Print Assumptions C13_depack_sem_w0_partial.

(* the deprecated receive path: AV1Packet splits the same packets into exactly their elements and
   the frame assembler hands them out unchanged *)
Theorem C13_legacy_sem_partial : forall n es buffer, (1 <= length es <= 3)%nat -> Forall wf_sobu es ->
  exists pkt, av1p_unmarshal (mkAv1Pkt false false 0 false None) (Some (enc_packet n es))
              = (pkt, Ok (elems_bytes es)) /\
    ap_elems pkt = Some (map elem es) /\ ap_z pkt = false /\ ap_y pkt = false /\ ap_w pkt = zlen es /\ ap_n pkt = n /\
    read_frames buffer pkt = (buffer, map elem es).
Proof. exact legacy_unfragmented. Qed.
Print Assumptions C13_legacy_sem_partial.

(* a fragmented OBU: one fragment per packet (W = 1), Y on all but the last, Z on all but the first;
   nothing is delivered until the last fragment arrives, then the OBU comes out once, complete, with
   its size field - from any receiver state *)
Theorem C13_depack_fragmented_partial : forall st o f1 mid fl, wf_sobu o -> f1 <> [] ->
  Forall (fun f => f <> []) mid -> fl <> [] -> f1 ++ concat mid ++ fl = elem o ->
  snd (av1_run st ((80 :: f1) :: map (cons 208) mid ++ [144 :: fl]))
  = Ok [] :: map (fun _ => Ok []) mid ++ [Ok (delivered o)].
Proof. exact depack_fragmented. Qed.
Print Assumptions C13_depack_fragmented_partial.

Theorem C13_lossless_partial : forall mtu es st, 2 <= mtu < 2097152 -> (1 <= length es <= 3)%nat ->
  Forall small_obu es -> 1 + zlen (elems_bytes es) <= mtu ->
  exists pkt, av1_payload mtu (concat (map in_bytes es)) = Ok [pkt] /\
    snd (av1d_unmarshal st (Some pkt)) = Ok (concat (map in_bytes es)).
Proof. exact small_unit_lossless. Qed.
Print Assumptions C13_lossless_partial.

(* end to end for one large OBU (no extension header; not a sequence header, temporal delimiter or
   tile list) that does not fit one packet: a chain of single-fragment packets of at most MTU bytes,
   W = 1, Y on all but the last, Z on all but the first; the depacketizer, whatever it held, returns
   nothing until the last packet and then the caller's bytes *)
Theorem C13_lossless_big_partial : forall mtu o st, 2 <= mtu < 2097152 -> small_obu o -> mtu - 1 < zlen (elem o) ->
  exists f1 mid fl,
    av1_payload mtu (in_bytes o) = Ok ((80 :: f1) :: map (cons 208) mid ++ [144 :: fl]) /\
    f1 ++ concat mid ++ fl = elem o /\ Forall (fun p => zlen p <= mtu) ((80 :: f1) :: map (cons 208) mid ++ [144 :: fl]) /\
    snd (av1_run st ((80 :: f1) :: map (cons 208) mid ++ [144 :: fl]))
    = Ok [] :: map (fun _ => Ok []) mid ++ [Ok (in_bytes o)].
Proof. exact big_obu_lossless. Qed.
Print Assumptions C13_lossless_big_partial.

(* ==== the general statements (closed during the build; they subsume the _partial ones above) ====
   [spk] is a structured aggregation packet: flags Z, Y, N, whether the W field is used, and its
   OBU elements; [spk_bytes] is its wire image (aggregation header, LEB128 length in front of every
   element except the last one when W gives the count).  [run_elems] is what one packet means under
   the AV1 RTP specification (first element continues the pending OBU when Z, last element stays
   pending when Y), [glue] chains packets; [chain_ok] says Z of each packet equals Y of the previous
   one, the first Z is 0, every packet has >= 1 element, none empty, W <= 3, N only without Z. *)
From RTP Require Import Spec.Av1Rtp Proofs.C15_Av1 Proofs.C13_Stream Proofs.C13_PayStream Proofs.C13_Lossless.

(* decoder = specification, for any well-chained packet sequence whose glued elements are OBUs as
   transmitted (parsable header, size flag clear, no temporal delimiter / tile list): every call
   succeeds and the concatenated output is those OBUs with size fields restored, in order *)
Theorem C13_depack_sem : forall pks st pending, chain_ok pending pks ->
  (pending = true -> ad_buffer st <> []) ->
  Forall good_obu (fst (glue (ad_buffer st) pks)) ->
  exists outs, snd (av1_run st (map spk_bytes pks)) = oks outs /\
    concat outs = concat (map redeliver (fst (glue (ad_buffer st) pks))) /\
    (pks <> [] -> ad_buffer (fst (av1_run st (map spk_bytes pks))) = snd (glue (ad_buffer st) pks)).
Proof. exact av1_run_stream. Qed.
Print Assumptions C13_depack_sem.

(* lossless, end to end, for every OBU sequence (any types incl. sequence headers, temporal
   delimiters and tile lists; any extension headers; payloads below 2^32 bytes) and every MTU >= 2:
   the payloader output is a well-chained sequence of structured packets of at most MTU bytes whose
   glued elements are exactly the transmitted OBUs - temporal delimiters and tile lists removed, size
   flag cleared - and AV1Depacketizer, whatever it held before, returns them with size fields *)
Theorem C13_lossless : forall mtu obus st, 2 <= mtu < 2097152 -> Forall wf_iobu obus ->
  exists pks outs, av1_payload mtu (stream obus) = Ok (map spk_bytes pks) /\
    chain_ok false pks /\ Forall (fun p => zlen (spk_bytes p) <= mtu) pks /\
    glue [] pks = (map io_elem (filter transmitted obus), []) /\
    snd (av1_run st (map spk_bytes pks)) = oks outs /\
    concat outs = concat (map (io_bytes true) (filter transmitted obus)).
Proof. exact av1_lossless. Qed.
Print Assumptions C13_lossless.

(* the same when the last OBU of the temporal unit omits its size field *)
Theorem C13_lossless_unsized_last : forall mtu init lst st, 2 <= mtu < 2097152 -> Forall wf_iobu init -> wf_iobu lst ->
  exists pks outs, av1_payload mtu (stream_u init lst) = Ok (map spk_bytes pks) /\
    chain_ok false pks /\ Forall (fun p => zlen (spk_bytes p) <= mtu) pks /\
    glue [] pks = (map io_elem (filter transmitted (init ++ [lst])), []) /\
    snd (av1_run st (map spk_bytes pks)) = oks outs /\
    concat outs = concat (map (io_bytes true) (filter transmitted (init ++ [lst]))).
Proof. exact av1_lossless_u. Qed.
Print Assumptions C13_lossless_unsized_last.

(* the deprecated receive path in general (AV1Packet, a fresh one per packet, feeding one
   frame.AV1 assembler): for any well-chained packet sequence it returns exactly the glued
   elements - fragments across packets included - and keeps exactly the pending fragment *)
From RTP Require Import Proofs.C13_LegacyStream.

Theorem C13_legacy_sem : forall pks pending b, chain_ok pending pks -> (pending = true <-> b <> []) ->
  legacy_run (optb b) (map spk_bytes pks) = Some (optb (snd (glue b pks)), fst (glue b pks)).
Proof. exact legacy_run_stream. Qed.
Print Assumptions C13_legacy_sem.

(* ... hence, end to end: the payloader's output through the deprecated path yields the transmitted
   OBUs (as sent, without size fields) in order, nothing left pending *)
Theorem C13_lossless_legacy : forall mtu obus, 2 <= mtu < 2097152 -> Forall wf_iobu obus ->
  exists pkts, av1_payload mtu (stream obus) = Ok pkts /\
    legacy_run None pkts = Some (None, map io_elem (filter transmitted obus)).
Proof. exact av1_lossless_legacy. Qed.
Print Assumptions C13_lossless_legacy.

(* the rules about which OBUs may share a packet.  [groups obus] cuts the OBU sequence (dropped
   temporal delimiters and tile lists take part in the decisions, as in the code) into consecutive
   groups: a new group starts at every temporal delimiter, every sequence header, and every OBU whose
   extension header carries a temporal or spatial id different from the one remembered for the group.
   The payloader's output is the concatenation, group by group, of packet runs that are
   self-contained on the wire - first packet Z = 0, last packet Y = 0, at most MTU bytes each - and
   whose glued elements are exactly that group's transmitted OBUs.  So no packet holds OBUs of two
   groups, and by [groups_rules]: all extension headers inside a group carry the same temporal and
   spatial id (OBUs with different layer ids never share a packet), and a sequence header or
   temporal delimiter is always the first OBU of its group (a sequence header is the first OBU of
   its packet; packets do not span temporal units). *)
From RTP Require Import Proofs.C13_Groups.

Theorem C13_rule_layers : forall mtu obus, 2 <= mtu < 2097152 -> Forall wf_iobu obus ->
  exists pkss, av1_payload mtu (stream obus) = Ok (map spk_bytes (concat pkss)) /\
    Forall2 (grp_spec mtu) (groups obus) pkss /\
    Forall (fun g => layers_agree g /\ starts_only_first g) (groups obus) /\ concat (groups obus) = obus.
Proof. exact av1_layer_rule. Qed.
Print Assumptions C13_rule_layers.

Theorem C13_rule_layers_unsized_last : forall mtu init lst, 2 <= mtu < 2097152 -> Forall wf_iobu init -> wf_iobu lst ->
  exists pkss, av1_payload mtu (stream_u init lst) = Ok (map spk_bytes (concat pkss)) /\
    Forall2 (grp_spec mtu) (groups (init ++ [lst])) pkss /\
    Forall (fun g => layers_agree g /\ starts_only_first g) (groups (init ++ [lst])) /\
    concat (groups (init ++ [lst])) = init ++ [lst].
Proof. exact av1_layer_rule_u. Qed.
Print Assumptions C13_rule_layers_unsized_last.

(* non-vacuity: three distinct layer ids in a row, an OBU without extension header in between, a
   dropped tile list with yet another id: four groups, and the packets at MTU 9 *)
Example C13_rule_layers_nonvacuous :
  let a := mkIobu 6 (Some (0, 0, 0)) false [1; 2] in
  let b := mkIobu 6 None false [3] in
  let c := mkIobu 6 (Some (1, 0, 0)) false [4; 5] in
  let tl := mkIobu 8 (Some (2, 1, 0)) false [9] in
  let d := mkIobu 6 (Some (1, 1, 0)) false [6] in
  groups [a; b; c; tl; d] = [[a; b]; [c]; [tl]; [d]] /\
  av1_payload 9 (stream [a; b; c; tl; d]) = Ok [[32; 4; 52; 0; 1; 2; 48; 3]; [16; 52; 32; 4; 5]; [16; 52; 40; 6]].
Proof. split; vm_compute; reflexivity. Qed.

Example C13_lossless_nonvacuous :
  let obus := [mkIobu 2 None false []; mkIobu 1 None false [10; 11]; mkIobu 6 (Some (1, 0, 0)) false [1; 2; 3; 4; 5; 6; 7]] in
  Forall wf_iobu obus /\
  stream obus = [18; 0; 10; 2; 10; 11; 54; 32; 7; 1; 2; 3; 4; 5; 6; 7] /\
  av1_payload 6 (stream obus) = Ok [[104; 3; 8; 10; 11; 52]; [208; 32; 1; 2; 3; 4]; [144; 5; 6; 7]] /\
  map io_elem (filter transmitted obus) = [[8; 10; 11]; [52; 32; 1; 2; 3; 4; 5; 6; 7]].
Proof.
  split; [|split; [reflexivity|split; [vm_compute; reflexivity|reflexivity]]].
  repeat (apply Forall_cons || apply Forall_nil); (split; [split; [cbn; lia|cbn; auto; lia]|cbn; lia]).
Qed.

Example C13_zy_example :
  exists ps, av1_payload 5 [50; 6; 1; 2; 3; 4; 5; 6] = Ok ps /\ map (fun p => (zbit p, ybit p)) ps
             = [(false, true); (true, false)].
Proof. eexists. split; vm_compute; reflexivity. Qed.

Example C13_nonvacuous :
  write_leb128 300 = [172; 2] /\ read_leb128 [172; 2; 9] = Some (300, 2) /\
  hdr_in_range (mkObuHdr 6 (Some (2, 1, 0)) true false) /\
  obu_hdr_marshal (mkObuHdr 6 (Some (2, 1, 0)) true false) = [54; 72].
Proof. repeat split; vm_compute; try reflexivity; try discriminate. Qed.
