(* C20 — Clone returns an equal, fully independent copy.
   Stated over Model/Heap.v (explicit blocks; a slice is nil or a block).  "Equal" is equality
   of the fully resolved view: every scalar incl. PayloadOffset and padding size, CSRC, each
   extension id and value, payload, and the nil-ness of every slice.  "Independent" quantifies
   over every sequence of stores and allocations either holder can perform afterwards: stores
   into blocks it reaches, or into blocks allocated after the clone. *)
From Coq Require Import ZArith List Lia Bool.
From RTP Require Import Base.ListX Model.RtpPacket Model.Heap Proofs.C20_Clone.
Import ListNotations.

Theorem C20_equal : forall hp p v, read hp p = Some v ->
  exists suf p', clone hp p = Some (hp ++ suf, p') /\
                 read (hp ++ suf) p' = Some v /\ read (hp ++ suf) p = Some v /\
                 within (length hp) (length (hp ++ suf)) (reach (hp ++ suf) p') /\
                 NoDup (reach (hp ++ suf) p').
Proof. exact clone_spec. Qed.
Print Assumptions C20_equal.

Theorem C20_disjoint : forall hp p v hp' p', read hp p = Some v -> clone hp p = Some (hp', p') ->
  forall b, In b (reach hp' p) -> In b (reach hp' p') -> False.
Proof. exact clone_disjoint. Qed.
Print Assumptions C20_disjoint.

Theorem C20_clone_unaffected : forall hp p v hp' p' ms,
  read hp p = Some v -> clone hp p = Some (hp', p') ->
  Forall (owned_by hp' (reach hp' p)) ms -> read (fold_left apply_mut ms hp') p' = Some v.
Proof. exact independent_of_original. Qed.
Print Assumptions C20_clone_unaffected.

Theorem C20_original_unaffected : forall hp p v hp' p' ms,
  read hp p = Some v -> clone hp p = Some (hp', p') ->
  Forall (owned_by hp' (reach hp' p')) ms -> read (fold_left apply_mut ms hp') p = Some v.
Proof. exact independent_of_clone. Qed.
Print Assumptions C20_original_unaffected.

(* the frame lemma the two rest on: a read depends only on the blocks it reaches *)
Theorem C20_frame : forall ms hp p v, read hp p = Some v ->
  Forall (spares (reach hp p)) ms -> read (fold_left apply_mut ms hp) p = Some v.
Proof. exact frame. Qed.
Print Assumptions C20_frame.

(* Non-vacuity: a packet with CSRCs, two extensions (one with a nil value) and a payload in a heap
   that also holds an unrelated block; a store through the original is a permitted mutation and
   really changes the original. *)
Definition ex_heap : heap :=
  [CBytes [7]; CBytes [1; 2]%Z; CBytes [9; 9; 9]%Z; CElems [(1, Some 2%nat); (5, None)]%Z; CBytes [4; 5; 6]%Z].
Definition ex_packet : mpacket :=
  mkMPacket (mkHeader 2 false true true 96 17 1234 5678 [] 48862 []) 7 (Some 1%nat) (Some 3%nat) (Some 4%nat) 3.

Example C20_nonvacuous :
  (exists v, read ex_heap ex_packet = Some v /\ v_exts v = Some [(1, Some [9; 9; 9]); (5, None)]%Z) /\
  (exists hp' p', clone ex_heap ex_packet = Some (hp', p') /\ reach hp' p' = [5; 7; 6; 8]%nat /\
     owned_by hp' (reach hp' ex_packet) (MWrite 2 (CBytes [0; 0; 0]%Z)) /\
     read (apply_mut hp' (MWrite 2 (CBytes [0; 0; 0]%Z))) ex_packet <> read hp' ex_packet /\
     read (apply_mut hp' (MWrite 2 (CBytes [0; 0; 0]%Z))) p' = read hp' p').
Proof.
  split.
  - eexists. split; reflexivity.
  - eexists. eexists. split; [reflexivity|]. split; [reflexivity|]. split; [left; cbn; auto|].
    split; [discriminate|reflexivity].
Qed.
