(* C03 - RTP decoding conforms to RFC 3550 / RFC 8285 and re-encoding is stable.
   [wire] / [encode] / [meaning] (Spec/Rfc3550.v, Spec/Rfc8285.v) are an encoder and its
   intended reading written from the RFC text: any CSRC count, one-byte / two-byte blocks with
   padding bytes anywhere between elements, legacy blocks, RTP padding with free fill bytes. *)
From Coq Require Import ZArith List Lia.
From RTP Require Import Base.Bits Base.Res Base.ListX Base.Bytes Model.RtpPacket Spec.Rfc8285 Spec.Rfc3550 Proofs.Decode3550
  Proofs.C01_Roundtrip Model.HeaderExtViews Proofs.C03_Views Proofs.C03_Reencode.
Import ListNotations.
Open Scope Z_scope.

(* Every well-formed wire image (without the reserved id 15, see KF-C03-reserved15) is accepted
   and decoded to exactly the fields, elements and payload it was built from; the payload
   starts right after the extension block (n = length of the encoded header). *)
Theorem C03_decode_rfc_partial : forall w prev, wf_wire w ->
  exists offs,
  packet_unmarshal_into prev (encode w)
  = Ok (mkPktResult (meaning 0 w) (zlen (enc_header w)) offs).
Proof. exact packet_decode_wire. Qed.
Print Assumptions C03_decode_rfc_partial.

(* bytes already in the encoder's canonical layout are reproduced identically *)
Theorem C03_canonical : forall p, wf_packet p ->
  exists bs offs, packet_marshal p = Ok bs /\
  packet_unmarshal_into empty_packet bs = Ok (mkPktResult p (header_marshal_size (hdr p)) offs) /\
  packet_marshal p = Ok bs.
Proof.
  intros p Hp. destruct (packet_roundtrip p Hp) as (bs & Hm & _ & offs & Hu).
  exists bs, offs. auto.
Qed.
Print Assumptions C03_canonical.

(* "any accepted input re-marshals to bytes that decode to an equal packet": for EVERY byte string
   Packet.Unmarshal accepts into any Packet, fresh or used (layouts the encoder never produces included:
   padding bytes between elements, id 0 with a length nibble, the reserved id 15 stop, legacy
   profiles, RTP padding with any fill), the decoded packet is well-formed in the sense of C01,
   Marshal succeeds, and Unmarshal of those bytes yields exactly the same packet.  The one
   exception is exact: the P bit with a zero padding count is accepted by Unmarshal and refused
   by Marshal with errInvalidRTPPadding. *)
Theorem C03_reencode : forall prev buf r, bytes_ok buf ->
  packet_unmarshal_into prev buf = Ok r ->
  let q := pr_packet r in
  (padding (hdr q) = true /\ padding_size q = 0 /\ packet_marshal q = Err EInvalidPadding) \/
  (wf_packet q /\ exists bs offs, packet_marshal q = Ok bs /\ zlen bs = packet_marshal_size q /\
     packet_unmarshal_into prev bs = Ok (mkPktResult q (header_marshal_size (hdr q)) offs)).
Proof. exact packet_reencode_any. Qed.
Print Assumptions C03_reencode.

(* non-vacuity: a non-canonical accepted input (padding byte first, id 0 with two value bytes,
   RTP padding 2 with a non-zero fill byte) and the zero-count exception *)
Example C03_reencode_nonvacuous :
  (exists r, packet_unmarshal_into empty_packet
      [176; 96; 0; 1; 0; 0; 0; 2; 0; 0; 0; 3; 190; 222; 0; 1; 0; 1; 7; 8; 153; 5; 2] = Ok r /\
      extensions (hdr (pr_packet r)) = [mkExt 0 [7; 8]] /\ payload (pr_packet r) = [153] /\
      padding_size (pr_packet r) = 2) /\
  (exists r, packet_unmarshal_into empty_packet [160; 96; 0; 1; 0; 0; 0; 2; 0; 0; 0; 3; 9; 0] = Ok r /\
      padding_size (pr_packet r) = 0).
Proof. split; eexists; (split; [vm_compute; reflexivity|]); repeat split. Qed.

(* the standalone views of a one-byte / two-byte block (padding bytes anywhere) report the same
   ids, in order, and the same value per id as the decoded Header: [lookup (elems items)] is
   exactly what Header.GetExtension computes on the header C03_decode_rfc_partial yields *)
Theorem C03_onebyte_view : forall a b items id, Forall wf_item1 items -> 1 <= id <= 14 ->
  let buf := 190 :: 222 :: a :: b :: enc_items false items in
  onebyte_unmarshal buf = Ok buf /\
  onebyte_get_ids buf = Ok (map eid (elems items)) /\
  onebyte_get buf id = Ok (lookup (elems items) id).
Proof. exact onebyte_view_agrees. Qed.
Print Assumptions C03_onebyte_view.

(* D35, repaired in /repo: the one-byte view's Get used to walk on behind the reserved id 15, which
   GetIDs (and RFC 8285 4.2) end the block at - it returned values for ids that GetIDs does not list and
   could slice past the end of the block.  Whatever follows the reserved id ([rest]: any bytes, [nib]: any
   length nibble), both walks report exactly the elements in front of it, as Header.Unmarshal does. *)
Theorem C03_onebyte_view_reserved : forall a b items nib rest id, Forall wf_item1 items -> 1 <= id <= 14 -> 0 <= nib < 16 ->
  let buf := 190 :: 222 :: a :: b :: enc_items false items ++ (240 + nib) :: rest in
  onebyte_unmarshal buf = Ok buf /\
  onebyte_get_ids buf = Ok (map eid (elems items)) /\
  onebyte_get buf id = Ok (lookup (elems items) id).
Proof. exact onebyte_view_reserved. Qed.
Print Assumptions C03_onebyte_view_reserved.

(* BEDE 0002 | 10 AA | F0 | 00 2F BB 00 00: Get(2) used to read a 16-byte element at "2F" and panic *)
Example C03_view_reserved_repaired :
  onebyte_get [190; 222; 0; 2; 16; 170; 240; 0; 47; 187; 0; 0] 2 = Ok None /\
  onebyte_get [190; 222; 0; 2; 16; 170; 240; 0; 47; 187; 0; 0] 1 = Ok (Some [170]) /\
  onebyte_get_ids [190; 222; 0; 2; 16; 170; 240; 0; 47; 187; 0; 0] = Ok [1].
Proof. vm_compute. repeat split. Qed.

(* the two-byte form with any application bits: 0x100 followed by appbits, which a receiver ignores *)
Theorem C03_twobyte_view : forall appbits a b items id, 0 <= appbits < 16 -> Forall wf_item2 items -> 1 <= id <= 255 ->
  let buf := 16 :: appbits :: a :: b :: enc_items true items in
  twobyte_unmarshal buf = Ok buf /\
  twobyte_get_ids buf = Ok (map eid (elems items)) /\
  twobyte_get buf id = Ok (lookup (elems items) id).
Proof. exact twobyte_view_agrees. Qed.
Print Assumptions C03_twobyte_view.

(* the raw (RFC 3550) view keeps any other block as the byte string it was handed, under id 0, and the
   RFC 8285 views refuse it (and vice versa); every view re-serialises byte-identically *)
Theorem C03_raw_view : forall p0 p1 rest id, 0 <= p0 < 256 -> 0 <= p1 < 256 ->
  be16 p0 p1 <> profile_one_byte -> ext_form (be16 p0 p1) <> profile_two_byte ->
  let buf := p0 :: p1 :: rest in
  raw_unmarshal buf = Ok buf /\ raw_get_ids buf = [0] /\
  raw_get buf id = (if id =? 0 then Some buf else None) /\
  onebyte_unmarshal buf = Err ENotFound /\ twobyte_unmarshal buf = Err ENotFound.
Proof. exact raw_view. Qed.
Print Assumptions C03_raw_view.

(* KF-C03-raw-view-value: "decode the same well-formed block to the same ids and values" fails for the raw
   view's VALUE - it is the whole block, profile and length word included, where Header.GetExtension(0) of
   a packet carrying the same block reports the block without them.  (A witness evaluated on the model; the
   same block replayed on the implementation gives the same bytes.) *)
Theorem C03_raw_view_value_refuted :
  exists block r,
    block = [18; 52; 0; 1; 222; 173; 190; 239] /\
    raw_unmarshal block = Ok block /\ raw_get block 0 = Some block /\
    header_unmarshal_into empty_header ([144; 96; 0; 1; 0; 0; 0; 2; 0; 0; 0; 3] ++ block) = Ok r /\
    get_extension (hr_header r) 0 = Some [222; 173; 190; 239] /\
    raw_get block 0 <> get_extension (hr_header r) 0.
Proof.
  exists [18; 52; 0; 1; 222; 173; 190; 239]. eexists. split; [reflexivity|].
  split; [vm_compute; reflexivity|]. split; [vm_compute; reflexivity|].
  split; [vm_compute; reflexivity|]. split; [vm_compute; reflexivity|]. vm_compute. discriminate.
Qed.
Print Assumptions C03_raw_view_value_refuted.

Theorem C03_raw_view_refuses_8285 : forall appbits a b rest, 0 <= appbits < 16 ->
  raw_unmarshal (190 :: 222 :: a :: b :: rest) = Err ENotFound /\
  raw_unmarshal (16 :: appbits :: a :: b :: rest) = Err ENotFound.
Proof. exact raw_view_refuses_8285. Qed.
Print Assumptions C03_raw_view_refuses_8285.

Theorem C03_view_reserialise : forall payload dst,
  (zlen payload <= zlen dst ->
     view_marshal_to payload dst = Ok (payload ++ drop (zlen payload) dst, zlen payload)) /\
  (zlen dst < zlen payload -> view_marshal_to payload dst = Err EShortBuffer).
Proof. exact view_marshal_identity. Qed.
Print Assumptions C03_view_reserialise.

Theorem C03_header_lookup : forall h id, extension h = true -> get_extension h id = lookup (extensions h) id.
Proof. exact header_lookup. Qed.
Print Assumptions C03_header_lookup.

(* non-vacuity: padding before and between one-byte elements, 2 CSRCs, RTP padding *)
Definition example_wire : wire :=
  mkWire 2 true 96 7 8 9 [10; 11]
         (XOne [IPad; IElem 3 [170]; IPad; IPad; IElem 14 [1; 2; 3]; IPad; IPad; IPad])
         [5; 6; 7] [0; 0] true.
Example C03_nonvacuous : wf_wire example_wire.
Proof.
  unfold wf_wire, example_wire, wf_block.
  cbn [w_version w_pt w_seq w_ts w_ssrc w_csrc w_ext w_pad w_padfill block_body].
  split; [lia|]. split; [lia|]. split; [lia|]. split; [lia|]. split; [lia|].
  split; [vm_compute; discriminate|].
  split; [constructor; [lia|constructor; [lia|constructor]]|].
  split.
  - split; [|split; vm_compute; congruence].
    constructor; [exact I|]. constructor; [cbn; lia|]. constructor; [exact I|]. constructor; [exact I|].
    constructor; [cbn; lia|]. constructor; [exact I|]. constructor; [exact I|]. constructor; [exact I|]. constructor.
  - split; [intros _; vm_compute; discriminate|discriminate].
Qed.

(* D31, repaired in /repo: a two-byte block announced by 0x1005 (application bits 5) is a two-byte block -
   it used to be decoded as one legacy element holding the raw block *)
Example C03_appbits_repaired :
  let w := mkWire 2 false 96 1 2 3 [] (XTwo 5 [IElem 5 [170; 187; 204]; IElem 7 []; IPad]) [153] [] false in
  wf_wire w /\
  encode w = [144; 96; 0; 1; 0; 0; 0; 2; 0; 0; 0; 3; 16; 5; 0; 2; 5; 3; 170; 187; 204; 7; 0; 0; 153] /\
  exists r, packet_unmarshal_into empty_packet (encode w) = Ok r /\
    extension_profile (hdr (pr_packet r)) = 4101 /\
    extensions (hdr (pr_packet r)) = [mkExt 5 [170; 187; 204]; mkExt 7 []] /\ payload (pr_packet r) = [153].
Proof.
  cbv zeta. split.
  { unfold wf_wire, wf_block.
    cbn [w_version w_pt w_seq w_ts w_ssrc w_csrc w_ext w_pad w_padfill block_body].
    split; [lia|]. split; [lia|]. split; [lia|]. split; [lia|]. split; [lia|].
    split; [vm_compute; discriminate|]. split; [constructor|].
    split.
    - split; [|split; vm_compute; congruence].
      split; [lia|]. constructor; [cbn; lia|]. constructor; [cbn; lia|]. constructor; [exact I|]. constructor.
    - split; [intros H; discriminate H|reflexivity]. }
  split; [vm_compute; reflexivity|]. eexists. split; [vm_compute; reflexivity|]. repeat split.
Qed.

(* KF-C03-reserved15, as a witness evaluated on the model (vm_compute): a one-byte block of one
   word whose first element has the reserved id 15.  RFC 8285 4.2: processing of the block stops
   and the payload still starts after the block (offset 20, payload [153]); the decoder instead
   reports offset 17 and returns the rest of the block as payload. *)
Theorem C03_reserved15_refuted :
  exists bs r, packet_unmarshal_into empty_packet bs = Ok r /\
    bs = [144; 96; 0; 1; 0; 0; 0; 2; 0; 0; 0; 3; 190; 222; 0; 1; 241; 170; 187; 204; 153] /\
    pr_n r = 17 /\ payload (pr_packet r) = [170; 187; 204; 153].
Proof.
  exists [144; 96; 0; 1; 0; 0; 0; 2; 0; 0; 0; 3; 190; 222; 0; 1; 241; 170; 187; 204; 153]. eexists.
  split; [vm_compute; reflexivity|]. repeat split.
Qed.
Print Assumptions C03_reserved15_refuted.
