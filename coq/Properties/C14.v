(* C14 - H265.  Header accessors decode every field exactly (complete enumerations lifted to
   statements); the payloader / parser round trip for AddDONL off (C14_lossless_partial: every
   sequence of valid units, every MTU 4..65535); the parser against an independent RFC 7798 encoder for every form with and
   without DONL (C14_parse_forms, C14_paci_tsci) and its refusal of every truncation that cuts into
   the structure the form requires (C14_parse_truncated); the open known finding (DONL in every FU) as a witness. *)
From Coq Require Import ZArith List.
From RTP Require Import Base.Bits Base.Res Model.H265 Proofs.C14_Accessors Proofs.C09_Total.
Open Scope Z_scope.

(* RFC 7798 1.1.4: F(1) Type(6) LayerId(6) TID(3) - all 2^16 payload headers *)
Theorem C14_nalu_header : forall f ty layer tid,
  0 <= ty < 64 -> 0 <= layer < 64 -> 0 <= tid < 8 ->
  let h := (if f : bool then 32768 else 0) + ty * 512 + layer * 8 + tid in
  nh_f h = f /\ nh_type h = ty /\ nh_layer_id h = layer /\ nh_tid h = tid.
Proof. exact nalu_header_fields. Qed.
Print Assumptions C14_nalu_header.

Theorem C14_nalu_header_total : forall h, 0 <= h < 65536 ->
  h = (if nh_f h then 32768 else 0) + nh_type h * 512 + nh_layer_id h * 8 + nh_tid h /\
  0 <= nh_type h < 64 /\ 0 <= nh_layer_id h < 64 /\ 0 <= nh_tid h < 8.
Proof. exact nalu_header_decompose. Qed.
Print Assumptions C14_nalu_header_total.

(* 4.4.3: S(1) E(1) FuType(6) - all 2^8 FU headers *)
Theorem C14_fu_header : forall s e ty, 0 <= ty < 64 ->
  let b := (if s : bool then 128 else 0) + (if e : bool then 64 else 0) + ty in
  fu_s b = s /\ fu_e b = e /\ fu_type b = ty.
Proof. exact fu_header_fields. Qed.
Print Assumptions C14_fu_header.

(* 4.4.4: A(1) cType(6) PHSsize(5) F0 F1 F2 Y - all 2^16 PACI field words *)
Theorem C14_paci_fields : forall a ctype phs f0 f1 f2 y,
  0 <= ctype < 64 -> 0 <= phs < 32 ->
  let f := (if a : bool then 32768 else 0) + ctype * 512 + phs * 16
           + (if f0 : bool then 8 else 0) + (if f1 : bool then 4 else 0) + (if f2 : bool then 2 else 0)
           + (if y : bool then 1 else 0) in
  paci_a f = a /\ paci_ctype f = ctype /\ paci_phssize f = phs /\
  paci_f0 f = f0 /\ paci_f1 f = f1 /\ paci_f2 f = f2 /\ paci_y f = y.
Proof. exact paci_fields. Qed.
Print Assumptions C14_paci_fields.

(* 4.5: TL0PICIDX(8) IrapPicID(8) S E RES(6) from the three PHES bytes - all 2^24 TSCI triples *)
Theorem C14_tsci : forall p0 p1 p2, 0 <= p0 < 256 -> 0 <= p1 < 256 -> 0 <= p2 < 256 ->
  let t := tsci_of p0 p1 p2 in
  tsci_tl0picidx t = p0 /\ tsci_irap t = p1 /\
  tsci_s t = (p2 / 128 mod 2 =? 1) /\ tsci_e t = (p2 / 64 mod 2 =? 1) /\ tsci_res t = p2 mod 64.
Proof. exact tsci_fields. Qed.
Print Assumptions C14_tsci.

Theorem C14_parser_total : forall donl x, h265_unmarshal donl x <> Panic.
Proof. exact h265_unmarshal_total. Qed.
Print Assumptions C14_parser_total.

(* ---- fragmentation units: shape, parsing, recovery of the unit ---- *)
From RTP Require Import Proofs.C14_Fu Proofs.C08_H265 Base.ListX Base.Own Base.Bytes.
Import ListNotations.

(* a unit of more than MTU bytes (AddDONL off): the aggregation buffer is flushed, then at least two
   FUs follow whose chunks concatenate to the unit's body (h5fu_rel: S on the first only, E on the
   last only, the unit's type on all, the unit's F / layer id / TID in the payload header) *)
Theorem C14_fu_lossless_partial : forall mtu st b h0 h1 body, 4 <= mtu -> h5_donl_on st = false ->
  buf_ok mtu false b -> 0 <= h0 < 256 -> 0 <= h1 < 256 -> mtu < zlen (h0 :: h1 :: body) ->
  exists st1 out1 fs cs,
    h5_nalu mtu st b (h0 :: h1 :: body) = Ok (st1, mkH5Buf [] 0, out1 ++ fs) /\
    h5_flush st b = Ok (st1, out1) /\
    h5fu_rel (fu_b0 h0) h1 (Z.land (Z.shiftr h0 1) 63) true fs cs /\ concat cs = body /\
    Forall (fun c => 1 <= zlen c <= mtu - 3) cs /\ (2 <= length cs)%nat.
Proof. exact fu_unit_lossless. Qed.
Print Assumptions C14_fu_lossless_partial.

(* "... F/layer id/TID preserved": read through the header accessors, the payload header of a
   fragment (fu_b0 h0, h1) has the F bit, layer id and TID of the unit's header (h0, h1) and type 49,
   for all 2^16 unit headers (F set included) *)
Theorem C14_fu_header_preserves : forall h0 h1, 0 <= h0 < 256 -> 0 <= h1 < 256 ->
  let hdr := h0 * 256 + h1 in
  let fuhdr := fu_b0 h0 * 256 + h1 in
  nh_f fuhdr = nh_f hdr /\ nh_layer_id fuhdr = nh_layer_id hdr /\ nh_tid fuhdr = nh_tid hdr /\ nh_type fuhdr = 49.
Proof. exact fu_header_preserves. Qed.
Print Assumptions C14_fu_header_preserves.

(* H265Packet parses every such fragment to exactly those fields, and the unit's two header bytes
   are recovered from the payload header and the FU header as RFC 7798 4.4.3 prescribes *)
Theorem C14_fu_fragment_parses : forall h0 h1 first last c, 0 <= h0 < 128 -> 0 <= h1 < 256 -> c <> [] ->
  (first = true -> last = false) ->
  let ty := Z.land (Z.shiftr h0 1) 63 in
  let fuh := if first then Z.lor ty 128 else if last then Z.lor ty 64 else ty in
  let hdr := Z.lor (Z.shiftl (fu_b0 h0) 8) h1 in
  h265_unmarshal false (Some (fu_b0 h0 :: h1 :: fuh :: c)) = Ok (PFu hdr fuh None c) /\
  fu_s fuh = first /\ fu_e fuh = last /\ fu_type fuh = ty /\ fu_nal_header hdr fuh = [h0; h1].
Proof. exact fu_fragment_parses. Qed.
Print Assumptions C14_fu_fragment_parses.

(* IsPartitionHead on payloader output: true on a single NAL unit packet, on an aggregation packet
   and on the fragmentation unit that carries the S bit; false on every later fragment *)
From RTP Require Import Base.Own Proofs.C10_H264 Proofs.C14_Agg Proofs.PartitionHead.
Theorem C14_partition_head_fu : forall h0 h1 ty first fs cs, 0 <= h0 < 128 -> 0 <= h1 < 256 -> 0 <= ty < 64 ->
  h5fu_rel (fu_b0 h0) h1 ty first fs cs ->
  map (fun f => h265_is_partition_head (Some (own_bytes f))) fs = first :: repeat false (length fs - 1).
Proof. exact h5fu_heads. Qed.
Print Assumptions C14_partition_head_fu.

Theorem C14_partition_head_single : forall n, valid_nal5 n -> h265_is_partition_head (Some n) = true.
Proof. exact h265_single_head. Qed.
Print Assumptions C14_partition_head_single.


(* ---- single NAL unit packets and aggregation packets (AddDONL off) ---- *)
From RTP Require Import Proofs.C14_Agg.

Theorem C14_single_parses : forall n, valid_nal5 n ->
  match n with
  | h0 :: h1 :: body => h265_unmarshal false (Some n) = Ok (PSingle (Z.lor (Z.shiftl h0 8) h1) None body)
  | _ => False
  end.
Proof. exact single_parses. Qed.
Print Assumptions C14_single_parses.

(* two or more buffered units: one aggregation packet of exactly the accumulated size, payload
   header of type 48 with the lowest layer id and TID of the units, every unit behind its 16-bit
   size; H265Packet returns exactly the units, in order *)
Theorem C14_aggregation_parses : forall st b n1 n2 t mtu, h5_donl_on st = false ->
  hb_nalus b = n1 :: n2 :: t -> buf_ok mtu false b ->
  Forall (fun n => 1 <= zlen n < 65536) (n1 :: n2 :: t) ->
  exists p, h5_flush st b = Ok (st, [Own p]) /\
    h265_unmarshal false (Some p) = Ok (PAgg None n1 (map (fun n => (None, n)) (n2 :: t))) /\
    exists layer tid, p = put16 (u16 (agg_header layer tid)) ++ concat (map unit_bytes (n1 :: n2 :: t)) /\
      0 <= layer < 64 /\ 0 <= tid < 8 /\
      (forall n, In n (n1 :: n2 :: t) -> layer <= nh_layer_id (hdr_of_nalu n) /\ tid <= nh_tid (hdr_of_nalu n)).
Proof. exact aggregation_parses. Qed.
Print Assumptions C14_aggregation_parses.

(* ---- composition: a whole Payload call (AddDONL off, any SkipAggregation setting, MTU >= 4):
   every packet parses, and RFC 7798 reassembly of the parsed packets (single NAL unit packets,
   aggregation packets, FU runs from S to E) returns exactly the units of the input, in order.
   unit_ok: F = 0, type below 48, at least one payload byte - of any length (units of exactly MTU-1
   bytes included since repair D12).  AddDONL on with a fragmented unit is KF-C14-donl-every-fu. ---- *)
From RTP Require Import Proofs.C14_Lossless Model.AnnexB.

Theorem C14_lossless_partial : forall mtu st x l, 4 <= mtu <= 65535 -> h5_donl_on st = false ->
  Forall (unit_ok mtu) (emit_nalus (x :: l)) ->
  exists st' fs pkts, h265_payload st mtu (Some (x :: l)) = Ok (st', fs) /\
    Forall2 parses fs pkts /\ reassemble pkts None = emit_nalus (x :: l).
Proof. exact h265_lossless. Qed.
Print Assumptions C14_lossless_partial.

(* ---- the parser against an independent RFC 7798 encoder (Spec/Rfc7798.v): every well-formed
   single NAL unit, aggregation (any number of units), fragmentation-unit and PACI payload, with the
   decoding-order fields (DONL / DOND) when the receiver expects them and without when it does not,
   decodes to exactly the encoded field values; with the accessor theorems above this gives every
   bit field.  The TSCI extension is read from the first three PHES bytes exactly when F0 is set
   and PHSsize >= 3. ---- *)
From Coq Require Import Bool.
From RTP Require Import Spec.Rfc7798 Proofs.C14_Forms.

Theorem C14_parse_forms : forall with_donl f, wf_form f ->
  h265_unmarshal with_donl (Some (encode with_donl f)) = Ok (expected with_donl f).
Proof. exact parse_forms. Qed.
Print Assumptions C14_parse_forms.

Theorem C14_paci_tsci : forall a ctype phs f0 f1 f2 y phes,
  0 <= ctype < 64 -> 0 <= phs < 32 -> zlen phes = phs ->
  paci_tsci (paci_word a ctype phs f0 f1 f2 y) phes
  = Ok (if f0 && (3 <=? phs) then match phes with p0 :: p1 :: p2 :: _ => Some (tsci_of p0 p1 p2) | _ => None end
        else None).
Proof. exact paci_tsci_spec. Qed.
Print Assumptions C14_paci_tsci.

(* "... and reject truncated ones": [min_len d f] is the length of the structure the form cannot do
   without - payload header plus one byte (plus DONL); FU header plus one byte (plus DONL in a start
   fragment); PACI fields, the whole PHES and one byte; the aggregation header through the end of
   the second unit.  Every prefix shorter than that is refused with an error (never accepted, never
   a panic); the payload itself is at least that long.  A longer prefix of a single NAL unit packet, an
   FU or a PACI packet is itself a well-formed payload of the same form (a shorter NAL unit) and
   C14_parse_forms applies to it.  For an aggregation packet that is so only when the cut falls on the
   boundary of a unit; every other strict prefix - a cut inside the third or a later unit - is refused
   as well (C14_parse_truncated_aggregation; before the repair of D34 the unit that was cut short was
   dropped silently). *)
From RTP Require Import Proofs.C14_Trunc.

Theorem C14_parse_truncated : forall with_donl f k, wf_form f -> 0 <= k < min_len with_donl f ->
  exists e, h265_unmarshal with_donl (Some (take k (encode with_donl f))) = Err e.
Proof. exact parse_truncated. Qed.
Print Assumptions C14_parse_truncated.

Theorem C14_parse_truncated_aggregation : forall with_donl layer tid donl first others k,
  wf_form (FAgg layer tid donl first others) ->
  0 <= k < zlen (encode with_donl (FAgg layer tid donl first others)) ->
  (forall m, k <> zlen (encode with_donl (FAgg layer tid donl first (firstn m others)))) ->
  exists e, h265_unmarshal with_donl (Some (take k (encode with_donl (FAgg layer tid donl first others)))) = Err e.
Proof. exact agg_trunc_strict. Qed.
Print Assumptions C14_parse_truncated_aggregation.

Theorem C14_min_len_le : forall with_donl f, wf_form f -> min_len with_donl f <= zlen (encode with_donl f).
Proof. exact min_len_le. Qed.
Print Assumptions C14_min_len_le.

Example C14_parse_truncated_nonvacuous :
  let f := FAgg 1 2 513 [64; 1; 9] [(7, [2; 1]); (0, [66; 1; 5; 5])] in
  min_len true f = 14 /\ zlen (encode true f) = 21 /\
  h265_unmarshal true (Some (take 13 (encode true f))) = Err EShort /\
  h265_unmarshal true (Some (take 14 (encode true f))) = Ok (PAgg (Some 513) [64; 1; 9] [(Some 7, [2; 1])]).
Proof. repeat split; vm_compute; reflexivity. Qed.

(* D34, repaired in /repo: three units 40 01 09 / 42 01 07 07 / 26 01 05 05 05; cut after 14 to 19 of the 20
   bytes the packet used to be accepted as an aggregation of the first two units *)
Example C14_truncated_aggregation_repaired :
  let f := FAgg 0 1 0 [64; 1; 9] [(0, [66; 1; 7; 7]); (0, [38; 1; 5; 5; 5])] in
  zlen (encode false f) = 20 /\
  zlen (encode false (FAgg 0 1 0 [64; 1; 9] [(0, [66; 1; 7; 7])])) = 13 /\
  h265_unmarshal false (Some (take 13 (encode false f))) = Ok (PAgg None [64; 1; 9] [(None, [66; 1; 7; 7])]) /\
  Forall (fun k => h265_unmarshal false (Some (take k (encode false f))) = Err EShort) [14; 15; 16; 17; 18; 19].
Proof. repeat split; try (vm_compute; reflexivity). repeat constructor; vm_compute; reflexivity. Qed.

Example C14_parse_forms_nonvacuous :
  encode true (FAgg 1 2 513 [64; 1; 9] [(7, [2; 1]); (0, [66; 1; 5; 5])])
  = [96; 10; 2; 1; 0; 3; 64; 1; 9; 7; 0; 2; 2; 1; 0; 0; 4; 66; 1; 5; 5] /\
  encode false (FPaci 0 1 true 33 3 true false false true [9; 8; 129] [1; 2])
  = [100; 1; 194; 57; 9; 8; 129; 1; 2].
Proof. split; reflexivity. Qed.

(* ---- AddDONL on: "the decoding-order fields are placed where RFC 7798 puts them", for every
   sequence of units none of which needs fragmentation ([unit_fits]: the unit and its DONL fit one packet
   of the MTU; a fragmented unit under AddDONL is KF-C14-donl-every-fu), MTU 5 - the smallest at which
   a unit with a DONL can be sent at all - included.  The buffered units leave the payloader as exactly the RFC 7798 encoding
   WITH decoding-order fields (Spec/Rfc7798.v [encode true]) of an aggregation packet - DONL behind
   the payload header, a one-byte DOND in front of every further unit's size - or as a single NAL
   unit packet with the DONL between payload header and payload; parsed by H265Packet with DONL
   expected, every packet decodes with its fields present and the units come back in order. ---- *)
From Coq Require Import Lia.
From RTP Require Import Proofs.C14_Donl.

Theorem C14_donl_aggregation_is_rfc : forall st b n1 n2 t mtu, h5_donl_on st = true -> 0 <= h5_donl st < 65536 ->
  hb_nalus b = n1 :: n2 :: t -> buf_ok mtu true b ->
  Forall (fun n => zlen n < 65536) (n1 :: n2 :: t) ->
  exists layer tid,
    let f := FAgg layer tid (h5_donl st) n1 (donds 0 (n2 :: t)) in
    h5_flush st b = Ok (st, [Own (encode true f)]) /\ wf_form f /\
    (forall n, In n (n1 :: n2 :: t) -> layer <= nh_layer_id (hdr_of_nalu n) /\ tid <= nh_tid (hdr_of_nalu n)).
Proof. exact aggregation_donl_encodes. Qed.
Print Assumptions C14_donl_aggregation_is_rfc.

Theorem C14_lossless_donl_partial : forall mtu st x l, 4 <= mtu -> h5_donl_on st = true -> 0 <= h5_donl st < 65536 ->
  Forall (unit_fits mtu) (emit_nalus (x :: l)) ->
  exists st' fs pkts, h265_payload st mtu (Some (x :: l)) = Ok (st', fs) /\
    Forall2 parses_d fs pkts /\ Forall donl_placed pkts /\ reassemble pkts None = emit_nalus (x :: l).
Proof. exact h265_lossless_donl. Qed.
Print Assumptions C14_lossless_donl_partial.

Example C14_lossless_donl_nonvacuous :
  let au := [0; 0; 1; 2; 1; 10; 0; 0; 1; 66; 9; 11; 12; 0; 0; 1; 38; 1; 13] in
  Forall (unit_fits 30) (emit_nalus au) /\
  h265_payload (mkH265Pay true false 7) 30 (Some au)
  = Ok (mkH265Pay true false 7, [Own [96; 1; 0; 7; 0; 3; 2; 1; 10; 0; 0; 4; 66; 9; 11; 12; 1; 0; 3; 38; 1; 13]]) /\
  h265_payload (mkH265Pay true true 7) 30 (Some [0; 0; 1; 2; 1; 10])
  = Ok (mkH265Pay true true 8, [Own [2; 1; 0; 7; 10]]).
Proof.
  split; [|split; vm_compute; reflexivity].
  match goal with |- Forall _ ?l => let v := eval vm_compute in l in change l with v end.
  repeat (constructor; [split; [cbn [valid_nal5]; repeat split; try lia; vm_compute; reflexivity|unfold zlen; cbn [length]; lia]|]).
  constructor.
Qed.

(* ---- the open known finding, as a witness evaluated on the model (vm_compute); the same input
   replayed on the implementation gives the same bytes (corpus/C14.cases) ---- *)
(* The former KF-C14-lone-fu (D12), repaired in /repo: a NAL unit of MTU-1 bytes, which the fits
   test sends to the fragmentation branch although its payload fills exactly one fragment, used to
   become a single FU with S set and E clear; it is now sent whole as a single NAL unit packet
   (and C14_lossless_partial no longer excludes it). *)
Example C14_lone_fu_repaired :
  h265_payload (mkH265Pay false false 0) 10 (Some [0; 0; 0; 1; 2; 1; 10; 11; 12; 13; 14; 15; 16])
  = Ok (mkH265Pay false false 0, [Own [2; 1; 10; 11; 12; 13; 14; 15; 16]]) /\
  h265_payload (mkH265Pay true false 5) 10 (Some [0; 0; 0; 1; 2; 1; 10; 11; 12; 13; 14])
  = Ok (mkH265Pay true false 6, [Own [2; 1; 0; 5; 10; 11; 12; 13; 14]]).
Proof. split; vm_compute; reflexivity. Qed.

(* D28, repaired in /repo: a unit that fits a single NAL unit packet (together with its DONL) but not
   a fragment - 3 bytes under AddDONL at MTU 5, where a fragment has no room for payload - used to be
   dropped; it is now sent as the single NAL unit packet it fits.  A unit of exactly MTU bytes used
   to be cut into two FUs and is now sent whole as well (both forms are lossless). *)
Example C14_small_mtu_donl_repaired :
  h265_payload (mkH265Pay true false 5) 5 (Some [0; 0; 0; 1; 2; 1; 10])
  = Ok (mkH265Pay true false 6, [Own [2; 1; 0; 5; 10]]) /\
  Forall (unit_fits 5) (emit_nalus [0; 0; 0; 1; 2; 1; 10]) /\
  h265_payload (mkH265Pay false false 0) 10 (Some [0; 0; 0; 1; 2; 1; 10; 11; 12; 13; 14; 15; 16; 17])
  = Ok (mkH265Pay false false 0, [Own [2; 1; 10; 11; 12; 13; 14; 15; 16; 17]]).
Proof.
  split; [vm_compute; reflexivity|split; [|vm_compute; reflexivity]].
  match goal with |- Forall _ ?l => let v := eval vm_compute in l in change l with v end.
  repeat (constructor; [split; [cbn [valid_nal5]; repeat split; try lia; vm_compute; reflexivity|unfold zlen; cbn [length]; lia]|]).
  constructor.
Qed.

(* KF-C14-donl-every-fu: with AddDONL every fragment carries a DONL field; H265Packet (and
   RFC 7798) read it in the first fragment only, so the payload of the second fragment decodes
   with two extra bytes in front of the three bytes of the NAL unit it carries. *)
Theorem C14_lossless_refuted_donl :
  exists st mtu au st' f1 f2 rest, h265_payload st mtu (Some au) = Ok (st', Own f1 :: Own f2 :: rest) /\
    h265_unmarshal true (Some f1) = Ok (PFu 25089 129 (Some 0) [10; 11; 12]) /\
    h265_unmarshal true (Some f2) = Ok (PFu 25089 1 None [0; 1; 13; 14; 15]).
Proof.
  exists (mkH265Pay true false 0), 8,
    [0; 0; 0; 1; 2; 1; 10; 11; 12; 13; 14; 15; 16; 17; 18; 19; 20; 21; 22; 23; 24; 25; 26; 27; 28; 29; 30; 31].
  eexists. eexists. eexists. eexists.
  split; [vm_compute; reflexivity|]. split; vm_compute; reflexivity.
Qed.
Print Assumptions C14_lossless_refuted_donl.
