(* C01 - RTP packet encode/decode round trip is lossless.
   [wf_packet] is the property's notion of a well-formed Packet value (Proofs/C01_Roundtrip.v):
   version 0-3, payload type 0-127, at most 15 32-bit CSRCs, padding flag set exactly when the
   padding size is 1-255, and the extension is absent (profile 0, no elements) | one-byte
   (ids 1-14, values 1-16 bytes; also id 0 with a 2-16 byte value, which the decoder can produce and
   the encoder writes back unchanged) | two-byte (ids 1-255, values 0-255 bytes) | another profile with
   one id-0 value of whole 32-bit words; the block fits its 16-bit word count. *)
From Coq Require Import ZArith List Lia.
From RTP Require Import Base.Res Base.ListX Model.RtpPacket Proofs.C01_Roundtrip.
Import ListNotations.
Open Scope Z_scope.

(* Marshal succeeds, produces exactly MarshalSize() bytes, and Unmarshal of those bytes into a
   fresh Packet yields exactly p: every header field, every extension id and value in order,
   the payload bytes and the padding size; the header length is the header's MarshalSize. *)
Theorem C01_packet_roundtrip : forall p, wf_packet p ->
  exists bs, packet_marshal p = Ok bs /\ zlen bs = packet_marshal_size p /\
  exists offs, packet_unmarshal_into empty_packet bs
               = Ok (mkPktResult p (header_marshal_size (hdr p)) offs).
Proof. exact packet_roundtrip. Qed.
Print Assumptions C01_packet_roundtrip.

(* The same for Header.Marshal / Header.Unmarshal, whose reported length n is the header size
   (and the whole input is consumed). *)
Theorem C01_header_roundtrip : forall h, wf_header h ->
  exists bs, header_marshal h = Ok bs /\ zlen bs = header_marshal_size h /\
  exists offs, header_unmarshal_into empty_header bs
               = Ok (mkHdrResult h (header_marshal_size h) offs []).
Proof. exact header_roundtrip. Qed.
Print Assumptions C01_header_roundtrip.

(* non-vacuity: 15 CSRCs, a 16-byte one-byte element that ends flush with the packet,
   an empty payload and 255 bytes of padding *)
Definition example_packet : packet :=
  mkPacket (mkHeader 2 true true true 127 65535 4294967295 4294967295 (repeat 4294967295 15)
                     profile_one_byte [mkExt 14 (repeat 255 16); mkExt 1 [7; 7; 7]])
           [] 255.
Example C01_nonvacuous : wf_packet example_packet.
Proof.
  unfold wf_packet, wf_header, wf_exts, example_packet.
  cbn [hdr padding padding_size version payload_type sequence_number timestamp ssrc csrc extension
       extension_profile extensions].
  split; [|lia].
  repeat (split; [lia|]).
  split; [vm_compute; discriminate|].
  split; [apply Forall_forall; intros c Hc; apply repeat_spec in Hc; lia|].
  split; [|vm_compute; discriminate].
  left. split; [reflexivity|].
  constructor; [split; cbn; lia|]. constructor; [split; cbn; lia|]. constructor.
Qed.

(* Marshal loses nothing: two well-formed packets (headers) with the same wire image are the same
   packet (header) - no field, flag, CSRC, extension element or padding size is dropped or folded *)
Theorem C01_packet_marshal_injective : forall p1 p2 bs, wf_packet p1 -> wf_packet p2 ->
  packet_marshal p1 = Ok bs -> packet_marshal p2 = Ok bs -> p1 = p2.
Proof. exact packet_marshal_injective. Qed.
Print Assumptions C01_packet_marshal_injective.

Theorem C01_header_marshal_injective : forall h1 h2 bs, wf_header h1 -> wf_header h2 ->
  header_marshal h1 = Ok bs -> header_marshal h2 = Ok bs -> h1 = h2.
Proof. exact header_marshal_injective. Qed.
Print Assumptions C01_header_marshal_injective.
