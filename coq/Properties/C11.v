(* C11 - VP8 packetization is lossless and its descriptor decodes per RFC 7741.
   [desc]/[encode_desc]/[fields_of] (Spec/Rfc7741.v) are the payload descriptor written from the
   RFC figure; [frag_rel st first fs cs] says the fragments fs are the chunks cs, each behind the
   descriptor the payloader emits in state st (S bit on the first only). *)
From Coq Require Import ZArith List.
From RTP Require Import Base.Res Base.ListX Base.Own Model.Vp8 Spec.Rfc7741 Proofs.C11_Vp8.
Import ListNotations.
Open Scope Z_scope.

(* every frame, every MTU larger than the descriptor: the chunks concatenate to the frame, no
   fragment exceeds the MTU or is empty, fragments are owned copies, and the running picture id
   advances by one modulo 2^15 *)
Theorem C11_payload : forall st mtu frame, pid_ok st -> vp8_header_size st < mtu -> frame <> [] ->
  exists fs cs,
    vp8_payload st mtu (Some frame)
    = Ok (mkVp8Pay (vp_enable st) ((vp_pid st + 1) mod 32768), fs) /\
    frag_rel st true fs cs /\ concat cs = frame /\ cs <> [] /\
    Forall (fun c => 1 <= zlen c /\ vp8_header_size st + zlen c <= mtu) cs.
Proof. exact vp8_payload_spec. Qed.
Print Assumptions C11_payload.

(* each fragment parses back to its chunk: S (and IsPartitionHead) only on the first, partition
   index 0, and, with picture ids on, I set and the frame's id in the 7-bit form below 128 and the
   15-bit form from 128 (desc_of) *)
Theorem C11_fragment_decodes : forall st first c prev, pid_ok st ->
  vp8_unmarshal prev (Some (vp8_header st first ++ c)) = Ok (fields_of (desc_of st first) c).
Proof. exact vp8_fragment_decodes. Qed.
Print Assumptions C11_fragment_decodes.

(* IsPartitionHead on the payloader's fragments: true on the first, false on every other, with and
   without picture ids *)
From RTP Require Import Proofs.PartitionHead.
Theorem C11_partition_head : forall st first c, vp8_is_partition_head (Some (vp8_header st first ++ c)) = first.
Proof. exact vp8_head. Qed.
Print Assumptions C11_partition_head.


(* VP8Packet decodes every RFC 7741 descriptor (all X/I/M/L/T/K combinations, all field values) to
   exactly the encoded values and returns the bytes that follow it, whatever the receiver held *)
Theorem C11_decode : forall d prev rest, wf_desc d ->
  vp8_unmarshal prev (Some (encode_desc d ++ rest)) = Ok (fields_of d rest).
Proof. exact vp8_decode_desc. Qed.
Print Assumptions C11_decode.

(* descriptors that are cut short are rejected *)
Theorem C11_truncated : forall d prev k, wf_desc d -> 0 <= k < zlen (encode_desc d) ->
  exists e, vp8_unmarshal prev (Some (take k (encode_desc d))) = Err e.
Proof. exact vp8_truncated_rejected. Qed.
Print Assumptions C11_truncated.

Theorem C11_total_reuse : forall prev prev' x,
  vp8_unmarshal prev x <> Panic /\ vp8_unmarshal prev x = vp8_unmarshal prev' x.
Proof. intros. split; [apply vp8_unmarshal_total|apply vp8_unmarshal_reuse]. Qed.
Print Assumptions C11_total_reuse.

(* ---- end to end, over histories: any sequence of non-empty frames through one payloader, every
   emitted payload handed in order to one reused VP8Packet (vp8_run), gives back every frame as the
   concatenation of the decoded payloads, with S on the first packet of a frame only, partition
   index 0, N clear, and - with picture ids on - X and I set and the picture id of the k-th frame
   equal to (first id + k) mod 2^15 in every one of its packets (frames_ok8 / frame_ok8) ---- *)
From RTP Require Import Proofs.VpHistory.
Theorem C11_history : forall frames st mtu prev, pid_ok st -> (if vp_enable st then 4 else 1) < mtu ->
  Forall (fun f => f <> []) frames ->
  exists r, vp8_run st mtu prev frames = Ok r /\ frames_ok8 (vp_enable st) (vp_pid st) frames r.
Proof. exact vp8_history. Qed.
Print Assumptions C11_history.

Example C11_history_nonvacuous :
  let prev := mkVp8Pkt 1 1 1 7 1 1 1 1 99 98 3 1 31 [9] in
  exists r, vp8_run (mkVp8Pay true 32767) 6 prev [[1; 2; 3]; [4]] = Ok r /\
    map (map v8_payload) r = [[[1; 2]; [3]]; [[4]]] /\
    map (map v8_picture_id) r = [[32767; 32767]; [0]] /\ map (map v8_s) r = [[1; 0]; [1]].
Proof. eexists. split; [vm_compute; reflexivity|repeat split]. Qed.

Example C11_nonvacuous :
  vp8_payload (mkVp8Pay true 128) 6 (Some [1; 2; 3])
  = Ok (mkVp8Pay true 129, [Own [144; 128; 128; 128; 1; 2]; Own [128; 128; 128; 128; 3]]).
Proof. vm_compute. reflexivity. Qed.
